import CddVerif.Py.Ast
import CddVerif.Py.Str
/-!
# Model of `cdd sync_properties` (C13)

Ports, decision by decision, over the shared flat AST `PyAst`:

* `cdd/shared/ast_utils.py`: `annotate_ancestry` (`_location`, `_idx`), `find_in_ast`, `RewriteAtQuery`
  (`generic_visit`, `visit_FunctionDef`, the `replaced` flag and the *mutable* `replacement_node`), `emit_arg`,
  `it2literal`/`set_value`, `get_value` (as used for the transferred default);
* `cdd/shared/source_transformer.py:ast_parse` (the module docstring is re-indented on every parse);
* `cdd/compound/sync_properties.py`: `sync_property` / `sync_properties` for ONE (input-param, output-param) pair.

The code is modelled as it is (quirks included).  What is *not* modelled (assumptions, exercised by the
correspondence in `harness/props/c13.py`):

* expressions are opaque `ast.unparse` text: the model assumes that no node *inside* an expression, inside a
  `Stmt.other`, or inside a docstring carries a `_location` equal to the search path (the real `annotate_ancestry`
  gives string constants the location `parent_location + [value]`; the harness detects such clashes on the real
  annotated tree and keeps those cases out of the model's domain);
* `ast.unparse`, `black.format_str` and the re-parse are AST-preserving on well-formed trees; on the ill-formed trees
  the rewrite can build (an `ast.arg` in a statement list, an `ast.arg` as a default value) the observed outcome is
  modelled where it is determined by the tree: an `arg` stored as a default value always makes `black` raise
  `InvalidInput` (nothing written); an `arg` that is the first statement of the module or the only statement of a class
  body is emitted as valid text (`class K:p: str`); an `arg` elsewhere in a statement list is glued to the text of the
  previous line and the outcome depends on that text — the model stops with `Err.argInBody` there;
* `str.format` of the wrap template is modelled for templates whose only braces are `{output_param}` fields, and the
  substituted text is assumed to be a fixed point of `ast.unparse ∘ ast.parse` (templates in `unparse` normal form);
* `--input-eval`: the evaluated value of the input variable is a parameter (CPython evaluates it);
* this file models ONE (input-param, output-param) pair per call; several pairs in one call (stale `_location` / `_idx`
  between the rewrites, input nodes moved into the output tree) are modelled in `Model/SyncPropertiesMulti.lean`.
-/
namespace SyncProps
open PyAst

abbrev Loc := List String

/-- what `find_in_ast` can return / what `RewriteAtQuery.replacement_node` can hold -/
inductive Node where
  | stmt (s : Stmt)
  | arg (a : Arg)
deriving Repr, Inhabited

inductive Err where
  | assertion        -- AssertionError
  | notImplemented   -- NotImplementedError
  | typeError
  | keyError
  | indexError
  | invalidOutput    -- black.InvalidInput: the rewritten tree does not unparse to valid source; nothing is written
  /-- the rewrite put an `ast.arg` into a statement list: `ast.unparse` glues its text to the previous line, and whether
      that is valid source (`x: np.ndarray` + `self` = `x: np.ndarrayself`) or makes `black` raise depends on the text -/
  | argInBody
  | unsupported      -- outside the model's domain
deriving DecidableEq, Repr, Inhabited

/-! ## 1. `annotate_ancestry` -/

/-- is this `ast.unparse` text of an assignment target a plain `ast.Name`? -/
def isNameText (s : String) : Bool :=
  match s.toList with
  | [] => false
  | cs => cs.all fun c => c.isAlphanum || c == '_' || c.toNat ≥ 128

/-- the last component of a statement's `_location` (`none`: the node gets no `_location`) -/
def ownName? : Stmt → Option String
  | .fn _ n _ _ _ _ => some n
  | .cls n _ _ _ _ => some n
  | .ann t _ _ => if isNameText t then some t else none
  | .assign ts _ => if ts.all isNameText then ts.getLast? else none
  | _ => none

/-- `_location` of a statement whose parent in `ast.walk` has the name `parent` (`none`: `Module`).
    NB: only the *immediate* parent's name is used (`name + [child.name]`), not the full path. -/
def locOf (parent : Option String) (s : Stmt) : Option Loc :=
  (ownName? s).map fun n => parent.toList ++ [n]

def isSelfCls (n : String) : Bool := n == "self" || n == "cls"

/-- `1` when the first of `args.args` is `self`/`cls` (any function, at module level too), else `0` -/
def selfOffset (a : Args) : Int :=
  match a.args with
  | x :: _ => if isSelfCls x.name then 1 else 0
  | [] => 0

/-- an `ast.arg` after `annotate_ancestry`: `_idx` and `_location` -/
structure AArg where
  arg : Arg
  idx : Int
  loc : Loc
deriving Repr

def annotFrom (fnLoc : Loc) : Int → List Arg → List AArg
  | _, [] => []
  | i, x :: xs => ⟨x, i, fnLoc ++ [x.name]⟩ :: annotFrom fnLoc (i + 1) xs

/-- `enumerate(args.args, -1 if first is self/cls else 0)` -/
def annotArgs (fnLoc : Loc) (a : Args) : List AArg := annotFrom fnLoc (- selfOffset a) a.args
/-- `enumerate(args.kwonlyargs, 0)` -/
def annotKwonly (fnLoc : Loc) (a : Args) : List AArg := annotFrom fnLoc 0 a.kwonly

/-- one annotated node, for the `c13.annotate` correspondence op -/
structure LocEntry where
  kind : String
  loc : Loc
  idx : Option Int
deriving Repr

def stmtKind : Stmt → String
  | .fn false .. => "fn" | .fn true .. => "afn" | .cls .. => "cls" | .ann .. => "ann" | .assign .. => "assign"
  | .strExpr _ => "str" | .expr _ => "expr" | .other _ => "other"

mutual
/-- all `_location`/`_idx` attributes the statement tree receives, in depth-first order -/
def annotateStmt (parent : Option String) : Stmt → List LocEntry
  | .fn a n g b d r =>
    let loc := parent.toList ++ [n]
    ⟨stmtKind (.fn a n g b d r), loc, none⟩ ::
      ((annotArgs loc g).map fun x => ⟨"arg", x.loc, some x.idx⟩) ++
      ((annotKwonly loc g).map fun x => ⟨"kwonly", x.loc, some x.idx⟩) ++ annotateList (some n) b
  | .cls n _ _ b _ => ⟨"cls", parent.toList ++ [n], none⟩ :: annotateList (some n) b
  | s => match locOf parent s with
    | some l => [⟨stmtKind s, l, none⟩]
    | none => []
def annotateList (parent : Option String) : List Stmt → List LocEntry
  | [] => []
  | s :: ss => annotateStmt parent s ++ annotateList parent ss
end

def annotateAncestry (m : Module) : List LocEntry := annotateList none m

/-! ## 2. `find_in_ast` -/

inductive Cursor where
  | stmts (ss : List Stmt)
  | argNode

inductive ForOut where
  | ret (n : Node)
  /-- `cursor = child_node.body; break` -/
  | brk (child : Stmt) (cur : List String)
  /-- loop exhausted: last loop variable, whether `cursor` was rebound to an `ast.arg`, rest of the query -/
  | done (last : Option Stmt) (cursorIsArg : Bool) (cur : List String)

/-- the `for child_node in cursor:` loop; `query` and `current_search` are mutated by every `FunctionDef` met -/
def forLoop (search : Loc) (parent : Option String) :
    List Stmt → String → List String → Option Stmt → Bool → ForOut
  | [], _, cur, last, ca => .done last ca cur
  | s :: rest, query, cur, _, ca =>
    if locOf parent s == some search then .ret (.stmt s) else
    match s with
    | .fn false _ a _ _ _ =>
      -- any FunctionDef, whatever its name: pops the next query component and looks for an argument of that name
      let (query', cur') := match cur with
        | q :: c => (q, c)
        | [] => (query, [])
      match a.args.find? (·.name == query') with
      | some x => if cur'.isEmpty then .ret (.arg x) else forLoop search parent rest query' cur' (some s) true
      | none => forLoop search parent rest query' cur' (some s) ca
    | .ann t _ _ =>
      if isNameText t && t == query then .ret (.stmt s) else forLoop search parent rest query cur (some s) ca
    | _ =>
      if s.defName? == some query then .brk s cur else forLoop search parent rest query cur (some s) ca

/-- the `while len(current_search):` loop (fuel = number of remaining pops + 1) -/
def whileLoop (search : Loc) : Nat → Option Stmt → Option String → Cursor → List String → Except Err (Option Node)
  | 0, _, _, _, _ => .ok none
  | fuel + 1, child, parent, cursor, cur =>
    match cur with
    | [] => .ok none
    | q :: rest =>
      if rest.isEmpty && (child.bind Stmt.defName?) == some q then .ok (child.map .stmt) else
      match cursor with
      | .argNode => .error .typeError   -- `for child_node in <ast.arg>`
      | .stmts ss =>
        match forLoop search parent ss q rest child false with
        | .ret n => .ok (some n)
        | .brk c cur' => whileLoop search fuel (some c) c.defName? (.stmts c.body) cur'
        | .done last ca cur' => whileLoop search fuel last parent (if ca then .argNode else .stmts ss) cur'

def findInAst (search : Loc) (m : Module) : Except Err (Option Node) :=
  if search.isEmpty then .error .unsupported
  else whileLoop search (search.length + 1) none none (.stmts m) search

/-! ## 3. `RewriteAtQuery` -/

structure RState where
  /-- `self.replaced` -/
  replaced : Bool := false
  /-- `self.replacement_node` (mutable: `visit_FunctionDef` converts it to an `ast.arg`) -/
  repl : Node
  /-- the tree holds an `ast.arg` where a statement / an expression belongs: `black` will raise -/
  poisoned : Bool := false
  /-- exception raised during the visit -/
  err : Option Err := none
  /-- ghost (no influence on the result): a default was overwritten in a function in which nothing was replaced -/
  phantom : Bool := false
deriving Inhabited

/-- index into `defaults` computed by `visit_FunctionDef` from an `_idx` (after fix a5a844c) -/
def defaultIndex (a : Args) (idx : Int) : Int :=
  idx + selfOffset a - ((a.args.length : Int) - (a.defaults.length : Int))

/-- `next((_arg._idx for _arg in node.args.args if _arg.arg == name), None)` -/
def idxOfName (fnLoc : Loc) (a : Args) (name : String) : Option Int :=
  ((annotArgs fnLoc a).find? (·.arg.name == name)).map (·.idx)

/-- the `Assign` variant: `next(filter(None, (_arg._idx if _arg.arg == target.id else None for target … for _arg …)), None)`;
    `filter(None, …)` also drops the index `0` -/
def idxOfTargets (fnLoc : Loc) (a : Args) (targets : List String) : Option Int :=
  ((targets.flatMap fun t => (annotArgs fnLoc a).filterMap fun x => if x.arg.name == t then some x.idx else none).find?
    (· != 0))

def inRange (k : Int) (n : Nat) : Bool := decide (0 ≤ k) && decide (k < (n : Int))

/-- `emit_arg(self.replacement_node)` as `visit_FunctionDef` computes it: an `AnnAssign` gives `name: annotation`,
    an `Assign` gives `name: <its value>` (`set_arg(arg=targets[0].id, annotation=value)`), an `ast.arg` is kept;
    `none`: the `assert isinstance(…, ast.arg)` fails (a `ClassDef`/`FunctionDef` replacement) -/
def asArg : Node → Option Arg
  | .arg r => some r
  | .stmt (.ann t ann _) => some { name := t, ann := some ann }
  | .stmt (.assign (t0 :: _) v) => some { name := t0, ann := some v }
  | .stmt _ => none

structure Prep where
  args : Args
  /-- `emit_arg(self.replacement_node)` -/
  repl : Option Arg
  poisoned : Bool := false
  /-- a default was overwritten -/
  touched : Bool := false

/-- first half of `visit_FunctionDef` (default transfer, conversion of the replacement node to an `ast.arg`) -/
def prepare (fnLoc : Loc) (a : Args) (node : Node) : Prep :=
  match node with
  | .stmt (.ann t _ (some val)) =>
    -- `get_value(AnnAssign)` is its `.value` node; a missing value (`NoneStr`) is in `none_types`: no transfer
    match idxOfName fnLoc a t with
    | some idx =>
      if inRange (defaultIndex a idx) a.defaults.length then
        { args := { a with defaults := a.defaults.set (defaultIndex a idx).toNat val }, repl := asArg node, touched := true }
      else { args := a, repl := asArg node }
    | none => { args := a, repl := asArg node }
  | .stmt (.assign ts _) =>
    match idxOfTargets fnLoc a ts with
    | some idx =>
      -- `get_value(<the new ast.arg>)` is the arg node itself: it is stored as the default value
      if inRange (defaultIndex a idx) a.defaults.length then
        { args := a, repl := asArg node, poisoned := true, touched := true }
      else { args := a, repl := asArg node }
    | none => { args := a, repl := asArg node }
  | _ => { args := a, repl := asArg node }

/-- `for idx in range(len(arg_l)): if arg_l[idx]._location == self.search: arg_l[idx] = …; break` -/
def replaceFirst (fnLoc search : Loc) (r : Arg) : List Arg → List Arg × Bool
  | [] => ([], false)
  | x :: xs =>
    if fnLoc ++ [x.name] == search then (r :: xs, true)
    else ((replaceFirst fnLoc search r xs).1.cons x, (replaceFirst fnLoc search r xs).2)

/-- `RewriteAtQuery.visit_FunctionDef` (the body is never visited) -/
def visitFn (search : Loc) (parent : Option String) (st : RState) (name : String) (a : Args) : Args × RState :=
  let loc := parent.toList ++ [name]
  if st.replaced || st.err.isSome || loc != search.dropLast then (a, st) else
  let p := prepare loc a st.repl
  match p.repl with
  | none => (a, { st with err := some .assertion })
  | some r =>
    let ra := replaceFirst loc search r p.args.args
    let rk := replaceFirst loc search r p.args.kwonly
    ({ p.args with args := ra.1, kwonly := rk.1 },
     { st with repl := .arg r, replaced := ra.2 || rk.2, poisoned := st.poisoned || p.poisoned,
               phantom := st.phantom || (p.touched && !(ra.2 || rk.2)) })

/-- what the emitted file holds where the replacement node lands in a statement list.
    `argOk`: first statement of the module / only statement of a class body. -/
def placeAsStmt (argOk : Bool) : Node → Stmt × Bool
  | .stmt r => (r, false)
  | .arg a =>
    if argOk then
      (match a.ann with
       | some t => .ann a.name t none
       | none => .expr a.name, false)
    else (.other "<ast.arg>", true)   -- `true`: `Err.argInBody`

/-- `generic_visit` reaching the `ast.arg` nodes of an `AsyncFunctionDef`: replaced by the raw replacement node -/
def visitAsyncArgs (fnLoc search : Loc) (st : RState) : List Arg → List Arg × RState
  | [] => ([], st)
  | x :: xs =>
    if !st.replaced && st.err.isNone && fnLoc ++ [x.name] == search then
      match st.repl with
      | .arg r => (r :: xs, { st with replaced := true })
      | .stmt _ => (x :: xs, { st with err := some .unsupported })
    else ((visitAsyncArgs fnLoc search st xs).1.cons x, (visitAsyncArgs fnLoc search st xs).2)

def hit (search : Loc) (parent : Option String) (st : RState) (s : Stmt) : Bool :=
  !st.replaced && st.err.isNone && locOf parent s == some search

def place (argOk : Bool) (st : RState) : Stmt × RState :=
  ((placeAsStmt argOk st.repl).1,
   { st with replaced := true, err := if (placeAsStmt argOk st.repl).2 then some .argInBody else st.err })

mutual
/-- `NodeTransformer.visit` on a statement: `visit_FunctionDef` for `FunctionDef`, `generic_visit` otherwise -/
def visit (search : Loc) (parent : Option String) (argOk : Bool) (st : RState) : Stmt → Stmt × RState
  | .fn false name a body ds ret =>
    ((.fn false name (visitFn search parent st name a).1 body ds ret), (visitFn search parent st name a).2)
  | .fn true name a body ds ret =>
    if hit search parent st (.fn true name a body ds ret) then place argOk st else
    let loc := parent.toList ++ [name]
    let r1 := visitAsyncArgs loc search st a.args
    let r2 := visitAsyncArgs loc search r1.2 a.kwonly
    let rb := visitList search (some name) (body.length == 1) r2.2 body
    (.fn true name { a with args := r1.1, kwonly := r2.1 } rb.1 ds ret, rb.2)
  | .cls n bs ks body ds =>
    if hit search parent st (.cls n bs ks body ds) then place argOk st else
    let rb := visitList search (some n) (body.length == 1) st body
    (.cls n bs ks rb.1 ds, rb.2)
  | .ann t a v => if hit search parent st (.ann t a v) then place argOk st else (.ann t a v, st)
  | .assign ts v => if hit search parent st (.assign ts v) then place argOk st else (.assign ts v, st)
  | .strExpr s => (.strExpr s, st)
  | .expr s => (.expr s, st)
  | .other s => (.other s, st)
def visitList (search : Loc) (parent : Option String) (argOk : Bool) (st : RState) : List Stmt → List Stmt × RState
  | [] => ([], st)
  | s :: ss =>
    let r := visit search parent argOk st s
    let rs := visitList search parent false r.2 ss
    (r.1 :: rs.1, rs.2)
end

/-- `RewriteAtQuery(search, replacement_node).visit(module)` -/
def rewriteAtQuery (search : Loc) (repl : Node) (m : Module) : Module × RState :=
  visitList search none true { repl := repl } m

/-- the rewrite followed by `assert rewrite_at_query.replaced is True` and the emit (`ast.unparse` + `black` + write) -/
def rewriteChecked (search : Loc) (repl : Node) (m : Module) : Except Err Module :=
  let r := rewriteAtQuery search repl m
  match r.2.err with
  | some e => .error e
  | none =>
    if !r.2.replaced then .error .assertion
    else if r.2.poisoned then .error .invalidOutput
    else .ok r.1

/-! ## 4. `ast_parse`: the module docstring is re-indented (`inspect.cleandoc` + `reindent`) -/

def expandTabs : Nat → List Char → List Char
  | _, [] => []
  | col, c :: cs =>
    if c == '\t' then List.replicate (8 - col % 8) ' ' ++ expandTabs (col + (8 - col % 8)) cs
    else if c == '\n' || c == '\r' then c :: expandTabs 0 cs
    else c :: expandTabs (col + 1) cs

def indentOf (l : List Char) : Nat := l.length - (Py.lstrip l).length

def dropLeadingEmpty : List (List Char) → List (List Char)
  | [] => []
  | l :: ls => if l.isEmpty then dropLeadingEmpty ls else l :: ls

/-- `inspect.cleandoc` -/
def cleandoc (doc : List Char) : List Char :=
  let lines := Py.split1 (expandTabs 0 doc) '\n'
  let margins := (lines.drop 1).filterMap fun l => if (Py.lstrip l).isEmpty then none else some (indentOf l)
  let lines := match lines with
    | [] => []
    | l0 :: ls => Py.lstrip l0 :: (match margins.min? with
        | some m => ls.map (fun (l : List Char) => l.drop m)
        | none => ls)
  let lines := (dropLeadingEmpty lines.reverse).reverse
  let lines := dropLeadingEmpty lines
  Py.join ['\n'] lines

def tab : List Char := [' ', ' ', ' ', ' ']

/-- `cdd.shared.pure_utils.reindent(s)`: every line left-stripped and indented by one tab, the first tab removed -/
def reindent (s : List Char) : List Char :=
  Py.replace1 (Py.join ['\n'] ((Py.split1 s '\n').map fun l => tab ++ Py.lstrip l)) tab []

/-- new value of the module docstring after `ast_parse` -/
def remitDoc (doc : String) : String :=
  String.ofList (('\n' :: tab) ++ reindent (cleandoc doc.toList) ++ ('\n' :: tab))

/-- `ast_parse(source)` seen on the flat AST: only the module docstring changes -/
def astParse : Module → Module
  | .strExpr d :: rest => .strExpr (remitDoc d) :: rest
  | m => m

/-! ## 5. `it2literal`, wrap template, `sync_property` -/

/-- an evaluated constant: a `str`, or anything else as the text `ast.unparse(ast.Constant(v))` -/
inductive Const where
  | str (s : String)
  | raw (text : String)
deriving Repr

/-- `set_value`: one pair of surrounding quotes is stripped from a `str` longer than 2 -/
def setValueStr (s : List Char) : List Char :=
  if s.length > 2 then
    match s.head?, s.getLast? with
    | some a, some b => if (a == '"' && b == '"') || (a == '\'' && b == '\'') then (s.drop 1).dropLast else s
    | _, _ => s
  else s

def hexDigit (n : Nat) : Char := if n < 10 then Char.ofNat (48 + n) else Char.ofNat (87 + n)

def reprChar (q c : Char) : List Char :=
  if c == '\\' then ['\\', '\\'] else if c == q then ['\\', q]
  else if c == '\n' then ['\\', 'n'] else if c == '\r' then ['\\', 'r'] else if c == '\t' then ['\\', 't']
  else if c.toNat < 32 || c.toNat == 127 then ['\\', 'x', hexDigit (c.toNat / 16), hexDigit (c.toNat % 16)]
  else [c]

/-- `repr(s)` for strings of ASCII and printable non-ASCII code points -/
def pyReprStr (s : List Char) : List Char :=
  let q := if s.contains '\'' && !s.contains '"' then '"' else '\''
  q :: (s.flatMap (reprChar q)) ++ [q]

def constText : Const → List Char
  | .str s => pyReprStr (setValueStr s.toList)
  | .raw t => t.toList

/-- `ast.unparse(it2literal(it))`; empty `it`: `it[0]` raises `IndexError` -/
def it2literal (vals : List Const) : Except Err String :=
  match vals with
  | [] => .error .indexError
  | vs => .ok (String.ofList ("Literal[".toList ++ Py.join [',', ' '] (vs.map constText) ++ [']']))

def placeholder : List Char := "{output_param}".toList

/-- `ast.unparse(ast.parse(tmpl.format(output_param=ann)).body[0].value)` for templates in normal form -/
def formatWrap (tmpl ann : String) : Except Err String :=
  let pieces := Py.splitOn tmpl.toList placeholder
  if pieces.any fun p => p.contains '{' || p.contains '}' then .error .unsupported
  else .ok (String.ofList (Py.join ann.toList pieces))

def wrapNode (tmpl : String) : Node → Except Err Node
  | .arg a =>
    match a.ann with
    | none => .ok (.arg a)
    | some t => (formatWrap tmpl t).map fun w => .arg { a with ann := some w }
  | .stmt (.ann t a v) => (formatWrap tmpl a).map fun w => .stmt (.ann t w v)
  | .stmt _ => .error .notImplemented

/-- `strip_split(param, ".")` -/
def stripSplit (p : String) : Loc := (Py.split1 p.toList '.').map fun c => String.ofList (Py.strip c)

structure Config where
  inputEval : Bool := false
  inputParam : String
  outputParam : String
  wrap : Option String := none
  /-- `--input-eval`: value bound to `inputParam` after executing the input module (`none`: not bound → `KeyError`) -/
  evalValue : Option (List Const) := none

/-- `--input-eval`: `AnnAssign(target=Name(search[-1]), annotation=it2literal(local[input_param]), value=None)` -/
def evalNode (cfg : Config) (search : Loc) : Except Err Node :=
  if cfg.inputParam.toList.contains '.' then .error .notImplemented
  else match cfg.evalValue with
    | none => .error .keyError
    | some vs => (it2literal vs).map fun lit => Node.stmt (.ann (search.getLast?.getD "") lit none)

/-- `find_in_ast(strip_split(input_param), input_ast)`, then `assert replacement_node is not None` -/
def foundNode (cfg : Config) (input : Module) : Except Err Node :=
  match findInAst (stripSplit cfg.inputParam) input with
  | .error e => .error e
  | .ok none => .error .assertion
  | .ok (some n) => .ok n

/-- the replacement node: evaluated `Literal[…]` under `--input-eval`, else `find_in_ast`; then the wrap template -/
def replacementNode (cfg : Config) (search : Loc) (input : Module) : Except Err Node :=
  match (if cfg.inputEval then evalNode cfg search else foundNode cfg input) with
  | .error e => .error e
  | .ok node =>
    match cfg.wrap with
    | none => .ok node
    | some t => wrapNode t node

/-- `sync_property` + emit, on already parsed modules -/
def syncProperty (cfg : Config) (input output : Module) : Except Err Module :=
  match replacementNode cfg (stripSplit cfg.outputParam) input with
  | .error e => .error e
  | .ok repl => rewriteChecked (stripSplit cfg.outputParam) repl output

structure Files where
  input : Module
  output : Module

/-- `sync_properties` for one pair: both files are parsed (`ast_parse`), only the output file is written -/
def syncProperties (cfg : Config) (fs : Files) : Except Err Files :=
  (syncProperty cfg (astParse fs.input) (astParse fs.output)).map fun out => { fs with output := out }

end SyncProps
