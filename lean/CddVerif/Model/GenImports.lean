import CddVerif.Py.Str
import CddVerif.Py.Ast
/-!
# Model of import inference (`cdd/shared/ast_utils.py`: `infer_imports`, `get_types`, `symbol_to_import`,
# `optimise_imports`) — property C19

`infer_imports(node)` looks at every node of `ast.walk(node)`:

* a node with an `annotation` (`AnnAssign`, `arg`) contributes `get_types(annotation)`: the head of a subscript and the
  names of its *first* subscript level only (nothing when the slice is itself a subscript);
* every `Name` node contributes its `id` — and `ast.walk` reaches the `Name` nodes nested at any depth inside an
  annotation, a base, a call, a default value …  This is what makes nested typing names importable;
* (`type_comment` is `None` on everything the class / argparse / SQLAlchemy emitters build, so that branch is not modelled).

The names are de-duplicated, sorted, resolved by `symbol_to_import` against an ordered list of `(module, __all__)`
tables (a parameter here: the tables depend on the interpreter), grouped by module.  `None` is returned when nothing
resolves.  `optimise_imports` merges the per-symbol results.

Expressions are `ast.unparse` text in `PyAst`; `exprNames` recovers the `Name` identifiers from that text with a small
lexer (exact on calls / attributes / subscripts / constants / keyword arguments / containers / operators, which is what
the three working emitters produce), `parseAnn` parses an annotation text into a small tree for `get_types`.
-/
namespace GenImports
open Py PyAst

/-! ## lexer: `Name` identifiers of an unparsed expression -/

def isIdStart (c : Char) : Bool := isAsciiLetter c || c == '_' || c.toNat ≥ 128
def isIdCont (c : Char) : Bool := isIdStart c || isAsciiDigit c

/-- `keyword.kwlist` of CPython 3.12 -/
def pyKeywords : List Str := [
  ['F','a','l','s','e'], ['N','o','n','e'], ['T','r','u','e'], ['a','n','d'], ['a','s'], ['a','s','s','e','r','t'],
  ['a','s','y','n','c'], ['a','w','a','i','t'], ['b','r','e','a','k'], ['c','l','a','s','s'],
  ['c','o','n','t','i','n','u','e'], ['d','e','f'], ['d','e','l'], ['e','l','i','f'], ['e','l','s','e'],
  ['e','x','c','e','p','t'], ['f','i','n','a','l','l','y'], ['f','o','r'], ['f','r','o','m'], ['g','l','o','b','a','l'],
  ['i','f'], ['i','m','p','o','r','t'], ['i','n'], ['i','s'], ['l','a','m','b','d','a'], ['n','o','n','l','o','c','a','l'],
  ['n','o','t'], ['o','r'], ['p','a','s','s'], ['r','a','i','s','e'], ['r','e','t','u','r','n'], ['t','r','y'],
  ['w','h','i','l','e'], ['w','i','t','h'], ['y','i','e','l','d']]
def isKeyword (s : Str) : Bool := pyKeywords.contains s

def isStrPrefix (acc : Str) : Bool :=
  acc.length ≤ 2 && acc.all (fun c => c == 'b' || c == 'B' || c == 'f' || c == 'F' || c == 'r' || c == 'R' || c == 'u' || c == 'U')

inductive LexSt where
  | top (afterDot : Bool)
  | ident (acc : List Char) (afterDot : Bool)
  | num
  | str (q : Char) (triple : Bool)
  | esc (q : Char) (triple : Bool)
  /-- skip `n` more characters (the rest of a triple quote), then continue inside a triple-quoted string (`some q`) or at the top -/
  | skip (n : Nat) (into : Option Char)

/-- is the finished identifier `acc` (reversed) a `Name`?  `next` = the following characters -/
def identIsName (acc : List Char) (afterDot : Bool) (next : List Char) : Bool :=
  let kwarg := match next with
    | '=' :: '=' :: _ => false
    | '=' :: _ => true
    | _ => false
  !afterDot && !isKeyword acc.reverse && !kwarg

def afterSkip : Option Char → LexSt
  | some q => .str q true
  | Option.none => .top false

def lexGo : LexSt → List Char → List Str
  | .top _, [] => []
  | .ident acc ad, [] => if identIsName acc ad [] then [acc.reverse] else []
  | .num, [] => []
  | .str _ _, [] => []
  | .esc _ _, [] => []
  | .skip _ _, [] => []
  | .skip n into, _ :: cs => if n ≤ 1 then lexGo (afterSkip into) cs else lexGo (.skip (n - 1) into) cs
  | .top ad, c :: cs =>
    if isIdStart c then lexGo (.ident [c] ad) cs
    else if isAsciiDigit c then lexGo .num cs
    else if c == '\'' || c == '"' then
      (if cs.take 2 == [c, c] then lexGo (.skip 2 (some c)) cs else lexGo (.str c false) cs)
    else if c == '.' then lexGo (.top true) cs
    else lexGo (.top false) cs
  | .ident acc ad, c :: cs =>
    if isIdCont c then lexGo (.ident (c :: acc) ad) cs
    else if (c == '\'' || c == '"') && isStrPrefix acc then
      (if cs.take 2 == [c, c] then lexGo (.skip 2 (some c)) cs else lexGo (.str c false) cs)
    else
      let here := if identIsName acc ad (c :: cs) then [acc.reverse] else []
      -- the current character is then read from the top state
      here ++ (if c == '.' then lexGo (.top true) cs else lexGo (.top false) cs)
  | .num, c :: cs =>
    if isIdCont c || c == '.' then lexGo .num cs else lexGo (.top false) cs
  | .str q t, c :: cs =>
    if c == '\\' then lexGo (.esc q t) cs
    else if c == q then
      (if t then (if cs.take 2 == [q, q] then lexGo (.skip 2 Option.none) cs else lexGo (.str q t) cs)
       else lexGo (.top false) cs)
    else lexGo (.str q t) cs
  | .esc q t, _ :: cs => lexGo (.str q t) cs

/-- ids of the `ast.Name` nodes of an unparsed expression (document order, with repetitions) -/
def exprNames (src : Str) : List Str := lexGo (.top false) src
def exprNamesS (src : String) : List Str := exprNames src.toList

/-! ## a small tree for annotation expressions (`get_types` looks at the node classes) -/

inductive TExpr where
  | name (id : Str)
  | attr (value : TExpr) (attr : Str)
  | sub (value slice : TExpr)
  | tuple (elts : List TExpr)
  | list (elts : List TExpr)
  | str (s : Str)
  /-- `None` -/
  | none
  /-- any other constant (number, `True`, `False`, `...`) -/
  | const
  /-- an expression outside this grammar (operators, calls, …) -/
  | unknown
deriving Repr, Inhabited

inductive Tok where
  | id (s : Str) | dot | lb | rb | lp | rp | comma | str (s : Str) | num | ell
deriving Repr, DecidableEq

/-- tokenizer for annotation text; `none` = a character outside the annotation grammar -/
def tokGo : List Char → Nat → Option (List Tok)
  | _, 0 => some []
  | [], _ => some []
  | c :: cs, fuel + 1 =>
    if c == ' ' then tokGo cs fuel
    else if isIdStart c then
      let rest := cs.dropWhile isIdCont
      let idt := c :: cs.takeWhile isIdCont
      (tokGo rest fuel).map (Tok.id idt :: ·)
    else if isAsciiDigit c then
      let rest := cs.dropWhile (fun d => isIdCont d || d == '.')
      (tokGo rest fuel).map (Tok.num :: ·)
    else if c == '\'' || c == '"' then
      -- single-line string literal as `repr` writes it; backslash escapes are kept verbatim (only `\\` and `\q` matter here)
      let rec strGo (q : Char) : List Char → List Char → Option (Str × List Char)
        | [], _ => Option.none
        | '\\' :: d :: r, acc => strGo q r (d :: acc)
        | d :: r, acc => if d == q then some (acc.reverse, r) else strGo q r (d :: acc)
      match strGo c cs [] with
      | some (s, rest) => (tokGo rest fuel).map (Tok.str s :: ·)
      | Option.none => Option.none
    else if c == '.' then
      (match cs with
       | '.' :: '.' :: rest => (tokGo rest fuel).map (Tok.ell :: ·)
       | _ => (tokGo cs fuel).map (Tok.dot :: ·))
    else if c == '[' then (tokGo cs fuel).map (Tok.lb :: ·)
    else if c == ']' then (tokGo cs fuel).map (Tok.rb :: ·)
    else if c == '(' then (tokGo cs fuel).map (Tok.lp :: ·)
    else if c == ')' then (tokGo cs fuel).map (Tok.rp :: ·)
    else if c == ',' then (tokGo cs fuel).map (Tok.comma :: ·)
    else Option.none
def tokenize (s : Str) : Option (List Tok) := tokGo s (s.length + 1)

mutual
/-- `expr := atom trailer*` -/
def pExpr : Nat → List Tok → Option (TExpr × List Tok)
  | 0, _ => Option.none
  | fuel + 1, toks =>
    match toks with
    | Tok.id s :: rest =>
      let a := if s == ['N','o','n','e'] then TExpr.none
               else if s == ['T','r','u','e'] || s == ['F','a','l','s','e'] then TExpr.const
               else if isKeyword s then TExpr.unknown else TExpr.name s
      (match a with
       | TExpr.unknown => Option.none
       | _ => pTrail fuel a rest)
    | Tok.str s :: rest => pTrail fuel (TExpr.str s) rest
    | Tok.num :: rest => pTrail fuel TExpr.const rest
    | Tok.ell :: rest => pTrail fuel TExpr.const rest
    | Tok.lb :: rest =>
      (match pElts fuel rest with
       | some (es, _, Tok.rb :: rest') => pTrail fuel (TExpr.list es) rest'
       | _ => Option.none)
    | Tok.lp :: rest =>
      (match pElts fuel rest with
       | some ([e], false, Tok.rp :: rest') => pTrail fuel e rest'
       | some (es, _, Tok.rp :: rest') => pTrail fuel (TExpr.tuple es) rest'
       | _ => Option.none)
    | _ => Option.none
/-- trailers: `.attr` and `[slice]` -/
def pTrail : Nat → TExpr → List Tok → Option (TExpr × List Tok)
  | 0, _, _ => Option.none
  | fuel + 1, a, toks =>
    match toks with
    | Tok.dot :: Tok.id s :: rest => pTrail fuel (TExpr.attr a s) rest
    | Tok.lb :: rest =>
      (match pElts fuel rest with
       | some ([e], false, Tok.rb :: rest') => pTrail fuel (TExpr.sub a e) rest'
       | some (es, _, Tok.rb :: rest') => pTrail fuel (TExpr.sub a (TExpr.tuple es)) rest'
       | _ => Option.none)
    | _ => some (a, toks)
/-- comma-separated expressions up to a closing bracket: (elements, trailing comma?, rest) -/
def pElts : Nat → List Tok → Option (List TExpr × Bool × List Tok)
  | 0, _ => Option.none
  | fuel + 1, toks =>
    match toks with
    | Tok.rb :: _ => some ([], false, toks)
    | Tok.rp :: _ => some ([], false, toks)
    | _ =>
      match pExpr fuel toks with
      | some (e, Tok.comma :: rest) =>
        (match rest with
         | Tok.rb :: _ => some ([e], true, rest)
         | Tok.rp :: _ => some ([e], true, rest)
         | _ => match pElts fuel rest with
                | some (es, _, rest') => some (e :: es, true, rest')
                | Option.none => Option.none)
      | some (e, rest) => some ([e], false, rest)
      | Option.none => Option.none
end

/-- parse an annotation's `ast.unparse` text; anything outside the grammar is `.unknown` (a node class `get_types` ignores) -/
def parseAnn (s : Str) : TExpr :=
  match tokenize s with
  | some toks =>
    (match pExpr (2 * toks.length + 2) toks with
     | some (e, []) => e
     | _ => TExpr.unknown)
  | Option.none => TExpr.unknown

/-! ## `get_types` -/

/-- what `get_types` yields: a string, or some other Python object (an int, an AST node, `Ellipsis` …) -/
inductive Item where
  | s (v : Str)
  | nonStr
deriving Repr, DecidableEq

def noneStr : Str := ['`','`','`','(','N','o','n','e',')','`','`','`']

/-- `get_value(get_value(elt))` for one element of a tuple slice -/
def gv2 : TExpr → Item
  | .name x => .s x
  | .sub (.name h) _ => .s h          -- Subscript.value is the head `Name`; its `id` on the second call
  | .sub _ _ => .nonStr
  | .attr (.name x) _ => .s x         -- Attribute.value is a `Name`
  | .attr _ _ => .nonStr
  | .str s => .s s
  | .none => .s noneStr
  | .const => .nonStr
  | .tuple _ => .nonStr
  | .list _ => .nonStr
  | .unknown => .nonStr

def literalName : Str := ['L','i','t','e','r','a','l']

/-- `get_types(node)` for an annotation node: `ok none` = the implicit `None` (filtered out by the caller),
    `error` = the `assert isinstance(node.value, Name)` -/
def getTypes : TExpr → Except Unit (Option (List Item))
  | .name x => .ok (some [.s x])
  | .sub (.name h) (.name x) => .ok (some [.s h, .s x])
  | .sub (.name h) (.tuple elts) => .ok (some (.s h :: (if h == literalName then [] else elts.map gv2)))
  | .sub (.name _) _ => .ok Option.none
  | .sub _ _ => .error ()
  | _ => .ok Option.none

mutual
/-- all `Name` ids of the tree (what `ast.walk` reaches) -/
def TExpr.names : TExpr → List Str
  | .name x => [x]
  | .attr v _ => v.names
  | .sub v s => v.names ++ s.names
  | .tuple es => TExpr.namesL es
  | .list es => TExpr.namesL es
  | _ => []
def TExpr.namesL : List TExpr → List Str
  | [] => []
  | e :: es => e.names ++ TExpr.namesL es
end

/-! ## the names `infer_imports` collects from one generated statement -/

def isImportSrc (src : String) : Bool := src.startsWith "import " || src.startsWith "from "

def argAnns (a : Args) : List String := a.all.filterMap (·.ann)

mutual
/-- ids of all `Name` nodes below a statement (`ast.walk`), order irrelevant -/
def walkNames : Stmt → List Str
  | .fn _ _ args body decos returns =>
    decos.flatMap exprNamesS ++ (argAnns args).flatMap exprNamesS ++ args.defaults.flatMap exprNamesS ++
    (args.kwDefaults.filterMap id).flatMap exprNamesS ++ (returns.toList).flatMap exprNamesS ++ walkNamesL body
  | .cls _ bases keywords body decos =>
    decos.flatMap exprNamesS ++ bases.flatMap exprNamesS ++ keywords.flatMap exprNamesS ++ walkNamesL body
  | .ann target ann value => exprNamesS target ++ exprNamesS ann ++ (value.toList).flatMap exprNamesS
  | .assign targets value => targets.flatMap exprNamesS ++ exprNamesS value
  | .strExpr _ => []
  | .expr src => exprNamesS src
  | .other src => if isImportSrc src then [] else exprNamesS src
def walkNamesL : List Stmt → List Str
  | [] => []
  | s :: ss => walkNames s ++ walkNamesL ss
end

mutual
/-- the annotation texts `node_to_importable_name` hands to `get_types` (`AnnAssign.annotation`, `arg.annotation`) -/
def annotations : Stmt → List String
  | .fn _ _ args body _ _ => argAnns args ++ annotationsL body
  | .cls _ _ _ body _ => annotationsL body
  | .ann _ ann _ => [ann]
  | _ => []
def annotationsL : List Stmt → List String
  | [] => []
  | s :: ss => annotations s ++ annotationsL ss
end

inductive CollectErr where
  /-- `get_types`: `assert isinstance(node.value, Name)` -/
  | assertion
  /-- `sorted(frozenset(...))` over strings and a non-string object -/
  | unorderable
deriving Repr, DecidableEq

/-- the annotation part: strings yielded by `get_types` over all annotations -/
def annItems : List TExpr → Except CollectErr (List Item)
  | [] => .ok []
  | a :: as =>
    match getTypes a with
    | .error _ => .error .assertion
    | .ok r => match annItems as with
               | .error e => .error e
               | .ok rest => .ok (r.getD [] ++ rest)

def itemStrs : List Item → List Str
  | [] => []
  | .s v :: r => v :: itemStrs r
  | .nonStr :: r => itemStrs r

/-- every string `infer_imports` will try to resolve for one statement (before `frozenset` / `sorted`) -/
def collect (s : Stmt) : Except CollectErr (List Str) :=
  match annItems ((annotations s).map (fun a => parseAnn a.toList)) with
  | .error e => .error e
  | .ok items => if items.contains .nonStr then .error .unorderable else .ok (itemStrs items ++ walkNames s)

/-! ## resolution, grouping, `optimise_imports` (on name lists: everything below evaluates in the kernel) -/

/-- ordered `(module, __all__)` tables: `DEFAULT_MODULES_TO_ALL` of the running interpreter -/
abbrev Tables := List (Str × List Str)

/-- `symbol_to_import`: the first module whose table lists the symbol -/
def symbolToImport (t : Tables) (sym : Str) : Option Str :=
  match t with
  | [] => Option.none
  | (m, all) :: rest => if all.contains sym then some m else symbolToImport rest sym

/-- Python's `str` order (code points, lexicographic) -/
def strLt : Str → Str → Bool
  | [], [] => false
  | [], _ :: _ => true
  | _ :: _, [] => false
  | a :: as, b :: bs => a.toNat < b.toNat || (a == b && strLt as bs)

/-- insertion into a strictly increasing list (drops a duplicate) -/
def insertS (x : Str) : List Str → List Str
  | [] => [x]
  | y :: ys => if strLt x y then x :: y :: ys else if x == y then y :: ys else y :: insertS x ys
/-- `sorted(frozenset(l))` -/
def sortDedup (l : List Str) : List Str := l.foldr insertS []

/-- an `ImportFrom(module, names=[alias(name, asname)], level=0)` -/
structure Imp where
  module : Str
  names : List (Str × Option Str)
deriving Repr, DecidableEq

/-- `infer_imports` on the collected strings of one statement: `none` when nothing resolves -/
def inferFromNames (t : Tables) (collected : List Str) : Option (List Imp) :=
  let syms := sortDedup collected
  let pairs := syms.filterMap (fun s => (symbolToImport t s).map (fun m => (s, m)))
  let mods := sortDedup (pairs.map (·.2))
  let imps := mods.map (fun m => { module := m, names := (pairs.filter (·.2 == m)).map (fun p => (p.1, Option.none)) : Imp })
  if imps.isEmpty then Option.none else some imps

/-- stable insertion by `module` of an element that preceded everything in the (sorted) list -/
def insertImp (x : Imp) : List Imp → List Imp
  | [] => [x]
  | y :: ys => if strLt y.module x.module then y :: insertImp x ys else x :: y :: ys
/-- `sorted(imports, key=attrgetter("module"))` (stable) -/
def sortImps (l : List Imp) : List Imp := l.foldr insertImp []

/-- the aliases of one node that were not seen before; `seen` holds `(module, name, asname)` triples.
    (The code's key is the *concatenation* `module + name + str(asname)`; on the four module tables no two different
    triples concatenate to the same string, because no public name begins with `_extensions`.) -/
def keepNew (m : Str) : List (Str × Option Str) → List (Str × Str × Option Str) → List (Str × Option Str) × List (Str × Str × Option Str)
  | [], seen => ([], seen)
  | (n, a) :: rest, seen =>
    if seen.contains (m, n, a) then keepNew m rest seen
    else
      let r := keepNew m rest ((m, n, a) :: seen)
      ((n, a) :: r.1, r.2)

def optimiseGo : List Imp → List (Str × Str × Option Str) → List Imp
  | [], _ => []
  | i :: is, seen =>
    let r := keepNew i.module i.names seen
    if r.1.isEmpty then optimiseGo is r.2 else { module := i.module, names := r.1 } :: optimiseGo is r.2

/-- `optimise_imports`: nodes sorted by module (stable); each node keeps the aliases not seen before and is dropped
    when none is left — one `ImportFrom` per *node*, not per module -/
def optimise (l : List Imp) : List Imp := optimiseGo (sortImps l) []

inductive InferErr where
  | collect (e : CollectErr)
  /-- `chain(*map(infer_imports, …))` over a `None`: `TypeError: 'NoneType' object is not iterable` -/
  | noneNotIterable
deriving Repr, DecidableEq

/-- `chain(*map(infer_imports, functions_and_classes))` — argument unpacking evaluates every `infer_imports` call
    first, then `chain` fails on the first `None` when iterated -/
def chainAll (t : Tables) : List (List Str) → Except InferErr (List Imp)
  | [] => .ok []
  | c :: cs =>
    match inferFromNames t c, chainAll t cs with
    | _, .error e => .error e
    | Option.none, .ok _ => .error .noneNotIterable
    | some imps, .ok rest => .ok (imps ++ rest)

/-- `optimise_imports(chain(*map(infer_imports, functions_and_classes)))` on collected name lists -/
def inferredFromNames (t : Tables) (cs : List (List Str)) : Except InferErr (List Imp) :=
  (chainAll t cs).map optimise

def collectAll : List Stmt → Except InferErr (List (List Str))
  | [] => .ok []
  | s :: ss =>
    match collect s with
    | .error e => .error (.collect e)
    | .ok c => (collectAll ss).map (c :: ·)

/-- the import nodes `gen_module` adds under `--emit-and-infer-imports` -/
def inferred (t : Tables) (syms : List Stmt) : Except InferErr (List Imp) :=
  match collectAll syms with
  | .error e => .error e
  | .ok cs => inferredFromNames t cs

/-- `ast.unparse(ImportFrom)` -/
def Imp.render (i : Imp) : Str :=
  ['f','r','o','m',' '] ++ i.module ++ [' ','i','m','p','o','r','t',' '] ++
  Py.join [',',' '] (i.names.map (fun p => match p.2 with
    | Option.none => p.1
    | some a => p.1 ++ [' ','a','s',' '] ++ a))

end GenImports
