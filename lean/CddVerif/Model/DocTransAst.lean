import CddVerif.Py.Ast
/-!
# AST-level model of `cdd.compound.doctrans_utils.DocTrans` on the shared flat Python AST (property C07)

`DocTrans` is a `NodeTransformer` with `visit_FunctionDef`, `visit_AnnAssign`, `visit_Assign`; every other node
(including `ClassDef` and **`AsyncFunctionDef`**) goes through `generic_visit`.  What the docstring machinery
(`parse_docstring` → `ir_merge` → `docstring.emit`) computes is abstracted into an `Oracle`; the theorem
`erase (docTrans o m) = erase m` then holds for *every* oracle, i.e. whatever docstring text and types are chosen.

Statements kept as text (`Stmt.other`, e.g. `if`/`for` blocks) are left alone by the model; the correspondence
only uses modules whose compound statements contain no definitions / annotated assignments.
-/
namespace DocTransAst
open PyAst

abbrev Err := String

/-- decisions taken by the docstring machinery; `path` = names of the enclosing definitions, innermost last -/
structure Oracle where
  /-- the docstring `_handle_function` ends up with (`none`: empty or whitespace-only ⇒ the old one is deleted) -/
  newDoc : List String → Option String → Option String
  /-- `to_annotation(ir["params"][name].get("typ"))` -/
  paramTyp : List String → String → Option String
  /-- `to_annotation(ir["returns"]["return_type"]["typ"])` when the IR has a typed return (`some none`: the type is
      `None`, which `to_annotation` maps to *no* annotation) -/
  returnTyp : List String → Option (Option String)
  /-- `_get_ass_typ` on an `AnnAssign` (target, annotation) -/
  annTyp : List String → String → String → String
  /-- `_get_ass_typ` on an `Assign` -/
  assignTyp : List String → List String → Option String

def isIdentStr (s : String) : Bool :=
  match s.toList with
  | [] => false
  | c :: cs => (c.isAlpha || c == '_') && cs.all (fun d => d.isAlphanum || d == '_')

/-- `set_docstring` overwrites `body[0]` when `isinstance(get_value(node.body[0].value), str)`.  Besides a string
    constant that is the case for a bare name (`get_value(Name)` is its `id`) and for the constant `None`
    (`get_value` returns `NoneStr`): such a first statement is *replaced* by the docstring. -/
def strLikeExpr : Stmt → Bool
  | .expr src => src == "None" || (isIdentStr src && src != "True" && src != "False")
  | _ => false

/-- `set_docstring(doc, False, node)` / `del node.body[0]` -/
def setDoc (body : List Stmt) (orig newDoc : Option String) : List Stmt :=
  match newDoc with
  | none => (match orig with | some _ => body.tail | none => body)
  | some d =>
    match body with
    | .strExpr _ :: rest => .strExpr d :: rest
    | s :: rest => if strLikeExpr s then .strExpr d :: rest else .strExpr d :: s :: rest
    | [] => [.strExpr d]

/-- the `node.args.args = …` rewrite of `_handle_function` -/
def rewriteArgs (o : Oracle) (typeAnnotations : Bool) (path : List String) (a : Args) : Args :=
  if typeAnnotations then
    { a with args := a.args.map (fun x =>
        { x with ann := if x.ann.isSome || x.name == "self" || x.name == "cls" then x.ann else o.paramTyp path x.name }) }
  else { a with args := a.args.map (fun x => { x with ann := none }) }

def rewriteReturns (o : Oracle) (typeAnnotations : Bool) (path : List String) (r : Option String) : Option String :=
  if typeAnnotations then (match o.returnTyp path with | some t => t | none => r) else none

mutual
/-- `DocTrans.visit` on one statement -/
def docTransStmt (o : Oracle) (ta : Bool) (path : List String) : Stmt → Except Err Stmt
  | .fn false n g b d r => do
    let p := path ++ [n]
    -- the body is visited after the docstring / signature rewrite (`node.body = list(map(self.visit, node.body))`);
    -- a string expression is left alone by `generic_visit`, so visiting first is equivalent
    let b2 ← docTransList o ta p b
    pure (.fn false n (rewriteArgs o ta p g) (setDoc b2 (docstringOf b) (o.newDoc p (docstringOf b))) d (rewriteReturns o ta p r))
  | .fn true n g b d r => do
    -- no `visit_AsyncFunctionDef`: `generic_visit`
    let b2 ← docTransList o ta (path ++ [n]) b
    pure (.fn true n g b2 d r)
  | .cls n bs ks b d => do
    let b2 ← docTransList o ta (path ++ [n]) b
    pure (.cls n bs ks b2 d)
  | .ann t a v =>
    if ta then pure (.ann t (o.annTyp path t a) v)
    -- `value=set_value(none_types[-1]) if node.value is None`: the *string* "```(None)```"
    else pure (.assign [t] (v.getD "'```(None)```'"))
  | .assign ts v =>
    match (if ta then o.assignTyp path ts else none) with
    | some ty =>
      (match ts with
       | [t] => pure (.ann t ty (some v))
       | _ => .error "AssertionError")
    | none => pure (.assign ts v)
  | s => pure s
def docTransList (o : Oracle) (ta : Bool) (path : List String) : List Stmt → Except Err (List Stmt)
  | [] => pure []
  | s :: ss => do
    let s' ← docTransStmt o ta path s
    let ss' ← docTransList o ta path ss
    pure (s' :: ss')
end

/-- `DocTrans(...).visit(module)` -/
def docTrans (o : Oracle) (typeAnnotations : Bool) (m : Module) : Except Err Module := docTransList o typeAnnotations [] m

/-! ## `erase`: remove docstrings, parameter / return / variable annotations (type comments are not represented) -/

def eraseArg (a : Arg) : Arg := { a with ann := none }
def eraseArgs (a : Args) : Args :=
  { a with posonly := a.posonly.map eraseArg, args := a.args.map eraseArg, vararg := a.vararg.map eraseArg,
           kwonly := a.kwonly.map eraseArg, kwarg := a.kwarg.map eraseArg }

/-- drop the docstring (first statement when it is a string expression) -/
def dropDoc : List Stmt → List Stmt
  | .strExpr _ :: rest => rest
  | b => b

mutual
def eraseStmt : Stmt → Stmt
  | .fn a n g b d _ => .fn a n (eraseArgs g) (eraseBodyList b) d none
  | .cls n bs ks b d => .cls n bs ks (eraseBodyList b) d
  | .ann t _ (some v) => .assign [t] v
  -- a bare declaration `x: T` keeps its place, with the annotation blanked
  | .ann t _ none => .ann t "" none
  | s => s
/-- erase every statement of a list -/
def eraseList : List Stmt → List Stmt
  | [] => []
  | s :: ss => eraseStmt s :: eraseList ss
/-- erase a definition body: drop the docstring, erase the rest -/
def eraseBodyList : List Stmt → List Stmt
  | .strExpr _ :: rest => eraseList rest
  | s :: ss => eraseStmt s :: eraseList ss
  | [] => []
end

/-- `erase` of a module (a module docstring is never touched by `DocTrans`, so it is kept) -/
def erase (m : Module) : Module := eraseList m

end DocTransAst
