import CddVerif.Model.GenImports
/-!
# Model of `python -m cdd gen` — property C19

Anchors: `cdd/__main__.py:main` (the `gen` guard), `cdd/compound/gen.py:gen`, `cdd/compound/gen_utils.py`
(`file_to_input_mapping`, `get_functions_and_classes`, `get_emit_kwarg`, `gen_module`, `gen_file`),
`cdd/shared/parse/utils/parser_utils.py` (`get_parser`, `infer`), `cdd/shared/pure_utils.py:ensure_valid_identifier`,
`cdd/json_schema/emit.py` (`json_schema` `$id`, `json_schema_file`).

The per-entry parsers and emitters of the individual formats are **parameters** (`World`): they belong to C01/C02/C05/C06.
What is modelled here is everything `gen` itself decides: which parser / emitter is called with which keyword arguments
(including the combinations for which that call raises), the name template and `ensure_valid_identifier`, the
accumulation and final rendering of `__all__`, import inference, the textual assembly of the module (what is glued to
what), the `__future__`-first ordering, and `main`'s refusal to touch an existing file.

Python `str` = `List Char` (`Py.Str`); statements are `PyAst.Stmt` (expressions as `ast.unparse` text, import statements
as `Stmt.other "import …"` / `Stmt.other "from … import …"`).
-/
namespace GenModule
open Py PyAst GenImports

/-- exception classes `gen` can end with (plus two non-exceptions for the model's own bookkeeping) -/
inductive Err where
  | keyError | indexError | valueError | typeError | moduleNotFound | notImplemented | syntaxError
  | assertionError | ioError | attributeError | stopIteration
  /-- `OSError` subclass raised by `open(path, "a")` (a parameter: the file system) -/
  | os (cls : String)
  /-- raised inside a per-entry parser / emitter (a parameter of the model); the payload is the exception class -/
  | entry (cls : String)
  /-- not an exception: the model does not cover this input -/
  | outside (why : String)
deriving DecidableEq, Repr

/-! ## the name template: `name_tpl.format(name=name)` -/

inductive Seg where
  | ch (c : Char)
  | hole
deriving DecidableEq, Repr

abbrev Tpl := List Seg

def nameField : Str := ['n','a','m','e']

/-- a replacement field without conversion / format spec: `{name}` is the hole, `{}` and `{0}` index the (empty)
    positional arguments, anything else is a missing keyword -/
def fieldSeg (f : Str) : Except Err Seg :=
  if f == nameField then .ok .hole
  else if f.all isAsciiDigit then .error .indexError
  else .error .keyError

/-- left-to-right scan of the format string (`none` = literal text, `some acc` = inside a replacement field).
    `{{` / `}}` are escapes, a lone `}` or an unclosed `{` is a `ValueError`; fields with `!conv`, `:spec`, attribute or
    index access or nesting are outside the model. -/
def tplGo : Option (List Char) → List Char → Except Err Tpl
  | Option.none, [] => .ok []
  | some _, [] => .error .valueError
  | Option.none, '{' :: '{' :: cs => (tplGo Option.none cs).map (Seg.ch '{' :: ·)
  | Option.none, '{' :: cs => tplGo (some []) cs
  | Option.none, '}' :: '}' :: cs => (tplGo Option.none cs).map (Seg.ch '}' :: ·)
  | Option.none, '}' :: _ => .error .valueError
  | Option.none, c :: cs => (tplGo Option.none cs).map (Seg.ch c :: ·)
  | some acc, '}' :: cs =>
    match fieldSeg acc.reverse with
    | .error e => .error e
    | .ok sg => (tplGo Option.none cs).map (sg :: ·)
  | some acc, c :: cs =>
    if c == '!' || c == ':' || c == '.' || c == '[' || c == '{' then .error (.outside "format field with conversion/spec/lookup")
    else tplGo (some (c :: acc)) cs

def parseTpl (tpl : Str) : Except Err Tpl := tplGo Option.none tpl

def Tpl.apply (t : Tpl) (name : Str) : Str :=
  match t with
  | [] => []
  | .ch c :: r => c :: Tpl.apply r name
  | .hole :: r => name ++ Tpl.apply r name

/-- `name_tpl.format(name=name)` -/
def fmt (tpl name : Str) : Except Err Str := (parseTpl tpl).map (·.apply name)

/-! ## `ensure_valid_identifier` -/

def validChar (c : Char) : Bool := isAsciiLetter c || isAsciiDigit c || c == '_'

/-- `ensure_valid_identifier(s)`; `s[0].isdigit()` is modelled on ASCII digits (the harness never puts another Unicode
    digit first) -/
def ensureValid (s : Str) : Str :=
  match s with
  | [] => ['_']
  | c :: _ =>
    if isKeyword s then s ++ ['_']
    else
      let s' := if isAsciiDigit c then '_' :: s else s
      let r := s'.filter validChar
      if r.isEmpty then ['_'] else r

/-- a Python identifier (ASCII letters, digits, `_`; every non-ASCII character is taken to be an identifier character)
    that is not a keyword — what `ast.parse` accepts as a class / function / variable name -/
def identChar (c : Char) : Bool := validChar c || c.toNat ≥ 128
def isPyName (s : Str) : Bool :=
  match s with
  | [] => false
  | c :: cs => identChar c && !isAsciiDigit c && cs.all identChar && !isKeyword s

/-! ## kinds, parser / emitter dispatch -/

/-- `--emit` choices (`parse_emit_types`).  `sanitise_emit_name` renames `class` → `class_`, `argparse` →
    `argparse_function` and is the identity on the other six. -/
inductive EmitKind where
  | argparse | class_ | function | jsonSchema | pydantic | sqlalchemy | sqlalchemyHybrid | sqlalchemyTable
deriving DecidableEq, Repr

/-- `--parse` choices -/
inductive ParseKind where
  | argparse | class_ | function | jsonSchema | pydantic | sqlalchemy | sqlalchemyHybrid | sqlalchemyTable | infer
deriving DecidableEq, Repr

/-- what `file_to_input_mapping` / `infer` can see of a value of the input mapping -/
inductive NodeKind where
  /-- `ClassDef`; `baseIds` = the `id`s of its bases that are plain `Name`s, in order (`Attribute`, `Subscript`, `Call`
      bases have no `id` and are skipped by `filter(rpartial(hasattr, "id"), node.bases)`) -/
  | cls (baseIds : List Str)
  /-- `FunctionDef` / `AsyncFunctionDef`; `argNames` = the names of `args.args`, in order -/
  | fn (async : Bool) (argNames : List Str)
  /-- the dict loaded from a JSON file -/
  | json
  /-- `Assign` / `AnnAssign` at module level -/
  | assign
  /-- any other top-level statement (import, expression, …) -/
  | otherStmt
deriving DecidableEq, Repr

/-- `isinstance(node, kind2instance_type[parse_name])` (for `infer`: the union of all values) -/
def instanceOK : ParseKind → NodeKind → Bool
  | .argparse, .fn false _ => true
  | .class_, .cls _ => true
  | .function, .fn _ _ => true
  | .pydantic, .cls _ => true
  | .sqlalchemy, .cls _ => true
  | .sqlalchemyHybrid, .cls _ => true
  | .sqlalchemyTable, .assign => true
  | .infer, .cls _ => true
  | .infer, .fn _ _ => true
  | .infer, .assign => true
  | _, _ => false

structure Entry where
  /-- key of the input mapping: `node.name`, or the basename of the JSON file -/
  name : Str
  node : NodeKind
deriving DecidableEq, Repr

/-- `dict(pairs)`: a later pair with the same key replaces the value and keeps the first position -/
def dictOf : List Entry → List Entry → List Entry
  | acc, [] => acc
  | acc, e :: es =>
    if acc.any (·.name == e.name) then dictOf (acc.map (fun a => if a.name == e.name then e else a)) es
    else dictOf (acc ++ [e]) es

/-- an input file as `file_to_input_mapping` reads it -/
inductive InputFile where
  /-- `<basename>` of a file whose name ends in `.json` (content = one JSON schema) -/
  | json (basename : Str)
  /-- top-level statements of a Python file: name (when it has one) and kind -/
  | py (body : List Entry)
deriving Repr

/-- `file_to_input_mapping(filepath, parse_name)` -/
def fileToInputMapping (parse : ParseKind) : InputFile → Except Err (List Entry)
  | .json b => if parse == .jsonSchema || parse == .infer then .ok [⟨b, .json⟩] else .error (.outside "JSON file read as Python")
  | .py body =>
    if parse == .jsonSchema then .error (.outside "Python file read as JSON") else
    let sel := body.filter (fun e => instanceOK parse e.node)
    -- `node.name` of an `Assign` / `AnnAssign`
    if sel.any (fun e => e.node == .assign) then .error .attributeError else .ok (dictOf [] sel)

/-- the string `get_parser` builds the module path `cdd.<s>.parse` from -/
inductive PStr where
  | argparse | argparse_ast | class_ | function | json_schema | pydantic | sqlalchemy
deriving DecidableEq, Repr

/-- the per-format parsers that exist (`cdd/<x>/parse.py` with a function `<x>`) -/
inductive ParserName where
  | class_ | function | jsonSchema | pydantic | sqlalchemy
deriving DecidableEq, Repr

def baseName : Str := ['B','a','s','e']
def argumentParserName : Str := ['a','r','g','u','m','e','n','t','_','p','a','r','s','e','r']

/-- `cdd.shared.parse.utils.parser_utils.infer(node)` on the node kinds above.
    A class is SQLAlchemy when **any** of its plain-name bases is called `Base` (position irrelevant); a function is an
    argparse function when **any** of its positional parameters is called `argument_parser`. -/
def inferNode : NodeKind → Except Err PStr
  | .fn false args => if args.contains argumentParserName then .ok .argparse_ast else .ok .function
  | .fn true _ => .error .notImplemented       -- `isinstance(node, FunctionDef)` is false for AsyncFunctionDef
  | .cls ids => if ids.contains baseName then .ok .sqlalchemy else .ok .class_
  | .json => .error .notImplemented            -- `raise NotImplementedError(node)`
  | .assign => .error (.outside "infer on an assignment")
  | .otherStmt => .error .notImplemented

/-- `get_parser(node, parse_name)`: infer when asked to, rename `class` / `sqlalchemy_*`, then `import_module` -/
def parserFor (parse : ParseKind) (node : NodeKind) : Except Err ParserName := do
  let s ← match parse with
    | .infer => inferNode node
    | .class_ => pure .class_
    | .sqlalchemy | .sqlalchemyHybrid | .sqlalchemyTable => pure .sqlalchemy
    | .argparse => pure .argparse
    | .function => pure .function
    | .jsonSchema => pure .json_schema
    | .pydantic => pure .pydantic
  match s with
  | .argparse | .argparse_ast => throw .moduleNotFound   -- there is no `cdd.argparse` / `cdd.argparse_ast` package
  | .class_ => pure .class_
  | .function => pure .function
  | .json_schema => pure .jsonSchema
  | .pydantic => pure .pydantic                            -- `cdd.pydantic.parse.pydantic` = `partial(class_, infer_type=True)`
  | .sqlalchemy => pure .sqlalchemy

inductive KwKey where
  | functionName | className | decoratorList | emitCall | identifier | tableName
deriving DecidableEq, Repr

/-- the dict `get_emit_kwarg` returns: its keys, and the value bound to the name-carrying key -/
structure Kwargs where
  keys : List KwKey
  /-- `None if name == "infer" else ensure_valid_identifier(name_tpl.format(name=name))` -/
  name : Option Str
deriving DecidableEq, Repr

/-- the dict literal indexed by the sanitised emit name — there is no `"pydantic"` key -/
def kwargTable : EmitKind → Option (List KwKey)
  | .argparse => some [.functionName]
  | .class_ => some [.className, .decoratorList, .emitCall]
  | .function => some [.functionName]
  | .jsonSchema => some [.identifier]
  | .sqlalchemy => some [.tableName]
  | .sqlalchemyHybrid => some [.tableName]
  | .sqlalchemyTable => some [.tableName]
  | .pydantic => Option.none

def inferName : Str := ['i','n','f','e','r']

/-- `get_emit_kwarg(decorator_list, emit_call, emit_name, name_tpl, name)`: the argument of the lambda is evaluated
    first (template errors), then the dict is indexed (`KeyError`) -/
def getEmitKwarg (emit : EmitKind) (tpl name : Str) : Except Err Kwargs := do
  let nm ← if name == inferName then pure Option.none else (fmt tpl name).map (fun s => some (ensureValid s))
  match kwargTable emit with
  | Option.none => throw .keyError
  | some ks => pure ⟨ks, nm⟩

/-- parameters of the emitters that `gen` can supply -/
inductive EParam where
  | ir | emitDefaultDoc | wordWrap | functionName | functionType | className | decoratorList | emitCall | identifier | tableName
deriving DecidableEq, Repr

def KwKey.param : KwKey → EParam
  | .functionName => .functionName | .className => .className | .decoratorList => .decoratorList
  | .emitCall => .emitCall | .identifier => .identifier | .tableName => .tableName

/-- parameters without a default in the emitter's signature -/
def required : EmitKind → List EParam
  | .function => [.ir, .functionName, .functionType]
  | _ => [.ir]

/-- parameters the emitter's signature has (among `EParam`) -/
def accepted : EmitKind → List EParam
  | .argparse => [.ir, .emitDefaultDoc, .functionName, .functionType, .wordWrap]
  | .class_ => [.ir, .emitCall, .className, .decoratorList, .wordWrap, .emitDefaultDoc]
  | .function => [.ir, .functionName, .functionType, .wordWrap, .emitDefaultDoc]
  | .jsonSchema => [.ir, .identifier, .emitDefaultDoc, .wordWrap]
  | .pydantic => [.ir, .emitCall, .className, .decoratorList, .wordWrap, .emitDefaultDoc]
  | .sqlalchemy => [.ir, .className, .decoratorList, .tableName, .wordWrap, .emitDefaultDoc]
  | .sqlalchemyHybrid => [.ir, .className, .decoratorList, .tableName, .wordWrap, .emitDefaultDoc]
  | .sqlalchemyTable => [.ir, .tableName, .wordWrap, .emitDefaultDoc]

/-- binding `emitter(ir, emit_default_doc=…, word_wrap=…, **kwargs)` to the signature: `TypeError` on a missing
    required or an unexpected keyword argument -/
def callCheck (emit : EmitKind) (kw : Kwargs) : Except Err Unit :=
  let supplied := [EParam.ir, .emitDefaultDoc, .wordWrap] ++ kw.keys.map KwKey.param
  if supplied.all (accepted emit).contains && (required emit).all supplied.contains then .ok () else .error .typeError

def configTbl : Str := ['c','o','n','f','i','g','_','t','b','l']
def offscalePre : Str := "https://offscale.io/".toList
def offscalePost : Str := ".schema.json".toList

/-- **Naming contract of the emitters** (their own code, `x or ir["name"]` etc.): the name of the emitted symbol
    (for `json_schema`: its `$id`) given the keyword arguments and the `name` of the parsed IR -/
def symbolName (emit : EmitKind) (kw : Kwargs) (irName : Str) : Except Err Str :=
  let orIr : Except Err Str := match kw.name with
    | some n => if n.isEmpty then (if irName.isEmpty then .error .assertionError else .ok irName) else .ok n
    | Option.none => if irName.isEmpty then .error .assertionError else .ok irName
  match emit with
  | .argparse => orIr                                      -- `function_name or intermediate_repr["name"]`
  | .class_ => orIr                                        -- `class_name or intermediate_repr["name"]`
  | .pydantic => orIr
  | .function => .ok (kw.name.getD [])
  | .jsonSchema => .ok (match kw.name with | some n => n | Option.none => offscalePre ++ irName ++ offscalePost)
  | .sqlalchemy => if irName.isEmpty then .error .assertionError else .ok irName   -- `class_name` is never passed
  | .sqlalchemyHybrid => if irName.isEmpty then .error .assertionError else .ok irName
  | .sqlalchemyTable => .ok (ensureValid (if irName.isEmpty then configTbl else irName))

/-- the per-format code, as parameters -/
structure World where
  /-- the parser applied to the entry's node: the `name` of the IR it returns, or the exception it raises -/
  parse : ParserName → Entry → Except Err Str
  /-- the emitter applied to that IR with these keyword arguments: the emitted statement, or the exception -/
  emit : EmitKind → Kwargs → Entry → Except Err Stmt
  /-- can `json.dump` serialise the dict the JSON-schema emitter returns for this entry?  (Not when the IR carries an AST node,
      e.g. the `server_default=Identity()` of a SQLAlchemy primary key.) -/
  jsonDumps : Entry → Bool := fun _ => true

structure Cfg where
  tpl : Str
  parse : ParseKind
  emit : EmitKind
  /-- `--emit-and-infer-imports` -/
  inferImports : Bool := false
  /-- `--prepend`: its statements, and whether the text is empty or ends with a newline -/
  prepend : Option (List Stmt × Bool) := Option.none
  /-- `--imports-from-file`: the top-level `import` / `from … import` statements of that file -/
  fileImports : Option (List Stmt) := Option.none
  /-- `DEFAULT_MODULES_TO_ALL` of the interpreter -/
  tables : Tables := []

/-- one step of the generator in `get_functions_and_classes`, in Python's evaluation order:
    `global__all__.append(name_tpl.format(name=name))`, `get_parser(obj, parse_name)`, the parser call,
    `get_emit_kwarg(...)`, then the emitter call -/
def genEntry (W : World) (cfg : Cfg) (e : Entry) : Except Err (Stmt × Str) := do
  let a ← fmt cfg.tpl e.name
  let pn ← parserFor cfg.parse e.node
  let _ ← W.parse pn e
  let kw ← getEmitKwarg cfg.emit cfg.tpl e.name
  callCheck cfg.emit kw
  let s ← W.emit cfg.emit kw e
  pure (s, a)

/-- `get_functions_and_classes`: the emitted statements and the accumulated `global__all__`; the first exception aborts -/
def genEntries (W : World) (cfg : Cfg) : List Entry → Except Err (List Stmt × List Str)
  | [] => .ok ([], [])
  | e :: es =>
    match genEntry W cfg e with
    | .error err => .error err
    | .ok (s, a) =>
      match genEntries W cfg es with
      | .error err => .error err
      | .ok (ss, as) => .ok (s :: ss, a :: as)

/-! ## rendering of `__all__` -/

def hexDigit (n : Nat) : Char := if n < 10 then Char.ofNat (48 + n) else Char.ofNat (87 + n)

/-- printable as far as `repr` is concerned; every code point above U+00AD is taken to be printable -/
def printable (c : Char) : Bool := (0x20 ≤ c.toNat && c.toNat < 0x7f) || (0xa1 ≤ c.toNat && c.toNat != 0xad)

/-- body of `repr(s)` with quote character `q` -/
def reprBody (q : Char) : Str → Str
  | [] => []
  | c :: cs =>
    (if c == '\\' then ['\\', '\\']
     else if c == q then ['\\', q]
     else if c == '\n' then ['\\', 'n']
     else if c == '\r' then ['\\', 'r']
     else if c == '\t' then ['\\', 't']
     else if printable c then [c]
     else ['\\', 'x', hexDigit (c.toNat / 16 % 16), hexDigit (c.toNat % 16)]) ++ reprBody q cs

/-- `repr(s)` of a `str` (code points above U+00FF are never escaped here) -/
def reprPy (s : Str) : Str :=
  let q := if s.contains '\'' && !s.contains '"' then '"' else '\''
  q :: reprBody q s ++ [q]

/-- `set_value(value)`'s unquoting of a string that starts and ends with the same quote -/
def setValueStr (s : Str) : Str :=
  if s.length > 2 && ((s.head? == some '"' && s.getLast? == some '"') || (s.head? == some '\'' && s.getLast? == some '\''))
  then (s.drop 1).dropLast else s

/-- one element of the final `__all__`: `to_code(set_value(s)).rstrip("\n").strip("'").strip('"')`
    (then `str(list)` → `ast.parse`, which gives the stripped string back) -/
def allEntry (s : Str) : Str :=
  stripChars (stripChars (rstripChars (reprPy (setValueStr s)) ['\n']) ['\'']) ['"']

/-- `ast.unparse` of the list of string constants -/
def renderAll (l : List Str) : Str := ['['] ++ Py.join [',', ' '] (l.map reprPy) ++ [']']

def allName : String := "__all__"
def allStmt (l : List Str) : Stmt := .assign [allName] (String.ofList (renderAll l))

/-! ## assembling the module -/

def isImport : Stmt → Bool
  | .other src => isImportSrc src
  | _ => false
/-- `getattr(node, "module", None) == "__future__"` -/
def isFuture : Stmt → Bool
  | .other src => src.startsWith "from __future__ import "
  | _ => false

/-- `bool(inspect.cleandoc(s))`: the first line has a non-blank character, or some later line is not empty -/
def docTruthy (s : Str) : Bool :=
  match split1 s '\n' with
  | [] => false
  | l0 :: ls => !(lstrip l0).isEmpty || ls.any (fun l => !l.isEmpty)

def hasDoc (body : List Stmt) : Bool :=
  match body with
  | .strExpr s :: _ => docTruthy s.toList
  | _ => false

/-- the body re-ordering at the end of `gen_module`: docstring, imports (`__future__` first, stable), everything else -/
def reorder (body : List Stmt) : List Stmt :=
  let imports := body.filter isImport
  (if hasDoc body then body.take 1 else []) ++
  (imports.filter isFuture ++ imports.filter (fun s => !isFuture s)) ++
  (if hasDoc body then body.drop 1 else body).filter (fun s => !isImport s)

def impStmt (i : Imp) : Stmt := .other (String.ofList i.render)

/-- `"{imports_from_file}{' '.join(inferred)}"`: `to_code` ends no statement with a newline, the file's imports are
    joined with `""` and the inferred ones with `" "`, so two or more import statements land on one line -/
def headerImports (fileImps : List Stmt) (inferredImps : List Imp) : Except Err (List Stmt) :=
  match fileImps ++ inferredImps.map impStmt with
  | [] => .ok []
  | [s] => .ok [s]
  | _ => .error .syntaxError

/-- top-level name a generated statement binds -/
def stmtSymbol? : Stmt → Option String
  | .fn _ n _ _ _ _ => some n
  | .cls n _ _ _ _ => some n
  | .assign [t] _ => some t
  | .ann t _ _ => some t
  | _ => Option.none

def inferErr : InferErr → Err
  | .collect .assertion => .assertionError
  | .collect .unorderable => .typeError
  | .noneNotIterable => .typeError

/-- `optimise_imports(chain(*map(infer_imports, functions_and_classes)))` when `--emit-and-infer-imports` is given -/
def inferStep (cfg : Cfg) (syms : List Stmt) : Except Err (List Imp) :=
  if cfg.inferImports then
    (match inferred cfg.tables syms with
     | .ok l => .ok l
     | .error e => .error (inferErr e))
  else .ok []

/-- the statements of `--prepend`; a text without a final newline is glued to the import line (outside the model) -/
def prependStep (cfg : Cfg) (hdr : List Stmt) : Except Err (List Stmt) :=
  match cfg.prepend with
  | Option.none => .ok []
  | some (stmts, complete) =>
    if !complete && !hdr.isEmpty then .error (.outside "--prepend without a final newline is glued to the import line")
    else .ok stmts

/-- `ast.parse(content)`: a generated name that is no identifier does not parse -/
def badNames (syms : List Stmt) : Bool :=
  syms.any (fun s => match stmtSymbol? s with | some n => !isPyName n.toList | Option.none => false)

/-- the module `gen_module` returns for already emitted symbols -/
def assemble (cfg : Cfg) (syms : List Stmt) (all : List Str) : Except Err (List Stmt) :=
  match inferStep cfg syms with
  | .error e => .error e
  | .ok inf =>
    match headerImports (cfg.fileImports.getD []) inf with
    | .error e => .error e
    | .ok hdr =>
      match prependStep cfg hdr with
      | .error e => .error e
      | .ok pre =>
        if badNames syms then .error .syntaxError
        else .ok (reorder (pre ++ hdr ++ syms ++ [allStmt (all.map allEntry)]))

/-- the `$id`s of `json_schema_file`'s output and whether they are wrapped in `{"schemas": [...]}` -/
structure JsonOut where
  ids : List Str
  wrapped : Bool
  /-- `json.dump(schemas, f)` raises `TypeError` half-way: the file is already open and partly written -/
  dumpFails : Bool := false
deriving DecidableEq, Repr

inductive Output where
  | module (body : List Stmt)
  | json (o : JsonOut)

def genJsonEntry (W : World) (cfg : Cfg) (e : Entry) : Except Err Str := do
  let pn ← parserFor cfg.parse e.node
  let irName ← W.parse pn e
  let kw ← getEmitKwarg cfg.emit cfg.tpl e.name
  callCheck cfg.emit kw
  symbolName .jsonSchema kw irName

def genJson (W : World) (cfg : Cfg) : List Entry → Except Err (List Str)
  | [] => .ok []
  | e :: es =>
    match genJsonEntry W cfg e with
    | .error err => .error err
    | .ok i => (genJson W cfg es).map (i :: ·)

/-- a `from __future__ import …` after another import: `compile` refuses the module -/
def futureMisplaced : List Stmt → Bool
  | [] => false
  | s :: rest => (!isFuture s && rest.any isFuture) || futureMisplaced rest

/-- `gen(...)` for `phase == 0` on an input file -/
def gen (W : World) (cfg : Cfg) (input : InputFile) : Except Err Output := do
  -- with both `--imports-from-file` and a non-empty `--prepend`, the prepend's import statements are compiled and
  -- executed on their own (to resolve the file through them) before anything else happens
  match cfg.fileImports, cfg.prepend with
  | some _, some (stmts, _) => if futureMisplaced (stmts.filter isImport) then throw .syntaxError
  | _, _ => pure ()
  let entries ← fileToInputMapping cfg.parse input
  if cfg.emit == .jsonSchema then
    let ids ← genJson W cfg entries
    if ids.isEmpty then throw .stopIteration      -- `next(schemas_it)` on an empty mapping
    pure (.json ⟨ids, decide (ids.length > 1), entries.any (fun e => !W.jsonDumps e)⟩)
  else
    let (syms, all) ← genEntries W cfg entries
    let body ← assemble cfg syms all
    -- `gen_file`'s assertion: more than the bare `__all__` assignment
    if body.length > 1 then pure (.module body) else throw .assertionError

/-! ## `main`: the destructive-operation guard, as an effect trace

The trace carries the **path strings**: the one the guard hands to `path.isfile` and the one `gen_file` /
`json_schema_file` hand to `open(…, "a")`.  Both are the raw `--output-filename` argument (`guardPath`, `writePath` are
the identity): neither side expands `~`, makes the path absolute or resolves symlinks.  The file system answers on path
strings (`FS`), with the operating system's own resolution (relative to the cwd, symlinks followed, no `~`). -/

/-- the file system, as far as `gen` asks it -/
structure FS where
  /-- `os.path.isfile(p)` -/
  isfile : String → Bool
  /-- outcome of `open(p, "a")`: fine, or the `OSError` subclass (`FileNotFoundError` when the directory does not exist,
      `NotADirectoryError` for `file.py/`, …) -/
  openAppend : String → Except Err Unit

/-- the expression `main` tests: `path.isfile(args.output_filename)` — the raw argument -/
def guardPath (output : String) : String := output
/-- the expression `gen` opens: `gen(**args_dict)` passes `output_filename` on unchanged to `gen_file` /
    `json_schema_file`, which do `open(output_filename, "a")` — the raw argument -/
def writePath (output : String) : String := output

inductive Eff where
  /-- `path.isfile(p)` -/
  | isfile (p : String)
  | raise (e : Err)
  /-- `open(p, "a")` (creates the file when it does not exist) -/
  | openAppend (p : String)
  /-- `f.write(...)` / `json.dump(..., f)` into the file opened from `p` -/
  | write (p : String)
deriving DecidableEq, Repr

/-- effects that can create or change a file -/
def Eff.isWrite : Eff → Bool
  | .openAppend _ => true
  | .write _ => true
  | _ => false

/-- the final `write` into the opened file -/
def Eff.isFinalWrite : Eff → Bool
  | .write _ => true
  | _ => false

/-- the path an effect creates or changes -/
def Eff.writes? : Eff → Option String
  | .openAppend p => some p
  | .write p => some p
  | _ => Option.none

/-- `json.dump` fails after the file was opened (only the JSON branch writes incrementally; `f.write(to_code(module))` is one call) -/
def Output.dumpFails : Output → Bool
  | .json o => o.dumpFails
  | .module _ => false

/-- `main` for `command == "gen"`: `run` is the result `gen(**args)` computes before it opens the output file
    (the module / the schemas, or the exception) -/
def mainGen (fs : FS) (output : String) (phase : Int) (run : Except Err Output) : List Eff :=
  if fs.isfile (guardPath output) && phase == 0 then [.isfile (guardPath output), .raise .ioError]
  else .isfile (guardPath output) :: (match run with
    | .error e => [.raise e]
    | .ok out => .openAppend (writePath output) :: (match fs.openAppend (writePath output) with
      | .ok _ => if out.dumpFails then [.write (writePath output), .raise .typeError] else [.write (writePath output)]
      | .error e => [.raise e]))

end GenModule
