import CddVerif.Py.Str
import CddVerif.Py.Ast
/-!
# C02 — interface descriptions (IR), the structured AST subset the four emitters produce, and the environment

* `Default` is a Python *value* (`int`, `float` as its `repr`, `complex` as its `repr`, `bool`, `str`).  As in the code,
  `None` is the string ```` "```(None)```" ```` (`NoneStr`) and a code default is a string wrapped in three backticks; the
  predicates the code applies (`code_quoted`, `in none_types`, `== NoneStr`) are modelled on the string.
* `Expr` is an expression node as far as the parsers distinguish node kinds (`Constant`, `UnaryOp(USub, Constant)`,
  `Name`, `Tuple`, anything else); every other expression is kept as its `ast.unparse` text.
* `Top`/`Stmt` is the statement subset of the emitters; `toPyAst` renders it to the shared flat `PyAst` (expressions as
  `ast.unparse` text) — that rendering is what is compared with the real emitter's AST.
* `Env` is everything *outside* this property that the emitters/parsers call: the docstring layer (property C01:
  `cdd.docstring.emit.docstring`, `cdd.docstring.parse.docstring`/`parse_docstring`, `extract_default`,
  `parse_adhoc_doc_for_typ`) and CPython's expression parser.  The theorems take an arbitrary `Env` with explicitly
  stated hypotheses; the driver instantiates it with answers obtained from the real functions.
-/
namespace Iface

/-! ## strings -/

def NoneStr : String := "```(None)```"
def simpleTypes : List String := ["int", "float", "complex", "str", "bool"]
def isSimple (t : String) : Bool := simpleTypes.contains t

def startsWith (s p : String) : Bool := p.toList.isPrefixOf s.toList
def endsWith (s p : String) : Bool := p.toList.reverse.isPrefixOf s.toList.reverse
/-- substring test `p in s` -/
def hasSub (s p : String) : Bool := Py.contains s.toList p.toList
def hasChar (s : String) (c : Char) : Bool := s.toList.contains c

/-- `code_quoted(s)`: `len(s) > 6 and s.startswith("```") and s.endswith("```")` -/
def codeQuoted (s : String) : Bool := decide (s.toList.length > 6) && startsWith s "```" && endsWith s "```"
/-- `s[3:-3]` -/
def inner3 (s : String) : String := String.ofList ((s.toList.drop 3).take (s.toList.length - 6))
/-- `s.strip("`")` -/
def stripTicks (s : String) : String := String.ofList (Py.stripChars s.toList ['`'])
/-- `len(s) > 1 and s[0] == s[-1] and s[0] in ("'", '"')` (the test of `quote`; `unquote` tests the same thing) -/
def quotedLike (s : String) : Bool :=
  match s.toList with
  | c :: rest => !rest.isEmpty && (c == '"' || c == '\'') && rest.getLast? == some c
  | [] => false
/-- `s[1:-1]` -/
def dropEnds (s : String) : String := String.ofList (s.toList.drop 1).dropLast
/-- `pure_utils.quote` on a `str` -/
def quoteStr (s : String) : String := if s.toList.isEmpty || quotedLike s then s else "\"" ++ s ++ "\""
/-- `pure_utils.unquote` on a `str` -/
def unquoteStr (s : String) : String := if quotedLike s then dropEnds s else s
/-- the `str` branch of `ast_utils.set_value`: `len(value) > 2 and value[0] + value[-1] in ('""', "''")` strips one pair of quotes -/
def setValueStr (s : String) : String := if decide (s.toList.length > 2) && quotedLike s then dropEnds s else s

def isIdentChar (c : Char) : Bool := Py.isAsciiLetter c || Py.isAsciiDigit c || c == '_'
/-- maximal runs of identifier characters -/
def identTokensAux : List Char → List Char → List (List Char)
  | [], acc => if acc.isEmpty then [] else [acc.reverse]
  | c :: cs, acc =>
    if isIdentChar c then identTokensAux cs (c :: acc)
    else if acc.isEmpty then identTokensAux cs [] else acc.reverse :: identTokensAux cs []
def identTokens (s : String) : List String := (identTokensAux s.toList []).map String.ofList

/-- `defaults_utils.needs_quoting(typ)`: the parsed type mentions the name `str` or a string constant.  On the string:
    an identifier token `str` or a quote character (the abstraction is exercised by the `c02.needs_quoting` op). -/
def needsQuoting : Option String → Bool
  | none => false
  | some t =>
    if startsWith t "*" then false
    else (identTokens t).contains "str" || hasChar t '\'' || hasChar t '"'

/-! ## values -/

inductive Default where
  | int (i : Int)
  | float (r : String)
  | complex (r : String)
  | bool (b : Bool)
  | str (s : String)
deriving DecidableEq, Repr, Inhabited

/-- `type(v).__name__` -/
def Default.typeName : Default → String
  | .int _ => "int" | .float _ => "float" | .complex _ => "complex" | .bool _ => "bool" | .str _ => "str"
/-- Python truthiness (`float`/`complex` by their `repr`) -/
def Default.truthy : Default → Bool
  | .int i => i != 0
  | .float r => !(r == "0.0" || r == "-0.0")
  | .complex r => !(r == "0j" || r == "-0j")
  | .bool b => b
  | .str s => !s.toList.isEmpty
def Default.isCode : Default → Bool | .str s => codeQuoted s | _ => false
/-- `v == NoneStr` -/
def Default.isNoneStr : Default → Bool | .str s => s == NoneStr | _ => false
/-- `v in none_types` for a value that is present (`none_types = (None, "None", NoneStr)`) -/
def Default.inNoneTypes : Default → Bool | .str s => s == "None" || s == NoneStr | _ => false
/-- the zero of a simple type (`simple_types[typ]`) -/
def zeroOf (t : String) : Default :=
  if t == "int" then .int 0 else if t == "float" then .float "0.0" else if t == "complex" then .complex "0j"
  else if t == "bool" then .bool false else .str ""

/-- payload of an `ast.Constant` -/
inductive Const where
  | val (d : Default)
  | none
deriving DecidableEq, Repr, Inhabited

inductive Expr where
  | const (c : Const)
  /-- `UnaryOp(USub, Constant(c))` — what re-parsing the source of a negative number gives -/
  | neg (c : Const)
  | name (id : String)
  /-- any other expression as its `ast.unparse` text; `tuple` = the node is an `ast.Tuple` -/
  | code (src : String) (tuple : Bool)
deriving DecidableEq, Repr, Inhabited

/-- a default as it sits in an IR dict while a parser runs: a Python value, or a still unresolved AST node -/
inductive DVal where
  | val (d : Default)
  | node (e : Expr)
deriving DecidableEq, Repr, Inhabited

def DVal.inNoneTypes : DVal → Bool | .val d => d.inNoneTypes | .node _ => false
def DVal.isNoneStr : DVal → Bool | .val d => d.isNoneStr | .node _ => false
/-- `param.get("default") == NoneStr` -/
def isNoneStrD : Option DVal → Bool | some d => d.isNoneStr | none => false

/-! ## IR -/

structure Param where
  doc : Option String := none
  typ : Option String := none
  default : Option DVal := none
deriving DecidableEq, Repr, Inhabited

abbrev Dict := List (String × Param)

structure IR where
  name : Option String := none
  /-- `"static"`, `"self"`, `"cls"` -/
  type : Option String := some "static"
  doc : String := ""
  params : Dict := []
  returns : Option Param := none
deriving DecidableEq, Repr, Inhabited

def dget? (d : Dict) (k : String) : Option Param := (d.find? (·.1 == k)).map (·.2)
def dhas (d : Dict) (k : String) : Bool := d.any (·.1 == k)
/-- `d[k] = v` (position of an existing key kept, new key appended) -/
def dset (d : Dict) (k : String) (v : Param) : Dict :=
  if dhas d k then d.map (fun kv => if kv.1 == k then (k, v) else kv) else d ++ [(k, v)]
def dpop (d : Dict) (k : String) : Dict := d.filter (fun kv => !(kv.1 == k))
def dkeys (d : Dict) : List String := d.map (·.1)

/-! ## structured AST subset -/

structure Arg where
  name : String
  ann : Option String := none
deriving DecidableEq, Repr, Inhabited

/-- `argument_parser.add_argument('--<name>', type=…, choices=(…), action=…, help=…, required=True, default=…)` -/
structure AddArg where
  name : String
  typ : Option String := none
  choices : Option (List String) := none
  action : Option String := none
  help : Option String := none
  required : Bool := false
  default : Option Expr := none
deriving DecidableEq, Repr, Inhabited

inductive Stmt where
  /-- `Expr(Constant(str))` -/
  | doc (s : String)
  | ann (target ann : String) (value : Option Expr)
  /-- `argument_parser.description = <constant>` -/
  | descr (c : Const)
  | addArg (a : AddArg)
  /-- `return <e>` -/
  | ret (e : Expr)
  /-- `return (argument_parser, <e>)` -/
  | retTuple (e : Expr)
  /-- `return argument_parser` -/
  | retParser
  /-- `...` -/
  | ellipsis
  /-- any other statement (source text) -/
  | other (src : String)
deriving DecidableEq, Repr, Inhabited

structure FnArgs where
  args : List Arg := []
  /-- right-aligned with `args` (CPython) -/
  defaults : List Expr := []
  kwonly : List Arg := []
  kwDefaults : List (Option Expr) := []
deriving DecidableEq, Repr, Inhabited

inductive Top where
  | cls (name : String) (bases : List String) (body : List Stmt)
  | fn (name : String) (args : FnArgs) (body : List Stmt) (returns : Option String)
deriving DecidableEq, Repr, Inhabited

/-! ## `ast.unparse` of the expression subset -/

def hexDigit (n : Nat) : Char := if n < 10 then Char.ofNat (48 + n) else Char.ofNat (87 + n)
/-- one character inside `repr(str)` delimited by `q` -/
def reprChar (q : Char) (c : Char) : List Char :=
  if c == '\\' then ['\\', '\\']
  else if c == q then ['\\', q]
  else if c == '\n' then ['\\', 'n']
  else if c == '\r' then ['\\', 'r']
  else if c == '\t' then ['\\', 't']
  else if c.toNat < 32 || c.toNat == 127 then ['\\', 'x', hexDigit (c.toNat / 16), hexDigit (c.toNat % 16)]
  else [c]
/-- `repr(s)` for a `str` of printable characters: single quotes unless the string has a `'` and no `"` -/
def pyRepr (s : String) : String :=
  let l := s.toList
  let q : Char := if l.contains '\'' && !l.contains '"' then '"' else '\''
  String.ofList (q :: (l.flatMap (reprChar q)) ++ [q])

/-- `ast.unparse` of a float constant: its `repr`, except that infinity is written `1e309` (the sign is a `UnaryOp` by then) -/
def floatText (r : String) : String := if r == "inf" then "1e309" else if r == "-inf" then "-1e309" else r

def Default.text : Default → String
  | .int i => toString i
  | .float r => floatText r
  | .complex r => r
  | .bool b => if b then "True" else "False"
  | .str s => pyRepr s
def Const.text : Const → String
  | .val d => d.text
  | .none => "None"
def Expr.text : Expr → String
  | .const c => c.text
  | .neg c => "-" ++ c.text
  | .name id => id
  | .code src _ => src

def joinComma : List String → String
  | [] => ""
  | [x] => x
  | x :: xs => x ++ ", " ++ joinComma xs

/-- `ast.unparse` of a tuple of string constants -/
def choicesText (l : List String) : String :=
  match l with
  | [x] => "(" ++ pyRepr x ++ ",)"
  | _ => "(" ++ joinComma (l.map pyRepr) ++ ")"

def AddArg.text (a : AddArg) : String :=
  let kws : List String :=
    (match a.typ with | some t => ["type=" ++ t] | none => []) ++
    (match a.choices with | some c => ["choices=" ++ choicesText c] | none => []) ++
    (match a.action with | some x => ["action=" ++ pyRepr x] | none => []) ++
    (match a.help with | some h => ["help=" ++ pyRepr h] | none => []) ++
    (if a.required then ["required=True"] else []) ++
    (match a.default with | some e => ["default=" ++ e.text] | none => [])
  "argument_parser.add_argument(" ++ joinComma (pyRepr ("--" ++ a.name) :: kws) ++ ")"

def Stmt.toPy : Stmt → PyAst.Stmt
  | .doc s => .strExpr s
  | .ann t a v => .ann t a (v.map Expr.text)
  | .descr c => match c with
    | .val (.str s) => .assign ["argument_parser.description"] (pyRepr s)
    | c => .assign ["argument_parser.description"] c.text
  | .addArg a => .expr a.text
  | .ret e => .other ("return " ++ e.text)
  | .retTuple e => .other ("return (argument_parser, " ++ e.text ++ ")")
  | .retParser => .other "return argument_parser"
  | .ellipsis => .expr "..."
  | .other s => .other s

def Arg.toPy (a : Arg) : PyAst.Arg := { name := a.name, ann := a.ann }

/-- the shared flat AST (`lean/CddVerif/Py/Ast.lean`) of an emitted node -/
def Top.toPy : Top → PyAst.Stmt
  | .cls n bases body => .cls n bases [] (body.map Stmt.toPy) []
  | .fn n a body r =>
    .fn false n { args := a.args.map Arg.toPy, defaults := a.defaults.map Expr.text, kwonly := a.kwonly.map Arg.toPy,
                  kwDefaults := a.kwDefaults.map (·.map Expr.text) } (body.map Stmt.toPy) [] r

/-! ## rendering to source text and re-reading (`to_code` then `ast.parse`)

CPython's unparser writes a negative number as `-3`, which its parser reads as `UnaryOp(USub, Constant(3))`; every
other node of the subset is read back as it was written.  (Modelled, not verified; compared with the real
`ast.parse(to_code(node))` on every correspondence case.) -/

def isNegRepr (r : String) : Bool := startsWith r "-"
def dropFirst (r : String) : String := String.ofList (r.toList.drop 1)

def Expr.reparse : Expr → Expr
  | .const (.val (.int i)) => if i < 0 then .neg (.val (.int (-i))) else .const (.val (.int i))
  | .const (.val (.float r)) => if isNegRepr r then .neg (.val (.float (dropFirst r))) else .const (.val (.float r))
  | .const (.val (.complex r)) => if isNegRepr r then .neg (.val (.complex (dropFirst r))) else .const (.val (.complex r))
  | e => e

def Stmt.reparse : Stmt → Stmt
  | .ann t a v => .ann t a (v.map Expr.reparse)
  | .addArg a => .addArg { a with default := a.default.map Expr.reparse }
  | .ret e => .ret e.reparse
  | .retTuple e => .retTuple e.reparse
  | s => s

def Top.reparse : Top → Top
  | .cls n b body => .cls n b (body.map Stmt.reparse)
  | .fn n a body r =>
    .fn n { a with defaults := a.defaults.map Expr.reparse, kwDefaults := a.kwDefaults.map (·.map Expr.reparse) }
      (body.map Stmt.reparse) r

/-! ## `get_value` -/

/-- a Python value or an AST node (results of `get_value`) -/
abbrev PyObj := DVal

def negDefault : Default → Option Default
  | .int i => some (.int (-i))
  | .float r => some (.float (if isNegRepr r then dropFirst r else "-" ++ r))
  | .complex r => some (.complex (if isNegRepr r then dropFirst r else "-" ++ r))
  | .bool b => some (.int (if b then -1 else 0))
  | .str _ => none

/-- `ast_utils.get_value` on an expression node: a constant's value (`None` ↦ `NoneStr`), the negated operand of a
    `UnaryOp(USub, Constant)`, a `Name`'s id, otherwise the node itself -/
def getValue : Expr → PyObj
  | .const (.val d) => .val d
  | .const .none => .val (.str NoneStr)
  | .neg (.val d) => match negDefault d with | some d' => .val d' | none => .node (.neg (.val d))
  | .neg .none => .node (.neg .none)
  | .name id => .val (.str id)
  | .code s t => .node (.code s t)

/-- `ast_utils.set_value(v)` for a value that is present -/
def setValue : Default → Expr
  | .str s => .const (.val (.str (setValueStr s)))
  | d => .const (.val d)

/-! ## the environment -/

inductive Style where | rest | google | numpydoc
deriving DecidableEq, Repr, Inhabited

/-- arguments of `cdd.docstring.emit.docstring` that the four emitters vary -/
structure DocEmitCfg where
  style : Style := .rest
  emitDefaultDoc : Bool := true
  emitTypes : Bool := true
  purposeClass : Bool := false
  indentLevel : Nat := 0
  emitSeparatingTab : Bool := true
deriving DecidableEq, Repr, Inhabited

/-- which docstring reader is called, and how -/
inductive DocParseCfg where
  /-- `cdd.docstring.parse.docstring(doc, emit_default_doc=False)` — class parser -/
  | cls
  /-- `cdd.docstring.parse.docstring(doc.replace(":cvar", ":param"), infer_type=…)` — function parser -/
  | fn (inferType : Bool)
  /-- `docstring_parsers.parse_docstring(doc, word_wrap=False, emit_default_doc=True)` — argparse parser -/
  | argparse
deriving DecidableEq, Repr, Inhabited

structure Env where
  /-- `cdd.docstring.emit.docstring` -/
  docEmit : DocEmitCfg → IR → String
  /-- the docstring readers -/
  docParse : DocParseCfg → String → IR
  /-- `defaults_utils.extract_default(description, emit_default_doc=·)` → (description, default) -/
  extractDefault : Bool → String → String × Option Default
  /-- `parse_adhoc_doc_for_typ(description, name, default_is_none)` -/
  adhocTyp : String → String → Bool → Option String
  /-- CPython: `ast.parse(src).body[0].value` (`none` = `SyntaxError`) -/
  pyExpr : String → Option Expr

/-! ## the view compared by the property -/

structure PV where
  name : String
  typ : Option String
  default : Option DVal
  doc : Option String
deriving DecidableEq, Repr, Inhabited

/-- collapse whitespace, drop one terminal full stop; an empty description is no description -/
def normDoc (s : String) : Option String :=
  let w := Py.join [' '] (Py.splitWs s.toList)
  let w := if w.getLast? == some '.' then w.dropLast else w
  if w.isEmpty then none else some (String.ofList w)

def Param.view (n : String) (p : Param) : PV :=
  { name := n, typ := p.typ, default := p.default, doc := p.doc.bind normDoc }

/-- names in order, types, typed defaults, normalised descriptions; the return entry -/
def IR.view (ir : IR) : List PV × Option PV :=
  (ir.params.map (fun kv => kv.2.view kv.1), ir.returns.map (Param.view "return_type"))

end Iface
