import CddVerif.Model.Merge
/-!
# Model of `_join_non_none` (`cdd/shared/parse/utils/parser_utils.py`) and of its users — property C10

```python
def _join_non_none(primacy, other):
    if not primacy:
        return other
    elif not other:
        return primacy
    all_keys = frozenset(chain.from_iterable((primacy.keys(), other.keys())))
    primacy.update({key: other[key] for key in all_keys
                    if primacy.get(key) is None and other.get(key) is not None})
    return primacy
```

* Python `dict` = association list with insertion order (`d[k] = v` keeps the position of an existing key and appends
  a new one; `d.update(e)` is `for k, v in e.items(): d[k] = v`).
* A value is `Option β`: `none` is Python's `None`, `some b` any other object (the function only ever tests
  `is None`).  `lookup?` tells an absent key (`none`) from a key bound to `None` (`some none`); `get` is `dict.get`.
* The iteration order of the `frozenset` is an explicit oracle `σ` (the interpreter's hash seed); the only thing known
  about it is `Oracle σ p o`: it enumerates every key of either dict exactly once.
* The only caller is `ir_merge` (on `returns["return_type"]`).  `merge_present_params` does NOT call
  `_join_non_none`; `mergePresentD` is its dict-level model (it reads `other_param` by key only and assigns into
  `target_param`), so that a joined dict can be fed to it.

Key and value types are generic (`κ` with decidable equality, `β` arbitrary); the driver uses `String` for both.
-/
namespace JoinNonNone

/-- a Python dict whose values may be `None` -/
abbrev D (κ β : Type) := List (κ × Option β)

section generic
variable {κ : Type} [DecidableEq κ] {β : Type}

/-- `none` = key absent, `some none` = key bound to `None`, `some (some b)` = key bound to `b` -/
def lookup? : D κ β → κ → Option (Option β)
  | [], _ => none
  | kv :: r, k => if kv.1 = k then some kv.2 else lookup? r k

/-- `d.get(k)` (absent ↦ `None`) -/
def get (d : D κ β) (k : κ) : Option β := (lookup? d k).getD none
/-- `k in d` -/
def has (d : D κ β) (k : κ) : Bool := (lookup? d k).isSome
def keys (d : D κ β) : List κ := d.map (·.1)

/-- `d[k] = v`: keeps the position of an existing key, appends a new one -/
def set (d : D κ β) (k : κ) (v : Option β) : D κ β :=
  if has d k then d.map (fun kv => if kv.1 = k then (k, v) else kv) else d ++ [(k, v)]

/-- `d.update(e)` -/
def update (d e : D κ β) : D κ β := e.foldl (fun acc kv => set acc kv.1 kv.2) d

/-- `primacy.get(key) is None and other.get(key) is not None` -/
def cond (p o : D κ β) (k : κ) : Bool := (get p k).isNone && (get o k).isSome

/-- one iteration of the dict comprehension `{key: other[key] for key in all_keys if …}`
    (`other[key]` cannot raise: the filter has just seen `other.get(key) is not None`) -/
def compStep (p o : D κ β) (acc : D κ β) (k : κ) : D κ β := if cond p o k then set acc k (get o k) else acc

/-- the dict comprehension, iterating the frozenset in the order `σ` -/
def comp (σ : List κ) (p o : D κ β) : D κ β := σ.foldl (compStep p o) []

/-- `_join_non_none(primacy, other)` with the frozenset iterated in the order `σ`: the returned dict
    (`primacy` is also mutated in place to that value, unless it was empty) -/
def join (σ : List κ) (p o : D κ β) : D κ β :=
  if p.isEmpty then o else if o.isEmpty then p else update p (comp σ p o)

/-- what is known of the frozenset's iteration order: each key of `primacy` or `other`, exactly once -/
structure Oracle (σ : List κ) (p o : D κ β) : Prop where
  nodup : σ.Nodup
  mem : ∀ k, k ∈ σ ↔ k ∈ keys p ∨ k ∈ keys o

/-- the dict invariant: keys are distinct -/
def WF (d : D κ β) : Prop := (keys d).Nodup

/-- two dicts that are equal as maps — what Python's `==` on dicts and every access by key see;
    the key ORDER (what `.items()` / `.keys()` / `repr` see) may differ -/
def SameMap (d d' : D κ β) : Prop := (∀ k, lookup? d k = lookup? d' k) ∧ (keys d).Perm (keys d')

/-- one admissible oracle for two well-formed dicts: primacy's keys, then the new keys of other -/
def allKeys (p o : D κ β) : List κ := keys p ++ (keys o).filter (fun k => !has p k)

/-- a key that `_join_non_none` appends to `primacy`: absent from it and bound to a non-`None` value in `other` -/
def fresh (p o : D κ β) (k : κ) : Bool := !has p k && (get o k).isSome

/-- The `returns` part of `ir_merge(target, other)`; a `returns` value is abstracted to its `"return_type"` entry
    (`none`: `returns` is `None` / missing / has no `"return_type"`):
    ```python
    if "return_type" not in (target.get("returns") or iter(())): target["returns"] = other["returns"]
    elif other["returns"]: target["returns"]["return_type"] = _join_non_none(target[…][…], other[…][…])
    ``` -/
def irMergeReturns (σ : List κ) (t o : Option (D κ β)) : Option (D κ β) :=
  match t with
  | none => o
  | some tr =>
    match o with
    | none => some tr
    | some orr => some (join σ tr orr)

end generic

/-! ### `merge_present_params` on dicts (keys `"doc"`, `"typ"`, `"default"`; encoding of `Model/Merge.lean`:
    `typ`/`doc` are the strings themselves, `default` is the tagged rendering `s:…`, `i:…`) -/

/-- `not v` for a doc value -/
def falsy (v : Option String) : Bool := v == none || v == some ""
/-- `v in simple_types` (`None` is a key of that table) -/
def isSimple (v : Option String) : Bool :=
  match v with
  | none => true
  | some t => Merge.simpleTypes.contains t

def docStep (o t : D String String) : D String String :=
  if falsy (get t "doc") && !falsy (get o "doc") then set t "doc" (get o "doc") else t
def typStep (o t : D String String) : D String String :=
  if (get o "typ").isSome && ((get t "typ").isNone || (isSimple (get t "typ") && !isSimple (get o "typ")))
  then set t "typ" (get o "typ") else t
def defaultStep (o t : D String String) : D String String :=
  if Merge.isNoneLike (get t "default") && (get o "default").isSome then set t "default" (get o "default") else t

/-- `merge_present_params(other_param, target_param)`: the new value of the mutated `target_param` -/
def mergePresentD (o t : D String String) : D String String := defaultStep o (typStep o (docStep o t))

/-- the `ParamVal` view used by `Model/Merge.lean` -/
def toParam (d : D String String) : Merge.Param := { typ := get d "typ", doc := get d "doc", default := get d "default" }

end JoinNonNone
