import CddVerif.Model.IfaceIR
/-!
# C02 — the four emitters (`cdd/class_/emit.py`, `cdd/pydantic/emit.py`, `cdd/function/emit.py`,
`cdd/argparse_function/emit.py`) with `param2ast`/`_generic_param2ast`/`set_value`/`param2argparse_param`/
`_resolve_arg`/`_parse_node_for_arg`/`infer_type_and_default` of `cdd/shared/ast_utils.py`

Ported decision by decision; `Except.error "unsupported: …"` marks inputs outside the modelled region (the harness does
not claim correspondence there), any other error text is the name of the exception the real code raises.
-/
namespace Iface

structure Cfg where
  style : Style := .rest
  emitDefaultDoc : Bool := false
  /-- function only -/
  typeAnnotations : Bool := true
  /-- function only -/
  kwOnly : Bool := true
  /-- `("object",)` for `class_`, `("BaseModel",)` for `pydantic` -/
  classBases : List String := ["object"]
deriving DecidableEq, Repr, Inhabited

def userDefault : Option DVal → Except String (Option Default)
  | none => pure none
  | some (.val d) => pure (some d)
  | some (.node _) => .error "unsupported: AST node as a default of an input IR"

/-! ## class / pydantic -/

/-- `intermediate_repr["params"].update(returns)` -/
def mergedParams (ir : IR) : Dict :=
  match ir.returns with
  | some r => dset ir.params "return_type" r
  | none => ir.params

/-- the IR handed to the docstring emitter by `class_` (return entry folded into the attributes) -/
def classDocIR (ir : IR) : IR := { ir with params := mergedParams ir, returns := none }
def classDocCfg (cfg : Cfg) : DocEmitCfg :=
  { style := cfg.style, emitDefaultDoc := cfg.emitDefaultDoc, emitTypes := false, purposeClass := true, indentLevel := 1,
    emitSeparatingTab := true }

/-- `pure_utils.quote` -/
def quoteD : Default → Default
  | .str s => .str (quoteStr s)
  | d => d

/-- `get_default_val` of `param2ast`: `None if val is None else set_value(None if val == NoneStr else val)` -/
def getDefaultVal (d : Default) : Expr := if d.isNoneStr then .const .none else setValue d

/-- `_generic_param2ast` -/
def genericParam2ast (env : Env) (name t : String) (d? : Option Default) : Except String Stmt := do
  let value : Option Expr ← match d? with
    | none => pure none
    | some d =>
      if d.isCode && (match d with | .str s => inner3 s == "None" || inner3 s == "(None)" | _ => false) then
        pure (some (.const .none))
      else match d with
        | .str s =>
          if s.toList.isEmpty then .error "IndexError"   -- `ast.parse("").body[0]`
          else match env.pyExpr s with
            | some e => pure (some e)
            | none => pure (some (setValue (.str (if codeQuoted s then s else "```" ++ s ++ "```"))))
        | .complex r => pure (some (setValue (.str ("```" ++ r ++ "```"))))   -- `ast.parse(1j)` raises TypeError
        | d => pure (some (setValue d))
  pure (.ann name t value)

/-- `param2ast` (typed parameters) -/
def param2ast (env : Env) (kv : String × Param) : Except String Stmt := do
  let (name, p) := kv
  let d? ← userDefault p.default
  match p.typ with
  | none => .error "unsupported: parameter without typ"
  | some t =>
    if t == "Str" || t == "Constant" || t == "NameConstant" || t == "Num" then .error "unsupported: typ renamed by param2ast"
    else if needsQuoting (some t) then
      -- `default = d if d in (None, NoneStr) else quote(d)`; `value = get_default_val(default)`
      pure (.ann name t (d?.map (fun d => if d.isNoneStr then .const .none else getDefaultVal (quoteD d))))
    else if isSimple t then pure (.ann name t (d?.map getDefaultVal))
    else if t == "dict" || startsWith t "*" then .error "unsupported: dict / starred typ"
    else genericParam2ast env name t d?

def emitClass (env : Env) (cfg : Cfg) (ir : IR) : Except String Top := do
  let some name := ir.name | .error "AssertionError"
  let ds := String.ofList (Py.rstrip (env.docEmit (classDocCfg cfg) (classDocIR ir)).toList)
  let docStmt : List Stmt := if ds.toList.isEmpty then [] else [.doc (setValueStr ds)]
  let attrs ← (mergedParams ir).mapM (param2ast env)
  let body := docStmt ++ attrs
  pure (.cls name cfg.classBases (if body.isEmpty then [.ellipsis] else body))

/-! ## function -/

def fnDocCfg (cfg : Cfg) : DocEmitCfg :=
  { style := cfg.style, emitDefaultDoc := cfg.emitDefaultDoc, emitTypes := !cfg.typeAnnotations, purposeClass := false,
    indentLevel := 2, emitSeparatingTab := false }

/-- one entry of `defaults_from_params`: `set_value(None) if default in none_types else set_value(default)` -/
def fnDefault (d? : Option Default) : Expr :=
  match d? with
  | none => .const .none
  | some d => if d.inNoneTypes then .const .none else setValue d

def fnParam (cfg : Cfg) (kv : String × Param) : Except String (Arg × Expr) := do
  let d? ← userDefault kv.2.default
  pure ({ name := kv.1, ann := if cfg.typeAnnotations then kv.2.typ else none }, fnDefault d?)

/-- the `return` statement: `ast.parse(returns.default.strip("`")).body[0].value` when the default is truthy -/
def fnReturn (env : Env) (ir : IR) : Except String (List Stmt) := do
  match ir.returns.bind (·.default) with
  | none => pure []
  | some (.node _) => .error "unsupported: AST node as a default of an input IR"
  | some (.val d) =>
    if !d.truthy then pure []
    else match d with
      | .str s => match env.pyExpr (stripTicks s) with
        | some e => pure [.ret e]
        | none => .error "SyntaxError"
      | _ => .error "AttributeError"

def emitFunction (env : Env) (cfg : Cfg) (ir : IR) : Except String Top := do
  if ir.params.any (fun kv => endsWith kv.1 "kwargs") then .error "unsupported: **kwargs"
  let some name := ir.name | .error "unsupported: function without name"
  let self : List Arg := if ir.type == none || ir.type == some "static" then [] else [{ name := ir.type.getD "" }]
  let ps ← ir.params.mapM (fnParam cfg)
  let args : FnArgs :=
    if cfg.kwOnly then { args := self, defaults := [], kwonly := ps.map (·.1), kwDefaults := ps.map (some ·.2) }
    else { args := self ++ ps.map (·.1), defaults := ps.map (·.2), kwonly := [], kwDefaults := [] }
  let ret ← fnReturn env ir
  let returns : Option String :=
    if cfg.typeAnnotations then (ir.returns.bind (·.typ)).bind (fun t => if t.toList.isEmpty then none else some t) else none
  pure (.fn name args (.doc (setValueStr (env.docEmit (fnDocCfg cfg) ir)) :: ret) returns)

/-! ## argparse -/

/-- identifier tokens of a type string in textual order that are `ast.Name` nodes: tokens inside string constants, after
    a `.` (attribute names) or starting with a digit are skipped -/
def typeNamesAux : Nat → List Char → List Char → Bool → List (List Char)
  | 0, _, _, _ => []
  | _, [], acc, afterDot =>
    if acc.isEmpty || afterDot || (match acc.reverse with | d :: _ => Py.isAsciiDigit d | [] => false) then [] else [acc.reverse]
  | fuel + 1, c :: cs, acc, afterDot =>
    if isIdentChar c then typeNamesAux fuel cs (c :: acc) afterDot
    else
      let flush : List (List Char) :=
        if acc.isEmpty || afterDot || (match acc.reverse with | d :: _ => Py.isAsciiDigit d | [] => false) then [] else [acc.reverse]
      if c == '\'' || c == '"' then
        -- skip the string constant (no escapes inside the type strings of the domain)
        flush ++ typeNamesAux fuel ((cs.dropWhile (· != c)).drop 1) [] false
      else flush ++ typeNamesAux fuel cs [] (c == '.')
def typeNames (t : String) : List String :=
  ((typeNamesAux (t.toList.length + 1) t.toList [] false).map String.ofList).filter
    (fun n => !(n == "None" || n == "True" || n == "False"))   -- constants, not `ast.Name` nodes (`X | None`)

/-- the string constants of a type string, in order (contents between matching quotes) -/
def typeStrConstsAux : Nat → List Char → List (List Char)
  | 0, _ => []
  | _, [] => []
  | fuel + 1, c :: cs =>
    if c == '\'' || c == '"' then (cs.takeWhile (· != c)) :: typeStrConstsAux fuel ((cs.dropWhile (· != c)).drop 1)
    else typeStrConstsAux fuel cs
def typeStrConsts (t : String) : List String := (typeStrConstsAux (t.toList.length + 1) t.toList).map String.ofList

structure Resolved where
  action : Option String := none
  choices : Option (List String) := none
  required : Bool
  typ : Option String
deriving DecidableEq, Repr

/-- `_parse_node_for_arg` on one `Name` node -/
def stepName (st : Option Bool × Option String × Option String) (id : String) : Option Bool × Option String × Option String :=
  let (req, action, typ) := st
  let (req, typ) :=
    if id == "Optional" then (some false, typ)
    else if isSimple id then (req, some id)
    else if id != "Union" then (req, some "str")   -- FALLBACK_TYP
    else (req, typ)
  (req, if id == "List" then some "append" else action, typ)

def requiredLower : List String := ["str", "complex", "int", "float", "anystr", "list", "tuple", "dict"]

/-- `_resolve_arg` (types whose `Name` nodes are met by `ast.walk` in textual order; a `Tuple` of ≥ 2 string constants
    becomes `choices`) -/
def resolveArg (name : String) (ptyp : String) (required : Bool) : Except String Resolved := do
  let (req?, action, choices, typ) ←
    if isSimple ptyp then pure (none, none, none, some ptyp)
    else if ptyp == "dict" || endsWith name "kwargs" then .error "unsupported: dict / kwargs"
    else if startsWith ptyp "<class '" then .error "unsupported: <class …> typ"
    else if ptyp.toList.isEmpty then pure (none, none, none, some "str")
    else
      let (r, a, t) := (typeNames ptyp).foldl stepName (none, none, some "str")
      let cs := typeStrConsts ptyp
      pure (r, a, (if cs.length ≥ 2 then some cs else none), t)
  let req? := if req? == none && requiredLower.contains (String.ofList (Py.lower (typ.getD "").toList)) then some true else req?
  pure { action := action, choices := choices, required := req?.getD required, typ := typ }

/-- `infer_type_and_default(action, default, typ, required)` → (default, typ) on the modelled value kinds
    (the returned `required` is discarded by the caller; `action` is unchanged on these kinds) -/
def inferTypeAndDefault (env : Env) (d? : Option Default) (typ : Option String) : Except String (Option Default × Option String) := do
  let noneCase : Option Default × Option String :=
    (none, match typ with
           | some t => if !hasSub t "Optional" && !(t == "Any" || t == "pickle.loads" || t == "loads") then none else some t
           | none => none)
  match d? with
  | none => pure noneCase
  | some d =>
    if d.isCode then
      match d with
      | .str s =>
        match env.pyExpr (stripTicks s) with
        | none => .error "SyntaxError"
        | some e =>
          match getValue e with
          | .val (.str x) => if x == NoneStr then pure noneCase else .error "unsupported: code default in argparse"
          | .val (.bool b) => pure (some (.bool b), some "bool")
          | .val v => pure (some v, some v.typeName)
          | .node _ => .error "unsupported: code default in argparse"
      | _ => .error "unreachable"
    else pure (some d, some d.typeName)

/-- `param2argparse_param` -/
def param2argparse (env : Env) (edd : Bool) (kv : String × Param) : Except String AddArg := do
  let (name, p) := kv
  let pd? ← userDefault p.default
  let r ← resolveArg name (p.typ.getD "Any") pd?.isSome
  let (doc, dflt0) := env.extractDefault edd (p.doc.getD "")
  let (default, typ') ← inferTypeAndDefault env (match pd? with | some d => some d | none => dflt0) r.typ
  let required := if default == none && (match pd? with | some d => d.isNoneStr | none => false) then false else r.required
  let typ := match typ' with | some t => some t | none => r.typ
  let typ := if typ == some "pickle.loads" then typ else if typ == some "str" && r.action == none then none else typ
  if typ == some "pickle.loads" || typ == some "loads" then .error "unsupported: loads"
  pure { name := name
         typ := typ.map (fun t => if t == "globals().__getitem__" then "str" else t)
         choices := r.choices.map (·.map setValueStr)
         action := r.action.map setValueStr
         help := if doc.toList.isEmpty then none else some (setValueStr doc)
         required := required
         default := default.map setValue }

/-- the IR whose docstring heads the argparse function -/
def argparseDocIR (ir : IR) : IR :=
  let ret : Param :=
    match ir.returns with
    | some r =>
      (match r.typ with
       | some t =>
         if t == "None" || t == NoneStr then { doc := some "argument_parser", typ := some "ArgumentParser" }
         else { doc := some (match r.doc with
                             | some d => if d.toList.isEmpty then "argument_parser" else "argument_parser, " ++ d
                             | none => "argument_parser"),
                typ := some ("Tuple[ArgumentParser, " ++ t ++ "]") }
       | none => { doc := some "argument_parser", typ := some "ArgumentParser" })
    | none => { doc := some "argument_parser", typ := some "ArgumentParser" }
  { name := none, type := none, doc := "Set CLI arguments",
    params := [("argument_parser", { doc := some "argument parser", typ := some "ArgumentParser" })], returns := some ret }
def argparseDocCfg (cfg : Cfg) : DocEmitCfg :=
  { style := cfg.style, emitDefaultDoc := true, emitTypes := true, purposeClass := false, indentLevel := 1, emitSeparatingTab := true }

def argparseReturn (env : Env) (ir : IR) : Except String Stmt := do
  match ir.returns.bind (·.default) with
  | none => pure .retParser
  | some (.node _) => .error "unsupported: AST node as a default of an input IR"
  | some (.val (.str s)) =>
    if codeQuoted s then pure (.retTuple (setValue (.str s)))
    else match env.pyExpr s with
      | some e => pure (.retTuple e)
      | none => .error "SyntaxError"
  | some (.val _) => .error "TypeError"

def emitArgparse (env : Env) (cfg : Cfg) (ir : IR) : Except String Top := do
  let adds ← ir.params.mapM (param2argparse env cfg.emitDefaultDoc)
  let ret ← argparseReturn env ir
  pure (.fn "set_cli_args" { args := [{ name := "argument_parser" }] }
    ([.doc (setValueStr (env.docEmit (argparseDocCfg cfg) (argparseDocIR ir))), .descr (.val (.str (setValueStr ir.doc)))]
      ++ adds.map .addArg ++ [ret]) none)

inductive Format where | class_ | pydantic | function | argparse
deriving DecidableEq, Repr, Inhabited

def emit (env : Env) (f : Format) (cfg : Cfg) (ir : IR) : Except String Top :=
  match f with
  | .class_ => emitClass env { cfg with classBases := ["object"] } ir
  | .pydantic => emitClass env { cfg with classBases := ["BaseModel"] } ir
  | .function => emitFunction env cfg ir
  | .argparse => emitArgparse env cfg ir

/-- the docstring request of an emitter (cfg, IR) — what it asks the docstring layer to render -/
def docRequest (f : Format) (cfg : Cfg) (ir : IR) : DocEmitCfg × IR :=
  match f with
  | .class_ | .pydantic => (classDocCfg cfg, classDocIR ir)
  | .function => (fnDocCfg cfg, ir)
  | .argparse => (argparseDocCfg cfg, argparseDocIR ir)

end Iface
