import CddVerif.Model.IfaceEmit
/-!
# C02 — the parsers (`cdd/class_/parse.py:class_`, `cdd/pydantic/parse.py`, `cdd/function/parse.py:function`,
`cdd/function/utils/parse_utils.py:_interpolate_return`, `cdd/argparse_function/parse.py:argparse_ast`,
`cdd/argparse_function/utils/emit_utils.py:parse_out_param/_parse_return/_handle_keyword`) with `func_arg2param`,
`get_value`, `ir_merge`/`merge_params`/`merge_present_params` and `_set_name_and_type`/`_infer_default`
-/
namespace Iface

/-! ## `merge_present_params` / `merge_params` (same algorithm as `Model/Merge.lean`, over typed defaults;
`Proofs/Iface.lean` proves the key-order specification for this instance too) -/

/-- `param.get("default") in none_types` -/
def isNoneLike : Option DVal → Bool
  | none => true
  | some d => d.inNoneTypes

def falsyDoc (d : Option String) : Bool := d == none || d == some ""

/-- `if not target.get("doc") and other.get("doc"): target["doc"] = other["doc"]` -/
def mpDoc (other target : Param) : Param :=
  if falsyDoc target.doc && !falsyDoc other.doc then { target with doc := other.doc } else target
/-- the type of `other` wins when `target` has none, or has a simple one while `other`'s is compound -/
def mpTyp (other target : Param) : Param :=
  if other.typ != none &&
     (target.typ == none || (match target.typ, other.typ with
                             | some tt, some ot => isSimple tt && !isSimple ot
                             | _, _ => false))
  then { target with typ := other.typ } else target
/-- `if target.get("default") in none_types and other.get("default") is not None: target["default"] = other["default"]` -/
def mpDefault (other target : Param) : Param :=
  if isNoneLike target.default && other.default != none then { target with default := other.default } else target

/-- `merge_present_params(other_param, target_param)` (the new value of the mutated target) -/
def mergePresent (other target : Param) : Param := mpDefault other (mpTyp other (mpDoc other target))

def dmodify (d : Dict) (k : String) (f : Param → Param) : Dict := d.map (fun kv => if kv.1 == k then (kv.1, f kv.2) else kv)

def stepCommon (other target : Dict) (k : String) : Dict :=
  match dget? other k with
  | some o => dmodify target k (mergePresent o)
  | none => target
def stepMissing (other target : Dict) (k : String) : Dict :=
  match dget? other k with
  | some o => if dhas target k then target else dset target k o
  | none => target
/-- `merge_params(other, target)`; the `&`-set is iterated in `target` order (any order gives the same result: C10) -/
def mergeParams (other target : Dict) : Dict :=
  (dkeys other).foldl (stepMissing other) (((dkeys target).filter (dhas other)).foldl (stepCommon other) target)

/-! ## `_set_name_and_type` / `_infer_default` -/

/-- `paren_wrap_code` (Python ≥ 3.9) -/
def parenWrap (code : String) : String :=
  let l := code.toList
  match l.head?, l.getLast? with
  | some a, some b => if (a == '(' && b == ')') || (a == '[' && b == ']') || (a == '{' && b == '}') then code else "(" ++ code ++ ")"
  | _, _ => code

/-- `type(node).__name__` as far as the model can know it -/
def nodeTypeName : Expr → Option String
  | .const _ => some "Constant" | .neg _ => some "UnaryOp" | .name _ => some "Name" | .code _ t => if t then some "Tuple" else none

def DVal.pyTypeName : DVal → Option String
  | .val d => some d.typeName
  | .node e => nodeTypeName e

def DVal.isCodeStr : DVal → Bool | .val d => d.isCode | .node _ => false

def inferDefault (inferType : Bool) (p : Param) : Except String Param := do
  let some d := p.default | pure p
  -- `isinstance(default, (Str, …, ast.Constant, …))` → `get_value`
  let d := match d with | .node (.const c) => getValue (.const c) | d => d
  let d := if d.inNoneTypes then DVal.val (.str NoneStr) else d
  let typ ← if inferType && p.typ == none && !d.inNoneTypes then
              (match d.pyTypeName with | some n => pure (some n) | none => .error "unsupported: type name of an opaque node")
            else pure p.typ
  let (d, typ) ←
    if needsQuoting typ || (match d with | .val (.str _) => true | _ => false) then
      pure (match d with | .val (.str s) => DVal.val (.str (unquoteStr s)) | d => d, typ)
    else match d with
      | .node e =>
        -- `ast.literal_eval(node)`; on `ValueError` the code-quoted, parenthesised source
        (match e with
         | .neg (.val v) =>
           (match negDefault v with
            | some v' => pure (DVal.val v', if typ == none || typ == some "UnaryOp" then some v'.typeName else typ)
            | none => .error "unsupported: literal_eval of -str")
         | .name id => pure (DVal.val (.str ("```" ++ parenWrap id ++ "```")), typ)
         | .code src false => pure (DVal.val (.str ("```" ++ parenWrap src ++ "```")), typ)
         | _ => .error "unsupported: literal_eval of this node")
      | d => pure (d, typ)
  let typ ← if typ == none && !d.isNoneStr then
              (match d.pyTypeName with | some n => pure (some n) | none => .error "unsupported: type name of an opaque node")
            else pure typ
  let typ ← if !d.isNoneStr && d.isCodeStr then
              (match typ with
               | some t => pure (if hasChar t '[' then some t else none)
               | none => .error "KeyError")
            else pure typ
  pure { p with default := some d, typ := typ }

/-- the whitespace tidy of `__set_name_and_type_handle_doc_in_param` (`word_wrap=True`):
    `" ".join(map(str.strip, doc.split("\n"))).rstrip()` -/
def tidyDoc (d : String) : String :=
  String.ofList (Py.rstrip (Py.join [' '] ((Py.split1 d.toList '\n').map Py.strip)))

def googleOpt : String := ", optional"

/-- first step: `merge_present_params(target=_param, other=dict(zip(("doc", "default"), extract_default(_param["doc"]))))` -/
def sntMerge (env : Env) (p : Param) : Param :=
  match p.doc with
  | some d => mergePresent { doc := some (env.extractDefault true d).1, default := (env.extractDefault true d).2.map .val } p
  | none => p

/-- Google's `, optional` suffix of a type -/
def sntGoogle (p : Param) : Param :=
  match p.typ with
  | some t => if endsWith t googleOpt then
      { p with typ := some ("Optional[" ++ String.ofList (t.toList.take (t.toList.length - googleOpt.toList.length)) ++ "]") } else p
  | none => p

/-- `if "doc" in _param and not _param["doc"]: del _param["doc"]` -/
def sntDropEmptyDoc (p : Param) : Param := if p.doc == some "" then { p with doc := none } else p

/-- `__set_name_and_type_handle_doc_in_param` -/
def sntDoc (env : Env) (name : String) (wasNone : Bool) (p : Param) : Param :=
  match p.doc with
  | none => p
  | some d =>
    let d := tidyDoc d
    let p := { p with doc := some d }
    let p := match env.adhocTyp d name (isNoneStrD p.default) with
      | some t => { p with typ := some t }
      | none => p
    if startsWith d "(Optional)" || startsWith d "Optional" || wasNone then
      match p.typ with
      | some t => if startsWith t "Optional[" then p else { p with typ := some ("Optional[" ++ t ++ "]") }
      | none => p
    else p

def setNameAndType (env : Env) (inferType : Bool) (kv : String × Param) : Except String (String × Param) := do
  let (name, p) := kv
  let wasNone := match p.default with | some (.val d) => d.inNoneTypes | _ => false
  let p := sntMerge env p
  if endsWith name "kwargs" || startsWith name "*" then .error "unsupported: *args / **kwargs"
  let p ← if p.default.isSome then inferDefault inferType p else pure p
  pure (name, sntDoc env name wasNone (sntDropEmptyDoc (sntGoogle p)))

/-! ## class / pydantic -/

def splitDoc (body : List Stmt) : Option String × List Stmt :=
  match body with
  | .doc s :: rest => (some s, rest)
  | b => (none, b)

/-- the `default` read off an `AnnAssign` value by `class_` -/
def classDefaultOf (e : Expr) : Except String DVal :=
  match getValue e with
  | .val d => pure (.val d)
  | .node n =>
    let t := n.text
    if t == "{}" || t == "[]" || t == "()" then .error "unsupported: container default" else pure (.val (.str t))

def classStep (ir : IR) (s : Stmt) : Except String IR := do
  match s with
  | .ann target ann value =>
    let dv ← match value with | some e => (do let v ← classDefaultOf e; pure (some v)) | none => pure none
    let upd (p : Param) : Param := { p with typ := some ann, default := match dv with | some v => some v | none => p.default }
    if startsWith target "*" then .error "unsupported: starred target"
    else if dhas ir.params target then pure { ir with params := dmodify ir.params target upd }
    else if target == "return_type" then
      (match ir.returns with
       | some r => pure { ir with returns := some (upd r) }
       | none => pure { ir with returns := some (upd {}) })
    else pure { ir with params := ir.params ++ [(target, upd {})] }
  | .descr _ => .error "unsupported: Assign in a class body"
  | _ => pure ir

def parseClass (env : Env) (inferType : Bool) (t : Top) : Except String IR := do
  let .cls cname _ body := t | .error "AssertionError"
  let (doc?, rest) := splitDoc body
  let ir0 : IR := match doc? with
    | none => { name := none, type := some "static", doc := "", params := [], returns := none }
    | some s => env.docParse .cls s
  let ir1 := match dget? ir0.params "return_type" with
    | some p => { ir0 with params := dpop ir0.params "return_type", returns := some p }
    | none => ir0
  let ir2 ← rest.foldlM classStep ir1
  let ps ← ir2.params.mapM (setNameAndType env inferType)
  pure { ir2 with name := some cname, params := ps }

/-! ## function -/

def Stmt.returnExpr? : Stmt → Option Expr
  | .ret e => some e
  | .retTuple e => some (.code ("(argument_parser, " ++ e.text ++ ")") true)
  | .retParser => some (.name "argument_parser")
  | _ => none

/-- `[None] * abs(len(args) - len(defaults)) + defaults` -/
def padDefaults (n : Nat) (ds : List (Option Expr)) : List (Option Expr) :=
  List.replicate (if n ≥ ds.length then n - ds.length else ds.length - n) none ++ ds

/-- `func_arg2param` for `args[idx]`, `defaults[idx]` -/
def funcArg2Param (a : Arg) (d : Option Expr) : String × Param := (a.name, { doc := none, typ := a.ann, default := d.map .node })

def sigParams (args : List Arg) (defaults : List (Option Expr)) : Dict :=
  let ds := padDefaults args.length defaults
  args.zipIdx.map (fun (a, i) => funcArg2Param a (ds[i]?.join))

/-- `if "typ" in rt and "[" not in rt["typ"]: del rt["typ"]` -/
def dropPlainTyp (rt : Param) : Param :=
  match rt.typ with
  | some t => if hasChar t '[' then rt else { rt with typ := none }
  | none => rt

/-- the `default` `_interpolate_return` derives from the returned expression -/
def returnDefault (e : Expr) : DVal :=
  let src := e.text
  let isTuple := match e with | .code _ t => t | _ => false
  if isTuple && (!startsWith src "(" || !endsWith src ")") then .val (.str ("(" ++ src ++ ")"))
  else match getValue e with
    | .val d => .val d
    | .node _ => .val (.str ("```" ++ src ++ "```"))

/-- `_interpolate_return` -/
def interpolateReturn (body : List Stmt) (annot : Option String) (returns : Option Param) : Option Param :=
  let returns :=
    match (body.reverse.filterMap Stmt.returnExpr?).head? with
    | some e => some { (dropPlainTyp (returns.getD {})) with default := some (returnDefault e) }
    | none => returns
  match annot with
  | some t => some { (returns.getD {}) with typ := some t }
  | none => returns

/-- `get_function_type` -/
def foundTypeOf (args : List Arg) : String :=
  match args with
  | a :: _ => if a.name == "self" || a.name == "cls" then a.name else "static"
  | [] => "static"

/-- the last step of `function`: `_set_name_and_type` on the return entry, when there is one -/
def fnRetStep (env : Env) (inferType : Bool) (r? : Option Param) : Except String (Option Param) :=
  match r? with
  | some r => (do let (_, r') ← setNameAndType env inferType ("return_type", r); pure (some r'))
  | none => pure none

def parseFunction (env : Env) (inferType : Bool) (t : Top) : Except String IR := do
  let .fn fname args body annot := t | .error "AssertionError"
  let foundType := foundTypeOf args.args
  let (doc?, rest) := splitDoc body
  let posArgs := if foundType == "static" then args.args else args.args.drop 1
  let ir0 : IR := match doc? with
    | none => { name := some fname, params := [], returns := none }
    | some s => env.docParse (.fn inferType) (String.ofList (Py.replace s.toList ":cvar".toList ":param".toList))
  let sig := sigParams posArgs (args.defaults.map some) ++ sigParams args.kwonly args.kwDefaults
  -- `ir_merge(target=docstring IR, other={"params": sig, "returns": None})`
  let params := if ir0.params.isEmpty then sig else if sig.isEmpty then ir0.params else mergeParams sig ir0.params
  let params ← params.mapM (setNameAndType env inferType)
  let returns ← fnRetStep env inferType (interpolateReturn rest annot ir0.returns)
  pure { name := some fname, type := some foundType, doc := ir0.doc, params := params, returns := returns }

/-! ## argparse -/

/-- `_handle_keyword`: the type built from `choices=(…)` -/
def handleChoices (cs : List String) (typ : String) : String :=
  if isSimple typ then
    "Literal[" ++ joinComma (cs.map (fun s => if typ == "str" then "'" ++ s ++ "'" else s)) ++ "]"
  else "Union[" ++ joinComma cs ++ "]"

/-- `parse_out_param(expr, emit_default_doc=False)` -/
def parseOutParam (env : Env) (a : AddArg) : Except String (String × Param) := do
  let typ0 := match a.typ with | some id => if id == "loads" then "Optional[dict]" else id | none => "str"
  let default0 ← match a.default with
    | some e => (match getValue e with
                 | .val d => pure (some d)
                 | .node _ => .error "unsupported: non-constant default= in add_argument")
    | none => pure none
  let (doc, default) : Option String × Option Default :=
    match default0 with
    | some d => (a.help, some d)
    | none => match a.help with
      | some h => let (d', df) := env.extractDefault false h; (some d', df)
      | none => (none, none)
  let default := match default with
    | some d => some d
    | none => if a.required then some (if isSimple typ0 then zeroOf typ0 else .str NoneStr) else none
  let typ := match a.choices with | some cs => handleChoices cs typ0 | none => typ0
  let typ := if a.action == some "append" then "List[" ++ typ ++ "]" else typ
  let typ := if !a.required && !hasSub typ "Optional" then "Optional[" ++ typ ++ "]" else typ
  pure (a.name, { doc := doc, typ := some typ, default := default.map .val })

def tupleParserPrefix : String := "Tuple[ArgumentParser, "

/-- `_parse_return` followed by `set_default_doc(…, emit_default_doc=False)` -/
def parseReturn (env : Env) (docIR : IR) (rawDoc : String) (e : Expr) : Except String Param := do
  let some rt := docIR.returns | .error "TypeError"
  let some typ := rt.typ | .error "KeyError"
  let typ ← if hasChar typ '[' then
      (if startsWith typ tupleParserPrefix && endsWith typ "]" then
         pure (String.ofList ((typ.toList.drop tupleParserPrefix.toList.length).dropLast))
       else .error "unsupported: return type of the argparse docstring is not Tuple[ArgumentParser, …]")
    else pure typ
  let lines := Py.split1 rawDoc.toList '\n'
  let some line := lines.find? (fun l => Py.startsWith (Py.lstrip l) ":return".toList) | .error "StopIteration"
  let after := String.ofList (Py.lstrip (Py.partition line [',']).2.2)
  let doc := (env.extractDefault false after).1
  let doc := if hasSub doc "Defaults" || hasSub doc "defaults" then (env.extractDefault false doc).1 else doc
  pure { doc := some doc, default := some (.val (.str e.text)), typ := some typ }

def argparseStep (env : Env) (docIR : IR) (rawDoc : String) (ir : IR) (s : Stmt) : Except String IR := do
  match s with
  | .addArg a =>
    let (name, p) ← parseOutParam env a
    if dhas ir.params name then
      let upd (q : Param) : Param :=
        { doc := p.doc, typ := p.typ, default := match p.default with | some d => some d | none => q.default }
      pure { ir with params := dmodify ir.params name upd }
    else pure { ir with params := ir.params ++ [(name, p)] }
  | .descr c =>
    (match c with
     | .val (.str s) => pure { ir with doc := s }
     | _ => .error "unsupported: non-str description")
  | .retTuple e => do
    let r ← parseReturn env docIR rawDoc e
    pure { ir with returns := some r }
  | _ => pure ir

def parseArgparse (env : Env) (t : Top) : Except String IR := do
  let .fn fname args body _ := t | .error "AssertionError"
  let foundType := foundTypeOf args.args
  let (doc?, rest) := splitDoc body
  let some raw := doc? | .error "unsupported: argparse function without docstring"
  let docIR := env.docParse .argparse raw
  rest.foldlM (argparseStep env docIR raw) { name := some fname, type := some foundType, doc := "", params := [], returns := none }

def parse (env : Env) (f : Format) (t : Top) : Except String IR :=
  match f with
  | .class_ => parseClass env false t
  | .pydantic => parseClass env true t
  | .function => parseFunction env false t
  | .argparse => parseArgparse env t

end Iface
