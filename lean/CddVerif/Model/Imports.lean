/-!
# Abstract machine for CPython's import of the package's modules (property C18)

State = two `Nat` bitsets (kernel-friendly: every intermediate state is a GMP literal):
* `seen`  — bit `m` set ⇔ module `m` has an entry in `sys.modules` (created *before* its body runs);
* `names` — bit `m * stride + n` set ⇔ name `n` is bound in module `m`'s namespace
  (a submodule becomes an attribute of its parent only *after* the child's body has finished).

`from m import n` succeeds iff `n` is already an attribute of `m`, or `m.n` is an importable submodule.
All recursion is structural on `fuel`.
-/
namespace Imports

inductive Ev where
  | imp (chain : List Nat)
  | frm (chain : List Nat) (names : List (Nat × Option (List Nat)))
  | bind (n : Nat)
  | use (steps : List (Nat × Nat × Option Nat))
  | missing
deriving Repr

inductive Err | importError | attributeError | moduleNotFound | fuel
deriving DecidableEq, Repr

structure Cfg where
  tbl : List (List Ev)
  short : List Nat
  stride : Nat

@[inline] def has (stride names m n : Nat) : Bool := Nat.testBit names (m * stride + n)
@[inline] def add (stride names m n : Nat) : Nat := names ||| (1 <<< (m * stride + n))

def useOk (stride names : Nat) : List (Nat × Nat × Option Nat) → Bool
  | [] => true
  | (cur, a, nxt) :: rest =>
    if has stride names cur a then (match nxt with | some _ => useOk stride names rest | none => true) else false

mutual
def loadChain (c : Cfg) : Nat → Nat → Nat → Option Nat → List Nat → Except Err (Nat × Nat)
  | 0, _, _, _, _ => .error .fuel
  | _, seen, names, _, [] => .ok (seen, names)
  | fuel+1, seen, names, parent, m :: rest =>
    if Nat.testBit seen m then loadChain c fuel seen names (some m) rest
    else
      match runEvs c fuel (seen ||| (1 <<< m)) names m (c.tbl.getD m []) with
      | .error e => .error e
      | .ok (seen2, names2) =>
        let names3 := match parent with | some p => add c.stride names2 p (c.short.getD m 0) | none => names2
        loadChain c fuel seen2 names3 (some m) rest

def runEvs (c : Cfg) : Nat → Nat → Nat → Nat → List Ev → Except Err (Nat × Nat)
  | 0, _, _, _, _ => .error .fuel
  | _, seen, names, _, [] => .ok (seen, names)
  | fuel+1, seen, names, m, ev :: evs =>
    match ev with
    | .missing => .error .moduleNotFound
    | .bind n => runEvs c fuel seen (add c.stride names m n) m evs
    | .imp chain =>
      match loadChain c fuel seen names none chain with
      | .error e => .error e
      | .ok (s2, n2) => runEvs c fuel s2 n2 m evs
    | .frm chain nms =>
      match loadChain c fuel seen names none chain with
      | .error e => .error e
      | .ok (s2, n2) =>
        match fromNames c fuel s2 n2 (chain.getLastD 0) nms with
        | .error e => .error e
        | .ok (s3, n3) => runEvs c fuel s3 n3 m evs
    | .use steps =>
      if useOk c.stride names steps then runEvs c fuel seen names m evs else .error .attributeError

def fromNames (c : Cfg) : Nat → Nat → Nat → Nat → List (Nat × Option (List Nat)) → Except Err (Nat × Nat)
  | 0, _, _, _, _ => .error .fuel
  | _, seen, names, _, [] => .ok (seen, names)
  | fuel+1, seen, names, tgt, (n, sub) :: rest =>
    if n == 0 || has c.stride names tgt n then fromNames c fuel seen names tgt rest
    else match sub with
      | none => .error .importError
      | some chain =>
        match loadChain c fuel seen names none chain with
        | .error e => .error e
        | .ok (s2, n2) => fromNames c fuel s2 n2 tgt rest
end

/-- import a sequence of modules (given as parent chains) into the state; stops at the first error -/
def importSeq (c : Cfg) (fuel : Nat) : Nat → Nat → List (List Nat) → Except Err (Nat × Nat)
  | seen, names, [] => .ok (seen, names)
  | seen, names, ch :: cs => match loadChain c fuel seen names none ch with
    | .error e => .error e
    | .ok (s2, n2) => importSeq c fuel s2 n2 cs

def fresh (c : Cfg) (fuel : Nat) (seq : List (List Nat)) : Except Err (Nat × Nat) := importSeq c fuel 0 0 seq

def okB : Except Err (Nat × Nat) → Bool | .ok _ => true | .error _ => false

/-- every module of `chains` imports first in a fresh interpreter -/
def allSingles (c : Cfg) (fuel : Nat) (chains : List (List Nat)) : Bool :=
  chains.all (fun ch => okB (fresh c fuel [ch]))

/-- both orders of a pair succeed and end in the same state (same modules loaded, same names bound) -/
def pairOk (c : Cfg) (fuel : Nat) (a b : List Nat) : Bool :=
  match fresh c fuel [a, b], fresh c fuel [b, a] with
  | .ok s1, .ok s2 => s1.1 == s2.1 && s1.2 == s2.2
  | _, _ => false

/-- all pairs `(i, j)` with `i` in `rows` and `i < j` -/
def pairsOk (c : Cfg) (fuel : Nat) (chains : List (List Nat)) (rows : List Nat) : Bool :=
  rows.all (fun i => (List.range chains.length).all (fun j =>
    if i < j then pairOk c fuel (chains.getD i []) (chains.getD j []) else true))

end Imports

namespace Imports
/-- module `i` against modules `lo … lo+len-1`: both orders succeed and agree -/
def rowOk (c : Cfg) (fuel : Nat) (chains : List (List Nat)) (i lo len : Nat) : Bool :=
  (List.range' lo len).all (fun j => pairOk c fuel (chains.getD i []) (chains.getD j []))

theorem rowOk_append {c : Cfg} {fuel : Nat} {chains : List (List Nat)} {i lo a b : Nat}
    (h1 : rowOk c fuel chains i lo a = true) (h2 : rowOk c fuel chains i (lo + a) b = true) :
    rowOk c fuel chains i lo (a + b) = true := by
  unfold rowOk at *
  rw [← List.range'_append_1, List.all_append, h1, h2]; rfl

theorem rowOk_mem {c : Cfg} {fuel : Nat} {chains : List (List Nat)} {i lo len : Nat}
    (h : rowOk c fuel chains i lo len = true) (j : Nat) (h1 : lo ≤ j) (h2 : j < lo + len) :
    pairOk c fuel (chains.getD i []) (chains.getD j []) = true := by
  unfold rowOk at h
  rw [List.all_eq_true] at h
  apply h
  rw [List.mem_range'_1]; exact ⟨h1, h2⟩
end Imports
