import CddVerif.Py.Ast
/-!
# Model of `cdd sync` (property C12)

Faithful ports over `PyAst` of

* `cdd/shared/ast_utils.py`: `annotate_ancestry` (the `_location` attribute, computed on demand by `loc`),
  `find_in_ast` (`findInAst`: the two nested loops with their leaking loop variables), `RewriteAtQuery.generic_visit`
  and `RewriteAtQuery.visit_FunctionDef` (`rwStmt` / `rwList` / `visitFunctionDef`), `cmp_ast` (`cmpFound`),
  `get_function_type` (`functionType`);
* `cdd/shared/conformance.py`: `_default_options`, `_conform_filename` (`conform`), `ground_truth` (`sync`).

The emitters and parsers of the three kinds are *parameters* (`Emitters`): they belong to properties C01/C02.
A file is `Option Module` (`none` = does not exist, `some []` = empty).  Writing a file and reading it back
(`ast.unparse`, `black`, `ast.parse`) is the identity on this AST (trusted base; docstring layout is normalised by
the harness on both sides).

What `PyAst` cannot see (and the model therefore does not cover): definitions nested inside compound statements
other than `class` / `def` (`Stmt.other` is opaque) and `Constant` nodes inside expressions (which
`annotate_ancestry` also gives a `_location`).
-/
namespace Sync
open PyAst

/-- the three kinds, in the iteration order of `arg2parse_emit_type` -/
inductive Kind
  | argparse | cls | function
deriving DecidableEq, Repr, Inhabited

def kinds : List Kind := [.argparse, .cls, .function]

inductive Err
  | assertion (what : String)
  | typeError (what : String)
  | attributeError (what : String)
  | notImplemented (what : String)
  /-- the real result is not representable in `PyAst` (not an exception of the real code) -/
  | outOfModel (what : String)
deriving DecidableEq, Repr, Inhabited

/-! ### `_location` (annotate_ancestry) -/

/-- is the `ast.unparse` text of an assignment target that of a plain `Name` -/
def isName (s : String) : Bool :=
  !s.isEmpty && s.toList.all (fun c => c.isAlphanum || c == '_' || c.val ≥ 128)

/-- the last component of `_location`: `name` of a definition, target of an (annotated) assignment to plain names
    (for `a = b = 1` the loop `for target in targets` leaves the last one) -/
def ownName : Stmt → Option String
  | .fn _ n _ _ _ _ => some n
  | .cls n _ _ _ _ => some n
  | .ann t _ _ => if isName t then some t else none
  | .assign ts _ => if ts.all isName then ts.getLast? else none
  | _ => none

/-- `_location` of a statement whose *immediate* AST parent has name `parent` (`none`: the parent has no `name`
    attribute, e.g. the `Module`).  `annotate_ancestry` only ever prefixes the immediate parent's name. -/
def loc (parent : Option String) (s : Stmt) : Option (List String) :=
  (ownName s).map (fun n => parent.toList ++ [n])

/-! ### find_in_ast -/

inductive Found
  | module
  | stmt (s : Stmt)
  /-- an `ast.arg` of a function, with the `default` attribute `find_in_ast` attaches (its own, mis-aligned, index) -/
  | arg (a : Arg) (default : Option String)
deriving Repr, Inhabited

/-- the variable `cursor`: a list of statements (with the name of the node owning it), or an `ast.arg` -/
inductive Cursor
  | stmts (parent : Option String) (l : List Stmt)
  | argNode
deriving Repr, Inhabited

structure LoopSt where
  query : String
  cur : List String
  cursor : Cursor
  /-- the loop variable `child_node`, which survives the `for` loop (`none`: still the root `Module`) -/
  child : Option Stmt
deriving Repr, Inhabited

inductive ForOut
  | ret (f : Found)
  /-- the `for` loop ended (exhausted, or `break`) -/
  | next (st : LoopSt)
deriving Repr, Inhabited

/-- `next(filter(lambda idx_arg: idx_arg[1].arg == query, enumerate(args)), None)` -/
def findArg (q : String) : List Arg → Nat → Option (Nat × Arg)
  | [], _ => none
  | a :: as, i => if a.name == q then some (i, a) else findArg q as (i + 1)

/-- `for child_node in cursor: …` (the iterator was taken from the old `cursor`, so re-binding `cursor` inside the loop
    does not affect the iteration) -/
def forLoop (search : List String) (parent : Option String) : List Stmt → LoopSt → ForOut
  | [], st => .next st
  | c :: rest, st0 =>
    let st := { st0 with child := some c }
    if loc parent c == some search then .ret (.stmt c) else
    match c with
    | .fn false _ args _ _ _ =>
      -- `isinstance(child_node, FunctionDef)`: pops the next query component, *whatever the function's name is*
      let qc : String × List String := match st.cur with
        | [] => (st.query, [])
        | q :: cur' => (q, cur')
      match findArg qc.1 args.args 0 with
      | some (i, a) =>
        if qc.2.isEmpty then .ret (.arg a args.defaults[i]?)
        else forLoop search parent rest { st with query := qc.1, cur := qc.2, cursor := .argNode }
      | none => forLoop search parent rest { st with query := qc.1, cur := qc.2 }
    | .ann t _ _ =>
      if isName t && t == st.query then .ret (.stmt c) else forLoop search parent rest st
    | _ =>
      match c.defName? with
      | some n =>
        if n == st.query then .next { st with cursor := .stmts (some n) c.body }
        else forLoop search parent rest st
      | none => forLoop search parent rest st

/-- `while len(current_search): …` — every iteration pops one component, `fuel = len(search) + 1` suffices -/
def whileLoop (search : List String) : Nat → LoopSt → Except Err (Option Found)
  | 0, _ => .ok none
  | fuel + 1, st0 =>
    match st0.cur with
    | [] => .ok none
    | q :: cur =>
      let st := { st0 with query := q, cur := cur }
      let hit : Option Stmt :=
        if cur.isEmpty then
          match st.child with
          | some c => if c.defName? == some q then some c else none
          | none => none
        else none
      match hit with
      | some c => .ok (some (.stmt c))
      | none =>
        match st.cursor with
        | .argNode => .error (.typeError "'arg' object is not iterable")
        | .stmts par l =>
          match forLoop search par l st with
          | .ret f => .ok (some f)
          | .next st' => whileLoop search fuel st'

def findInAst (search : List String) (m : Module) : Except Err (Option Found) :=
  if search.isEmpty then .ok (some .module)
  else whileLoop search (search.length + 1) { query := "", cur := search, cursor := .stmts none m, child := none }

/-! ### RewriteAtQuery -/

/-- `self.replacement_node` (it is re-bound to an `ast.arg` by `visit_FunctionDef`) -/
inductive Repl
  | stmt (s : Stmt)
  | arg (a : Arg)
deriving Repr, Inhabited

structure RwSt where
  repl : Repl
  replaced : Bool
deriving Repr, Inhabited

def selfOffset : List Arg → Nat
  | a :: _ => if a.name == "self" || a.name == "cls" then 1 else 0
  | [] => 0

/-- `arg_l[idx] = emit_arg(self.replacement_node); self.replaced = True; break` for the first `arg` whose `_location`
    is the search path -/
def replaceFirstArg (fnloc search : List String) (new : Arg) : List Arg → List Arg × Bool
  | [] => ([], false)
  | a :: as =>
    if fnloc ++ [a.name] == search then (new :: as, true)
    else ((replaceFirstArg fnloc search new as).1.cons a, (replaceFirstArg fnloc search new as).2)

/-- first truthy `_idx` (`filter(None, …)` drops `None` **and 0**) over `for target in targets for _arg in args` -/
def assignIdx (targets : List String) (args : List Arg) : Option Int :=
  let cands : List (Option Int) := targets.flatMap (fun t =>
    (List.range args.length).map (fun i =>
      match args[i]? with
      | some a => if a.name == t then some ((i : Int) - (selfOffset args : Int)) else none
      | none => none))
  (cands.filterMap (fun o => match o with | some i => if i == 0 then none else some i | none => none)).head?

def setDefault (args : Args) (idx : Option Int) (v : Option String) : Args :=
  match idx, v with
  | some i, some val =>
    let j : Int := i + (selfOffset args.args : Int) - ((args.args.length : Int) - (args.defaults.length : Int))
    if 0 ≤ j ∧ j < (args.defaults.length : Int) then { args with defaults := args.defaults.set j.toNat val } else args
  | _, _ => args

/-- does the adjusted index hit a slot of `defaults` -/
def hitsDefault (args : Args) (idx : Option Int) : Bool :=
  match idx with
  | some i =>
    let j : Int := i + (selfOffset args.args : Int) - ((args.args.length : Int) - (args.defaults.length : Int))
    decide (0 ≤ j ∧ j < (args.defaults.length : Int))
  | none => false

/-- `visit_FunctionDef` on a (non-async) function named `name` whose parent is `parent`; returns the possibly changed
    `arguments`.  The node itself is **never** replaced, and its body is not visited. -/
def visitFunctionDef (search : List String) (parent : Option String) (name : String) (args : Args) (st : RwSt) :
    Except Err (Args × RwSt) :=
  let fnloc := parent.toList ++ [name]
  if st.replaced || fnloc != search.dropLast then .ok (args, st) else
  -- `isinstance(self.replacement_node, (AnnAssign, Assign))`: set the default, turn the node into an `arg`
  let step1 : Except Err (Args × Repl) :=
    match st.repl with
    | .stmt (.ann t a v) =>
      -- `target.id` is evaluated lazily, once per positional parameter; without one, `emit_arg` rejects the node
      if !isName t then
        (if args.args.isEmpty then .error (.notImplemented "emit_arg(AnnAssign with a non-Name target)")
         else .error (.attributeError "replacement_node.target.id"))
      else
        let idx : Option Int := (findArg t args.args 0).map (fun ia => (ia.1 : Int) - (selfOffset args.args : Int))
        .ok (setDefault args idx v, .arg { name := t, ann := some a })
    | .stmt (.assign ts v) =>
      if !ts.all isName then .error (.outOfModel "Assign replacement with a non-Name target")
      else match ts with
        | [] => .error (.outOfModel "Assign without targets")
        | t0 :: _ =>
          -- `get_value(<ast.arg>)` returns the `arg` node itself, which would be stored as a default
          if hitsDefault args (assignIdx ts args.args) then .error (.outOfModel "an `arg` node stored as a default")
          else .ok (args, .arg { name := t0, ann := some v })
    | r => .ok (args, r)
  match step1 with
  | .error e => .error e
  | .ok (_, .stmt _) => .error (.assertion "Expected `ast.arg`")
  | .ok (args1, .arg new) =>
    let ra := replaceFirstArg fnloc search new args1.args
    let rk := replaceFirstArg fnloc search new args1.kwonly
    .ok ({ args1 with args := ra.1, kwonly := rk.1 }, { repl := .arg new, replaced := ra.2 || rk.2 })

/-- `not self.replaced and node._location == self.search` -/
def hits (search : List String) (parent : Option String) (s : Stmt) (st : RwSt) : Bool :=
  !st.replaced && loc parent s == some search

/-- `return self.replacement_node` -/
def putRepl (st : RwSt) : Except Err (Stmt × RwSt) :=
  match st.repl with
  | .stmt e => .ok (e, { st with replaced := true })
  | .arg _ => .error (.outOfModel "a statement replaced by an `arg` node")

mutual
/-- `RewriteAtQuery.visit`: `visit_FunctionDef` for `FunctionDef`, the overridden `generic_visit` for everything else -/
def rwStmt (search : List String) (parent : Option String) : Stmt → RwSt → Except Err (Stmt × RwSt)
  | .fn false name args body decos ret, st =>
    match visitFunctionDef search parent name args st with
    | .error e => .error e
    | .ok (args', st') => .ok (.fn false name args' body decos ret, st')
  | .fn true name args body decos ret, st =>
    if hits search parent (.fn true name args body decos ret) st then putRepl st
    -- `generic_visit` descends into `args` first: the annotated `arg` nodes of an `async def` can match, too
    else if !st.replaced && (args.args ++ args.kwonly).any (fun a => parent.toList ++ [name, a.name] == search) then
      .error (.outOfModel "an `arg` of an async def replaced by generic_visit")
    else
      match rwList search (some name) body st with
      | .error e => .error e
      | .ok (body', st') => .ok (.fn true name args body' decos ret, st')
  | .cls name bases kws body decos, st =>
    if hits search parent (.cls name bases kws body decos) st then putRepl st
    else
      match rwList search (some name) body st with
      | .error e => .error e
      | .ok (body', st') => .ok (.cls name bases kws body' decos, st')
  | .ann t a v, st => if hits search parent (.ann t a v) st then putRepl st else .ok (.ann t a v, st)
  | .assign ts v, st => if hits search parent (.assign ts v) st then putRepl st else .ok (.assign ts v, st)
  | s, st => .ok (s, st)
/-- `NodeTransformer.generic_visit` over a list field: every element is visited in order, the state threads through -/
def rwList (search : List String) (parent : Option String) : List Stmt → RwSt → Except Err (List Stmt × RwSt)
  | [], st => .ok ([], st)
  | s :: ss, st =>
    match rwStmt search parent s st with
    | .error e => .error e
    | .ok (s', st1) =>
      match rwList search parent ss st1 with
      | .error e => .error e
      | .ok (ss', st2) => .ok (s' :: ss', st2)
end

/-! ### conformance.py -/

/-- the emitters / parsers of the three kinds, as black boxes -/
structure Emitters (IR : Type) where
  /-- `parse_func(node, **_default_options(node, search, type_wanted)())`: node, function type, name -/
  parse : Kind → Stmt → Option String → String → IR
  /-- `emit_func(ir, **_default_options(...)())`: function type (`None` when the target was not found), name -/
  emit : Kind → IR → Option String → String → Stmt
  /-- `emit_func(ir, emit_default_doc=False)` for a file that does not exist -/
  emitNew : Kind → IR → Stmt

/-- `get_function_type` (asserts a non-async `FunctionDef`) -/
def functionType : Found → Except Err String
  | .stmt (.fn false _ args _ _ _) =>
    match args.args with
    | [] => .ok "static"
    | a :: _ => if a.name == "self" || a.name == "cls" then .ok a.name else .ok "static"
  | _ => .error (.assertion "Expected `FunctionDef`")

/-- the `function_type` entry of `_default_options` (`None` for the class kind, which only passes `class_name`) -/
def optFunctionType (k : Kind) (found : Option Found) : Except Err (Option String) :=
  match k, found with
  | .cls, _ => .ok none
  | _, none => .ok none
  | _, some f => match functionType f with
    | .ok t => .ok (some t)
    | .error e => .error e

/-- `search[-1] if len(search) else <default name>` -/
def optName (k : Kind) (search : List String) : String :=
  match search.getLast? with
  | some n => n
  | none => if k == .cls then "ConfigClass" else "set_cli_args"

/-- `type(replacement_node) is type_wanted` -/
def isWanted : Kind → Stmt → Bool
  | .cls, .cls _ _ _ _ _ => true
  | .argparse, .fn false _ _ _ _ _ => true
  | .function, .fn false _ _ _ _ _ => true
  | _, _ => false

/-- `cmp_ast(original_node, replacement_node)` -/
def cmpFound : Found → Stmt → Bool
  | .stmt s, e => s == e
  | _, _ => false

/-- `_conform_filename`: the new content of the file and the `modified` flag -/
def conform {IR : Type} (E : Emitters IR) (k : Kind) (search : List String) (ir : IR) :
    Option Module → Except Err (Option Module × Bool)
  | none =>
    -- `function()` has two required positional parameters that this call does not pass
    if k == .function then .error (.typeError "function() missing 2 required positional arguments")
    else .ok (some [E.emitNew k ir], true)
  | some m =>
    match findInAst search m with
    | .error e => .error e
    | .ok found =>
      match optFunctionType k found with
      | .error e => .error e
      | .ok ft =>
        let e := E.emit k ir ft (optName k search)
        match found with
        | none => .ok (some (m ++ [e]), true)
        | some orig =>
          if search.isEmpty then .error (.assertion "len(search) > 0")
          else if !isWanted k e then .error (.assertion "Expected type_wanted")
          else if cmpFound orig e then .ok (some m, false)
          else
            match rwList search none m { repl := .stmt e, replaced := false } with
            | .error err => .error err
            | .ok (m', st) => if st.replaced then .ok (some m', true) else .ok (some m, false)

structure Files where
  argparse : Option Module
  cls : Option Module
  function : Option Module
deriving Repr, Inhabited

def Files.get (f : Files) : Kind → Option Module
  | .argparse => f.argparse
  | .cls => f.cls
  | .function => f.function

def Files.set (f : Files) (k : Kind) (m : Option Module) : Files :=
  match k with
  | .argparse => { f with argparse := m }
  | .cls => { f with cls := m }
  | .function => { f with function := m }

/-- the node a target path denotes in a file, as `find_in_ast` sees it -/
def lookup (search : List String) : Option Module → Option Found
  | none => none
  | some m => match findInAst search m with
    | .ok r => r
    | .error _ => none

/-- the interface a target holds: the found node parsed with the kind's parser and `_default_options` -/
def targetIR {IR : Type} (E : Emitters IR) (k : Kind) (search : List String) (file : Option Module) : Except Err IR :=
  match file with
  | none => .error (.assertion "file does not exist")
  | some m =>
    match findInAst search m with
    | .error e => .error e
    | .ok none => .error (.attributeError "target not found")
    | .ok (some f) =>
      match optFunctionType k (some f) with
      | .error e => .error e
      | .ok ft =>
        match f with
        | .stmt s => if isWanted k s then .ok (E.parse k s ft (optName k search)) else .error (.assertion "unexpected node type")
        | _ => .error (.assertion "unexpected node type")

structure Run where
  files : Files
  /-- `effect`: per processed file, whether it was modified -/
  flags : List (Kind × Bool)
  err : Option Err
deriving Repr, Inhabited

/-- the loop of `ground_truth` over the kinds; an exception leaves the files written so far -/
def syncLoop {IR : Type} (E : Emitters IR) (paths : Kind → List String) (ir : IR) : List Kind → Run → Run
  | [], r => r
  | k :: ks, r =>
    match conform E k (paths k) ir (r.files.get k) with
    | .error e => { r with err := some e }
    | .ok (file', flag) => syncLoop E paths ir ks { files := r.files.set k file', flags := r.flags ++ [(k, flag)], err := none }

/-- `ground_truth(args, truth_file)`: `truthPath` is `name.split(".")`, `paths k` is `strip_split(name, ".")` -/
def sync {IR : Type} (E : Emitters IR) (t : Kind) (truthPath : List String) (paths : Kind → List String) (s : Files) : Run :=
  match targetIR E t truthPath (s.get t) with
  | .error e => { files := s, flags := [], err := some e }
  | .ok ir => syncLoop E paths ir kinds { files := s, flags := [], err := none }

/-! ### several kinds in one file

The CLI takes a file name per kind and nothing stops two kinds from naming the same file (`--class shared.py
--argparse-function shared.py`).  `slot k` is the kind under which the file of kind `k` is stored in `Files` (a canonical
representative of the kinds sharing that file; `slot = id` means three distinct files).  Every `_conform_filename` reads the
file as the previous one left it; the truth's interface is read once, before the loop. -/

def syncLoopAt {IR : Type} (E : Emitters IR) (paths : Kind → List String) (slot : Kind → Kind) (ir : IR) : List Kind → Run → Run
  | [], r => r
  | k :: ks, r =>
    match conform E k (paths k) ir (r.files.get (slot k)) with
    | .error e => { r with err := some e }
    | .ok (file', flag) =>
      syncLoopAt E paths slot ir ks { files := r.files.set (slot k) file', flags := r.flags ++ [(k, flag)], err := none }

def syncAt {IR : Type} (E : Emitters IR) (t : Kind) (truthPath : List String) (paths : Kind → List String) (slot : Kind → Kind)
    (s : Files) : Run :=
  match targetIR E t truthPath (s.get (slot t)) with
  | .error e => { files := s, flags := [], err := some e }
  | .ok ir => syncLoopAt E paths slot ir kinds { files := s, flags := [], err := none }

end Sync
