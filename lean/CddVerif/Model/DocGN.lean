import CddVerif.Model.Doc
import CddVerif.Model.Adhoc
/-!
# Google / NumPy docstring parser model (property C14, second part)

Character-level port of the Google- and NumPy-style paths of `cdd/shared/docstring_parsers.py`:

* `scanPhase`  — `_scan_phase` → `_scan_phase_numpydoc_and_google` with `_return_parse_phase_numpydoc_and_google`
  (`parse_original_whitespace=False`);
* `parsePhase` — `_parse_phase` → `_parse_phase_numpydoc_and_google` with the two inner `_parse` functions,
  `_fill_doc_with_afterward`, `_interpolate_defaults_and_force_future_default` (the `require_default` latch),
  `interpolate_defaults`, `_set_name_and_type` / `_infer_default` / `__set_name_and_type_handle_doc_in_param`
  (`infer_type=False`, `word_wrap=True`, `default_search_announce=None`);
* `deriveStyle` — `cdd/shared/docstring_utils.py : derive_docstring_format`;
* `parseDocstring` — `cdd.docstring.parse.docstring(text, emit_default_doc=edd)` for texts whose derived style is
  Google or NumPy.

Quirks are kept as they are: the `StopIteration` of a Google entry without a colon silently ends the parameter list;
the last continuation line is copied into `scanned_afterward`; a NumPy `Returns` found in the text after the section
raises `KeyError`; a return section that is the only section keeps its lines as a *list* (joined without separator);
the `require_default` latch gives every entry after the first default (and the return entry) a default; …

A Python exception is `R.raises <class name>`.  Regions that are not modelled answer `R.outside why` (the model
abstains): `extract_default` beyond the literals of `Doc.parseDefaultText`, parenthesised announcements, `float()` of
padded text, `needs_quoting` (an `ast.parse`) on types outside a small type grammar, descriptions on which
`parse_adhoc_doc_for_typ` proposes a type (the real code then calls `eval`), `repr` of non-printable strings, and
non-ASCII text (case folding, `str.isdigit`).
-/
namespace DocGN
open Py Doc

-- `g!"abc"`: a string literal as an explicit list of character literals (reduces under `decide`)
open Lean in
macro:max "g!" s:str : term => do
  let cs := s.getString.toList
  let elems := cs.map (fun c => Syntax.mkCharLit c)
  `(([$(elems.toArray),*] : List Char))

/-- the two styles handled here -/
inductive GNStyle | google | numpydoc
deriving DecidableEq, Repr

/-- outcome of running a piece of the real code -/
inductive R (α : Type) where
  | ok (a : α)
  | raises (exc : String)
  | outside (why : String)
deriving Repr, DecidableEq

def ofOut {α} : Out α → R α
  | .ok a => .ok a
  | .outside w => .outside w

/-! ### the scanned structure -/

/-- an element of `scanned[return_tokens[0]]`: a line (`str`) or a unit of lines (`list[str]`) -/
inductive Elem where
  | s (v : Str)
  | l (v : List Str)
deriving DecidableEq, Repr

/-- the dict `scanned`: keys `"doc"`, `arg_tokens[0]`, `return_tokens[0]` and (optionally) `"scanned_afterward"` -/
structure Scanned where
  doc : Str := []
  args : List (List Str) := []
  rets : List Elem := []
  afterward : Option (List Str) := none
deriving DecidableEq, Repr

def argTok : GNStyle → Str
  | .google => g!"Args:"
  | .numpydoc => g!"Parameters\n----------"
def retTok : GNStyle → Str
  | .google => g!"Returns:"
  | .numpydoc => g!"Returns\n-------"
/-- `return_tokens[0].splitlines()` -/
def retTokLines : GNStyle → List Str
  | .google => [g!"Returns:"]
  | .numpydoc => [g!"Returns", g!"-------"]

/-- `str.splitlines()` with all of CPython's line boundaries -/
def isLineBreak (c : Char) : Bool :=
  c == '\n' || c == '\r' || c == '\x0b' || c == '\x0c' || c == '\x1c' || c == '\x1d' || c == '\x1e' ||
  c == '\x85' || c == '\u2028' || c == '\u2029'
def splitlinesAux : Str → Str → List Str
  | [], acc => if acc.isEmpty then [] else [acc.reverse]
  | '\r' :: '\n' :: cs, acc => acc.reverse :: splitlinesAux cs []
  | c :: cs, acc => if isLineBreak c then acc.reverse :: splitlinesAux cs [] else splitlinesAux cs (c :: acc)
def splitlines (s : Str) : List Str := splitlinesAux s []

/-- `count_iter_items(takewhile(str.isspace, line))` -/
def indentOf (l : Str) : Nat := (l.takeWhile isSpaceC).length

/-- `location_within(container, (tok,))` with `cmp=eq`: left-most occurrence → (start, end) -/
def locate (s tok : Str) : Option (Nat × Nat) :=
  if tok.length > s.length then none
  else match find s tok with
    | some i => some (i, i + tok.length)
    | none => none

/-- `lambda s: s if s.isspace() else s.strip()` -/
def whiteSpacerScan (s : Str) : Str := if isspace s then s else strip s

/-- `stacker[-1].append(line)` -/
def appendLast : List (List Str) → Str → List (List Str)
  | [], _ => []
  | [x], l => [x ++ [l]]
  | x :: xs, l => x :: appendLast xs l

/-- the `for line_no, line in enumerate(docstring_lines)` loop up to its `break`:
    → (stacker, `some (line, docstring_lines[line_no+1:])` at the break) -/
def scanLines (fi : Nat) : List Str → List (List Str) → List (List Str) × Option (Str × List Str)
  | [], st => (st, none)
  | l :: rest, st =>
    if indentOf l == fi then scanLines fi rest (st ++ [[l]])
    else if indentOf l < fi then (st, some (l, rest))
    else scanLines fi rest (appendLast st l)

structure ScanSt where
  args : List (List Str) := []
  rets : List Elem := []
  afterward : Option (List Str) := none
  stacker : List (List Str) := []
deriving Repr

/-- `scanned[namespace] = v` -/
def setNs (isArg : Bool) (s : ScanSt) (v : List (List Str)) : ScanSt :=
  if isArg then { s with args := v } else { s with rets := v.map Elem.l }

/-- the body of `elif indent < first_indent:` (`rest = docstring_lines[line_no+1:]`) -/
def atBreak (style : GNStyle) (isArg : Bool) (st : List (List Str)) (rest : List Str) : ScanSt :=
  let s0 := setNs isArg {} st
  if rest.length > 2 && rest.head? == some (retTok style) then
    let tail := rest.drop 2
    let ri := indentOf (tail.headD [])
    let nsi := (tail.takeWhile (fun l => ri ≤ indentOf l)).length
    let r := (rest.drop 1).take (1 + nsi)
    let r := if r.length > 1 && !(endsWith (r.headD []) [':']) then [join ['\n'] r] else r
    let aft := rest.drop (2 + nsi)
    { s0 with rets := r.map Elem.s, afterward := if aft.isEmpty then none else some aft }
  else { s0 with afterward := if rest.isEmpty then none else some rest }

/-- `for i in range(len(stacker)-1, -1, -1): if i - 1 > 0 and stacker[i] + stacker[i-1] == rev_return_token` → the largest such `i` -/
def retIdxAux (rev : List Str) : List (List Str) → Nat → Option Nat → Option Nat
  | a :: b :: rest, i, best => retIdxAux rev (b :: rest) (i + 1) (if i - 1 > 0 && b ++ a == rev then some i else best)
  | _, _, best => best
def retIdx (rev : List Str) (st : List (List Str)) : Option Nat := retIdxAux rev st 1 none

structure RetScan where
  found : Bool := false
  fst : Option Nat := none
  snd : Option Nat := none
  acc : List Str := []
deriving Repr

/-- `for idx, line in enumerate(scanned["scanned_afterward"])` of `_return_parse_phase_numpydoc_and_google` -/
def retScan (tok0 : Str) : List Str → Nat → RetScan → RetScan
  | [], _, st => st
  | l :: ls, idx, st =>
    if startsWith (lstrip l) tok0 then retScan tok0 ls (idx + 1) { st with found := true, fst := some idx }
    else if st.found then
      if isspace l then { st with snd := some idx }
      else retScan tok0 ls (idx + 1) { st with acc := st.acc ++ [l] }
    else retScan tok0 ls (idx + 1) st

/-- first half of `_return_parse_phase_numpydoc_and_google`: the return token found among the units of `stacker` -/
def returnStep1 (style : GNStyle) (s : ScanSt) : ScanSt :=
  match retIdx (retTokLines style).reverse s.stacker with
  | some i => { s with rets := (s.stacker.drop (i + 1)).map Elem.l, stacker := s.stacker.take (i - 1) }
  | none => s

/-- second half: the return token found among the lines of `scanned["scanned_afterward"]` -/
def returnStep2 (style : GNStyle) (s : ScanSt) : R ScanSt :=
  if s.rets.isEmpty && (s.afterward.getD []).length > 0 then
    match (retScan ((retTokLines style).headD []) (s.afterward.getD []) 0 {}).fst with
    | none => .ok s
    | some f =>
      -- NumPy: `scanned["Returns"]` does not exist (the key is `"Returns\n-------"`)
      if style == .numpydoc then .raises "KeyError"
      else
        let rs := retScan ((retTokLines style).headD []) (s.afterward.getD []) 0 {}
        let aft' := (s.afterward.getD []).take f ++ (match rs.snd with | some j => (s.afterward.getD []).drop j | none => [])
        .ok { s with rets := [Elem.s (join ['\n'] rs.acc)],
                     afterward := if aft'.all (fun l => (strip l).isEmpty) then none else some aft' }
  else .ok s

/-- `_return_parse_phase_numpydoc_and_google(return_tokens, scanned, stacker, style)` -/
def returnPhase (style : GNStyle) (s : ScanSt) : R ScanSt := returnStep2 style (returnStep1 style s)

/-- the state after the loop over the lines, and the last value of the loop variable `line` -/
def afterLoop (style : GNStyle) (isArg : Bool) (lines : List Str) : ScanSt × Option Str :=
  match scanLines (match lines with | [] => 0 | l :: _ => indentOf l) lines [] with
  | (stacker, some (l, rest)) => (atBreak style isArg stacker rest, some l)
  | (stacker, none) => ({ stacker := stacker }, lines.getLast?)

/-- `if line is not None and (not stacker or not stacker[-1] or stacker[-1][0] != line)`: the line goes to the front of
    `scanned["scanned_afterward"]` -/
def copyLastLine (s : ScanSt) : Option Str → ScanSt
  | none => s
  | some line =>
    let cond := match s.stacker.getLast? with
      | none => true
      | some [] => true
      | some (h :: _) => h != line
    if cond then { s with afterward := some (line :: s.afterward.getD []) } else s

/-- the end of `_scan_phase_numpydoc_and_google`: split out the return entry, store what is left of `stacker` -/
def finishScan (style : GNStyle) (isArg : Bool) (doc : Str) (s : ScanSt) : R Scanned :=
  match (if s.rets.isEmpty then returnPhase style s else .ok s) with
  | .raises e => .raises e
  | .outside w => .outside w
  | .ok s =>
    let s := if s.stacker.isEmpty then s else setNs isArg s s.stacker
    .ok { doc := doc, args := s.args, rets := s.rets, afterward := s.afterward }

/-- `location_within(docstring, arg_tokens)`, else `location_within(docstring, return_tokens)` → (start, end, found the arg token) -/
def locateSection (style : GNStyle) (docstring : Str) : Option (Nat × Nat × Bool) :=
  match locate docstring (argTok style) with
  | some (a, b) => some (a, b, true)
  | none => match locate docstring (retTok style) with
    | some (a, b) => some (a, b, false)
    | none => none

/-- `_scan_phase(docstring, style=style)` for the Google / NumPy styles -/
def scanPhase (style : GNStyle) (docstring : Str) : R Scanned :=
  match locateSection style docstring with
  | none => .ok { doc := docstring }
  | some (st, en, isArg) =>
    let al := afterLoop style isArg (splitlines (docstring.drop (en + 1)))
    finishScan style isArg (whiteSpacerScan (docstring.take st)) (copyLastLine al.1 al.2)

/-! ### values -/

/-- a default value: the values of `Doc.Default` plus `0j` (`simple_types["complex"]`) and `tuple()` (`*args`) -/
inductive Dflt where
  | base (d : Default)
  | complex0
  | tuple0
deriving DecidableEq, Repr

structure GParam where
  typ : Option Str := none
  doc : Option Str := none
  default : Option Dflt := none
deriving DecidableEq, Repr

structure GIR where
  doc : Str := []
  params : List (Str × GParam) := []
  returns : Option GParam := none
deriving DecidableEq, Repr

/-- the Python `str` behind a default, if it is one -/
def pyStr? : Dflt → Option Str
  | .base (.str s) => some s
  | .base .none => some noneStr
  | .base (.code s) => some s
  | _ => none

/-- `d in ("None", NoneStr)` -/
def isNoneText (d : Dflt) : Bool := pyStr? d == some sNone || pyStr? d == some noneStr
/-- `d == NoneStr` -/
def isNoneStr (d : Dflt) : Bool := pyStr? d == some noneStr
/-- `code_quoted(d)` -/
def codeQuoted (d : Dflt) : Bool :=
  match pyStr? d with
  | some s => s.length > 6 && startsWith s bt3 && endsWith s bt3
  | none => false
/-- `type(d).__name__` -/
def tyName : Dflt → Str
  | .base (.int _) => g!"int"
  | .base (.float _) => g!"float"
  | .base (.bool _) => g!"bool"
  | .base _ => g!"str"
  | .complex0 => g!"complex"
  | .tuple0 => g!"tuple"
/-- `unquote(d)` -/
def unquoteD : Dflt → Dflt
  | .base (.str s) => .base (.str (unquote s))
  | d => d

/-! ### `extract_default` with the extra abstentions arbitrary text needs -/

def infNanLike (d : Str) : Bool :=
  let b := lower (if d.head? == some '-' || d.head? == some '+' then d.drop 1 else d)
  b == g!"inf" || b == g!"nan" || b == g!"infinity"

/-- the raw default text `extract_default` would cut out, if an announcement is found -/
def defaultText (line : Str) : Option Str :=
  match locateVariant line announceVariants with
  | none => none
  | some (_, e) => some (stripChars (takeDefault 0 (line.drop e)) [' ', '\t', '`'])

/-- is the decimal text `[-+]?D+.D+` what `repr(float(text))` prints (up to a leading `+`)?  No leading zeros, no trailing
    zeros, at most 15 significant digits, and a magnitude `repr` prints without an exponent. -/
def floatCanonical (d : Str) : Bool :=
  let body := if d.head? == some '-' || d.head? == some '+' then d.drop 1 else d
  let a := body.takeWhile isAsciiDigit
  let f := body.drop (a.length + 1)
  (a == ['0'] || a.head? != some '0') && (f == ['0'] || f.getLast? != some '0') &&
  a.length + f.length ≤ 15 && !(a == ['0'] && startsWith f ['0', '0', '0', '0'])

def extractDefaultG (line : Str) (typ : Option Str) (edd : Bool) : R (Str × Option Default) :=
  if line.any (fun c => c.toNat > 127) then .outside "non-ASCII description"
  else
    let risky := match defaultText line with
      | none => false
      | some d =>
        let d' := strip d
        infNanLike d' || (d' != d && d'.any isAsciiDigit) || (isFloatText d && !floatCanonical d)
    if risky then .outside "float() of padded, inf/nan or non-canonical decimal text"
    else ofOut (extractDefault line typ edd)

/-! ### `needs_quoting` — an `ast.parse`; modelled on a small grammar of type expressions -/

def isNameStart (c : Char) : Bool := isAsciiLetter c || c == '_'
def isNameChar (c : Char) : Bool := isAsciiLetter c || isAsciiDigit c || c == '_'

inductive Tok where
  | name (s : Str)
  | dot | comma | lb | rb | ellipsis | lit
deriving DecidableEq, Repr

/-- tokens of the type grammar; `none` = a character outside it.  Spaces separate tokens. -/
def tokenize : Nat → Str → Option (List Tok)
  | 0, _ => none
  | _, [] => some []
  | fuel + 1, c :: cs =>
    if c == ' ' then tokenize fuel cs
    else if c == '[' then (tokenize fuel cs).map (Tok.lb :: ·)
    else if c == ']' then (tokenize fuel cs).map (Tok.rb :: ·)
    else if c == ',' then (tokenize fuel cs).map (Tok.comma :: ·)
    else if c == '.' then
      if startsWith cs ['.', '.'] then (tokenize fuel (cs.drop 2)).map (Tok.ellipsis :: ·)
      else (tokenize fuel cs).map (Tok.dot :: ·)
    else if c == '\'' || c == '"' then
      let body := cs.takeWhile (fun d => d != c)
      let rest := cs.drop body.length
      if rest.isEmpty || body.any (fun d => d == '\\' || d.toNat < 32 || d.toNat > 126) then none
      else (tokenize fuel (rest.drop 1)).map (Tok.lit :: ·)
    else if isAsciiDigit c then
      let body := (c :: cs).takeWhile isAsciiDigit
      let rest := (c :: cs).drop body.length
      -- a decimal integer without leading zeros, not glued to a name or a dot
      if (body.length > 1 && c == '0') || (match rest with | d :: _ => isNameChar d || d == '.' | [] => false) then none
      else (tokenize fuel rest).map (Tok.lit :: ·)
    else if isNameStart c then
      let body := (c :: cs).takeWhile isNameChar
      let rest := (c :: cs).drop body.length
      if Adhoc.kwlist.contains body && !(body == sNone || body == sTrue || body == sFalse) then none
      else if (body == sNone || body == sTrue || body == sFalse) then (tokenize fuel rest).map (Tok.lit :: ·)
      else if (match rest with | d :: _ => d == '\'' || d == '"' | [] => false) then none   -- string prefixes
      else (tokenize fuel rest).map (Tok.name body :: ·)
    else none

inductive ShapeSt | expect | expectOrClose | afterOperand | afterDot
deriving DecidableEq, Repr

/-- shape check over the tokens: a state machine with the stack of open brackets.
    `expect`: an operand must come next; `expectOrClose`: directly after the `[` of a list display (which may be
    empty); `afterOperand`: an operand was completed; `afterDot`: an attribute name must follow -/
def shapeOk : List Tok → ShapeSt → Nat → Bool
  | [], st, depth => st == .afterOperand && depth == 0
  | t :: ts, st, depth =>
    match t, st with
    | .name _, .expect => shapeOk ts .afterOperand depth
    | .name _, .expectOrClose => shapeOk ts .afterOperand depth
    | .name _, .afterDot => shapeOk ts .afterOperand depth
    | .lit, .expect => shapeOk ts .afterOperand depth
    | .lit, .expectOrClose => shapeOk ts .afterOperand depth
    | .ellipsis, .expect => shapeOk ts .afterOperand depth
    | .ellipsis, .expectOrClose => shapeOk ts .afterOperand depth
    | .dot, .afterOperand => shapeOk ts .afterDot depth
    | .comma, .afterOperand => shapeOk ts .expect depth
    | .lb, .expect => shapeOk ts .expectOrClose (depth + 1)
    | .lb, .expectOrClose => shapeOk ts .expectOrClose (depth + 1)
    | .lb, .afterOperand => shapeOk ts .expect (depth + 1)
    | .rb, .afterOperand => depth > 0 && shapeOk ts .afterOperand (depth - 1)
    | .rb, .expectOrClose => depth > 0 && shapeOk ts .afterOperand (depth - 1)
    | _, _ => false

/-- is `t` (already stripped, newlines removed) a type expression of the modelled grammar? -/
def typGrammar (t : Str) : Bool :=
  match tokenize (t.length + 1) t with
  | none => false
  | some toks => shapeOk toks .expect 0

/-- `needs_quoting(typ)` -/
def needsQuotingG (typ : Option Str) : R Bool :=
  match typ with
  | none => .ok false
  | some t =>
    if startsWith t ['*'] then .ok false
    else if t == sStr || t == sOptStr then .ok true
    else
      let t' := strip (t.filter (· != '\n'))
      if t'.isEmpty then .raises "IndexError"      -- `ast.parse("").body[0]`
      else if typGrammar t' then .ok (needsQuoting typ)
      else .outside "needs_quoting: type outside the modelled grammar"

/-! ### `interpolate_defaults` with `require_default` -/

/-- `simple_types[typ] if typ in simple_types else NoneStr` -/
def simpleDefault (typ : Option Str) : Dflt :=
  match typ with
  | none => .base .none
  | some t =>
    if t == g!"int" then .base (.int 0)
    else if t == g!"float" then .base (.float g!"0.0")
    else if t == g!"complex" then .complex0
    else if t == g!"str" then .base (.str [])
    else if t == g!"bool" then .base (.bool false)
    else .base .none

/-- `interpolate_defaults((name, p), emit_default_doc=edd, require_default=rd)` -/
def interpolate (p : GParam) (edd rd : Bool) : R GParam :=
  let step1 : R GParam := match p.doc with
    | none => .ok p
    | some doc =>
      match extractDefaultG doc p.typ edd with
      | .raises e => .raises e
      | .outside w => .outside w
      | .ok (doc', d) =>
        .ok { p with doc := some doc', default := match d with | some v => some (unquoteD (.base v)) | none => p.default }
  match step1 with
  | .raises e => .raises e
  | .outside w => .outside w
  | .ok p => .ok (if rd && p.default.isNone then { p with default := some (simpleDefault p.typ) } else p)

/-! ### `_set_name_and_type` -/

def sKwargs : Str := g!"kwargs"

/-- the name `_set_name_and_type` returns -/
def sntName (name : Str) : Str :=
  if endsWith name sKwargs || startsWith name ['*', '*'] then lstripChars name ['*']
  else if startsWith name ['*'] then name.drop 1
  else name

/-- `_infer_default(_param, infer_type=False)` for a present default `v` -/
def inferDefault (p : GParam) (v : Dflt) : R GParam :=
  let v := if isNoneText v then Dflt.base .none else v
  match needsQuotingG p.typ with
  | .raises e => .raises e
  | .outside w => .outside w
  | .ok _ =>
    let v := unquoteD v
    let p := if p.typ.isNone && !isNoneStr v then { p with typ := some (tyName v) } else p
    let p := if !isNoneStr v && codeQuoted v && !((p.typ.getD []).contains '[') then { p with typ := none } else p
    .ok { p with default := some v }

/-- names the tables of `parse_utils.py` can propose and that evaluate in the namespace of `docstring_parsers.py`
    (builtins, `from typing import *`, `import collections`) -/
def evalKnown : List Str := [g!"bool", g!"dict", g!"str", g!"float", g!"int", g!"list", g!"complex", g!"Tuple", g!"List", g!"Mapping",
  g!"collections.abc.Callable"]
/-- does `eval(typ)` succeed?  `true` only on the whitelisted shapes `T` and `Optional[T]`; everything else is left to the real code -/
def evalSucceeds (t : Str) : Bool :=
  evalKnown.contains t ||
  (startsWith t g!"Optional[" && endsWith t [']'] && evalKnown.contains ((t.drop 9).dropLast))

def optionalOf (t : Str) : Str := optionalPrefix ++ t ++ [']']
def sGoogleOpt : Str := g!", optional"

/-- `_set_name_and_type((name, p), infer_type=False, word_wrap=True)[1]`.
    `listDoc`: the description is a `list[str]` shorter than 8 (given here joined with `""`): `extract_default`
    returns it unchanged, nothing is merged, and the final join is `"".join(doc).rstrip()`. -/
def sntParam (name : Str) (p0 : GParam) (listDoc : Bool) : R GParam :=
  let wasNone := match p0.default with | some d => isNoneText d | none => false
  -- merge_present_params(target=_param, other={doc, default} of extract_default(_param["doc"]))
  let merged : R GParam := match p0.doc with
    | none => .ok p0
    | some doc =>
      if listDoc then .ok p0
      else match extractDefaultG doc none true with
        | .raises e => .raises e
        | .outside w => .outside w
        | .ok (_, d2) =>
          let noneLike := match p0.default with | some d => isNoneText d | none => true
          .ok (if noneLike && d2.isSome then { p0 with default := d2.map Dflt.base } else p0)
  match merged with
  | .raises e => .raises e
  | .outside w => .outside w
  | .ok p =>
    let branched : R GParam :=
      if endsWith name sKwargs || startsWith name ['*', '*'] then
        .ok (if p.typ.getD g!"dict" == g!"dict" then { p with typ := some g!"Optional[dict]" } else p)
      else if startsWith name ['*'] then
        let p := if p.typ.isNone then { p with typ := some g!"tuple" } else p
        .ok (if p.default.isNone then { p with default := some .tuple0 } else p)
      else match p.default with
        | some v => inferDefault p v
        | none => .ok p
    match branched with
    | .raises e => .raises e
    | .outside w => .outside w
    | .ok p =>
      let p := match p.typ with
        | some t => if !t.isEmpty && endsWith t sGoogleOpt then { p with typ := some (optionalOf (t.take (t.length - 10))) } else p
        | none => p
      let p := if p.doc == some [] && !listDoc then { p with doc := none } else p
      -- __set_name_and_type_handle_doc_in_param
      match p.doc with
      | none => .ok p
      | some doc =>
        let doc := if listDoc then rstrip doc else rstrip (join [' '] ((split1 doc '\n').map strip))
        let p := { p with doc := some doc }
        let defIsNone := match p.default with | some d => isNoneStr d | none => false
        let adhoc : R GParam := match Adhoc.adhocStr doc (sntName name) defIsNone with
          | .error e => .raises e
          | .ok none => .ok p
          | .ok (some t) =>
            -- `eval(typ, globals(), locals())`; on success `_param["typ"] = typ`
            if evalSucceeds t then .ok { p with typ := some t }
            else .outside "parse_adhoc_doc_for_typ proposes a type whose eval is not modelled"
        match adhoc with
        | .raises e => .raises e
        | .outside w => .outside w
        | .ok p =>
          match p.typ with
          | some t =>
            if (startsWith doc g!"(Optional)" || startsWith doc g!"Optional" || wasNone) && !startsWith t optionalPrefix
            then .ok { p with typ := some (optionalOf t) } else .ok p
          | none => .ok p

/-! ### the two `_parse` functions -/

inductive Parsed where
  | skip                         -- `None` (filtered out)
  | stop                         -- `StopIteration` inside `map`: silently ends the parameter list
  | raises (e : String)
  | outside (w : String)
  | cur (name : Str) (p : GParam)
deriving Repr

/-- `repr(s)` for printable ASCII -/
def reprStr (s : Str) : Option Str :=
  if s.any (fun c => c.toNat < 32 || c.toNat > 126) then none
  else
    let q : Char := if s.contains '\'' && !s.contains '"' then '"' else '\''
    some ([q] ++ (s.map (fun c => if c == '\\' then ['\\', '\\'] else if c == q then ['\\', c] else [c])).flatten ++ [q])

def reprList : List Str → Option Str
  | l => match l.mapM reprStr with
    | none => none
    | some rs => some (['['] ++ join [',', ' '] rs ++ [']'])

def sOr : Str := g!" or "

/-- Google `_parse(scan)` on a unit `scan0 :: tail` -/
def googleParse1 (scan0 : Str) (tail : List Str) : Parsed :=
  match find scan0 [':'] with
  | none => .stop
  | some offset =>
    let s := lstrip (scan0.take offset)
    let pt := partition s ['(']
    let name := strip pt.1
    let typ := rstrip (pt.2.1 ++ pt.2.2)
    let end_ := lstrip (scan0.drop (offset + 1))
    if typ.isEmpty then .cur name { doc := some (strip (join ['\n'] (end_ :: tail))) }
    else if !(endsWith typ [')']) then .raises "AssertionError"
    else
      let t := (typ.drop 1).dropLast
      let t := if contains t sOr then g!"Union[" ++ join [',', ' '] (splitOn t sOr) ++ [']'] else t
      if end_.length > 3 && startsWith end_ ['{'] && endsWith end_ ['}'] then
        match reprList ((splitOn ((end_.drop 1).dropLast) [',', ' ']).map (fun x => stripChars x ['\''])) with
        | none => .outside "repr of a non-printable string"
        | some r => .cur name { typ := some (g!"Literal" ++ r), doc := some (strip (join ['\n'] ([] :: tail))) }
      else .cur name { typ := some t, doc := some (strip (join ['\n'] (end_ :: tail))) }

/-- Google `_parse(scan)` (`scan[0]` of an empty unit would be an `IndexError`; the scanner never builds one) -/
def googleParse : List Str → Parsed
  | [] => .raises "IndexError"
  | scan0 :: tail => googleParse1 scan0 tail

/-- NumPy `_parse(scan)` -/
def numpyParse : List Str → Parsed
  | [] => .raises "IndexError"
  | scan0 :: tail =>
    let pt := partition scan0 [':']
    if pt.1.isEmpty then .skip
    else if pt.2.2.isEmpty then .cur (strip pt.1) {}
    else .cur (strip pt.1) { typ := some (lstrip pt.2.2), doc := some (join ['\n'] (tail.map lstrip)) }

def parseOne : GNStyle → List Str → Parsed
  | .google, scan => googleParse scan
  | .numpydoc, scan => numpyParse scan

/-! ### `_parse_phase_numpydoc_and_google` -/

/-- `OrderedDict(pairs)`: a repeated key keeps its first position and takes the last value -/
def dictInsert : List (Str × GParam) → Str → GParam → List (Str × GParam)
  | [], k, v => [(k, v)]
  | (k', v') :: rest, k, v => if k' == k then (k', v) :: rest else (k', v') :: dictInsert rest k v

/-- the lazily mapped pipeline `_parse` → `_interpolate_defaults_and_force_future_default` → `_set_name_and_type`
    consumed by `OrderedDict(...)`; `rd` is the `require_default` latch → (params, latch) -/
def foldParams (style : GNStyle) (edd : Bool) : List (List Str) → Bool → List (Str × GParam) → R (List (Str × GParam) × Bool)
  | [], rd, acc => .ok (acc, rd)
  | scan :: rest, rd, acc =>
    match parseOne style scan with
    | .skip => foldParams style edd rest rd acc
    | .stop => .ok (acc, rd)
    | .raises e => .raises e
    | .outside w => .outside w
    | .cur name p =>
      match interpolate p edd rd with
      | .raises e => .raises e
      | .outside w => .outside w
      | .ok p1 =>
        match sntParam name p1 false with
        | .raises e => .raises e
        | .outside w => .outside w
        | .ok p2 => foldParams style edd rest (rd || p1.default.isSome) (dictInsert acc (sntName name) p2)

/-- `elem[0].endswith(":") and elem[0].count(":") == 1` (units are never empty: `scanLines` creates each with one line) -/
def isAfterwardHead (elem : List Str) : Bool :=
  let h := elem.headD []
  endsWith h [':'] && count1 h ':' == 1

/-- `_fill_doc_with_afterward`: is `scanned_afterward[0]` found (and truthy) among the `e`s? -/
def afterwardSeen (a0 : Str) (doc : Str) (args : List (List Str)) (rets : List Elem) : Bool :=
  let inStr (s : Str) : Bool := match a0 with | [c] => s.contains c | _ => false
  !a0.isEmpty && (inStr doc || args.any (fun e => e.contains a0) ||
    rets.any (fun e => match e with | .s s => inStr s | .l ls => ls.contains a0))

/-- `scanned["doc"]` after the "afterward" handling, and the parameter units that remain -/
def docAndParams (sc : Scanned) : Str × List (List Str) :=
  let idx := sc.args.findIdx isAfterwardHead
  let (params, doc) :=
    if idx < sc.args.length then
      (sc.args.take idx, sc.doc ++ ['\n', '\n'] ++ join ['\n'] ((sc.args.drop idx).map (join ['\n'])))
    else (sc.args, sc.doc)
  match sc.afterward with
  | none => (doc, params)
  | some aft =>
    let a0 := aft.headD []
    if afterwardSeen a0 doc sc.args sc.rets then (doc, params)
    else (doc ++ (if a0.isEmpty && !aft.isEmpty then ['\n'] else []) ++ join ['\n'] aft, params)

def finalDoc (d : Str) : Str := if isspace d then [] else lstrip d

def sReturnType : Str := g!"return_type"

/-- the entry built for `"returns"` before `_set_name_and_type`: (entry, its description is a list) -/
def returnEntry (style : GNStyle) (rets : List Elem) : R (GParam × Bool) :=
  match style with
  | .google =>
    (match rets with
     | [a, .s b] =>
       (match a with
        | .s a => .ok ({ typ := some (lstrip a.dropLast), doc := some (lstrip b) }, false)
        | .l _ => .raises "AttributeError")
     | .s s :: _ => if isspace s then .ok ({}, false) else .ok ({ doc := some (lstrip s) }, false)
     | .l ls :: _ =>
       -- `extract_default(list)`: `str.casefold(list)` as soon as a variant is not longer than the list
       if ls.length ≥ 8 then .raises "TypeError" else .ok ({ doc := some ls.flatten }, true)
     | [] => .raises "IndexError")
  | .numpydoc =>
    (match rets with
     | .l (a :: b :: _) :: _ => .ok ({ typ := some a, doc := some (lstrip b) }, false)
     | .s (a :: b :: _) :: _ => .ok ({ typ := some [a], doc := some (lstrip [b]) }, false)
     | _ => .raises "IndexError")

/-- the `"returns"` value -/
def parseReturns (style : GNStyle) (rets : List Elem) (edd rd : Bool) : R (Option GParam) :=
  if rets.isEmpty then .ok none
  else match returnEntry style rets with
    | .raises e => .raises e
    | .outside w => .outside w
    | .ok (p, listDoc) =>
      match sntParam sReturnType p listDoc with
      | .raises e => .raises e
      | .outside w => .outside w
      | .ok q =>
        match interpolate q edd rd with
        | .raises e => .raises e
        | .outside w => .outside w
        | .ok r => .ok (some r)

/-- `_parse_phase(ir, scanned, …, style=style)` → the resulting `doc` / `params` / `returns` -/
def parsePhase (style : GNStyle) (sc : Scanned) (edd : Bool) : R GIR :=
  match foldParams style edd (docAndParams sc).2 false [] with
  | .raises e => .raises e
  | .outside w => .outside w
  | .ok (ps, rd) =>
    match parseReturns style sc.rets edd rd with
    | .raises e => .raises e
    | .outside w => .outside w
    | .ok r => .ok ⟨finalDoc (docAndParams sc).1, ps, r⟩

/-- scan + parse with a given style (what `parse_docstring` does after `derive_docstring_format`) -/
def parseGN (style : GNStyle) (text : Str) (edd : Bool) : R GIR :=
  if text.any (fun c => c.toNat > 127) then .outside "non-ASCII text"
  else match scanPhase style text with
    | .raises e => .raises e
    | .outside w => .outside w
    | .ok sc => parsePhase style sc edd

/-! ### style detection and the entry point -/

def restTokensAll : List Str := [g!":param", g!":cvar", g!":ivar", g!":var", g!":type", g!":raises", g!":return", g!":rtype"]
def googleTokensAll : List Str := [g!"Args:", g!"Kwargs:", g!"Raises:", g!"Returns:"]

/-- `derive_docstring_format(text)`; `none` = ReST -/
def deriveStyle (text : Str) : Option GNStyle :=
  if restTokensAll.any (fun t => contains text t) then none
  else if googleTokensAll.any (fun t => contains text t) then some .google
  else some .numpydoc

/-- `cdd.docstring.parse.docstring(text, emit_default_doc=edd)` when the derived style is Google or NumPy -/
def parseDocstring (text : Str) (edd : Bool) : R GIR :=
  if text.isEmpty then .ok {}
  else match deriveStyle text with
    | none => .outside "ReST style (Doc.parseRest)"
    | some st => parseGN st text edd

end DocGN
