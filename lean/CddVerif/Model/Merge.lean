/-!
# Model of `merge_params` / `merge_present_params` (`cdd/shared/parse/utils/parser_utils.py`) — property C10

Python `dict` = association list with insertion order.  The iteration order of a Python `set`
(`other.keys() & target.keys()`) is an explicit oracle `common : List String` — any ordering of that set,
i.e. the interpreter's hash seed.
-/
namespace Merge

structure Param where
  typ : Option String := none
  doc : Option String := none
  /-- tagged rendering of the default (`s:..`, `i:..`, …); `none` = absent or `None` -/
  default : Option String := none
deriving DecidableEq, Repr

abbrev Dict := List (String × Param)

def get? (d : Dict) (k : String) : Option Param := (d.find? (·.1 == k)).map (·.2)
def has (d : Dict) (k : String) : Bool := d.any (·.1 == k)
/-- `d[k] = v`: keeps the position of an existing key, appends a new one -/
def set (d : Dict) (k : String) (v : Param) : Dict :=
  if has d k then d.map (fun kv => if kv.1 == k then (k, v) else kv) else d ++ [(k, v)]
def keys (d : Dict) : List String := d.map (·.1)

def simpleTypes : List String := ["int", "float", "complex", "str", "bool"]
/-- `target_param.get("default") in none_types` -/
def isNoneLike (o : Option String) : Bool := o == none || o == some "s:None" || o == some "s:```(None)```"

/-- `merge_present_params(other_param, target_param)` (the new value of the mutated target) -/
def mergePresent (other target : Param) : Param :=
  let t1 := if (target.doc == none || target.doc == some "") && (other.doc != none && other.doc != some "")
            then { target with doc := other.doc } else target
  let t2 := if other.typ != none &&
               (t1.typ == none || (match t1.typ, other.typ with
                                   | some tt, some ot => simpleTypes.contains tt && !simpleTypes.contains ot
                                   | _, _ => false))
            then { t1 with typ := other.typ } else t1
  if isNoneLike t2.default && other.default != none then { t2 with default := other.default } else t2

/-- in-place update of the value stored under `k` (no-op if absent); keys and order unchanged -/
def modify (d : Dict) (k : String) (f : Param → Param) : Dict :=
  d.map (fun kv => if kv.1 == k then (kv.1, f kv.2) else kv)

/-- one iteration of `for name in other.keys() & target.keys(): merge_present_params(other[name], target[name])` -/
def stepCommon (other : Dict) (target : Dict) (k : String) : Dict :=
  match get? other k with
  | some o => modify target k (mergePresent o)
  | none => target

/-- one iteration of `for name in other_params: if name not in target_params: target_params[name] = other_params[name]` -/
def stepMissing (other : Dict) (target : Dict) (k : String) : Dict :=
  match get? other k with
  | some o => if has target k then target else set target k o
  | none => target

/-- `merge_params` as it is now: the second loop iterates `other` in order; the first iterates a set in order `common` -/
def mergeParams (common : List String) (other target : Dict) : Dict :=
  (keys other).foldl (stepMissing other) (common.foldl (stepCommon other) target)

/-- `merge_params` as it was at the pinned commit: the second loop iterated the set difference in oracle order -/
def mergePinned (common missing : List String) (other target : Dict) : Dict :=
  missing.foldl (stepMissing other) (common.foldl (stepCommon other) target)

/-- the keys both dicts have, in `target` order (one admissible value of the oracle) -/
def commonKeys (other target : Dict) : List String := (keys target).filter (has other)

end Merge
