import CddVerif.Model.DocstringUtils
/-!
# `parse_docstring_into_header_args_footer`, `header_args_footer_to_str`, `ensure_doc_args_whence_original`
(`cdd/shared/docstring_utils.py`, with `num_of_nls` / `count_chars_from` of `pure_utils.py` and `textwrap.indent`) — property C15
-/
namespace DocSplit
open Py DocUtils

/-- characters at which `str.splitlines` breaks a line -/
def isLineBreak (c : Char) : Bool :=
  let n := c.toNat
  n == 0x0A || n == 0x0B || n == 0x0C || n == 0x0D || n == 0x1C || n == 0x1D || n == 0x1E || n == 0x85 || n == 0x2028 || n == 0x2029

/-- `s.splitlines(keepends=True)` -/
def splitlinesKeep : Str → Str → List Str
  | [], acc => if acc.isEmpty then [] else [acc.reverse]
  | '\r' :: '\n' :: cs, acc => ('\n' :: '\r' :: acc).reverse :: splitlinesKeep cs []
  | c :: cs, acc => if isLineBreak c then (c :: acc).reverse :: splitlinesKeep cs [] else splitlinesKeep cs (c :: acc)

/-- `textwrap.indent(text, prefix, predicate=lambda line: line)`: every line gets the prefix -/
def indentAll (text prefix_ : Str) : Str := ((splitlinesKeep text []).map (fun l => prefix_ ++ l)).flatten
/-- `textwrap.indent(text, prefix)`: lines that are not whitespace-only get the prefix -/
def indentDefault (text prefix_ : Str) : Str :=
  ((splitlinesKeep text []).map (fun l => if (strip l).isEmpty then l else prefix_ ++ l)).flatten

/-- `count_chars_from(s, sentinel_char_unseen=str.isspace, char="\n", end=False)` (= `num_of_nls(s, end=False)`) -/
def nlsStart : Str → Nat
  | [] => 0
  | c :: cs => if c == '\n' then 1 + nlsStart cs else if isSpaceC c then nlsStart cs else 0

/-- `num_of_nls(s, end=True)`: scans indices `len-1 … 1` (index 0 is never looked at) -/
def nlsEnd (s : Str) : Nat := nlsStart (s.drop 1).reverse

def spaces (k : Nat) : Str := List.replicate k ' '

/-- raw split of one docstring: (start index, last index) as Python ints; `none` when `_get_token_last_idx` raises -/
def idxPair (d : Str) : Except String (Int × Int) := do
  let a := d.toArray
  return (tokenStartIdx a, ← tokenLastIdx a)

/-- the three raw slices `original[:start]`, `original[start:last]`, `original[last:]` with the `-1` conventions of the code -/
def rawParts (d : Str) (s l : Int) : Option Str × Str × Option Str :=
  (if s > -1 then some (slice d none (some s)) else none,
   slice d (if s > -1 then some s else none) (if l > -1 then some l else none),
   if l != -1 then some (slice d (some l) none) else none)

/-- `parse_docstring_into_header_args_footer(current, original)` → (header_original, args_returns_current, footer_original) -/
def parseHAF (current original : Str) : Except String (Option Str × Option Str × Option Str) := do
  let cur ← if current.isEmpty then pure none else do let p ← idxPair current; pure (some p)
  let org ← if original.isEmpty then pure none else do let p ← idxPair original; pure (some p)
  let (headerO, footerO) := match org with
    | some (s, l) => let r := rawParts original s l; (r.1, r.2.2)
    | none => (none, none)
  let sel (d : Str) (p : Option (Int × Int)) : Str :=
    slice d (match p with | some (s, _) => if s > -1 then some s else none | none => none)
            (match p with | some (_, l) => if l > -1 then some l else none | none => none)
  let argsCur := sel current cur
  let argsOrg := sel original org
  let ind := leadingWs argsOrg
  let argsCur := if ind > 1 && !argsCur.isEmpty then indentAll argsCur (spaces ind) else argsCur
  return (headerO, some argsCur, footerO)

/-- `header_args_footer_to_str(header, args_returns, footer)` -/
def hafToStr (header argsReturns footer : Str) : Str :=
  let headerEndNls := if header.isEmpty then 0 else nlsEnd header
  let (ar, arStartNls, arEndsNls) :=
    if !argsReturns.isEmpty then
      let s0 := nlsStart argsReturns
      let e0 := nlsEnd argsReturns
      let ar := (if s0 < 2 && !header.isEmpty && headerEndNls == 0 then List.replicate (if s0 == 0 then 2 else s0) '\n' else [])
                  ++ argsReturns ++ (if e0 == 0 then ['\n'] else [])
      (ar, nlsStart ar, nlsEnd ar)
    else (argsReturns, 0, 0)
  let footerStartNls := if !footer.isEmpty then (let k := nlsStart footer; if k != 0 then k else arEndsNls) else 0
  let ar :=
    if !ar.isEmpty then
      let hof := if !header.isEmpty then header else footer
      let indentAmount := leadingWs hof
      let newlines := if !hof.isEmpty then count1 (hof.take indentAmount) '\n' else 0
      let indentAmount := indentAmount - newlines
      let cur := leadingWs ar
      if cur != indentAmount then
        let ind := spaces indentAmount
        let len0 := ar.length
        let ar' := indentAll ar ind
        if ar'.getLast? == some '\n' && len0 > 1 then ar' ++ ind else ar'
      else ar
    else ar
  let nlsAfterHeader := headerEndNls + arStartNls
  let needed := if nlsAfterHeader > 1 || header.isEmpty || ar.isEmpty then 0
                else if nlsAfterHeader == 1 then 1 else 2
  header ++ List.replicate needed '\n' ++ ar
    ++ (if !ar.isEmpty && !footer.isEmpty && footerStartNls == 0 && arEndsNls == 0 then ['\n'] else [])
    ++ footer

/-- `omit_whitespace` -/
def omitWs (s : Str) : Str := s.filter (fun c => !(c == ' ' || c == '\n' || c == '\t'))

/-- `ensure_doc_args_whence_original(current, original)` -/
def whence (current original : Str) : Except String Str := do
  if !original.isEmpty && omitWs original == omitWs current then return original
  let (h, a, f) ← parseHAF current original
  return hafToStr (h.getD []) (a.getD []) (f.getD [])

end DocSplit
