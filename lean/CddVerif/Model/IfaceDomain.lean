import CddVerif.Model.IfaceParse
/-!
# C02 — the domain `D02 f` of the round-trip theorems (decidable; evaluated by the driver for every generated case)

`D02 f cfg ir` is the region of *signature-legal* interface descriptions on which format `f` round-trips with the
statement's normalisations only.  Everything a generated interface can violate is spelled out, so the complement is
visible: each clause that excludes something the statement does not exclude is backed by a proved negation in
`Properties/C02.lean` and a known finding.
-/
namespace Iface

/-- type names that `param2ast` / `_infer_default` rewrite (AST class names) -/
def renamedTyps : List String := ["Str", "Constant", "NameConstant", "Num", "UnaryOp"]

/-- names: distinct, not `return_type`, no `*`/`**kwargs` forms, not the receiver names the function parser strips -/
def okName (n : String) : Bool :=
  !n.toList.isEmpty && !endsWith n "kwargs" && !startsWith n "*" && n != "return_type" && n != "self" && n != "cls"

/-- a plain (not code-quoted, not `None`-like) string that `quote`/`set_value`/`unquote` leave alone -/
def okPlainStr (s : String) : Bool := !quotedLike s && !codeQuoted s && s != "None" && s != NoneStr

/-- a code default other than `NoneStr`: three backticks around a source that is not `None` -/
def okCodeStr (s : String) : Bool := codeQuoted s && !quotedLike s && s != NoneStr && inner3 s != "None" && inner3 s != "(None)"

def okTyp (t : String) : Bool :=
  !t.toList.isEmpty && !renamedTyps.contains t && t != "dict" && !startsWith t "*" && !endsWith t googleOpt

/-- `repr` of a float / complex constant that CPython reads back as one `Constant` (after an optional leading minus): exponent notation
    (`1e+20`, `5e-324`), many digits, `inf` and `-0.0` included; not a complex with a real part (`(a+bj)`: a `BinOp`) and not `nan`
    (`ast.unparse` writes it as `1e309 - 1e309`, also a `BinOp`) -/
def okNumRepr (r : String) : Bool :=
  !startsWith r "(" && !startsWith (dropFirst r) "-" && !r.toList.isEmpty && r != "-" && r != "nan" && r != "nanj"

/-- which defaults an attribute / parameter of type `t` may carry (class, pydantic, function) -/
def okDefault (fn : Bool) (t : String) : Default → Bool
  | .int i => !(fn && i < 0 && needsQuoting (some t))
  | .float r => okNumRepr r && !(fn && isNegRepr r && needsQuoting (some t))
  | .complex r => okNumRepr r && (isSimple t || needsQuoting (some t)) && !(fn && isNegRepr r && needsQuoting (some t))
  | .bool _ => true
  | .str s =>
    if s == NoneStr then startsWith t "Optional["
    else if codeQuoted s then okCodeStr s && hasChar t '['
    else okPlainStr s && (needsQuoting (some t) || isSimple t)

def okParam (fn : Bool) (kv : String × Param) : Bool :=
  okName kv.1 &&
  (match kv.2.typ with
   | some t => okTyp t &&
     (match kv.2.default with
      | none => true
      | some (.val d) => okDefault fn t d
      | some (.node _) => false)
   | none => false)

def namesOk (ir : IR) : Bool := decide (dkeys ir.params).Nodup

/-- defaults form a suffix: the statement's "legal as a Python signature" -/
def defaultsSuffix : Dict → Bool
  | [] => true
  | kv :: rest => (kv.2.default.isNone || rest.all (·.2.default.isSome)) && defaultsSuffix rest

/-- what the class emitter needs of a default to write it so that it is read back unchanged (no `Optional[…]` / `[`
    requirement: those concern `_set_name_and_type`, which the class parser applies to attributes only) -/
def okEmit (t : String) : Default → Bool
  | .int _ => true
  | .float r => okNumRepr r
  | .complex r => okNumRepr r && (isSimple t || needsQuoting (some t))
  | .bool _ => true
  | .str s => s == NoneStr || (if codeQuoted s then okCodeStr s else okPlainStr s && (needsQuoting (some t) || isSimple t))

/-- class / pydantic: the return entry is an attribute `return_type` like the others (it is not passed through
    `_set_name_and_type` on the way back, so a `None` default needs no `Optional[…]` and a code default no `[`) -/
def okClassReturn (r : Param) : Bool :=
  match r.typ with
  | some t => okTyp t &&
    (match r.default with
     | none => true
     | some (.val d) => okEmit t d
     | some (.node _) => false)
  | none => false

def inD02Class (ir : IR) : Bool :=
  ir.name.isSome && namesOk ir && defaultsSuffix ir.params && ir.params.all (okParam false) &&
  (match ir.returns with | some r => okClassReturn r | none => true)

/-- the source of a return value that the function emitter/parser pair reproduces: a bare name, or a code-quoted
    non-tuple, non-constant expression in canonical (`ast.unparse`) form -/
def retCanonFn (env : Env) (s : String) : Bool :=
  !quotedLike s && !s.toList.isEmpty && s != "None" && s != NoneStr &&
  (match env.pyExpr (stripTicks s) with
   | some (.name id) => id == s
   | some (.code src false) => s == "```" ++ src ++ "```" && codeQuoted s && s != NoneStr
   | _ => false)

def okFnReturn (env : Env) (cfg : Cfg) (r : Param) : Bool :=
  match r.typ with
  | some t => okTyp t &&
    (match r.default with
     | none => true
     | some (.val (.str s)) =>
       retCanonFn env s && (hasChar t '[' || (cfg.typeAnnotations && !codeQuoted s))
     | _ => false)
  | none => false

def inD02Function (env : Env) (cfg : Cfg) (ir : IR) : Bool :=
  ir.name.isSome && (ir.type == some "static" || ir.type == some "self" || ir.type == some "cls") &&
  namesOk ir && defaultsSuffix ir.params && ir.params.all (okParam true) &&
  (match ir.returns with | some r => okFnReturn env cfg r | none => true)

/-- the type inside `Optional[…]`, else the type itself -/
def baseOf (t : String) : String :=
  if startsWith t "Optional[" && endsWith t "]" then String.ofList ((t.toList.drop 9).dropLast) else t

/-- argparse: a scalar type with a default of that very type, or `Optional[scalar]` with such a default -/
def okArgparseParam (kv : String × Param) : Bool :=
  okName kv.1 &&
  (match kv.2.typ, kv.2.default with
   | some t, some (.val d) =>
     let base := baseOf t
     isSimple base && d.typeName == base && (t == base || t == "Optional[" ++ base ++ "]") &&
     (match d with
      | .str s => !(decide (s.toList.length > 2) && quotedLike s) && !codeQuoted s
      | .float r => okNumRepr r
      | .complex r => okNumRepr r
      | _ => true)
   | _, _ => false)

def okArgparseReturn (env : Env) (r : Param) : Bool :=
  match r.default with
  | none => true
  | some (.val (.str s)) =>
    !codeQuoted s && (match env.pyExpr s with | some e => e.text == s && e.reparse == e | none => false) &&
    (match r.typ with | some t => t != "None" && t != NoneStr && !t.toList.isEmpty | none => false)
  | _ => false

def inD02Argparse (env : Env) (ir : IR) : Bool :=
  namesOk ir && defaultsSuffix ir.params && ir.params.all okArgparseParam &&
  (match ir.returns with | some r => okArgparseReturn env r | none => true)

def inD02 (env : Env) (f : Format) (cfg : Cfg) (ir : IR) : Bool :=
  match f with
  | .class_ | .pydantic => inD02Class ir
  | .function => inD02Function env cfg ir
  | .argparse => inD02Argparse env ir

/-! ## the docstring-layer hypotheses (property C01's side of the round trip), stated on the layer's *answers*

Each is a decidable condition on what `env.docParse` returns for the docstring `env.docEmit` produced: the entry is there
under its name and in its place, its description is the emitted one up to the view's normalisation and carries no
default announcement / ad-hoc type trigger, and — where the format takes a type or a default *only* from the docstring —
that type / default is the emitted one.  The driver evaluates them on the real layer's answers for every case. -/

/-- description as the view shows it after the parser's tidy (`tidy` = the entry goes through `_set_name_and_type`) -/
def docView (tidy : Bool) : Option String → Option String
  | none => none
  | some d0 => if d0 == "" then none else normDoc (if tidy then tidyDoc d0 else d0)

/-- the description neither announces a default nor triggers an ad-hoc type (`extract_default`, `parse_adhoc_doc_for_typ`,
    the `Optional` prefix test) -/
def docQuiet (env : Env) (name : String) (isNone : Bool) (d0 : String) : Bool :=
  env.extractDefault true d0 == (d0, none) &&
  (d0 == "" || (env.adhocTyp (tidyDoc d0) name isNone == none && !startsWith (tidyDoc d0) "Optional" && !startsWith (tidyDoc d0) "(Optional)"))

def forall2 {α β : Type} (f : α → β → Bool) : List α → List β → Bool
  | [], [] => true
  | a :: as, b :: bs => f a b && forall2 f as bs
  | _, _ => false

/-- the docstring IR the class parser starts from -/
def clsDocIR0 (env : Env) (cfg : Cfg) (ir : IR) : IR :=
  let ds := String.ofList (Py.rstrip (env.docEmit (classDocCfg cfg) (classDocIR ir)).toList)
  if ds.toList.isEmpty then { name := none, type := some "static", doc := "", params := [], returns := none }
  else env.docParse .cls (setValueStr ds)

def clsDescOK (env : Env) (kv0 kv : String × Param) : Bool :=
  if kv.1 == "return_type" then docView false kv0.2.doc == kv.2.doc.bind normDoc
  else docView true kv0.2.doc == kv.2.doc.bind normDoc &&
       (match kv0.2.doc with | some d0 => docQuiet env kv.1 (isNoneStrD kv.2.default) d0 | none => true)
/-- an attribute without default must not get one from the docstring -/
def clsDefaultOK (kv0 kv : String × Param) : Bool := kv.2.default.isSome || kv0.2.default.isNone

def clsEntryOK (env : Env) (kv0 kv : String × Param) : Bool :=
  kv0.1 == kv.1 && clsDescOK env kv0 kv && clsDefaultOK kv0 kv

def classHyp (env : Env) (cfg : Cfg) (ir : IR) : Bool :=
  let d := clsDocIR0 env cfg ir
  forall2 (clsEntryOK env) d.params (mergedParams ir) && (ir.returns.isSome || d.returns.isNone)

/-- the docstring IR the function parser starts from -/
def fnDocIR0 (env : Env) (cfg : Cfg) (ir : IR) : IR :=
  env.docParse (.fn false)
    (String.ofList (Py.replace (setValueStr (env.docEmit (fnDocCfg cfg) ir)).toList ":cvar".toList ":param".toList))

def fnDescOK (env : Env) (name : String) (isNone : Bool) (d0 d : Option String) : Bool :=
  docView true d0 == d.bind normDoc && (match d0 with | some x => docQuiet env name isNone x | none => true)
/-- with annotations the signature wins unless the docstring has a *different compound* type; without, the docstring is the only carrier -/
def fnTypOK (cfg : Cfg) (t0 t : Option String) : Bool :=
  if cfg.typeAnnotations then
    t0 == none || t0 == t || (match t0, t with | some a, some b => isSimple a && !isSimple b | _, _ => false)
  else t0 == t
/-- a default read from the docstring prose wins over the signature unless it is `None`-like -/
def fnDefaultOK (d0 d : Option DVal) : Bool := isNoneLike d0 || d0 == d

def fnEntryOK (env : Env) (cfg : Cfg) (kv0 kv : String × Param) : Bool :=
  kv0.1 == kv.1 && fnDescOK env kv.1 (kv.2.default.isNone || isNoneStrD kv.2.default) kv0.2.doc kv.2.doc &&
  fnTypOK cfg kv0.2.typ kv.2.typ && fnDefaultOK kv0.2.default kv.2.default

def fnReturnOK (env : Env) (cfg : Cfg) (r0? r? : Option Param) : Bool :=
  match r?, r0? with
  | none, none => true
  | some r, some r0 =>
    fnDescOK env "return_type" false r0.doc r.doc &&
    (cfg.typeAnnotations || r0.typ == r.typ) && (r.default.isSome || r0.default.isNone)
  | _, _ => false

def functionHyp (env : Env) (cfg : Cfg) (ir : IR) : Bool :=
  let d := fnDocIR0 env cfg ir
  forall2 (fnEntryOK env cfg) d.params ir.params && fnReturnOK env cfg d.returns ir.returns

/-- `:return` line of the argparse docstring, as `_parse_return` reads it -/
def returnLineDoc (env : Env) (raw : String) : Option String :=
  match (Py.split1 raw.toList '\n').find? (fun l => Py.startsWith (Py.lstrip l) ":return".toList) with
  | some line =>
    let doc := (env.extractDefault false (String.ofList (Py.lstrip (Py.partition line [',']).2.2))).1
    some (if hasSub doc "Defaults" || hasSub doc "defaults" then (env.extractDefault false doc).1 else doc)
  | none => none

def argparseParamHyp (env : Env) (cfg : Cfg) (kv : String × Param) : Bool :=
  let d := kv.2.doc.getD ""
  env.extractDefault cfg.emitDefaultDoc d == (d, none) && setValueStr d == d

def argparseReturnHyp (env : Env) (cfg : Cfg) (ir : IR) : Bool :=
  match ir.returns with
  | some r =>
    (match r.default, r.typ with
     | some _, some t =>
       let raw := setValueStr (env.docEmit (argparseDocCfg cfg) (argparseDocIR ir))
       ((env.docParse .argparse raw).returns.bind (·.typ)) == some (tupleParserPrefix ++ t ++ "]") &&
       (match returnLineDoc env raw with | some d => normDoc d == r.doc.bind normDoc | none => false)
     | _, _ => true)
  | none => true

def argparseHyp (env : Env) (cfg : Cfg) (ir : IR) : Bool :=
  ir.params.all (argparseParamHyp env cfg) && argparseReturnHyp env cfg ir

def docHyp (env : Env) (f : Format) (cfg : Cfg) (ir : IR) : Bool :=
  match f with
  | .class_ | .pydantic => classHyp env cfg ir
  | .function => functionHyp env cfg ir
  | .argparse => argparseHyp env cfg ir

/-! ### per-entry report of the failed clauses (for attributing a real difference to the docstring layer);
entries are paired by name here, so a single missing entry does not shift the others -/

def docIssues (env : Env) (f : Format) (cfg : Cfg) (ir : IR) : List (String × String) :=
  match f with
  | .class_ | .pydantic =>
    let d := clsDocIR0 env cfg ir
    (if dkeys d.params == dkeys (mergedParams ir) then [] else [("*", "order")]) ++
    (mergedParams ir).flatMap (fun kv =>
      match dget? d.params kv.1 with
      | none => [(kv.1, "missing")]
      | some p0 => (if clsDescOK env (kv.1, p0) kv then [] else [(kv.1, "doc")]) ++
                   (if clsDefaultOK (kv.1, p0) kv then [] else [(kv.1, "default")])) ++
    (if ir.returns.isSome || d.returns.isNone then [] else [("return_type", "presence")])
  | .function =>
    let d := fnDocIR0 env cfg ir
    (if dkeys d.params == dkeys ir.params then [] else [("*", "order")]) ++
    ir.params.flatMap (fun kv =>
      match dget? d.params kv.1 with
      | none => [(kv.1, "missing")]
      | some p0 =>
        (if fnDescOK env kv.1 (kv.2.default.isNone || isNoneStrD kv.2.default) p0.doc kv.2.doc then [] else [(kv.1, "doc")]) ++
        (if fnTypOK cfg p0.typ kv.2.typ then [] else [(kv.1, "typ")]) ++
        (if fnDefaultOK p0.default kv.2.default then [] else [(kv.1, "default")])) ++
    (match ir.returns, d.returns with
     | none, none => []
     | some r, some r0 =>
       (if fnDescOK env "return_type" false r0.doc r.doc then [] else [("return_type", "doc")]) ++
       (if cfg.typeAnnotations || r0.typ == r.typ then [] else [("return_type", "typ")]) ++
       (if r.default.isSome || r0.default.isNone then [] else [("return_type", "default")])
     | some _, none => [("return_type", "missing")]
     | none, some _ => [("return_type", "presence")])
  | .argparse =>
    (ir.params.filter (fun kv => !argparseParamHyp env cfg kv)).map (fun kv => (kv.1, "doc")) ++
    (if argparseReturnHyp env cfg ir then [] else [("return_type", "docstring")])

end Iface
