import CddVerif.Py.Str
/-!
# C17 model — `cdd/docstring/utils/parse_utils.py : parse_adhoc_doc_for_typ`

Faithful, character-level port of `_parse_adhoc_doc_for_typ_phase0`, `_parse_adhoc_doc_for_typ_phase1`,
`_union_literal_from_sentence_phase0`, `_union_literal_from_sentence` and `parse_adhoc_doc_for_typ`
(the function whose result is handed to `eval(typ, globals(), locals())` in
`cdd/shared/docstring_parsers.py : __set_name_and_type_handle_doc_in_param`).

**Safe by type.**  Every string the port builds is a `List SC` where `SC = {c : Char // safeC c}`.
Characters of the *input* enter only through the two `if h : … then ⟨ch, proof h⟩` branches of phase 0
(`safe_of_word`, `safe_of_sep` — the code's `word_chars` test and its separator test); every other
character comes from a constant (`S`, which can only represent safe characters; `constantsLossless`
says none of the constants used here loses a character that way).  Every later step is a polymorphic
list operation.  Hence `eval_arg_safe` (Properties/C17.lean) holds by construction, and widening
`word_chars` in the code cannot be mirrored here without `safe_of_word` failing.

Python exceptions are `Except String` (the class name).  Quirks kept as they are: the rebinding of the local
name `union` inside `_union_literal_from_sentence_phase0` (freezes the caller's list), the lazy
`takewhile(map(itemgetter(0), …))`, slices with `sentence_ends = -1`, `doc[i-1]` with `i = 0`, the unused `name`.
-/
namespace Adhoc
open Py (isSpaceC isAsciiDigit isAsciiLetter)

-- `c!"abc"`: a string literal as an explicit list of character literals (reduces under `decide`, unlike `String.toList`)
open Lean in
macro "c!" s:str : term => do
  let cs := s.getString.toList
  let elems := cs.map (fun c => Syntax.mkCharLit c)
  `(([$(elems.toArray),*] : List Char))

/-- `word_chars = string.digits + string.ascii_letters + "`'\"/|"` -/
def wordChar (c : Char) : Bool := isAsciiDigit c || isAsciiLetter c || c == '`' || c == '\'' || c == '"' || c == '/' || c == '|'
/-- `ch in frozenset((".", ";", ",")) or ch.isspace()` -/
def sepChar (c : Char) : Bool := c == '.' || c == ';' || c == ',' || isSpaceC c
/-- **SafeAlphabet**: word characters (letters, digits, backtick, quotes, `/`, `|`), separators (`. ; ,` and
    whitespace) and the brackets of the fixed templates. -/
def safeC (c : Char) : Bool := wordChar c || sepChar c || c == '[' || c == ']'
abbrev SC := { c : Char // safeC c = true }
abbrev Str := List SC          -- every string the model can ever build is safe BY TYPE
abbrev CStr := List Char
def v (s : Str) : CStr := s.map Subtype.val
/-- constants: unsafe characters cannot even be represented (they would be dropped — `constantsLossless`
    and the correspondence with the real code would show it) -/
def S (s : CStr) : Str := s.filterMap (fun c => if h : safeC c = true then some ⟨c, h⟩ else none)
instance : Inhabited SC := ⟨⟨' ', by decide⟩⟩
instance : BEq SC := ⟨fun a b => a.val == b.val⟩

def isspace (s : CStr) : Bool := !s.isEmpty && s.all isSpaceC
/-- `str.isidentifier()` restricted to the alphabet these strings are made of (ASCII word characters and separators) -/
def isIdentifier (s : CStr) : Bool :=
  match s with
  | [] => false
  | c :: cs => (isAsciiLetter c || c == '_') && cs.all (fun d => isAsciiLetter d || isAsciiDigit d || d == '_')
def isdigitStr (s : CStr) : Bool := !s.isEmpty && s.all isAsciiDigit
def lowerC (c : Char) : Char := if 'A' ≤ c && c ≤ 'Z' then Char.ofNat (c.toNat + 32) else c
def lower (s : CStr) : CStr := s.map lowerC

def containsSub (l p : CStr) : Bool :=
  match l with
  | [] => p.isEmpty
  | c :: cs => p.isPrefixOf (c :: cs) || containsSub cs p
def findSub (p : CStr) : CStr → Nat → Option Nat
  | [], i => if p.isEmpty then some i else none
  | c :: cs, i => if p.isPrefixOf (c :: cs) then some i else findSub p cs (i + 1)
def rfindSub (p s : CStr) : Option Nat :=
  (List.range (s.length + 1)).reverse.find? (fun i => p.isPrefixOf (s.drop i))
def splitOn1 (sep : Char) : Str → Str → List Str
  | [], acc => [acc.reverse]
  | c :: cs, acc => if c.val == sep then acc.reverse :: splitOn1 sep cs [] else splitOn1 sep cs (c :: acc)
def joinWith (sep : Str) : List Str → Str
  | [] => []
  | [x] => x
  | x :: xs => x ++ sep ++ joinWith sep xs
def windows3 {α} : List α → List (α × α × α)
  | a :: b :: c :: rest => (a, b, c) :: windows3 (b :: c :: rest)
  | _ => []
def windows2 {α} : List α → List (α × α)
  | a :: b :: rest => (a, b) :: windows2 (b :: rest)
  | _ => []
/-- Python `l[a:b]` on lists with possibly negative `Int` bounds -/
def pySlice {α} (l : List α) (a b : Option Int) : List α :=
  let n : Int := l.length
  let cl (x : Int) : Nat := let y := if x < 0 then n + x else x; if y < 0 then 0 else if y > n then n.toNat else y.toNat
  let lo := match a with | none => 0 | some x => cl x
  let hi := match b with | none => l.length | some x => cl x
  (l.drop lo).take (hi - lo)
/-- `cdd.shared.ast_utils.deduplicate` (order-preserving) on the erased strings -/
def dedup (l : List Str) : List Str := l.foldl (fun acc x => if acc.any (fun y => v y == v x) then acc else acc ++ [x]) []

/-! ### the fixed tables of `parse_utils.py` / `pure_utils.py` -/
def adhocTypeToType : List (CStr × CStr) := [(c!"bool",c!"bool"),(c!"boolean",c!"bool"),(c!"dict",c!"dict"),(c!"dictionary",c!"dict"),
  (c!"false",c!"bool"),(c!"filename",c!"str"),(c!"float",c!"float"),(c!"frequency",c!"int"),(c!"integer",c!"int"),(c!"int64",c!"int"),
  (c!"`int64`castable",c!"int"),(c!"list",c!"list"),(c!"number",c!"int"),(c!"path",c!"str"),(c!"quantity",c!"int"),(c!"str",c!"str"),
  (c!"string",c!"str"),(c!"true",c!"bool"),(c!"tuple",c!"Tuple"),(c!"whether",c!"bool")]
def typeToName : List (CStr × CStr) := [(c!"Int",c!"int"),(c!"int",c!"int"),(c!"Float",c!"float"),(c!"float",c!"float"),(c!"complex",c!"complex"),
  (c!"str",c!"str"),(c!"String",c!"str"),(c!"Bool",c!"bool"),(c!"bool",c!"bool"),(c!"None",c!"None")]
def simpleTypes : List CStr := [c!"int",c!"float",c!"complex",c!"str",c!"bool"]
def tuple3ToType : List ((CStr × CStr × CStr) × CStr) := [((c!"False",c!" ",c!"if"),c!"bool"),((c!"False",c!" ",c!"on"),c!"bool"),
  ((c!"Filename",c!" ",c!"of"),c!"str"),((c!"True",c!" ",c!"if"),c!"bool"),((c!"True",c!" ",c!"on"),c!"bool"),
  ((c!"called",c!" ",c!"at"),c!"collections.abc.Callable"),((c!"directory",c!" ",c!"where"),c!"str"),((c!"floating",c!" ",c!"point"),c!"float")]
def tuple3ToCollection : List ((CStr × CStr × CStr) × CStr) := [((c!"List",c!" ",c!"of"),c!"List"),((c!"Tuple",c!" ",c!"of"),c!"Tuple"),
  ((c!"Dictionary",c!" ",c!"of"),c!"Mapping")]
def kwlist : List CStr := [c!"False",c!"None",c!"True",c!"and",c!"as",c!"assert",c!"async",c!"await",c!"break",c!"class",c!"continue",c!"def",c!"del",
  c!"elif",c!"else",c!"except",c!"finally",c!"for",c!"from",c!"global",c!"if",c!"import",c!"in",c!"is",c!"lambda",c!"nonlocal",c!"not",c!"or",
  c!"pass",c!"raise",c!"return",c!"try",c!"while",c!"with",c!"yield"]
/-- the template pieces of the `"…".format` calls -/
def tOptional : CStr := c!"Optional["
def tUnion : CStr := c!"Union["
def tLiteral : CStr := c!"Literal["
def tClose : CStr := c!"]"
def tOpen : CStr := c!"["
def tCommaSp : CStr := c!", "
def tComma : CStr := c!","

/-- every constant that can flow into a result (table values and template pieces) -/
def resultConstants : List CStr :=
  adhocTypeToType.map (·.2) ++ typeToName.map (·.2) ++ tuple3ToType.map (·.2) ++ tuple3ToCollection.map (·.2) ++
  [tOptional, tUnion, tLiteral, tClose, tOpen, tCommaSp, tComma]
/-- `S` drops nothing from any of them: the model's constants are exactly the code's constants -/
def constantsLossless : Bool := resultConstants.all (fun s => v (S s) == s)

def lookup (tbl : List (CStr × CStr)) (k : CStr) : Option Str := (tbl.find? (fun p => p.1 == k)).map (fun p => S p.2)
def lookup3 (tbl : List ((CStr × CStr × CStr) × CStr)) (w : Str × Str × Str) : Option Str :=
  (tbl.find? (fun p => p.1.1 == v w.1 && p.1.2.1 == v w.2.1 && p.1.2.2 == v w.2.2)).map (fun p => S p.2)
def firstSome {α β} (f : α → Option β) : List α → Option β
  | [] => none
  | x :: xs => match f x with | some y => some y | none => firstSome f xs

/-! ### `_parse_adhoc_doc_for_typ_phase0` -/
/-- the only two doors through which a character of the docstring can enter a model string -/
theorem safe_of_word (c : Char) (h : (wordChar c || c == '.') = true) : safeC c = true := by
  rcases (Bool.or_eq_true _ _).mp h with h1 | h1
  · simp [safeC, h1]
  · simp [safeC, sepChar, h1]
theorem safe_of_sep (c : Char) (h : (c == '.' || c == ';' || c == ',' || isSpaceC c) = true) : safeC c = true := by
  have : sepChar c = true := h
  simp [safeC, this]

structure P0 where
  words : List Str            -- completed words / separators, in order
  cur : Str                   -- words[-1] under construction (reversed)
  sentenceEnds : Int := -1
  breakUnion : Bool := false

def phase0Loop (doc : Array Char) : Nat → Nat → P0 → P0
  | 0, _, st => st
  | fuel + 1, i, st =>
    if h : i < doc.size then
      let ch := doc[i]
      let nextOk := (i + 1 < doc.size) && wordChar (doc[i+1]!)
      let prevOk := (i == 1) || (let p := if i == 0 then doc[doc.size - 1]! else doc[i-1]!; p != '`')
      if hw : (wordChar ch || (ch == '.' && nextOk && prevOk)) = true then
        have hs : safeC ch = true := safe_of_word ch (by
          rcases Bool.or_eq_true _ _ |>.mp hw with h1 | h1
          · simp [h1]
          · simp only [Bool.and_eq_true] at h1; simp [h1.1.1])
        phase0Loop doc fuel (i + 1) { st with cur := ⟨ch, hs⟩ :: st.cur }
      else if hsep : (ch == '.' || ch == ';' || ch == ',' || isSpaceC ch) = true then
        let sc : SC := ⟨ch, safe_of_sep ch hsep⟩
        let words := st.words ++ [st.cur.reverse, [sc]]
        let se := if ch == '.' && st.sentenceEnds == -1 then (words.length : Int) else st.sentenceEnds
        let bu := if !(ch == '.' && st.sentenceEnds == -1) && ch == ';' then true else st.breakUnion
        phase0Loop doc fuel (i + 1) { words := words, cur := [], sentenceEnds := se, breakUnion := bu }
      else phase0Loop doc fuel (i + 1) st
    else st

def cOr : CStr := [' ', 'o', 'r', ' ']
def cOf : CStr := [' ', 'o', 'f', ' ']

/-- `for a, b in sliding_window(words[starts:], 2): ends += 1; if a == "." and not b.isidentifier(): break` -/
def sndSentenceEnd : List (Str × Str) → Int → Int
  | [], ends => ends
  | (a, b) :: rest, ends => if v a == ['.'] && !isIdentifier (v b) then ends + 1 else sndSentenceEnd rest (ends + 1)

/-- returns (words, candidate_type, fst_sentence, sentence) -/
def phase0 (doc : CStr) : List Str × Option Str × Str × Option Str :=
  let arr := doc.toArray
  let st := phase0Loop arr (arr.size + 1) 0 { words := [], cur := [] }
  let words := st.words ++ [st.cur.reverse]
  let cand := firstSome (fun w => lookup adhocTypeToType (v w)) words
  let lo : Int := if st.breakUnion && words.length > 2 then 2 else 0
  let fst := (pySlice words (some lo) (some st.sentenceEnds)).flatten
  if containsSub (v fst) cOr || containsSub (v fst) cOf then (words, cand, fst, some fst)
  else
    let starts := st.sentenceEnds
    let ends := sndSentenceEnd (windows2 (pySlice words (some starts) none)) st.sentenceEnds
    let snd := (pySlice words (some starts) (some ends)).flatten
    if containsSub (v snd) cOr || containsSub (v snd) cOf then (words, cand, fst, some snd)
    else (words, cand, fst, none)

/-! ### `_parse_adhoc_doc_for_typ_phase1` -/
def splitWsAux : Str → Str → List Str
  | [], acc => if acc.isEmpty then [] else [acc.reverse]
  | c :: cs, acc => if isSpaceC c.val then (if acc.isEmpty then splitWsAux cs [] else acc.reverse :: splitWsAux cs []) else splitWsAux cs (c :: acc)
def pySplitWs (s : Str) : List Str := splitWsAux s []

/-- returns (sentence, head of `wrap_type_with`: `none` = `"{}"`, `some h` = `h ++ "[{}]"`) -/
def phase1 (sentence : Str) (words : List Str) : Str × Option Str :=
  let sentence := match rfindSub (c!", default") (v sentence) with | some i => sentence.take i | none => sentence
  if ((v sentence).count '`') % 2 == 0 then
    let fstTick := findSub ['`'] (v sentence) 0
    let pre := match fstTick with | some i => sentence.take i | none => sentence
    let coll := match firstSome (lookup3 tuple3ToCollection) (windows3 (pySplitWs pre)) with
      | some c => some c
      | none => firstSome (lookup3 tuple3ToCollection) (windows3 words)
    let sentence := match fstTick with
      | some i => (match rfindSub ['`'] (v sentence) with | some j => (sentence.take j).drop i | none => sentence)
      | none => sentence
    (sentence, coll)
  else (sentence, none)

/-! ### `_union_literal_from_sentence_phase0` — list elements are finished strings or lists under construction -/
inductive U | str (s : Str) | lst (l : Str)

structure UL where
  caller : List U             -- the list object the caller sees
  loc : List U                -- the list bound to the local name `union`
  aliased : Bool := true      -- the local name still refers to the caller's list
  q1 : Nat := 0
  q2 : Nat := 0

def UL.cur (st : UL) : List U := if st.aliased then st.caller else st.loc
def UL.put (st : UL) (l : List U) : UL := if st.aliased then { st with caller := l } else { st with loc := l }
def setLast (l : List U) (u : U) : List U := l.dropLast ++ [u]
def isOrWord (w : CStr) : Bool := w == c!"or" || w == c!"or," || w == c!"or;" || w == c!"or:"
def isOfWord (w : CStr) : Bool := w == c!"of" || w == c!"of," || w == c!"of;" || w == c!"of:"

def unionLoop (sent : Array SC) : Nat → Nat → UL → Except String UL
  | 0, _, st => .ok st
  | fuel + 1, i, st =>
    if h : i < sent.size then do
      let sc := sent[i]
      let ch := sc.val
      let sp := isSpaceC ch
      let mut st := st
      let mut i := i
      if !sp && ch != '`' then
        match st.cur.getLast? with
        | some (.lst l) => st := st.put (setLast st.cur (.lst (l ++ [sc])))
        | _ => throw "AttributeError"
      else if sp then
        match st.cur.getLast? with
        | some (.lst l) =>
          match l.getLast?, l.head? with
          | some lastc, some first =>
            let strip := (lastc.val == ',' || lastc.val == ';') && (isAsciiDigit first.val || first.val == '\'' || first.val == '"' || first.val == '`' || isIdentifier [first.val])
            let w := if strip then l.dropLast else l
            st := st.put (setLast st.cur (.str w))
            if isOrWord (v w) then
              st := st.put (setLast st.cur (.lst []))
            else if isOfWord (v w) then
              -- adhoc_3_tuple_to_collection.get(tuple(union))
              let asStrs := st.cur.map (fun u => match u with | .str s => s | .lst l => l)
              let coll := match asStrs with
                | [a, b, c] => lookup3 tuple3ToCollection (a, b, c)
                | _ => none
              match coll with
              | none => st := st.put (setLast st.cur (.lst []))
              | some _ => st := { st with aliased := false, loc := [] }   -- `union = []` rebinds the local name only
            else st := st.put (st.cur ++ [.lst []])
          | _, _ => pure ()
        | some (.str _) => throw "TypeError"
        | none => pure ()
        -- eat until next non-space
        let j := i
        let run := ((sent.toList.drop i).takeWhile (fun c => isSpaceC c.val)).length
        i := i + run - 1
        let ws : List U := ((sent.toList.drop j).take (i + 1 - j)).map (fun c => U.str [c])
        let cur := st.cur
        st := st.put ((if cur.isEmpty then [] else cur.dropLast) ++ ws ++ [.lst []])
      if ch == '\'' || ch == '"' then
        let prevBs := i != 0 && (sent[i-1]!).val == '\\'
        if !prevBs then st := if ch == '\'' then { st with q1 := st.q1 + 1 } else { st with q2 := st.q2 + 1 }
        if i + 2 < sent.size && (st.q1 + st.q2) % 2 == 0 && (sent[i+1]!).val == ',' then i := i + 1
      unionLoop sent fuel (i + 1) st
    else .ok st

def trimLast (l : Str) : Str :=
  match l.getLast? with
  | some lc => if lc.val == '.' || lc.val == ',' then l.dropLast else l
  | none => l

def unionPhase0 (sentence : Str) : Except String (List U) := do
  let arr := sentence.toArray
  let st ← unionLoop arr (arr.size + 1) 0 { caller := [.lst []], loc := [] }
  -- the final clean-up acts on the local binding
  let cur := st.cur
  let cur' ← match cur.getLast? with
    | some (.lst l) => pure (if l.isEmpty then cur.dropLast else setLast cur (.str (trimLast l)))
    | some (.str s) => pure (if s.isEmpty then cur.dropLast else setLast cur (.str (trimLast s)))
    | none => throw "IndexError"
  return if st.aliased then cur' else st.caller

/-! ### `_union_literal_from_sentence` -/
def validLit (c : Char) : Bool := isAsciiDigit c || c == '\'' || c == '"' || c == '`'
/-- `count_iter_items(takewhile(valid.__contains__, map(itemgetter(0), union)))`: lazy, so `""[0]` raises only if reached -/
def countLits : List Str → Except String Nat
  | [] => pure 0
  | [] :: _ => throw "IndexError"
  | (c :: _) :: rest => if validLit c.val then (do let k ← countLits rest; pure (k + 1)) else pure 0

def unionLiteral (sentence : Str) : Except String (Option Str) := do
  let us ← unionPhase0 sentence
  let strs ← us.mapM (fun u => match u with | .str s => pure s | .lst _ => throw "TypeError")
  if strs.length > 1 then
    match firstSome (lookup3 tuple3ToType) (windows3 strs) with
    | some t => return some t
    | none => if (firstSome (lookup3 tuple3ToCollection) (windows3 strs)).isSome then return none
  let mapped := (strs.filter (fun s => !isspace (v s))).map (fun k => (lookup adhocTypeToType (lower (v k))).getD k)
  let union := dedup mapped
  let bad := union.any (fun e => (lookup typeToName (v e)).isNone &&
      (kwlist.any (fun k => k == v e) || isdigitStr (v e) || ((v e).count '\'' % 2 == 1) || ((v e).count '"' % 2 == 1)))
  if bad then return none
  let literals ← match union with
    | (c :: _) :: _ => if validLit c.val then countLits union else pure 0
    | _ => pure 0
  let (union, optional) := match union.findIdx? (fun u => v u == c!"None") with
    | some i => (union.eraseIdx i, true)
    | none => (union, false)
  let union := union.map (fun t => (lookup typeToName (v t)).getD t)
  let wrap (s : Str) : Str := if optional then S tOptional ++ s ++ S tClose else s
  let comma := S tCommaSp
  if literals > 0 && union.length > literals then
    return some (wrap (S tUnion ++ (S tLiteral ++ joinWith comma (union.take literals) ++ S tClose) ++ comma ++ joinWith comma (union.drop literals) ++ S tClose))
  else if literals > 0 then
    return some (wrap (S tLiteral ++ joinWith comma (union.take literals) ++ S tClose))
  else match union with
    | [] => return none
    | [x] => return some (wrap x)
    | _ => return some (wrap (S tUnion ++ joinWith comma union ++ S tClose))

/-! ### `parse_adhoc_doc_for_typ` -/
def rstripDots (s : CStr) : CStr := (s.reverse.dropWhile (· == '.')).reverse

/-- `parse_adhoc_doc_for_typ(doc, name, default_is_none)`.  The result type says it all: whatever this function
    returns is a `List SC`, i.e. every character satisfies `safeC`.  (`name` is unused by the code, and here.) -/
def adhoc (doc : CStr) (_name : CStr) (defaultIsNone : Bool) : Except String (Option Str) := do
  if doc.isEmpty then return none
  let wrapOpt (s : Str) : Str := if defaultIsNone then S tOptional ++ s ++ S tClose else s
  let (words, cand0, fst, sentence?) := phase0 doc
  let mut cand := cand0
  if let some sentence := sentence? then
    let (sentence, coll) := phase1 sentence words
    let mut wrapHead : Option Str := coll       -- "X[{}]"
    let mut unionWith : Option Str := none      -- "Union[{}, T]"
    match ← unionLiteral sentence with
    | some nct =>
      if tLiteral.isPrefixOf (v nct) && (match cand with | some c => simpleTypes.any (fun t => t == v c) | none => false) then
        unionWith := cand; wrapHead := none
      cand := if (wrapHead.map v) == some (c!"Mapping") && unionWith.isNone then some ((nct.drop 6).dropLast) else some nct
    | none => pure ()
    if let some c := cand then
      match unionWith, wrapHead with
      | some t, _ => return some (S tUnion ++ c ++ S tCommaSp ++ t ++ S tClose)
      | none, some h => return some (h ++ S tOpen ++ c ++ S tClose)
      | none, none => return some c
  match lookup typeToName (rstripDots (v fst)) with
  | some w => return some w
  | none => pure ()
  if let some c := cand then return some c
  if words.length > 2 then
    let w2 := words[2]!
    if (v w2).contains '/' then
      return some (S tUnion ++ joinWith (S tComma) (dedup (splitOn1 '/' w2 [])) ++ S tClose)
    match firstSome (lookup3 tuple3ToType) (windows3 words) with
    | some t => return some (wrapOpt t)
    | none => return none
  return none

/-- the function the driver runs and the theorems speak about: the result as a plain Python string -/
def adhocStr (doc name : CStr) (defaultIsNone : Bool) : Except String (Option CStr) :=
  match adhoc doc name defaultIsNone with
  | .ok r => .ok (r.map v)
  | .error e => .error e

/-- decidable equality of results, so that concrete instances can be checked by `decide` -/
instance : DecidableEq (Except String (Option CStr)) := fun a b =>
  match a, b with
  | .ok x, .ok y => if h : x = y then isTrue (by rw [h]) else isFalse (by intro e; cases e; exact h rfl)
  | .error x, .error y => if h : x = y then isTrue (by rw [h]) else isFalse (by intro e; cases e; exact h rfl)
  | .ok _, .error _ => isFalse (by intro e; cases e)
  | .error _, .ok _ => isFalse (by intro e; cases e)

end Adhoc
