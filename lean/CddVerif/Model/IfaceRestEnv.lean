import CddVerif.Model.IfaceDomain
import CddVerif.Model.Doc
import CddVerif.Model.Adhoc
/-!
# C02 — a *concrete* docstring layer: the ReST emitter / parser model of `Model/Doc.lean` plugged into `Iface.Env`

`Iface.Env` (the parameter of the C02 theorems) asks for `docEmit`, `docParse`, `extractDefault`, `adhocTyp`, `pyExpr`.
`restEnv pyExpr` fills the first four from the character-level models

* `Doc.emitParamStr` / `Doc.setDefaultDoc` / `DocSplit.hafToStr` (the pieces of `Doc.emit`; `cdd.docstring.emit.docstring`),
* `Doc.parseRest` (`cdd.docstring.parse.docstring` on ReST text),
* `Doc.extractDefault` (`defaults_utils.extract_default`),
* `Adhoc.adhocStr` (`parse_adhoc_doc_for_typ`),

and keeps `pyExpr` (CPython's expression parser) a parameter.

## What had to be added (the two models do not compose as they stand)

`Doc.emit` is the emitter with `purpose="function"`, `indent_level=0`.  The four C02 emitters call it differently:

| format   | purpose  | indent_level | emit_separating_tab | emit_types          |
|----------|----------|--------------|---------------------|---------------------|
| class    | `class`  | 1            | True                | False               |
| function | function | 2            | False               | `not type_annotations` |
| argparse | function | 1            | True                | True                |

so this file ports the two missing pieces of `cdd/docstring/emit.py` / `emit_param_str`:

* `clsParamStr` — `emit_param_str(…, style="rest", purpose="class")`: the key is `cvar <name>` (also for `return_type`),
  no `:type` line; blocks are joined by one newline instead of two (`candidate`);
* `indentStage` — the tail of `docstring()` for `indent_level > 0`: find the first line that is not made of blanks
  only, `splitlines` the rest, prefix every line (every non-empty line unless `emit_separating_tab`) with the tab, wrap a
  multi-line result in `"\n" … "\n" + tab`.

`emitText false 0 _` *is* `Doc.emit … .rest` (`Proofs/IfaceRestEnv.lean: emitText_fn0`).

`Doc.parseRest` is specified for texts whose field tokens stand at line starts (it abstains otherwise) and abstains on
`:cvar`.  The real scanner is character-level: blanks in front of a token belong to the previous chunk, whose value is
stripped, and `:cvar` is an argument token exactly like `:param`.  `normText` applies that invariance *before*
`Doc.parseRest`: every line that starts (after blanks) with a field token is left-stripped, `:cvar` at such a line start
becomes `:param`, every other line is kept as it is, the whole text is stripped and terminated by one newline.

## Total fallbacks where the character-level models abstain (`outside`) — all outside `IfaceRest.InRest`

* `docEmit`: the emitter model abstains (`textwrap.fill` would re-flow a line, a parenthesised default announcement …)
  → the empty docstring `""`;  a style other than ReST → `Doc.emit` for that style, *not* indented (not modelled here);
* `docParse`: the parser model abstains → the empty interface (`parse_docstring("")`);
* `extractDefault`: abstains → `(line, none)` (nothing extracted);
* `adhocTyp`: the model raises (the real function raises too) → `none`;
* a `complex` default is rendered by its `repr` through `Doc.Default.float` (same text; `Doc.Default` has no complex);
  an unresolved AST node as a default of an input interface is dropped (the C02 emitters reject it before).
* `word_wrap` is the emitters' default `True`.

## Known limitation (outside `InRest`)

`parse_docstring` first derives the style from the text (`derive_docstring_format`): a docstring without any ReST field
token (no entry has a description and types are not emitted) is read by the real code as *numpydoc*, which does not strip
the header the same way (`"\nEnds.  "` ↦ header `"Ends.  "`, here `"Ends."`).  `docParse` always reads ReST.

## Tie to the real code (by hand, not part of `./check`)

On 800 generated interfaces × configurations (purpose, `indent_level` 0–2, `emit_separating_tab`, `emit_types`,
`emit_default_doc`; empty / one-line / two-line headers; 1–3 entries, return entry or not) `docEmitL` agreed with
`cdd.docstring.emit.docstring` character by character wherever the model answers (758 agree, 42 abstentions, 0
differences); on the 800 real docstrings `docParse` was compared with the three real readers (2400 calls): 2216 agree, the
model abstains on 64, the real reader raises on 102, 18 differ — all 18 are token-free docstrings (the limitation above).
-/
namespace IfaceRest
open Py Doc DocSplit

/-! ## conversions `Iface.*` ↔ `Doc.*` -/

def defaultToDoc : Iface.Default → Doc.Default
  | .int i => .int i
  | .float r => .float r.toList
  | .complex r => .float r.toList
  | .bool b => .bool b
  | .str s => if s == Iface.NoneStr then .none else if Iface.codeQuoted s then .code s.toList else .str s.toList

def defaultOfDoc : Doc.Default → Iface.Default
  | .int i => .int i
  | .float r => .float (String.ofList r)
  | .bool b => .bool b
  | .str s => .str (String.ofList s)
  | .none => .str Iface.NoneStr
  | .code src => .str (String.ofList src)

def dvalToDoc : Iface.DVal → Option Doc.Default
  | .val d => some (defaultToDoc d)
  | .node _ => Option.none

def paramToDoc (p : Iface.Param) : Doc.Param :=
  { typ := p.typ.map String.toList, doc := p.doc.map String.toList, default := p.default.bind dvalToDoc }

def paramOfDoc (p : Doc.Param) : Iface.Param :=
  { typ := p.typ.map String.ofList, doc := p.doc.map String.ofList, default := p.default.map (fun d => .val (defaultOfDoc d)) }

def irToDoc (ir : Iface.IR) : Doc.IR :=
  { doc := ir.doc.toList, params := ir.params.map (fun kv => (kv.1.toList, paramToDoc kv.2)), returns := ir.returns.map paramToDoc }

/-- what `parse_docstring` returns: no name, type `static` -/
def irOfDoc (d : Doc.IR) : Iface.IR :=
  { name := Option.none, type := some "static", doc := String.ofList d.doc,
    params := d.params.map (fun np => (String.ofList np.1, paramOfDoc np.2)), returns := d.returns.map paramOfDoc }

/-- the interface `parse_docstring` returns for an empty docstring (also the fallback when the parser model abstains) -/
def emptyIR : Iface.IR := { name := Option.none, type := some "static", doc := "", params := [], returns := Option.none }

/-! ## the emitter: `purpose="class"` and `indent_level > 0` -/

def mapOut {α β : Type} (f : α → Out β) : List α → Out (List β)
  | [] => .ok []
  | a :: as => match f a with
    | .outside w => .outside w
    | .ok b => match mapOut f as with
      | .outside w => .outside w
      | .ok bs => .ok (b :: bs)

def pfxCvar : Str := [':','c','v','a','r',' ']
def cvarLine (name doc : Str) : Str := pfxCvar ++ name ++ [':',' '] ++ doc

/-- `emit_param_str((name, param), style="rest", purpose="class", …)`: one `:cvar <name>: <doc>` line, never a type line -/
def clsParamStr (name : Str) (p : Doc.Param) (ww edd : Bool) : Out Str :=
  if truthy p.doc then
    match setDefaultDoc name p edd with
    | .outside w => .outside w
    | .ok Option.none => .ok []
    | .ok (some d) => match fillLine ww (cvarLine name (lstrip d)) with
      | .outside w => .outside w
      | .ok l => .ok (indentAllButFirst l)
  else .ok []

def paramStr (cls : Bool) (name : Str) (p : Doc.Param) (et ww edd : Bool) : Out Str :=
  if cls then clsParamStr name p ww edd else emitParamStr name p .rest et ww edd

/-- the return part: `"" if not line else maybe_nl1 + line` -/
def retPart (params line : Str) : Str :=
  if line.isEmpty then [] else (if params.isEmpty || params.getLast? == some '\n' then [] else ['\n']) ++ line

/-- `candidate_doc_str` (ReST): header, parameter blocks, return block -/
def outOf (doc params returns : Str) : Str :=
  let pe := nlsEnd params
  let re := nlsEnd returns
  let cand := params ++ (if pe < 2 && !returns.isEmpty then ['\n'] else []) ++ returns
              ++ (if (returns.isEmpty && pe > 0) || (!returns.isEmpty && re == 0) then ['\n'] else [])
  hafToStr doc (if isspace cand then [] else cand) []

def sepOf (cls : Bool) : Str := if cls then ['\n'] else ['\n', '\n']

def candidate (cls : Bool) (ir : Doc.IR) (et ww edd : Bool) : Out Str :=
  match mapOut (fun np => paramStr cls np.1 np.2 et ww edd) ir.params with
  | .outside w => .outside w
  | .ok blocks =>
    match ir.returns with
    | Option.none => .ok (outOf ir.doc (join (sepOf cls) blocks) [])
    | some rp => match paramStr cls sReturnType rp et ww edd with
      | .outside w => .outside w
      | .ok line => .ok (outOf ir.doc (join (sepOf cls) blocks) (retPart (join (sepOf cls) blocks) line))

/-- `str.splitlines()` (keepends = False) -/
def splitlinesNK : Str → Str → List Str
  | [], acc => if acc.isEmpty then [] else [acc.reverse]
  | '\r' :: '\n' :: cs, acc => acc.reverse :: splitlinesNK cs []
  | c :: cs, acc => if isLineBreak c then acc.reverse :: splitlinesNK cs [] else splitlinesNK cs (c :: acc)

/-- the `while next_nl > -1` loop over the `\n`-separated segments: the first segment *followed by a newline* that is not
    made of blanks only (an empty one qualifies: `"".isspace()` is false), else the last segment → (line, next_nl) -/
def scanLines : List Str → Nat → Str × Nat
  | [], off => ([], off)
  | [l], off => (l, off + l.length)
  | l :: l' :: rest, off => if isspace l then scanLines (l' :: rest) (off + l.length + 1) else (l, off + l.length)

def tabs (n : Nat) : Str := List.replicate (4 * n) ' '

/-- the tail of `docstring()` after `candidate_doc_str` is known (`current_indent` is always 0) -/
def indentStage (n : Nat) (sepTab : Bool) (out : Str) : Str :=
  if out.isEmpty || isspace out then []
  else if !out.contains '\n' then (if out.head? == some '\n' then out else ['\n'] ++ out)
  else if n == 0 then out
  else
    let ln := scanLines (split1 out '\n') 0
    let line := ln.1
    let nextNl := ln.2
    let start := if out.length == nextNl || (nextNl + 1 < out.length && out[nextNl + 1]? != some '\n') then nextNl else nextNl + 1
    let lines := (if line.isEmpty then [] else [line]) ++ splitlinesNK (out.drop start) []
    let tb := tabs n
    let body := join ['\n'] (lines.map (fun l => if !l.isEmpty || sepTab then tb ++ l else l))
    if lines.length > 1 then
      (if startsWith body tb then ['\n'] else []) ++ body ++ (if body.getLast? == some '\n' then [] else ['\n'] ++ tb)
    else body

/-- `cdd.docstring.emit.docstring(ir, "rest", purpose, word_wrap, indent_level, emit_separating_tab, emit_types, emit_default_doc)` -/
def emitText (cls : Bool) (n : Nat) (sepTab : Bool) (ir : Doc.IR) (et ww edd : Bool) : Out Str :=
  match candidate cls ir et ww edd with
  | .outside w => .outside w
  | .ok out => .ok (indentStage n sepTab out)

def toDocStyle : Iface.Style → Doc.Style
  | .rest => .rest | .google => .google | .numpydoc => .numpydoc

def docEmitL (c : Iface.DocEmitCfg) (ir : Iface.IR) : Out Str :=
  match c.style with
  | .rest => emitText c.purposeClass c.indentLevel c.emitSeparatingTab (irToDoc ir) c.emitTypes true c.emitDefaultDoc
  | s => Doc.emit (irToDoc ir) (toDocStyle s) c.emitTypes true c.emitDefaultDoc

def docEmit (c : Iface.DocEmitCfg) (ir : Iface.IR) : String :=
  match docEmitL c ir with
  | .ok s => String.ofList s
  | .outside _ => ""

/-! ## the parser: tokens to line starts, then `Doc.parseRest` -/

def sCvar : Str := [':','c','v','a','r']
def sParam : Str := [':','p','a','r','a','m']

def normLine (l : Str) : Str :=
  let l' := lstrip l
  if startsWith l' sCvar then sParam ++ l'.drop 5
  else if allRestTokens.any (fun t => startsWith l' t) then l'
  else l

def normText (s : Str) : Str := strip (join ['\n'] ((split1 s '\n').map normLine)) ++ ['\n']

/-- `emit_default_doc` of the three readers: the class parser passes `False`, `cdd.docstring.parse.docstring` defaults to
    `True` (function parser), the argparse parser passes `True` -/
def parseEdd : Iface.DocParseCfg → Bool
  | .cls => false
  | .fn _ => true
  | .argparse => true

def docParse (c : Iface.DocParseCfg) (s : String) : Iface.IR :=
  if s.toList.isEmpty then emptyIR
  else match parseRest (normText s.toList) (parseEdd c) with
    | .ok d => irOfDoc d
    | .outside _ => emptyIR

/-! ## `extract_default`, `parse_adhoc_doc_for_typ` -/

def extractDefault (edd : Bool) (line : String) : String × Option Iface.Default :=
  match Doc.extractDefault line.toList Option.none edd with
  | .ok (d, v) => (String.ofList d, v.map defaultOfDoc)
  | .outside _ => (line, Option.none)

def adhocTyp (doc name : String) (isNone : Bool) : Option String :=
  match Adhoc.adhocStr doc.toList name.toList isNone with
  | .ok r => r.map String.ofList
  | .error _ => Option.none

/-- **the concrete environment**: the ReST docstring layer of `Model/Doc.lean` + `Model/Adhoc.lean`; CPython's expression
    parser stays a parameter -/
def restEnv (pyExpr : String → Option Iface.Expr) : Iface.Env :=
  { docEmit := docEmit, docParse := docParse, extractDefault := extractDefault, adhocTyp := adhocTyp, pyExpr := pyExpr }

end IfaceRest
