import CddVerif.Proofs.DocGNRoundTrip
/-!
# Google-style whole-docstring round trip (C01) — the domain as an executable check

`C01Google.inDomainGB : IR → Bool` and its soundness for `DocGNRT.GGoodIR`.
-/
namespace C01Google
open Py Doc DocRT DocGN DocGNRT C01Whole

def asciiB (s : Str) : Bool := s.all (fun c => decide (c.toNat ≤ 127))

/-- **names**: as for ReST, and non-empty, no blank at either end, no `(`, no line break -/
def gNameB (n : Str) : Bool :=
  goodNameB n && !n.isEmpty && headNSB n && lastNSB n && !n.contains '(' && n.all (fun c => !DocGN.isLineBreak c)

/-- **defaults**: integers and booleans -/
def intBoolB : Default → Bool
  | .int _ => true
  | .bool _ => true
  | _ => false

/-- `parse_adhoc_doc_for_typ` proposes no type for the description (either value of its `default_is_none` flag) -/
def adhocNoneB (name D : Str) : Bool :=
  [true, false].all fun b => match Adhoc.adhocStr D name b with | .ok Option.none => true | _ => false

/-- the emitted entry line: ASCII, no line break, indented by exactly two blanks, not ending in a colon -/
def gLineOKB (l : Str) : Bool :=
  l.all (fun c => decide (c.toNat ≤ 127) && !DocGN.isLineBreak c) && indentOf l == 2 && l.getLast? != some ':'

/-- **one entry**: a ReST-good entry whose default is an integer or boolean; for both settings of `emit_default_doc` the
    emitted description is ASCII, triggers no prose type inference, and the emitted line is well-formed; the description
    does not start with `{`; the type contains no ` or ` and lies in the grammar of `needs_quoting` the model covers -/
def gEntryB (name : Str) (p : Param) : Bool :=
  goodEntryB p
  && (match p.default with | some v => intBoolB v | Option.none => true)
  && ([true, false].all fun edd => asciiB (docText p edd) && adhocNoneB name (docText p edd)
        && gLineOKB (gLine name p.typ (docText p edd)))
  && (match p.doc with | some d => !startsWith d ['{'] | Option.none => true)
  && (match p.typ with
      | some t => !contains t sOr && (match needsQuotingG (some t) with | .ok _ => true | _ => false)
      | Option.none => true)

/-- **the Google domain**: a good header without `Args:`, ASCII; no return entry; at least one parameter; good names and
    entries; pairwise distinct names -/
def inDomainGB (ir : IR) : Bool :=
  goodHeaderB ir.doc && !contains ir.doc sArgs && asciiB ir.doc && ir.returns.isNone && !ir.params.isEmpty
  && ir.params.all (fun np => gNameB np.1 && gEntryB np.1 np.2)
  && nodupB (ir.params.map (·.1))

def InDomainG (ir : IR) : Prop := inDomainGB ir = true
instance (ir : IR) : Decidable (InDomainG ir) := by unfold InDomainG; infer_instance

theorem all_bool (f : Bool → Bool) (h : ([true, false].all f) = true) : ∀ b, f b = true := by
  simp only [List.all_cons, List.all_nil, Bool.and_true, Bool.and_eq_true] at h
  intro b; cases b
  · exact h.2
  · exact h.1

theorem asciiB_sound (s : Str) (h : asciiB s = true) : Ascii s := by
  intro c hc
  have := List.all_eq_true.mp h c hc
  simpa using this

theorem gName_sound (n : Str) (h : gNameB n = true) : GName n := by
  simp only [gNameB, Bool.and_eq_true] at h
  obtain ⟨⟨⟨⟨⟨h1, h2⟩, h3⟩, h4⟩, h5⟩, h6⟩ := h
  refine ⟨goodName_sound n h1, ?_, headNSB_sound n h3, lastNSB_sound n h4, not_contains_char _ _ h5, ?_⟩
  · rintro rfl; simp at h2
  · intro c hc
    have := List.all_eq_true.mp h6 c hc
    simpa using this

theorem gLineOK_sound (l : Str) (h : gLineOKB l = true) : GScanLine l ∧ Ascii l := by
  simp only [gLineOKB, Bool.and_eq_true] at h
  obtain ⟨⟨h1, h2⟩, h3⟩ := h
  refine ⟨⟨?_, by simpa using h2, by simpa using h3⟩, ?_⟩
  · intro c hc
    have := List.all_eq_true.mp h1 c hc
    simp only [Bool.and_eq_true, Bool.not_eq_true'] at this
    exact this.2
  · intro c hc
    have := List.all_eq_true.mp h1 c hc
    simp only [Bool.and_eq_true, decide_eq_true_eq] at this
    exact this.1

theorem gEntry_sound (name : Str) (p : Param) (h : gEntryB name p = true) :
    GEntry name p ∧ ∀ edd, GScanLine (gLine name p.typ (docText p edd)) ∧ Ascii (gLine name p.typ (docText p edd)) := by
  simp only [gEntryB, Bool.and_eq_true] at h
  obtain ⟨⟨⟨⟨h1, h2⟩, h3⟩, h4⟩, h5⟩ := h
  have hb := goodEntry_sound p h1
  have h3' := all_bool _ h3
  refine ⟨⟨hb, ?_, ?_, ?_, ?_⟩, ?_⟩
  · intro v hv
    rw [hv] at h2
    cases v <;> first | trivial | cases h2
  · intro edd
    have := h3' edd
    simp only [Bool.and_eq_true] at this
    refine ⟨docText_good p edd hb, asciiB_sound _ this.1.1, ?_⟩
    intro b
    have hh := all_bool _ this.1.2 b
    split at hh
    · rename_i heq; exact heq
    · cases hh
  · intro d hd
    rw [hd] at h4
    simpa using h4
  · intro t ht
    rw [ht] at h5
    simp only [Bool.and_eq_true, Bool.not_eq_true'] at h5
    refine ⟨h5.1, ?_⟩
    have hh := h5.2
    split at hh
    · rename_i qb heq; exact ⟨qb, heq⟩
    · cases hh
  · intro edd
    have := h3' edd
    simp only [Bool.and_eq_true] at this
    exact gLineOK_sound _ this.2

/-- **soundness of the check** -/
theorem inDomainG_sound (ir : IR) (h : InDomainG ir) : GGoodIR ir := by
  unfold InDomainG at h
  simp only [inDomainGB, Bool.and_eq_true] at h
  obtain ⟨⟨⟨⟨⟨⟨h1, h2⟩, h3⟩, h4⟩, h5⟩, h6⟩, h7⟩ := h
  refine ⟨?_, by simpa using h2, asciiB_sound _ h3, by simpa using h4, ?_, ?_, ?_, ?_, nodupB_sound _ h7⟩
  · simp only [goodHeaderB, Bool.or_eq_true, Bool.and_eq_true] at h1
    rcases h1 with h1 | h1
    · left; cases hd : ir.doc with
      | nil => rfl
      | cons _ _ => rw [hd] at h1; cases h1
    · by_cases hne : ir.doc = []
      · left; exact hne
      · right; exact ⟨hne, headNSB_sound _ h1.1.1, lastNSB_sound _ h1.1.2⟩
  · intro hn; rw [hn] at h5; cases h5
  · intro np hnp
    have := List.all_eq_true.mp h6 np hnp
    simp only [Bool.and_eq_true] at this
    exact gName_sound _ this.1
  · intro np hnp
    have := List.all_eq_true.mp h6 np hnp
    simp only [Bool.and_eq_true] at this
    exact (gEntry_sound _ _ this.2).1
  · intro np hnp
    have := List.all_eq_true.mp h6 np hnp
    simp only [Bool.and_eq_true] at this
    exact (gEntry_sound _ _ this.2).2

end C01Google
