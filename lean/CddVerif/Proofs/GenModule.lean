import CddVerif.Model.GenModule
/-! Lemmas for C19 (`gen`): template application, `ensure_valid_identifier`, `__all__` rendering, the body re-ordering,
    import inference. -/
deriving instance DecidableEq for Except

namespace GenModule
open Py PyAst GenImports

/-! ### templates -/

def Tpl.holes : Tpl → Nat
  | [] => 0
  | .hole :: r => Tpl.holes r + 1
  | .ch _ :: r => Tpl.holes r
def Tpl.lits : Tpl → Nat
  | [] => 0
  | .hole :: r => Tpl.lits r
  | .ch _ :: r => Tpl.lits r + 1

theorem Tpl.apply_length (t : Tpl) (n : Str) : (t.apply n).length = t.lits + t.holes * n.length := by
  induction t with
  | nil => simp [Tpl.apply, Tpl.lits, Tpl.holes]
  | cons s r ih =>
    cases s with
    | ch c => simp [Tpl.apply, Tpl.lits, Tpl.holes, ih]; omega
    | hole => simp [Tpl.apply, Tpl.lits, Tpl.holes, ih, Nat.add_mul]; omega

theorem Tpl.apply_inj_of_length (t : Tpl) (a b : Str) (hl : a.length = b.length) (hh : 0 < t.holes)
    (h : t.apply a = t.apply b) : a = b := by
  induction t with
  | nil => simp [Tpl.holes] at hh
  | cons s r ih =>
    cases s with
    | ch c =>
      simp only [Tpl.apply, List.cons.injEq, true_and] at h
      exact ih (by simpa [Tpl.holes] using hh) h
    | hole =>
      simp only [Tpl.apply] at h
      exact (List.append_inj h hl).1

/-- a template with at least one `{name}` is injective -/
theorem Tpl.apply_injective (t : Tpl) (hh : 0 < t.holes) (a b : Str) (h : t.apply a = t.apply b) : a = b := by
  have hl : (t.apply a).length = (t.apply b).length := by rw [h]
  rw [Tpl.apply_length, Tpl.apply_length] at hl
  have : t.holes * a.length = t.holes * b.length := by omega
  exact Tpl.apply_inj_of_length t a b (Nat.eq_of_mul_eq_mul_left hh this) hh h

theorem fmt_eq (tpl name : Str) (t : Tpl) (h : parseTpl tpl = .ok t) : fmt tpl name = .ok (t.apply name) := by
  simp [fmt, h, Except.map]

/-! ### `ensure_valid_identifier` -/

theorem filter_validChar_id (s : Str) (h : s.all validChar = true) : s.filter validChar = s := by
  induction s with
  | nil => rfl
  | cons c cs ih =>
    simp only [List.all_cons, Bool.and_eq_true] at h
    simp [List.filter, h.1, ih h.2]

theorem char_le_iff (a b : Char) : a ≤ b ↔ a.toNat ≤ b.toNat := by
  rw [Char.le_def]; exact UInt32.le_iff_toNat_le

theorem letter_not_digit (c : Char) (h : isAsciiLetter c = true) : isAsciiDigit c = false := by
  cases hd : isAsciiDigit c with
  | false => rfl
  | true =>
    exfalso
    simp only [isAsciiLetter, isAsciiLower, isAsciiUpper, isAsciiDigit, Bool.or_eq_true, Bool.and_eq_true, decide_eq_true_eq, char_le_iff] at h hd
    have e0 : ('0' : Char).toNat = 48 := rfl
    have e9 : ('9' : Char).toNat = 57 := rfl
    have ea : ('a' : Char).toNat = 97 := rfl
    have ez : ('z' : Char).toNat = 122 := rfl
    have eA : ('A' : Char).toNat = 65 := rfl
    have eZ : ('Z' : Char).toNat = 90 := rfl
    omega

/-- an ASCII identifier that is not a keyword -/
def asciiIdent (s : Str) : Bool := isIdentifier s && !isKeyword s

theorem ensureValid_id (s : Str) (h : asciiIdent s = true) : ensureValid s = s := by
  unfold asciiIdent at h
  simp only [Bool.and_eq_true, Bool.not_eq_true'] at h
  obtain ⟨hi, hk⟩ := h
  cases s with
  | nil => simp [isIdentifier] at hi
  | cons c cs =>
    simp only [isIdentifier, Bool.and_eq_true, Bool.or_eq_true] at hi
    have hd : isAsciiDigit c = false := by
      rcases hi.1 with h1 | h1
      · exact letter_not_digit c h1
      · have : c = '_' := by simpa using h1
        subst this; decide
    have hall : (c :: cs).all validChar = true := by
      simp only [List.all_cons, Bool.and_eq_true]
      refine ⟨?_, ?_⟩
      · rcases hi.1 with h1 | h1
        · simp [validChar, h1]
        · simp [validChar, h1]
      · rw [List.all_eq_true] at hi ⊢
        intro d hdm
        have := hi.2 d hdm
        simp only [Bool.or_eq_true] at this
        simp only [validChar, Bool.or_eq_true]
        rcases this with (h1 | h1) | h1
        · exact Or.inl (Or.inl h1)
        · exact Or.inl (Or.inr h1)
        · exact Or.inr h1
    simp [ensureValid, hk, hd, filter_validChar_id _ hall]

theorem orUnderscore_ne_nil (r : Str) : (if r.isEmpty then ['_'] else r) ≠ [] := by
  cases r <;> simp

theorem ensureValid_ne_nil (s : Str) : ensureValid s ≠ [] := by
  unfold ensureValid
  cases s with
  | nil => simp
  | cons c cs =>
    simp only
    split
    · simp
    · exact orUnderscore_ne_nil _

/-! ### rendering of `__all__` -/

/-- no quote, no backslash, printable: `repr` writes the string verbatim between single quotes -/
def plain (s : Str) : Bool := s.all (fun c => printable c && c != '\'' && c != '"' && c != '\\')

theorem plainChar_facts (c : Char) (h : (printable c && c != '\'' && c != '"' && c != '\\') = true) :
    printable c = true ∧ c ≠ '\'' ∧ c ≠ '"' ∧ c ≠ '\\' ∧ c ≠ '\n' ∧ c ≠ '\r' ∧ c ≠ '\t' := by
  simp only [Bool.and_eq_true, bne_iff_ne, ne_eq] at h
  obtain ⟨⟨⟨hp, h1⟩, h2⟩, h3⟩ := h
  refine ⟨hp, h1, h2, h3, ?_, ?_, ?_⟩ <;> (intro e; subst e; revert hp; decide)

theorem reprBody_plain (s : Str) (h : plain s = true) : reprBody '\'' s = s := by
  induction s with
  | nil => rfl
  | cons c cs ih =>
    simp only [plain, List.all_cons, Bool.and_eq_true] at h
    have hc := plainChar_facts c (by simpa [Bool.and_eq_true] using h.1)
    obtain ⟨hp, h1, _, h3, h4, h5, h6⟩ := hc
    have ih' := ih (by simpa [plain] using h.2)
    simp [reprBody, h1, h3, h4, h5, h6, hp, ih']

theorem plain_not_contains (s : Str) (h : plain s = true) (q : Char) (hq : q = '\'' ∨ q = '"') : s.contains q = false := by
  cases hc : s.contains q with
  | false => rfl
  | true =>
    exfalso
    have hm : q ∈ s := by simpa using hc
    have := (List.all_eq_true.mp h) q hm
    have f := plainChar_facts q this
    rcases hq with e | e
    · exact f.2.1 e
    · exact f.2.2.1 e

theorem dropWhile_plain (s : Str) (h : plain s = true) (cs : List Char) (hcs : ∀ c ∈ cs, c = '\'' ∨ c = '"' ∨ c = '\n') :
    s.dropWhile (cs.contains ·) = s := by
  cases s with
  | nil => rfl
  | cons c r =>
    have hc := plainChar_facts c ((List.all_eq_true.mp h) c (by simp))
    have : cs.contains c = false := by
      cases hcc : cs.contains c with
      | false => rfl
      | true =>
        exfalso
        have hm : c ∈ cs := by simpa using hcc
        rcases hcs c hm with e | e | e
        · exact hc.2.1 e
        · exact hc.2.2.1 e
        · exact hc.2.2.2.2.1 e
    rw [List.dropWhile_cons_of_neg]
    simpa using this

theorem plain_reverse (s : Str) (h : plain s = true) : plain s.reverse = true := by
  unfold plain at *
  rw [List.all_eq_true] at *
  intro c hc
  exact h c (by simpa using hc)

theorem rstripChars_plain (s : Str) (h : plain s = true) (cs : List Char) (hcs : ∀ c ∈ cs, c = '\'' ∨ c = '"' ∨ c = '\n') :
    rstripChars s cs = s := by
  unfold rstripChars
  rw [dropWhile_plain _ (plain_reverse s h) cs hcs, List.reverse_reverse]

theorem setValueStr_plain (s : Str) (h : plain s = true) : setValueStr s = s := by
  unfold setValueStr
  cases s with
  | nil => simp
  | cons c r =>
    have hc := plainChar_facts c ((List.all_eq_true.mp h) c (by simp))
    have h1 : c ≠ '"' := hc.2.2.1
    have h2 : c ≠ '\'' := hc.2.1
    simp [h1, h2]

/-- `allEntry` is the identity on plain strings (in particular on identifiers) -/
theorem allEntry_plain (s : Str) (h : plain s = true) : allEntry s = s := by
  unfold allEntry
  rw [setValueStr_plain s h]
  have hq : reprPy s = '\'' :: (s ++ ['\'']) := by
    have h1 : '\'' ∉ s := by simpa using plain_not_contains s h '\'' (Or.inl rfl)
    simp [reprPy, h1, reprBody_plain s h]
  rw [hq]
  -- rstrip("\n"): the last character is the quote
  have e1 : rstripChars ('\'' :: (s ++ ['\''])) ['\n'] = '\'' :: (s ++ ['\'']) := by
    unfold rstripChars
    simp [List.reverse_append]
  rw [e1]
  -- strip("'")
  have e2 : stripChars ('\'' :: (s ++ ['\''])) ['\''] = s := by
    unfold stripChars lstripChars
    have : List.dropWhile (fun x => ['\''].contains x) ('\'' :: (s ++ ['\''])) = List.dropWhile (fun x => ['\''].contains x) (s ++ ['\'']) := by
      simp [List.dropWhile]
    rw [this]
    cases s with
    | nil => simp [rstripChars, List.dropWhile]
    | cons c r =>
      have hc := plainChar_facts c ((List.all_eq_true.mp h) c (by simp))
      have h2 : c ≠ '\'' := hc.2.1
      have : List.dropWhile (fun x => ['\''].contains x) (c :: r ++ ['\'']) = c :: r ++ ['\''] := by
        simp [h2]
      rw [this]
      unfold rstripChars
      have : (c :: r ++ ['\'']).reverse = '\'' :: (c :: r).reverse := by simp
      rw [this]
      have hd : List.dropWhile (fun x => ['\''].contains x) ('\'' :: (c :: r).reverse) = List.dropWhile (fun x => ['\''].contains x) (c :: r).reverse := by
        simp [List.dropWhile]
      rw [hd, dropWhile_plain _ (plain_reverse _ h) ['\''] (by intro x hx; simp at hx; exact Or.inl hx)]
      simp
  rw [e2]
  unfold stripChars lstripChars
  rw [dropWhile_plain s h ['"'] (by intro x hx; simp at hx; exact Or.inr (Or.inl hx))]
  exact rstripChars_plain s h ['"'] (by intro x hx; simp at hx; exact Or.inr (Or.inl hx))

/-! ### the body re-ordering -/

theorem filter_partition_perm {α} (p : α → Bool) (l : List α) : (l.filter p ++ l.filter (fun x => !p x)).Perm l :=
  List.filter_append_perm p l

theorem hasDoc_head (body : List Stmt) (h : hasDoc body = true) : ∃ s rest, body = .strExpr s :: rest := by
  unfold hasDoc at h
  split at h
  · exact ⟨_, _, rfl⟩
  · cases h

/-- the re-ordering loses and duplicates nothing -/
theorem reorder_perm (body : List Stmt) : (reorder body).Perm body := by
  unfold reorder
  have hI : ((body.filter isImport).filter isFuture ++ (body.filter isImport).filter (fun s => !isFuture s)).Perm (body.filter isImport) :=
    filter_partition_perm _ _
  cases hd : hasDoc body with
  | false =>
    simp only [Bool.false_eq_true, if_false, List.nil_append]
    exact (List.Perm.append hI (List.Perm.refl _)).trans (filter_partition_perm isImport body)
  | true =>
    obtain ⟨s, rest, rfl⟩ := hasDoc_head body hd
    simp only [if_true, List.take_succ_cons, List.take_zero, List.drop_succ_cons, List.drop_zero]
    have hf : (Stmt.strExpr s :: rest).filter isImport = rest.filter isImport := by simp [List.filter, isImport]
    rw [hf] at hI ⊢
    have : (rest.filter isImport ++ rest.filter (fun x => !isImport x)).Perm rest := filter_partition_perm isImport rest
    have h2 := (List.Perm.append hI (List.Perm.refl (rest.filter (fun x => !isImport x)))).trans this
    simpa [List.append_assoc] using List.Perm.cons (Stmt.strExpr s) h2

/-- a final non-import, non-docstring statement stays last -/
theorem reorder_getLast (xs : List Stmt) (a : Stmt) (ha : isImport a = false) (hs : ∀ s, a ≠ .strExpr s) :
    (reorder (xs ++ [a])).getLast? = some a := by
  unfold reorder
  rw [List.getLast?_append]
  cases hd : hasDoc (xs ++ [a]) with
  | false =>
    simp only [Bool.false_eq_true, if_false, List.filter_append]
    simp [List.filter, ha]
  | true =>
    obtain ⟨s, rest, hb⟩ := hasDoc_head _ hd
    have : ∃ r', rest = r' ++ [a] := by
      cases xs with
      | nil =>
        simp only [List.nil_append, List.cons.injEq] at hb
        exact absurd hb.1 (hs s)
      | cons y ys =>
        simp only [List.cons_append, List.cons.injEq] at hb
        exact ⟨ys, hb.2.symm⟩
    obtain ⟨r', hr'⟩ := this
    simp only [if_true, hb, List.drop_succ_cons, List.drop_zero, hr']
    simp [List.filter_append, List.filter, ha]

theorem mem_reorder (body : List Stmt) (s : Stmt) : s ∈ reorder body ↔ s ∈ body := (reorder_perm body).mem_iff

/-! ### import inference -/

theorem mem_insertS (x y : Str) (l : List Str) : y ∈ insertS x l ↔ y = x ∨ y ∈ l := by
  induction l with
  | nil => simp [insertS]
  | cons z zs ih =>
    unfold insertS
    split
    · simp
    · split
      · rename_i _ h; have : x = z := by simpa using h
        subst this; simp
      · simp [ih]; constructor
        · rintro (h | h | h) <;> simp [h]
        · rintro (h | h | h) <;> simp [h]

theorem mem_sortDedup (y : Str) (l : List Str) : y ∈ sortDedup l ↔ y ∈ l := by
  unfold sortDedup
  induction l with
  | nil => simp
  | cons x xs ih => simp [List.foldr, mem_insertS, ih]

theorem mem_insertImp (x y : Imp) (l : List Imp) : y ∈ insertImp x l ↔ y = x ∨ y ∈ l := by
  induction l with
  | nil => simp [insertImp]
  | cons z zs ih =>
    unfold insertImp
    split
    · simp [ih]; constructor
      · rintro (h | h | h) <;> simp [h]
      · rintro (h | h | h) <;> simp [h]
    · simp

theorem mem_sortImps (y : Imp) (l : List Imp) : y ∈ sortImps l ↔ y ∈ l := by
  unfold sortImps
  induction l with
  | nil => simp
  | cons x xs ih => simp [List.foldr, mem_insertImp, ih]

/-- coverage: some statement of `out` imports `n` (without alias) from `m` -/
def Covers (out : List Imp) (m : Str) (p : Str × Option Str) : Prop := ∃ i ∈ out, i.module = m ∧ p ∈ i.names

theorem inferFromNames_covers (t : Tables) (c : List Str) (l : List Imp) (h : inferFromNames t c = some l)
    (n : Str) (hn : n ∈ c) (m : Str) (hm : symbolToImport t n = some m) : Covers l m (n, Option.none) := by
  unfold inferFromNames at h
  simp only at h
  split at h
  · cases h
  · simp only [Option.some.injEq] at h
    subst h
    have hp : (n, m) ∈ (sortDedup c).filterMap (fun s => (symbolToImport t s).map (fun m => (s, m))) := by
      rw [List.mem_filterMap]
      exact ⟨n, (mem_sortDedup n c).mpr hn, by simp [hm]⟩
    refine ⟨_, List.mem_map.mpr ⟨m, ?_, rfl⟩, rfl, ?_⟩
    · rw [mem_sortDedup, List.mem_map]
      exact ⟨(n, m), hp, rfl⟩
    · simp only [List.mem_map, List.mem_filter]
      exact ⟨(n, m), ⟨hp, by simp⟩, rfl⟩

theorem chainAll_sub (t : Tables) (cs : List (List Str)) (L : List Imp) (h : chainAll t cs = .ok L) :
    ∀ c ∈ cs, ∃ l, inferFromNames t c = some l ∧ ∀ i ∈ l, i ∈ L := by
  induction cs generalizing L with
  | nil => intro c hc; cases hc
  | cons c0 rest ih =>
    unfold chainAll at h
    split at h
    · cases h
    · cases h
    · rename_i imps r he hr
      simp only [Except.ok.injEq] at h
      subst h
      intro c hc
      rcases List.mem_cons.mp hc with e | e
      · subst e; exact ⟨imps, he, fun i hi => List.mem_append_left _ hi⟩
      · obtain ⟨l, hl, hsub⟩ := ih r hr c e
        exact ⟨l, hl, fun i hi => List.mem_append_right _ (hsub i hi)⟩

theorem keepNew_spec (m : Str) (names : List (Str × Option Str)) (seen : List (Str × Str × Option Str)) :
    (∀ p ∈ names, (m, p.1, p.2) ∈ seen ∨ p ∈ (keepNew m names seen).1) ∧
    (∀ x ∈ (keepNew m names seen).2, x ∈ seen ∨ ∃ p ∈ (keepNew m names seen).1, x = (m, p.1, p.2)) := by
  induction names generalizing seen with
  | nil => simp [keepNew]
  | cons p rest ih =>
    obtain ⟨n, a⟩ := p
    unfold keepNew
    split
    · rename_i hs
      have hs' : (m, n, a) ∈ seen := by simpa using hs
      obtain ⟨h1, h2⟩ := ih seen
      refine ⟨?_, h2⟩
      intro p hp
      rcases List.mem_cons.mp hp with e | e
      · subst e; exact Or.inl hs'
      · exact h1 p e
    · obtain ⟨h1, h2⟩ := ih ((m, n, a) :: seen)
      simp only
      refine ⟨?_, ?_⟩
      · intro p hp
        rcases List.mem_cons.mp hp with e | e
        · subst e; exact Or.inr (by simp)
        · rcases h1 p e with h | h
          · rcases List.mem_cons.mp h with e2 | e2
            · right
              have : p = (n, a) := by
                cases p; simp only [Prod.mk.injEq] at e2; simp [e2.2.1, e2.2.2]
              simp [this]
            · exact Or.inl e2
          · exact Or.inr (List.mem_cons_of_mem _ h)
      · intro x hx
        rcases h2 x hx with h | ⟨p, hp, e⟩
        · rcases List.mem_cons.mp h with e2 | e2
          · exact Or.inr ⟨(n, a), by simp, e2⟩
          · exact Or.inl e2
        · exact Or.inr ⟨p, List.mem_cons_of_mem _ hp, e⟩

theorem optimiseGo_covers (l : List Imp) (seen : List (Str × Str × Option Str)) :
    ∀ i ∈ l, ∀ p ∈ i.names, (i.module, p.1, p.2) ∈ seen ∨ Covers (optimiseGo l seen) i.module p := by
  induction l generalizing seen with
  | nil => intro i hi; cases hi
  | cons i0 rest ih =>
    intro i hi p hp
    obtain ⟨k1, k2⟩ := keepNew_spec i0.module i0.names seen
    unfold optimiseGo
    simp only
    rcases List.mem_cons.mp hi with e | e
    · subst e
      rcases k1 p hp with h | h
      · exact Or.inl h
      · right
        have hne : (keepNew i.module i.names seen).1.isEmpty = false := by
          cases hk : (keepNew i.module i.names seen).1 with
          | nil => rw [hk] at h; cases h
          | cons _ _ => rfl
        rw [if_neg (by simp [hne])]
        exact ⟨_, List.mem_cons_self, rfl, h⟩
    · rcases ih (keepNew i0.module i0.names seen).2 i e p hp with h | ⟨j, hj, hjm, hjp⟩
      · rcases k2 _ h with h' | ⟨q, hq, eq⟩
        · exact Or.inl h'
        · right
          have hne : (keepNew i0.module i0.names seen).1.isEmpty = false := by
            cases hk : (keepNew i0.module i0.names seen).1 with
            | nil => rw [hk] at hq; cases hq
            | cons _ _ => rfl
          rw [if_neg (by simp [hne])]
          simp only [Prod.mk.injEq] at eq
          refine ⟨_, List.mem_cons_self, eq.1.symm, ?_⟩
          have : p = q := by cases p; cases q; simp_all
          simpa [this] using hq
      · right
        split
        · exact ⟨j, hj, hjm, hjp⟩
        · exact ⟨j, List.mem_cons_of_mem _ hj, hjm, hjp⟩

theorem optimise_covers (l : List Imp) (i : Imp) (hi : i ∈ l) (p : Str × Option Str) (hp : p ∈ i.names) :
    Covers (optimise l) i.module p := by
  unfold optimise
  rcases optimiseGo_covers (sortImps l) [] i ((mem_sortImps i l).mpr hi) p hp with h | h
  · cases h
  · exact h

theorem chainAll_error (t : Tables) (cs : List (List Str)) (e : InferErr) (h : chainAll t cs = .error e) : e = .noneNotIterable := by
  induction cs with
  | nil => simp [chainAll] at h
  | cons c rest ih =>
    unfold chainAll at h
    split at h
    · rename_i e' he; simp only [Except.error.injEq] at h; subst h; exact ih he
    · simp only [Except.error.injEq] at h; exact h.symm
    · cases h

theorem chainAll_none (t : Tables) (cs : List (List Str)) (c : List Str) (hc : c ∈ cs) (hn : inferFromNames t c = Option.none) :
    chainAll t cs = .error .noneNotIterable := by
  cases h : chainAll t cs with
  | error e => rw [chainAll_error t cs e h]
  | ok L =>
    obtain ⟨l, hl, _⟩ := chainAll_sub t cs L h c hc
    rw [hn] at hl; cases hl

theorem collectAll_spec (syms : List Stmt) (cs : List (List Str)) (h : collectAll syms = .ok cs) :
    ∀ s ∈ syms, ∃ c ∈ cs, collect s = .ok c := by
  induction syms generalizing cs with
  | nil => intro s hs; cases hs
  | cons s0 rest ih =>
    unfold collectAll at h
    split at h
    · cases h
    · rename_i c hc
      cases hr : collectAll rest with
      | error e => rw [hr] at h; cases h
      | ok cr =>
        rw [hr] at h
        simp only [Except.map, Except.ok.injEq] at h
        subst h
        intro s hs
        rcases List.mem_cons.mp hs with e | e
        · subst e; exact ⟨c, by simp, hc⟩
        · obtain ⟨c', hc', hcc⟩ := ih cr hr s e
          exact ⟨c', List.mem_cons_of_mem _ hc', hcc⟩

theorem collect_walk (s : Stmt) (c : List Str) (h : collect s = .ok c) : ∀ n ∈ walkNames s, n ∈ c := by
  unfold collect at h
  split at h
  · cases h
  · split at h
    · cases h
    · simp only [Except.ok.injEq] at h
      subst h
      intro n hn
      exact List.mem_append_right _ hn

theorem headerImports_ok (f : List Stmt) (inf : List Imp) (hdr : List Stmt) (h : headerImports f inf = .ok hdr) :
    hdr = f ++ inf.map impStmt := by
  unfold headerImports at h
  split at h
  · rename_i e; simp only [Except.ok.injEq] at h; rw [e, ← h]
  · rename_i e; simp only [Except.ok.injEq] at h; rw [e, ← h]
  · cases h

/-! ### the entry step and the assembly, as characterisations -/

theorem genEntry_ok_iff (W : World) (cfg : Cfg) (e : Entry) (s : Stmt) (a : Str) :
    genEntry W cfg e = .ok (s, a) ↔
    fmt cfg.tpl e.name = .ok a ∧ ∃ pn irn kw, parserFor cfg.parse e.node = .ok pn ∧ W.parse pn e = .ok irn ∧
      getEmitKwarg cfg.emit cfg.tpl e.name = .ok kw ∧ callCheck cfg.emit kw = .ok () ∧ W.emit cfg.emit kw e = .ok s := by
  unfold genEntry
  simp only [bind, Except.bind, pure, Except.pure]
  cases h1 : fmt cfg.tpl e.name with
  | error _ => simp
  | ok a' =>
    cases h2 : parserFor cfg.parse e.node with
    | error _ => simp
    | ok pn =>
      cases h3 : W.parse pn e with
      | error _ => simp [h3]
      | ok irn =>
        cases h4 : getEmitKwarg cfg.emit cfg.tpl e.name with
        | error _ => simp [h3]
        | ok kw =>
          cases h5 : callCheck cfg.emit kw with
          | error _ => simp [h3, h5]
          | ok u =>
            cases h6 : W.emit cfg.emit kw e with
            | error _ => simp [h3, h5, h6]
            | ok s' => simp [h3, h5, h6]; exact And.comm

/-- the error of the entry step once template, parser lookup and parser have succeeded -/
theorem genEntry_after_parse (W : World) (cfg : Cfg) (e : Entry) (a : Str) (pn : ParserName) (irn : Str)
    (h1 : fmt cfg.tpl e.name = .ok a) (h2 : parserFor cfg.parse e.node = .ok pn) (h3 : W.parse pn e = .ok irn) :
    genEntry W cfg e =
      (match getEmitKwarg cfg.emit cfg.tpl e.name with
       | .error err => .error err
       | .ok kw => match callCheck cfg.emit kw with
                   | .error err => .error err
                   | .ok _ => match W.emit cfg.emit kw e with
                              | .error err => .error err
                              | .ok s => .ok (s, a)) := by
  unfold genEntry
  simp only [bind, Except.bind, pure, Except.pure, h1, h2, h3]
  cases getEmitKwarg cfg.emit cfg.tpl e.name with
  | error _ => rfl
  | ok kw =>
    simp only
    cases callCheck cfg.emit kw with
    | error _ => rfl
    | ok _ => simp only; cases W.emit cfg.emit kw e <;> rfl

theorem getEmitKwarg_eq (emit : EmitKind) (tpl name : Str) :
    getEmitKwarg emit tpl name =
      (match (if name == inferName then (.ok Option.none : Except Err (Option Str)) else (fmt tpl name).map (fun s => some (ensureValid s))) with
       | .error err => .error err
       | .ok nm => match kwargTable emit with
                   | Option.none => .error .keyError
                   | some ks => .ok ⟨ks, nm⟩) := by
  unfold getEmitKwarg
  simp only [bind, Except.bind, pure, Except.pure]
  split
  · cases kwargTable emit <;> rfl
  · cases (Except.map (fun s => some (ensureValid s)) (fmt tpl name)) with
    | error _ => rfl
    | ok v => cases kwargTable emit <;> rfl

theorem assemble_ok (cfg : Cfg) (syms : List Stmt) (all : List Str) (body : List Stmt) (h : assemble cfg syms all = .ok body) :
    ∃ inf hdr pre, inferStep cfg syms = .ok inf ∧ headerImports (cfg.fileImports.getD []) inf = .ok hdr ∧
      prependStep cfg hdr = .ok pre ∧ badNames syms = false ∧
      body = reorder (pre ++ hdr ++ syms ++ [allStmt (all.map allEntry)]) := by
  unfold assemble at h
  cases h1 : inferStep cfg syms with
  | error _ => simp [h1] at h
  | ok inf =>
    cases h2 : headerImports (cfg.fileImports.getD []) inf with
    | error _ => simp [h1, h2] at h
    | ok hdr =>
      cases h3 : prependStep cfg hdr with
      | error _ => simp [h1, h2, h3] at h
      | ok pre =>
        cases h4 : badNames syms with
        | true => simp [h1, h2, h3, h4] at h
        | false =>
          simp only [h1, h2, h3, h4, Bool.false_eq_true, if_false, Except.ok.injEq] at h
          exact ⟨inf, hdr, pre, by first | exact h1 | rfl, by first | exact h2 | rfl, by first | exact h3 | rfl, by first | exact h4 | rfl, h.symm⟩

end GenModule
