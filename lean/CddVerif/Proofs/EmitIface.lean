import CddVerif.Model.EmitIface
import CddVerif.Model.EmitIfaceSpec
/-!
# Lemmas for C04: closed forms of the emitters' decisions on the executable domain
-/
namespace EmitIface
open Py

/-! ## `mapE` -/

theorem mapE_ok {α β} (f : α → Except String β) (g : α → β) :
    ∀ (l : List α), (∀ a ∈ l, f a = .ok (g a)) → mapE f l = .ok (l.map g)
  | [], _ => rfl
  | a :: as, h => by
    have h1 : f a = .ok (g a) := h a (List.mem_cons_self ..)
    have h2 : mapE f as = .ok (as.map g) := mapE_ok f g as (fun x hx => h x (List.mem_cons_of_mem _ hx))
    simp [mapE, h1, h2]

/-! ## `ast.walk` on the shapes of the domain -/

def TExpr.isLeaf : TExpr → Bool
  | .name _ => true | .const _ => true | _ => false

theorem leaf_children {x : TExpr} (h : x.isLeaf = true) : x.children = [] := by
  cases x <;> simp_all [TExpr.isLeaf, TExpr.children]

theorem leaf_size {x : TExpr} (h : x.isLeaf = true) : x.size = 1 := by
  cases x <;> simp_all [TExpr.isLeaf, TExpr.size]

theorem sizeList_leaves : ∀ (es : List TExpr), es.all TExpr.isLeaf = true → sizeList es = es.length
  | [], _ => rfl
  | e :: es, h => by
    simp only [List.all_cons, Bool.and_eq_true] at h
    simp [sizeList, leaf_size h.1, sizeList_leaves es h.2]; omega

theorem walkAux_leaves : ∀ (q : List TExpr) (n : Nat), q.all TExpr.isLeaf = true → q.length ≤ n → walkAux n q = q
  | [], n, _, _ => by cases n <;> rfl
  | x :: q, 0, _, hn => by simp at hn
  | x :: q, n + 1, h, hn => by
    simp only [List.all_cons, Bool.and_eq_true] at h
    simp only [walkAux, leaf_children h.1, List.append_nil]
    rw [walkAux_leaves q n h.2 (by simpa using hn)]

/-- `Head[e₁, …, eₙ]` with leaf elements -/
theorem walk_sub_tuple (a : Str) (es : List TExpr) (h : es.all TExpr.isLeaf = true) :
    walk (.sub (.name a) (.tuple es)) = .sub (.name a) (.tuple es) :: .name a :: .tuple es :: es := by
  have hs := sizeList_leaves es h
  unfold walk
  have : (TExpr.sub (.name a) (.tuple es)).size = es.length + 2 + 1 := by simp [TExpr.size, hs]; omega
  rw [this]
  simp only [walkAux, List.nil_append, TExpr.children, List.append_nil]
  rw [walkAux_leaves es _ h (Nat.le_refl _)]

/-- `Optional[Head[e₁, …, eₙ]]` with leaf elements -/
theorem walk_opt_sub_tuple (o a : Str) (es : List TExpr) (h : es.all TExpr.isLeaf = true) :
    walk (.sub (.name o) (.sub (.name a) (.tuple es))) =
      .sub (.name o) (.sub (.name a) (.tuple es)) :: .name o :: .sub (.name a) (.tuple es) :: .name a :: .tuple es :: es := by
  have hs := sizeList_leaves es h
  unfold walk
  have : (TExpr.sub (.name o) (.sub (.name a) (.tuple es))).size = es.length + 4 + 1 := by simp [TExpr.size, hs]; omega
  rw [this]
  simp only [walkAux, List.nil_append, TExpr.children, List.append_nil]
  rw [walkAux_leaves es _ h (Nat.le_refl _)]

theorem names_leaves (ss : List Scalar) : (ss.map (fun x => TExpr.name x.id)).all TExpr.isLeaf = true := by
  induction ss with
  | nil => rfl
  | cons a t ih => simp [TExpr.isLeaf, ih]

theorem consts_leaves (ms : List LitM) : (ms.map (fun x => TExpr.const x.const)).all TExpr.isLeaf = true := by
  induction ms with
  | nil => rfl
  | cons a t ih => simp [TExpr.isLeaf, ih]

/-! ## scalar names and folds over leaf lists -/
theorem id_eq_str (s : Scalar) : (s.id == sStr) = (s == .str) := by cases s <;> rfl
theorem parseNode_scalar (st : RSt) (s : Scalar) : parseNode st (.name s.id) = { st with typ := some s.id } := by
  cases s <;> rfl
theorem parseNode_const (st : RSt) (c : Const) : parseNode st (.const c) = st := rfl
def lastScalar : Scalar → List Scalar → Scalar
  | a, [] => a
  | _, b :: r => lastScalar b r
theorem foldl_names (st : RSt) (a : Scalar) (rest : List Scalar) :
    ((a :: rest).map (fun x => TExpr.name x.id)).foldl parseNode st = { st with typ := some (lastScalar a rest).id } := by
  induction rest generalizing st a with
  | nil => simp [parseNode_scalar, lastScalar]
  | cons b r ih =>
    have := ih { st with typ := some a.id } b
    simp only [List.map_cons, List.foldl_cons, parseNode_scalar] at this ⊢
    rw [this]; rfl
theorem foldl_consts (st : RSt) (ms : List LitM) :
    (ms.map (fun x => TExpr.const x.const)).foldl parseNode st = st := by
  induction ms with
  | nil => rfl
  | cons a t ih => simp [parseNode_const, ih]
theorem filterMap_names (ss : List Scalar) : (ss.map (fun x => TExpr.name x.id)).filterMap TExpr.constVal? = [] := by
  induction ss with
  | nil => rfl
  | cons a t ih => simpa [TExpr.constVal?] using ih
theorem filterMap_consts (ms : List LitM) :
    (ms.map (fun x => TExpr.const x.const)).filterMap TExpr.constVal? = ms.map LitM.const := by
  induction ms with
  | nil => rfl
  | cons a t ih => simpa [TExpr.constVal?] using ih
theorem getValueC_lit (ms : List LitM) : (ms.map LitM.const).map getValueC = ms.map LitM.const := by
  induction ms with
  | nil => rfl
  | cons a t ih => cases a <;> simpa [getValueC, LitM.const] using ih

/-! ## closed form of the `_resolve_arg` walk -/
def DTyp.resScalar : DTyp → Scalar
  | .scalar s => s | .optional s => s | .union a rest => lastScalar a rest | .list s => s
  | .literal _ _ => .str | .optLiteral _ _ => .str | .annotated s _ => s | .tupleEllipsis s => s | .callableEllipsis s => s
def litChoices (m : LitM) (ms : List LitM) : Option (List Const) :=
  match ms with
  | [] => none
  | _ => some ((m :: ms).map LitM.const)
def DTyp.resChoices : DTyp → Option (List Const)
  | .literal m ms => litChoices m ms
  | .optLiteral m ms => litChoices m ms
  | _ => none

/-- the loop state after walking the type (non-scalar types) -/
def DTyp.resSt (t : DTyp) : RSt :=
  { req := if t.isOptional then some false else none
    action := if t.isList then some sAppend else none
    choices := t.resChoices
    typ := some t.resScalar.id }

theorem tuple_names_step (st : RSt) (a b : Scalar) (r : List Scalar) :
    parseNode st (.tuple ((a :: b :: r).map (fun x => TExpr.name x.id))) = st := by
  simp only [parseNode, filterMap_names]
  simp

theorem tuple_consts_step (st : RSt) (ms : List LitM) :
    parseNode st (.tuple (ms.map (fun x => TExpr.const x.const))) = { st with choices := some (ms.map LitM.const) } := by
  simp only [parseNode, filterMap_consts, getValueC_lit]
  simp

theorem walk_fold_dom (t : DTyp) (h : ∀ s, t ≠ .scalar s) : (walk t.toExpr).foldl parseNode {} = t.resSt := by
  cases t with
  | scalar s => exact absurd rfl (h s)
  | optional s => cases s <;> rfl
  | list s => cases s <;> rfl
  | annotated s note => cases s <;> rfl
  | tupleEllipsis s => cases s <;> rfl
  | callableEllipsis s => cases s <;> rfl
  | union a rest =>
    cases rest with
    | nil => cases a <;> rfl
    | cons b r =>
      simp only [DTyp.toExpr]
      rw [walk_sub_tuple _ _ (names_leaves _)]
      simp only [List.foldl_cons, tuple_names_step]
      rw [foldl_names]
      rfl
  | literal m ms =>
    cases ms with
    | nil => cases m <;> rfl
    | cons b r =>
      simp only [DTyp.toExpr, litSlice]
      rw [walk_sub_tuple _ _ (consts_leaves _)]
      simp only [List.foldl_cons, tuple_consts_step, foldl_consts]
      rfl
  | optLiteral m ms =>
    cases ms with
    | nil => cases m <;> rfl
    | cons b r =>
      simp only [DTyp.toExpr, litSlice]
      rw [walk_opt_sub_tuple _ _ _ (consts_leaves _)]
      simp only [List.foldl_cons, tuple_consts_step, foldl_consts]
      rfl

/-! ## `_resolve_arg` on the domain -/
theorem simpleName_dom (t : DTyp) : t.toExpr.simpleName = match t with | .scalar s => some s.id | _ => none := by
  cases t with
  | scalar s => cases s <;> rfl
  | union a rest => cases rest <;> rfl
  | _ => rfl

theorem isName_dict_dom (t : DTyp) : t.toExpr.isName sDict = false := by
  cases t with
  | scalar s => cases s <;> rfl
  | union a rest => cases rest <;> rfl
  | _ => rfl

theorem required_lower (s : Scalar) : requiredTyps.contains (lower s.id) = (s != .bool) := by cases s <;> rfl

/-- what `_resolve_arg` returns on a type of the domain -/
def DTyp.resolved (t : DTyp) (required0 : Bool) : Resolved :=
  { action := if t.isList then some sAppend else none
    choices := t.resChoices
    required := if t.isOptional then false else if t.resScalar == .bool then required0 else true
    typ := some t.resScalar.id }

/-- the tail of `_resolve_arg` after the walk -/
def finishResolve (st : RSt) (r0 : Bool) : Resolved :=
  let req : Option Bool :=
    if st.req.isNone && requiredTyps.contains (lower (st.typ.getD [])) then some true else st.req
  { action := st.action, choices := st.choices, required := req.getD r0, typ := st.typ }

theorem finish_resSt (t : DTyp) (r0 : Bool) : finishResolve t.resSt r0 = t.resolved r0 := by
  unfold finishResolve DTyp.resSt DTyp.resolved
  generalize t.resScalar = x
  generalize t.isOptional = o
  generalize t.isList = l
  generalize t.resChoices = c
  cases x <;> cases o <;> cases l <;> cases r0 <;> rfl

theorem resolveArg_dom (name : Str) (hk : endsWith name sKwargs = false) (t : DTyp) (r0 : Bool) :
    resolveArg name (some t.toExpr) r0 = t.resolved r0 := by
  by_cases hs : ∃ s, t = .scalar s
  · obtain ⟨s, rfl⟩ := hs
    cases s <;> cases r0 <;> rfl
  · have hw := walk_fold_dom t (fun s h => hs ⟨s, h⟩)
    have hsn : t.toExpr.simpleName = none := by
      rw [simpleName_dom]; cases t <;> first | rfl | exact absurd ⟨_, rfl⟩ hs
    rw [← finish_resSt, ← hw]
    unfold resolveArg finishResolve
    simp only [Option.getD_some, hsn, isName_dict_dom, hk, Bool.false_or, Bool.false_eq_true, if_false]

/-! ## `param2argparse_param` on the domain -/
theorem setValue_plain {v : Str} (h : plainStr v = true) : setValue (.str v) = .str v := by
  simp only [plainStr, Bool.and_eq_true, Bool.not_eq_true'] at h
  simp [setValue, h.2]

theorem setValue_lits : ∀ (ms : List LitM), ms.all LitM.plain = true → (ms.map LitM.const).map setValue = ms.map LitM.const
  | [], _ => rfl
  | m :: ms, h => by
    simp only [List.all_cons, Bool.and_eq_true] at h
    have ih := setValue_lits ms h.2
    cases m with
    | s v => simp only [List.map_cons, LitM.const, setValue_plain (by simpa [LitM.plain] using h.1), ih]
    | i v => simp only [List.map_cons, LitM.const, setValue, ih]

theorem resChoices_setValue (t : DTyp) (h : t.plain = true) : t.resChoices.map (·.map setValue) = t.resChoices := by
  cases t with
  | literal m ms => cases ms with
    | nil => rfl
    | cons b r => simp only [DTyp.resChoices, litChoices, Option.map_some]; rw [setValue_lits _ (by simpa [DTyp.plain] using h)]
  | optLiteral m ms => cases ms with
    | nil => rfl
    | cons b r => simp only [DTyp.resChoices, litChoices, Option.map_some]; rw [setValue_lits _ (by simpa [DTyp.plain] using h)]
  | _ => rfl

/-- the scalar whose name ends up in `type=` -/
def emittedScalar (p : DParam) : Scalar :=
  match p.default with
  | some (.int _) => .int | some (.float _) => .float | some (.bool _) => .bool | some (.str _) => .str
  | _ => p.typ.resScalar
/-- the `required=True` keyword is emitted -/
def emittedRequired (p : DParam) : Bool :=
  if p.default == some .none then false else (p.typ.resolved p.default.isSome).required
/-- the `add_argument` call for a parameter of the domain -/
def closedAdd (p : DParam) : AddArg :=
  { flag := '-' :: '-' :: p.name
    type := if emittedScalar p == .str && !p.typ.isList then none else some (emittedScalar p).id
    choices := p.typ.resChoices
    action := if p.typ.isList then some sAppend else none
    help := describedHelp p
    required := emittedRequired p
    default := describedDefault p }

theorem scalar_no_optional (s : Scalar) : contains s.id sOptional = false := by cases s <;> rfl
theorem scalar_not_keep (s : Scalar) : [sAny, sPickleLoads, sLoads].contains s.id = false := by cases s <;> rfl
theorem scalar_not_pickle (s : Scalar) : (some s.id == some sPickleLoads) = false := by cases s <;> rfl

theorem inferNone_dom (a : Option Str) (s : Scalar) : inferNone a (some s.id) = { action := a, default := none, typ := none } := by
  simp only [inferNone, scalar_no_optional, scalar_not_keep]; rfl

theorem WF_parts {p : DParam} (h : p.WF = true) :
    endsWith p.name sKwargs = false ∧ triggerFree p.doc = true ∧ p.typ.plain = true ∧
    (∀ d, p.default = some d → p.typ.admits d = true) := by
  simp only [DParam.WF, Bool.and_eq_true, Bool.not_eq_true'] at h
  refine ⟨h.1.1.1.1, h.1.1.2, h.1.2, ?_⟩
  intro d hd
  have := h.2
  rw [hd] at this
  exact this

theorem scalar_admits_str {s : Scalar} {v : Str} (h : s.admits (.str v) = true) : s = .str ∧ plainStr v = true := by
  simpa [Scalar.admits] using h

theorem lit_admits_str : ∀ (ms : List LitM) (v : Str), ms.all LitM.plain = true →
    (ms.any (·.admits (.str v))) = true → plainStr v = true
  | [], _, _, h => by simp at h
  | m :: ms, v, hp, h => by
    simp only [List.all_cons, Bool.and_eq_true] at hp
    simp only [List.any_cons, Bool.or_eq_true] at h
    rcases h with h | h
    · cases m with
      | s a => simp only [LitM.admits, beq_iff_eq] at h; subst h; simpa [LitM.plain] using hp.1
      | i a => simp [LitM.admits] at h
    · exact lit_admits_str ms v hp.2 h

theorem admits_str_plain (t : DTyp) (hpl : t.plain = true) (v : Str) (h : t.admits (.str v) = true) : plainStr v = true := by
  cases t with
  | scalar s => exact (scalar_admits_str h).2
  | optional s => simp only [DTyp.admits, Bool.or_eq_true] at h; rcases h with h | h; · simp at h
                  · exact (scalar_admits_str h).2
  | union a rest =>
    simp only [DTyp.admits, List.any_eq_true] at h
    obtain ⟨s, _, hs⟩ := h
    exact (scalar_admits_str hs).2
  | list s => simp [DTyp.admits] at h
  | literal m ms => exact lit_admits_str (m :: ms) v (by simpa [DTyp.plain] using hpl) (by simpa [DTyp.admits] using h)
  | optLiteral m ms =>
    simp only [DTyp.admits, Bool.or_eq_true] at h
    rcases h with h | h
    · simp at h
    · exact lit_admits_str (m :: ms) v (by simpa [DTyp.plain] using hpl) h
  | annotated s note => exact (scalar_admits_str h).2
  | tupleEllipsis s => simp [DTyp.admits] at h
  | callableEllipsis s => simp [DTyp.admits] at h

/-- `argparseFinish` on an abstract `_resolve_arg` result of the shape the domain produces -/
theorem finish_abs (name doc : Str) (l o : Bool) (x : Scalar) (c : Option (List Const)) (r0 : Bool)
    (d : Option DDefault) (hplain : ∀ v, d = some (.str v) → plainStr v = true)
    (hc : c.map (·.map setValue) = c) :
    argparseFinish name
      { action := if l then some sAppend else none, choices := c,
        required := if o then false else if x == .bool then r0 else true, typ := some x.id }
      (d.map DDefault.toDefault) doc none =
    { flag := '-' :: '-' :: name
      type := (let e : Scalar := match d with
                | some (.int _) => .int | some (.float _) => .float | some (.bool _) => .bool | some (.str _) => .str
                | _ => x
               if e == .str && !l then none else some e.id)
      choices := c
      action := if l then some sAppend else none
      help := if doc.isEmpty then none else some doc
      required := if d == some .none then false else (if o then false else if x == .bool then r0 else true)
      default := match d with | none => none | some .none => none | some d => some d.val } := by
  unfold argparseFinish
  simp only [hc]
  cases d with
  | none =>
    simp only [Option.map_none, infer, inferNone_dom]
    cases l <;> cases x <;> cases o <;> cases r0 <;> rfl
  | some d =>
    cases d with
    | str v =>
      have hsv := setValue_plain (hplain v rfl)
      simp only [Option.map_some, DDefault.toDefault, infer, inferConst, Default.raw, hsv, DDefault.val]
      cases l <;> cases x <;> cases o <;> cases r0 <;> rfl
    | none =>
      simp only [Option.map_some, DDefault.toDefault, infer, inferNone_dom]
      cases l <;> cases x <;> cases o <;> cases r0 <;> rfl
    | int i => cases l <;> cases x <;> cases o <;> cases r0 <;> rfl
    | float r => cases l <;> cases x <;> cases o <;> cases r0 <;> rfl
    | bool b => cases l <;> cases x <;> cases o <;> cases r0 <;> rfl

theorem argparseCore_dom (p : DParam) (h : p.WF = true) : argparseCore p.toParam p.doc none = closedAdd p := by
  obtain ⟨hk, htf, hpl, hadm⟩ := WF_parts h
  obtain ⟨name, typ, doc, dflt⟩ := p
  simp only at hk htf hpl hadm
  unfold argparseCore
  simp only [DParam.toParam, resolveArg_dom _ hk, DTyp.resolved]
  rw [show (dflt.map DDefault.toDefault).isSome = dflt.isSome by cases dflt <;> rfl]
  rw [finish_abs name doc typ.isList typ.isOptional typ.resScalar typ.resChoices dflt.isSome dflt
      (fun v hv => admits_str_plain typ hpl v (hadm _ hv)) (resChoices_setValue _ hpl)]
  simp only [closedAdd, emittedScalar, emittedRequired, describedDefault, describedHelp, DTyp.resolved]
  cases dflt with
  | none => rfl
  | some d => cases d <;> rfl

theorem param2argparse_dom (p : DParam) (h : p.WF = true) : param2argparse p.toParam = .ok (closedAdd p) := by
  have htf := (WF_parts h).2.1
  have hc := argparseCore_dom p h
  unfold param2argparse
  simp only [DParam.toParam] at hc ⊢
  simp only [extractDefault, htf, if_true, hc]
/-! ## `param2ast` on the domain -/
theorem retype_dom (d : Option Const) (t : DTyp) : retype d (some t.toExpr) = .ok (some t.toExpr) := by
  cases d with
  | none => cases t <;> rfl
  | some c =>
    cases t with
    | scalar s => cases s <;> cases c <;> rfl
    | union a rest => cases rest <;> cases c <;> rfl
    | _ => cases c <;> rfl

def DTyp.hasStr : DTyp → Bool
  | .scalar s => s == .str | .optional s => s == .str | .union a rest => (a :: rest).any (· == .str)
  | .list s => s == .str | .literal m ms => (m :: ms).any LitM.isStr | .optLiteral m ms => (m :: ms).any LitM.isStr
  | .annotated _ _ => true | .tupleEllipsis s => s == .str | .callableEllipsis s => s == .str

def nqPred (n : TExpr) : Bool := match n with
  | .const (.str _) => true
  | .name i => i == sStr
  | _ => false

theorem needsQuoting_sub (v s : TExpr) : needsQuoting (.sub v s) = (walk (.sub v s)).any nqPred := rfl

theorem any_names (ss : List Scalar) : (ss.map (fun x => TExpr.name x.id)).any nqPred = ss.any (· == .str) := by
  induction ss with
  | nil => rfl
  | cons a t ih => simp only [List.map_cons, List.any_cons, ih, nqPred, id_eq_str]

theorem any_consts (ms : List LitM) : (ms.map (fun x => TExpr.const x.const)).any nqPred = ms.any LitM.isStr := by
  induction ms with
  | nil => rfl
  | cons a t ih =>
    have : nqPred (.const a.const) = a.isStr := by cases a <;> rfl
    simp only [List.map_cons, List.any_cons, ih, this]

theorem needsQuoting_dom (t : DTyp) : needsQuoting t.toExpr = t.hasStr := by
  cases t with
  | scalar s => cases s <;> rfl
  | optional s => cases s <;> rfl
  | list s => cases s <;> rfl
  | annotated s note => cases s <;> rfl
  | tupleEllipsis s => cases s <;> rfl
  | callableEllipsis s => cases s <;> rfl
  | union a rest =>
    cases rest with
    | nil => cases a <;> rfl
    | cons b r =>
      simp only [DTyp.toExpr, needsQuoting_sub]
      rw [walk_sub_tuple _ _ (names_leaves _)]
      simp only [List.any_cons, any_names, DTyp.hasStr]
      rfl
  | literal m ms =>
    cases ms with
    | nil => cases m <;> rfl
    | cons b r =>
      simp only [DTyp.toExpr, litSlice, needsQuoting_sub]
      rw [walk_sub_tuple _ _ (consts_leaves _)]
      simp only [List.any_cons, any_consts, DTyp.hasStr]
      rfl
  | optLiteral m ms =>
    cases ms with
    | nil => cases m <;> rfl
    | cons b r =>
      simp only [DTyp.toExpr, litSlice, needsQuoting_sub]
      rw [walk_opt_sub_tuple _ _ _ (consts_leaves _)]
      simp only [List.any_cons, any_consts, DTyp.hasStr]
      rfl

/-! ### values -/
theorem plain_ne {v : Str} (h : plainStr v = true) : v ≠ noneStr := by
  simp only [plainStr, Bool.and_eq_true, Bool.not_eq_true'] at h
  intro hv; subst hv; exact absurd h.1 (by decide)

theorem plain_ne_noneStr {v : Str} (h : plainStr v = true) : (Const.str v == Const.str noneStr) = false :=
  beq_false_of_ne (fun hc => plain_ne h (by injection hc))

theorem getDefaultVal_plain (d : DDefault) (hp : ∀ v, d = .str v → plainStr v = true) :
    getDefaultVal (some d.toDefault.raw) = some (.c d.val) := by
  cases d with
  | str v =>
    simp only [getDefaultVal, DDefault.toDefault, Default.raw, DDefault.val, Option.map_some, plain_ne_noneStr (hp v rfl),
      setValue_plain (hp v rfl), Bool.false_eq_true, if_false]
  | none => rfl
  | int i => rfl
  | float r => rfl
  | bool b => rfl

theorem sameQuoteEnds_wrap (v : Str) : sameQuoteEnds ('"' :: v ++ ['"']) = true := by
  have : ('"' :: v ++ ['"']).getLast? = some '"' := by
    exact List.getLast?_concat ..
  unfold sameQuoteEnds
  rw [this]
  rfl

theorem quoted_roundtrip {v : Str} (h : plainStr v = true) :
    getDefaultVal (quotedDefault (some (.str v))) = some (.c (.str v)) := by
  have hne := plain_ne_noneStr h
  have hsv := setValue_plain h
  simp only [quotedDefault, hne, Bool.false_eq_true, if_false, quoteC]
  by_cases h1 : (v.length == 0 || (decide (v.length > 1) && sameQuoteEnds v)) = true
  · simp only [h1, if_true, getDefaultVal, Option.map_some, hne, Bool.false_eq_true, if_false, hsv]
  · simp only [h1, getDefaultVal, Option.map_some]
    have hlen : v.length ≠ 0 := by
      intro h0; apply h1; simp [h0]
    have hw : quoteWrapped ('"' :: v ++ ['"']) = true := by
      simp only [quoteWrapped, sameQuoteEnds_wrap, Bool.and_true, decide_eq_true_eq]
      simp; omega
    have hne2 : (Const.str ('"' :: v ++ ['"']) == Const.str noneStr) = false := by
      apply beq_false_of_ne
      intro hc
      injection hc with hc
      have := congrArg List.head? hc
      simp [noneStr, ticks] at this
    simp only [hne2, Bool.false_eq_true, if_false, setValue, hw, if_true]
    simp

theorem quotedDefault_plain (d : DDefault) (hp : ∀ v, d = .str v → plainStr v = true) :
    getDefaultVal (quotedDefault (some d.toDefault.raw)) = some (.c d.val) := by
  cases d with
  | str v => exact quoted_roundtrip (hp v rfl)
  | none => rfl
  | int i => rfl
  | float r => rfl
  | bool b => rfl

theorem scalar_admits_hasStr {s : Scalar} {v : Str} (h : s.admits (.str v) = true) : s = .str := (scalar_admits_str h).1

theorem lit_admits_isStr : ∀ (ms : List LitM) (v : Str), (ms.any (·.admits (.str v))) = true → ms.any LitM.isStr = true
  | [], _, h => by simp at h
  | m :: ms, v, h => by
    simp only [List.any_cons, Bool.or_eq_true] at h ⊢
    rcases h with h | h
    · cases m with
      | s a => left; rfl
      | i a => simp [LitM.admits] at h
    · right; exact lit_admits_isStr ms v h

theorem admits_str_hasStr (t : DTyp) (v : Str) (h : t.admits (.str v) = true) : t.hasStr = true := by
  cases t with
  | scalar s => simp [DTyp.hasStr, scalar_admits_hasStr h]
  | optional s =>
    simp only [DTyp.admits, Bool.or_eq_true] at h
    rcases h with h | h
    · simp at h
    · simp [DTyp.hasStr, scalar_admits_hasStr h]
  | union a rest =>
    simp only [DTyp.admits, List.any_eq_true] at h
    obtain ⟨s, hs, hs2⟩ := h
    simp only [DTyp.hasStr, List.any_eq_true]
    exact ⟨s, hs, by simp [scalar_admits_hasStr hs2]⟩
  | list s => simp [DTyp.admits] at h
  | literal m ms => exact lit_admits_isStr (m :: ms) v (by simpa [DTyp.admits] using h)
  | optLiteral m ms =>
    simp only [DTyp.admits, Bool.or_eq_true] at h
    rcases h with h | h
    · simp at h
    · exact lit_admits_isStr (m :: ms) v h
  | annotated s note => rfl
  | tupleEllipsis s => simp [DTyp.admits] at h
  | callableEllipsis s => simp [DTyp.admits] at h

theorem genericValue_dom (d : DDefault) (hns : ∀ v, d ≠ .str v) : genericValue (some d.toDefault) = .ok (some (.c d.val)) := by
  cases d with
  | str v => exact absurd rfl (hns v)
  | none => rfl
  | int i => rfl
  | float r => rfl
  | bool b => rfl

/-- **`param2ast` on the domain:** annotation = the described type, value = the described default (if any) -/
theorem param2ast_dom (name doc : Str) (t : DTyp) (d : Option DDefault) (hpl : t.plain = true)
    (hadm : ∀ x, d = some x → t.admits x = true) :
    param2ast { name := name, typ := some t.toExpr, doc := doc, default := d.map DDefault.toDefault } =
      .ok (.annAssign name t.toExpr (d.map (fun x => Val.c x.val))) := by
  have hplain : ∀ x v, d = some x → x = .str v → plainStr v = true :=
    fun x v hx hv => admits_str_plain t hpl v (by rw [← hv]; exact hadm x hx)
  unfold param2ast
  simp only [retype_dom]
  unfold param2astTyped
  simp only [needsQuoting_dom, simpleName_dom, isName_dict_dom]
  cases d with
  | none =>
    cases hq : t.hasStr
    · cases t <;> simp [genericValue, getDefaultVal]
    · simp [getDefaultVal, quotedDefault]
  | some x =>
    have hp := fun v hv => hplain x v rfl hv
    simp only [Option.map_some]
    cases hq : t.hasStr
    · have hns : ∀ v, x ≠ .str v := by
        intro v hv
        have := admits_str_hasStr t v (by rw [← hv]; exact hadm x rfl)
        rw [hq] at this; cases this
      simp only [Bool.false_eq_true, if_false, genericValue_dom x hns, getDefaultVal_plain x hp]
      cases t <;> simp
    · simp only [if_true, quotedDefault_plain x hp]
/-! ## function signature on the domain -/
theorem zip_map_map {α β γ} (f : α → β) (g : α → γ) : ∀ l : List α, (l.map f).zip (l.map g) = l.map (fun x => (f x, g x))
  | [] => rfl
  | a :: l => by simp [zip_map_map f g l]

/-- no string default is the word `None` (which `function` turns into the constant `None`) -/
def DParam.noNoneWord (p : DParam) : Bool := p.default != some (.str sNone)

theorem funcDefault_dom (p : DParam) (h : p.WF = true) (hn : p.noNoneWord = true) :
    funcDefault (p.default.map DDefault.toDefault) = .c ((p.default.getD .none).val) := by
  obtain ⟨_, _, hpl, hadm⟩ := WF_parts h
  cases hd : p.default with
  | none => rfl
  | some d =>
    cases d with
    | str v =>
      have hp := admits_str_plain p.typ hpl v (hadm _ hd)
      have h1 : (Const.str v == Const.str sNone) = false := by
        apply beq_false_of_ne; intro hc; injection hc with hc
        simp [DParam.noNoneWord, hd, hc] at hn
      simp only [Option.map_some, DDefault.toDefault, funcDefault, Default.raw, h1, plain_ne_noneStr hp, Bool.or_self,
        Bool.false_eq_true, if_false, setValue_plain hp, Option.getD_some, DDefault.val]
    | none => rfl
    | int i => rfl
    | float r => rfl
    | bool b => rfl

/-- every absent default replaced by the described default `None` -/
def fillNone (ir : DIR) : DIR :=
  { ir with params := ir.params.map (fun p => { p with default := some (p.default.getD .none) }) }

theorem filter_kwargs (ps : List DParam) (h : ps.all DParam.WF = true) :
    (ps.map DParam.toParam).filter (fun p => !endsWith p.name sKwargs) = ps.map DParam.toParam := by
  apply List.filter_eq_self.mpr
  intro q hq
  obtain ⟨p, hp, rfl⟩ := List.mem_map.mp hq
  have := (WF_parts (List.all_eq_true.mp h p hp)).1
  simp [DParam.toParam, this]

theorem find_kwargs (ps : List DParam) (h : ps.all DParam.WF = true) :
    (ps.map DParam.toParam).find? (fun p => endsWith p.name sKwargs) = none := by
  apply List.find?_eq_none.mpr
  intro q hq
  obtain ⟨p, hp, rfl⟩ := List.mem_map.mp hq
  have := (WF_parts (List.all_eq_true.mp h p hp)).1
  simp [DParam.toParam, this]

theorem signature_dom (cfg : FuncCfg) (ir : DIR) (h : ir.WF = true) (hn : ir.params.all DParam.noNoneWord = true) :
    signature (emitFunction cfg ir.toIR) = .ok (describeSig cfg (fillNone ir)) := by
  have hwf : ir.params.all DParam.WF = true := by
    simp only [DIR.WF, Bool.and_eq_true] at h; exact h.1
  have hdefs : (ir.params.map DParam.toParam).map (fun p => funcDefault p.default) =
      ir.params.map (fun p => Val.c ((p.default.getD .none).val)) := by
    rw [List.map_map]
    apply List.map_congr_left
    intro p hp
    exact funcDefault_dom p (List.all_eq_true.mp hwf p hp) (List.all_eq_true.mp hn p hp)
  unfold emitFunction signature
  simp only [DIR.toIR, filter_kwargs _ hwf, find_kwargs _ hwf, hdefs, Option.map_none]
  obtain ⟨ta, kw, ft⟩ := cfg
  have hret : (Option.map (fun r : DTyp × Str => ({ name := sReturnType, typ := some r.1.toExpr, doc := r.2, default := none } : Param)) ir.returns).bind (·.typ)
      = ir.returns.map (·.1.toExpr) := by cases ir.returns <;> rfl
  cases kw <;> cases ft with
  | none => simp [describeSig, fillNone, zip_map_map, DParam.toParam, List.map_map, Function.comp_def, hret]
  | some f =>
    by_cases hf : f = sStatic <;>
      simp [describeSig, fillNone, zip_map_map, DParam.toParam, List.map_map, Function.comp_def, hret, hf]

theorem fillNone_id (ir : DIR) (h : ∀ p ∈ ir.params, p.default.isSome = true) : fillNone ir = ir := by
  obtain ⟨n, d, ps, r⟩ := ir
  simp only [fillNone, DIR.mk.injEq, true_and, and_true]
  conv => rhs; rw [← List.map_id ps]
  apply List.map_congr_left
  intro p hp
  have := h p hp
  obtain ⟨pn, pt, pd, pdef⟩ := p
  cases pdef with
  | none => simp at this
  | some x => rfl
/-! ## list level -/
theorem mapE_map_ok {α β γ} (f : β → Except String γ) (h : α → β) (g : α → γ) :
    ∀ (l : List α), (∀ a ∈ l, f (h a) = .ok (g a)) → mapE f (l.map h) = .ok (l.map g)
  | [], _ => rfl
  | a :: as, H => by
    have h1 := H a (List.mem_cons_self ..)
    have h2 := mapE_map_ok f h g as (fun x hx => H x (List.mem_cons_of_mem _ hx))
    simp [mapE, h1, h2]

theorem filterMap_congr' {α β} (f g : α → Option β) : ∀ (l : List α), (∀ a ∈ l, f a = g a) → l.filterMap f = l.filterMap g
  | [], _ => rfl
  | a :: as, H => by
    simp only [List.filterMap_cons, H a (List.mem_cons_self ..),
      filterMap_congr' f g as (fun x hx => H x (List.mem_cons_of_mem _ hx))]

theorem mapE_append_ok {α β} (f : α → Except String β) (l1 l2 : List α) (r1 r2 : List β)
    (h1 : mapE f l1 = .ok r1) (h2 : mapE f l2 = .ok r2) : mapE f (l1 ++ l2) = .ok (r1 ++ r2) := by
  induction l1 generalizing r1 with
  | nil => simp [mapE] at h1; subst h1; simpa using h2
  | cons a as ih =>
    simp only [List.cons_append, mapE] at h1 ⊢
    cases hfa : f a with
    | error e => simp [hfa] at h1
    | ok b =>
      simp only [hfa] at h1 ⊢
      cases hm : mapE f as with
      | error e => simp [hm] at h1
      | ok bs =>
        simp only [hm] at h1
        injection h1 with h1; subst h1
        simp [ih bs hm]

/-- the attribute statement of one described parameter -/
def attrStmt (p : DParam) : ClassStmt := .annAssign p.name p.typ.toExpr (p.default.map (fun x => Val.c x.val))

theorem emitClass_dom (bases : List Str) (ir : DIR) (h : ir.WF = true) :
    emitClass bases ir.toIR = .ok { name := ir.name, bases, body := ir.params.map attrStmt ++
      (match ir.returns with | some r => [.annAssign sReturnType r.1.toExpr none] | none => []) } := by
  have hwf : ir.params.all DParam.WF = true := by
    simp only [DIR.WF, Bool.and_eq_true] at h; exact h.1
  have hps : mapE param2ast (ir.params.map DParam.toParam) = .ok (ir.params.map attrStmt) := by
    apply mapE_map_ok
    intro p hp
    have hw := List.all_eq_true.mp hwf p hp
    obtain ⟨_, _, hpl, hadm⟩ := WF_parts hw
    exact param2ast_dom p.name p.doc p.typ p.default hpl hadm
  obtain ⟨n, d, ps, ret⟩ := ir
  cases ret with
  | none =>
    simp only [emitClass, DIR.toIR, Option.map_none] at hps ⊢
    simp [hps, bind, Except.bind, pure, Except.pure]
  | some r =>
    have hrp : r.1.plain = true := by
      simp only [DIR.WF, Bool.and_eq_true] at h; exact h.2
    have hnone : ((ps.map DParam.toParam).any (·.name == sReturnType)) = false := by
      rw [List.any_eq_false]
      intro q hq
      obtain ⟨p, hp, rfl⟩ := List.mem_map.mp hq
      have hw := List.all_eq_true.mp hwf p hp
      simp only [DParam.WF, Bool.and_eq_true] at hw
      simpa [DParam.toParam] using hw.1.1.1.2
    have hr := param2ast_dom sReturnType r.2 r.1 none hrp (by intro x hx; cases hx)
    have hr1 : mapE param2ast [{ name := sReturnType, typ := some r.1.toExpr, doc := r.2, default := none }] =
        .ok [.annAssign sReturnType r.1.toExpr none] := by
      simp only [Option.map_none] at hr
      simp [mapE, hr]
    simp only [emitClass, DIR.toIR, Option.map_some, updateReturn, hnone, Bool.false_eq_true, if_false] at hps ⊢
    rw [mapE_append_ok _ _ _ _ _ hps hr1]
    rfl

theorem classAttrs_dom (bases : List Str) (ir : DIR) (h : ir.WF = true) :
    (emitClass bases ir.toIR).map classAttrs = .ok (describeClass ir) := by
  rw [emitClass_dom bases ir h]
  simp only [Except.map, classAttrs, describeClass, List.filterMap_append, List.filterMap_map, Function.comp_def, attrStmt]
  congr 2
  · cases ir.returns <;> simp
  · cases ir.returns with
    | none =>
      simp only [List.filterMap_nil, List.append_nil]
      apply filterMap_congr'
      intro p _
      cases p.default <;> rfl
    | some r =>
      simp only [List.filterMap_cons, List.filterMap_nil, List.append_nil]
      apply filterMap_congr'
      intro p _
      cases p.default <;> rfl
/-! ## the populated parser on the domain -/

/-- the action the emitted `add_argument` call creates for a parameter of the domain -/
def emittedAction (p : DParam) : Action :=
  { dest := p.name, conv := (emittedScalar p).conv, choices := p.typ.resChoices, default := describedDefault p,
    required := emittedRequired p, help := describedHelp p, append := p.typ.isList }

theorem actionOf_closed (p : DParam) : actionOf (closedAdd p) = .ok (emittedAction p) := by
  unfold actionOf closedAdd emittedAction
  generalize emittedScalar p = e
  generalize p.typ.isList = l
  cases e <;> cases l <;> rfl

theorem actions_dom (ir : DIR) (h : ir.WF = true) : actions ir.toIR = .ok (ir.params.map emittedAction) := by
  have hwf : ir.params.all DParam.WF = true := by
    simp only [DIR.WF, Bool.and_eq_true] at h; exact h.1
  have h1 : emitArgparse ir.toIR = .ok (ir.params.map closedAdd) := by
    unfold emitArgparse
    simp only [DIR.toIR]
    exact mapE_map_ok _ _ _ _ (fun p hp => param2argparse_dom p (List.all_eq_true.mp hwf p hp))
  unfold actions
  rw [h1]
  exact mapE_map_ok _ _ _ _ (fun p _ => actionOf_closed p)

/-- `parse_args([])` on a list of actions: exits iff one is required, else the (converted) defaults -/
def emptyValue (a : Action) : Str × RVal :=
  (a.dest, match a.default with
    | some (.str s) => .one ((convert a.conv (classify s)).getD .none)
    | some c => .one c
    | none => .one .none)

theorem parseArgs_empty : ∀ (acts : List Action),
    (∀ a ∈ acts, ∀ s, a.default = some (.str s) → (convert a.conv (classify s)).isSome = true) →
    parseArgs acts [] = if acts.any (·.required) then .error "exit: required" else .ok (acts.map emptyValue)
  | [], _ => rfl
  | a :: as, H => by
    have ih := parseArgs_empty as (fun x hx => H x (List.mem_cons_of_mem _ hx))
    have ha := H a (List.mem_cons_self ..)
    simp only [parseArgs, List.any_nil, Bool.false_eq_true, if_false, mapE] at ih ⊢
    cases hr : a.required with
    | true => simp [parseOne, lookupAll, hr]
    | false =>
      have h1 : parseOne [] a = .ok (emptyValue a) := by
        unfold parseOne emptyValue
        simp only [lookupAll, List.filter_nil, List.map_nil, hr, Bool.false_eq_true, if_false]
        cases hd : a.default with
        | none => rfl
        | some c =>
          cases c with
          | str s =>
            have := ha s hd
            cases hc : convert a.conv (classify s) with
            | none => simp [hc] at this
            | some v => simp only [hc, Option.getD_some]
          | _ => rfl
      simp only [h1, List.any_cons, hr, Bool.false_or, List.map_cons]
      cases hany : as.any (·.required) with
      | true => simp [hany] at ih; simp [ih]
      | false => simp [hany] at ih; simp [ih]
/-! ## field-level facts about `emittedAction` -/

/-- where the emitted `required` flag agrees with the description: `Optional` types, and parameters without a default
    whose converter is not `bool` -/
def requiredAgrees (p : DParam) : Bool := p.typ.isOptional || (p.default.isNone && p.typ.resScalar != .bool)

theorem admits_none_optional (t : DTyp) (h : t.admits .none = true) : t.isOptional = true := by
  cases t with
  | scalar s => cases s <;> simp [DTyp.admits, Scalar.admits] at h
  | optional s => rfl
  | union a rest =>
    simp only [DTyp.admits, List.any_eq_true] at h
    obtain ⟨s, _, hs⟩ := h
    cases s <;> simp [Scalar.admits] at hs
  | list s => simp [DTyp.admits] at h
  | literal m ms =>
    simp only [DTyp.admits, List.any_eq_true] at h
    obtain ⟨x, _, hx⟩ := h
    cases x <;> simp [LitM.admits] at hx
  | optLiteral m ms => rfl
  | annotated s note => cases s <;> simp [DTyp.admits, Scalar.admits] at h
  | tupleEllipsis s => simp [DTyp.admits] at h
  | callableEllipsis s => simp [DTyp.admits] at h

theorem emittedRequired_iff (p : DParam) (h : p.WF = true) :
    emittedRequired p = describedRequired p ↔ requiredAgrees p = true := by
  obtain ⟨_, _, _, hadm⟩ := WF_parts h
  unfold emittedRequired describedRequired requiredAgrees DTyp.resolved
  cases hd : p.default with
  | none =>
    cases p.typ.isOptional <;> cases hb : (p.typ.resScalar == Scalar.bool) <;> simp [hb, bne]
  | some d =>
    cases ho : p.typ.isOptional with
    | true => cases d <;> simp
    | false =>
      have hne : d ≠ .none := by
        intro hdn; subst hdn
        have := admits_none_optional p.typ (hadm _ hd)
        rw [ho] at this; cases this
      cases d with
      | none => exact absurd rfl hne
      | _ => cases hb : (p.typ.resScalar == Scalar.bool) <;> simp

/-- types for which the emitted converter is exactly the described scalar's -/
def DTyp.scalarLike : DTyp → Option Scalar
  | .scalar s => some s | .optional s => some s | .list s => some s | .annotated s _ => some s | _ => none

theorem emittedScalar_scalarLike (p : DParam) (h : p.WF = true) (s : Scalar) (hs : p.typ.scalarLike = some s) :
    emittedScalar p = s ∧ p.typ.resChoices = none := by
  obtain ⟨_, _, _, hadm⟩ := WF_parts h
  obtain ⟨name, typ, doc, dflt⟩ := p
  simp only at hs hadm
  have key : ∀ d, typ.admits d = true → d = .none ∨ s.admits d = true := by
    intro d hd
    cases typ with
    | scalar s' => simp only [DTyp.scalarLike, Option.some.injEq] at hs; subst hs; right; exact hd
    | optional s' =>
      simp only [DTyp.scalarLike, Option.some.injEq] at hs; subst hs
      simp only [DTyp.admits, Bool.or_eq_true, beq_iff_eq] at hd; exact hd
    | list s' => simp [DTyp.admits] at hd
    | annotated s' n => simp only [DTyp.scalarLike, Option.some.injEq] at hs; subst hs; right; exact hd
    | _ => simp [DTyp.scalarLike] at hs
  have hres : typ.resScalar = s ∧ typ.resChoices = none := by
    cases typ <;> simp_all [DTyp.scalarLike, DTyp.resScalar, DTyp.resChoices]
  refine ⟨?_, hres.2⟩
  unfold emittedScalar
  cases dflt with
  | none => exact hres.1
  | some d =>
    rcases key d (hadm d rfl) with hn | ha
    · subst hn; exact hres.1
    · cases d <;> cases s <;> simp_all [Scalar.admits]

theorem convert_legal (s : Scalar) (t : Tok) : (convert s.conv t).isSome = s.legalTok t := by
  cases s <;> simp [convert, Scalar.conv, Scalar.legalTok]

theorem accepts_scalarLike (p : DParam) (h : p.WF = true) (s : Scalar) (hs : p.typ.scalarLike = some s) (t : Tok) :
    acceptsTok (emittedAction p) t = p.typ.legalTok t := by
  obtain ⟨he, hc⟩ := emittedScalar_scalarLike p h s hs
  have hl : p.typ.legalTok t = s.legalTok t := by
    cases hp : p.typ <;> simp_all [DTyp.scalarLike, DTyp.legalTok]
  rw [hl, ← convert_legal]
  unfold acceptsTok convertChecked emittedAction
  simp only [he, hc]
  cases convert s.conv t <;> rfl

/-- every member of a `Literal` is a string (vacuously true for the other types) -/
def DTyp.allStrMembers : DTyp → Bool
  | .literal m ms => (m :: ms).all LitM.isStr
  | .optLiteral m ms => (m :: ms).all LitM.isStr
  | _ => true

theorem any_pyEq_str (text : Str) : ∀ (ms : List LitM), ms.all LitM.isStr = true →
    (ms.map LitM.const).any (pyEq (.str text)) = ms.any (·.legalTok { text := text, asInt := ai, asFloat := af })
  | [], _ => rfl
  | m :: ms, h => by
    simp only [List.all_cons, Bool.and_eq_true] at h
    have ih := any_pyEq_str (ai := ai) (af := af) text ms h.2
    cases m with
    | s v =>
      simp only [List.map_cons, List.any_cons, ih, LitM.const, LitM.legalTok]
      congr 1
      show (Const.str text == Const.str v) = (text == v)
      by_cases hv : text = v
      · subst hv; simp
      · have : Const.str text ≠ Const.str v := fun hc => hv (by injection hc)
        rw [beq_false_of_ne this, beq_false_of_ne hv]
    | i v => simp [LitM.isStr] at h

theorem lit_admits_int_not_allStr : ∀ (ms : List LitM) (i : Int), ms.all LitM.isStr = true → ms.any (·.admits (.int i)) = false
  | [], _, _ => rfl
  | m :: ms, i, h => by
    simp only [List.all_cons, Bool.and_eq_true] at h
    cases m with
    | s v =>
      have ih := lit_admits_int_not_allStr ms i h.2
      simp only [List.any_cons, ih, Bool.or_false]
      rfl
    | i v => simp [LitM.isStr] at h

theorem lit_admits_kind : ∀ (ms : List LitM) (d : DDefault), ms.any (·.admits d) = true → (∃ v, d = .str v) ∨ (∃ i, d = .int i)
  | [], _, h => by simp at h
  | m :: ms, d, h => by
    simp only [List.any_cons, Bool.or_eq_true] at h
    rcases h with h | h
    · cases m <;> cases d <;> simp_all [LitM.admits]
    · exact lit_admits_kind ms d h

theorem emittedScalar_literal (p : DParam) (h : p.WF = true) (m : LitM) (ms : List LitM)
    (ht : p.typ = .literal m ms ∨ p.typ = .optLiteral m ms) (hall : (m :: ms).all LitM.isStr = true) :
    emittedScalar p = .str := by
  obtain ⟨_, _, _, hadm⟩ := WF_parts h
  obtain ⟨name, typ, doc, dflt⟩ := p
  simp only at ht hadm
  have hres : typ.resScalar = .str := by rcases ht with ht | ht <;> subst ht <;> rfl
  unfold emittedScalar
  cases dflt with
  | none => exact hres
  | some d =>
    have had := hadm d rfl
    have hk : d = .none ∨ (m :: ms).any (·.admits d) = true := by
      rcases ht with ht | ht <;> subst ht
      · right; simpa [DTyp.admits] using had
      · simpa [DTyp.admits] using had
    rcases hk with hk | hk
    · subst hk; exact hres
    · rcases lit_admits_kind _ _ hk with ⟨v, rfl⟩ | ⟨i, rfl⟩
      · rfl
      · rw [lit_admits_int_not_allStr _ i hall] at hk; cases hk

theorem accepts_literal (p : DParam) (h : p.WF = true) (m b : LitM) (r : List LitM)
    (ht : p.typ = .literal m (b :: r) ∨ p.typ = .optLiteral m (b :: r)) (hall : (m :: b :: r).all LitM.isStr = true) (t : Tok) :
    acceptsTok (emittedAction p) t = p.typ.legalTok t := by
  have he := emittedScalar_literal p h m (b :: r) ht hall
  have hc : p.typ.resChoices = some ((m :: b :: r).map LitM.const) := by rcases ht with ht | ht <;> rw [ht] <;> rfl
  have hl : p.typ.legalTok t = (m :: b :: r).any (·.legalTok t) := by rcases ht with ht | ht <;> rw [ht] <;> rfl
  obtain ⟨text, ai, af⟩ := t
  rw [hl, ← any_pyEq_str (ai := ai) (af := af) text _ hall]
  unfold acceptsTok convertChecked emittedAction
  simp only [he, hc, Scalar.conv, convert]
  cases ((m :: b :: r).map LitM.const).any (pyEq (.str text)) <;> rfl
end EmitIface
