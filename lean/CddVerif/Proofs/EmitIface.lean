import CddVerif.Model.EmitIface
import CddVerif.Model.EmitIfaceSpec
/-!
# Lemmas for C04: closed forms of the emitters' decisions on the executable domain
-/
namespace EmitIface
open Py

/-! ## `mapE` -/

theorem mapE_ok {α β} (f : α → Except String β) (g : α → β) :
    ∀ (l : List α), (∀ a ∈ l, f a = .ok (g a)) → mapE f l = .ok (l.map g)
  | [], _ => rfl
  | a :: as, h => by
    have h1 : f a = .ok (g a) := h a (List.mem_cons_self ..)
    have h2 : mapE f as = .ok (as.map g) := mapE_ok f g as (fun x hx => h x (List.mem_cons_of_mem _ hx))
    simp [mapE, h1, h2]

/-! ## `ast.walk` on the shapes of the domain -/

def TExpr.isLeaf : TExpr → Bool
  | .name _ => true | .const _ => true | _ => false

theorem leaf_children {x : TExpr} (h : x.isLeaf = true) : x.children = [] := by
  cases x <;> simp_all [TExpr.isLeaf, TExpr.children]

theorem leaf_size {x : TExpr} (h : x.isLeaf = true) : x.size = 1 := by
  cases x <;> simp_all [TExpr.isLeaf, TExpr.size]

theorem sizeList_leaves : ∀ (es : List TExpr), es.all TExpr.isLeaf = true → sizeList es = es.length
  | [], _ => rfl
  | e :: es, h => by
    simp only [List.all_cons, Bool.and_eq_true] at h
    simp [sizeList, leaf_size h.1, sizeList_leaves es h.2]; omega

theorem walkAux_leaves : ∀ (q : List TExpr) (n : Nat), q.all TExpr.isLeaf = true → q.length ≤ n → walkAux n q = q
  | [], n, _, _ => by cases n <;> rfl
  | x :: q, 0, _, hn => by simp at hn
  | x :: q, n + 1, h, hn => by
    simp only [List.all_cons, Bool.and_eq_true] at h
    simp only [walkAux, leaf_children h.1, List.append_nil]
    rw [walkAux_leaves q n h.2 (by simpa using hn)]

/-- `Head[e₁, …, eₙ]` with leaf elements -/
theorem walk_sub_tuple (a : Str) (es : List TExpr) (h : es.all TExpr.isLeaf = true) :
    walk (.sub (.name a) (.tuple es)) = .sub (.name a) (.tuple es) :: .name a :: .tuple es :: es := by
  have hs := sizeList_leaves es h
  unfold walk
  have : (TExpr.sub (.name a) (.tuple es)).size = es.length + 2 + 1 := by simp [TExpr.size, hs]; omega
  rw [this]
  simp only [walkAux, List.nil_append, TExpr.children, List.append_nil]
  rw [walkAux_leaves es _ h (Nat.le_refl _)]

/-- `Optional[Head[e₁, …, eₙ]]` with leaf elements -/
theorem walk_opt_sub_tuple (o a : Str) (es : List TExpr) (h : es.all TExpr.isLeaf = true) :
    walk (.sub (.name o) (.sub (.name a) (.tuple es))) =
      .sub (.name o) (.sub (.name a) (.tuple es)) :: .name o :: .sub (.name a) (.tuple es) :: .name a :: .tuple es :: es := by
  have hs := sizeList_leaves es h
  unfold walk
  have : (TExpr.sub (.name o) (.sub (.name a) (.tuple es))).size = es.length + 4 + 1 := by simp [TExpr.size, hs]; omega
  rw [this]
  simp only [walkAux, List.nil_append, TExpr.children, List.append_nil]
  rw [walkAux_leaves es _ h (Nat.le_refl _)]

theorem names_leaves (ss : List Scalar) : (ss.map (fun x => TExpr.name x.id)).all TExpr.isLeaf = true := by
  induction ss with
  | nil => rfl
  | cons a t ih => simp [TExpr.isLeaf, ih]

theorem consts_leaves (ms : List LitM) : (ms.map (fun x => TExpr.const x.const)).all TExpr.isLeaf = true := by
  induction ms with
  | nil => rfl
  | cons a t ih => simp [TExpr.isLeaf, ih]

/-! ## scalar names and folds over leaf lists -/
theorem id_eq_str (s : Scalar) : (s.id == sStr) = (s == .str) := by cases s <;> rfl
theorem parseNode_scalar (st : RSt) (s : Scalar) : parseNode st (.name s.id) = { st with typ := some s.id } := by
  cases s <;> rfl
theorem parseNode_const (st : RSt) (c : Const) : parseNode st (.const c) = st := rfl
def lastScalar : Scalar → List Scalar → Scalar
  | a, [] => a
  | _, b :: r => lastScalar b r
theorem foldl_names (st : RSt) (a : Scalar) (rest : List Scalar) :
    ((a :: rest).map (fun x => TExpr.name x.id)).foldl parseNode st = { st with typ := some (lastScalar a rest).id } := by
  induction rest generalizing st a with
  | nil => simp [parseNode_scalar, lastScalar]
  | cons b r ih =>
    have := ih { st with typ := some a.id } b
    simp only [List.map_cons, List.foldl_cons, parseNode_scalar] at this ⊢
    rw [this]; rfl
theorem foldl_consts (st : RSt) (ms : List LitM) :
    (ms.map (fun x => TExpr.const x.const)).foldl parseNode st = st := by
  induction ms with
  | nil => rfl
  | cons a t ih => simp [parseNode_const, ih]
theorem filterMap_names (ss : List Scalar) : (ss.map (fun x => TExpr.name x.id)).filterMap TExpr.constVal? = [] := by
  induction ss with
  | nil => rfl
  | cons a t ih => simpa [TExpr.constVal?] using ih
theorem filterMap_consts (ms : List LitM) :
    (ms.map (fun x => TExpr.const x.const)).filterMap TExpr.constVal? = ms.map LitM.const := by
  induction ms with
  | nil => rfl
  | cons a t ih => simpa [TExpr.constVal?] using ih
theorem getValueC_lit (ms : List LitM) : (ms.map LitM.const).map getValueC = ms.map LitM.const := by
  induction ms with
  | nil => rfl
  | cons a t ih => cases a <;> simpa [getValueC, LitM.const] using ih

/-! ## closed form of the `_resolve_arg` walk -/
def DTyp.resScalar : DTyp → Scalar
  | .scalar s => s | .optional s => s | .union a rest => lastScalar a rest | .list s => s
  | .literal _ _ => .str | .optLiteral _ _ => .str | .annotated s _ => s | .tupleEllipsis s => s | .callableEllipsis s => s
def litChoices (m : LitM) (ms : List LitM) : Option (List Const) :=
  match ms with
  | [] => none
  | _ => some ((m :: ms).map LitM.const)
def DTyp.resChoices : DTyp → Option (List Const)
  | .literal m ms => litChoices m ms
  | .optLiteral m ms => litChoices m ms
  | _ => none

/-- the loop state after walking the type (non-scalar types) -/
def DTyp.resSt (t : DTyp) : RSt :=
  { req := if t.isOptional then some false else none
    action := if t.isList then some sAppend else none
    choices := t.resChoices
    typ := some t.resScalar.id }

theorem tuple_names_step (st : RSt) (a b : Scalar) (r : List Scalar) :
    parseNode st (.tuple ((a :: b :: r).map (fun x => TExpr.name x.id))) = st := by
  simp only [parseNode, filterMap_names]
  simp

theorem tuple_consts_step (st : RSt) (ms : List LitM) :
    parseNode st (.tuple (ms.map (fun x => TExpr.const x.const))) = { st with choices := some (ms.map LitM.const) } := by
  simp only [parseNode, filterMap_consts, getValueC_lit]
  simp

theorem walk_fold_dom (t : DTyp) (h : ∀ s, t ≠ .scalar s) : (walk t.toExpr).foldl parseNode {} = t.resSt := by
  cases t with
  | scalar s => exact absurd rfl (h s)
  | optional s => cases s <;> rfl
  | list s => cases s <;> rfl
  | annotated s note => cases s <;> rfl
  | tupleEllipsis s => cases s <;> rfl
  | callableEllipsis s => cases s <;> rfl
  | union a rest =>
    cases rest with
    | nil => cases a <;> rfl
    | cons b r =>
      simp only [DTyp.toExpr]
      rw [walk_sub_tuple _ _ (names_leaves _)]
      simp only [List.foldl_cons, tuple_names_step]
      rw [foldl_names]
      rfl
  | literal m ms =>
    cases ms with
    | nil => cases m <;> rfl
    | cons b r =>
      simp only [DTyp.toExpr, litSlice]
      rw [walk_sub_tuple _ _ (consts_leaves _)]
      simp only [List.foldl_cons, tuple_consts_step, foldl_consts]
      rfl
  | optLiteral m ms =>
    cases ms with
    | nil => cases m <;> rfl
    | cons b r =>
      simp only [DTyp.toExpr, litSlice]
      rw [walk_opt_sub_tuple _ _ _ (consts_leaves _)]
      simp only [List.foldl_cons, tuple_consts_step, foldl_consts]
      rfl

/-! ## `_resolve_arg` on the domain -/
theorem simpleName_dom (t : DTyp) : t.toExpr.simpleName = match t with | .scalar s => some s.id | _ => none := by
  cases t with
  | scalar s => cases s <;> rfl
  | union a rest => cases rest <;> rfl
  | _ => rfl

theorem isName_dict_dom (t : DTyp) : t.toExpr.isName sDict = false := by
  cases t with
  | scalar s => cases s <;> rfl
  | union a rest => cases rest <;> rfl
  | _ => rfl

theorem required_lower (s : Scalar) : requiredTyps.contains (lower s.id) = (s != .bool) := by cases s <;> rfl

/-- what `_resolve_arg` returns on a type of the domain -/
def DTyp.resolved (t : DTyp) (required0 : Bool) : Resolved :=
  { action := if t.isList then some sAppend else none
    choices := t.resChoices
    required := if t.isOptional then false else if t.resScalar == .bool then required0 else true
    typ := some t.resScalar.id }

/-- the tail of `_resolve_arg` after the walk -/
def finishResolve (st : RSt) (r0 : Bool) : Resolved :=
  let req : Option Bool :=
    if st.req.isNone && requiredTyps.contains (lower (st.typ.getD [])) then some true else st.req
  { action := st.action, choices := st.choices, required := req.getD r0, typ := st.typ }

theorem finish_resSt (t : DTyp) (r0 : Bool) : finishResolve t.resSt r0 = t.resolved r0 := by
  unfold finishResolve DTyp.resSt DTyp.resolved
  generalize t.resScalar = x
  generalize t.isOptional = o
  generalize t.isList = l
  generalize t.resChoices = c
  cases x <;> cases o <;> cases l <;> cases r0 <;> rfl

theorem resolveArg_dom (name : Str) (hk : endsWith name sKwargs = false) (t : DTyp) (r0 : Bool) :
    resolveArg name (some t.toExpr) r0 = t.resolved r0 := by
  by_cases hs : ∃ s, t = .scalar s
  · obtain ⟨s, rfl⟩ := hs
    cases s <;> cases r0 <;> rfl
  · have hw := walk_fold_dom t (fun s h => hs ⟨s, h⟩)
    have hsn : t.toExpr.simpleName = none := by
      rw [simpleName_dom]; cases t <;> first | rfl | exact absurd ⟨_, rfl⟩ hs
    rw [← finish_resSt, ← hw]
    unfold resolveArg finishResolve
    simp only [Option.getD_some, hsn, isName_dict_dom, hk, Bool.false_or, Bool.false_eq_true, if_false]

/-! ## `param2argparse_param` on the domain -/
theorem setValue_plain {v : Str} (h : plainStr v = true) : setValue (.str v) = .str v := by
  simp only [plainStr, Bool.and_eq_true, Bool.not_eq_true'] at h
  simp [setValue, h.2]

theorem setValue_lits : ∀ (ms : List LitM), ms.all LitM.plain = true → (ms.map LitM.const).map setValue = ms.map LitM.const
  | [], _ => rfl
  | m :: ms, h => by
    simp only [List.all_cons, Bool.and_eq_true] at h
    have ih := setValue_lits ms h.2
    cases m with
    | s v => simp only [List.map_cons, LitM.const, setValue_plain (by simpa [LitM.plain] using h.1), ih]
    | i v => simp only [List.map_cons, LitM.const, setValue, ih]

theorem resChoices_setValue (t : DTyp) (h : t.plain = true) : t.resChoices.map (·.map setValue) = t.resChoices := by
  cases t with
  | literal m ms => cases ms with
    | nil => rfl
    | cons b r => simp only [DTyp.resChoices, litChoices, Option.map_some]; rw [setValue_lits _ (by simpa [DTyp.plain] using h)]
  | optLiteral m ms => cases ms with
    | nil => rfl
    | cons b r => simp only [DTyp.resChoices, litChoices, Option.map_some]; rw [setValue_lits _ (by simpa [DTyp.plain] using h)]
  | _ => rfl

/-- the scalar whose name ends up in `type=` -/
def emittedScalar (p : DParam) : Scalar :=
  match p.default with
  | some (.int _) => .int | some (.float _) => .float | some (.bool _) => .bool | some (.str _) => .str
  | _ => p.typ.resScalar
/-- the `required=True` keyword is emitted -/
def emittedRequired (p : DParam) : Bool :=
  if p.default == some .none then false else (p.typ.resolved p.default.isSome).required
/-- the `add_argument` call for a parameter of the domain -/
def closedAdd (p : DParam) : AddArg :=
  { flag := '-' :: '-' :: p.name
    type := if emittedScalar p == .str && !p.typ.isList then none else some (emittedScalar p).id
    choices := p.typ.resChoices
    action := if p.typ.isList then some sAppend else none
    help := describedHelp p
    required := emittedRequired p
    default := describedDefault p }

theorem scalar_no_optional (s : Scalar) : contains s.id sOptional = false := by cases s <;> rfl
theorem scalar_not_keep (s : Scalar) : [sAny, sPickleLoads, sLoads].contains s.id = false := by cases s <;> rfl
theorem scalar_not_pickle (s : Scalar) : (some s.id == some sPickleLoads) = false := by cases s <;> rfl

theorem inferNone_dom (a : Option Str) (s : Scalar) : inferNone a (some s.id) = { action := a, default := none, typ := none } := by
  simp only [inferNone, scalar_no_optional, scalar_not_keep]; rfl

theorem WF_parts {p : DParam} (h : p.WF = true) :
    endsWith p.name sKwargs = false ∧ triggerFree p.doc = true ∧ p.typ.plain = true ∧
    (∀ d, p.default = some d → p.typ.admits d = true) := by
  simp only [DParam.WF, Bool.and_eq_true, Bool.not_eq_true'] at h
  refine ⟨h.1.1.1.1, h.1.1.2, h.1.2, ?_⟩
  intro d hd
  have := h.2
  rw [hd] at this
  exact this

theorem scalar_admits_str {s : Scalar} {v : Str} (h : s.admits (.str v) = true) : s = .str ∧ plainStr v = true := by
  simpa [Scalar.admits] using h

theorem lit_admits_str : ∀ (ms : List LitM) (v : Str), ms.all LitM.plain = true →
    (ms.any (·.admits (.str v))) = true → plainStr v = true
  | [], _, _, h => by simp at h
  | m :: ms, v, hp, h => by
    simp only [List.all_cons, Bool.and_eq_true] at hp
    simp only [List.any_cons, Bool.or_eq_true] at h
    rcases h with h | h
    · cases m with
      | s a => simp only [LitM.admits, beq_iff_eq] at h; subst h; simpa [LitM.plain] using hp.1
      | i a => simp [LitM.admits] at h
    · exact lit_admits_str ms v hp.2 h

theorem admits_str_plain (t : DTyp) (hpl : t.plain = true) (v : Str) (h : t.admits (.str v) = true) : plainStr v = true := by
  cases t with
  | scalar s => exact (scalar_admits_str h).2
  | optional s => simp only [DTyp.admits, Bool.or_eq_true] at h; rcases h with h | h; · simp at h
                  · exact (scalar_admits_str h).2
  | union a rest =>
    simp only [DTyp.admits, List.any_eq_true] at h
    obtain ⟨s, _, hs⟩ := h
    exact (scalar_admits_str hs).2
  | list s => simp [DTyp.admits] at h
  | literal m ms => exact lit_admits_str (m :: ms) v (by simpa [DTyp.plain] using hpl) (by simpa [DTyp.admits] using h)
  | optLiteral m ms =>
    simp only [DTyp.admits, Bool.or_eq_true] at h
    rcases h with h | h
    · simp at h
    · exact lit_admits_str (m :: ms) v (by simpa [DTyp.plain] using hpl) h
  | annotated s note => exact (scalar_admits_str h).2
  | tupleEllipsis s => simp [DTyp.admits] at h
  | callableEllipsis s => simp [DTyp.admits] at h

/-- `argparseFinish` on an abstract `_resolve_arg` result of the shape the domain produces -/
theorem finish_abs (name doc : Str) (l o : Bool) (x : Scalar) (c : Option (List Const)) (r0 : Bool)
    (d : Option DDefault) (hplain : ∀ v, d = some (.str v) → plainStr v = true)
    (hc : c.map (·.map setValue) = c) :
    argparseFinish name
      { action := if l then some sAppend else none, choices := c,
        required := if o then false else if x == .bool then r0 else true, typ := some x.id }
      (d.map DDefault.toDefault) doc none =
    { flag := '-' :: '-' :: name
      type := (let e : Scalar := match d with
                | some (.int _) => .int | some (.float _) => .float | some (.bool _) => .bool | some (.str _) => .str
                | _ => x
               if e == .str && !l then none else some e.id)
      choices := c
      action := if l then some sAppend else none
      help := if doc.isEmpty then none else some doc
      required := if d == some .none then false else (if o then false else if x == .bool then r0 else true)
      default := match d with | none => none | some .none => none | some d => some d.val } := by
  unfold argparseFinish
  simp only [hc]
  cases d with
  | none =>
    simp only [Option.map_none, infer, inferNone_dom]
    cases l <;> cases x <;> cases o <;> cases r0 <;> rfl
  | some d =>
    cases d with
    | str v =>
      have hsv := setValue_plain (hplain v rfl)
      simp only [Option.map_some, DDefault.toDefault, infer, inferConst, Default.raw, hsv, DDefault.val]
      cases l <;> cases x <;> cases o <;> cases r0 <;> rfl
    | none =>
      simp only [Option.map_some, DDefault.toDefault, infer, inferNone_dom]
      cases l <;> cases x <;> cases o <;> cases r0 <;> rfl
    | int i => cases l <;> cases x <;> cases o <;> cases r0 <;> rfl
    | float r => cases l <;> cases x <;> cases o <;> cases r0 <;> rfl
    | bool b => cases l <;> cases x <;> cases o <;> cases r0 <;> rfl

theorem argparseCore_dom (p : DParam) (h : p.WF = true) : argparseCore p.toParam p.doc none = closedAdd p := by
  obtain ⟨hk, htf, hpl, hadm⟩ := WF_parts h
  obtain ⟨name, typ, doc, dflt⟩ := p
  simp only at hk htf hpl hadm
  unfold argparseCore
  simp only [DParam.toParam, resolveArg_dom _ hk, DTyp.resolved]
  rw [show (dflt.map DDefault.toDefault).isSome = dflt.isSome by cases dflt <;> rfl]
  rw [finish_abs name doc typ.isList typ.isOptional typ.resScalar typ.resChoices dflt.isSome dflt
      (fun v hv => admits_str_plain typ hpl v (hadm _ hv)) (resChoices_setValue _ hpl)]
  simp only [closedAdd, emittedScalar, emittedRequired, describedDefault, describedHelp, DTyp.resolved]
  cases dflt with
  | none => rfl
  | some d => cases d <;> rfl

theorem param2argparse_dom (p : DParam) (h : p.WF = true) : param2argparse p.toParam = .ok (closedAdd p) := by
  have htf := (WF_parts h).2.1
  have hc := argparseCore_dom p h
  unfold param2argparse
  simp only [DParam.toParam] at hc ⊢
  simp only [extractDefault, htf, if_true, hc]
end EmitIface
