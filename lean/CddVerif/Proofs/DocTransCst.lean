import CddVerif.Model.DocTransCst
import CddVerif.Proofs.Cst
/-! Helper definitions and lemmas for C07 (CST write-back of `doctrans`). -/
namespace DocTransCst
open Py Cst

/-! ## Frame: specification vocabulary -/

/-- a node is *touched* by an edit list when some edit passes the three-part test of `find_cst_at_ast` on it -/
def touched (es : List FnEdit) (n : Node) : Bool := es.any (fun e => matchesNode e n)

/-- What is left of a node list after removing every node selected by `m` (the matched headers) and the run of
    docstring-flagged `TripleQuoted` nodes directly after such a node (the docstring slot).
    The flag says whether we are directly after a removed header / docstring. -/
def residue (m : Node → Bool) : Bool → List Node → List Node
  | _, [] => []
  | after, n :: rest =>
    if m n then residue m true rest
    else if after && isDocTQ n then residue m true rest
    else n :: residue m false rest

/-- flag after scanning a prefix -/
def flagAfter (m : Node → Bool) : Bool → List Node → Bool
  | b, [] => b
  | after, n :: rest =>
    if m n then flagAfter m true rest
    else if after && isDocTQ n then flagAfter m true rest
    else flagAfter m false rest

theorem residue_append (m : Node → Bool) (b : Bool) (xs ys : List Node) :
    residue m b (xs ++ ys) = residue m b xs ++ residue m (flagAfter m b xs) ys := by
  induction xs generalizing b with
  | nil => simp [residue, flagAfter]
  | cons x xs ih =>
    simp only [List.cons_append, residue, flagAfter]
    split
    · exact ih true
    · split
      · exact ih true
      · simp [ih false]

theorem residue_sublist (m : Node → Bool) (b : Bool) (xs : List Node) : (residue m b xs).Sublist xs := by
  induction xs generalizing b with
  | nil => simp [residue]
  | cons x xs ih =>
    simp only [residue]
    split
    · exact (ih true).cons _
    · split
      · exact (ih true).cons _
      · exact (ih false).cons_cons _

/-- a selected node is dropped whatever the flag, and sets it -/
theorem residue_cons_sel (m : Node → Bool) (b : Bool) (h : Node) (rest : List Node) (hm : m h = true) :
    residue m b (h :: rest) = residue m true rest := by
  simp [residue, hm]

theorem residue_doc_after (m : Node → Bool) (d : Node) (rest : List Node) (hd : isDocTQ d = true) :
    residue m true (d :: rest) = residue m true rest := by
  simp only [residue]
  split
  · rfl
  · simp [hd]

/-- `residue` is the same on `pre ++ h :: post` and on any list that differs only in the header `h ↦ h'`
    (both selected) and in the docstring run directly after it. -/
theorem residue_at_header (m : Node → Bool) (b : Bool) (pre : List Node) (h : Node) (post : List Node) (hm : m h = true) :
    residue m b (pre ++ h :: post) = residue m b pre ++ residue m true post := by
  rw [residue_append, residue_cons_sel m _ h post hm]

/-! ## list surgery at a located index -/

theorem setAt_append_length {α} (pre : List α) (x y : α) (post : List α) :
    setAt (pre ++ x :: post) pre.length y = pre ++ y :: post := by
  induction pre with
  | nil => simp [setAt]
  | cons a pre ih => simp [setAt, ih]

theorem setAt_append_succ {α} (pre : List α) (x d y : α) (post : List α) :
    setAt (pre ++ x :: d :: post) (pre.length + 1) y = pre ++ x :: y :: post := by
  induction pre with
  | nil => simp [setAt]
  | cons a pre ih => simp [setAt, ih]

theorem insertAt_append_succ {α} (pre : List α) (x y : α) (post : List α) :
    insertAt (pre ++ x :: post) (pre.length + 1) y = pre ++ x :: y :: post := by
  induction pre with
  | nil => cases post <;> simp [insertAt]
  | cons a pre ih => simp [insertAt, ih]

theorem deleteAt_append_succ {α} (pre : List α) (x d : α) (post : List α) :
    deleteAt (pre ++ x :: d :: post) (pre.length + 1) = pre ++ x :: post := by
  induction pre with
  | nil => simp [deleteAt]
  | cons a pre ih => simp [deleteAt, ih]

theorem getElem?_append_length {α} (pre : List α) (x : α) (post : List α) :
    (pre ++ x :: post)[pre.length]? = some x := by
  simp

theorem getElem?_append_succ {α} (pre : List α) (x : α) (post : List α) :
    (pre ++ x :: post)[pre.length + 1]? = post.head? := by
  induction pre with
  | nil => cases post <;> simp
  | cons a pre ih => simpa using ih

/-- `find_cst_at_ast` returns the index of a node that passes the test -/
theorem findCstFrom_some (e : FnEdit) (nodes : List Node) (i idx : Nat) (h : findCstFrom e nodes i = some idx) :
    ∃ pre hd post, nodes = pre ++ hd :: post ∧ idx = i + pre.length ∧ matchesNode e hd = true := by
  induction nodes generalizing i with
  | nil => simp [findCstFrom] at h
  | cons n rest ih =>
    simp only [findCstFrom] at h
    split at h
    · rename_i hm
      refine ⟨[], n, rest, rfl, ?_, hm⟩
      simp at h; simp [h]
    · obtain ⟨pre, hd, post, h1, h2, h3⟩ := ih (i + 1) h
      refine ⟨n :: pre, hd, post, by simp [h1], ?_, h3⟩
      simp [h2]; omega

theorem findCst_some (e : FnEdit) (nodes : List Node) (idx : Nat) (h : findCst e nodes = some idx) :
    ∃ pre hd post, nodes = pre ++ hd :: post ∧ idx = pre.length ∧ matchesNode e hd = true := by
  obtain ⟨pre, hd, post, h1, h2, h3⟩ := findCstFrom_some e nodes 0 idx h
  exact ⟨pre, hd, post, h1, by simpa using h2, h3⟩

/-! ## the selector used by the frame theorem -/

/-- properties of a selector `m` under which every step of `applyEdit` keeps `residue m` fixed -/
structure Selector (m : Node → Bool) (e : FnEdit) : Prop where
  /-- the header found for `e` is selected -/
  sel : ∀ n, matchesNode e n = true → m n = true
  /-- rebuilding a function header keeps it selected -/
  hdr : ∀ old v, old.kind = "FunctionDefinitionStart" → m (headerNode old v) = m old

theorem matchesNode_headerNode (e' : FnEdit) (old : Node) (v : Str) (hk : old.kind = "FunctionDefinitionStart") :
    matchesNode e' (headerNode old v) = matchesNode e' old := by
  simp only [matchesNode, headerNode, hk]
  rfl

theorem touched_selector (es : List FnEdit) (e : FnEdit) (he : e ∈ es) : Selector (touched es) e where
  sel := by
    intro n hn
    simp only [touched, List.any_eq_true]
    exact ⟨e, he, hn⟩
  hdr := by
    intro old v hk
    simp only [touched]
    congr 1
    funext e'
    exact matchesNode_headerNode e' old v hk

theorem formattedDoc_isDocTQ (after : Node) (d : Str) (q : Option Bool) : isDocTQ (formattedDoc after d q) = true := by
  simp [isDocTQ, formattedDoc]

/-- `maybe_replace_doc_str_in_function_or_class` keeps the header and changes at most the docstring slot -/
theorem replaceDoc_shape (pre : List Node) (hd : Node) (post : List Node) (e : FnEdit) (out : List Node) (log : List Str)
    (h : replaceDoc (pre ++ hd :: post) pre.length e = .ok (out, log)) :
    out = pre ++ hd :: post ∨
    (∃ d, isDocTQ d = true ∧ post.head?.map isDocTQ ≠ some true ∧ out = pre ++ hd :: d :: post) ∨
    (∃ d post', post = d :: post' ∧ isDocTQ d = true ∧ out = pre ++ hd :: post') ∨
    (∃ d d' post', post = d :: post' ∧ isDocTQ d = true ∧ isDocTQ d' = true ∧ out = pre ++ hd :: d' :: post') := by
  unfold replaceDoc at h
  rw [getElem?_append_succ] at h
  cases hnd : newDocOf e.body0 with
  | error x => simp [hnd, bind, Except.bind] at h
  | ok nd =>
    simp only [hnd, bind, Except.bind] at h
    cases post with
    | nil =>
      -- no node after the header: the default `UnchangingLine(0, 0, "")`
      have hE : isDocTQ emptyLine = false := by decide
      simp only [List.head?_nil, Option.getD_none, hE] at h
      cases nd with
      | empty => simp [pure, Except.pure] at h; left; exact h.1.symm
      | bad b => simp at h
      | text d =>
        simp only [pure, Except.pure, Except.ok.injEq, Prod.mk.injEq] at h
        right; left
        refine ⟨formattedDoc emptyLine d (some true), formattedDoc_isDocTQ _ _ _, by simp, ?_⟩
        rw [← h.1, insertAt_append_succ]
    | cons x post' =>
      simp only [List.head?_cons, Option.getD_some] at h
      cases hx : isDocTQ x with
      | false =>
        simp only [hx] at h
        cases nd with
        | empty => simp [pure, Except.pure] at h; left; exact h.1.symm
        | bad b => simp at h
        | text d =>
          simp only [pure, Except.pure, Except.ok.injEq, Prod.mk.injEq] at h
          right; left
          refine ⟨formattedDoc x d (some true), formattedDoc_isDocTQ _ _ _, by simp [hx], ?_⟩
          rw [← h.1, insertAt_append_succ]
      | true =>
        simp only [hx] at h
        cases nd with
        | empty =>
          simp only [pure, Except.pure, Except.ok.injEq, Prod.mk.injEq] at h
          right; right; left
          refine ⟨x, post', rfl, hx, ?_⟩
          rw [← h.1, deleteAt_append_succ]
        | bad b => simp at h
        | text d =>
          simp only at h
          by_cases hne : (omitWhitespace (slice (strip x.value) (some 3) (some (-3))) != omitWhitespace d) = true
          · simp only [hne, if_true] at h
            by_cases hem : (slice (strip x.value) (some 3) (some (-3))).isEmpty = true
            · simp [hem] at h
            · simp only [hem, Bool.false_eq_true, if_false, pure, Except.pure, Except.ok.injEq, Prod.mk.injEq] at h
              right; right; right
              refine ⟨x, formattedDoc x d x.isDoubleQ, post', rfl, hx, formattedDoc_isDocTQ _ _ _, ?_⟩
              rw [← h.1, setAt_append_succ]
          · simp [hne, pure, Except.pure] at h; left; exact h.1.symm

theorem residue_replaceDoc (m : Node → Bool) (b : Bool) (pre : List Node) (hd : Node) (post : List Node) (e : FnEdit)
    (out : List Node) (log : List Str) (hm : m hd = true)
    (h : replaceDoc (pre ++ hd :: post) pre.length e = .ok (out, log)) :
    residue m b out = residue m b (pre ++ hd :: post) ∧ ∃ post2, out = pre ++ hd :: post2 := by
  rcases replaceDoc_shape pre hd post e out log h with h1 | ⟨d, hd1, _, h1⟩ | ⟨d, post', hp, hd1, h1⟩ | ⟨d, d', post', hp, hd1, hd2, h1⟩
  · exact ⟨by rw [h1], post, h1⟩
  · refine ⟨?_, _, h1⟩
    rw [h1, residue_at_header m b pre hd _ hm, residue_at_header m b pre hd _ hm, residue_doc_after m d post hd1]
  · refine ⟨?_, _, h1⟩
    rw [h1, hp, residue_at_header m b pre hd _ hm, residue_at_header m b pre hd _ hm, residue_doc_after m d post' hd1]
  · refine ⟨?_, _, h1⟩
    rw [h1, hp, residue_at_header m b pre hd _ hm, residue_at_header m b pre hd _ hm, residue_doc_after m d post' hd1,
      residue_doc_after m d' post' hd2]

theorem matchesNode_kind (e : FnEdit) (n : Node) (h : matchesNode e n = true) : n.kind = e.kind.cstType := by
  simp only [matchesNode, Bool.and_eq_true, beq_iff_eq] at h
  exact h.1.2

theorem cstType_fn (k : DefKind) (h : (k == DefKind.cls) = false) : k.cstType = "FunctionDefinitionStart" := by
  cases k <;> simp_all [DefKind.cstType]

/-- one iteration of the `doctransify_cst` loop keeps the residue -/
theorem residue_applyEdit (parse : HeaderParser) (m : Node → Bool) (e : FnEdit) (S : Selector m e) (b : Bool)
    (nodes out : List Node) (log : List Str) (h : applyEdit parse nodes e = (log, .ok out)) :
    residue m b out = residue m b nodes := by
  unfold applyEdit at h
  cases hf : findCst e nodes with
  | none => simp [hf] at h; rw [h.2]
  | some idx =>
    obtain ⟨pre, hd, post, hn, hi, hmatch⟩ := findCst_some e nodes idx hf
    subst hi
    subst hn
    have hsel : m hd = true := S.sel hd hmatch
    simp only [hf] at h
    cases hr : replaceDoc (pre ++ hd :: post) pre.length e with
    | error x => simp [hr] at h
    | ok r =>
      obtain ⟨nodes1, log1⟩ := r
      obtain ⟨hres1, post2, hshape⟩ := residue_replaceDoc m b pre hd post e nodes1 log1 hsel hr
      simp only [hr] at h
      rw [← hres1]
      split at h
      · -- class
        simp only [Prod.mk.injEq, Except.ok.injEq] at h
        rw [h.2]
      · rename_i hcls
        have hk : hd.kind = "FunctionDefinitionStart" := by
          rw [matchesNode_kind e hd hmatch]; exact cstType_fn e.kind (by simpa using hcls)
        subst hshape
        rw [getElem?_append_length] at h
        simp only at h
        cases hp : parse (reindentWithPass hd.value) with
        | error x => simp [hp] at h
        | ok cur =>
          simp only [hp] at h
          -- return-type step
          cases hret : replaceReturn cur.returns e.sig.returns hd.value with
          | none =>
            simp only [hret, getElem?_append_length, Option.getD_some] at h
            cases ha : replaceArgs cur.args e.sig.args hd.value with
            | error x => simp [ha] at h
            | ok r2 =>
              obtain ⟨v?, d?⟩ := r2
              simp only [ha, Prod.mk.injEq, Except.ok.injEq] at h
              rw [← h.2]
              cases v? with
              | none => rfl
              | some v =>
                simp only [setAt_append_length]
                rw [residue_at_header m b pre _ _ (by rw [S.hdr hd v hk]; exact hsel), residue_at_header m b pre hd _ hsel]
          | some rv =>
            obtain ⟨v1, d1⟩ := rv
            simp only [hret, setAt_append_length, getElem?_append_length, Option.getD_some] at h
            have hk1 : (headerNode hd v1).kind = "FunctionDefinitionStart" := rfl
            have hsel1 : m (headerNode hd v1) = true := by rw [S.hdr hd v1 hk]; exact hsel
            cases ha : replaceArgs cur.args e.sig.args (headerNode hd v1).value with
            | error x => simp [ha] at h
            | ok r2 =>
              obtain ⟨v?, d?⟩ := r2
              simp only [ha, Prod.mk.injEq, Except.ok.injEq] at h
              rw [← h.2]
              cases v? with
              | none =>
                simp only
                rw [residue_at_header m b pre _ _ hsel1, residue_at_header m b pre hd _ hsel]
              | some v =>
                simp only
                rw [residue_at_header m b pre _ _ (by rw [S.hdr _ v hk1]; exact hsel1), residue_at_header m b pre hd _ hsel]

/-- the whole loop keeps the residue, for a selector that works for every edit of the list -/
theorem residue_loop (parse : HeaderParser) (m : Node → Bool) (b : Bool) (es : List FnEdit) (S : ∀ e ∈ es, Selector m e)
    (nodes out : List Node) (h : (doctransifyLoop parse nodes es).2 = .ok out) :
    residue m b out = residue m b nodes := by
  induction es generalizing nodes with
  | nil => simp [doctransifyLoop] at h; rw [h]
  | cons e es ih =>
    simp only [doctransifyLoop] at h
    cases ha : applyEdit parse nodes e with
    | mk log r =>
      cases r with
      | error x => simp [ha] at h
      | ok nodes' =>
        simp only [ha] at h
        rw [ih (fun e' he' => S e' (List.mem_cons_of_mem _ he')) nodes' h]
        exact residue_applyEdit parse m e (S e (List.mem_cons_self ..)) b nodes nodes' log ha

/-- filtering by a predicate that never holds on removed nodes commutes with `residue` -/
theorem filter_residue (m : Node → Bool) (p : Node → Bool) (hp : ∀ n, p n = true → m n = false ∧ isDocTQ n = false)
    (b : Bool) (xs : List Node) : (residue m b xs).filter p = xs.filter p := by
  induction xs generalizing b with
  | nil => simp [residue]
  | cons x xs ih =>
    simp only [residue]
    split
    · rename_i hm
      have : p x = false := by
        cases hpx : p x with
        | false => rfl
        | true => have := (hp x hpx).1; simp [hm] at this
      simp [this, ih true]
    · split
      · rename_i hd
        have : p x = false := by
          cases hpx : p x with
          | false => rfl
          | true => have := (hp x hpx).2; simp [this] at hd
        simp [this, ih true]
      · simp [List.filter_cons, ih false]

theorem touched_isDefKind (es : List FnEdit) (n : Node) (h : touched es n = true) : isDefKind n.kind = true := by
  simp only [touched, List.any_eq_true] at h
  obtain ⟨e, _, he⟩ := h
  have := matchesNode_kind e n he
  cases hk : e.kind <;> simp [this, hk, DefKind.cstType, isDefKind]

/-! ## parser: a docstring-flagged node only directly after a definition start -/

/-- in a parsed list, `is_docstr` is set only on a node directly after a class / function start -/
def DocAfterDef : Bool → List Node → Prop
  | _, [] => True
  | prev, n :: rest => (n.isDocstr = some true → prev = true) ∧ DocAfterDef (isDefKind n.kind) rest

theorem parseOne_isDocstr (acc : Nat) (b : Bool) (s : Str) (h : (parseOne acc b s).isDocstr = some true) : b = true := by
  unfold parseOne at h
  simp only at h
  split at h
  · simpa using h
  · split at h
    · simp at h
    · split at h <;> simp at h

theorem parserLoop_docAfterDef (a : Nat) (b : Bool) (chunks : List Str) : DocAfterDef b (parserLoop a b chunks) := by
  induction chunks generalizing a b with
  | nil => simp [parserLoop, DocAfterDef]
  | cons s rest ih =>
    simp only [parserLoop, DocAfterDef]
    exact ⟨parseOne_isDocstr a b s, ih _ _⟩

end DocTransCst
