import CddVerif.Model.Imports
/-!
# Monotonicity of the import machine (helper lemmas for `Properties/C18Hist.lean`)

Lifts "every module imports in a fresh interpreter" to "every import history of any length succeeds".

* `Static c par chains` — decidable well-formedness of the event table w.r.t. a parent table `par`
  (`staticOk`, checked on the generated table by `decide +kernel`).
* `Pres`  — a successful run keeps the invariant `Good` (every finished module is fully initialised) and `AttrInv`
  (a set submodule attribute bit implies the submodule is in `sys.modules`).
* `Skip`  — when the bigger state `B` has a module finished that the smaller run `A` still executes, `A` stays below `B`.
* `Sim`   — if run `A` succeeds and `R A B`, run `B` succeeds with the same fuel, and `R` is kept.
-/
namespace Imports
namespace Mono

/-! ## one-step unfoldings of the machine (match-free) -/

/-- the attribute a finished child sets on its parent -/
def attrAdd (c : Cfg) (parent : Option Nat) (names m : Nat) : Nat :=
  match parent with
  | some p => add c.stride names p (c.short.getD m 0)
  | none => names

theorem loadChain_zero (c : Cfg) (s n : Nat) (p : Option Nat) (ch : List Nat) :
    loadChain c 0 s n p ch = .error .fuel := by simp only [loadChain]

theorem loadChain_nil (c : Cfg) (f s n : Nat) (p : Option Nat) :
    loadChain c (f+1) s n p [] = .ok (s, n) := by simp only [loadChain]

theorem loadChain_seen (c : Cfg) (f s n : Nat) (parent : Option Nat) (m : Nat) (rest : List Nat)
    (h : Nat.testBit s m = true) :
    loadChain c (f+1) s n parent (m :: rest) = loadChain c f s n (some m) rest := by
  simp only [loadChain, h, if_true]

theorem loadChain_new (c : Cfg) (f s n : Nat) (parent : Option Nat) (m : Nat) (rest : List Nat)
    (h : Nat.testBit s m = false) {s2 n2 : Nat}
    (hr : runEvs c f (s ||| (1 <<< m)) n m (c.tbl.getD m []) = .ok (s2, n2)) :
    loadChain c (f+1) s n parent (m :: rest) = loadChain c f s2 (attrAdd c parent n2 m) (some m) rest := by
  simp only [loadChain, h, hr, attrAdd]
  cases parent <;> simp

theorem loadChain_err (c : Cfg) (f s n : Nat) (parent : Option Nat) (m : Nat) (rest : List Nat)
    (h : Nat.testBit s m = false) {e : Err}
    (hr : runEvs c f (s ||| (1 <<< m)) n m (c.tbl.getD m []) = .error e) :
    loadChain c (f+1) s n parent (m :: rest) = .error e := by
  simp only [loadChain, h, hr]
  simp

theorem runEvs_zero (c : Cfg) (s n m : Nat) (evs : List Ev) :
    runEvs c 0 s n m evs = .error .fuel := by simp only [runEvs]

theorem runEvs_nil (c : Cfg) (f s n m : Nat) : runEvs c (f+1) s n m [] = .ok (s, n) := by simp only [runEvs]

theorem runEvs_missing (c : Cfg) (f s n m : Nat) (evs : List Ev) :
    runEvs c (f+1) s n m (.missing :: evs) = .error .moduleNotFound := by simp only [runEvs]

theorem runEvs_bind (c : Cfg) (f s n m k : Nat) (evs : List Ev) :
    runEvs c (f+1) s n m (.bind k :: evs) = runEvs c f s (add c.stride n m k) m evs := by simp only [runEvs]

theorem runEvs_imp_ok (c : Cfg) (f s n m : Nat) (chain : List Nat) (evs : List Ev) {s2 n2 : Nat}
    (h : loadChain c f s n none chain = .ok (s2, n2)) :
    runEvs c (f+1) s n m (.imp chain :: evs) = runEvs c f s2 n2 m evs := by simp only [runEvs, h]

theorem runEvs_imp_err (c : Cfg) (f s n m : Nat) (chain : List Nat) (evs : List Ev) {e : Err}
    (h : loadChain c f s n none chain = .error e) :
    runEvs c (f+1) s n m (.imp chain :: evs) = .error e := by simp only [runEvs, h]

theorem runEvs_frm_ok (c : Cfg) (f s n m : Nat) (chain : List Nat) (nms : List (Nat × Option (List Nat)))
    (evs : List Ev) {s2 n2 s3 n3 : Nat}
    (h : loadChain c f s n none chain = .ok (s2, n2))
    (h2 : fromNames c f s2 n2 (chain.getLastD 0) nms = .ok (s3, n3)) :
    runEvs c (f+1) s n m (.frm chain nms :: evs) = runEvs c f s3 n3 m evs := by simp only [runEvs, h, h2]

theorem runEvs_frm_err1 (c : Cfg) (f s n m : Nat) (chain : List Nat) (nms : List (Nat × Option (List Nat)))
    (evs : List Ev) {e : Err}
    (h : loadChain c f s n none chain = .error e) :
    runEvs c (f+1) s n m (.frm chain nms :: evs) = .error e := by simp only [runEvs, h]

theorem runEvs_frm_err2 (c : Cfg) (f s n m : Nat) (chain : List Nat) (nms : List (Nat × Option (List Nat)))
    (evs : List Ev) {s2 n2 : Nat} {e : Err}
    (h : loadChain c f s n none chain = .ok (s2, n2))
    (h2 : fromNames c f s2 n2 (chain.getLastD 0) nms = .error e) :
    runEvs c (f+1) s n m (.frm chain nms :: evs) = .error e := by simp only [runEvs, h, h2]

theorem runEvs_use (c : Cfg) (f s n m : Nat) (steps : List (Nat × Nat × Option Nat)) (evs : List Ev) :
    runEvs c (f+1) s n m (.use steps :: evs) =
      if useOk c.stride n steps then runEvs c f s n m evs else .error .attributeError := by simp only [runEvs]

theorem fromNames_zero (c : Cfg) (s n tgt : Nat) (nms : List (Nat × Option (List Nat))) :
    fromNames c 0 s n tgt nms = .error .fuel := by simp only [fromNames]

theorem fromNames_nil (c : Cfg) (f s n tgt : Nat) : fromNames c (f+1) s n tgt [] = .ok (s, n) := by
  simp only [fromNames]

theorem fromNames_skip (c : Cfg) (f s n tgt nm : Nat) (sub : Option (List Nat))
    (rest : List (Nat × Option (List Nat))) (h : (nm == 0 || has c.stride n tgt nm) = true) :
    fromNames c (f+1) s n tgt ((nm, sub) :: rest) = fromNames c f s n tgt rest := by
  cases sub <;> simp only [fromNames, h, if_true]

theorem fromNames_none (c : Cfg) (f s n tgt nm : Nat)
    (rest : List (Nat × Option (List Nat))) (h : (nm == 0 || has c.stride n tgt nm) = false) :
    fromNames c (f+1) s n tgt ((nm, none) :: rest) = .error .importError := by
  simp only [fromNames, h]; simp

theorem fromNames_some_ok (c : Cfg) (f s n tgt nm : Nat) (ch : List Nat)
    (rest : List (Nat × Option (List Nat))) (h : (nm == 0 || has c.stride n tgt nm) = false) {s2 n2 : Nat}
    (hl : loadChain c f s n none ch = .ok (s2, n2)) :
    fromNames c (f+1) s n tgt ((nm, some ch) :: rest) = fromNames c f s2 n2 tgt rest := by
  simp only [fromNames, h, hl]; simp

theorem fromNames_some_err (c : Cfg) (f s n tgt nm : Nat) (ch : List Nat)
    (rest : List (Nat × Option (List Nat))) (h : (nm == 0 || has c.stride n tgt nm) = false) {e : Err}
    (hl : loadChain c f s n none ch = .error e) :
    fromNames c (f+1) s n tgt ((nm, some ch) :: rest) = .error e := by
  simp only [fromNames, h, hl]; simp


/-! ## bit facts -/

def Sub (a b : Nat) : Prop := ∀ i, Nat.testBit a i = true → Nat.testBit b i = true

theorem Sub.refl (a : Nat) : Sub a a := fun _ h => h
theorem Sub.trans {a b d : Nat} (h1 : Sub a b) (h2 : Sub b d) : Sub a d := fun i h => h2 i (h1 i h)
theorem Sub.zero (a : Nat) : Sub 0 a := fun i h => by simp at h

theorem testBit_setBit (s m i : Nat) :
    Nat.testBit (s ||| (1 <<< m)) i = (Nat.testBit s i || decide (m = i)) := by
  rw [Nat.testBit_or, Nat.one_shiftLeft, Nat.testBit_two_pow]

theorem testBit_setBit_self (s m : Nat) : Nat.testBit (s ||| (1 <<< m)) m = true := by
  rw [testBit_setBit]; simp

theorem Sub.setBit (s m : Nat) : Sub s (s ||| (1 <<< m)) := fun i h => by
  rw [testBit_setBit, h]; rfl

theorem Sub.setBit_both {a b : Nat} (h : Sub a b) (m : Nat) : Sub (a ||| (1 <<< m)) (b ||| (1 <<< m)) := fun i hi => by
  rw [testBit_setBit] at *
  cases ha : Nat.testBit a i
  · rw [ha] at hi; simp at hi; simp [hi]
  · rw [h i ha]; rfl

theorem Sub.setBit_left {a b : Nat} (h : Sub a b) {m : Nat} (hm : Nat.testBit b m = true) :
    Sub (a ||| (1 <<< m)) b := fun i hi => by
  rw [testBit_setBit] at hi
  cases ha : Nat.testBit a i
  · rw [ha] at hi; simp at hi; rw [← hi]; exact hm
  · exact h i ha

theorem has_add (stride names m k m' k' : Nat) :
    has stride (add stride names m k) m' k' = (has stride names m' k' || decide (m * stride + k = m' * stride + k')) := by
  unfold has add; rw [testBit_setBit]

theorem has_add_self (stride names m k : Nat) : has stride (add stride names m k) m k = true := by
  rw [has_add]; simp

theorem Sub.addN (stride names m k : Nat) : Sub names (add stride names m k) := Sub.setBit _ _

theorem Sub.addN_both {a b : Nat} (h : Sub a b) (stride m k : Nat) : Sub (add stride a m k) (add stride b m k) :=
  Sub.setBit_both h _

theorem Sub.addN_left {a b : Nat} (h : Sub a b) {stride m k : Nat} (hb : has stride b m k = true) :
    Sub (add stride a m k) b := Sub.setBit_left h hb

theorem has_mono {a b : Nat} (h : Sub a b) {stride m k : Nat} (ha : has stride a m k = true) :
    has stride b m k = true := h _ ha

theorem enc_inj {stride p a q b : Nat} (ha : a < stride) (hb : b < stride)
    (h : p * stride + a = q * stride + b) : p = q ∧ a = b := by
  have h1 : (p * stride + a) / stride = p := by
    rw [Nat.mul_comm, Nat.mul_add_div (by omega), Nat.div_eq_of_lt ha]; rfl
  have h2 : (q * stride + b) / stride = q := by
    rw [Nat.mul_comm, Nat.mul_add_div (by omega), Nat.div_eq_of_lt hb]; rfl
  have hpq : p = q := by rw [← h1, ← h2, h]
  subst hpq
  exact ⟨rfl, by omega⟩

theorem useOk_mono {a b : Nat} (h : Sub a b) (stride : Nat) :
    ∀ steps, useOk stride a steps = true → useOk stride b steps = true
  | [], _ => by simp [useOk]
  | (cur, x, nxt) :: rest, hs => by
    unfold useOk at hs ⊢
    cases hh : has stride a cur x
    · rw [hh] at hs; simp at hs
    · rw [hh] at hs; rw [has_mono h hh]
      cases nxt with
      | none => simp
      | some _ => simp only [if_true] at hs ⊢; exact useOk_mono h stride rest hs


/-! ## static (decidable) well-formedness of the table

`par` is the parent table: `par[m] = some p` when `m` is a submodule of package `p`, `none` for a root. -/

abbrev Par := List (Option Nat)

def optEq : Option Nat → Option Nat → Bool
  | none, none => true
  | some a, some b => Nat.beq a b
  | _, _ => false

theorem optEq_iff {a b : Option Nat} : optEq a b = true ↔ a = b := by
  cases a <;> cases b <;> simp [optEq]

/-- `chain` is a path in the package tree; the element before its head is `parent` -/
def pathOk (par : Par) : Option Nat → List Nat → Bool
  | _, [] => true
  | parent, m :: rest => optEq (par.getD m none) parent && pathOk par (some m) rest

theorem pathOk_cons {par : Par} {parent : Option Nat} {m : Nat} {rest : List Nat}
    (h : pathOk par parent (m :: rest) = true) : par.getD m none = parent ∧ pathOk par (some m) rest = true := by
  simp only [pathOk, Bool.and_eq_true, optEq_iff] at h; exact h

/-- no module with parent `m` has short name `k` (parallel walk over `par` and `short`; `short` must not be shorter) -/
def noKid (m k : Nat) : Par → List Nat → Bool
  | [], _ => true
  | _ :: _, [] => false
  | p :: ps, s :: ss => !(optEq p (some m) && Nat.beq s k) && noKid m k ps ss

theorem noKid_spec {m k : Nat} : ∀ {par : Par} {short : List Nat}, noKid m k par short = true →
    ∀ x, par.getD x none = some m → short.getD x 0 ≠ k
  | [], _, _, x, hx => by simp at hx
  | _ :: _, [], h, _, _ => by simp [noKid] at h
  | p :: ps, s :: ss, h, x, hx => by
    simp only [noKid, Bool.and_eq_true, Bool.not_eq_true'] at h
    cases x with
    | zero =>
      simp only [List.getD_cons_zero] at hx ⊢
      intro hs; subst hs; subst hx
      have : optEq (some m) (some m) = true := optEq_iff.mpr rfl
      simp [this] at h
    | succ x =>
      simp only [List.getD_cons_succ] at hx ⊢
      exact noKid_spec h.2 x hx

/-- `(parent, short name)` determines the module -/
def uniqKids : Par → List Nat → Bool
  | [], _ => true
  | _ :: _, [] => false
  | p :: ps, s :: ss => (match p with | none => true | some m => noKid m s ps ss) && uniqKids ps ss

theorem uniqKids_lt : ∀ {par : Par} {short : List Nat}, uniqKids par short = true →
    ∀ x y p, x < y → par.getD x none = some p → par.getD y none = some p → short.getD x 0 ≠ short.getD y 0
  | [], _, _, x, _, _, _, hx, _ => by simp at hx
  | _ :: _, [], h, _, _, _, _, _, _ => by simp [uniqKids] at h
  | q :: ps, s :: ss, h, x, y, p, hxy, hx, hy => by
    simp only [uniqKids, Bool.and_eq_true] at h
    cases y with
    | zero => omega
    | succ y =>
      cases x with
      | zero =>
        simp only [List.getD_cons_zero, List.getD_cons_succ] at hx hy ⊢
        subst hx
        exact fun e => noKid_spec h.1 y hy e.symm
      | succ x =>
        simp only [List.getD_cons_succ] at hx hy ⊢
        exact uniqKids_lt h.2 x y p (by omega) hx hy

theorem uniqKids_spec {par : Par} {short : List Nat} (h : uniqKids par short = true) (x y p : Nat)
    (hx : par.getD x none = some p) (hy : par.getD y none = some p) (e : short.getD x 0 = short.getD y 0) : x = y := by
  rcases Nat.lt_trichotomy x y with hlt | heq | hgt
  · exact absurd e (uniqKids_lt h x y p hlt hx hy)
  · exact heq
  · exact absurd e.symm (uniqKids_lt h y x p hgt hy hx)

/-- an item `(name, some chain')` of `from chain import name`: `chain' = chain ++ [x]`, `x` is called `name` and its parent is
the last module of `chain` -/
def itemOk (c : Cfg) (par : Par) (chain : List Nat) : Nat × Option (List Nat) → Bool
  | (_, none) => true
  | (nm, some ch') =>
    let x := ch'.getLastD 0
    (ch' == chain ++ [x]) && Nat.beq (c.short.getD x 0) nm && optEq (par.getD x none) (some (chain.getLastD 0))
      && pathOk par none ch'

/-- bitset of all `(parent, short name of a child)` pairs (same encoding as the `names` mask) -/
def kidBits (stride : Nat) : Par → List Nat → Nat
  | [], _ => 0
  | p :: ps, ss =>
    (match p with | none => 0 | some q => 1 <<< (q * stride + ss.headD 0)) ||| kidBits stride ps ss.tail

theorem kidBits_spec {stride : Nat} : ∀ {par : Par} {short : List Nat} (x q : Nat), par.getD x none = some q →
    Nat.testBit (kidBits stride par short) (q * stride + short.getD x 0) = true
  | [], _, x, q, hx => by simp at hx
  | p :: ps, ss, x, q, hx => by
    unfold kidBits
    rw [Nat.testBit_or]
    cases x with
    | zero =>
      simp only [List.getD_cons_zero] at hx
      subst hx
      have : ss.getD 0 0 = ss.headD 0 := by cases ss <;> rfl
      simp only [this, Nat.one_shiftLeft, Nat.testBit_two_pow, decide_true, Bool.true_or]
    | succ x =>
      simp only [List.getD_cons_succ] at hx
      have e : ss.getD (x+1) 0 = ss.tail.getD x 0 := by cases ss <;> simp
      rw [e, kidBits_spec x q hx]; simp

/-- force a `Nat` to a literal before continuing (kernel evaluation is call-by-name) -/
def force (n : Nat) (k : Nat → Bool) : Bool :=
  match n with
  | 0 => k 0
  | n' + 1 => k (n' + 1)

theorem force_eq (n : Nat) (k : Nat → Bool) : force n k = k n := by cases n <;> rfl

/-- force a parent table to a literal -/
def forcePar : Par → (Par → Bool) → Bool
  | [], k => k []
  | none :: ps, k => forcePar ps (fun r => k (none :: r))
  | some a :: ps, k => force a (fun a' => forcePar ps (fun r => k (some a' :: r)))

theorem forcePar_eq : ∀ (par : Par) (k : Par → Bool), forcePar par k = k par
  | [], k => rfl
  | none :: ps, k => by simp only [forcePar]; rw [forcePar_eq ps]
  | some a :: ps, k => by simp only [forcePar, force_eq]; rw [forcePar_eq ps]

/-- well-formedness of one event of the body of module `m`; `kb = kidBits …` -/
def evOk (c : Cfg) (par : Par) (kb : Nat) (m : Nat) : Ev → Bool
  | .imp chain => pathOk par none chain
  | .frm chain nms => pathOk par none chain && nms.all (itemOk c par chain)
  | .bind k => Nat.blt k c.stride && !(Nat.testBit kb (m * c.stride + k))
  | .use _ => true
  | .missing => true

/-- every event of every body is well-formed (indices from `List.range`, so that the kernel sees literals) -/
def bodiesOk (c : Cfg) (par : Par) (kb : Nat) : Bool :=
  (List.range c.tbl.length).all (fun m => (c.tbl.getD m []).all (evOk c par kb m))

theorem bodiesOk_spec {c : Cfg} {par : Par} {kb : Nat} (h : bodiesOk c par kb = true) :
    ∀ m, ∀ ev ∈ c.tbl.getD m [], evOk c par kb m ev = true := by
  intro m ev hev
  simp only [bodiesOk, List.all_eq_true, List.mem_range] at h
  by_cases hm : m < c.tbl.length
  · exact h m hm ev hev
  · have e : c.tbl.getD m [] = [] := by simp [List.getD, Nat.le_of_not_lt hm]
    rw [e] at hev; simp at hev

/-- the decidable side condition of the history theorem (parent table already a literal) -/
def staticOk' (c : Cfg) (chains : List (List Nat)) (par : Par) : Bool :=
  chains.all (pathOk par none) &&
    force (kidBits c.stride par c.short) (fun kb => bodiesOk c par kb) && uniqKids par c.short
    && c.short.all (fun s => Nat.blt s c.stride) && Nat.blt 0 c.stride

/-- the decidable side condition of the history theorem -/
def staticOk (c : Cfg) (par : Par) (chains : List (List Nat)) : Bool := forcePar par (staticOk' c chains)

theorem blt_iff {a b : Nat} : Nat.blt a b = true ↔ a < b := by
  simp only [Nat.blt, Nat.ble_eq]; omega

structure Static (c : Cfg) (par : Par) (chains : List (List Nat)) : Prop where
  chains : ∀ ch ∈ chains, pathOk par none ch = true
  body : ∀ m, ∀ ev ∈ c.tbl.getD m [], evOk c par (kidBits c.stride par c.short) m ev = true
  uniq : ∀ x y p, par.getD x none = some p → par.getD y none = some p →
    c.short.getD x 0 = c.short.getD y 0 → x = y
  shortLt : ∀ x, c.short.getD x 0 < c.stride

theorem static_of_ok {c : Cfg} {par : Par} {chains : List (List Nat)} (h : staticOk c par chains = true) :
    Static c par chains := by
  simp only [staticOk, forcePar_eq, staticOk', force_eq, Bool.and_eq_true, List.all_eq_true] at h
  obtain ⟨⟨⟨⟨h1, h2⟩, h3⟩, h4⟩, h5⟩ := h
  refine ⟨h1, bodiesOk_spec h2, uniqKids_spec h3, ?_⟩
  intro x
  rw [blt_iff] at h5
  by_cases hx : x < c.short.length
  · have e : c.short.getD x 0 = c.short[x] := by simp [List.getD, hx]
    rw [e]
    exact blt_iff.mp (h4 _ (List.getElem_mem hx))
  · have e : c.short.getD x 0 = 0 := by simp [List.getD, Nat.le_of_not_lt hx]
    rw [e]; exact h5

/-- what a well-formed `bind` gives -/
theorem evOk_bind {c : Cfg} {par : Par} {m k : Nat}
    (h : evOk c par (kidBits c.stride par c.short) m (.bind k) = true) :
    k < c.stride ∧ ∀ x, par.getD x none = some m → c.short.getD x 0 ≠ k := by
  simp only [evOk, Bool.and_eq_true, blt_iff, Bool.not_eq_true'] at h
  refine ⟨h.1, fun x hx e => ?_⟩
  have := kidBits_spec (stride := c.stride) (short := c.short) x m hx
  rw [e, h.2] at this
  exact absurd this (by simp)


/-! ## the invariants -/

def seenAll (s : Nat) (l : List Nat) : Prop := ∀ y ∈ l, Nat.testBit s y = true

theorem seenAll.mono {s s' : Nat} {l : List Nat} (h : Sub s s') (hl : seenAll s l) : seenAll s' l :=
  fun y hy => h y (hl y hy)

/-- an item of a `from … import` is fulfilled in the state -/
def ItemSat (c : Cfg) (s n tgt : Nat) : Nat × Option (List Nat) → Prop
  | (nm, none) => nm = 0 ∨ has c.stride n tgt nm = true
  | (nm, some ch') => nm = 0 ∨ seenAll s ch'

/-- an event of the body of `m` is fulfilled in the state: running it again would change nothing -/
def EvSat (c : Cfg) (s n m : Nat) : Ev → Prop
  | .bind k => has c.stride n m k = true
  | .imp chain => seenAll s chain
  | .frm chain nms => seenAll s chain ∧ ∀ it ∈ nms, ItemSat c s n (chain.getLastD 0) it
  | .use _ => True
  | .missing => True

theorem ItemSat.mono {c : Cfg} {s n s' n' tgt : Nat} (hs : Sub s s') (hn : Sub n n') :
    ∀ {it : Nat × Option (List Nat)}, ItemSat c s n tgt it → ItemSat c s' n' tgt it
  | (_, none), h => h.imp id (has_mono hn)
  | (_, some _), h => h.imp id (seenAll.mono hs)

theorem EvSat.mono {c : Cfg} {s n s' n' m : Nat} (hs : Sub s s') (hn : Sub n n') :
    ∀ {ev : Ev}, EvSat c s n m ev → EvSat c s' n' m ev
  | .bind _, h => has_mono hn h
  | .imp _, h => seenAll.mono hs h
  | .frm _ _, h => ⟨seenAll.mono hs h.1, fun it hit => ItemSat.mono hs hn (h.2 it hit)⟩
  | .use _, _ => trivial
  | .missing, _ => trivial

/-- the parent package of `x` has the attribute `x` -/
def parAttr (c : Cfg) (par : Par) (n x : Nat) : Prop :=
  ∀ p, par.getD x none = some p → has c.stride n p (c.short.getD x 0) = true

/-- `x` is in `sys.modules`, every event of its body is fulfilled and it is an attribute of its parent -/
def Done (c : Cfg) (par : Par) (s n x : Nat) : Prop :=
  Nat.testBit s x = true ∧ (∀ ev ∈ c.tbl.getD x [], EvSat c s n x ev) ∧ parAttr c par n x

theorem Done.mono {c : Cfg} {par : Par} {s n s' n' x : Nat} (hs : Sub s s') (hn : Sub n n')
    (h : Done c par s n x) : Done c par s' n' x :=
  ⟨hs x h.1, fun ev hev => EvSat.mono hs hn (h.2.1 ev hev), fun p hp => has_mono hn (h.2.2 p hp)⟩

/-- every module in `sys.modules` that is not in progress (`P`) is `Done` -/
def Good (c : Cfg) (par : Par) (s n : Nat) (P : Nat → Prop) : Prop :=
  ∀ x, Nat.testBit s x = true → ¬ P x → Done c par s n x

/-- a set child attribute means the child is in `sys.modules` -/
def AttrInv (c : Cfg) (par : Par) (s n : Nat) : Prop :=
  ∀ x p, par.getD x none = some p → has c.stride n p (c.short.getD x 0) = true → Nat.testBit s x = true

theorem AttrInv.mono_seen {c : Cfg} {par : Par} {s s' n : Nat} (hs : Sub s s') (h : AttrInv c par s n) :
    AttrInv c par s' n := fun x p hp hh => hs x (h x p hp hh)

theorem AttrInv.bind {c : Cfg} {par : Par} {chains : List (List Nat)} (st : Static c par chains) {s n m k : Nat}
    (hk : evOk c par (kidBits c.stride par c.short) m (.bind k) = true) (h : AttrInv c par s n) :
    AttrInv c par s (add c.stride n m k) := by
  intro x p hp hh
  rw [has_add] at hh
  cases ho : has c.stride n p (c.short.getD x 0)
  · rw [ho] at hh
    simp only [Bool.false_or, decide_eq_true_eq] at hh
    obtain ⟨hk1, hk2⟩ := evOk_bind hk
    obtain ⟨e1, e2⟩ := enc_inj hk1 (st.shortLt x) hh
    subst e1
    exact absurd e2.symm (hk2 x hp)
  · exact h x p hp ho

theorem AttrInv.attr {c : Cfg} {par : Par} {chains : List (List Nat)} (st : Static c par chains) {s n m : Nat}
    {parent : Option Nat} (hm : Nat.testBit s m = true) (hpar : par.getD m none = parent) (h : AttrInv c par s n) :
    AttrInv c par s (attrAdd c parent n m) := by
  cases parent with
  | none => exact h
  | some q =>
    intro x p hp hh
    simp only [attrAdd] at hh
    rw [has_add] at hh
    cases ho : has c.stride n p (c.short.getD x 0)
    · rw [ho] at hh
      simp only [Bool.false_or, decide_eq_true_eq] at hh
      obtain ⟨e1, e2⟩ := enc_inj (st.shortLt m) (st.shortLt x) hh
      subst e1
      have := st.uniq x m q hp hpar e2.symm
      subst this; exact hm
    · exact h x p hp ho

theorem Sub.attrA (c : Cfg) (parent : Option Nat) (n m : Nat) : Sub n (attrAdd c parent n m) := by
  cases parent with
  | none => exact Sub.refl _
  | some p => exact Sub.addN _ _ _ _

theorem Sub.attrA_both {a b : Nat} (h : Sub a b) (c : Cfg) (parent : Option Nat) (m : Nat) :
    Sub (attrAdd c parent a m) (attrAdd c parent b m) := by
  cases parent with
  | none => exact h
  | some p => exact Sub.addN_both h _ _ _

theorem itemOk_some {c : Cfg} {par : Par} {chain ch' : List Nat} {nm : Nat}
    (h : itemOk c par chain (nm, some ch') = true) :
    pathOk par none ch' = true ∧ ∃ x, ch' = chain ++ [x] ∧ c.short.getD x 0 = nm ∧
      par.getD x none = some (chain.getLastD 0) := by
  simp only [itemOk, Bool.and_eq_true, optEq_iff, beq_iff_eq] at h
  obtain ⟨⟨⟨h1, h2⟩, h3⟩, h4⟩ := h
  exact ⟨h4, _, h1, Nat.eq_of_beq_eq_true h2, h3⟩

/-- `from chain import nm` finds the attribute `nm` set: then the submodule of that name is in `sys.modules` -/
theorem item_seen {c : Cfg} {par : Par} {chain ch' : List Nat} {nm s n : Nat}
    (h : itemOk c par chain (nm, some ch') = true) (ha : AttrInv c par s n) (hc : seenAll s chain)
    (hh : has c.stride n (chain.getLastD 0) nm = true) : seenAll s ch' := by
  obtain ⟨_, x, e, hs, hp⟩ := itemOk_some h
  subst e
  intro y hy
  rcases List.mem_append.mp hy with hy | hy
  · exact hc y hy
  · simp only [List.mem_singleton] at hy
    subst hy
    exact ha y _ hp (by rw [hs]; exact hh)


/-! ## `Pres`: a successful run keeps `Good` and `AttrInv` and fulfils what it ran -/

section Pres
variable {c : Cfg} {par : Par} {chains : List (List Nat)}

def PresChain (c : Cfg) (par : Par) (f : Nat) : Prop :=
  ∀ (s n : Nat) (parent : Option Nat) (chain : List Nat) (s' n' : Nat) (P : Nat → Prop),
    pathOk par parent chain = true → Good c par s n P → AttrInv c par s n →
    loadChain c f s n parent chain = .ok (s', n') →
    Sub s s' ∧ Sub n n' ∧ Good c par s' n' P ∧ AttrInv c par s' n' ∧ seenAll s' chain

def PresEvs (c : Cfg) (par : Par) (f : Nat) : Prop :=
  ∀ (s n m : Nat) (evs : List Ev) (s' n' : Nat) (P : Nat → Prop),
    (∀ ev ∈ evs, evOk c par (kidBits c.stride par c.short) m ev = true) → Good c par s n P → AttrInv c par s n →
    runEvs c f s n m evs = .ok (s', n') →
    Sub s s' ∧ Sub n n' ∧ Good c par s' n' P ∧ AttrInv c par s' n' ∧ ∀ ev ∈ evs, EvSat c s' n' m ev

def PresFrom (c : Cfg) (par : Par) (f : Nat) : Prop :=
  ∀ (s n : Nat) (chain : List Nat) (nms : List (Nat × Option (List Nat))) (s' n' : Nat) (P : Nat → Prop),
    (∀ it ∈ nms, itemOk c par chain it = true) → seenAll s chain → Good c par s n P → AttrInv c par s n →
    fromNames c f s n (chain.getLastD 0) nms = .ok (s', n') →
    Sub s s' ∧ Sub n n' ∧ Good c par s' n' P ∧ AttrInv c par s' n' ∧
      ∀ it ∈ nms, ItemSat c s' n' (chain.getLastD 0) it

theorem Good.mono {s n s' n' : Nat} {P : Nat → Prop} (hs : Sub s s') (hn : Sub n n')
    (hnew : ∀ x, Nat.testBit s' x = true → Nat.testBit s x = false → P x)
    (h : Good c par s n P) : Good c par s' n' P := by
  intro x hx hP
  cases hsx : Nat.testBit s x
  · exact absurd (hnew x hx hsx) hP
  · exact (h x hsx hP).mono hs hn

theorem Good.names {s n n' : Nat} {P : Nat → Prop} (hn : Sub n n') (h : Good c par s n P) : Good c par s n' P :=
  Good.mono (Sub.refl _) hn (fun x hx hx' => by rw [hx] at hx'; cases hx') h

theorem presChain_succ (st : Static c par chains) {f : Nat} (ihC : PresChain c par f) (ihE : PresEvs c par f) :
    PresChain c par (f+1) := by
  intro s n parent chain s' n' P hp G A h
  cases chain with
  | nil =>
    rw [loadChain_nil] at h
    cases h
    exact ⟨Sub.refl _, Sub.refl _, G, A, fun y hy => by cases hy⟩
  | cons m rest =>
    obtain ⟨hpar, hrest⟩ := pathOk_cons hp
    cases hm : Nat.testBit s m
    · cases hr : runEvs c f (s ||| (1 <<< m)) n m (c.tbl.getD m []) with
      | error e => rw [loadChain_err c f s n parent m rest hm hr] at h; cases h
      | ok r =>
        obtain ⟨s2, n2⟩ := r
        rw [loadChain_new c f s n parent m rest hm hr] at h
        have G1 : Good c par (s ||| (1 <<< m)) n (fun x => P x ∨ x = m) := by
          intro x hx hP
          rw [testBit_setBit] at hx
          cases hsx : Nat.testBit s x
          · rw [hsx] at hx; simp only [Bool.false_or, decide_eq_true_eq] at hx
            exact absurd (Or.inr hx.symm) hP
          · exact (G x hsx (fun hp => hP (Or.inl hp))).mono (Sub.setBit _ _) (Sub.refl _)
        have A1 : AttrInv c par (s ||| (1 <<< m)) n := A.mono_seen (Sub.setBit _ _)
        obtain ⟨hs12, hn12, G2, A2, E2⟩ := ihE _ _ _ _ _ _ _ (st.body m) G1 A1 hr
        have hm2 : Nat.testBit s2 m = true := hs12 _ (testBit_setBit_self _ _)
        have A3 : AttrInv c par s2 (attrAdd c parent n2 m) := A2.attr st hm2 hpar
        have hn23 : Sub n2 (attrAdd c parent n2 m) := Sub.attrA _ _ _ _
        have G3 : Good c par s2 (attrAdd c parent n2 m) P := by
          intro x hx hP
          by_cases hxm : x = m
          · subst hxm
            refine ⟨hm2, fun ev hev => EvSat.mono (Sub.refl _) hn23 (E2 ev hev), ?_⟩
            intro p hp
            rw [hpar] at hp; subst hp
            exact has_add_self _ _ _ _
          · exact (G2 x hx (fun h => h.elim hP hxm)).mono (Sub.refl _) hn23
        obtain ⟨hs3, hn3, G4, A4, S4⟩ := ihC _ _ _ _ _ _ _ hrest G3 A3 h
        refine ⟨((Sub.setBit _ _).trans hs12).trans hs3, (hn12.trans hn23).trans hn3, G4, A4, ?_⟩
        intro y hy
        rcases List.mem_cons.mp hy with hy | hy
        · subst hy; exact hs3 _ hm2
        · exact S4 y hy
    · rw [loadChain_seen c f s n parent m rest hm] at h
      obtain ⟨hs3, hn3, G4, A4, S4⟩ := ihC _ _ _ _ _ _ _ hrest G A h
      refine ⟨hs3, hn3, G4, A4, ?_⟩
      intro y hy
      rcases List.mem_cons.mp hy with hy | hy
      · subst hy; exact hs3 _ hm
      · exact S4 y hy

theorem presEvs_succ (st : Static c par chains) {f : Nat} (ihC : PresChain c par f) (ihE : PresEvs c par f)
    (ihF : PresFrom c par f) : PresEvs c par (f+1) := by
  intro s n m evs s' n' P hok G A h
  cases evs with
  | nil =>
    rw [runEvs_nil] at h
    cases h
    exact ⟨Sub.refl _, Sub.refl _, G, A, fun y hy => by cases hy⟩
  | cons ev evs =>
    have hok1 := hok ev (List.mem_cons_self ..)
    have hok2 : ∀ ev ∈ evs, evOk c par (kidBits c.stride par c.short) m ev = true :=
      fun e he => hok e (List.mem_cons_of_mem _ he)
    cases ev with
    | missing => rw [runEvs_missing] at h; cases h
    | bind k =>
      rw [runEvs_bind] at h
      obtain ⟨hs, hn, G2, A2, E2⟩ := ihE _ _ _ _ _ _ _ hok2 (G.names (Sub.addN _ _ _ _)) (A.bind st hok1) h
      refine ⟨hs, (Sub.addN _ _ _ _).trans hn, G2, A2, ?_⟩
      intro e he
      rcases List.mem_cons.mp he with he | he
      · subst he; exact has_mono hn (has_add_self _ _ _ _)
      · exact E2 e he
    | imp chain =>
      cases hl : loadChain c f s n none chain with
      | error e => rw [runEvs_imp_err c f s n m chain evs hl] at h; cases h
      | ok r =>
        obtain ⟨s2, n2⟩ := r
        rw [runEvs_imp_ok c f s n m chain evs hl] at h
        obtain ⟨hs1, hn1, G1, A1, S1⟩ := ihC _ _ _ _ _ _ _ hok1 G A hl
        obtain ⟨hs, hn, G2, A2, E2⟩ := ihE _ _ _ _ _ _ _ hok2 G1 A1 h
        refine ⟨hs1.trans hs, hn1.trans hn, G2, A2, ?_⟩
        intro e he
        rcases List.mem_cons.mp he with he | he
        · subst he; exact S1.mono hs
        · exact E2 e he
    | frm chain nms =>
      simp only [evOk, Bool.and_eq_true, List.all_eq_true] at hok1
      cases hl : loadChain c f s n none chain with
      | error e => rw [runEvs_frm_err1 c f s n m chain nms evs hl] at h; cases h
      | ok r =>
        obtain ⟨s2, n2⟩ := r
        obtain ⟨hs1, hn1, G1, A1, S1⟩ := ihC _ _ _ _ _ _ _ hok1.1 G A hl
        cases hf : fromNames c f s2 n2 (chain.getLastD 0) nms with
        | error e => rw [runEvs_frm_err2 c f s n m chain nms evs hl hf] at h; cases h
        | ok r3 =>
          obtain ⟨s3, n3⟩ := r3
          rw [runEvs_frm_ok c f s n m chain nms evs hl hf] at h
          obtain ⟨hs2, hn2, G2, A2, I2⟩ := ihF _ _ _ _ _ _ _ hok1.2 S1 G1 A1 hf
          obtain ⟨hs, hn, G3, A3, E3⟩ := ihE _ _ _ _ _ _ _ hok2 G2 A2 h
          refine ⟨(hs1.trans hs2).trans hs, (hn1.trans hn2).trans hn, G3, A3, ?_⟩
          intro e he
          rcases List.mem_cons.mp he with he | he
          · subst he
            exact ⟨S1.mono (hs2.trans hs), fun it hit => ItemSat.mono hs hn (I2 it hit)⟩
          · exact E3 e he
    | use steps =>
      rw [runEvs_use] at h
      cases hu : useOk c.stride n steps
      · rw [hu] at h; cases h
      · rw [hu] at h
        simp only [if_true] at h
        obtain ⟨hs, hn, G2, A2, E2⟩ := ihE _ _ _ _ _ _ _ hok2 G A h
        refine ⟨hs, hn, G2, A2, ?_⟩
        intro e he
        rcases List.mem_cons.mp he with he | he
        · subst he; trivial
        · exact E2 e he

theorem presFrom_succ {f : Nat} (ihC : PresChain c par f) (ihF : PresFrom c par f) : PresFrom c par (f+1) := by
  intro s n chain nms s' n' P hok hch G A h
  cases nms with
  | nil =>
    rw [fromNames_nil] at h
    cases h
    exact ⟨Sub.refl _, Sub.refl _, G, A, fun y hy => by cases hy⟩
  | cons it rest =>
    obtain ⟨nm, sub⟩ := it
    have hok1 := hok _ (List.mem_cons_self ..)
    have hok2 : ∀ it ∈ rest, itemOk c par chain it = true := fun e he => hok e (List.mem_cons_of_mem _ he)
    cases hc : (nm == 0 || has c.stride n (chain.getLastD 0) nm)
    · cases sub with
      | none => rw [fromNames_none c f s n _ nm rest hc] at h; cases h
      | some ch' =>
        cases hl : loadChain c f s n none ch' with
        | error e => rw [fromNames_some_err c f s n _ nm ch' rest hc hl] at h; cases h
        | ok r =>
          obtain ⟨s2, n2⟩ := r
          rw [fromNames_some_ok c f s n _ nm ch' rest hc hl] at h
          obtain ⟨hs1, hn1, G1, A1, S1⟩ := ihC _ _ _ _ _ _ _ (itemOk_some hok1).1 G A hl
          obtain ⟨hs, hn, G2, A2, I2⟩ := ihF _ _ _ _ _ _ _ hok2 (hch.mono hs1) G1 A1 h
          refine ⟨hs1.trans hs, hn1.trans hn, G2, A2, ?_⟩
          intro e he
          rcases List.mem_cons.mp he with he | he
          · subst he; exact Or.inr (S1.mono hs)
          · exact I2 e he
    · rw [fromNames_skip c f s n _ nm sub rest hc] at h
      obtain ⟨hs, hn, G2, A2, I2⟩ := ihF _ _ _ _ _ _ _ hok2 hch G A h
      refine ⟨hs, hn, G2, A2, ?_⟩
      intro e he
      rcases List.mem_cons.mp he with he | he
      · subst he
        simp only [Bool.or_eq_true, beq_iff_eq] at hc
        rcases hc with hc | hc
        · cases sub <;> exact Or.inl hc
        · cases sub with
          | none => exact Or.inr (has_mono hn hc)
          | some ch' => exact Or.inr ((item_seen hok1 A hch hc).mono hs)
      · exact I2 e he

theorem pres (st : Static c par chains) : ∀ f, PresChain c par f ∧ PresEvs c par f ∧ PresFrom c par f := by
  intro f
  induction f with
  | zero =>
    refine ⟨?_, ?_, ?_⟩
    · intro _ _ _ _ _ _ _ _ _ _ h; rw [loadChain_zero] at h; cases h
    · intro _ _ _ _ _ _ _ _ _ _ h; rw [runEvs_zero] at h; cases h
    · intro _ _ _ _ _ _ _ _ _ _ _ h; rw [fromNames_zero] at h; cases h
  | succ f ih =>
    obtain ⟨ihC, ihE, ihF⟩ := ih
    exact ⟨presChain_succ st ihC ihE, presEvs_succ st ihC ihE ihF, presFrom_succ ihC ihF⟩

end Pres


/-! ## the simulation relation -/

/-- run `A` is below run `B`, and what `B` has more than `A` is finished in `B` -/
def R (c : Cfg) (par : Par) (sA nA sB nB : Nat) : Prop :=
  Sub sA sB ∧ Sub nA nB ∧ ∀ x, Nat.testBit sB x = true → Nat.testBit sA x = false → Done c par sB nB x

section Rel
variable {c : Cfg} {par : Par} {chains : List (List Nat)}

theorem R.seen_left {sA nA sB nB m : Nat} (h : R c par sA nA sB nB) (hm : Nat.testBit sB m = true) :
    R c par (sA ||| (1 <<< m)) nA sB nB := by
  refine ⟨Sub.setBit_left h.1 hm, h.2.1, fun x hx hx' => h.2.2 x hx ?_⟩
  cases hsx : Nat.testBit sA x
  · rfl
  · rw [testBit_setBit, hsx] at hx'; simp at hx'

theorem R.names_left {sA nA nA' sB nB : Nat} (h : R c par sA nA sB nB) (hn : Sub nA' nB) :
    R c par sA nA' sB nB := ⟨h.1, hn, h.2.2⟩

theorem R.seen_both {sA nA sB nB : Nat} (h : R c par sA nA sB nB) (m : Nat) :
    R c par (sA ||| (1 <<< m)) nA (sB ||| (1 <<< m)) nB := by
  refine ⟨Sub.setBit_both h.1 m, h.2.1, fun x hx hx' => ?_⟩
  rw [testBit_setBit] at hx hx'
  simp only [Bool.or_eq_false_iff, decide_eq_false_iff_not] at hx'
  have : Nat.testBit sB x = true := by
    cases hb : Nat.testBit sB x
    · rw [hb] at hx; simp only [Bool.false_or, decide_eq_true_eq] at hx; exact absurd hx hx'.2
    · rfl
  exact (h.2.2 x this hx'.1).mono (Sub.setBit _ _) (Sub.refl _)

theorem R.names_both {sA nA sB nB nA' nB' : Nat} (h : R c par sA nA sB nB) (hn : Sub nA' nB') (hB : Sub nB nB') :
    R c par sA nA' sB nB' :=
  ⟨h.1, hn, fun x hx hx' => (h.2.2 x hx hx').mono (Sub.refl _) hB⟩

/-! ## `Skip`: `A` runs something that is already finished in `B` -/

def SkipChain (c : Cfg) (par : Par) (sB nB f : Nat) : Prop :=
  ∀ (sA nA : Nat) (parent : Option Nat) (chain : List Nat) (sA' nA' : Nat),
    pathOk par parent chain = true → R c par sA nA sB nB → seenAll sB chain →
    loadChain c f sA nA parent chain = .ok (sA', nA') → R c par sA' nA' sB nB

def SkipEvs (c : Cfg) (par : Par) (sB nB f : Nat) : Prop :=
  ∀ (sA nA m : Nat) (evs : List Ev) (sA' nA' : Nat),
    (∀ ev ∈ evs, evOk c par (kidBits c.stride par c.short) m ev = true) → R c par sA nA sB nB →
    (∀ ev ∈ evs, EvSat c sB nB m ev) →
    runEvs c f sA nA m evs = .ok (sA', nA') → R c par sA' nA' sB nB

def SkipFrom (c : Cfg) (par : Par) (sB nB f : Nat) : Prop :=
  ∀ (sA nA tgt : Nat) (chain : List Nat) (nms : List (Nat × Option (List Nat))) (sA' nA' : Nat),
    (∀ it ∈ nms, itemOk c par chain it = true) → R c par sA nA sB nB →
    (∀ it ∈ nms, ItemSat c sB nB tgt it) →
    fromNames c f sA nA tgt nms = .ok (sA', nA') → R c par sA' nA' sB nB

theorem skipChain_succ (st : Static c par chains) {sB nB f : Nat} (ihC : SkipChain c par sB nB f)
    (ihE : SkipEvs c par sB nB f) : SkipChain c par sB nB (f+1) := by
  intro sA nA parent chain sA' nA' hp r hseen h
  cases chain with
  | nil => rw [loadChain_nil] at h; cases h; exact r
  | cons m rest =>
    obtain ⟨hpar, hrest⟩ := pathOk_cons hp
    have hseen2 : seenAll sB rest := fun y hy => hseen y (List.mem_cons_of_mem _ hy)
    cases hm : Nat.testBit sA m
    · have hmB : Nat.testBit sB m = true := hseen m (List.mem_cons_self ..)
      have D := r.2.2 m hmB hm
      cases hr : runEvs c f (sA ||| (1 <<< m)) nA m (c.tbl.getD m []) with
      | error e => rw [loadChain_err c f sA nA parent m rest hm hr] at h; cases h
      | ok r2 =>
        obtain ⟨s2, n2⟩ := r2
        rw [loadChain_new c f sA nA parent m rest hm hr] at h
        have r2 := ihE _ _ _ _ _ _ (st.body m) (r.seen_left hmB) D.2.1 hr
        have r3 : R c par s2 (attrAdd c parent n2 m) sB nB := by
          refine r2.names_left ?_
          cases parent with
          | none => exact r2.2.1
          | some p => exact Sub.addN_left r2.2.1 (D.2.2 p hpar)
        exact ihC _ _ _ _ _ _ hrest r3 hseen2 h
    · rw [loadChain_seen c f sA nA parent m rest hm] at h
      exact ihC _ _ _ _ _ _ hrest r hseen2 h

theorem skipEvs_succ {sB nB f : Nat} (ihC : SkipChain c par sB nB f)
    (ihE : SkipEvs c par sB nB f) (ihF : SkipFrom c par sB nB f) : SkipEvs c par sB nB (f+1) := by
  intro sA nA m evs sA' nA' hok r hsat h
  cases evs with
  | nil => rw [runEvs_nil] at h; cases h; exact r
  | cons ev evs =>
    have hok1 := hok ev (List.mem_cons_self ..)
    have hok2 : ∀ ev ∈ evs, evOk c par (kidBits c.stride par c.short) m ev = true :=
      fun e he => hok e (List.mem_cons_of_mem _ he)
    have hsat1 := hsat ev (List.mem_cons_self ..)
    have hsat2 : ∀ ev ∈ evs, EvSat c sB nB m ev := fun e he => hsat e (List.mem_cons_of_mem _ he)
    cases ev with
    | missing => rw [runEvs_missing] at h; cases h
    | bind k =>
      rw [runEvs_bind] at h
      exact ihE _ _ _ _ _ _ hok2 (r.names_left (Sub.addN_left r.2.1 hsat1)) hsat2 h
    | imp chain =>
      cases hl : loadChain c f sA nA none chain with
      | error e => rw [runEvs_imp_err c f sA nA m chain evs hl] at h; cases h
      | ok r2 =>
        obtain ⟨s2, n2⟩ := r2
        rw [runEvs_imp_ok c f sA nA m chain evs hl] at h
        exact ihE _ _ _ _ _ _ hok2 (ihC _ _ _ _ _ _ hok1 r hsat1 hl) hsat2 h
    | frm chain nms =>
      simp only [evOk, Bool.and_eq_true, List.all_eq_true] at hok1
      cases hl : loadChain c f sA nA none chain with
      | error e => rw [runEvs_frm_err1 c f sA nA m chain nms evs hl] at h; cases h
      | ok r2 =>
        obtain ⟨s2, n2⟩ := r2
        cases hf : fromNames c f s2 n2 (chain.getLastD 0) nms with
        | error e => rw [runEvs_frm_err2 c f sA nA m chain nms evs hl hf] at h; cases h
        | ok r3 =>
          obtain ⟨s3, n3⟩ := r3
          rw [runEvs_frm_ok c f sA nA m chain nms evs hl hf] at h
          have q2 := ihC _ _ _ _ _ _ hok1.1 r hsat1.1 hl
          have q3 := ihF _ _ _ _ _ _ _ hok1.2 q2 hsat1.2 hf
          exact ihE _ _ _ _ _ _ hok2 q3 hsat2 h
    | use steps =>
      rw [runEvs_use] at h
      cases hu : useOk c.stride nA steps
      · rw [hu] at h; cases h
      · rw [hu] at h
        simp only [if_true] at h
        exact ihE _ _ _ _ _ _ hok2 r hsat2 h

theorem skipFrom_succ {sB nB f : Nat} (ihC : SkipChain c par sB nB f)
    (ihF : SkipFrom c par sB nB f) : SkipFrom c par sB nB (f+1) := by
  intro sA nA tgt chain nms sA' nA' hok r hsat h
  cases nms with
  | nil => rw [fromNames_nil] at h; cases h; exact r
  | cons it rest =>
    obtain ⟨nm, sub⟩ := it
    have hok1 := hok _ (List.mem_cons_self ..)
    have hok2 : ∀ it ∈ rest, itemOk c par chain it = true := fun e he => hok e (List.mem_cons_of_mem _ he)
    have hsat1 := hsat _ (List.mem_cons_self ..)
    have hsat2 : ∀ it ∈ rest, ItemSat c sB nB tgt it := fun e he => hsat e (List.mem_cons_of_mem _ he)
    cases hc : (nm == 0 || has c.stride nA tgt nm)
    · cases sub with
      | none => rw [fromNames_none c f sA nA _ nm rest hc] at h; cases h
      | some ch' =>
        cases hl : loadChain c f sA nA none ch' with
        | error e => rw [fromNames_some_err c f sA nA _ nm ch' rest hc hl] at h; cases h
        | ok r2 =>
          obtain ⟨s2, n2⟩ := r2
          rw [fromNames_some_ok c f sA nA _ nm ch' rest hc hl] at h
          simp only [Bool.or_eq_false_iff, beq_eq_false_iff_ne] at hc
          have hs : seenAll sB ch' := hsat1.resolve_left hc.1
          exact ihF _ _ _ _ _ _ _ hok2 (ihC _ _ _ _ _ _ (itemOk_some hok1).1 r hs hl) hsat2 h
    · rw [fromNames_skip c f sA nA _ nm sub rest hc] at h
      exact ihF _ _ _ _ _ _ _ hok2 r hsat2 h

theorem skip (st : Static c par chains) (sB nB : Nat) :
    ∀ f, SkipChain c par sB nB f ∧ SkipEvs c par sB nB f ∧ SkipFrom c par sB nB f := by
  intro f
  induction f with
  | zero =>
    refine ⟨?_, ?_, ?_⟩
    · intro _ _ _ _ _ _ _ _ _ h; rw [loadChain_zero] at h; cases h
    · intro _ _ _ _ _ _ _ _ _ h; rw [runEvs_zero] at h; cases h
    · intro _ _ _ _ _ _ _ _ _ _ h; rw [fromNames_zero] at h; cases h
  | succ f ih =>
    obtain ⟨ihC, ihE, ihF⟩ := ih
    exact ⟨skipChain_succ st ihC ihE, skipEvs_succ ihC ihE ihF, skipFrom_succ ihC ihF⟩

end Rel


/-! ## `Sim`: if `A` succeeds and `R A B`, then `B` succeeds with the same fuel and `R` is kept -/

section Sim
variable {c : Cfg} {par : Par} {chains : List (List Nat)}

theorem goodTrue (c : Cfg) (par : Par) (s n : Nat) : Good c par s n (fun _ => True) :=
  fun _ _ h => absurd trivial h

def SimChain (c : Cfg) (par : Par) (f : Nat) : Prop :=
  ∀ (sA nA sB nB : Nat) (parent : Option Nat) (chain : List Nat) (sA' nA' : Nat),
    pathOk par parent chain = true → R c par sA nA sB nB → AttrInv c par sB nB →
    loadChain c f sA nA parent chain = .ok (sA', nA') →
    ∃ sB' nB', loadChain c f sB nB parent chain = .ok (sB', nB') ∧ R c par sA' nA' sB' nB'

def SimEvs (c : Cfg) (par : Par) (f : Nat) : Prop :=
  ∀ (sA nA sB nB m : Nat) (evs : List Ev) (sA' nA' : Nat),
    (∀ ev ∈ evs, evOk c par (kidBits c.stride par c.short) m ev = true) → R c par sA nA sB nB →
    AttrInv c par sB nB →
    runEvs c f sA nA m evs = .ok (sA', nA') →
    ∃ sB' nB', runEvs c f sB nB m evs = .ok (sB', nB') ∧ R c par sA' nA' sB' nB'

def SimFrom (c : Cfg) (par : Par) (f : Nat) : Prop :=
  ∀ (sA nA sB nB : Nat) (chain : List Nat) (nms : List (Nat × Option (List Nat))) (sA' nA' : Nat),
    (∀ it ∈ nms, itemOk c par chain it = true) → seenAll sB chain → R c par sA nA sB nB →
    AttrInv c par sB nB →
    fromNames c f sA nA (chain.getLastD 0) nms = .ok (sA', nA') →
    ∃ sB' nB', fromNames c f sB nB (chain.getLastD 0) nms = .ok (sB', nB') ∧ R c par sA' nA' sB' nB'

theorem simChain_succ (st : Static c par chains) {f : Nat} (ihC : SimChain c par f) (ihE : SimEvs c par f) :
    SimChain c par (f+1) := by
  intro sA nA sB nB parent chain sA' nA' hp r A h
  cases chain with
  | nil => rw [loadChain_nil] at h; cases h; exact ⟨sB, nB, loadChain_nil .., r⟩
  | cons m rest =>
    obtain ⟨hpar, hrest⟩ := pathOk_cons hp
    cases hm : Nat.testBit sA m
    · cases hr : runEvs c f (sA ||| (1 <<< m)) nA m (c.tbl.getD m []) with
      | error e => rw [loadChain_err c f sA nA parent m rest hm hr] at h; cases h
      | ok r2 =>
        obtain ⟨s2, n2⟩ := r2
        rw [loadChain_new c f sA nA parent m rest hm hr] at h
        cases hb : Nat.testBit sB m
        · -- both run the body
          obtain ⟨sB2, nB2, hrB, q2⟩ := ihE _ _ _ _ _ _ _ _ (st.body m) (r.seen_both m)
            (A.mono_seen (Sub.setBit _ _)) hr
          obtain ⟨hsB, _, _, AB2, _⟩ := (pres st f).2.1 _ _ _ _ _ _ _ (st.body m) (goodTrue c par _ _)
            (A.mono_seen (Sub.setBit _ _)) hrB
          have hmB2 : Nat.testBit sB2 m = true := hsB _ (testBit_setBit_self _ _)
          have AB3 : AttrInv c par sB2 (attrAdd c parent nB2 m) := AB2.attr st hmB2 hpar
          have q3 : R c par s2 (attrAdd c parent n2 m) sB2 (attrAdd c parent nB2 m) :=
            q2.names_both (Sub.attrA_both q2.2.1 _ _ _) (Sub.attrA _ _ _ _)
          obtain ⟨sB', nB', hB, q⟩ := ihC _ _ _ _ _ _ _ _ hrest q3 AB3 h
          exact ⟨sB', nB', by rw [loadChain_new c f sB nB parent m rest hb hrB]; exact hB, q⟩
        · -- `B` has `m` finished: `A` runs the body alone
          have D := r.2.2 m hb hm
          have q2 := (skip st sB nB f).2.1 _ _ _ _ _ _ (st.body m) (r.seen_left hb) D.2.1 hr
          have q3 : R c par s2 (attrAdd c parent n2 m) sB nB := by
            refine q2.names_left ?_
            cases parent with
            | none => exact q2.2.1
            | some p => exact Sub.addN_left q2.2.1 (D.2.2 p hpar)
          obtain ⟨sB', nB', hB, q⟩ := ihC _ _ _ _ _ _ _ _ hrest q3 A h
          exact ⟨sB', nB', by rw [loadChain_seen c f sB nB parent m rest hb]; exact hB, q⟩
    · rw [loadChain_seen c f sA nA parent m rest hm] at h
      obtain ⟨sB', nB', hB, q⟩ := ihC _ _ _ _ _ _ _ _ hrest r A h
      exact ⟨sB', nB', by rw [loadChain_seen c f sB nB parent m rest (r.1 m hm)]; exact hB, q⟩

theorem simEvs_succ (st : Static c par chains) {f : Nat} (ihC : SimChain c par f) (ihE : SimEvs c par f)
    (ihF : SimFrom c par f) : SimEvs c par (f+1) := by
  intro sA nA sB nB m evs sA' nA' hok r A h
  cases evs with
  | nil => rw [runEvs_nil] at h; cases h; exact ⟨sB, nB, runEvs_nil .., r⟩
  | cons ev evs =>
    have hok1 := hok ev (List.mem_cons_self ..)
    have hok2 : ∀ ev ∈ evs, evOk c par (kidBits c.stride par c.short) m ev = true :=
      fun e he => hok e (List.mem_cons_of_mem _ he)
    cases ev with
    | missing => rw [runEvs_missing] at h; cases h
    | bind k =>
      rw [runEvs_bind] at h
      obtain ⟨sB', nB', hB, q⟩ := ihE _ _ _ _ _ _ _ _ hok2
        (r.names_both (Sub.addN_both r.2.1 _ _ _) (Sub.addN _ _ _ _)) (A.bind st hok1) h
      exact ⟨sB', nB', by rw [runEvs_bind]; exact hB, q⟩
    | imp chain =>
      cases hl : loadChain c f sA nA none chain with
      | error e => rw [runEvs_imp_err c f sA nA m chain evs hl] at h; cases h
      | ok r2 =>
        obtain ⟨s2, n2⟩ := r2
        rw [runEvs_imp_ok c f sA nA m chain evs hl] at h
        obtain ⟨sB2, nB2, hlB, q2⟩ := ihC _ _ _ _ _ _ _ _ hok1 r A hl
        obtain ⟨_, _, _, AB2, _⟩ := (pres st f).1 _ _ _ _ _ _ _ hok1 (goodTrue c par _ _) A hlB
        obtain ⟨sB', nB', hB, q⟩ := ihE _ _ _ _ _ _ _ _ hok2 q2 AB2 h
        exact ⟨sB', nB', by rw [runEvs_imp_ok c f sB nB m chain evs hlB]; exact hB, q⟩
    | frm chain nms =>
      have hok1' := hok1
      simp only [evOk, Bool.and_eq_true, List.all_eq_true] at hok1'
      cases hl : loadChain c f sA nA none chain with
      | error e => rw [runEvs_frm_err1 c f sA nA m chain nms evs hl] at h; cases h
      | ok r2 =>
        obtain ⟨s2, n2⟩ := r2
        cases hf : fromNames c f s2 n2 (chain.getLastD 0) nms with
        | error e => rw [runEvs_frm_err2 c f sA nA m chain nms evs hl hf] at h; cases h
        | ok r3 =>
          obtain ⟨s3, n3⟩ := r3
          rw [runEvs_frm_ok c f sA nA m chain nms evs hl hf] at h
          obtain ⟨sB2, nB2, hlB, q2⟩ := ihC _ _ _ _ _ _ _ _ hok1'.1 r A hl
          obtain ⟨_, _, _, AB2, SB2⟩ := (pres st f).1 _ _ _ _ _ _ _ hok1'.1 (goodTrue c par _ _) A hlB
          obtain ⟨sB3, nB3, hfB, q3⟩ := ihF _ _ _ _ _ _ _ _ hok1'.2 SB2 q2 AB2 hf
          obtain ⟨_, _, _, AB3, _⟩ := (pres st f).2.2 _ _ _ _ _ _ _ hok1'.2 SB2 (goodTrue c par _ _) AB2 hfB
          obtain ⟨sB', nB', hB, q⟩ := ihE _ _ _ _ _ _ _ _ hok2 q3 AB3 h
          exact ⟨sB', nB', by rw [runEvs_frm_ok c f sB nB m chain nms evs hlB hfB]; exact hB, q⟩
    | use steps =>
      rw [runEvs_use] at h
      cases hu : useOk c.stride nA steps
      · rw [hu] at h; cases h
      · rw [hu] at h
        simp only [if_true] at h
        obtain ⟨sB', nB', hB, q⟩ := ihE _ _ _ _ _ _ _ _ hok2 r A h
        exact ⟨sB', nB', by rw [runEvs_use, useOk_mono r.2.1 _ _ hu]; exact hB, q⟩

theorem simFrom_succ (st : Static c par chains) {f : Nat} (ihC : SimChain c par f) (ihF : SimFrom c par f) :
    SimFrom c par (f+1) := by
  intro sA nA sB nB chain nms sA' nA' hok hch r A h
  cases nms with
  | nil => rw [fromNames_nil] at h; cases h; exact ⟨sB, nB, fromNames_nil .., r⟩
  | cons it rest =>
    obtain ⟨nm, sub⟩ := it
    have hok1 := hok _ (List.mem_cons_self ..)
    have hok2 : ∀ it ∈ rest, itemOk c par chain it = true := fun e he => hok e (List.mem_cons_of_mem _ he)
    cases hc : (nm == 0 || has c.stride nA (chain.getLastD 0) nm)
    · cases sub with
      | none => rw [fromNames_none c f sA nA _ nm rest hc] at h; cases h
      | some ch' =>
        cases hl : loadChain c f sA nA none ch' with
        | error e => rw [fromNames_some_err c f sA nA _ nm ch' rest hc hl] at h; cases h
        | ok r2 =>
          obtain ⟨s2, n2⟩ := r2
          rw [fromNames_some_ok c f sA nA _ nm ch' rest hc hl] at h
          have hp' := (itemOk_some hok1).1
          cases hcB : (nm == 0 || has c.stride nB (chain.getLastD 0) nm)
          · -- both load the submodule
            obtain ⟨sB2, nB2, hlB, q2⟩ := ihC _ _ _ _ _ _ _ _ hp' r A hl
            obtain ⟨hsB, _, _, AB2, _⟩ := (pres st f).1 _ _ _ _ _ _ _ hp' (goodTrue c par _ _) A hlB
            obtain ⟨sB', nB', hB, q⟩ := ihF _ _ _ _ _ _ _ _ hok2 (hch.mono hsB) q2 AB2 h
            exact ⟨sB', nB', by rw [fromNames_some_ok c f sB nB _ nm ch' rest hcB hlB]; exact hB, q⟩
          · -- `B` already has the attribute: the submodule is finished in `B`
            simp only [Bool.or_eq_false_iff, beq_eq_false_iff_ne] at hc
            simp only [Bool.or_eq_true, beq_iff_eq] at hcB
            have hhB : has c.stride nB (chain.getLastD 0) nm = true := hcB.resolve_left hc.1
            have hs : seenAll sB ch' := item_seen hok1 A hch hhB
            have q2 := (skip st sB nB f).1 _ _ _ _ _ _ hp' r hs hl
            obtain ⟨sB', nB', hB, q⟩ := ihF _ _ _ _ _ _ _ _ hok2 hch q2 A h
            exact ⟨sB', nB', by
              rw [fromNames_skip c f sB nB _ nm (some ch') rest
                (by simp only [Bool.or_eq_true, beq_iff_eq]; exact hcB)]; exact hB, q⟩
    · rw [fromNames_skip c f sA nA _ nm sub rest hc] at h
      have hcB : (nm == 0 || has c.stride nB (chain.getLastD 0) nm) = true := by
        simp only [Bool.or_eq_true, beq_iff_eq] at hc ⊢
        exact hc.imp id (has_mono r.2.1)
      obtain ⟨sB', nB', hB, q⟩ := ihF _ _ _ _ _ _ _ _ hok2 hch r A h
      exact ⟨sB', nB', by rw [fromNames_skip c f sB nB _ nm sub rest hcB]; exact hB, q⟩

theorem sim (st : Static c par chains) : ∀ f, SimChain c par f ∧ SimEvs c par f ∧ SimFrom c par f := by
  intro f
  induction f with
  | zero =>
    refine ⟨?_, ?_, ?_⟩
    · intro _ _ _ _ _ _ _ _ _ _ _ h; rw [loadChain_zero] at h; cases h
    · intro _ _ _ _ _ _ _ _ _ _ _ h; rw [runEvs_zero] at h; cases h
    · intro _ _ _ _ _ _ _ _ _ _ _ _ h; rw [fromNames_zero] at h; cases h
  | succ f ih =>
    obtain ⟨ihC, ihE, ihF⟩ := ih
    exact ⟨simChain_succ st ihC ihE, simEvs_succ st ihC ihE ihF, simFrom_succ st ihC ihF⟩

end Sim

/-! ## histories -/

section Hist
variable {c : Cfg} {par : Par} {chains : List (List Nat)}

def NoneP : Nat → Prop := fun _ => False

/-- a quiescent state: nothing is in progress, every module in `sys.modules` is `Done` -/
def Quiescent (c : Cfg) (par : Par) (s n : Nat) : Prop := Good c par s n NoneP ∧ AttrInv c par s n

theorem quiescent_fresh (c : Cfg) (par : Par) : Quiescent c par 0 0 :=
  ⟨fun x hx => by simp at hx, fun x p _ hh => by simp [has] at hh⟩

/-- **load_mono**: a module that imports in a fresh interpreter imports from every quiescent state, with the same fuel,
and the result is quiescent again. -/
theorem load_mono (st : Static c par chains) {f : Nat} {ch : List Nat} (hp : pathOk par none ch = true)
    (hA : okB (fresh c f [ch]) = true) {s n : Nat} (q : Quiescent c par s n) :
    ∃ s' n', loadChain c f s n none ch = .ok (s', n') ∧ Quiescent c par s' n' ∧ Sub s s' ∧ Sub n n' ∧
      seenAll s' ch := by
  have hA' : ∃ sA nA, loadChain c f 0 0 none ch = .ok (sA, nA) := by
    unfold fresh importSeq at hA
    cases hl : loadChain c f 0 0 none ch with
    | error e => rw [hl] at hA; simp [okB] at hA
    | ok r => exact ⟨r.1, r.2, rfl⟩
  obtain ⟨sA, nA, hl⟩ := hA'
  have r0 : R c par 0 0 s n := ⟨Sub.zero _, Sub.zero _, fun x hx _ => q.1 x hx (fun h => h)⟩
  obtain ⟨s', n', hB, _⟩ := (sim st f).1 _ _ _ _ _ _ _ _ hp r0 q.2 hl
  obtain ⟨hs, hn, G, A, S⟩ := (pres st f).1 _ _ _ _ _ _ _ hp q.1 q.2 hB
  exact ⟨s', n', hB, ⟨G, A⟩, hs, hn, S⟩

theorem importSeq_ok (st : Static c par chains) {f : Nat}
    (hsingle : ∀ ch ∈ chains, okB (fresh c f [ch]) = true) :
    ∀ (h : List (List Nat)), (∀ ch ∈ h, ch ∈ chains) → ∀ {s n : Nat}, Quiescent c par s n →
      ∃ s' n', importSeq c f s n h = .ok (s', n') ∧ Quiescent c par s' n' ∧ Sub s s' ∧ ∀ ch ∈ h, seenAll s' ch
  | [], _, s, n, q => ⟨s, n, rfl, q, Sub.refl _, fun _ h => by cases h⟩
  | ch :: cs, hmem, s, n, q => by
    have hch := hmem ch (List.mem_cons_self ..)
    obtain ⟨s2, n2, hl, q2, hs2, _, S2⟩ := load_mono st (st.chains ch hch) (hsingle ch hch) q
    obtain ⟨s', n', hi, q', hs', S'⟩ :=
      importSeq_ok st hsingle cs (fun x hx => hmem x (List.mem_cons_of_mem _ hx)) q2
    refine ⟨s', n', ?_, q', hs2.trans hs', ?_⟩
    · simp only [importSeq, hl]; exact hi
    · intro x hx
      rcases List.mem_cons.mp hx with hx | hx
      · subst hx; exact S2.mono hs'
      · exact S' x hx

/-- **every import history succeeds** (generic form), and every module it names ends up finished -/
theorem histories_done (c : Cfg) (par : Par) (f : Nat) (chains : List (List Nat))
    (hst : staticOk c par chains = true) (hall : allSingles c f chains = true)
    (h : List (List Nat)) (hmem : ∀ ch ∈ h, ch ∈ chains) :
    ∃ s n, fresh c f h = .ok (s, n) ∧ ∀ ch ∈ h, ∀ m ∈ ch, Done c par s n m := by
  have st := static_of_ok hst
  have hsingle : ∀ ch ∈ chains, okB (fresh c f [ch]) = true := by
    unfold allSingles at hall; exact List.all_eq_true.mp hall
  obtain ⟨s', n', hi, q, _, S⟩ := importSeq_ok st hsingle h hmem (quiescent_fresh c par)
  exact ⟨s', n', hi, fun ch hch m hm => q.1 m (S ch hch m hm) (fun h => h)⟩

/-- **every import history succeeds** (generic form) -/
theorem histories_ok (c : Cfg) (par : Par) (f : Nat) (chains : List (List Nat))
    (hst : staticOk c par chains = true) (hall : allSingles c f chains = true)
    (h : List (List Nat)) (hmem : ∀ ch ∈ h, ch ∈ chains) : okB (fresh c f h) = true := by
  obtain ⟨s', n', hi, _⟩ := histories_done c par f chains hst hall h hmem
  rw [hi]; rfl

end Hist

/-! ## computing the parent table from the chains of the table (an untrusted witness: `staticOk` checks it) -/

/-- predecessor of `m` in a chain: `some none` if `m` is its head, `none` if `m` does not occur -/
def predIn (m : Nat) : Option Nat → List Nat → Option (Option Nat)
  | _, [] => none
  | prev, x :: rest => if Nat.beq x m then some prev else predIn m (some x) rest

def evChains : Ev → List (List Nat)
  | .imp ch => [ch]
  | .frm ch nms => ch :: nms.filterMap (·.2)
  | _ => []

def allChains (c : Cfg) (chains : List (List Nat)) : List (List Nat) :=
  chains ++ (c.tbl.flatMap (fun evs => evs.flatMap evChains))

def parOf (chs : List (List Nat)) (m : Nat) : Option Nat :=
  (chs.findSome? (predIn m none)).getD none

/-- parent of every module = its predecessor in the first chain that mentions it -/
def mkPar (c : Cfg) (chains : List (List Nat)) : Par :=
  (List.range c.tbl.length).map (parOf (allChains c chains))

end Mono
end Imports
