import CddVerif.Model.Imports
/-!
# Monotonicity of the import machine (helper lemmas for `Properties/C18Hist.lean`)

Lifts "every module imports in a fresh interpreter" to "every import history of any length succeeds".

* `Static c par chains` — decidable well-formedness of the event table w.r.t. a parent table `par`
  (`staticOk`, checked on the generated table by `decide +kernel`).
* `Pres`  — a successful run keeps the invariant `Good` (every finished module is fully initialised) and `AttrInv`
  (a set submodule attribute bit implies the submodule is in `sys.modules`).
* `Skip`  — when the bigger state `B` has a module finished that the smaller run `A` still executes, `A` stays below `B`.
* `Sim`   — if run `A` succeeds and `R A B`, run `B` succeeds with the same fuel, and `R` is kept.
-/
namespace Imports
namespace Mono

/-! ## one-step unfoldings of the machine (match-free) -/

/-- the attribute a finished child sets on its parent -/
def attrAdd (c : Cfg) (parent : Option Nat) (names m : Nat) : Nat :=
  match parent with
  | some p => add c.stride names p (c.short.getD m 0)
  | none => names

theorem loadChain_zero (c : Cfg) (s n : Nat) (p : Option Nat) (ch : List Nat) :
    loadChain c 0 s n p ch = .error .fuel := by simp only [loadChain]

theorem loadChain_nil (c : Cfg) (f s n : Nat) (p : Option Nat) :
    loadChain c (f+1) s n p [] = .ok (s, n) := by simp only [loadChain]

theorem loadChain_seen (c : Cfg) (f s n : Nat) (parent : Option Nat) (m : Nat) (rest : List Nat)
    (h : Nat.testBit s m = true) :
    loadChain c (f+1) s n parent (m :: rest) = loadChain c f s n (some m) rest := by
  simp only [loadChain, h, if_true]

theorem loadChain_new (c : Cfg) (f s n : Nat) (parent : Option Nat) (m : Nat) (rest : List Nat)
    (h : Nat.testBit s m = false) {s2 n2 : Nat}
    (hr : runEvs c f (s ||| (1 <<< m)) n m (c.tbl.getD m []) = .ok (s2, n2)) :
    loadChain c (f+1) s n parent (m :: rest) = loadChain c f s2 (attrAdd c parent n2 m) (some m) rest := by
  simp only [loadChain, h, hr, attrAdd]
  cases parent <;> simp

theorem loadChain_err (c : Cfg) (f s n : Nat) (parent : Option Nat) (m : Nat) (rest : List Nat)
    (h : Nat.testBit s m = false) {e : Err}
    (hr : runEvs c f (s ||| (1 <<< m)) n m (c.tbl.getD m []) = .error e) :
    loadChain c (f+1) s n parent (m :: rest) = .error e := by
  simp only [loadChain, h, hr]
  simp

theorem runEvs_zero (c : Cfg) (s n m : Nat) (evs : List Ev) :
    runEvs c 0 s n m evs = .error .fuel := by simp only [runEvs]

theorem runEvs_nil (c : Cfg) (f s n m : Nat) : runEvs c (f+1) s n m [] = .ok (s, n) := by simp only [runEvs]

theorem runEvs_missing (c : Cfg) (f s n m : Nat) (evs : List Ev) :
    runEvs c (f+1) s n m (.missing :: evs) = .error .moduleNotFound := by simp only [runEvs]

theorem runEvs_bind (c : Cfg) (f s n m k : Nat) (evs : List Ev) :
    runEvs c (f+1) s n m (.bind k :: evs) = runEvs c f s (add c.stride n m k) m evs := by simp only [runEvs]

theorem runEvs_imp_ok (c : Cfg) (f s n m : Nat) (chain : List Nat) (evs : List Ev) {s2 n2 : Nat}
    (h : loadChain c f s n none chain = .ok (s2, n2)) :
    runEvs c (f+1) s n m (.imp chain :: evs) = runEvs c f s2 n2 m evs := by simp only [runEvs, h]

theorem runEvs_imp_err (c : Cfg) (f s n m : Nat) (chain : List Nat) (evs : List Ev) {e : Err}
    (h : loadChain c f s n none chain = .error e) :
    runEvs c (f+1) s n m (.imp chain :: evs) = .error e := by simp only [runEvs, h]

theorem runEvs_frm_ok (c : Cfg) (f s n m : Nat) (chain : List Nat) (nms : List (Nat × Option (List Nat)))
    (evs : List Ev) {s2 n2 s3 n3 : Nat}
    (h : loadChain c f s n none chain = .ok (s2, n2))
    (h2 : fromNames c f s2 n2 (chain.getLastD 0) nms = .ok (s3, n3)) :
    runEvs c (f+1) s n m (.frm chain nms :: evs) = runEvs c f s3 n3 m evs := by simp only [runEvs, h, h2]

theorem runEvs_frm_err1 (c : Cfg) (f s n m : Nat) (chain : List Nat) (nms : List (Nat × Option (List Nat)))
    (evs : List Ev) {e : Err}
    (h : loadChain c f s n none chain = .error e) :
    runEvs c (f+1) s n m (.frm chain nms :: evs) = .error e := by simp only [runEvs, h]

theorem runEvs_frm_err2 (c : Cfg) (f s n m : Nat) (chain : List Nat) (nms : List (Nat × Option (List Nat)))
    (evs : List Ev) {s2 n2 : Nat} {e : Err}
    (h : loadChain c f s n none chain = .ok (s2, n2))
    (h2 : fromNames c f s2 n2 (chain.getLastD 0) nms = .error e) :
    runEvs c (f+1) s n m (.frm chain nms :: evs) = .error e := by simp only [runEvs, h, h2]

theorem runEvs_use (c : Cfg) (f s n m : Nat) (steps : List (Nat × Nat × Option Nat)) (evs : List Ev) :
    runEvs c (f+1) s n m (.use steps :: evs) =
      if useOk c.stride n steps then runEvs c f s n m evs else .error .attributeError := by simp only [runEvs]

theorem fromNames_zero (c : Cfg) (s n tgt : Nat) (nms : List (Nat × Option (List Nat))) :
    fromNames c 0 s n tgt nms = .error .fuel := by simp only [fromNames]

theorem fromNames_nil (c : Cfg) (f s n tgt : Nat) : fromNames c (f+1) s n tgt [] = .ok (s, n) := by
  simp only [fromNames]

theorem fromNames_skip (c : Cfg) (f s n tgt nm : Nat) (sub : Option (List Nat))
    (rest : List (Nat × Option (List Nat))) (h : (nm == 0 || has c.stride n tgt nm) = true) :
    fromNames c (f+1) s n tgt ((nm, sub) :: rest) = fromNames c f s n tgt rest := by
  cases sub <;> simp only [fromNames, h, if_true]

theorem fromNames_none (c : Cfg) (f s n tgt nm : Nat)
    (rest : List (Nat × Option (List Nat))) (h : (nm == 0 || has c.stride n tgt nm) = false) :
    fromNames c (f+1) s n tgt ((nm, none) :: rest) = .error .importError := by
  simp only [fromNames, h]; simp

theorem fromNames_some_ok (c : Cfg) (f s n tgt nm : Nat) (ch : List Nat)
    (rest : List (Nat × Option (List Nat))) (h : (nm == 0 || has c.stride n tgt nm) = false) {s2 n2 : Nat}
    (hl : loadChain c f s n none ch = .ok (s2, n2)) :
    fromNames c (f+1) s n tgt ((nm, some ch) :: rest) = fromNames c f s2 n2 tgt rest := by
  simp only [fromNames, h, hl]; simp

theorem fromNames_some_err (c : Cfg) (f s n tgt nm : Nat) (ch : List Nat)
    (rest : List (Nat × Option (List Nat))) (h : (nm == 0 || has c.stride n tgt nm) = false) {e : Err}
    (hl : loadChain c f s n none ch = .error e) :
    fromNames c (f+1) s n tgt ((nm, some ch) :: rest) = .error e := by
  simp only [fromNames, h, hl]; simp


/-! ## bit facts -/

def Sub (a b : Nat) : Prop := ∀ i, Nat.testBit a i = true → Nat.testBit b i = true

theorem Sub.refl (a : Nat) : Sub a a := fun _ h => h
theorem Sub.trans {a b d : Nat} (h1 : Sub a b) (h2 : Sub b d) : Sub a d := fun i h => h2 i (h1 i h)
theorem Sub.zero (a : Nat) : Sub 0 a := fun i h => by simp at h

theorem testBit_setBit (s m i : Nat) :
    Nat.testBit (s ||| (1 <<< m)) i = (Nat.testBit s i || decide (m = i)) := by
  rw [Nat.testBit_or, Nat.one_shiftLeft, Nat.testBit_two_pow]

theorem testBit_setBit_self (s m : Nat) : Nat.testBit (s ||| (1 <<< m)) m = true := by
  rw [testBit_setBit]; simp

theorem Sub.setBit (s m : Nat) : Sub s (s ||| (1 <<< m)) := fun i h => by
  rw [testBit_setBit, h]; rfl

theorem Sub.setBit_both {a b : Nat} (h : Sub a b) (m : Nat) : Sub (a ||| (1 <<< m)) (b ||| (1 <<< m)) := fun i hi => by
  rw [testBit_setBit] at *
  cases ha : Nat.testBit a i
  · rw [ha] at hi; simp at hi; simp [hi]
  · rw [h i ha]; rfl

theorem Sub.setBit_left {a b : Nat} (h : Sub a b) {m : Nat} (hm : Nat.testBit b m = true) :
    Sub (a ||| (1 <<< m)) b := fun i hi => by
  rw [testBit_setBit] at hi
  cases ha : Nat.testBit a i
  · rw [ha] at hi; simp at hi; rw [← hi]; exact hm
  · exact h i ha

theorem has_add (stride names m k m' k' : Nat) :
    has stride (add stride names m k) m' k' = (has stride names m' k' || decide (m * stride + k = m' * stride + k')) := by
  unfold has add; rw [testBit_setBit]

theorem has_add_self (stride names m k : Nat) : has stride (add stride names m k) m k = true := by
  rw [has_add]; simp

theorem Sub.addN (stride names m k : Nat) : Sub names (add stride names m k) := Sub.setBit _ _

theorem Sub.addN_both {a b : Nat} (h : Sub a b) (stride m k : Nat) : Sub (add stride a m k) (add stride b m k) :=
  Sub.setBit_both h _

theorem Sub.addN_left {a b : Nat} (h : Sub a b) {stride m k : Nat} (hb : has stride b m k = true) :
    Sub (add stride a m k) b := Sub.setBit_left h hb

theorem has_mono {a b : Nat} (h : Sub a b) {stride m k : Nat} (ha : has stride a m k = true) :
    has stride b m k = true := h _ ha

theorem enc_inj {stride p a q b : Nat} (ha : a < stride) (hb : b < stride)
    (h : p * stride + a = q * stride + b) : p = q ∧ a = b := by
  have h1 : (p * stride + a) / stride = p := by
    rw [Nat.mul_comm, Nat.mul_add_div (by omega), Nat.div_eq_of_lt ha]; rfl
  have h2 : (q * stride + b) / stride = q := by
    rw [Nat.mul_comm, Nat.mul_add_div (by omega), Nat.div_eq_of_lt hb]; rfl
  have hpq : p = q := by rw [← h1, ← h2, h]
  subst hpq
  exact ⟨rfl, by omega⟩

theorem useOk_mono {a b : Nat} (h : Sub a b) (stride : Nat) :
    ∀ steps, useOk stride a steps = true → useOk stride b steps = true
  | [], _ => by simp [useOk]
  | (cur, x, nxt) :: rest, hs => by
    unfold useOk at hs ⊢
    cases hh : has stride a cur x
    · rw [hh] at hs; simp at hs
    · rw [hh] at hs; rw [has_mono h hh]
      cases nxt with
      | none => simp
      | some _ => simp only [if_true] at hs ⊢; exact useOk_mono h stride rest hs


/-! ## static (decidable) well-formedness of the table

`par` is the parent table: `par[m] = some p` when `m` is a submodule of package `p`, `none` for a root. -/

abbrev Par := List (Option Nat)

def optEq : Option Nat → Option Nat → Bool
  | none, none => true
  | some a, some b => Nat.beq a b
  | _, _ => false

theorem optEq_iff {a b : Option Nat} : optEq a b = true ↔ a = b := by
  cases a <;> cases b <;> simp [optEq]

/-- `chain` is a path in the package tree; the element before its head is `parent` -/
def pathOk (par : Par) : Option Nat → List Nat → Bool
  | _, [] => true
  | parent, m :: rest => optEq (par.getD m none) parent && pathOk par (some m) rest

theorem pathOk_cons {par : Par} {parent : Option Nat} {m : Nat} {rest : List Nat}
    (h : pathOk par parent (m :: rest) = true) : par.getD m none = parent ∧ pathOk par (some m) rest = true := by
  simp only [pathOk, Bool.and_eq_true, optEq_iff] at h; exact h

/-- no module with parent `m` has short name `k` (parallel walk over `par` and `short`; `short` must not be shorter) -/
def noKid (m k : Nat) : Par → List Nat → Bool
  | [], _ => true
  | _ :: _, [] => false
  | p :: ps, s :: ss => !(optEq p (some m) && Nat.beq s k) && noKid m k ps ss

theorem noKid_spec {m k : Nat} : ∀ {par : Par} {short : List Nat}, noKid m k par short = true →
    ∀ x, par.getD x none = some m → short.getD x 0 ≠ k
  | [], _, _, x, hx => by simp at hx
  | _ :: _, [], h, _, _ => by simp [noKid] at h
  | p :: ps, s :: ss, h, x, hx => by
    simp only [noKid, Bool.and_eq_true, Bool.not_eq_true'] at h
    cases x with
    | zero =>
      simp only [List.getD_cons_zero] at hx ⊢
      intro hs; subst hs; subst hx
      have : optEq (some m) (some m) = true := optEq_iff.mpr rfl
      simp [this] at h
    | succ x =>
      simp only [List.getD_cons_succ] at hx ⊢
      exact noKid_spec h.2 x hx

/-- `(parent, short name)` determines the module -/
def uniqKids : Par → List Nat → Bool
  | [], _ => true
  | _ :: _, [] => false
  | p :: ps, s :: ss => (match p with | none => true | some m => noKid m s ps ss) && uniqKids ps ss

theorem uniqKids_lt : ∀ {par : Par} {short : List Nat}, uniqKids par short = true →
    ∀ x y p, x < y → par.getD x none = some p → par.getD y none = some p → short.getD x 0 ≠ short.getD y 0
  | [], _, _, x, _, _, _, hx, _ => by simp at hx
  | _ :: _, [], h, _, _, _, _, _, _ => by simp [uniqKids] at h
  | q :: ps, s :: ss, h, x, y, p, hxy, hx, hy => by
    simp only [uniqKids, Bool.and_eq_true] at h
    cases y with
    | zero => omega
    | succ y =>
      cases x with
      | zero =>
        simp only [List.getD_cons_zero, List.getD_cons_succ] at hx hy ⊢
        subst hx
        exact fun e => noKid_spec h.1 y hy e.symm
      | succ x =>
        simp only [List.getD_cons_succ] at hx hy ⊢
        exact uniqKids_lt h.2 x y p (by omega) hx hy

theorem uniqKids_spec {par : Par} {short : List Nat} (h : uniqKids par short = true) (x y p : Nat)
    (hx : par.getD x none = some p) (hy : par.getD y none = some p) (e : short.getD x 0 = short.getD y 0) : x = y := by
  rcases Nat.lt_trichotomy x y with hlt | heq | hgt
  · exact absurd e (uniqKids_lt h x y p hlt hx hy)
  · exact heq
  · exact absurd e.symm (uniqKids_lt h y x p hgt hy hx)

/-- an item `(name, some chain')` of `from chain import name`: `chain' = chain ++ [x]`, `x` is called `name` and its parent is
the last module of `chain` -/
def itemOk (c : Cfg) (par : Par) (chain : List Nat) : Nat × Option (List Nat) → Bool
  | (_, none) => true
  | (nm, some ch') =>
    let x := ch'.getLastD 0
    (ch' == chain ++ [x]) && Nat.beq (c.short.getD x 0) nm && optEq (par.getD x none) (some (chain.getLastD 0))
      && pathOk par none ch'

def evOk (c : Cfg) (par : Par) (m : Nat) : Ev → Bool
  | .imp chain => pathOk par none chain
  | .frm chain nms => pathOk par none chain && nms.all (itemOk c par chain)
  | .bind k => Nat.blt k c.stride && noKid m k par c.short
  | .use _ => true
  | .missing => true

/-- every event of every body is well-formed (indices from `List.range`, so that the kernel sees literals) -/
def bodiesOk (c : Cfg) (par : Par) : Bool :=
  (List.range c.tbl.length).all (fun m => (c.tbl.getD m []).all (evOk c par m))

theorem bodiesOk_spec {c : Cfg} {par : Par} (h : bodiesOk c par = true) :
    ∀ m, ∀ ev ∈ c.tbl.getD m [], evOk c par m ev = true := by
  intro m ev hev
  simp only [bodiesOk, List.all_eq_true, List.mem_range] at h
  by_cases hm : m < c.tbl.length
  · exact h m hm ev hev
  · have e : c.tbl.getD m [] = [] := by simp [List.getD, Nat.le_of_not_lt hm]
    rw [e] at hev; simp at hev

/-- the decidable side condition of the history theorem -/
def staticOk (c : Cfg) (par : Par) (chains : List (List Nat)) : Bool :=
  chains.all (pathOk par none) && bodiesOk c par && uniqKids par c.short
    && c.short.all (fun s => Nat.blt s c.stride) && Nat.blt 0 c.stride

structure Static (c : Cfg) (par : Par) (chains : List (List Nat)) : Prop where
  chains : ∀ ch ∈ chains, pathOk par none ch = true
  body : ∀ m, ∀ ev ∈ c.tbl.getD m [], evOk c par m ev = true
  uniq : ∀ x y p, par.getD x none = some p → par.getD y none = some p →
    c.short.getD x 0 = c.short.getD y 0 → x = y
  shortLt : ∀ x, c.short.getD x 0 < c.stride

theorem blt_iff {a b : Nat} : Nat.blt a b = true ↔ a < b := by
  simp only [Nat.blt, Nat.ble_eq]; omega

theorem static_of_ok {c : Cfg} {par : Par} {chains : List (List Nat)} (h : staticOk c par chains = true) :
    Static c par chains := by
  simp only [staticOk, Bool.and_eq_true, List.all_eq_true] at h
  obtain ⟨⟨⟨⟨h1, h2⟩, h3⟩, h4⟩, h5⟩ := h
  refine ⟨h1, ?_, uniqKids_spec h3, ?_⟩
  · exact bodiesOk_spec h2
  · intro x
    rw [blt_iff] at h5
    by_cases hx : x < c.short.length
    · have e : c.short.getD x 0 = c.short[x] := by simp [List.getD, hx]
      rw [e]
      exact blt_iff.mp (h4 _ (List.getElem_mem hx))
    · have e : c.short.getD x 0 = 0 := by simp [List.getD, Nat.le_of_not_lt hx]
      rw [e]; exact h5

end Mono
end Imports
