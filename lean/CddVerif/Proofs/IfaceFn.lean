import CddVerif.Proofs.Iface
/-!
# C02 — helper lemmas for the function format: signature defaults through render/re-read and `_infer_default`,
`func_arg2param` alignment, `merge_params` on aligned dicts, `_interpolate_return`
-/
namespace Iface

/-! ## a signature default on its way back -/

/-- what the function format turns a default into: absent ↦ `None` (the statement's normalisation) -/
def fnBack (d? : Option Default) : Default :=
  match d? with
  | none => .str NoneStr
  | some d => if d.inNoneTypes then .str NoneStr else d

theorem inferDefault_node_const (it : Bool) (doc typ : Option String) (c : Const) :
    inferDefault it { doc := doc, typ := typ, default := some (.node (.const c)) } =
    inferDefault it { doc := doc, typ := typ, default := some (getValue (.const c)) } := by
  cases c with
  | none => rfl
  | val d => rfl

theorem okDefault_fn_neg {t : String} {d : Default} (h : okDefault true t d = true) :
    (match d with | .int i => i < 0 | .float r => isNegRepr r = true | .complex r => isNegRepr r = true | _ => False) →
    needsQuoting (some t) = false := by
  cases d with
  | int i => intro hi; simpa [okDefault, hi] using h
  | float r => intro hi; simp only [okDefault, Bool.true_and, Bool.and_eq_true, Bool.not_eq_true'] at h; simpa [hi] using h.2
  | complex r => intro hi; simp only [okDefault, Bool.true_and, Bool.and_eq_true, Bool.not_eq_true'] at h; simpa [hi] using h.2
  | bool b => intro hi; cases hi
  | str s => intro hi; cases hi

/-- a negative number default: the re-read `UnaryOp` is evaluated by `literal_eval` -/
theorem inferDefault_neg (it : Bool) (doc : Option String) (t : String) (v d : Default) (hv : negDefault v = some d)
    (hq : needsQuoting (some t) = false) (hu : t ≠ "UnaryOp") (hns : ∀ s, d ≠ .str s) :
    inferDefault it { doc := doc, typ := some t, default := some (.node (.neg (.val v))) } =
      .ok { doc := doc, typ := some t, default := some (.val d) } := by
  unfold inferDefault
  cases d with
  | str s => exact absurd rfl (hns s)
  | int i => simp [DVal.inNoneTypes, pure, Except.pure, bind, Except.bind, hq, hv, hu, DVal.isNoneStr, Default.isNoneStr, DVal.isCodeStr, Default.isCode]
  | float r => simp [DVal.inNoneTypes, pure, Except.pure, bind, Except.bind, hq, hv, hu, DVal.isNoneStr, Default.isNoneStr, DVal.isCodeStr, Default.isCode]
  | complex r => simp [DVal.inNoneTypes, pure, Except.pure, bind, Except.bind, hq, hv, hu, DVal.isNoneStr, Default.isNoneStr, DVal.isCodeStr, Default.isCode]
  | bool b => simp [DVal.inNoneTypes, pure, Except.pure, bind, Except.bind, hq, hv, hu, DVal.isNoneStr, Default.isNoneStr, DVal.isCodeStr, Default.isCode]

theorem okInfer_NoneStr (t : String) : okInfer t (.str NoneStr) = true := by simp [okInfer]

theorem okDefault_inNone {fn : Bool} {t : String} {d : Default} (h : okDefault fn t d = true) (hn : d.inNoneTypes = true) : d = .str NoneStr := by
  cases d with
  | str s =>
    rcases okDefault_str_cases h with ⟨h1, _⟩ | ⟨h1, h2, _, _⟩ | ⟨h1, _, h3, _⟩
    · rw [h1]
    · simp only [Default.inNoneTypes, Bool.or_eq_true, beq_iff_eq] at hn
      rcases hn with hn | hn
      · rw [hn, codeQuoted_None] at h2; cases h2
      · exact absurd hn h1
    · simp only [Default.inNoneTypes, Bool.or_eq_true, beq_iff_eq] at hn
      rcases hn with hn | hn
      · exact absurd hn (okPlainStr_facts h3).2
      · exact absurd hn h1
  | int i => simp [Default.inNoneTypes] at hn
  | float r => simp [Default.inNoneTypes] at hn
  | complex r => simp [Default.inNoneTypes] at hn
  | bool b => simp [Default.inNoneTypes] at hn

theorem fnBack_some {t : String} {d : Default} (h : okDefault true t d = true) : fnBack (some d) = d := by
  unfold fnBack
  by_cases hn : d.inNoneTypes = true
  · simp [hn, okDefault_inNone h hn]
  · simp [hn]

/-- **a signature default comes back:** the emitted default expression, rendered, re-read and resolved by
    `_infer_default`, is the default again (`None` when there was none) -/
theorem inferDefault_fn (it : Bool) (doc : Option String) (t : String) (d? : Option Default) (ht : okTyp t = true)
    (hd : ∀ d, d? = some d → okDefault true t d = true) :
    inferDefault it { doc := doc, typ := some t, default := some (.node (fnDefault d?).reparse) } =
      .ok { doc := doc, typ := some t, default := some (.val (fnBack d?)) } := by
  have hnone : inferDefault it { doc := doc, typ := some t, default := some (.node (Expr.reparse (.const .none))) } =
      .ok { doc := doc, typ := some t, default := some (.val (.str NoneStr)) } := by
    have : Expr.reparse (.const .none) = .const .none := rfl
    rw [this, inferDefault_node_const]
    exact inferDefault_val it doc t _ (okInfer_NoneStr t)
  cases d? with
  | none => simpa [fnDefault, fnBack] using hnone
  | some d =>
    have hok := hd d rfl
    by_cases hn : d.inNoneTypes = true
    · simpa [fnDefault, fnBack, hn] using hnone
    · have hn' : d.inNoneTypes = false := by simpa using hn
      simp only [fnDefault, hn', Bool.false_eq_true, ↓reduceIte, fnBack]
      have hinf := okSnt_okInfer (okDefault_okSnt hok)
      cases d with
      | str s =>
        have hql : quotedLike s = false := by
          rcases okInfer_str_cases hinf with h | ⟨_, h, _, _⟩
          · rw [h]; exact quotedLike_NoneStr
          · exact h
        have : Expr.reparse (setValue (.str s)) = .const (.val (.str s)) := by simp [setValue, setValueStr_id hql, Expr.reparse]
        rw [this, inferDefault_node_const]
        exact inferDefault_val it doc t _ hinf
      | bool b =>
        have : Expr.reparse (setValue (.bool b)) = .const (.val (.bool b)) := by simp [setValue, Expr.reparse]
        rw [this, inferDefault_node_const]
        exact inferDefault_val it doc t _ hinf
      | int i =>
        by_cases hi : i < 0
        · have : Expr.reparse (setValue (.int i)) = .neg (.val (.int (-i))) := by simp [setValue, Expr.reparse, hi]
          rw [this]
          exact inferDefault_neg it doc t _ _ (by simp [negDefault]) (okDefault_fn_neg hok hi) (okTyp_unaryOp ht) (fun s h => by cases h)
        · have : Expr.reparse (setValue (.int i)) = .const (.val (.int i)) := by simp [setValue, Expr.reparse, hi]
          rw [this, inferDefault_node_const]
          exact inferDefault_val it doc t _ hinf
      | float r =>
        have hnum : okNumRepr r = true := by simp only [okDefault, Bool.true_and, Bool.and_eq_true] at hok; exact hok.1
        by_cases hi : isNegRepr r = true
        · have : Expr.reparse (setValue (.float r)) = .neg (.val (.float (dropFirst r))) := by simp [setValue, Expr.reparse, hi]
          rw [this]
          exact inferDefault_neg it doc t _ _ (by simp [negDefault, isNegRepr_dropFirst hnum, dash_dropFirst hi]) (okDefault_fn_neg hok hi)
            (okTyp_unaryOp ht) (fun s h => by cases h)
        · have : Expr.reparse (setValue (.float r)) = .const (.val (.float r)) := by simp [setValue, Expr.reparse, hi]
          rw [this, inferDefault_node_const]
          exact inferDefault_val it doc t _ hinf
      | complex r =>
        have hnum : okNumRepr r = true := by simp only [okDefault, Bool.true_and, Bool.and_eq_true] at hok; exact hok.1.1
        by_cases hi : isNegRepr r = true
        · have : Expr.reparse (setValue (.complex r)) = .neg (.val (.complex (dropFirst r))) := by simp [setValue, Expr.reparse, hi]
          rw [this]
          exact inferDefault_neg it doc t _ _ (by simp [negDefault, isNegRepr_dropFirst hnum, dash_dropFirst hi]) (okDefault_fn_neg hok hi)
            (okTyp_unaryOp ht) (fun s h => by cases h)
        · have : Expr.reparse (setValue (.complex r)) = .const (.val (.complex r)) := by simp [setValue, Expr.reparse, hi]
          rw [this, inferDefault_node_const]
          exact inferDefault_val it doc t _ hinf

/-! ## `_set_name_and_type` on a merged function entry -/

theorem fnBack_flag {t : String} (d? : Option Default) (hd : ∀ d, d? = some d → okDefault true t d = true) :
    (fnBack d?).isNoneStr = (d?.isNone || isNoneStrD (d?.map .val)) := by
  cases d? with
  | none => simp [fnBack, Default.isNoneStr]
  | some d => simp [fnBack_some (hd d rfl), isNoneStrD, DVal.isNoneStr]

theorem setNameAndType_fn (env : Env) (it : Bool) (n : String) (d0? : Option String) (t : String) (d? : Option Default)
    (hk : (endsWith n "kwargs" || startsWith n "*") = false) (ht : okTyp t = true)
    (hd : ∀ d, d? = some d → okDefault true t d = true)
    (hq : ∀ d0, d0? = some d0 → docQuiet env n (d?.isNone || isNoneStrD (d?.map .val)) d0 = true) :
    setNameAndType env it (n, { doc := d0?, typ := some t, default := some (.node (fnDefault d?).reparse) }) =
      .ok (n, { doc := docAfter d0?, typ := some t, default := some (.val (fnBack d?)) }) := by
  unfold setNameAndType
  have hm : sntMerge env ⟨d0?, some t, some (.node (fnDefault d?).reparse)⟩ = ⟨d0?, some t, some (.node (fnDefault d?).reparse)⟩ :=
    sntMerge_quiet env n _ ⟨d0?, some t, _⟩ hq
  simp only [hm, hk, Bool.false_eq_true, ↓reduceIte, Option.isSome_some, inferDefault_fn it d0? t d? ht hd, bind, Except.bind, pure, Except.pure]
  rw [sntGoogle_id _ t rfl (okTyp_googleOpt ht)]
  have := sntDoc_quiet env n false d0? t (some (.val (fnBack d?)))
    (by intro d0 h; have := hq d0 h; rw [← fnBack_flag d? hd] at this; simpa [isNoneStrD, DVal.isNoneStr] using this)
    (by intro h; cases h)
  simp only [this]

/-! ## `func_arg2param` over the signature -/

theorem sigParams_aux {α : Type} (f : α → Arg) (g : α → Expr) : ∀ (L : List α) (k : Nat) (pre : List (Option Expr)), pre.length = k →
    ((L.map f).zipIdx k).map (fun (x : Arg × Nat) => funcArg2Param x.1 ((pre ++ L.map (fun x => some (g x)))[x.2]?.join)) =
      L.map (fun x => funcArg2Param (f x) (some (g x)))
  | [], _, _, _ => rfl
  | x :: xs, k, pre, hk => by
    simp only [List.map_cons, List.zipIdx_cons]
    have hl : (pre ++ some (g x) :: xs.map (fun x => some (g x)))[k]? = some (some (g x)) := by
      rw [List.getElem?_append_right (by omega)]; simp [hk]
    rw [hl]
    have ih := sigParams_aux f g xs (k + 1) (pre ++ [some (g x)]) (by simp [hk])
    simp only [List.append_assoc, List.singleton_append] at ih
    rw [ih]; rfl

theorem sigParams_map {α : Type} (f : α → Arg) (g : α → Expr) (L : List α) :
    sigParams (L.map f) (L.map (fun x => some (g x))) = L.map (fun x => funcArg2Param (f x) (some (g x))) := by
  unfold sigParams padDefaults
  simp only [List.length_map, ge_iff_le, Nat.le_refl, ↓reduceIte, Nat.sub_self, List.replicate_zero, List.nil_append]
  have := sigParams_aux f g L 0 [] rfl
  simpa using this

theorem sigParams_nil : sigParams [] [] = [] := rfl

/-! ## `merge_params` when both dicts list the same names in the same order -/

/-- pointwise merge (docstring entry `t`, signature entry `o`) -/
def zipMerge : Dict → Dict → Dict
  | o :: O, t :: T => (t.1, mergePresent o.2 t.2) :: zipMerge O T
  | _, _ => []

theorem dget?_of_mem (d : Dict) (hnd : (dkeys d).Nodup) (k : String) (p : Param) (h : (k, p) ∈ d) : dget? d k = some p := by
  induction d with
  | nil => cases h
  | cons x xs ih =>
    simp only [dkeys, List.map_cons, List.nodup_cons, List.mem_map, not_exists, not_and] at hnd
    rcases List.mem_cons.mp h with h | h
    · subst h; simp [dget?]
    · have hne : (x.1 == k) = false := by
        simp only [beq_eq_false_iff_ne, ne_eq]
        intro he
        exact hnd.1 (k, p) h he.symm
      have := ih (by simpa [dkeys] using hnd.2) h
      simp only [dget?, List.find?_cons, hne] at this ⊢
      exact this

theorem stepMissing_noop (other : Dict) : ∀ (ks : List String) (D : Dict), (∀ k ∈ ks, dhas D k = true) →
    ks.foldl (stepMissing other) D = D
  | [], _, _ => rfl
  | k :: ks, D, h => by
    have hk := h k (List.mem_cons_self ..)
    have : stepMissing other D k = D := by
      unfold stepMissing
      cases dget? other k with
      | none => rfl
      | some o => simp [hk]
    rw [List.foldl_cons, this]
    exact stepMissing_noop other ks D (fun x hx => h x (List.mem_cons_of_mem _ hx))

theorem stepCommon_fold (other : Dict) : ∀ (O T pre : Dict), aligned O T = true → (dkeys (pre ++ T)).Nodup →
    (∀ o ∈ O, dget? other o.1 = some o.2) →
    (dkeys T).foldl (stepCommon other) (pre ++ T) = pre ++ zipMerge O T
  | [], [], pre, _, _, _ => by simp [dkeys, zipMerge]
  | [], _ :: _, _, h, _, _ => by simp [aligned] at h
  | _ :: _, [], _, h, _, _ => by simp [aligned] at h
  | o :: O, t :: T, pre, hal, hnd, hget => by
    simp only [aligned, Bool.and_eq_true, beq_iff_eq] at hal
    obtain ⟨hkey, hal'⟩ := hal
    obtain ⟨tk, tp⟩ := t
    simp only at hkey
    have hnd' : (dkeys pre ++ tk :: dkeys T).Nodup := by simpa [dkeys] using hnd
    have h1 : tk ∉ dkeys pre := by
      intro hm
      exact (List.nodup_append.mp hnd').2.2 _ hm _ (List.mem_cons_self ..) rfl
    have h2 : tk ∉ dkeys T := (List.nodup_cons.mp (List.nodup_append.mp hnd').2.1).1
    have hstep : stepCommon other (pre ++ (tk, tp) :: T) tk = pre ++ (tk, mergePresent o.2 tp) :: T := by
      unfold stepCommon
      rw [← hkey, hget o (List.mem_cons_self ..)]
      simp only
      rw [hkey]
      exact dmodify_at pre T tk tp _ h1 h2
    simp only [dkeys, List.map_cons, List.foldl_cons]
    have : stepCommon other (pre ++ (tk, tp) :: T) tk = pre ++ (tk, mergePresent o.2 tp) :: T := hstep
    rw [this]
    have ih := stepCommon_fold other O T (pre ++ [(tk, mergePresent o.2 tp)]) hal' (by simpa [dkeys, List.append_assoc] using hnd)
      (fun x hx => hget x (List.mem_cons_of_mem _ hx))
    simpa [zipMerge, List.append_assoc, dkeys] using ih

theorem dkeys_zipMerge : ∀ (O T : Dict), aligned O T = true → dkeys (zipMerge O T) = dkeys T
  | [], [], _ => rfl
  | [], _ :: _, h => by simp [aligned] at h
  | _ :: _, [], h => by simp [aligned] at h
  | o :: O, t :: T, h => by
    simp only [aligned, Bool.and_eq_true] at h
    have ih := dkeys_zipMerge O T h.2
    simp only [dkeys] at ih ⊢
    simp [zipMerge, ih]

theorem dhas_of_mem_keys (d : Dict) (k : String) (h : k ∈ dkeys d) : dhas d k = true := by
  simp only [dkeys, List.mem_map] at h
  obtain ⟨x, hx, he⟩ := h
  simp only [dhas, List.any_eq_true, beq_iff_eq]
  exact ⟨x, hx, he⟩

/-- `merge_params(other, target)` on dicts with the same names in the same order: pointwise `merge_present_params` -/
theorem mergeParams_aligned (other target : Dict) (hal : aligned other target = true) (hnd : (dkeys target).Nodup) :
    mergeParams other target = zipMerge other target := by
  have hkeys : dkeys other = dkeys target := aligned_keys other target hal
  have hndo : (dkeys other).Nodup := by rw [hkeys]; exact hnd
  unfold mergeParams
  have hfilter : (dkeys target).filter (dhas other) = dkeys target := by
    rw [List.filter_eq_self]
    intro k hk
    exact dhas_of_mem_keys other k (by rw [hkeys]; exact hk)
  rw [hfilter]
  have hc := stepCommon_fold other other target [] hal (by simpa using hnd)
    (fun o ho => dget?_of_mem other hndo o.1 o.2 ho)
  simp only [List.nil_append] at hc
  rw [hc]
  apply stepMissing_noop
  intro k hk
  apply dhas_of_mem_keys
  rw [dkeys_zipMerge other target hal, ← hkeys]
  exact hk

/-! ## the function emitter's output -/

def fnArgOf (cfg : Cfg) (kv : String × Param) : Arg := { name := kv.1, ann := if cfg.typeAnnotations then kv.2.typ else none }
def fnDefOf (kv : String × Param) : Expr := fnDefault (userD kv.2)

def fnSelf (ir : IR) : List Arg := if ir.type == none || ir.type == some "static" then [] else [{ name := ir.type.getD "" }]

def fnArgs (cfg : Cfg) (ir : IR) : FnArgs :=
  if cfg.kwOnly then
    { args := fnSelf ir, defaults := [], kwonly := ir.params.map (fnArgOf cfg), kwDefaults := ir.params.map (fun kv => some (fnDefOf kv)) }
  else { args := fnSelf ir ++ ir.params.map (fnArgOf cfg), defaults := ir.params.map fnDefOf, kwonly := [], kwDefaults := [] }

def fnAnnot (cfg : Cfg) (ir : IR) : Option String :=
  if cfg.typeAnnotations then (ir.returns.bind (·.typ)).bind (fun t => if t.toList.isEmpty then none else some t) else none

def fnDocStr (env : Env) (cfg : Cfg) (ir : IR) : String := setValueStr (env.docEmit (fnDocCfg cfg) ir)

theorem fnParam_ok (cfg : Cfg) (kv : String × Param) (h : okParam true kv = true) :
    fnParam cfg kv = .ok (fnArgOf cfg kv, fnDefOf kv) := by
  obtain ⟨_, t, _, _, hd⟩ := okParam_facts h
  obtain ⟨n, p⟩ := kv
  unfold fnParam fnArgOf fnDefOf userD
  rcases hd with hd | ⟨d, hd, _⟩ <;> simp only at hd <;> simp [hd, userDefault, bind, Except.bind, pure, Except.pure]

theorem kwargs_false (ir : IR) (hall : ∀ kv ∈ ir.params, okParam true kv = true) :
    ir.params.any (fun kv => endsWith kv.1 "kwargs") = false := by
  simp only [List.any_eq_false]
  intro kv hkv
  have := (okName_facts (okParam_facts (hall kv hkv)).1).1
  simp only [Bool.or_eq_false_iff] at this
  simp [this.1]

/-- the `return` statement of an admissible return entry -/
def fnRetExpr (env : Env) (ir : IR) : Option Expr :=
  match ir.returns.bind (·.default) with
  | some (.val (.str s)) => env.pyExpr (stripTicks s)
  | _ => none

theorem retCanonFn_facts {env : Env} {s : String} (h : retCanonFn env s = true) :
    quotedLike s = false ∧ s.toList.isEmpty = false ∧ s ≠ "None" ∧ s ≠ NoneStr ∧
    ((env.pyExpr (stripTicks s) = some (.name s)) ∨
     (∃ src, env.pyExpr (stripTicks s) = some (.code src false) ∧ s = "```" ++ src ++ "```" ∧ codeQuoted s = true)) := by
  unfold retCanonFn at h
  simp only [Bool.and_eq_true, Bool.not_eq_true', bne_iff_ne, ne_eq] at h
  obtain ⟨⟨⟨⟨h1, h2⟩, h3⟩, h4⟩, h5⟩ := h
  refine ⟨h1, h2, h3, h4, ?_⟩
  cases he : env.pyExpr (stripTicks s) with
  | none => simp [he] at h5
  | some e =>
    cases e with
    | name id => left; simp only [he, beq_iff_eq] at h5; rw [h5]
    | code src tup =>
      cases tup with
      | false =>
        right
        simp only [he, Bool.and_eq_true, beq_iff_eq, bne_iff_ne, ne_eq] at h5
        exact ⟨src, rfl, h5.1.1, h5.1.2⟩
      | true => simp [he] at h5
    | const c => simp [he] at h5
    | neg c => simp [he] at h5

theorem okFnReturn_facts {env : Env} {cfg : Cfg} {r : Param} (h : okFnReturn env cfg r = true) :
    ∃ t, r.typ = some t ∧ okTyp t = true ∧
      (r.default = none ∨ ∃ s, r.default = some (.val (.str s)) ∧ retCanonFn env s = true ∧
        (hasChar t '[' = true ∨ (cfg.typeAnnotations = true ∧ codeQuoted s = false))) := by
  unfold okFnReturn at h
  cases ht : r.typ with
  | none => simp [ht] at h
  | some t =>
    simp only [ht, Bool.and_eq_true] at h
    refine ⟨t, rfl, h.1, ?_⟩
    cases hd : r.default with
    | none => left; rfl
    | some dv =>
      right
      cases dv with
      | node e => simp [hd] at h
      | val d =>
        cases d with
        | str s =>
          simp only [hd, Bool.and_eq_true, Bool.or_eq_true, Bool.not_eq_true'] at h
          exact ⟨s, rfl, h.2.1, h.2.2⟩
        | int i => simp [hd] at h
        | float r => simp [hd] at h
        | complex r => simp [hd] at h
        | bool b => simp [hd] at h

theorem truthy_str {s : String} (h : s.toList.isEmpty = false) : (Default.str s).truthy = true := by
  simp [Default.truthy, h]

theorem fnReturn_ok (env : Env) (cfg : Cfg) (ir : IR) (h : match ir.returns with | some r => okFnReturn env cfg r = true | none => True) :
    fnReturn env ir = .ok ((fnRetExpr env ir).toList.map .ret) := by
  unfold fnReturn fnRetExpr
  cases hr : ir.returns with
  | none => simp [pure, Except.pure]
  | some r =>
    simp only [hr] at h
    obtain ⟨t, _, _, hd⟩ := okFnReturn_facts h
    rcases hd with hd | ⟨s, hd, hc, _⟩
    · simp [hd, pure, Except.pure]
    · obtain ⟨_, hne, _, _, he⟩ := retCanonFn_facts hc
      rcases he with he | ⟨src, he, _, _⟩
      · simp [hd, truthy_str hne, he, pure, Except.pure]
      · simp [hd, truthy_str hne, he, pure, Except.pure]

theorem emitFunction_ok (env : Env) (cfg : Cfg) (ir : IR) (name : String) (hname : ir.name = some name)
    (hall : ∀ kv ∈ ir.params, okParam true kv = true)
    (hret : match ir.returns with | some r => okFnReturn env cfg r = true | none => True) :
    emitFunction env cfg ir =
      .ok (.fn name (fnArgs cfg ir) (.doc (fnDocStr env cfg ir) :: (fnRetExpr env ir).toList.map .ret) (fnAnnot cfg ir)) := by
  unfold emitFunction
  have hm := mapM_ok (fnParam cfg) (fun kv => (fnArgOf cfg kv, fnDefOf kv)) ir.params (fun kv hkv => fnParam_ok cfg kv (hall kv hkv))
  simp only [kwargs_false ir hall, Bool.false_eq_true, ↓reduceIte, hname, hm, fnReturn_ok env cfg ir hret, bind, Except.bind, pure, Except.pure]
  unfold fnArgs fnSelf fnAnnot fnDocStr
  simp only [List.map_map, Function.comp_def]

/-! ## the function parser on the emitter's output: receiver, signature entries -/

/-- the signature entry of a parameter after render + re-read (`func_arg2param`) -/
def sigOf (cfg : Cfg) (kv : String × Param) : String × Param :=
  (kv.1, { doc := none, typ := if cfg.typeAnnotations then kv.2.typ else none, default := some (.node (fnDefOf kv).reparse) })

def okFnType (ir : IR) : Bool := ir.type == some "static" || ir.type == some "self" || ir.type == some "cls"

theorem foundType_params (cfg : Cfg) (ir : IR) (hall : ∀ kv ∈ ir.params, okParam true kv = true) :
    foundTypeOf (ir.params.map (fnArgOf cfg)) = "static" := by
  unfold foundTypeOf
  cases hp : ir.params with
  | nil => rfl
  | cons kv rest =>
    have hn := (okParam_facts (hall kv (by rw [hp]; exact List.mem_cons_self ..))).1
    unfold okName at hn
    simp only [Bool.and_eq_true, Bool.not_eq_true', bne_iff_ne, ne_eq] at hn
    simp [fnArgOf, hn.1.2, hn.2]

theorem fn_sig (cfg : Cfg) (ir : IR) (htype : okFnType ir = true) (hall : ∀ kv ∈ ir.params, okParam true kv = true) :
    foundTypeOf (fnArgs cfg ir).args = ir.type.getD "static" ∧
    sigParams (if foundTypeOf (fnArgs cfg ir).args == "static" then (fnArgs cfg ir).args else (fnArgs cfg ir).args.drop 1)
        (((fnArgs cfg ir).defaults.map Expr.reparse).map some) ++
      sigParams (fnArgs cfg ir).kwonly ((fnArgs cfg ir).kwDefaults.map (·.map Expr.reparse)) = ir.params.map (sigOf cfg) := by
  have hsig : sigParams (ir.params.map (fnArgOf cfg)) (ir.params.map (fun kv => some (fnDefOf kv).reparse)) = ir.params.map (sigOf cfg) := by
    rw [sigParams_map (fnArgOf cfg) (fun kv => (fnDefOf kv).reparse)]
    rfl
  have hfp := foundType_params cfg ir hall
  unfold okFnType at htype
  simp only [Bool.or_eq_true, beq_iff_eq] at htype
  unfold fnArgs fnSelf
  by_cases hk : cfg.kwOnly = true
  · rcases htype with (ht | ht) | ht <;>
      simp [hk, ht, foundTypeOf, sigParams_nil, List.map_map, Function.comp_def, hsig]
  · rcases htype with (ht | ht) | ht
    · simp [hk, ht, hfp, sigParams_nil, List.map_map, Function.comp_def, hsig]
    · simp [hk, ht, foundTypeOf, sigParams_nil, List.map_map, Function.comp_def, hsig]
    · simp [hk, ht, foundTypeOf, sigParams_nil, List.map_map, Function.comp_def, hsig]

/-! ## function: the entries after merge and `_set_name_and_type` -/

/-- the entry the function parser ends with -/
def fnFinal (kv0 kv : String × Param) : String × Param :=
  (kv.1, { doc := docAfter kv0.2.doc, typ := kv.2.typ, default := some (.val (fnBack (userD kv.2))) })

/-- the statement's normalisation of one parameter: no default is shown as `None` -/
def normEntry (kv : String × Param) : String × Param :=
  (kv.1, if kv.2.default.isNone then { kv.2 with default := some (.val (.str NoneStr)) } else kv.2)

def zipFnFinal : Dict → List (String × Param) → Dict
  | kv0 :: P0, kv :: L => fnFinal kv0 kv :: zipFnFinal P0 L
  | _, _ => []

theorem ite_proj {α β : Type} (f : α → β) (c : Prop) [Decidable c] (a b : α) (x : β) (h1 : f a = x) (h2 : f b = x) :
    f (if c then a else b) = x := by
  by_cases h : c <;> simp [h, h1, h2]

theorem mpDoc_typ (o p : Param) : (mpDoc o p).typ = p.typ := by unfold mpDoc; exact ite_proj Param.typ _ _ _ _ rfl rfl
theorem mpDoc_default (o p : Param) : (mpDoc o p).default = p.default := by unfold mpDoc; exact ite_proj Param.default _ _ _ _ rfl rfl
theorem mpTyp_doc (o p : Param) : (mpTyp o p).doc = p.doc := by unfold mpTyp; exact ite_proj Param.doc _ _ _ _ rfl rfl
theorem mpTyp_default (o p : Param) : (mpTyp o p).default = p.default := by unfold mpTyp; exact ite_proj Param.default _ _ _ _ rfl rfl
theorem mpDefault_doc (o p : Param) : (mpDefault o p).doc = p.doc := by unfold mpDefault; exact ite_proj Param.doc _ _ _ _ rfl rfl
theorem mpDefault_typ (o p : Param) : (mpDefault o p).typ = p.typ := by unfold mpDefault; exact ite_proj Param.typ _ _ _ _ rfl rfl

theorem ite_apply' {α β : Type} (f : α → β) (c : Prop) [Decidable c] (a b : α) : f (if c then a else b) = if c then f a else f b := by
  by_cases h : c <;> simp [h]

theorem mergePresent_doc (o p : Param) :
    (mergePresent o p).doc = if falsyDoc p.doc && !falsyDoc o.doc then o.doc else p.doc := by
  unfold mergePresent
  rw [mpDefault_doc, mpTyp_doc]
  unfold mpDoc
  rw [ite_apply' Param.doc]

theorem mergePresent_typ (o p : Param) :
    (mergePresent o p).typ = if o.typ != none && (p.typ == none || (match p.typ, o.typ with
        | some tt, some ot => isSimple tt && !isSimple ot | _, _ => false)) then o.typ else p.typ := by
  unfold mergePresent
  rw [mpDefault_typ]
  unfold mpTyp
  rw [ite_apply' Param.typ, mpDoc_typ]
  rfl

theorem mergePresent_default (o p : Param) :
    (mergePresent o p).default = if isNoneLike p.default && o.default != none then o.default else p.default := by
  unfold mergePresent mpDefault
  rw [ite_apply' Param.default, mpTyp_default, mpDoc_default]

theorem fn_merge_typ (cfg : Cfg) (t0 : Option String) (t : String) :
    fnTypOK cfg t0 (some t) = true →
    (if (if cfg.typeAnnotations then some t else none) != none && (t0 == none || (match t0, (if cfg.typeAnnotations then some t else none) with
        | some tt, some ot => isSimple tt && !isSimple ot | _, _ => false)) then (if cfg.typeAnnotations then some t else none) else t0) = some t := by
  intro h
  unfold fnTypOK at h
  by_cases hta : cfg.typeAnnotations = true
  · simp only [hta, ↓reduceIte, Bool.or_eq_true, beq_iff_eq] at h ⊢
    rcases h with (h | h) | h
    · simp [h]
    · subst h; by_cases hs : isSimple t = true <;> simp [hs]
    · cases t0 with
      | none => simp
      | some a => simp only at h; simp [h]
  · simp only [hta, Bool.false_eq_true, ↓reduceIte, beq_iff_eq] at h ⊢
    simp [h]

theorem fn_entry (env : Env) (cfg : Cfg) (kv0 kv : String × Param) (hp : okParam true kv = true) (he : fnEntryOK env cfg kv0 kv = true) :
    setNameAndType env false (kv0.1, mergePresent (sigOf cfg kv).2 kv0.2) = .ok (fnFinal kv0 kv) ∧
      (fnFinal kv0 kv).2.view (fnFinal kv0 kv).1 = (normEntry kv).2.view (normEntry kv).1 := by
  obtain ⟨hn, t, htyp, ht, hdflt⟩ := okParam_facts hp
  obtain ⟨hnk, _⟩ := okName_facts hn
  unfold fnEntryOK at he
  simp only [Bool.and_eq_true, beq_iff_eq] at he
  obtain ⟨⟨⟨hkey, hdesc⟩, htypok⟩, hdefok⟩ := he
  unfold fnDescOK at hdesc
  simp only [Bool.and_eq_true, beq_iff_eq] at hdesc
  obtain ⟨hview, hquiet⟩ := hdesc
  obtain ⟨n0, p0⟩ := kv0
  obtain ⟨n, p⟩ := kv
  simp only at hkey htyp hdflt hview hquiet hn ht htypok hdefok
  subst hkey
  rw [htyp] at htypok
  -- the user-level default
  have hud : ∀ d, userD p = some d → okDefault true t d = true := by
    intro d hd
    rcases hdflt with h | ⟨d', h, hok⟩
    · simp [userD, h] at hd
    · simp only [userD, h, Option.some.injEq] at hd; subst hd; exact hok
  have hflag : (p.default.isNone || isNoneStrD p.default) = ((userD p).isNone || isNoneStrD ((userD p).map .val)) := by
    rcases hdflt with h | ⟨d', h, _⟩ <;> simp [userD, h]
  -- the merged entry, field by field
  have hmdoc : (mergePresent (sigOf cfg (n0, p)).2 p0).doc = p0.doc := by
    rw [mergePresent_doc]; simp [sigOf, falsyDoc]
  have hmtyp : (mergePresent (sigOf cfg (n0, p)).2 p0).typ = some t := by
    rw [mergePresent_typ]
    simp only [sigOf, htyp]
    exact fn_merge_typ cfg p0.typ t htypok
  have hmdef : (mergePresent (sigOf cfg (n0, p)).2 p0).default =
      if isNoneLike p0.default then some (.node (fnDefOf (n0, p)).reparse) else p0.default := by
    rw [mergePresent_default]; simp [sigOf]
  have heta : mergePresent (sigOf cfg (n0, p)).2 p0 =
      { doc := p0.doc, typ := some t, default := if isNoneLike p0.default then some (.node (fnDefOf (n0, p)).reparse) else p0.default } := by
    rw [← hmdoc, ← hmtyp, ← hmdef]
  constructor
  · rw [heta]
    by_cases hnl : isNoneLike p0.default = true
    · simp only [hnl, ↓reduceIte]
      have := setNameAndType_fn env false n0 p0.doc t (userD p) hnk ht hud
        (fun d0 h => by have := hquiet; simp only [h] at this; rw [hflag] at this; exact this)
      simp only [fnDefOf]
      rw [this]
      simp [fnFinal, htyp]
    · -- a default read from the docstring prose: it is the interface's default
      simp only [hnl, Bool.false_eq_true, ↓reduceIte]
      unfold fnDefaultOK at hdefok
      simp only [hnl, Bool.false_or, beq_iff_eq] at hdefok
      rcases hdflt with h | ⟨d, h, hok⟩
      · rw [hdefok, h] at hnl; simp [isNoneLike] at hnl
      · have hdn : d.inNoneTypes = false := by
          rw [hdefok, h] at hnl; simpa [isNoneLike, DVal.inNoneTypes] using hnl
        rw [hdefok, h]
        have := setNameAndType_ok env false n0 p0.doc t (some d) hnk (okTyp_googleOpt ht) (fun d' hd' => by cases hd'; exact okDefault_okSnt hok)
          (fun d0 hd0 => by have := hquiet; simp only [hd0] at this; simpa [h, isNoneStrD] using this)
        simp only [Option.map_some] at this
        rw [this]
        simp [fnFinal, htyp, userD, h, fnBack, hdn]
  · simp only [fnFinal, normEntry, Param.view, docAfter_view, hview]
    rcases hdflt with h | ⟨d, h, hok⟩
    · simp [h, userD, fnBack]
    · simp [h, userD, fnBack_some hok]

theorem fn_entries (env : Env) (cfg : Cfg) : ∀ (P0 : Dict) (L : List (String × Param)),
    forall2 (fnEntryOK env cfg) P0 L = true → (∀ kv ∈ L, okParam true kv = true) →
    (zipMerge (L.map (sigOf cfg)) P0).mapM (setNameAndType env false) = .ok (zipFnFinal P0 L) ∧
      (zipFnFinal P0 L).map (fun kv => kv.2.view kv.1) = (L.map normEntry).map (fun kv => kv.2.view kv.1)
  | [], [], _, _ => by simp [zipMerge, zipFnFinal, pure, Except.pure]
  | [], _ :: _, h, _ => by simp [forall2] at h
  | _ :: _, [], h, _ => by simp [forall2] at h
  | kv0 :: P0, kv :: L, h, hok => by
    simp only [forall2, Bool.and_eq_true] at h
    obtain ⟨h1, h2⟩ := fn_entry env cfg kv0 kv (hok kv (List.mem_cons_self ..)) h.1
    obtain ⟨r1, r2⟩ := fn_entries env cfg P0 L h.2 (fun x hx => hok x (List.mem_cons_of_mem _ hx))
    constructor
    · simp only [List.map_cons, zipMerge, zipFnFinal, List.mapM_cons, h1, r1, bind, Except.bind, pure, Except.pure]
    · simp only [zipFnFinal, List.map_cons, h2, r2]

theorem fn_aligned (env : Env) (cfg : Cfg) : ∀ (P0 : Dict) (L : List (String × Param)),
    forall2 (fnEntryOK env cfg) P0 L = true → aligned (L.map (sigOf cfg)) P0 = true
  | [], [], _ => rfl
  | [], _ :: _, h => by simp [forall2] at h
  | _ :: _, [], h => by simp [forall2] at h
  | kv0 :: P0, kv :: L, h => by
    simp only [forall2, Bool.and_eq_true] at h
    simp only [List.map_cons, aligned, Bool.and_eq_true]
    refine ⟨?_, fn_aligned env cfg P0 L h.2⟩
    have := h.1
    unfold fnEntryOK at this
    simp only [Bool.and_eq_true, beq_iff_eq] at this
    simp [sigOf, this.1.1.1]

/-! ## function: the return entry -/

theorem rt_not_kwargs : (endsWith "return_type" "kwargs" || startsWith "return_type" "*") = false := by decide

theorem okTyp_nonempty {t : String} (h : okTyp t = true) : t.toList.isEmpty = false := by
  unfold okTyp at h
  simp only [Bool.and_eq_true, Bool.not_eq_true'] at h
  exact h.1.1.1.1

theorem fn_returns (env : Env) (cfg : Cfg) (ir : IR) (r0? : Option Param)
    (hret : match ir.returns with | some r => okFnReturn env cfg r = true | none => True)
    (hH : fnReturnOK env cfg r0? ir.returns = true) :
    ∃ R, fnRetStep env false (interpolateReturn (((fnRetExpr env ir).toList.map Stmt.ret).map Stmt.reparse) (fnAnnot cfg ir) r0?) = .ok R ∧
         R.map (Param.view "return_type") = ir.returns.map (Param.view "return_type") := by
  unfold fnReturnOK at hH
  cases hr : ir.returns with
  | none =>
    cases r0? with
    | some r0 => simp [hr] at hH
    | none =>
      refine ⟨none, ?_, rfl⟩
      simp [fnRetExpr, fnAnnot, hr, interpolateReturn, fnRetStep, pure, Except.pure]
  | some r =>
    cases r0? with
    | none => simp [hr] at hH
    | some r0 =>
      simp only [hr, Bool.and_eq_true, Bool.or_eq_true, beq_iff_eq] at hH hret
      obtain ⟨⟨hdesc, htyp0⟩, hdef0⟩ := hH
      unfold fnDescOK at hdesc
      simp only [Bool.and_eq_true, beq_iff_eq] at hdesc
      obtain ⟨hview, hquiet⟩ := hdesc
      obtain ⟨t, htyp, ht, hd⟩ := okFnReturn_facts hret
      have hne := okTyp_nonempty ht
      have hne' : t ≠ "" := by intro h; subst h; simp at hne
      have hannot : fnAnnot cfg ir = if cfg.typeAnnotations then some t else none := by
        unfold fnAnnot; simp [hr, htyp, hne']
      rcases hd with hd | ⟨s, hd, hc, hbr⟩
      · -- no return default: no return statement
        have h0 : r0.default = none := by simpa [hd] using hdef0
        have hexpr : fnRetExpr env ir = none := by simp [fnRetExpr, hr, hd]
        have hint : interpolateReturn (((fnRetExpr env ir).toList.map Stmt.ret).map Stmt.reparse) (fnAnnot cfg ir) (some r0) =
            some { doc := r0.doc, typ := some t, default := (none : Option Default).map .val } := by
          rw [hexpr, hannot]
          by_cases hta : cfg.typeAnnotations = true
          · simp [interpolateReturn, hta, h0]
          · have : r0.typ = some t := by
              rcases htyp0 with h | h
              · exact absurd h hta
              · rw [h, htyp]
            simp only [interpolateReturn, Option.toList_none, List.map_nil, List.reverse_nil, List.filterMap_nil, List.head?_nil, hta,
              Bool.false_eq_true, ↓reduceIte, Option.map_none]
            congr 1
            cases r0; simp_all
        rw [hint]
        have := setNameAndType_ok env false "return_type" r0.doc t none rt_not_kwargs (okTyp_googleOpt ht) (fun d h => by cases h)
          (fun d0 h => by have := hquiet; simp only [h] at this; simpa [isNoneStrD] using this)
        simp only [Option.map_none] at this ⊢
        refine ⟨some { doc := docAfter r0.doc, typ := some t, default := none }, ?_, ?_⟩
        · simp only [fnRetStep, this, bind, Except.bind, pure, Except.pure]
        · simp [Param.view, docAfter_view, hview, htyp, hd]
      · -- a return statement
        obtain ⟨hql, _, hnN, hnS, he⟩ := retCanonFn_facts hc
        have hinfer : okSnt t (.str s) = true := by
          have hns : (s == NoneStr) = false := by simpa using hnS
          have : (!codeQuoted s || hasChar t '[') = true := by
            rcases hbr with h | ⟨_, h⟩
            · simp [h]
            · simp [h]
          simp [okSnt, okInfer, hns, hql, hnN, this, Default.inNoneTypes, hnS]
        have hint : interpolateReturn (((fnRetExpr env ir).toList.map Stmt.ret).map Stmt.reparse) (fnAnnot cfg ir) (some r0) =
            some { doc := r0.doc, typ := some t, default := (some (Default.str s)).map .val } := by
          have hkeep : (if cfg.typeAnnotations then some t else (dropPlainTyp r0).typ) = some t := by
            by_cases hta : cfg.typeAnnotations = true
            · simp [hta]
            · have h0t : r0.typ = some t := by
                rcases htyp0 with h | h
                · exact absurd h hta
                · rw [h, htyp]
              have hb : hasChar t '[' = true := by
                rcases hbr with h | ⟨h, _⟩
                · exact h
                · exact absurd h hta
              simp [hta, dropPlainTyp, h0t, hb]
          have hdocs : (dropPlainTyp r0).doc = r0.doc := by
            unfold dropPlainTyp
            cases r0.typ with
            | none => rfl
            | some t' => by_cases hb : hasChar t' '[' = true <;> simp [hb]
          have hrd : ∀ e, fnRetExpr env ir = some e → e.reparse = e → returnDefault e = .val (.str s) →
              interpolateReturn (((fnRetExpr env ir).toList.map Stmt.ret).map Stmt.reparse) (if cfg.typeAnnotations then some t else none) (some r0) =
                some { doc := r0.doc, typ := some t, default := some (.val (.str s)) } := by
            intro e hexp hrep hrd
            rw [hexp]
            simp only [interpolateReturn, Option.toList_some, List.map_cons, List.map_nil, Stmt.reparse, hrep, List.reverse_cons,
              List.reverse_nil, List.nil_append, List.filterMap_cons, Stmt.returnExpr?, List.filterMap_nil, List.head?_cons, hrd,
              Option.getD_some]
            by_cases hta : cfg.typeAnnotations = true
            · simp [hta, hdocs]
            · simp only [hta, Bool.false_eq_true, ↓reduceIte] at hkeep ⊢
              simp [hdocs, hkeep]
          rw [hannot]
          rcases he with he | ⟨src, he, hs, _⟩
          · exact hrd (.name s) (by simp [fnRetExpr, hr, hd, he]) rfl (by simp [returnDefault, getValue])
          · exact hrd (.code src false) (by simp [fnRetExpr, hr, hd, he]) rfl (by simp [returnDefault, getValue, Expr.text, hs])
        rw [hint]
        have := setNameAndType_ok env false "return_type" r0.doc t (some (.str s)) rt_not_kwargs (okTyp_googleOpt ht)
          (fun d h => by cases h; exact hinfer)
          (fun d0 h => by
            have := hquiet; simp only [h] at this
            have hns : (s == NoneStr) = false := by simpa using hnS
            simpa [isNoneStrD, DVal.isNoneStr, Default.isNoneStr, hns] using this)
        simp only [Option.map_some] at this ⊢
        refine ⟨some { doc := docAfter r0.doc, typ := some t, default := some (.val (.str s)) }, ?_, ?_⟩
        · simp only [fnRetStep, this, bind, Except.bind, pure, Except.pure]
        · simp [Param.view, docAfter_view, hview, htyp, hd]

/-! ## function: the round trip -/

theorem parseFunction_eq (env : Env) (name : String) (args : FnArgs) (s : String) (rest : List Stmt) (annot : Option String) :
    parseFunction env false (.fn name args (.doc s :: rest) annot) =
      (do let ir0 := env.docParse (.fn false) (String.ofList (Py.replace s.toList ":cvar".toList ":param".toList))
          let sig := sigParams (if foundTypeOf args.args == "static" then args.args else args.args.drop 1) (args.defaults.map some) ++
                     sigParams args.kwonly args.kwDefaults
          let params ← (if ir0.params.isEmpty then sig else if sig.isEmpty then ir0.params else mergeParams sig ir0.params).mapM
                         (setNameAndType env false)
          let returns ← fnRetStep env false (interpolateReturn rest annot ir0.returns)
          pure { name := some name, type := some (foundTypeOf args.args), doc := ir0.doc, params := params, returns := returns }) := by
  rfl

def normFn (ir : IR) : IR := { ir with params := ir.params.map normEntry }

def functionRoundTrip (env : Env) (cfg : Cfg) (ir : IR) : Except String (List PV × Option PV) := do
  let t ← emitFunction env cfg ir
  let ir' ← parseFunction env false t.reparse
  pure ir'.view

theorem forall2_length {α β : Type} (f : α → β → Bool) : ∀ (as : List α) (bs : List β), forall2 f as bs = true → as.length = bs.length
  | [], [], _ => rfl
  | [], _ :: _, h => by simp [forall2] at h
  | _ :: _, [], h => by simp [forall2] at h
  | a :: as, b :: bs, h => by
    simp only [forall2, Bool.and_eq_true] at h
    simp [forall2_length f as bs h.2]

theorem function_roundtrip (env : Env) (cfg : Cfg) (ir : IR)
    (hD : inD02Function env cfg ir = true) (hH : functionHyp env cfg ir = true) :
    functionRoundTrip env cfg ir = .ok (normFn ir).view := by
  unfold inD02Function at hD
  simp only [Bool.and_eq_true, List.all_eq_true] at hD
  obtain ⟨⟨⟨⟨⟨hname, htype⟩, hnd⟩, _⟩, hall⟩, hret⟩ := hD
  obtain ⟨name, hname⟩ := Option.isSome_iff_exists.mp hname
  have hnd : (dkeys ir.params).Nodup := by simpa [namesOk] using hnd
  have hret' : match ir.returns with | some r => okFnReturn env cfg r = true | none => True := by
    cases hr : ir.returns with
    | none => trivial
    | some r => simpa [hr] using hret
  unfold functionHyp at hH
  simp only [Bool.and_eq_true] at hH
  obtain ⟨hfa, hfr⟩ := hH
  unfold functionRoundTrip
  rw [emitFunction_ok env cfg ir name hname hall hret']
  simp only [bind, Except.bind, Top.reparse, List.map_cons, Stmt.reparse]
  rw [parseFunction_eq]
  obtain ⟨hfound, hsig⟩ := fn_sig cfg ir (by simpa [okFnType] using htype) hall
  simp only [hsig]
  simp only [hfound]
  have hir0 : env.docParse (.fn false) (String.ofList (Py.replace (fnDocStr env cfg ir).toList ":cvar".toList ":param".toList)) = fnDocIR0 env cfg ir := rfl
  rw [hir0]
  -- the merged parameters
  have hal := fn_aligned env cfg _ _ hfa
  have hlen := forall2_length _ _ _ hfa
  have hkeys : dkeys (fnDocIR0 env cfg ir).params = dkeys ir.params := by
    have := aligned_keys _ _ hal
    rw [← this]; simp [dkeys, sigOf, Function.comp_def]
  have hparams : (if (fnDocIR0 env cfg ir).params.isEmpty then ir.params.map (sigOf cfg)
      else if (ir.params.map (sigOf cfg)).isEmpty then (fnDocIR0 env cfg ir).params
      else mergeParams (ir.params.map (sigOf cfg)) (fnDocIR0 env cfg ir).params) = zipMerge (ir.params.map (sigOf cfg)) (fnDocIR0 env cfg ir).params := by
    cases hp0 : (fnDocIR0 env cfg ir).params with
    | nil =>
      have : ir.params = [] := by
        rw [hp0] at hlen; exact List.length_eq_zero_iff.mp hlen.symm
      simp [this, zipMerge]
    | cons x xs =>
      cases hp : ir.params with
      | nil => rw [hp0, hp] at hlen; simp at hlen
      | cons y ys =>
        simp only [List.isEmpty_cons, Bool.false_eq_true, ↓reduceIte, List.map_cons]
        have := mergeParams_aligned (ir.params.map (sigOf cfg)) (fnDocIR0 env cfg ir).params hal (by rw [hkeys]; exact hnd)
        rw [hp0, hp] at this
        simpa using this
  rw [hparams]
  obtain ⟨hm, hv⟩ := fn_entries env cfg _ _ hfa hall
  rw [hm]
  obtain ⟨R, hR, hRv⟩ := fn_returns env cfg ir (fnDocIR0 env cfg ir).returns hret' hfr
  simp only [hR, bind, Except.bind, pure, Except.pure, IR.view, normFn]
  rw [hv, hRv]

end Iface
