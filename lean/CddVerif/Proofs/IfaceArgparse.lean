import CddVerif.Proofs.Iface
/-!
# C02 — helper lemmas for the argparse format: `_resolve_arg` / `infer_type_and_default` on scalar and
`Optional[scalar]` types, `parse_out_param`, `_parse_return`
-/
namespace Iface

/-! ## the five scalar types -/

theorem simple_cases {t : String} (h : isSimple t = true) : t = "int" ∨ t = "float" ∨ t = "complex" ∨ t = "str" ∨ t = "bool" := by
  unfold isSimple simpleTypes at h
  simpa using h

/-- string facts about a scalar type name the argparse lemmas use (all closed by evaluation on the five names) -/
structure BaseFacts (b : String) : Prop where
  simple : isSimple b = true
  notOptPrefix : (startsWith b "Optional[" && endsWith b "]") = false
  notDict : (b == "dict") = false
  notLoads : (b == "loads") = false
  notPickle : (b == "pickle.loads") = false
  notGlobals : (b == "globals().__getitem__") = false
  noOptional : hasSub b "Optional" = false
  optNotSimple : isSimple ("Optional[" ++ b ++ "]") = false
  optNotDict : (("Optional[" ++ b ++ "]") == "dict") = false
  optNotClass : startsWith ("Optional[" ++ b ++ "]") "<class '" = false
  optNonempty : ("Optional[" ++ b ++ "]").toList.isEmpty = false
  optNames : typeNames ("Optional[" ++ b ++ "]") = ["Optional", b]
  optConsts : typeStrConsts ("Optional[" ++ b ++ "]") = []
  optHasOptional : hasSub ("Optional[" ++ b ++ "]") "Optional" = true
  optInner : String.ofList ((("Optional[" ++ b ++ "]").toList.drop 9).dropLast) = b
  optPrefix : (startsWith ("Optional[" ++ b ++ "]") "Optional[" && endsWith ("Optional[" ++ b ++ "]") "]") = true
  requiredLower : requiredLower.contains (String.ofList (Py.lower b.toList)) = (b != "bool")
  optFold : (["Optional", b].foldl stepName (none, none, some "str")) = (some false, none, some b)

theorem baseFacts {b : String} (h : isSimple b = true) : BaseFacts b := by
  rcases simple_cases h with rfl | rfl | rfl | rfl | rfl <;> constructor <;> decide

/-! ## one parameter: emit -/

/-- values `set_value` writes so that `get_value` reads them back after render + re-read -/
def argValOK : Default → Bool
  | .str s => !(decide (s.toList.length > 2) && quotedLike s) && !codeQuoted s
  | .float r => okNumRepr r
  | .complex r => okNumRepr r
  | _ => true

theorem okArgparseParam_facts {kv : String × Param} (h : okArgparseParam kv = true) :
    okName kv.1 = true ∧ ∃ t d, kv.2.typ = some t ∧ kv.2.default = some (.val d) ∧ isSimple (baseOf t) = true ∧
      d.typeName = baseOf t ∧ (t = baseOf t ∨ t = "Optional[" ++ baseOf t ++ "]") ∧ argValOK d = true := by
  obtain ⟨n, doc, typ, dflt⟩ := kv
  unfold okArgparseParam at h
  simp only [Bool.and_eq_true] at h
  refine ⟨h.1, ?_⟩
  cases typ with
  | none => simp at h
  | some t =>
    cases dflt with
    | none => simp at h
    | some dv =>
      cases dv with
      | node e => simp at h
      | val d =>
        have h2 := h.2
        simp only [Bool.and_eq_true, beq_iff_eq, Bool.or_eq_true] at h2
        refine ⟨t, d, rfl, rfl, h2.1.1.1, h2.1.1.2, h2.1.2, ?_⟩
        unfold argValOK
        cases d <;> first | rfl | exact h2.2

theorem argVal_back {d : Default} (h : argValOK d = true) : getValue (setValue d).reparse = .val d := by
  cases d with
  | str s =>
    simp only [argValOK, Bool.and_eq_true, Bool.not_eq_true'] at h
    have : setValueStr s = s := by unfold setValueStr; simp [h.1]
    simp [setValue, this, Expr.reparse, getValue]
  | int i => exact gv_const _ rfl
  | float r => exact gv_const _ h
  | complex r => exact gv_const _ h
  | bool b => exact gv_const _ rfl

theorem argVal_notCode {d : Default} (h : argValOK d = true) : d.isCode = false := by
  cases d with
  | str s => simp only [argValOK, Bool.and_eq_true, Bool.not_eq_true'] at h; simpa [Default.isCode] using h.2
  | _ => rfl

theorem inferTypeAndDefault_plain (env : Env) (d : Default) (ty : Option String) (h : d.isCode = false) :
    inferTypeAndDefault env (some d) ty = .ok (some d, some d.typeName) := by
  unfold inferTypeAndDefault
  simp [h, pure, Except.pure]

theorem resolveArg_simple (n t : String) (hb : BaseFacts t) :
    resolveArg n t true = .ok { action := none, choices := none, required := true, typ := some t } := by
  unfold resolveArg
  simp only [hb.simple, ↓reduceIte, pure, Except.pure, bind, Except.bind, Option.getD_some, hb.requiredLower]
  by_cases h : t = "bool" <;> simp [h]

theorem resolveArg_optional (n b : String) (hb : BaseFacts b) (hn : endsWith n "kwargs" = false) :
    resolveArg n ("Optional[" ++ b ++ "]") true = .ok { action := none, choices := none, required := false, typ := some b } := by
  unfold resolveArg
  simp only [hb.optNotSimple, Bool.false_eq_true, ↓reduceIte, hb.optNotDict, hn, Bool.or_self, hb.optNotClass, hb.optNonempty, hb.optNames,
    hb.optConsts, hb.optFold, pure, Except.pure, bind, Except.bind]
  simp

/-- the `add_argument` call of an admissible parameter -/
def addArgOf (kv : String × Param) : AddArg :=
  let t := kv.2.typ.getD ""
  let b := baseOf t
  { name := kv.1
    typ := if b == "str" then none else some b
    choices := none
    action := none
    help := match kv.2.doc with | some d => if d.toList.isEmpty then none else some d | none => none
    required := t == b
    default := (userD kv.2).map setValue }

theorem baseOf_simple {t : String} (hb : BaseFacts t) : baseOf t = t := by
  unfold baseOf; simp [hb.notOptPrefix]

theorem baseOf_optional {b : String} (hb : BaseFacts b) : baseOf ("Optional[" ++ b ++ "]") = b := by
  unfold baseOf; simp only [hb.optPrefix, ↓reduceIte]; exact hb.optInner

theorem opt_ne_base {b : String} (hb : BaseFacts b) : ("Optional[" ++ b ++ "]" == b) = false := by
  simp only [beq_eq_false_iff_ne, ne_eq]
  intro h
  have h1 := hb.optNotSimple
  rw [h, hb.simple] at h1
  cases h1

/-- the `type=` keyword: omitted for `str` -/
def typKw (b : String) : Option String :=
  if (some b == some "pickle.loads") = true then some b else if (some b == some "str" && (none : Option String) == none) = true then none else some b

theorem typKw_facts {b : String} (h : isSimple b = true) :
    typKw b = (if (b == "str") = true then none else some b) ∧ (typKw b == some "pickle.loads" || typKw b == some "loads") = false ∧
    (typKw b).map (fun t => if (t == "globals().__getitem__") = true then "str" else t) = (if (b == "str") = true then none else some b) := by
  rcases simple_cases h with rfl | rfl | rfl | rfl | rfl <;> decide

theorem help_eq (doc : Option String) : setValueStr (doc.getD "") = doc.getD "" →
    (if (doc.getD "").toList.isEmpty = true then none else some (setValueStr (doc.getD ""))) =
      (match doc with | some d => if d.toList.isEmpty = true then none else some d | none => none) := by
  intro hsv
  rw [hsv]
  cases doc with
  | none => rfl
  | some d => rfl

theorem param2argparse_ok (env : Env) (cfg : Cfg) (kv : String × Param) (h : okArgparseParam kv = true)
    (hH : argparseParamHyp env cfg kv = true) :
    param2argparse env cfg.emitDefaultDoc kv = .ok (addArgOf kv) := by
  obtain ⟨hn, t, d, htyp, hd, hsb, htn, hto, hval⟩ := okArgparseParam_facts h
  obtain ⟨hnk, _⟩ := okName_facts hn
  simp only [Bool.or_eq_false_iff] at hnk
  have hb := baseFacts hsb
  unfold argparseParamHyp at hH
  simp only [Bool.and_eq_true, beq_iff_eq] at hH
  obtain ⟨hed, hsv⟩ := hH
  obtain ⟨n, p⟩ := kv
  simp only at htyp hd hed hsv hnk
  have hhelp := help_eq p.doc hsv
  obtain ⟨hk1, hk2, hk3⟩ := typKw_facts hsb
  unfold typKw at hk1 hk2 hk3
  unfold param2argparse addArgOf
  simp only [hd, userDefault, htyp, Option.getD_some, Option.isSome_some, hed, pure, Except.pure, bind, Except.bind, userD, Option.map_some]
  rcases hto with hto | hto
  · -- a scalar type
    have hbt : BaseFacts t := by rw [hto]; exact hb
    rw [resolveArg_simple n t hbt]
    simp only [inferTypeAndDefault_plain env d (some t) (argVal_notCode hval), htn, ← hto]
    simp only [hhelp]
    clear hk1 hk2 hk3 hto hsb htn hb
    rcases simple_cases hbt.simple with rfl | rfl | rfl | rfl | rfl <;> simp
  · -- Optional[scalar]
    rw [hto, resolveArg_optional n (baseOf t) hb hnk.1]
    simp only [inferTypeAndDefault_plain env d (some (baseOf t)) (argVal_notCode hval), htn]
    simp only [hhelp, baseOf_optional hb, opt_ne_base hb]
    clear hk1 hk2 hk3 hto htn
    generalize baseOf t = b at *
    rcases simple_cases hsb with rfl | rfl | rfl | rfl | rfl <;> simp

/-! ## one parameter: parse -/

/-- the entry `parse_out_param` reads back -/
def backOf (kv : String × Param) : String × Param := (kv.1, { doc := (addArgOf kv).help, typ := kv.2.typ, default := kv.2.default })

theorem parseOutParam_back (env : Env) (kv : String × Param) (h : okArgparseParam kv = true) :
    parseOutParam env { (addArgOf kv) with default := (addArgOf kv).default.map Expr.reparse } = .ok (backOf kv) := by
  obtain ⟨hn, t, d, htyp, hd, hsb, htn, hto, hval⟩ := okArgparseParam_facts h
  have hb := baseFacts hsb
  obtain ⟨n, p⟩ := kv
  simp only at htyp hd
  unfold parseOutParam backOf addArgOf
  simp only [htyp, Option.getD_some, userD, hd, Option.map_some, argVal_back hval, pure, Except.pure, bind, Except.bind]
  have happ : ((none : Option String) == some "append") = false := rfl
  simp only [happ, Bool.false_eq_true, ↓reduceIte]
  by_cases hs : baseOf t = "str"
  · simp only [hs, beq_self_eq_true, ↓reduceIte]
    rcases hto with hto | hto
    · rw [hs] at hto; subst hto; simp
    · rw [hs] at hto; subst hto; simp; decide
  · have hs' : (baseOf t == "str") = false := by simpa using hs
    simp only [hs', Bool.false_eq_true, ↓reduceIte, hb.notLoads]
    rcases hto with hto | hto
    · have : (t == baseOf t) = true := by simpa using hto
      simp [this, ← hto]
    · have hne : (t == baseOf t) = false := by rw [hto]; simpa [baseOf_optional hb] using opt_ne_base hb
      simp only [hne, Bool.not_false, Bool.true_and, hb.noOptional, ↓reduceIte]
      simp [← hto]

theorem backOf_view (kv : String × Param) : (backOf kv).2.view (backOf kv).1 = kv.2.view kv.1 := by
  unfold backOf addArgOf Param.view
  simp only [PV.mk.injEq, true_and]
  cases hd : kv.2.doc with
  | none => rfl
  | some d =>
    by_cases he : d.toList.isEmpty = true
    · have : d = "" := by
        apply toList_inj'
        simpa using he
      subst this
      simp [normDoc_empty]
    · simp [he]

/-! ## the loop over the `add_argument` calls -/

theorem argparseStep_add (env : Env) (docIR : IR) (raw : String) (acc : IR) (kv : String × Param) (h : okArgparseParam kv = true)
    (hk : dhas acc.params kv.1 = false) :
    argparseStep env docIR raw acc (Stmt.reparse (.addArg (addArgOf kv))) = .ok { acc with params := acc.params ++ [backOf kv] } := by
  have hname : (backOf kv).1 = kv.1 := rfl
  simp only [Stmt.reparse, argparseStep, parseOutParam_back env kv h, bind, Except.bind, hname, hk, Bool.false_eq_true, ↓reduceIte, pure, Except.pure]
  rfl

theorem argparseFold (env : Env) (docIR : IR) (raw : String) : ∀ (L : List (String × Param)) (acc : IR),
    (∀ kv ∈ L, okArgparseParam kv = true) → (dkeys acc.params ++ dkeys L).Nodup →
    (L.map (fun kv => Stmt.reparse (.addArg (addArgOf kv)))).foldlM (argparseStep env docIR raw) acc =
      .ok { acc with params := acc.params ++ L.map backOf }
  | [], acc, _, _ => by simp [pure, Except.pure]
  | kv :: L, acc, hok, hnd => by
    have hk : dhas acc.params kv.1 = false := by
      apply dhas_false_of_not_mem
      intro hm
      have := (List.nodup_append.mp hnd).2.2 kv.1 hm kv.1 (by simp [dkeys])
      exact this rfl
    rw [List.map_cons, List.foldlM_cons, argparseStep_add env docIR raw acc kv (hok kv (List.mem_cons_self ..)) hk]
    simp only [bind, Except.bind]
    have ih := argparseFold env docIR raw L { acc with params := acc.params ++ [backOf kv] }
      (fun x hx => hok x (List.mem_cons_of_mem _ hx))
      (by
        have : dkeys (acc.params ++ [backOf kv]) ++ dkeys L = dkeys acc.params ++ dkeys (kv :: L) := by
          simp [dkeys, backOf]
        simp only [this]; exact hnd)
    rw [ih]
    simp [List.append_assoc]

/-! ## the return entry -/

theorem tupleType_facts (t : String) :
    hasChar (tupleParserPrefix ++ t ++ "]") '[' = true ∧ startsWith (tupleParserPrefix ++ t ++ "]") tupleParserPrefix = true ∧
    endsWith (tupleParserPrefix ++ t ++ "]") "]" = true ∧
    String.ofList (((tupleParserPrefix ++ t ++ "]").toList.drop tupleParserPrefix.toList.length).dropLast) = t := by
  have e : "]".toList = [']'] := by decide
  refine ⟨?_, ?_, ?_, ?_⟩
  · unfold hasChar
    simp only [String.toList_append, List.contains_eq_mem, List.mem_append, decide_eq_true_eq]
    left; left; decide
  · unfold startsWith
    simp only [String.toList_append, List.append_assoc]
    exact List.isPrefixOf_iff_prefix.mpr (List.prefix_append _ _)
  · unfold endsWith
    simp only [String.toList_append, e, List.reverse_append, List.reverse_cons, List.reverse_nil, List.nil_append, List.singleton_append,
      List.cons_append]
    simp [List.isPrefixOf]
  · apply toList_inj'
    simp only [String.toList_append, e, String.toList_ofList, List.append_assoc, List.drop_left]
    simp

theorem parseReturn_ok (env : Env) (docIR : IR) (raw : String) (e : Expr) (t d : String)
    (htyp : (docIR.returns.bind (·.typ)) = some (tupleParserPrefix ++ t ++ "]")) (hline : returnLineDoc env raw = some d) :
    parseReturn env docIR raw e = .ok { doc := some d, default := some (.val (.str e.text)), typ := some t } := by
  obtain ⟨h1, h2, h3, h4⟩ := tupleType_facts t
  unfold parseReturn
  cases hr : docIR.returns with
  | none => simp [hr] at htyp
  | some rt =>
    simp only [hr, Option.bind_some] at htyp
    simp only [htyp, h1, h2, h3, h4, ↓reduceIte, Bool.and_self, pure, Except.pure, bind, Except.bind]
    unfold returnLineDoc at hline
    cases hf : (Py.split1 raw.toList '\n').find? (fun l => Py.startsWith (Py.lstrip l) ":return".toList) with
    | none => rw [hf] at hline; cases hline
    | some line =>
      rw [hf] at hline
      simp only [Option.some.injEq] at hline
      simp only [hline]

/-! ## the round trip -/

def argparseRoundTrip (env : Env) (cfg : Cfg) (ir : IR) : Except String (List PV × Option PV) := do
  let t ← emitArgparse env cfg ir
  let ir' ← parseArgparse env t.reparse
  pure ir'.view

/-- the statement's normalisation: the return entry survives only with a default -/
def normArgparse (ir : IR) : IR := { ir with returns := ir.returns.bind (fun r => if r.default.isSome then some r else none) }

/-- the `return` statement the argparse emitter writes for an admissible interface -/
def apRetStmt (env : Env) (ir : IR) : Stmt :=
  match ir.returns.bind (·.default) with
  | some (.val (.str s)) => (match env.pyExpr s with | some e => .retTuple e | none => .retParser)
  | _ => .retParser

theorem okArgparseReturn_facts {env : Env} {r : Param} (h : okArgparseReturn env r = true) :
    r.default = none ∨ ∃ s e t, r.default = some (.val (.str s)) ∧ codeQuoted s = false ∧ env.pyExpr s = some e ∧ e.text = s ∧
      e.reparse = e ∧ r.typ = some t := by
  unfold okArgparseReturn at h
  cases hd : r.default with
  | none => left; rfl
  | some dv =>
    right
    cases dv with
    | node e => simp [hd] at h
    | val dflt =>
      cases dflt with
      | str s =>
        simp only [hd, Bool.and_eq_true, Bool.not_eq_true'] at h
        obtain ⟨⟨hnc, hexpr⟩, htypok⟩ := h
        cases hpe : env.pyExpr s with
        | none => simp [hpe] at hexpr
        | some e =>
          simp only [hpe, Bool.and_eq_true, beq_iff_eq] at hexpr
          cases ht : r.typ with
          | none => simp [ht] at htypok
          | some t => exact ⟨s, e, t, rfl, hnc, hpe, hexpr.1, hexpr.2, rfl⟩
      | int i => simp [hd] at h
      | float x => simp [hd] at h
      | complex x => simp [hd] at h
      | bool b => simp [hd] at h

theorem argparseReturn_ok (env : Env) (ir : IR) (h : match ir.returns with | some r => okArgparseReturn env r = true | none => True) :
    argparseReturn env ir = .ok (apRetStmt env ir) := by
  unfold argparseReturn apRetStmt
  cases hr : ir.returns with
  | none => simp [pure, Except.pure]
  | some r =>
    simp only [hr] at h
    rcases okArgparseReturn_facts h with hd | ⟨s, e, t, hd, hnc, hpe, _, _, _⟩
    · simp [hd, pure, Except.pure]
    · simp [hd, hnc, hpe, pure, Except.pure]

theorem parseArgparse_shape (env : Env) (name raw dd : String) (adds : List Stmt) (ret : Stmt) (annot : Option String) :
    parseArgparse env (.fn name { args := [{ name := "argument_parser" }] } (.doc raw :: .descr (.val (.str dd)) :: (adds ++ [ret])) annot) =
      (do let acc ← adds.foldlM (argparseStep env (env.docParse .argparse raw) raw)
                      { name := some name, type := some "static", doc := dd, params := [], returns := none }
          argparseStep env (env.docParse .argparse raw) raw acc ret) := by
  have hfound : foundTypeOf [({ name := "argument_parser" } : Arg)] = "static" := by decide
  have hdescr : argparseStep env (env.docParse .argparse raw) raw
      { name := some name, type := some "static", doc := "", params := [], returns := none } (.descr (.val (.str dd))) =
      .ok { name := some name, type := some "static", doc := dd, params := [], returns := none } := rfl
  simp only [parseArgparse, splitDoc, hfound, List.foldlM_cons, hdescr, pure, Except.pure, bind, Except.bind, List.foldlM_append,
    List.foldlM_nil]
  cases List.foldlM (argparseStep env (env.docParse .argparse raw) raw)
      { name := some name, type := some "static", doc := dd, params := [], returns := none } adds with
  | error e => rfl
  | ok acc => simp only []; cases argparseStep env (env.docParse .argparse raw) raw acc ret <;> rfl

theorem argparse_roundtrip (env : Env) (cfg : Cfg) (ir : IR)
    (hD : inD02Argparse env ir = true) (hH : argparseHyp env cfg ir = true) :
    argparseRoundTrip env cfg ir = .ok (normArgparse ir).view := by
  unfold inD02Argparse at hD
  simp only [Bool.and_eq_true, List.all_eq_true] at hD
  obtain ⟨⟨⟨hnd, _⟩, hall⟩, hret⟩ := hD
  have hnd : (dkeys ir.params).Nodup := by simpa [namesOk] using hnd
  have hret' : match ir.returns with | some r => okArgparseReturn env r = true | none => True := by
    cases hr : ir.returns with
    | none => trivial
    | some r => simpa [hr] using hret
  unfold argparseHyp at hH
  simp only [Bool.and_eq_true, List.all_eq_true] at hH
  obtain ⟨hpar, hrh⟩ := hH
  unfold argparseRoundTrip emitArgparse
  rw [mapM_ok (param2argparse env cfg.emitDefaultDoc) addArgOf ir.params (fun kv hkv => param2argparse_ok env cfg kv (hall kv hkv) (hpar kv hkv)),
    argparseReturn_ok env ir hret']
  simp only [bind, Except.bind, pure, Except.pure, Top.reparse, List.cons_append, List.nil_append, List.map_cons, List.map_append, List.map_nil,
    Stmt.reparse, List.map_map]
  rw [parseArgparse_shape]
  have hfold := argparseFold env (env.docParse .argparse (setValueStr (env.docEmit (argparseDocCfg cfg) (argparseDocIR ir))))
    (setValueStr (env.docEmit (argparseDocCfg cfg) (argparseDocIR ir))) ir.params
    { name := some "set_cli_args", type := some "static", doc := setValueStr ir.doc, params := [], returns := none } hall
    (by simpa [dkeys] using hnd)
  simp only [List.nil_append] at hfold
  have hcomp : (Stmt.reparse ∘ Stmt.addArg ∘ addArgOf) = (fun kv => Stmt.reparse (.addArg (addArgOf kv))) := rfl
  rw [hcomp, hfold]
  simp only [bind, Except.bind]
  -- the view of the parameters read back
  have hviews : (ir.params.map backOf).map (fun kv => kv.2.view kv.1) = ir.params.map (fun kv => kv.2.view kv.1) := by
    rw [List.map_map]; apply List.map_congr_left; intro kv _; exact backOf_view kv
  -- the return statement
  cases hr : ir.returns with
  | none =>
    simp only [apRetStmt, hr, Option.bind_none, Stmt.reparse, argparseStep, pure, Except.pure, IR.view, normArgparse, hviews, Option.map_none]
  | some r =>
    simp only [hr] at hret'
    rcases okArgparseReturn_facts hret' with hd | ⟨s, e, t, hd, hnc, hpe, htext, hrep, ht⟩
    · simp only [apRetStmt, hr, Option.bind_some, hd, Stmt.reparse, argparseStep, pure, Except.pure, IR.view, normArgparse, hviews,
        Option.isSome_none, Bool.false_eq_true, ↓reduceIte, Option.map_none]
    · unfold argparseReturnHyp at hrh
      simp only [hr, hd, ht, Bool.and_eq_true, beq_iff_eq] at hrh
      obtain ⟨hdt, hline⟩ := hrh
      cases hl : returnLineDoc env (setValueStr (env.docEmit (argparseDocCfg cfg) (argparseDocIR ir))) with
      | none => simp [hl] at hline
      | some dline =>
        simp only [hl, beq_iff_eq] at hline
        simp only [apRetStmt, hr, Option.bind_some, hd, hpe, Stmt.reparse, hrep, argparseStep, parseReturn_ok env _ _ e t dline hdt hl,
          bind, Except.bind, pure, Except.pure, IR.view, normArgparse, hviews, Option.isSome_some, ↓reduceIte, Option.map_some, Param.view,
          htext, Option.bind_some, hline, ht]
        have hv2 := hviews
        simp only [Param.view] at hv2
        rw [hv2]

end Iface
