import CddVerif.Proofs.Iface
/-!
# C02 — helper lemmas for the argparse format: `_resolve_arg` / `infer_type_and_default` on scalar and
`Optional[scalar]` types, `parse_out_param`, `_parse_return`
-/
namespace Iface

/-! ## the five scalar types -/

theorem simple_cases {t : String} (h : isSimple t = true) : t = "int" ∨ t = "float" ∨ t = "complex" ∨ t = "str" ∨ t = "bool" := by
  unfold isSimple simpleTypes at h
  simpa using h

/-- string facts about a scalar type name the argparse lemmas use (all closed by evaluation on the five names) -/
structure BaseFacts (b : String) : Prop where
  simple : isSimple b = true
  notOptPrefix : (startsWith b "Optional[" && endsWith b "]") = false
  notDict : (b == "dict") = false
  notLoads : (b == "loads") = false
  notPickle : (b == "pickle.loads") = false
  notGlobals : (b == "globals().__getitem__") = false
  noOptional : hasSub b "Optional" = false
  optNotSimple : isSimple ("Optional[" ++ b ++ "]") = false
  optNotDict : (("Optional[" ++ b ++ "]") == "dict") = false
  optNotClass : startsWith ("Optional[" ++ b ++ "]") "<class '" = false
  optNonempty : ("Optional[" ++ b ++ "]").toList.isEmpty = false
  optNames : typeNames ("Optional[" ++ b ++ "]") = ["Optional", b]
  optConsts : typeStrConsts ("Optional[" ++ b ++ "]") = []
  optHasOptional : hasSub ("Optional[" ++ b ++ "]") "Optional" = true
  optInner : String.ofList ((("Optional[" ++ b ++ "]").toList.drop 9).dropLast) = b
  optPrefix : (startsWith ("Optional[" ++ b ++ "]") "Optional[" && endsWith ("Optional[" ++ b ++ "]") "]") = true
  requiredLower : requiredLower.contains (String.ofList (Py.lower b.toList)) = (b != "bool")

theorem baseFacts {b : String} (h : isSimple b = true) : BaseFacts b := by
  rcases simple_cases h with rfl | rfl | rfl | rfl | rfl <;> constructor <;> decide

end Iface
