import CddVerif.Proofs.DocRoundTripEmit
/-!
# Whole-docstring round trip (C01) — value level

Reading back one emitted description (`extract_default` with any compatible declared type), `interpolate_defaults`
and `_set_name_and_type` on the entries of the domain.
-/
namespace DocRT
open Py Doc DocSplit DocUtils

theorem find_none_of_not_contains (s p : Str) (h : contains s p = false) : find s p = none := by
  have key : ∀ (s : Str) (i : Nat), contains s p = false → findFrom p s i = none := by
    intro s
    induction s with
    | nil => intro i h; simp only [contains] at h; simp [findFrom, h]
    | cons c cs ih =>
      intro i h
      simp only [contains, Bool.or_eq_false_iff] at h
      simp only [findFrom, h.1, Bool.false_eq_true, if_false]
      exact ih (i + 1) h.2
  exact key s 0 h

theorem contains_prefix_false (a b p : Str) (h : contains (a ++ b) p = false) : contains a p = false := by
  cases hc : contains a p with
  | false => rfl
  | true => rw [contains_append_left' a b p hc] at h; cases h

/-- the parenthesised announce patterns contain neither a full stop nor a comma -/
theorem parenVariants_chars : ∀ w ∈ announceVariants, '.' ∉ ('(' :: lower w) ∧ ',' ∉ ('(' :: lower w) := by decide

theorem lower_cons (c : Char) (s : Str) : lower (c :: s) = lowerC c :: lower s := rfl

/-- **no parenthesised announce in the emitted line** when there is none in the description -/
theorem hasParenAnnounce_emitted (d r : Str)
    (hd : ∀ w ∈ announceVariants, contains (lower d) ('(' :: lower w) = false) (hr : '(' ∉ lower r) :
    hasParenAnnounce (C01.baseOf d ++ defaultsTo ++ r) = false := by
  unfold hasParenAnnounce
  have : locateVariant (C01.baseOf d ++ defaultsTo ++ r) (announceVariants.map (fun v => '(' :: v)) = none := by
    apply C01.locateVariant_none
    intro v hv
    obtain ⟨w, hw, rfl⟩ := List.mem_map.mp hv
    have hl : lower ('(' :: w) = '(' :: lower w := by rw [lower_cons]; congr 1
    rw [hl]
    apply find_none_of_not_contains
    obtain ⟨hdot, hcomma⟩ := parenVariants_chars w hw
    have hZ : ∀ (e : Char) (hne : e ≠ '('), contains (e :: (lower defaultsTo ++ lower r)) ('(' :: lower w) = false := by
      intro e hne
      apply contains_false_of_notin
      intro hm
      simp only [List.mem_cons, List.mem_append] at hm
      rcases hm with h | h | h
      · exact hne h.symm
      · revert h; rw [C01.lower_defaultsTo]; decide
      · exact hr h
    rw [C01.lower_append, C01.lower_append]
    unfold C01.baseOf
    cases hg : d.getLast? with
    | none =>
      simp only [C01.lower_append, List.append_assoc]
      exact contains_append_notin (lower d) _ _ '.' hdot (hd w hw) (hZ '.' (by decide))
    | some c =>
      simp only []
      split
      · rename_i hc
        obtain ⟨ys, rfl⟩ := List.getLast?_eq_some_iff.mp hg
        have hlc : lower (ys ++ [c]) = lower ys ++ [c] := by
          rw [C01.lower_append]
          simp only [Bool.or_eq_true, beq_iff_eq] at hc
          rcases hc with rfl | rfl <;> rfl
        have hdw := hd w hw
        rw [hlc] at hdw ⊢
        simp only [List.append_assoc, List.singleton_append]
        simp only [Bool.or_eq_true, beq_iff_eq] at hc
        refine contains_append_notin (lower ys) _ _ c ?_ (contains_prefix_false _ _ _ hdw) (hZ c ?_)
        · rcases hc with rfl | rfl
          · exact hdot
          · exact hcomma
        · rcases hc with rfl | rfl <;> decide
      · simp only [C01.lower_append, List.append_assoc]
        exact contains_append_notin (lower d) _ _ '.' hdot (hd w hw) (hZ '.' (by decide))
  rw [this]; rfl

/-- the announce phrase is located where the emitter put it (`C01.locate_emitted` without the parenthesis clause) -/
theorem locate_emitted' (b val : Str) (hb : NoEarly C01.ann (lower b ++ [' '])) :
    locateVariant (b ++ defaultsTo ++ val) announceVariants = some (b.length + 1, b.length + 1 + 12) := by
  have hvar : announceVariants = C01.ann :: announceVariants.tail := by decide
  rw [hvar]
  unfold locateVariant
  have hlen : ¬ (C01.ann.length > (b ++ defaultsTo ++ val).length) := by
    simp only [List.length_append]
    have : C01.ann.length = 12 := by decide
    have : defaultsTo.length = 13 := by decide
    omega
  simp only [hlen, if_false]
  have hl : lower (b ++ defaultsTo ++ val) = (lower b ++ [' ']) ++ C01.ann ++ lower val := by
    rw [C01.lower_append, C01.lower_append, C01.lower_defaultsTo]; simp
  rw [hl, C01.lower_ann, find_append C01.ann (lower b ++ [' ']) (lower val) (by decide) hb]
  have : (lower b).length = b.length := by unfold lower; simp
  simp only [List.length_append, List.length_cons, List.length_nil, this]
  have : C01.ann.length = 12 := by decide
  rw [this]

/-- no parenthesised announce in a description without one -/
theorem hasParenAnnounce_plain (d : Str) (hd : ∀ w ∈ announceVariants, contains (lower d) ('(' :: lower w) = false) :
    hasParenAnnounce d = false := by
  unfold hasParenAnnounce
  have : locateVariant d (announceVariants.map (fun v => '(' :: v)) = none := by
    apply C01.locateVariant_none
    intro v hv
    obtain ⟨w, hw, rfl⟩ := List.mem_map.mp hv
    have hl : lower ('(' :: w) = '(' :: lower w := by rw [lower_cons]; congr 1
    rw [hl]
    exact find_none_of_not_contains _ _ (hd w hw)
  rw [this]; rfl

/-- reading back what the emitter appended: generalisation of `C01.extract_*_roundtrip` to any value text and any
    declared type for which the value cascade answers `v`, and to descriptions with parentheses -/
theorem extract_emitted (b r : Str) (typ : Option Str) (v : Default) (hb : NoEarly C01.ann (lower b ++ [' ']))
    (hpa : hasParenAnnounce (b ++ defaultsTo ++ r) = false)
    (htake : takeDefault 0 r = r) (hstrip : stripChars r [' ', '\t', '`'] = r) (hparse : parseDefaultText r typ = .ok v) :
    extractDefault (b ++ defaultsTo ++ r) typ true = .ok (b ++ defaultsTo ++ r, some v) := by
  unfold extractDefault
  rw [hpa]
  simp only [Bool.false_eq_true, if_false]
  rw [locate_emitted' b r hb]
  simp only [C01.drop_emitted, htake, hstrip, hparse, if_true]

/-- nothing is read from a description without an announce phrase -/
theorem extract_plain (d : Str) (typ : Option Str) (edd : Bool) (hpa : hasParenAnnounce d = false)
    (hann : ∀ v ∈ announceVariants, find (lower d) (lower v) = none) :
    extractDefault d typ edd = .ok (d, Option.none) := by
  unfold extractDefault
  rw [hpa, C01.locateVariant_none d announceVariants hann]
  simp

/-! ### the value texts of integers and booleans -/

def isSimpleTyp (typ : Option Str) : Bool := match typ with | some t => simpleTypes.contains t | Option.none => false

/-- a declared type outside `simple_types` plays no role in the value cascade -/
theorem parse_generic (r : Str) (typ : Option Str) (hs : isSimpleTyp typ = false) :
    parseDefaultText r typ = parseDefaultText r Option.none := by
  unfold isSimpleTyp at hs
  unfold parseDefaultText
  cases typ with
  | none => rfl
  | some t => simp only [] at hs; simp only [hs, Bool.false_and, Bool.false_eq_true, if_false]

theorem intToStr_nonneg (i : Int) (h : ¬ i < 0) : intToStr i = natToStr i.natAbs := by simp [intToStr, h]
theorem intToStr_neg (i : Int) (h : i < 0) : intToStr i = '-' :: natToStr i.natAbs := by simp [intToStr, h]

theorem takeDefault_minus (D : Str) (hD : ∀ c ∈ D, c.isDigit = true) : takeDefault 0 ('-' :: D) = '-' :: D := by
  simp only [takeDefault]
  have : (('-' : Char) == '.') = false := by decide
  simp only [this, Bool.false_and, Bool.false_eq_true, if_false]
  have hbr : (('-' : Char) == '{' || ('-' : Char) == '[' || ('-' : Char) == '(' || ('-' : Char) == ')' || ('-' : Char) == ']' || ('-' : Char) == '}') = false := by decide
  simp only [hbr, Bool.false_eq_true, if_false]
  rw [takeDefault_digits 0 _ hD]

theorem stripChars_minus (D : Str) (hD : ∀ c ∈ D, c.isDigit = true) (hne : D ≠ []) :
    stripChars ('-' :: D) [' ', '\t', '`'] = '-' :: D := by
  cases hr : D.getLast? with
  | none => exact absurd (List.getLast?_eq_none_iff.mp hr) hne
  | some l =>
    have hl : ('-' :: D).getLast? = some l := by
      rw [List.getLast?_cons, hr]; rfl
    exact C01.stripChars_id '-' D _ l hl (by decide) (C01.digit_not_strip l (hD l (List.mem_of_getLast? hr)))

theorem lower_minus_digits (D : Str) (hD : ∀ c ∈ D, c.isDigit = true) : lower ('-' :: D) = '-' :: D := by
  have := C01.lower_digits D hD
  unfold lower at this ⊢
  simp only [List.map_cons, this]; congr 1

theorem paren_notin_int (i : Int) : '(' ∉ lower (intToStr i) := by
  by_cases h : i < 0
  · rw [intToStr_neg i h, lower_minus_digits _ (C01.natToStr_isDigit _)]
    intro hm
    simp only [List.mem_cons] at hm
    rcases hm with hm | hm
    · revert hm; decide
    · exact C01.paren_not_digit _ (C01.natToStr_isDigit _) hm
  · rw [intToStr_nonneg i h, C01.lower_digits _ (C01.natToStr_isDigit _)]
    exact C01.paren_not_digit _ (C01.natToStr_isDigit _)

theorem takeDefault_int (i : Int) : takeDefault 0 (intToStr i) = intToStr i := by
  by_cases h : i < 0
  · rw [intToStr_neg i h]; exact takeDefault_minus _ (C01.natToStr_isDigit _)
  · rw [intToStr_nonneg i h]; exact C01.takeDefault_nat _

theorem stripChars_int (i : Int) : stripChars (intToStr i) [' ', '\t', '`'] = intToStr i := by
  by_cases h : i < 0
  · rw [intToStr_neg i h]; exact stripChars_minus _ (C01.natToStr_isDigit _) (C01.natToStr_ne_nil _)
  · rw [intToStr_nonneg i h]; exact stripChars_digits _ (C01.natToStr_isDigit _) (C01.natToStr_ne_nil _)

theorem isdecimal_minus (D : Str) : isdecimal ('-' :: D) = false := by
  unfold isdecimal
  have : isAsciiDigit '-' = false := by decide
  simp [this]

theorem parse_int_none (i : Int) : parseDefaultText (intToStr i) Option.none = .ok (.int i) := by
  by_cases h : i < 0
  · rw [intToStr_neg i h]
    unfold parseDefaultText
    simp only [Bool.false_and, Bool.false_eq_true, if_false, isdecimal_minus, List.head?_cons, List.drop_succ_cons, List.drop_zero,
      toDigits_isdecimal, beq_self_eq_true, Bool.true_or, Bool.true_and, if_true, parseNat_natToStr]
    congr 2; omega
  · rw [intToStr_nonneg i h, C01.parse_nat_text]
    congr 2; omega


def sInt : Str := ['i', 'n', 't']
def sBool : Str := ['b', 'o', 'o', 'l']

/-- chars of a rendered integer -/
theorem int_chars (i : Int) : ∀ c ∈ intToStr i, c = '-' ∨ c.isDigit = true := by
  intro c hc
  by_cases h : i < 0
  · rw [intToStr_neg i h] at hc
    simp only [List.mem_cons] at hc
    rcases hc with rfl | hc
    · left; rfl
    · right; exact C01.natToStr_isDigit _ c hc
  · rw [intToStr_nonneg i h] at hc
    right; exact C01.natToStr_isDigit _ c hc

theorem int_head (i : Int) : ∃ c cs, intToStr i = c :: cs ∧ (c = '-' ∨ c.isDigit = true) := by
  cases hs : intToStr i with
  | nil =>
    by_cases h : i < 0
    · rw [intToStr_neg i h] at hs; cases hs
    · rw [intToStr_nonneg i h] at hs; exact absurd hs (C01.natToStr_ne_nil _)
  | cons c cs => exact ⟨c, cs, rfl, int_chars i c (by rw [hs]; simp)⟩

theorem parse_int_int (i : Int) : parseDefaultText (intToStr i) (some sInt) = .ok (.int i) := by
  have hgen := parse_int_none i
  unfold parseDefaultText at hgen ⊢
  obtain ⟨c, cs, hs, hc⟩ := int_head i
  have hsimple : simpleTypes.contains sInt = true := by decide
  have hnotNone : (intToStr i == sNone || intToStr i == noneStr) = false := by
    rw [hs]
    cases hb : ((c :: cs) == sNone || (c :: cs) == noneStr) with
    | false => rfl
    | true =>
      simp only [Bool.or_eq_true, beq_iff_eq, sNone, noneStr, List.cons.injEq] at hb
      rcases hb with hb | hb <;> (have := hb.1; subst this; rcases hc with hc | hc <;> revert hc <;> decide)
  have hany : (intToStr i).any (fun c => c == '*' || c == '^' || c == '&' || c == '|' || c == '$' || c == '@' || c == '!') = false := by
    cases hb : (intToStr i).any (fun c => c == '*' || c == '^' || c == '&' || c == '|' || c == '$' || c == '@' || c == '!') with
    | false => rfl
    | true =>
      rw [List.any_eq_true] at hb
      obtain ⟨x, hx, hxb⟩ := hb
      simp only [Bool.or_eq_true, beq_iff_eq] at hxb
      rcases int_chars i x hx with h | h <;>
        (rcases hxb with (((((rfl | rfl) | rfl) | rfl) | rfl) | rfl) | rfl <;> revert h <;> decide)
  clear hgen
  have hii : (sInt == ['i', 'n', 't']) = true := by decide
  simp only [hsimple, hnotNone, Bool.not_false, Bool.true_and, if_true, Option.getD_some, hany, Bool.and_false, Bool.false_eq_true,
    if_false]
  by_cases h : i < 0
  · rw [intToStr_neg i h]
    simp only [isdecimal_minus, List.head?_cons, List.drop_succ_cons, List.drop_zero,
      toDigits_isdecimal, beq_self_eq_true, Bool.true_or, Bool.true_and, if_true, parseNat_natToStr, Bool.false_eq_true, if_false, hii]
    congr 2; omega
  · rw [intToStr_nonneg i h]
    simp only [toDigits_isdecimal, if_true, parseNat_natToStr, hii]
    congr 2; omega

theorem parse_int (i : Int) (typ : Option Str) (hc : Compat typ (.int i)) : parseDefaultText (intToStr i) typ = .ok (.int i) := by
  cases typ with
  | none => exact parse_int_none i
  | some t =>
    rcases hc t rfl with h | h
    · rw [parse_generic _ _ (by simpa [isSimpleTyp] using h)]; exact parse_int_none i
    · rw [h]; exact parse_int_int i

theorem parse_bool (b : Bool) (typ : Option Str) (hc : Compat typ (.bool b)) :
    parseDefaultText (renderVal (.bool b)) typ = .ok (.bool b) := by
  cases typ with
  | none => cases b <;> decide
  | some t =>
    rcases hc t rfl with h | h
    · rw [parse_generic _ _ (by simpa [isSimpleTyp] using h)]; cases b <;> decide
    · rw [h]; cases b <;> decide

/-! ### the value texts of decimals -/

theorem lower_decimal (r : Str) (h : DecimalText r) : lower r = r := by
  have hc := decimal_chars r h
  unfold lower
  apply map_id_of
  intro x hx
  rcases hc x hx with rfl | hd
  · decide
  · exact C01.lowerC_digit x hd

theorem paren_notin_decimal (r : Str) (h : DecimalText r) : '(' ∉ lower r := by
  rw [lower_decimal r h]
  intro hm
  rcases decimal_chars r h _ hm with h1 | h1 <;> (revert h1; decide)

theorem takeDefault_decimal (r : Str) (h : DecimalText r) : takeDefault 0 r = r := by
  obtain ⟨c, a, f, rfl, hc, ha, hf, hne⟩ := h
  have hca : ∀ x ∈ c :: a, x.isDigit = true := by
    intro x hx; simp only [List.mem_cons] at hx; rcases hx with rfl | h
    · exact hc
    · exact ha x h
  have := C01.takeDefault_float (c :: a) f hca hf hne
  simpa using this

theorem stripChars_decimal (r : Str) (h : DecimalText r) : stripChars r [' ', '\t', '`'] = r := by
  obtain ⟨c, a, f, rfl, hc, ha, hf, hne⟩ := h
  cases hr : f.getLast? with
  | none => exact absurd (List.getLast?_eq_none_iff.mp hr) hne
  | some l =>
    have hl : (c :: (a ++ '.' :: f)).getLast? = some l := by
      have : (c :: (a ++ '.' :: f)) = (c :: a ++ ['.']) ++ f := by simp
      rw [this, List.getLast?_append, hr]; rfl
    exact C01.stripChars_id c (a ++ '.' :: f) _ l hl (C01.digit_not_strip c hc) (C01.digit_not_strip l (hf l (List.mem_of_getLast? hr)))

theorem parse_float_none (r : Str) (h : DecimalText r) : parseDefaultText r Option.none = .ok (.float r) := by
  obtain ⟨c, a, f, rfl, hc, ha, hf, hne⟩ := h
  exact C01.parse_float_text c a f hc ha hf hne

def sFloat : Str := ['f', 'l', 'o', 'a', 't']

theorem parse_float_float (r : Str) (h : DecimalText r) : parseDefaultText r (some sFloat) = .ok (.float r) := by
  have hgen := parse_float_none r h
  have hch := decimal_chars r h
  obtain ⟨c, a, f, rfl, hc, ha, hf, hne⟩ := h
  unfold parseDefaultText at hgen ⊢
  have hsimple : simpleTypes.contains sFloat = true := by decide
  have hnotNone : ((c :: a ++ '.' :: f) == sNone || (c :: a ++ '.' :: f) == noneStr) = false := by
    cases hb : ((c :: a ++ '.' :: f) == sNone || (c :: a ++ '.' :: f) == noneStr) with
    | false => rfl
    | true =>
      simp only [Bool.or_eq_true, beq_iff_eq, sNone, noneStr, List.cons_append, List.cons.injEq] at hb
      rcases hb with hb | hb <;> (have := hb.1; subst this; revert hc; decide)
  have hany : (c :: a ++ '.' :: f).any (fun c => c == '*' || c == '^' || c == '&' || c == '|' || c == '$' || c == '@' || c == '!') = false := by
    cases hb : (c :: a ++ '.' :: f).any (fun c => c == '*' || c == '^' || c == '&' || c == '|' || c == '$' || c == '@' || c == '!') with
    | false => rfl
    | true =>
      rw [List.any_eq_true] at hb
      obtain ⟨x, hx, hxb⟩ := hb
      simp only [Bool.or_eq_true, beq_iff_eq] at hxb
      rcases hch x hx with h | h <;>
        (rcases hxb with (((((rfl | rfl) | rfl) | rfl) | rfl) | rfl) | rfl <;> revert h <;> decide)
  simp only [Bool.false_and, Bool.false_eq_true, if_false] at hgen
  simp only [hsimple, hnotNone, Bool.not_false, Bool.true_and, if_true, Option.getD_some, hany, Bool.and_false, Bool.false_eq_true,
    if_false]
  -- the literal cascade gives the float; then `float(...)` keeps it
  have hdec : isdecimal (c :: a ++ '.' :: f) = false := by
    unfold isdecimal
    have : isAsciiDigit '.' = false := by decide
    simp [List.all_append, this]
  have hsign : (some c == some '-' || some c == some '+') = false := by
    cases hb : (some c == some '-' || some c == some '+') with
    | false => rfl
    | true =>
      simp only [Bool.or_eq_true, beq_iff_eq, Option.some.injEq] at hb
      rcases hb with rfl | rfl <;> revert hc <;> decide
  simp only [List.cons_append] at hdec hgen ⊢
  simp only [hdec, Bool.false_eq_true, if_false, List.head?_cons, hsign, Bool.false_and] at hgen ⊢
  split at hgen
  · cases hgen
  · split at hgen
    · cases hgen
    · split at hgen
      · rename_i h1 h2 h3
        have hfc : floatCanon (c :: (a ++ '.' :: f)) = c :: (a ++ '.' :: f) := by
          injection hgen with h'; injection h'
        simp only [h1, h2, h3, if_true, Bool.false_eq_true, if_false, hfc]
        have e1 : (sFloat == ['i', 'n', 't']) = false := by decide
        have e2 : (sFloat == ['f', 'l', 'o', 'a', 't']) = true := by decide
        simp only [e1, e2, Bool.false_eq_true, if_false, if_true]
      · split at hgen <;> (try split at hgen) <;> cases hgen

theorem parse_float (r : Str) (typ : Option Str) (h : DecimalText r) (hc : Compat typ (.float r)) :
    parseDefaultText r typ = .ok (.float r) := by
  cases typ with
  | none => exact parse_float_none r h
  | some t =>
    rcases hc t rfl with h' | h'
    · rw [parse_generic _ _ (by simpa [isSimpleTyp] using h')]; exact parse_float_none r h
    · rw [h']; exact parse_float_float r h

/-- **reading back an emitted description**, any declared type compatible with the default -/
theorem extract_docText (p : Param) (edd : Bool) (typ : Option Str) (hp : GoodEntry p)
    (hc : ∀ v, p.default = some v → Compat typ v) :
    extractDefault (docText p edd) typ edd = .ok (docText p edd, if edd then p.default else Option.none) := by
  unfold docText
  cases hd : p.doc with
  | none => exact absurd hd hp.docSome
  | some d =>
    have g := hp.doc d hd
    simp only []
    cases hv : (if edd then p.default else Option.none) with
    | none => exact extract_plain d typ edd (hasParenAnnounce_plain d g.noParenAnn) g.noAnn
    | some v =>
      have hv' : p.default = some v ∧ edd = true := by
        cases edd
        · simp at hv
        · exact ⟨by simpa using hv, rfl⟩
      obtain ⟨hv', rfl⟩ := hv'
      simp only []
      have hg := (hp.dflt v hv').1
      cases v with
      | int i =>
        exact extract_emitted _ _ typ _ g.noEarly (hasParenAnnounce_emitted d _ g.noParenAnn (paren_notin_int i)) (takeDefault_int i)
          (stripChars_int i) (parse_int i typ (hc _ hv'))
      | bool b =>
        exact extract_emitted _ _ typ _ g.noEarly (hasParenAnnounce_emitted d _ g.noParenAnn (by cases b <;> decide))
          (by cases b <;> decide) (by cases b <;> decide)
          (parse_bool b typ (hc _ hv'))
      | float r =>
        exact extract_emitted _ _ typ _ g.noEarly (hasParenAnnounce_emitted d _ g.noParenAnn (paren_notin_decimal r hg))
          (takeDefault_decimal r hg) (stripChars_decimal r hg) (parse_float r typ hg (hc _ hv'))
      | str _ => exact absurd hg (by simp [GoodDefault])
      | none => exact absurd hg (by simp [GoodDefault])
      | code _ => exact absurd hg (by simp [GoodDefault])

theorem interp_good (typ : Option Str) (doc' : Str) (dflt0 dflt : Option Default) (edd : Bool)
    (hx : extractDefault doc' typ edd = .ok (doc', dflt)) (hv : ∀ v, dflt = some v → GoodDefault v)
    (h0 : dflt0 = Option.none ∨ dflt0 = dflt) :
    interpolateDefaults { typ := typ, doc := some doc', default := dflt0 } edd
      = .ok { typ := typ, doc := some doc', default := dflt } := by
  unfold interpolateDefaults
  simp only [hx]
  cases dflt with
  | none =>
    rcases h0 with h | h <;> (subst h; rfl)
  | some v =>
    have := hv v rfl
    cases v <;> first | rfl | exact absurd this (by simp [GoodDefault])

theorem lit_Optional : "Optional".toList = ['O','p','t','i','o','n','a','l'] := by decide
theorem lit_pOptional : "(Optional)".toList = ['(','O','p','t','i','o','n','a','l',')'] := by decide

/-! ### `_set_name_and_type` in stages -/

def sntMerge (p : Param) : Out Param :=
  match p.doc with
  | Option.none => .ok p
  | some doc =>
    match extractDefault doc Option.none true with
    | .outside w => .outside w
    | .ok (doc2, d2) =>
      let p := if !truthy p.doc && !doc2.isEmpty then { p with doc := some doc2 } else p
      .ok (if (p.default.isNone || isNoneVal p.default) && d2.isSome then { p with default := d2 } else p)

def sntInfer (p : Param) : Param :=
  match p.default with
  | Option.none => p
  | some v0 =>
    let v := if isNoneVal (some v0) then Default.none else v0
    let v := if needsQuoting p.typ || v.isPyStr then (match v with | Default.str s => Default.str (unquote s) | other => other) else v
    let p := if p.typ.isNone && v != Default.none then { p with typ := some (tyName v) } else p
    let p := match v with
      | .code _ => if !(p.typ.getD []).contains '[' then { p with typ := Option.none } else p
      | _ => p
    { p with default := some v }

def sntOptSuffix (p : Param) : Param :=
  match p.typ with
  | some t => if endsWith t ", optional".toList then { p with typ := some (optionalPrefix ++ t.take (t.length - 10) ++ [']']) } else p
  | Option.none => p

def sntDropEmpty (p : Param) : Param := if p.doc == some [] then { p with doc := Option.none } else p

def sntDoc (wasNone : Bool) (p : Param) : Out Param :=
  match p.doc with
  | Option.none => .ok p
  | some doc =>
    let doc := rstrip (join [' '] ((split1 doc '\n').map strip))
    let p := { p with doc := some doc }
    if (startsWith doc "(Optional)".toList || startsWith doc "Optional".toList || wasNone)
        && p.typ.isSome && !startsWith (p.typ.getD []) optionalPrefix
    then .ok { p with typ := some (optionalPrefix ++ p.typ.getD [] ++ [']']) }
    else .ok p

def setNameAndType' (name : Str) (p : Param) : Out Param :=
  if endsWith name "kwargs".toList || startsWith name ['*'] then .outside "star / kwargs parameter"
  else match sntMerge p with
    | .outside w => .outside w
    | .ok p1 => sntDoc (isNoneVal p.default) (sntDropEmpty (sntOptSuffix (sntInfer p1)))

theorem setNameAndType_eq (name : Str) (p : Param) : setNameAndType name p = setNameAndType' name p := by
  unfold setNameAndType setNameAndType'
  split
  · rfl
  · simp (config := {zeta := false}) only [bind, pure]
    unfold sntMerge
    cases hd : p.doc with
    | none => rfl
    | some doc =>
      simp (config := {zeta := false}) only []
      cases hx : extractDefault doc Option.none true with
      | outside w => rfl
      | ok r =>
        obtain ⟨doc2, d2⟩ := r
        rfl


theorem docNorm (t : Str) (h : GoodText t) : rstrip (join [' '] (List.map strip (split1 t '\n'))) = t := by
  have hnl : '\n' ∉ t := by
    intro hm; have := h.noBreak _ hm; rw [nl_isLineBreak] at this; cases this
  rw [split1_no t '\n' hnl]
  simp only [List.map_cons, List.map_nil, join, strip_id t h.headNS h.lastNS, rstrip_lastNS t h.lastNS]

/-- the type the parser ends with after a `:param` line: the declared one, else inferred from the default -/
def typAfter (typ : Option Str) (dflt : Option Default) : Option Str :=
  match typ with
  | some t => some t
  | Option.none => dflt.map tyName

theorem isNoneVal_good (dflt : Option Default) (hv : ∀ v, dflt = some v → GoodDefault v) : isNoneVal dflt = false := by
  cases dflt with
  | none => rfl
  | some v =>
    have := hv v rfl
    cases v <;> first | rfl | exact absurd this (by simp [GoodDefault])

theorem sntMerge_good (typ : Option Str) (doc' : Str) (dflt : Option Default) (hne : doc' ≠ [])
    (hx : extractDefault doc' Option.none true = .ok (doc', dflt)) (hv : ∀ v, dflt = some v → GoodDefault v) :
    sntMerge { typ := typ, doc := some doc', default := dflt } = .ok { typ := typ, doc := some doc', default := dflt } := by
  unfold sntMerge
  have htr : truthy (some doc') = true := by
    cases doc' with
    | nil => exact absurd rfl hne
    | cons _ _ => rfl
  simp only [hx, htr, Bool.not_true, Bool.false_and, Bool.false_eq_true, if_false]
  cases dflt with
  | none => rfl
  | some v =>
    simp only [Option.isNone_some, Bool.false_or, isNoneVal_good _ hv, Bool.false_and, Bool.false_eq_true, if_false]

theorem sntInfer_good (typ : Option Str) (doc' : Str) (dflt : Option Default) (hv : ∀ v, dflt = some v → GoodDefault v) :
    sntInfer { typ := typ, doc := some doc', default := dflt } = { typ := typAfter typ dflt, doc := some doc', default := dflt } := by
  unfold sntInfer typAfter
  cases dflt with
  | none => cases typ <;> rfl
  | some v =>
    have hg := hv v rfl
    cases v with
    | int i => cases typ <;> simp [isNoneVal, Default.isPyStr, tyName]
    | bool b => cases typ <;> simp [isNoneVal, Default.isPyStr, tyName]
    | float r => cases typ <;> simp [isNoneVal, Default.isPyStr, tyName]
    | str _ => exact absurd hg (by simp [GoodDefault])
    | none => exact absurd hg (by simp [GoodDefault])
    | code _ => exact absurd hg (by simp [GoodDefault])

theorem typAfter_noOptSuffix (typ : Option Str) (dflt : Option Default) (hv : ∀ v, dflt = some v → GoodDefault v)
    (ht : ∀ t, typ = some t → endsWith t ", optional".toList = false) :
    ∀ t, typAfter typ dflt = some t → endsWith t ", optional".toList = false := by
  intro t h
  unfold typAfter at h
  cases typ with
  | some t' => simp only [Option.some.injEq] at h; subst h; exact ht _ rfl
  | none =>
    cases dflt with
    | none => cases h
    | some v =>
      simp only [Option.map_some, Option.some.injEq] at h
      subst h
      have hg := hv v rfl
      cases v with
      | int i => show endsWith ['i', 'n', 't'] ", optional".toList = false; decide
      | bool b => show endsWith ['b', 'o', 'o', 'l'] ", optional".toList = false; decide
      | float r => show endsWith ['f', 'l', 'o', 'a', 't'] ", optional".toList = false; decide
      | str _ => exact absurd hg (by simp [GoodDefault])
      | none => exact absurd hg (by simp [GoodDefault])
      | code _ => exact absurd hg (by simp [GoodDefault])

theorem sntOptSuffix_good (typ : Option Str) (doc : Option Str) (dflt : Option Default)
    (ht : ∀ t, typ = some t → endsWith t ", optional".toList = false) :
    sntOptSuffix { typ := typ, doc := doc, default := dflt } = { typ := typ, doc := doc, default := dflt } := by
  unfold sntOptSuffix
  cases typ with
  | none => rfl
  | some t => simp only [ht t rfl, Bool.false_eq_true, if_false]

theorem sntDoc_good (typ : Option Str) (doc' : Str) (dflt : Option Default) (hd : GoodText doc') :
    sntDoc false { typ := typ, doc := some doc', default := dflt } = .ok { typ := typ, doc := some doc', default := dflt } := by
  unfold sntDoc
  simp only [docNorm doc' hd, lit_Optional, lit_pOptional, hd.noOpt, hd.noPOpt, Bool.or_self, Bool.false_and, Bool.false_eq_true, if_false]

theorem setNameAndType_good (name : Str) (typ : Option Str) (doc' : Str) (dflt : Option Default)
    (hn : GoodName name) (ht : ∀ t, typ = some t → endsWith t ", optional".toList = false)
    (hd : GoodText doc')
    (hx : extractDefault doc' Option.none true = .ok (doc', dflt)) (hv : ∀ v, dflt = some v → GoodDefault v) :
    setNameAndType name { typ := typ, doc := some doc', default := dflt }
      = .ok { typ := typAfter typ dflt, doc := some doc', default := dflt } := by
  rw [setNameAndType_eq]
  unfold setNameAndType'
  have hkw : (endsWith name "kwargs".toList || startsWith name ['*']) = false := by
    rw [hn.noKwargs, hn.noStar]; rfl
  simp only [hkw, Bool.false_eq_true, if_false, sntMerge_good typ doc' dflt hd.ne hx hv, sntInfer_good typ doc' dflt hv,
    sntOptSuffix_good _ _ _ (typAfter_noOptSuffix typ dflt hv ht), isNoneVal_good _ hv]
  have : sntDropEmpty { typ := typAfter typ dflt, doc := some doc', default := dflt } = { typ := typAfter typ dflt, doc := some doc', default := dflt } := by
    unfold sntDropEmpty
    have hne : (some doc' == some ([] : Str)) = false := by
      cases hb : (some doc' == some ([] : Str)) with
      | false => rfl
      | true => simp at hb; exact absurd hb hd.ne
    simp only [hne, Bool.false_eq_true, if_false]
  rw [this, sntDoc_good _ _ _ hd]

end DocRT
