import CddVerif.Model.Cst
/-! Helper lemmas for C09 (generic scanner losslessness). -/
namespace Cst.Generic
open Py

theorem innerLoop_flatten (p : Preds) (cs expr : Str) (acc : List Str) :
    (innerLoop p cs expr acc).flatten = acc.reverse.flatten ++ expr ++ cs := by
  induction cs generalizing expr acc with
  | nil =>
    unfold innerLoop
    split
    · rename_i h; simp [List.isEmpty_iff.mp h]
    · simp
  | cons c cs ih =>
    unfold innerLoop
    simp only
    split
    · rw [ih]; simp
    · rw [ih]; simp

theorem scan_flatten (p : Preds) (stack : Str) :
    (scan p stack).1.flatten ++ (scan p stack).2 = stack := by
  unfold scan
  simp only
  split <;> (try split) <;> (try split) <;> simp [innerLoop_flatten]

theorem scannerLoop_flatten (p : Preds) (cs : Str) (scanned : List Str) (stack : Str) :
    (scannerLoop p cs scanned stack).1.flatten ++ (scannerLoop p cs scanned stack).2
      = scanned.flatten ++ stack ++ cs := by
  induction cs generalizing scanned stack with
  | nil => simp [scannerLoop]
  | cons c cs ih =>
    unfold scannerLoop
    split
    · rw [ih]
      have := scan_flatten p stack
      simp only [List.flatten_append, List.append_assoc]
      rw [← List.append_assoc (scan p stack).1.flatten, this]; simp
    · rw [ih]; simp

theorem scanner_lossless (p : Preds) (src : Str) : (scanner p src).flatten = src := by
  unfold scanner
  have h := scannerLoop_flatten p src [] []
  generalize scannerLoop p src [] [] = r at h
  obtain ⟨scanned, stack⟩ := r
  simp only at h ⊢
  have h2 := scan_flatten p stack
  simp only [List.flatten_nil, List.nil_append, List.append_nil] at h
  split
  · rename_i he
    have he' := List.isEmpty_iff.mp he
    rw [he', List.append_nil] at h2
    rw [List.flatten_append, h2]; exact h
  · rw [List.flatten_append, List.flatten_append]
    simp only [List.flatten_cons, List.flatten_nil, List.append_nil]
    rw [List.append_assoc, h2]; exact h

end Cst.Generic

namespace Cst
open Py

theorem parseOne_value (acc : Nat) (b : Bool) (s : Str) : (parseOne acc b s).value = s := by
  unfold parseOne; simp only; split
  · rfl
  · split
    · rfl
    · split <;> rfl

theorem parseOne_start (acc : Nat) (b : Bool) (s : Str) : (parseOne acc b s).start = acc := by
  unfold parseOne; simp only; split
  · rfl
  · split
    · rfl
    · split <;> rfl

theorem parseOne_stop (acc : Nat) (b : Bool) (s : Str) : (parseOne acc b s).stop = acc + count1 s '\n' := by
  unfold parseOne; simp only; split
  · rfl
  · split
    · rfl
    · split <;> rfl

end Cst
