import CddVerif.Model.Sync
/-!
# Lemmas about the model of `cdd sync` (property C12)

* `Stmt.beq` (the model of `cmp_ast`) is sound and reflexive;
* one-hole contexts `Ctx` and the *frame* lemma of `RewriteAtQuery`: a visit either changes nothing or replaces exactly
  one node, whose `_location` is the search path (`rwStmt_frame` / `rwList_frame`, mutual induction over the nested AST);
* for a single-component path (a top-level target) `find_in_ast` and `RewriteAtQuery` collapse to simple first-match
  functions (`findTop`, `rwTop`), which is what the partial / idempotence theorems use.
-/
namespace Sync
open PyAst

mutual
theorem stmt_beq_eq : ∀ (a b : Stmt), Stmt.beq a b = true → a = b
  | .fn a n g b d r, .fn a' n' g' b' d' r', h => by
    simp only [Stmt.beq, Bool.and_eq_true, beq_iff_eq] at h
    obtain ⟨⟨⟨⟨⟨h1, h2⟩, h3⟩, h4⟩, h5⟩, h6⟩ := h
    have := beqList_eq b b' h4
    subst h1 h2 h3 h5 h6 this; rfl
  | .cls n bs ks b d, .cls n' bs' ks' b' d', h => by
    simp only [Stmt.beq, Bool.and_eq_true, beq_iff_eq] at h
    obtain ⟨⟨⟨⟨h1, h2⟩, h3⟩, h4⟩, h5⟩ := h
    have := beqList_eq b b' h4
    subst h1 h2 h3 h5 this; rfl
  | .ann t a v, .ann t' a' v', h => by
    simp only [Stmt.beq, Bool.and_eq_true, beq_iff_eq] at h
    obtain ⟨⟨h1, h2⟩, h3⟩ := h
    subst h1 h2 h3; rfl
  | .assign t v, .assign t' v', h => by
    simp only [Stmt.beq, Bool.and_eq_true, beq_iff_eq] at h
    obtain ⟨h1, h2⟩ := h
    subst h1 h2; rfl
  | .strExpr s, .strExpr s', h => by
    simp only [Stmt.beq, beq_iff_eq] at h; subst h; rfl
  | .expr s, .expr s', h => by
    simp only [Stmt.beq, beq_iff_eq] at h; subst h; rfl
  | .other s, .other s', h => by
    simp only [Stmt.beq, beq_iff_eq] at h; subst h; rfl
  | .fn .., .cls .., h | .fn .., .ann .., h | .fn .., .assign .., h | .fn .., .strExpr .., h | .fn .., .expr .., h | .fn .., .other .., h => by simp [Stmt.beq] at h
  | .cls .., .fn .., h | .cls .., .ann .., h | .cls .., .assign .., h | .cls .., .strExpr .., h | .cls .., .expr .., h | .cls .., .other .., h => by simp [Stmt.beq] at h
  | .ann .., .fn .., h | .ann .., .cls .., h | .ann .., .assign .., h | .ann .., .strExpr .., h | .ann .., .expr .., h | .ann .., .other .., h => by simp [Stmt.beq] at h
  | .assign .., .fn .., h | .assign .., .cls .., h | .assign .., .ann .., h | .assign .., .strExpr .., h | .assign .., .expr .., h | .assign .., .other .., h => by simp [Stmt.beq] at h
  | .strExpr .., .fn .., h | .strExpr .., .cls .., h | .strExpr .., .ann .., h | .strExpr .., .assign .., h | .strExpr .., .expr .., h | .strExpr .., .other .., h => by simp [Stmt.beq] at h
  | .expr .., .fn .., h | .expr .., .cls .., h | .expr .., .ann .., h | .expr .., .assign .., h | .expr .., .strExpr .., h | .expr .., .other .., h => by simp [Stmt.beq] at h
  | .other .., .fn .., h | .other .., .cls .., h | .other .., .ann .., h | .other .., .assign .., h | .other .., .strExpr .., h | .other .., .expr .., h => by simp [Stmt.beq] at h
theorem beqList_eq : ∀ (a b : List Stmt), beqList a b = true → a = b
  | [], [], _ => rfl
  | x :: xs, y :: ys, h => by
    simp only [beqList, Bool.and_eq_true] at h
    rw [stmt_beq_eq x y h.1, beqList_eq xs ys h.2]
  | [], _ :: _, h => by simp [beqList] at h
  | _ :: _, [], h => by simp [beqList] at h
end

mutual
theorem stmt_beq_refl : ∀ (a : Stmt), Stmt.beq a a = true
  | .fn a n g b d r => by simp [Stmt.beq, beqList_refl b]
  | .cls n bs ks b d => by simp [Stmt.beq, beqList_refl b]
  | .ann .. | .assign .. | .strExpr .. | .expr .. | .other .. => by simp [Stmt.beq]
theorem beqList_refl : ∀ (a : List Stmt), beqList a a = true
  | [] => rfl
  | x :: xs => by simp [beqList, stmt_beq_refl x, beqList_refl xs]
end

def isAssign : Stmt → Bool
  | .ann .. => true
  | .assign .. => true
  | _ => false

inductive Ctx
  | top (pre post : List Stmt)
  | inCls (pre : List Stmt) (name : String) (bases kws : List String) (inner : Ctx) (decos : List String) (post : List Stmt)
  | inFn (pre : List Stmt) (name : String) (args : Args) (inner : Ctx) (decos : List String) (ret : Option String) (post : List Stmt)

def Ctx.plug : Ctx → Stmt → List Stmt
  | .top pre post, x => pre ++ x :: post
  | .inCls pre n b k inner d post, x => pre ++ .cls n b k (inner.plug x) d :: post
  | .inFn pre n a inner d r post, x => pre ++ .fn true n a (inner.plug x) d r :: post

def Ctx.parent : Ctx → Option String → Option String
  | .top _ _, par => par
  | .inCls _ n _ _ inner _ _, _ => inner.parent (some n)
  | .inFn _ n _ inner _ _ _, _ => inner.parent (some n)

def Ctx.prepend (s : Stmt) : Ctx → Ctx
  | .top pre post => .top (s :: pre) post
  | .inCls pre n b k inner d post => .inCls (s :: pre) n b k inner d post
  | .inFn pre n a inner d r post => .inFn (s :: pre) n a inner d r post

def Ctx.appendPost (ss : List Stmt) : Ctx → Ctx
  | .top pre post => .top pre (post ++ ss)
  | .inCls pre n b k inner d post => .inCls pre n b k inner d (post ++ ss)
  | .inFn pre n a inner d r post => .inFn pre n a inner d r (post ++ ss)

theorem Ctx.plug_prepend (s : Stmt) (c : Ctx) (x : Stmt) : (c.prepend s).plug x = s :: c.plug x := by
  cases c <;> simp [Ctx.prepend, Ctx.plug]
theorem Ctx.parent_prepend (s : Stmt) (c : Ctx) (par : Option String) : (c.prepend s).parent par = c.parent par := by
  cases c <;> simp [Ctx.prepend, Ctx.parent]
theorem Ctx.plug_appendPost (ss : List Stmt) (c : Ctx) (x : Stmt) : (c.appendPost ss).plug x = c.plug x ++ ss := by
  cases c <;> simp [Ctx.appendPost, Ctx.plug]
theorem Ctx.parent_appendPost (ss : List Stmt) (c : Ctx) (par : Option String) : (c.appendPost ss).parent par = c.parent par := by
  cases c <;> simp [Ctx.appendPost, Ctx.parent]

/-- a visit of a list of statements either changes nothing, or replaces exactly one node, whose `_location` is the
    search path, by `e` -/
def Outcome (p : List String) (par : Option String) (l : List Stmt) (e : Stmt) (l' : List Stmt) (r' : Bool) : Prop :=
  (r' = false ∧ l' = l) ∨
  (r' = true ∧ ∃ (ctx : Ctx) (old : Stmt), l = ctx.plug old ∧ l' = ctx.plug e ∧ loc (ctx.parent par) old = some p)

theorem vfd_stmt (p : List String) (par : Option String) (name : String) (args : Args) (e : Stmt) (r : Bool)
    (he : isAssign e = false) (a' : Args) (st' : RwSt)
    (h : visitFunctionDef p par name args ⟨.stmt e, r⟩ = .ok (a', st')) : a' = args ∧ st' = ⟨.stmt e, r⟩ := by
  unfold visitFunctionDef at h
  simp only at h
  split at h
  · cases h; exact ⟨rfl, rfl⟩
  · cases e <;> simp [isAssign] at he <;> simp at h

theorem hits_spec (p : List String) (par : Option String) (s : Stmt) (st : RwSt) (h : hits p par s st = true) :
    st.replaced = false ∧ loc par s = some p := by
  simp only [hits, Bool.and_eq_true, Bool.not_eq_true', beq_iff_eq] at h
  exact h

theorem hits_replaced (p : List String) (par : Option String) (s : Stmt) (e : Repl) : hits p par s ⟨e, true⟩ = false := by
  simp [hits]

mutual
theorem rwStmt_frame (p : List String) (e : Stmt) (he : isAssign e = false) :
    ∀ (s : Stmt) (par : Option String) (r : Bool) (s' : Stmt) (st' : RwSt), rwStmt p par s ⟨.stmt e, r⟩ = .ok (s', st') →
      st'.repl = .stmt e ∧ (r = true → s' = s ∧ st'.replaced = true) ∧ (r = false → Outcome p par [s] e [s'] st'.replaced)
  | .fn false name args body decos ret, par, r, s', st', h => by
    simp only [rwStmt] at h
    split at h
    · cases h
    · rename_i a' st1 hv
      obtain ⟨rfl, rfl⟩ := vfd_stmt p par name args e r he a' st1 hv
      cases h
      refine ⟨rfl, fun hr => ⟨rfl, hr⟩, fun hr => Or.inl ⟨hr, rfl⟩⟩
  | .fn true name args body decos ret, par, r, s', st', h => by
    simp only [rwStmt] at h
    split at h
    · rename_i hh
      obtain ⟨hr, hl⟩ := hits_spec _ _ _ _ hh
      simp only at hr; subst hr
      simp only [putRepl] at h; cases h
      exact ⟨rfl, (fun hr => by cases hr), (fun _ => Or.inr ⟨rfl, .top [] [], _, rfl, rfl, hl⟩)⟩
    · split at h
      · cases h
      · split at h
        · cases h
        · rename_i body' st1 hb
          obtain ⟨h1, h2, h3⟩ := rwList_frame p e he body (some name) r body' st1 hb
          cases h
          refine ⟨h1, fun hr => ?_, fun hr => ?_⟩
          · obtain ⟨rfl, h⟩ := h2 hr; exact ⟨rfl, h⟩
          · rcases h3 hr with ⟨h, rfl⟩ | ⟨h, ctx, old, hb1, hb2, hl⟩
            · exact Or.inl ⟨h, rfl⟩
            · exact Or.inr ⟨h, .inFn [] name args ctx decos ret [], old, by simp [Ctx.plug, hb1], by simp [Ctx.plug, hb2], hl⟩
  | .cls name bases kws body decos, par, r, s', st', h => by
    simp only [rwStmt] at h
    split at h
    · rename_i hh
      obtain ⟨hr, hl⟩ := hits_spec _ _ _ _ hh
      simp only at hr; subst hr
      simp only [putRepl] at h; cases h
      exact ⟨rfl, (fun hr => by cases hr), (fun _ => Or.inr ⟨rfl, .top [] [], _, rfl, rfl, hl⟩)⟩
    · split at h
      · cases h
      · rename_i body' st1 hb
        obtain ⟨h1, h2, h3⟩ := rwList_frame p e he body (some name) r body' st1 hb
        cases h
        refine ⟨h1, fun hr => ?_, fun hr => ?_⟩
        · obtain ⟨rfl, h⟩ := h2 hr; exact ⟨rfl, h⟩
        · rcases h3 hr with ⟨h, rfl⟩ | ⟨h, ctx, old, hb1, hb2, hl⟩
          · exact Or.inl ⟨h, rfl⟩
          · exact Or.inr ⟨h, .inCls [] name bases kws ctx decos [], old, by simp [Ctx.plug, hb1], by simp [Ctx.plug, hb2], hl⟩
  | .ann t a v, par, r, s', st', h => by
    simp only [rwStmt] at h
    split at h
    · rename_i hh
      obtain ⟨hr, hl⟩ := hits_spec _ _ _ _ hh
      simp only at hr; subst hr
      simp only [putRepl] at h; cases h
      exact ⟨rfl, (fun hr => by cases hr), (fun _ => Or.inr ⟨rfl, .top [] [], _, rfl, rfl, hl⟩)⟩
    · cases h
      exact ⟨rfl, fun hr => ⟨rfl, hr⟩, fun hr => Or.inl ⟨hr, rfl⟩⟩
  | .assign ts v, par, r, s', st', h => by
    simp only [rwStmt] at h
    split at h
    · rename_i hh
      obtain ⟨hr, hl⟩ := hits_spec _ _ _ _ hh
      simp only at hr; subst hr
      simp only [putRepl] at h; cases h
      exact ⟨rfl, (fun hr => by cases hr), (fun _ => Or.inr ⟨rfl, .top [] [], _, rfl, rfl, hl⟩)⟩
    · cases h
      exact ⟨rfl, fun hr => ⟨rfl, hr⟩, fun hr => Or.inl ⟨hr, rfl⟩⟩
  | .strExpr x, par, r, s', st', h => by
    simp only [rwStmt] at h; cases h
    exact ⟨rfl, fun hr => ⟨rfl, hr⟩, fun hr => Or.inl ⟨hr, rfl⟩⟩
  | .expr x, par, r, s', st', h => by
    simp only [rwStmt] at h; cases h
    exact ⟨rfl, fun hr => ⟨rfl, hr⟩, fun hr => Or.inl ⟨hr, rfl⟩⟩
  | .other x, par, r, s', st', h => by
    simp only [rwStmt] at h; cases h
    exact ⟨rfl, fun hr => ⟨rfl, hr⟩, fun hr => Or.inl ⟨hr, rfl⟩⟩
theorem rwList_frame (p : List String) (e : Stmt) (he : isAssign e = false) :
    ∀ (l : List Stmt) (par : Option String) (r : Bool) (l' : List Stmt) (st' : RwSt), rwList p par l ⟨.stmt e, r⟩ = .ok (l', st') →
      st'.repl = .stmt e ∧ (r = true → l' = l ∧ st'.replaced = true) ∧ (r = false → Outcome p par l e l' st'.replaced)
  | [], par, r, l', st', h => by
    simp only [rwList] at h; cases h
    exact ⟨rfl, fun hr => ⟨rfl, hr⟩, fun hr => Or.inl ⟨hr, rfl⟩⟩
  | s :: ss, par, r, l', st', h => by
    simp only [rwList] at h
    split at h
    · cases h
    · rename_i s1 st1 hs
      split at h
      · cases h
      · rename_i ss1 st2 hss
        obtain ⟨a1, a2, a3⟩ := rwStmt_frame p e he s par r s1 st1 hs
        obtain ⟨repl1, r1⟩ := st1
        simp only at a1; subst a1
        obtain ⟨b1, b2, b3⟩ := rwList_frame p e he ss par r1 ss1 st2 hss
        cases h
        refine ⟨b1, fun hr => ?_, fun hr => ?_⟩
        · obtain ⟨rfl, h1⟩ := a2 hr
          simp only at h1; subst h1
          obtain ⟨rfl, h2⟩ := b2 rfl
          exact ⟨rfl, h2⟩
        · rcases a3 hr with ⟨h1, h2⟩ | ⟨h1, ctx, old, c1, c2, c3⟩
          · simp only at h1; subst h1
            simp only [List.cons.injEq, and_true] at h2; subst h2
            rcases b3 rfl with ⟨h3, rfl⟩ | ⟨h3, ctx, old, c1, c2, c3⟩
            · exact Or.inl ⟨h3, rfl⟩
            · refine Or.inr ⟨h3, ctx.prepend s1, old, ?_, ?_, ?_⟩
              · rw [Ctx.plug_prepend, c1]
              · rw [Ctx.plug_prepend, c2]
              · rw [Ctx.parent_prepend]; exact c3
          · simp only at h1; subst h1
            obtain ⟨rfl, h2⟩ := b2 rfl
            refine Or.inr ⟨h2, ctx.appendPost ss1, old, ?_, ?_, ?_⟩
            · rw [Ctx.plug_appendPost, ← c1]; rfl
            · rw [Ctx.plug_appendPost, ← c2]; rfl
            · rw [Ctx.parent_appendPost]; exact c3
end
end Sync
