import CddVerif.Model.Sync
/-!
# Lemmas about the model of `cdd sync` (property C12)

* `Stmt.beq` (the model of `cmp_ast`) is sound and reflexive;
* one-hole contexts `Ctx` and the *frame* lemma of `RewriteAtQuery`: a visit either changes nothing or replaces exactly
  one node, whose `_location` is the search path (`rwStmt_frame` / `rwList_frame`, mutual induction over the nested AST);
* for a single-component path (a top-level target) `find_in_ast` and `RewriteAtQuery` collapse to simple first-match
  functions (`findTop`, `rwTop`), which is what the partial / idempotence theorems use.
-/
namespace Sync
open PyAst

mutual
theorem stmt_beq_eq : ∀ (a b : Stmt), Stmt.beq a b = true → a = b
  | .fn a n g b d r, .fn a' n' g' b' d' r', h => by
    simp only [Stmt.beq, Bool.and_eq_true, beq_iff_eq] at h
    obtain ⟨⟨⟨⟨⟨h1, h2⟩, h3⟩, h4⟩, h5⟩, h6⟩ := h
    have := beqList_eq b b' h4
    subst h1 h2 h3 h5 h6 this; rfl
  | .cls n bs ks b d, .cls n' bs' ks' b' d', h => by
    simp only [Stmt.beq, Bool.and_eq_true, beq_iff_eq] at h
    obtain ⟨⟨⟨⟨h1, h2⟩, h3⟩, h4⟩, h5⟩ := h
    have := beqList_eq b b' h4
    subst h1 h2 h3 h5 this; rfl
  | .ann t a v, .ann t' a' v', h => by
    simp only [Stmt.beq, Bool.and_eq_true, beq_iff_eq] at h
    obtain ⟨⟨h1, h2⟩, h3⟩ := h
    subst h1 h2 h3; rfl
  | .assign t v, .assign t' v', h => by
    simp only [Stmt.beq, Bool.and_eq_true, beq_iff_eq] at h
    obtain ⟨h1, h2⟩ := h
    subst h1 h2; rfl
  | .strExpr s, .strExpr s', h => by
    simp only [Stmt.beq, beq_iff_eq] at h; subst h; rfl
  | .expr s, .expr s', h => by
    simp only [Stmt.beq, beq_iff_eq] at h; subst h; rfl
  | .other s, .other s', h => by
    simp only [Stmt.beq, beq_iff_eq] at h; subst h; rfl
  | .fn .., .cls .., h | .fn .., .ann .., h | .fn .., .assign .., h | .fn .., .strExpr .., h | .fn .., .expr .., h | .fn .., .other .., h => by simp [Stmt.beq] at h
  | .cls .., .fn .., h | .cls .., .ann .., h | .cls .., .assign .., h | .cls .., .strExpr .., h | .cls .., .expr .., h | .cls .., .other .., h => by simp [Stmt.beq] at h
  | .ann .., .fn .., h | .ann .., .cls .., h | .ann .., .assign .., h | .ann .., .strExpr .., h | .ann .., .expr .., h | .ann .., .other .., h => by simp [Stmt.beq] at h
  | .assign .., .fn .., h | .assign .., .cls .., h | .assign .., .ann .., h | .assign .., .strExpr .., h | .assign .., .expr .., h | .assign .., .other .., h => by simp [Stmt.beq] at h
  | .strExpr .., .fn .., h | .strExpr .., .cls .., h | .strExpr .., .ann .., h | .strExpr .., .assign .., h | .strExpr .., .expr .., h | .strExpr .., .other .., h => by simp [Stmt.beq] at h
  | .expr .., .fn .., h | .expr .., .cls .., h | .expr .., .ann .., h | .expr .., .assign .., h | .expr .., .strExpr .., h | .expr .., .other .., h => by simp [Stmt.beq] at h
  | .other .., .fn .., h | .other .., .cls .., h | .other .., .ann .., h | .other .., .assign .., h | .other .., .strExpr .., h | .other .., .expr .., h => by simp [Stmt.beq] at h
theorem beqList_eq : ∀ (a b : List Stmt), beqList a b = true → a = b
  | [], [], _ => rfl
  | x :: xs, y :: ys, h => by
    simp only [beqList, Bool.and_eq_true] at h
    rw [stmt_beq_eq x y h.1, beqList_eq xs ys h.2]
  | [], _ :: _, h => by simp [beqList] at h
  | _ :: _, [], h => by simp [beqList] at h
end

mutual
theorem stmt_beq_refl : ∀ (a : Stmt), Stmt.beq a a = true
  | .fn a n g b d r => by simp [Stmt.beq, beqList_refl b]
  | .cls n bs ks b d => by simp [Stmt.beq, beqList_refl b]
  | .ann .. | .assign .. | .strExpr .. | .expr .. | .other .. => by simp [Stmt.beq]
theorem beqList_refl : ∀ (a : List Stmt), beqList a a = true
  | [] => rfl
  | x :: xs => by simp [beqList, stmt_beq_refl x, beqList_refl xs]
end

def isAssign : Stmt → Bool
  | .ann .. => true
  | .assign .. => true
  | _ => false

inductive Ctx
  | top (pre post : List Stmt)
  | inCls (pre : List Stmt) (name : String) (bases kws : List String) (inner : Ctx) (decos : List String) (post : List Stmt)
  | inFn (pre : List Stmt) (name : String) (args : Args) (inner : Ctx) (decos : List String) (ret : Option String) (post : List Stmt)

def Ctx.plug : Ctx → Stmt → List Stmt
  | .top pre post, x => pre ++ x :: post
  | .inCls pre n b k inner d post, x => pre ++ .cls n b k (inner.plug x) d :: post
  | .inFn pre n a inner d r post, x => pre ++ .fn true n a (inner.plug x) d r :: post

def Ctx.parent : Ctx → Option String → Option String
  | .top _ _, par => par
  | .inCls _ n _ _ inner _ _, _ => inner.parent (some n)
  | .inFn _ n _ inner _ _ _, _ => inner.parent (some n)

def Ctx.prepend (s : Stmt) : Ctx → Ctx
  | .top pre post => .top (s :: pre) post
  | .inCls pre n b k inner d post => .inCls (s :: pre) n b k inner d post
  | .inFn pre n a inner d r post => .inFn (s :: pre) n a inner d r post

def Ctx.appendPost (ss : List Stmt) : Ctx → Ctx
  | .top pre post => .top pre (post ++ ss)
  | .inCls pre n b k inner d post => .inCls pre n b k inner d (post ++ ss)
  | .inFn pre n a inner d r post => .inFn pre n a inner d r (post ++ ss)

theorem Ctx.plug_prepend (s : Stmt) (c : Ctx) (x : Stmt) : (c.prepend s).plug x = s :: c.plug x := by
  cases c <;> simp [Ctx.prepend, Ctx.plug]
theorem Ctx.parent_prepend (s : Stmt) (c : Ctx) (par : Option String) : (c.prepend s).parent par = c.parent par := by
  cases c <;> simp [Ctx.prepend, Ctx.parent]
theorem Ctx.plug_appendPost (ss : List Stmt) (c : Ctx) (x : Stmt) : (c.appendPost ss).plug x = c.plug x ++ ss := by
  cases c <;> simp [Ctx.appendPost, Ctx.plug]
theorem Ctx.parent_appendPost (ss : List Stmt) (c : Ctx) (par : Option String) : (c.appendPost ss).parent par = c.parent par := by
  cases c <;> simp [Ctx.appendPost, Ctx.parent]

/-- a visit of a list of statements either changes nothing, or replaces exactly one node, whose `_location` is the
    search path, by `e` -/
def Outcome (p : List String) (par : Option String) (l : List Stmt) (e : Stmt) (l' : List Stmt) (r' : Bool) : Prop :=
  (r' = false ∧ l' = l) ∨
  (r' = true ∧ ∃ (ctx : Ctx) (old : Stmt), l = ctx.plug old ∧ l' = ctx.plug e ∧ loc (ctx.parent par) old = some p)

theorem vfd_stmt (p : List String) (par : Option String) (name : String) (args : Args) (e : Stmt) (r : Bool)
    (he : isAssign e = false) (a' : Args) (st' : RwSt)
    (h : visitFunctionDef p par name args ⟨.stmt e, r⟩ = .ok (a', st')) : a' = args ∧ st' = ⟨.stmt e, r⟩ := by
  unfold visitFunctionDef at h
  simp only at h
  split at h
  · cases h; exact ⟨rfl, rfl⟩
  · cases e <;> simp [isAssign] at he <;> simp at h

theorem hits_spec (p : List String) (par : Option String) (s : Stmt) (st : RwSt) (h : hits p par s st = true) :
    st.replaced = false ∧ loc par s = some p := by
  simp only [hits, Bool.and_eq_true, Bool.not_eq_true', beq_iff_eq] at h
  exact h

theorem hits_replaced (p : List String) (par : Option String) (s : Stmt) (e : Repl) : hits p par s ⟨e, true⟩ = false := by
  simp [hits]

mutual
theorem rwStmt_frame (p : List String) (e : Stmt) (he : isAssign e = false) :
    ∀ (s : Stmt) (par : Option String) (r : Bool) (s' : Stmt) (st' : RwSt), rwStmt p par s ⟨.stmt e, r⟩ = .ok (s', st') →
      st'.repl = .stmt e ∧ (r = true → s' = s ∧ st'.replaced = true) ∧ (r = false → Outcome p par [s] e [s'] st'.replaced)
  | .fn false name args body decos ret, par, r, s', st', h => by
    simp only [rwStmt] at h
    split at h
    · cases h
    · rename_i a' st1 hv
      obtain ⟨rfl, rfl⟩ := vfd_stmt p par name args e r he a' st1 hv
      cases h
      refine ⟨rfl, fun hr => ⟨rfl, hr⟩, fun hr => Or.inl ⟨hr, rfl⟩⟩
  | .fn true name args body decos ret, par, r, s', st', h => by
    simp only [rwStmt] at h
    split at h
    · rename_i hh
      obtain ⟨hr, hl⟩ := hits_spec _ _ _ _ hh
      simp only at hr; subst hr
      simp only [putRepl] at h; cases h
      exact ⟨rfl, (fun hr => by cases hr), (fun _ => Or.inr ⟨rfl, .top [] [], _, rfl, rfl, hl⟩)⟩
    · split at h
      · cases h
      · split at h
        · cases h
        · rename_i body' st1 hb
          obtain ⟨h1, h2, h3⟩ := rwList_frame p e he body (some name) r body' st1 hb
          cases h
          refine ⟨h1, fun hr => ?_, fun hr => ?_⟩
          · obtain ⟨rfl, h⟩ := h2 hr; exact ⟨rfl, h⟩
          · rcases h3 hr with ⟨h, rfl⟩ | ⟨h, ctx, old, hb1, hb2, hl⟩
            · exact Or.inl ⟨h, rfl⟩
            · exact Or.inr ⟨h, .inFn [] name args ctx decos ret [], old, by simp [Ctx.plug, hb1], by simp [Ctx.plug, hb2], hl⟩
  | .cls name bases kws body decos, par, r, s', st', h => by
    simp only [rwStmt] at h
    split at h
    · rename_i hh
      obtain ⟨hr, hl⟩ := hits_spec _ _ _ _ hh
      simp only at hr; subst hr
      simp only [putRepl] at h; cases h
      exact ⟨rfl, (fun hr => by cases hr), (fun _ => Or.inr ⟨rfl, .top [] [], _, rfl, rfl, hl⟩)⟩
    · split at h
      · cases h
      · rename_i body' st1 hb
        obtain ⟨h1, h2, h3⟩ := rwList_frame p e he body (some name) r body' st1 hb
        cases h
        refine ⟨h1, fun hr => ?_, fun hr => ?_⟩
        · obtain ⟨rfl, h⟩ := h2 hr; exact ⟨rfl, h⟩
        · rcases h3 hr with ⟨h, rfl⟩ | ⟨h, ctx, old, hb1, hb2, hl⟩
          · exact Or.inl ⟨h, rfl⟩
          · exact Or.inr ⟨h, .inCls [] name bases kws ctx decos [], old, by simp [Ctx.plug, hb1], by simp [Ctx.plug, hb2], hl⟩
  | .ann t a v, par, r, s', st', h => by
    simp only [rwStmt] at h
    split at h
    · rename_i hh
      obtain ⟨hr, hl⟩ := hits_spec _ _ _ _ hh
      simp only at hr; subst hr
      simp only [putRepl] at h; cases h
      exact ⟨rfl, (fun hr => by cases hr), (fun _ => Or.inr ⟨rfl, .top [] [], _, rfl, rfl, hl⟩)⟩
    · cases h
      exact ⟨rfl, fun hr => ⟨rfl, hr⟩, fun hr => Or.inl ⟨hr, rfl⟩⟩
  | .assign ts v, par, r, s', st', h => by
    simp only [rwStmt] at h
    split at h
    · rename_i hh
      obtain ⟨hr, hl⟩ := hits_spec _ _ _ _ hh
      simp only at hr; subst hr
      simp only [putRepl] at h; cases h
      exact ⟨rfl, (fun hr => by cases hr), (fun _ => Or.inr ⟨rfl, .top [] [], _, rfl, rfl, hl⟩)⟩
    · cases h
      exact ⟨rfl, fun hr => ⟨rfl, hr⟩, fun hr => Or.inl ⟨hr, rfl⟩⟩
  | .strExpr x, par, r, s', st', h => by
    simp only [rwStmt] at h; cases h
    exact ⟨rfl, fun hr => ⟨rfl, hr⟩, fun hr => Or.inl ⟨hr, rfl⟩⟩
  | .expr x, par, r, s', st', h => by
    simp only [rwStmt] at h; cases h
    exact ⟨rfl, fun hr => ⟨rfl, hr⟩, fun hr => Or.inl ⟨hr, rfl⟩⟩
  | .other x, par, r, s', st', h => by
    simp only [rwStmt] at h; cases h
    exact ⟨rfl, fun hr => ⟨rfl, hr⟩, fun hr => Or.inl ⟨hr, rfl⟩⟩
theorem rwList_frame (p : List String) (e : Stmt) (he : isAssign e = false) :
    ∀ (l : List Stmt) (par : Option String) (r : Bool) (l' : List Stmt) (st' : RwSt), rwList p par l ⟨.stmt e, r⟩ = .ok (l', st') →
      st'.repl = .stmt e ∧ (r = true → l' = l ∧ st'.replaced = true) ∧ (r = false → Outcome p par l e l' st'.replaced)
  | [], par, r, l', st', h => by
    simp only [rwList] at h; cases h
    exact ⟨rfl, fun hr => ⟨rfl, hr⟩, fun hr => Or.inl ⟨hr, rfl⟩⟩
  | s :: ss, par, r, l', st', h => by
    simp only [rwList] at h
    split at h
    · cases h
    · rename_i s1 st1 hs
      split at h
      · cases h
      · rename_i ss1 st2 hss
        obtain ⟨a1, a2, a3⟩ := rwStmt_frame p e he s par r s1 st1 hs
        obtain ⟨repl1, r1⟩ := st1
        simp only at a1; subst a1
        obtain ⟨b1, b2, b3⟩ := rwList_frame p e he ss par r1 ss1 st2 hss
        cases h
        refine ⟨b1, fun hr => ?_, fun hr => ?_⟩
        · obtain ⟨rfl, h1⟩ := a2 hr
          simp only at h1; subst h1
          obtain ⟨rfl, h2⟩ := b2 rfl
          exact ⟨rfl, h2⟩
        · rcases a3 hr with ⟨h1, h2⟩ | ⟨h1, ctx, old, c1, c2, c3⟩
          · simp only at h1; subst h1
            simp only [List.cons.injEq, and_true] at h2; subst h2
            rcases b3 rfl with ⟨h3, rfl⟩ | ⟨h3, ctx, old, c1, c2, c3⟩
            · exact Or.inl ⟨h3, rfl⟩
            · refine Or.inr ⟨h3, ctx.prepend s1, old, ?_, ?_, ?_⟩
              · rw [Ctx.plug_prepend, c1]
              · rw [Ctx.plug_prepend, c2]
              · rw [Ctx.parent_prepend]; exact c3
          · simp only at h1; subst h1
            obtain ⟨rfl, h2⟩ := b2 rfl
            refine Or.inr ⟨h2, ctx.appendPost ss1, old, ?_, ?_, ?_⟩
            · rw [Ctx.plug_appendPost, ← c1]; rfl
            · rw [Ctx.plug_appendPost, ← c2]; rfl
            · rw [Ctx.parent_appendPost]; exact c3
end

/-! ### once something was replaced, nothing else happens -/
theorem vfd_replaced (p : List String) (par : Option String) (name : String) (args : Args) (rp : Repl) :
    visitFunctionDef p par name args ⟨rp, true⟩ = .ok (args, ⟨rp, true⟩) := by
  simp [visitFunctionDef]

mutual
theorem rwStmt_replaced (p : List String) (rp : Repl) :
    ∀ (s : Stmt) (par : Option String), rwStmt p par s ⟨rp, true⟩ = .ok (s, ⟨rp, true⟩)
  | .fn false name args body decos ret, par => by simp [rwStmt, vfd_replaced]
  | .fn true name args body decos ret, par => by
    simp [rwStmt, hits, rwList_replaced p rp body (some name)]
  | .cls name bases kws body decos, par => by
    simp [rwStmt, hits, rwList_replaced p rp body (some name)]
  | .ann .., par | .assign .., par => by simp [rwStmt, hits]
  | .strExpr .., par | .expr .., par | .other .., par => by simp [rwStmt]
theorem rwList_replaced (p : List String) (rp : Repl) :
    ∀ (l : List Stmt) (par : Option String), rwList p par l ⟨rp, true⟩ = .ok (l, ⟨rp, true⟩)
  | [], par => by simp [rwList]
  | s :: ss, par => by simp [rwList, rwStmt_replaced p rp s par, rwList_replaced p rp ss par]
end

/-! ### single-component paths: only top-level statements can match -/
theorem loc_some_ne_single (x K : String) (s : Stmt) : (loc (some x) s == some [K]) = false := by
  unfold loc
  cases ownName s <;> simp

theorem hits_nested_single (x K : String) (s : Stmt) (st : RwSt) : hits [K] (some x) s st = false := by
  simp [hits, loc_some_ne_single]

theorem vfd_single (K : String) (par : Option String) (name : String) (args : Args) (st : RwSt) :
    visitFunctionDef [K] par name args st = .ok (args, st) := by
  unfold visitFunctionDef
  cases par <;> simp

mutual
theorem rwStmt_nested_single (K : String) (rp : Repl) :
    ∀ (s : Stmt) (x : String) (r : Bool), rwStmt [K] (some x) s ⟨rp, r⟩ = .ok (s, ⟨rp, r⟩)
  | .fn false name args body decos ret, x, r => by simp [rwStmt, vfd_single]
  | .fn true name args body decos ret, x, r => by
    simp [rwStmt, hits_nested_single, rwList_nested_single K rp body name r]
  | .cls name bases kws body decos, x, r => by
    simp [rwStmt, hits_nested_single, rwList_nested_single K rp body name r]
  | .ann .., x, r | .assign .., x, r => by simp [rwStmt, hits_nested_single]
  | .strExpr .., x, r | .expr .., x, r | .other .., x, r => by simp [rwStmt]
theorem rwList_nested_single (K : String) (rp : Repl) :
    ∀ (l : List Stmt) (x : String) (r : Bool), rwList [K] (some x) l ⟨rp, r⟩ = .ok (l, ⟨rp, r⟩)
  | [], x, r => by simp [rwList]
  | s :: ss, x, r => by simp [rwList, rwStmt_nested_single K rp s x r, rwList_nested_single K rp ss x r]
end

def isSyncFn : Stmt → Bool
  | .fn false .. => true
  | _ => false

/-- `RewriteAtQuery` for a top-level path `[K]`: the first statement named `K` that is not a (non-async) `def` -/
def rwTop (K : String) (e : Stmt) : List Stmt → List Stmt × Bool
  | [] => ([], false)
  | c :: rest =>
    if !isSyncFn c && ownName c == some K then (e :: rest, true)
    else (c :: (rwTop K e rest).1, (rwTop K e rest).2)

theorem loc_none_single (K : String) (s : Stmt) : (loc none s == some [K]) = (ownName s == some K) := by
  unfold loc
  cases ownName s <;> simp

theorem rwStmt_top_single (K : String) (e : Stmt) (c : Stmt) :
    rwStmt [K] none c ⟨.stmt e, false⟩ =
      if !isSyncFn c && ownName c == some K then .ok (e, ⟨.stmt e, true⟩) else .ok (c, ⟨.stmt e, false⟩) := by
  cases c with
  | fn a name args body decos ret =>
    cases a
    · simp [rwStmt, vfd_single, isSyncFn]
    · simp only [rwStmt, hits, loc_none_single, isSyncFn]
      by_cases h : ownName (Stmt.fn true name args body decos ret) == some K
      · simp [h, putRepl]
      · simp [h, rwList_nested_single]
  | cls name bases kws body decos =>
    simp only [rwStmt, hits, loc_none_single, isSyncFn]
    by_cases h : ownName (Stmt.cls name bases kws body decos) == some K
    · simp [h, putRepl]
    · simp [h, rwList_nested_single]
  | ann t a v =>
    simp only [rwStmt, hits, loc_none_single, isSyncFn]
    by_cases h : ownName (Stmt.ann t a v) == some K <;> simp [h, putRepl]
  | assign ts v =>
    simp only [rwStmt, hits, loc_none_single, isSyncFn]
    by_cases h : ownName (Stmt.assign ts v) == some K <;> simp [h, putRepl]
  | strExpr s => simp [rwStmt, isSyncFn, ownName]
  | expr s => simp [rwStmt, isSyncFn, ownName]
  | other s => simp [rwStmt, isSyncFn, ownName]

theorem rwList_top_single (K : String) (e : Stmt) :
    ∀ (l : List Stmt), rwList [K] none l ⟨.stmt e, false⟩ = .ok ((rwTop K e l).1, ⟨.stmt e, (rwTop K e l).2⟩)
  | [] => by simp [rwList, rwTop]
  | c :: rest => by
    simp only [rwList, rwStmt_top_single, rwTop]
    by_cases h : (!isSyncFn c && ownName c == some K) = true
    · simp [h, rwList_replaced]
    · simp [h, rwList_top_single K e rest]

/-- `find_in_ast` for a top-level path `[K]`: the first statement that is named `K`, or is a (non-async) `def` with a
    positional parameter `K` (then the `arg` is returned) -/
def findTop (K : String) : List Stmt → Option Found
  | [] => none
  | c :: rest =>
    if ownName c == some K then some (.stmt c)
    else match c with
      | .fn false _ args _ _ _ =>
        match findArg K args.args 0 with
        | some (i, a) => some (.arg a args.defaults[i]?)
        | none => findTop K rest
      | _ => findTop K rest


theorem forLoop_single (K : String) :
    ∀ (l : List Stmt) (st : LoopSt), st.cur = [] → st.query = K →
      (∀ f, findTop K l = some f → forLoop [K] none l st = .ret f) ∧
      (findTop K l = none → ∃ st', forLoop [K] none l st = .next st' ∧ st'.cur = [])
  | [], st, hc, hq => by
    simp [findTop, forLoop, hc]
  | c :: rest, st, hc, hq => by
    have ih := fun st' h1 h2 => forLoop_single K rest st' h1 h2
    unfold forLoop findTop
    simp only [loc_none_single]
    by_cases h : (ownName c == some K) = true
    · simp [h]
    · simp only [h, if_false, Bool.false_eq_true]
      cases c with
      | fn a name args body decos ret =>
        cases a
        · simp only [hc, hq]
          cases hf : findArg K args.args 0 with
          | none =>
            simp only
            exact ih _ rfl rfl
          | some ia =>
            obtain ⟨i, a⟩ := ia
            simp
        · simp only [Stmt.defName?]
          have hn : (name == st.query) = false := by
            simp only [ownName] at h
            rw [hq]; simpa using h
          simp only [hn, if_false, Bool.false_eq_true]
          exact ih _ hc hq
      | cls name bases kws body decos =>
        simp only [Stmt.defName?]
        have hn : (name == st.query) = false := by
          simp only [ownName] at h
          rw [hq]; simpa using h
        simp only [hn, if_false, Bool.false_eq_true]
        exact ih _ hc hq
      | ann t a v =>
        have hn : (isName t && t == st.query) = false := by
          rw [hq]
          simp only [ownName] at h
          by_cases hi : isName t = true
          · simp only [hi, if_true] at h
            simp [hi]; simpa using h
          · simp [hi]
        simp only [hn, if_false, Bool.false_eq_true]
        exact ih _ hc hq
      | assign ts v => simp only [Stmt.defName?]; exact ih _ hc hq
      | strExpr s => simp only [Stmt.defName?]; exact ih _ hc hq
      | expr s => simp only [Stmt.defName?]; exact ih _ hc hq
      | other s => simp only [Stmt.defName?]; exact ih _ hc hq

theorem findInAst_single (K : String) (m : Module) : findInAst [K] m = .ok (findTop K m) := by
  unfold findInAst
  simp only [List.isEmpty_cons, Bool.false_eq_true, if_false, List.length_cons, List.length_nil]
  unfold whileLoop
  simp only [List.isEmpty_nil, if_true]
  obtain ⟨h1, h2⟩ := forLoop_single K m { query := K, cur := [], cursor := .stmts none m, child := none } rfl rfl
  cases hf : findTop K m with
  | some f => simp [h1 f hf]
  | none =>
    obtain ⟨st', e1, e2⟩ := h2 hf
    simp only [e1]
    unfold whileLoop
    simp [e2]

/-! ### `findTop` / `rwTop` algebra -/

theorem findTop_none_names (K : String) : ∀ (l : List Stmt), findTop K l = none → ∀ c ∈ l, (ownName c == some K) = false
  | [], _, c, hc => by cases hc
  | d :: rest, h, c, hc => by
    unfold findTop at h
    by_cases hd : (ownName d == some K) = true
    · simp [hd] at h
    · simp only [hd, if_false, Bool.false_eq_true] at h
      have hrest : findTop K rest = none := by
        cases d with
        | fn a name args body decos ret =>
          cases a
          · simp only at h
            cases hf : findArg K args.args 0 with
            | none => simpa [hf] using h
            | some ia => simp [hf] at h
          · simpa using h
        | _ => simpa using h
      rcases List.mem_cons.mp hc with rfl | hc'
      · simpa using hd
      · exact findTop_none_names K rest hrest c hc'

theorem findTop_append (K : String) : ∀ (pre l : List Stmt), findTop K pre = none → findTop K (pre ++ l) = findTop K l
  | [], l, _ => rfl
  | d :: rest, l, h => by
    unfold findTop at h
    by_cases hd : (ownName d == some K) = true
    · simp [hd] at h
    · simp only [hd, if_false, Bool.false_eq_true] at h
      simp only [List.cons_append, findTop, hd, if_false, Bool.false_eq_true]
      cases d with
      | fn a name args body decos ret =>
        cases a
        · simp only at h ⊢
          cases hf : findArg K args.args 0 with
          | none => simp only [hf] at h ⊢; exact findTop_append K rest l h
          | some ia => simp [hf] at h
        · simp only at h ⊢; exact findTop_append K rest l h
      | _ => simp only at h ⊢; exact findTop_append K rest l h

theorem findTop_split (K : String) (n : Stmt) : ∀ (l : List Stmt), findTop K l = some (.stmt n) →
    ∃ pre post, l = pre ++ n :: post ∧ findTop K pre = none ∧ (ownName n == some K) = true
  | [], h => by simp [findTop] at h
  | d :: rest, h => by
    unfold findTop at h
    by_cases hd : (ownName d == some K) = true
    · simp only [hd, if_true, Option.some.injEq, Found.stmt.injEq] at h
      subst h
      exact ⟨[], rest, rfl, rfl, hd⟩
    · simp only [hd, if_false, Bool.false_eq_true] at h
      have key : findTop K rest = some (.stmt n) ∧ findTop K [d] = none := by
        cases d with
        | fn a name args body decos ret =>
          cases a
          · simp only at h
            cases hf : findArg K args.args 0 with
            | none => simp only [hf] at h; exact ⟨h, by simp [findTop, hd, hf]⟩
            | some ia => simp [hf] at h
          · simp only at h; exact ⟨h, by simp [findTop, hd]⟩
        | _ => simp only at h; exact ⟨h, by simp [findTop, hd]⟩
      obtain ⟨pre, post, e1, e2, e3⟩ := findTop_split K n rest key.1
      refine ⟨d :: pre, post, by simp [e1], ?_, e3⟩
      have := findTop_append K [d] pre key.2
      simpa using this.trans e2

theorem findTop_hit (K : String) (c : Stmt) (rest : List Stmt) (h : (ownName c == some K) = true) :
    findTop K (c :: rest) = some (.stmt c) := by
  simp [findTop, h]

theorem rwTop_no_names (K : String) (e : Stmt) : ∀ (l : List Stmt), (∀ c ∈ l, (ownName c == some K) = false) → rwTop K e l = (l, false)
  | [], _ => rfl
  | d :: rest, h => by
    unfold rwTop
    have hd := h d (List.mem_cons_self ..)
    have hr := rwTop_no_names K e rest (fun c hc => h c (List.mem_cons_of_mem _ hc))
    simp [hd, hr]

theorem rwTop_append (K : String) (e : Stmt) : ∀ (pre l : List Stmt), (∀ c ∈ pre, (ownName c == some K) = false) →
    rwTop K e (pre ++ l) = (pre ++ (rwTop K e l).1, (rwTop K e l).2)
  | [], l, _ => rfl
  | d :: rest, l, h => by
    have hd := h d (List.mem_cons_self ..)
    have hr := rwTop_append K e rest l (fun c hc => h c (List.mem_cons_of_mem _ hc))
    simp only [List.cons_append, rwTop, hd, Bool.and_false, Bool.false_eq_true, if_false, hr]

theorem rwTop_idem (K : String) (e : Stmt) (hn : (ownName e == some K) = true) (hs : isSyncFn e = false) :
    ∀ (l : List Stmt), (rwTop K e l).2 = true → rwTop K e (rwTop K e l).1 = rwTop K e l
  | [], h => by simp [rwTop] at h
  | d :: rest, h => by
    by_cases hd : (!isSyncFn d && ownName d == some K) = true
    · simp only [rwTop, hd, if_true, hn, hs, Bool.not_false, Bool.and_self]
    · simp only [rwTop, hd, if_false, Bool.false_eq_true] at h ⊢
      rw [rwTop_idem K e hn hs rest h]

theorem rwTop_true_has_name (K : String) (e : Stmt) (hn : (ownName e == some K) = true) :
    ∀ (l : List Stmt), (rwTop K e l).2 = true → ∃ c ∈ (rwTop K e l).1, (ownName c == some K) = true
  | [], h => by simp [rwTop] at h
  | d :: rest, h => by
    by_cases hd : (!isSyncFn d && ownName d == some K) = true
    · simp only [rwTop, hd, if_true]
      exact ⟨e, List.mem_cons_self .., hn⟩
    · simp only [rwTop, hd, if_false, Bool.false_eq_true] at h ⊢
      obtain ⟨c, hc, hk⟩ := rwTop_true_has_name K e hn rest h
      exact ⟨c, List.mem_cons_of_mem _ hc, hk⟩

theorem findTop_ne_none_of_name (K : String) (l : List Stmt) (h : ∃ c ∈ l, (ownName c == some K) = true) : findTop K l ≠ none := by
  intro hf
  obtain ⟨c, hc, hk⟩ := h
  have := findTop_none_names K l hf c hc
  rw [this] at hk; cases hk

/-! ### statements about whole files -/

/-- **Frame** between the old and the new content of a file for a target path `p`: nothing changed, or one statement
    was appended, or exactly one node — whose `_location` is `p` — was replaced (everything else, at every nesting
    depth, is the same statement at the same position) -/
def Frame (p : List String) (m m' : Module) : Prop :=
  m' = m ∨ (∃ e, m' = m ++ [e]) ∨
  (∃ (ctx : Ctx) (old new : Stmt), m = ctx.plug old ∧ m' = ctx.plug new ∧ loc (ctx.parent none) old = some p)

def FileFrame (p : List String) : Option Module → Option Module → Prop
  | none, none => True
  | none, some m' => ∃ e, m' = [e]
  | some m, some m' => Frame p m m'
  | some _, none => False

theorem FileFrame.refl (p : List String) (f : Option Module) : FileFrame p f f := by
  cases f
  · trivial
  · exact Or.inl rfl

theorem isWanted_not_assign (k : Kind) (e : Stmt) (h : isWanted k e = true) : isAssign e = false := by
  cases e <;> cases k <;> simp_all [isWanted, isAssign]

theorem conform_frame' {IR : Type} (E : Emitters IR) (k : Kind) (p : List String) (ir : IR) (f f' : Option Module) (flag : Bool)
    (h : conform E k p ir f = .ok (f', flag)) : FileFrame p f f' := by
  cases f with
  | none =>
    simp only [conform] at h
    split at h
    · cases h
    · cases h; exact ⟨_, rfl⟩
  | some m =>
    simp only [conform] at h
    split at h
    · cases h
    · rename_i found hfound
      split at h
      · cases h
      · rename_i ft hft
        split at h
        · cases h; exact Or.inr (Or.inl ⟨_, rfl⟩)
        · rename_i orig
          split at h
          · cases h
          · split at h
            · cases h
            · rename_i hw
              split at h
              · cases h; exact Or.inl rfl
              · split at h
                · cases h
                · rename_i m' st hrw
                  have hw' : isWanted k (E.emit k ir ft (optName k p)) = true := by simpa using hw
                  obtain ⟨_, _, h3⟩ := rwList_frame p _ (isWanted_not_assign k _ hw') m none false m' st hrw
                  split at h
                  · rename_i hrep
                    cases h
                    rcases h3 rfl with ⟨hf, _⟩ | ⟨_, ctx, old, c1, c2, c3⟩
                    · rw [hf] at hrep; cases hrep
                    · exact Or.inr (Or.inr ⟨ctx, old, _, c1, c2, c3⟩)
                  · cases h; exact Or.inl rfl

/-- `_conform_filename` never deletes a file and never turns an existing file into a missing one -/
theorem conform_some {IR : Type} (E : Emitters IR) (k : Kind) (p : List String) (ir : IR) (f f' : Option Module) (flag : Bool)
    (h : conform E k p ir f = .ok (f', flag)) : ∃ m', f' = some m' := by
  have := conform_frame' E k p ir f f' flag h
  cases f with
  | none =>
    simp only [conform] at h
    split at h
    · cases h
    · cases h; exact ⟨_, rfl⟩
  | some m => cases f' <;> simp_all [FileFrame]

/-- the assumptions about the black-box emitters / parsers (properties C02 and C08), and about the interface
    equivalence `R` -/
structure Laws {IR : Type} (E : Emitters IR) (R : IR → IR → Prop) : Prop where
  refl : ∀ a, R a a
  trans : ∀ a b c, R a b → R b c → R a c
  /-- C02: parsing an emitted node gives back the interface -/
  roundTrip : ∀ k ir ft n ft' n', R (E.parse k (E.emit k ir ft n) ft' n') ir
  /-- C08: equivalent interfaces are emitted identically (one conversion round is a fixpoint) -/
  emitCongr : ∀ k ir ir' ft n, R ir ir' → E.emit k ir ft n = E.emit k ir' ft n
  /-- the emitted definition carries the requested name … -/
  emitName : ∀ k ir ft n, (E.emit k ir ft n).defName? = some n
  /-- … and is a `ClassDef` for the class kind, a (non-async) `FunctionDef` for the two function kinds -/
  emitKind : ∀ k ir ft n, isWanted k (E.emit k ir ft n) = true

theorem ownName_of_wanted (k : Kind) (e : Stmt) (n : String) (hw : isWanted k e = true) (hn : e.defName? = some n) :
    (ownName e == some n) = true := by
  cases e <;> cases k <;> simp_all [isWanted, ownName, Stmt.defName?]

theorem isSyncFn_of_wanted_cls (e : Stmt) (hw : isWanted .cls e = true) : isSyncFn e = false := by
  cases e <;> simp_all [isWanted, isSyncFn]

theorem isSyncFn_of_wanted_fn (k : Kind) (e : Stmt) (hk : k ≠ .cls) (hw : isWanted k e = true) : isSyncFn e = true := by
  cases e with
  | fn a _ _ _ _ _ => cases a <;> cases k <;> simp_all [isWanted, isSyncFn]
  | _ => cases k <;> simp_all [isWanted]

/-- `_conform_filename` for a top-level target, in terms of the two first-match functions -/
theorem conform_single {IR : Type} (E : Emitters IR) (k : Kind) (K : String) (ir : IR) (m : Module) :
    conform E k [K] ir (some m) =
      match optFunctionType k (findTop K m) with
      | .error e => .error e
      | .ok ft =>
        match findTop K m with
        | none => .ok (some (m ++ [E.emit k ir ft K]), true)
        | some orig =>
          if !isWanted k (E.emit k ir ft K) then .error (.assertion "Expected type_wanted")
          else if cmpFound orig (E.emit k ir ft K) then .ok (some m, false)
          else if (rwTop K (E.emit k ir ft K) m).2 then .ok (some (rwTop K (E.emit k ir ft K) m).1, true)
          else .ok (some m, false) := by
  simp only [conform, findInAst_single, rwList_top_single, optName, List.getLast?_singleton, List.isEmpty_cons,
    Bool.false_eq_true, if_false]
  cases optFunctionType k (findTop K m) with
  | error e => rfl
  | ok ft =>
    simp only
    cases findTop K m with
    | none => rfl
    | some orig => rfl

variable {IR : Type}

/-- the named target of `file` holds an interface equivalent to `ir` -/
def Holds (E : Emitters IR) (R : IR → IR → Prop) (k : Kind) (p : List String) (file : Option Module) (ir : IR) : Prop :=
  ∃ ir', targetIR E k p file = .ok ir' ∧ R ir' ir

theorem targetIR_single (E : Emitters IR) (k : Kind) (K : String) (m : Module) :
    targetIR E k [K] (some m) =
      match findTop K m with
      | none => .error (.attributeError "target not found")
      | some f =>
        match optFunctionType k (some f) with
        | .error e => .error e
        | .ok ft =>
          match f with
          | .stmt s => if isWanted k s then .ok (E.parse k s ft K) else .error (.assertion "unexpected node type")
          | _ => .error (.assertion "unexpected node type") := by
  simp only [targetIR, findInAst_single, optName, List.getLast?_singleton]
  cases findTop K m <;> rfl

theorem cmpFound_eq (orig : Found) (e : Stmt) (h : cmpFound orig e = true) : orig = .stmt e := by
  cases orig with
  | stmt s =>
    simp only [cmpFound] at h
    rw [stmt_beq_eq s e h]
  | _ => simp [cmpFound] at h

theorem cmpFound_refl (e : Stmt) : cmpFound (.stmt e) e = true := by
  simp only [cmpFound]
  exact stmt_beq_refl e

theorem optFunctionType_wanted (k : Kind) (e : Stmt) (hw : isWanted k e = true) : ∃ ft, optFunctionType k (some (.stmt e)) = .ok ft := by
  cases k with
  | cls => exact ⟨none, rfl⟩
  | argparse =>
    cases e with
    | fn a n args b d r =>
      cases a
      · simp only [optFunctionType, functionType]
        cases args.args with
        | nil => exact ⟨_, rfl⟩
        | cons x xs => by_cases hx : (x.name == "self" || x.name == "cls") = true <;> simp [hx]
      · simp [isWanted] at hw
    | _ => simp [isWanted] at hw
  | function =>
    cases e with
    | fn a n args b d r =>
      cases a
      · simp only [optFunctionType, functionType]
        cases args.args with
        | nil => exact ⟨_, rfl⟩
        | cons x xs => by_cases hx : (x.name == "self" || x.name == "cls") = true <;> simp [hx]
      · simp [isWanted] at hw
    | _ => simp [isWanted] at hw

/-- a file whose top-level target `K` is the wanted node `e` holds `parse e` -/
theorem holds_of_found (E : Emitters IR) (R : IR → IR → Prop) (k : Kind) (K : String) (m : Module) (e : Stmt) (ir : IR)
    (hf : findTop K m = some (.stmt e)) (hw : isWanted k e = true) (hr : ∀ ft, R (E.parse k e ft K) ir) :
    Holds E R k [K] (some m) ir := by
  obtain ⟨ft, hft⟩ := optFunctionType_wanted k e hw
  refine ⟨E.parse k e ft K, ?_, hr ft⟩
  simp [targetIR_single, hf, hft, hw]

/-- **class target, top-level path:** after `_conform_filename` the target is (a node equal to) the emission -/
theorem conform_single_cls (E : Emitters IR) (R : IR → IR → Prop) (L : Laws E R) (K : String) (ir : IR) (m : Module) (n : Stmt)
    (hf : findTop K m = some (.stmt n)) (hn : isWanted .cls n = true) :
    ∃ m' flag, conform E .cls [K] ir (some m) = .ok (some m', flag) ∧ findTop K m' = some (.stmt (E.emit .cls ir none K)) := by
  have hw := L.emitKind .cls ir none K
  have hname := ownName_of_wanted .cls _ K hw (L.emitName .cls ir none K)
  simp only [conform_single, hf, optFunctionType, hw, Bool.not_true, Bool.false_eq_true, if_false]
  by_cases hc : cmpFound (.stmt n) (E.emit .cls ir none K) = true
  · simp only [hc, if_true]
    have := cmpFound_eq _ _ hc
    simp only [Found.stmt.injEq] at this
    exact ⟨m, false, rfl, by rw [hf, this]⟩
  · simp only [hc, if_false, Bool.false_eq_true]
    obtain ⟨pre, post, e1, e2, e3⟩ := findTop_split K n m hf
    have hpre := findTop_none_names K pre e2
    have hns : isSyncFn n = false := isSyncFn_of_wanted_cls n hn
    have hrw : rwTop K (E.emit .cls ir none K) m = (pre ++ E.emit .cls ir none K :: post, true) := by
      rw [e1, rwTop_append K _ pre _ hpre]
      simp [rwTop, hns, e3]
    simp only [hrw, if_true]
    refine ⟨_, true, rfl, ?_⟩
    rw [findTop_append K pre _ e2, findTop_hit K _ post hname]

/-- **target not in the file (empty file included), top-level path:** the emission is appended and is then found -/
theorem conform_single_append (E : Emitters IR) (R : IR → IR → Prop) (L : Laws E R) (k : Kind) (K : String) (ir : IR) (m : Module)
    (hf : findTop K m = none) :
    conform E k [K] ir (some m) = .ok (some (m ++ [E.emit k ir none K]), true) ∧
      findTop K (m ++ [E.emit k ir none K]) = some (.stmt (E.emit k ir none K)) := by
  have hw := L.emitKind k ir none K
  have hname := ownName_of_wanted k _ K hw (L.emitName k ir none K)
  have hft : optFunctionType k (none : Option Found) = .ok none := by cases k <;> rfl
  refine ⟨by simp [conform_single, hf, hft], ?_⟩
  rw [findTop_append K m _ hf, findTop_hit K _ [] hname]

/-- **function kinds, top-level path:** whatever `_conform_filename` does, the found `FunctionDef` stays the found node -/
theorem conform_single_fn_keeps (E : Emitters IR) (k : Kind) (K : String) (ir : IR) (m : Module) (n : Stmt)
    (hf : findTop K m = some (.stmt n)) (hn : isSyncFn n = true) (f' : Option Module) (flag : Bool)
    (h : conform E k [K] ir (some m) = .ok (f', flag)) : ∃ m', f' = some m' ∧ findTop K m' = some (.stmt n) := by
  simp only [conform_single, hf] at h
  split at h
  · cases h
  · split at h
    · cases h
    · split at h
      · cases h; exact ⟨m, rfl, hf⟩
      · split at h
        · cases h
          obtain ⟨pre, post, e1, e2, e3⟩ := findTop_split K n m hf
          have hpre := findTop_none_names K pre e2
          refine ⟨_, rfl, ?_⟩
          rw [e1, rwTop_append K _ pre _ hpre]
          simp only [rwTop, hn, Bool.not_true, Bool.false_and, Bool.false_eq_true, if_false]
          rw [findTop_append K pre _ e2, findTop_hit K _ _ e3]
        · cases h; exact ⟨m, rfl, hf⟩


theorem conform_flag_false (E : Emitters IR) (k : Kind) (p : List String) (ir : IR) (f f' : Option Module)
    (h : conform E k p ir f = .ok (f', false)) : f' = f := by
  cases f with
  | none =>
    simp only [conform] at h
    split at h <;> cases h
  | some m =>
    simp only [conform] at h
    repeat' split at h
    all_goals (cases h <;> rfl)

theorem conform_congr (E : Emitters IR) (R : IR → IR → Prop) (L : Laws E R) (k : Kind) (p : List String) (ir ir' : IR) (m : Module)
    (h : R ir ir') : conform E k p ir (some m) = conform E k p ir' (some m) := by
  have hc : ∀ ft n, E.emit k ir ft n = E.emit k ir' ft n := fun ft n => L.emitCongr k ir ir' ft n h
  simp only [conform, hc]

/-- **idempotence of `_conform_filename`, top-level path** (same interface on both runs) -/
theorem conform_single_idem (E : Emitters IR) (R : IR → IR → Prop) (L : Laws E R) (k : Kind) (K : String) (ir : IR) (m : Module)
    (f' : Option Module) (flag : Bool) (h : conform E k [K] ir (some m) = .ok (f', flag))
    (hc : k = .cls ∨ f' = some m ∨ findTop K m = none) : ∃ flag', conform E k [K] ir f' = .ok (f', flag') := by
  -- (A) the file is as it was: the second run is the same computation
  have caseA : f' = some m → ∃ flag', conform E k [K] ir f' = .ok (f', flag') := by
    intro hfl; subst hfl
    exact ⟨flag, h⟩
  -- (B) the target was appended
  have caseB : findTop K m = none → ∃ flag', conform E k [K] ir f' = .ok (f', flag') := by
    intro hnone
    obtain ⟨h1, h2⟩ := conform_single_append E R L k K ir m hnone
    rw [h1] at h; cases h
    have hw := L.emitKind k ir none K
    obtain ⟨ft, hft⟩ := optFunctionType_wanted k _ hw
    have hw' := L.emitKind k ir ft K
    simp only [conform_single, h2, hft, hw', Bool.not_true, Bool.false_eq_true, if_false]
    by_cases hcmp : cmpFound (.stmt (E.emit k ir none K)) (E.emit k ir ft K) = true
    · simp [hcmp]
    · simp only [hcmp, if_false, Bool.false_eq_true]
      by_cases hk : k = .cls
      · subst hk
        simp only [optFunctionType, Except.ok.injEq] at hft
        subst hft
        exact absurd (cmpFound_refl _) hcmp
      · have hs := isSyncFn_of_wanted_fn k _ hk hw
        have : rwTop K (E.emit k ir ft K) (m ++ [E.emit k ir none K]) = (m ++ [E.emit k ir none K], false) := by
          rw [rwTop_append K _ m _ (findTop_none_names K m hnone)]
          simp [rwTop, hs]
        simp [this]
  rcases hc with hk | hfl | hnone
  · subst hk
    cases hfind : findTop K m with
    | none => exact caseB hfind
    | some orig =>
      cases flag with
      | false => exact caseA (conform_flag_false E .cls [K] ir _ _ h)
      | true =>
        have hw := L.emitKind .cls ir none K
        have hname := ownName_of_wanted .cls _ K hw (L.emitName .cls ir none K)
        have hns := isSyncFn_of_wanted_cls _ hw
        simp only [conform_single, hfind, optFunctionType, hw, Bool.not_true, Bool.false_eq_true, if_false] at h
        split at h
        · cases h
        · split at h
          · rename_i hrw
            cases h
            -- second run on the rewritten module
            have hne := findTop_ne_none_of_name K _ (rwTop_true_has_name K _ hname m hrw)
            cases hfind1 : findTop K (rwTop K (E.emit .cls ir none K) m).1 with
            | none => exact absurd hfind1 hne
            | some orig1 =>
              simp only [conform_single, hfind1, optFunctionType, hw, Bool.not_true, Bool.false_eq_true, if_false]
              by_cases hcmp : cmpFound orig1 (E.emit .cls ir none K) = true
              · simp [hcmp]
              · simp only [hcmp, if_false, Bool.false_eq_true]
                rw [rwTop_idem K _ hname hns m hrw]
                simp [hrw]
          · cases h
  · exact caseA hfl
  · exact caseB hnone

/-! ### the loop of `ground_truth` -/

theorem sync_ok (E : Emitters IR) (t : Kind) (tp : List String) (paths : Kind → List String) (s : Files)
    (h : (sync E t tp paths s).err = none) :
    ∃ ir fa ba fc bc ff bf,
      targetIR E t tp (s.get t) = .ok ir ∧
      conform E .argparse (paths .argparse) ir s.argparse = .ok (fa, ba) ∧
      conform E .cls (paths .cls) ir s.cls = .ok (fc, bc) ∧
      conform E .function (paths .function) ir s.function = .ok (ff, bf) ∧
      (sync E t tp paths s).files = { argparse := fa, cls := fc, function := ff } ∧
      (sync E t tp paths s).flags = [(.argparse, ba), (.cls, bc), (.function, bf)] := by
  unfold sync at h
  cases hir : targetIR E t tp (s.get t) with
  | error e => simp [hir] at h
  | ok ir =>
    simp only [hir] at h
    simp only [kinds, syncLoop, Files.get, Files.set] at h
    cases ha : conform E .argparse (paths .argparse) ir s.argparse with
    | error e => simp [ha] at h
    | ok ra =>
      obtain ⟨fa, ba⟩ := ra
      simp only [ha] at h
      cases hc : conform E .cls (paths .cls) ir s.cls with
      | error e => simp [hc] at h
      | ok rc =>
        obtain ⟨fc, bc⟩ := rc
        simp only [hc] at h
        cases hf : conform E .function (paths .function) ir s.function with
        | error e => simp [hf] at h
        | ok rf =>
          obtain ⟨ff, bf⟩ := rf
          refine ⟨ir, fa, ba, fc, bc, ff, bf, rfl, ha, hc, hf, ?_, ?_⟩
          · simp only [sync, hir]
            simp [kinds, syncLoop, Files.get, Files.set, ha, hc, hf]
          · simp only [sync, hir]
            simp [kinds, syncLoop, Files.get, Files.set, ha, hc, hf]

theorem sync_of_ok (E : Emitters IR) (t : Kind) (tp : List String) (paths : Kind → List String) (s : Files)
    (ir : IR) (fa fc ff : Option Module) (ba bc bf : Bool)
    (h0 : targetIR E t tp (s.get t) = .ok ir)
    (h1 : conform E .argparse (paths .argparse) ir s.argparse = .ok (fa, ba))
    (h2 : conform E .cls (paths .cls) ir s.cls = .ok (fc, bc))
    (h3 : conform E .function (paths .function) ir s.function = .ok (ff, bf)) :
    sync E t tp paths s = { files := { argparse := fa, cls := fc, function := ff },
                            flags := [(.argparse, ba), (.cls, bc), (.function, bf)], err := none } := by
  simp only [sync, h0]
  simp [kinds, syncLoop, Files.get, Files.set, h1, h2, h3]

/-- the files of a run, whatever happens: each one is the old file or the result of `_conform_filename` on it -/
theorem sync_files (E : Emitters IR) (t : Kind) (tp : List String) (paths : Kind → List String) (s : Files) (k : Kind) :
    (sync E t tp paths s).files.get k = s.get k ∨
      ∃ ir flag, conform E k (paths k) ir (s.get k) = .ok ((sync E t tp paths s).files.get k, flag) := by
  unfold sync
  cases hir : targetIR E t tp (s.get t) with
  | error e => exact Or.inl rfl
  | ok ir =>
    simp only [kinds, syncLoop, Files.get, Files.set]
    cases ha : conform E .argparse (paths .argparse) ir s.argparse with
    | error e => exact Or.inl rfl
    | ok ra =>
      obtain ⟨fa, ba⟩ := ra
      simp only
      cases hc : conform E .cls (paths .cls) ir s.cls with
      | error e =>
        cases k
        · exact Or.inr ⟨ir, ba, ha⟩
        · exact Or.inl rfl
        · exact Or.inl rfl
      | ok rc =>
        obtain ⟨fc, bc⟩ := rc
        simp only
        cases hf : conform E .function (paths .function) ir s.function with
        | error e =>
          cases k
          · exact Or.inr ⟨ir, ba, ha⟩
          · exact Or.inr ⟨ir, bc, hc⟩
          · exact Or.inl rfl
        | ok rf =>
          obtain ⟨ff, bf⟩ := rf
          cases k
          · exact Or.inr ⟨ir, ba, ha⟩
          · exact Or.inr ⟨ir, bc, hc⟩
          · exact Or.inr ⟨ir, bf, hf⟩

/-! ### Boolean checks for the concrete witnesses (`Stmt` and `Except` have no `DecidableEq`) -/
def irIs (r : Except Err (List String)) (l : List String) : Bool :=
  match r with
  | .ok x => x == l
  | .error _ => false

theorem irIs_eq {r : Except Err (List String)} {l : List String} (h : irIs r l = true) : r = .ok l := by
  cases r with
  | ok x => simp only [irIs, beq_iff_eq] at h; rw [h]
  | error e => simp [irIs] at h

def fileIs (f : Option Module) (m : Module) : Bool :=
  match f with
  | some x => beqList x m
  | none => false

theorem fileIs_eq {f : Option Module} {m : Module} (h : fileIs f m = true) : f = some m := by
  cases f with
  | some x => simp only [fileIs] at h; rw [beqList_eq x m h]
  | none => simp [fileIs] at h

theorem isNone_eq {α : Type} {o : Option α} (h : o.isNone = true) : o = none := by
  cases o <;> simp_all

/-! ### several kinds in one file -/

theorem Files.get_set (f : Files) (a b : Kind) (m : Option Module) :
    (f.set a m).get b = if a = b then m else f.get b := by
  cases a <;> cases b <;> simp [Files.get, Files.set]

/-- a file's history through one run when several kinds may name it: a chain of `_conform_filename` frames, one per kind
    that was processed on this file, in processing order -/
inductive FrameChain : List (List String) → Option Module → Option Module → Prop
  | nil (f : Option Module) : FrameChain [] f f
  | cons {p : List String} {ps : List (List String)} {f g h : Option Module} :
      FileFrame p f g → FrameChain ps g h → FrameChain (p :: ps) f h

theorem syncLoopAt_chain (E : Emitters IR) (paths : Kind → List String) (slot : Kind → Kind) (ir : IR) (k' : Kind) :
    ∀ (ks : List Kind) (r : Run), ∃ ps, FrameChain ps (r.files.get k') ((syncLoopAt E paths slot ir ks r).files.get k') ∧
      ∀ p ∈ ps, ∃ k ∈ ks, slot k = k' ∧ p = paths k
  | [], r => ⟨[], .nil _, by simp⟩
  | k :: ks, r => by
    simp only [syncLoopAt]
    cases hc : conform E k (paths k) ir (r.files.get (slot k)) with
    | error e => exact ⟨[], .nil _, by simp⟩
    | ok res =>
      obtain ⟨file', flag⟩ := res
      simp only
      obtain ⟨ps, c1, c2⟩ := syncLoopAt_chain E paths slot ir k' ks
        { files := r.files.set (slot k) file', flags := r.flags ++ [(k, flag)], err := none }
      simp only [Files.get_set] at c1
      by_cases hs : slot k = k'
      · subst hs
        simp only [if_true] at c1
        refine ⟨paths k :: ps, .cons ?_ c1, ?_⟩
        · exact conform_frame' E k (paths k) ir _ _ flag hc
        · intro p hp
          rcases List.mem_cons.mp hp with rfl | hp
          · exact ⟨k, List.mem_cons_self .., rfl, rfl⟩
          · obtain ⟨k2, h1, h2, h3⟩ := c2 p hp
            exact ⟨k2, List.mem_cons_of_mem _ h1, h2, h3⟩
      · simp only [hs, if_false] at c1
        refine ⟨ps, c1, ?_⟩
        intro p hp
        obtain ⟨k2, h1, h2, h3⟩ := c2 p hp
        exact ⟨k2, List.mem_cons_of_mem _ h1, h2, h3⟩

theorem syncLoopAt_id (E : Emitters IR) (paths : Kind → List String) (ir : IR) :
    ∀ (ks : List Kind) (r : Run), syncLoopAt E paths id ir ks r = syncLoop E paths ir ks r
  | [], r => rfl
  | k :: ks, r => by
    simp only [syncLoopAt, syncLoop, id]
    cases conform E k (paths k) ir (r.files.get k) with
    | error e => rfl
    | ok res => exact syncLoopAt_id E paths ir ks _
end Sync
