import CddVerif.Proofs.IfaceFn
import CddVerif.Proofs.IfaceArgparse
/-!
# C08 / C03 on the interface model — helper lemmas

1. **Congruence.**  The C02 domain `inD02`, the statement's normalisation `norm` and the docstring-layer hypothesis
   `docHyp` look at an interface only through its *view* (names in order, types, typed defaults, normalised
   descriptions) plus a few named extras: `name.isSome`, the receiver kind `type`, the docstring layer's answer for the
   interface's docstring, and (argparse) the raw descriptions.  So an interface with the same view and the same extras
   is in the same region.
2. **Closed form of a hop.**  On the C02 domain the IR that `emit → render/re-read → parse` returns is computed
   exactly (not only its view): names, types and defaults are the input's; the header, the receiver kind (class) and
   the raw descriptions are what the docstring layer answered (descriptions tidied).  These are strengthened copies of
   `class_roundtrip` / `function_roundtrip` / `argparse_roundtrip`.
-/
namespace Iface

/-! ## the view, entry by entry -/

def viewOf (kv : String × Param) : PV := kv.2.view kv.1

theorem view_params {ir ir' : IR} (h : ir.view = ir'.view) : ir.params.map viewOf = ir'.params.map viewOf :=
  congrArg Prod.fst h

theorem view_returns {ir ir' : IR} (h : ir.view = ir'.view) :
    ir.returns.map (Param.view "return_type") = ir'.returns.map (Param.view "return_type") :=
  congrArg Prod.snd h

theorem pview_eq {n m : String} {p q : Param} (h : p.view n = q.view m) :
    n = m ∧ p.typ = q.typ ∧ p.default = q.default ∧ p.doc.bind normDoc = q.doc.bind normDoc := by
  simpa only [Param.view, PV.mk.injEq] using h

theorem viewOf_eq {a b : String × Param} (h : viewOf a = viewOf b) :
    a.1 = b.1 ∧ a.2.typ = b.2.typ ∧ a.2.default = b.2.default ∧ a.2.doc.bind normDoc = b.2.doc.bind normDoc :=
  pview_eq h

/-- a per-entry test that respects the view gives the same answer on view-equal lists -/
theorem all_of_views (Q : String × Param → Bool) (hQ : ∀ a b, viewOf a = viewOf b → Q a = Q b) :
    ∀ {l l' : Dict}, l.map viewOf = l'.map viewOf → l.all Q = l'.all Q
  | [], [], _ => rfl
  | [], _ :: _, h => by simp at h
  | _ :: _, [], h => by simp at h
  | a :: l, b :: l', h => by
    simp only [List.map_cons, List.cons.injEq] at h
    simp only [List.all_cons, hQ a b h.1, all_of_views Q hQ h.2]

theorem forall2_of_views {α : Type} (F : α → String × Param → Bool) (hF : ∀ x a b, viewOf a = viewOf b → F x a = F x b) :
    ∀ (xs : List α) {l l' : Dict}, l.map viewOf = l'.map viewOf → forall2 F xs l = forall2 F xs l'
  | [], [], [], _ => rfl
  | _ :: _, [], [], _ => rfl
  | _, [], _ :: _, h => by simp at h
  | _, _ :: _, [], h => by simp at h
  | [], _ :: _, _ :: _, _ => rfl
  | x :: xs, a :: l, b :: l', h => by
    simp only [List.map_cons, List.cons.injEq] at h
    simp only [forall2, hF x a b h.1, forall2_of_views F hF xs h.2]

theorem dkeys_of_views {l l' : Dict} (h : l.map viewOf = l'.map viewOf) : dkeys l = dkeys l' := by
  have : ∀ d : Dict, dkeys d = (d.map viewOf).map PV.name := by
    intro d; simp [dkeys, viewOf, Param.view, Function.comp_def]
  rw [this, this, h]

theorem defaultsSuffix_of_views : ∀ {l l' : Dict}, l.map viewOf = l'.map viewOf → defaultsSuffix l = defaultsSuffix l'
  | [], [], _ => rfl
  | [], _ :: _, h => by simp at h
  | _ :: _, [], h => by simp at h
  | a :: l, b :: l', h => by
    simp only [List.map_cons, List.cons.injEq] at h
    have h3 := (viewOf_eq h.1).2.2.1
    have hall := all_of_views (fun kv => kv.2.default.isSome) (fun x y hxy => by simp only [(viewOf_eq hxy).2.2.1]) h.2
    simp only [defaultsSuffix, h3, hall, defaultsSuffix_of_views h.2]

theorem namesOk_of_views {ir ir' : IR} (h : ir.view = ir'.view) : namesOk ir = namesOk ir' := by
  unfold namesOk; rw [dkeys_of_views (view_params h)]

/-! ## `inD02` looks at the view, `name.isSome` and the receiver kind only -/

theorem okParam_of_view (fn : Bool) (a b : String × Param) (h : viewOf a = viewOf b) : okParam fn a = okParam fn b := by
  obtain ⟨h1, h2, h3, _⟩ := viewOf_eq h
  unfold okParam; rw [h1, h2, h3]

theorem okArgparseParam_of_view (a b : String × Param) (h : viewOf a = viewOf b) : okArgparseParam a = okArgparseParam b := by
  obtain ⟨h1, h2, h3, _⟩ := viewOf_eq h
  unfold okArgparseParam; rw [h1, h2, h3]

theorem okClassReturn_of_view {r r' : Param} (h : r.view "return_type" = r'.view "return_type") : okClassReturn r = okClassReturn r' := by
  obtain ⟨_, h2, h3, _⟩ := pview_eq h
  unfold okClassReturn; rw [h2, h3]

theorem okFnReturn_of_view (env : Env) (cfg : Cfg) {r r' : Param} (h : r.view "return_type" = r'.view "return_type") :
    okFnReturn env cfg r = okFnReturn env cfg r' := by
  obtain ⟨_, h2, h3, _⟩ := pview_eq h
  unfold okFnReturn; rw [h2, h3]

theorem okArgparseReturn_of_view (env : Env) {r r' : Param} (h : r.view "return_type" = r'.view "return_type") :
    okArgparseReturn env r = okArgparseReturn env r' := by
  obtain ⟨_, h2, h3, _⟩ := pview_eq h
  unfold okArgparseReturn; rw [h2, h3]

/-- a test of the return entry that respects the view -/
theorem returns_of_views (Q : Param → Bool) (hQ : ∀ r r' : Param, r.view "return_type" = r'.view "return_type" → Q r = Q r')
    {x y : Option Param} :
    x.map (Param.view "return_type") = y.map (Param.view "return_type") →
    (match x with | some r => Q r | none => true) = (match y with | some r => Q r | none => true) := by
  intro h
  cases x with
  | none => cases y with
    | none => rfl
    | some r' => simp at h
  | some r => cases y with
    | none => simp at h
    | some r' => simp only [Option.map_some, Option.some.injEq] at h; exact hQ r r' h

theorem inD02Class_congr {ir ir' : IR} (hv : ir.view = ir'.view) (hn : ir.name.isSome = ir'.name.isSome) :
    inD02Class ir = inD02Class ir' := by
  have hp := view_params hv
  have hr := returns_of_views okClassReturn (fun _ _ h => okClassReturn_of_view h) (view_returns hv)
  unfold inD02Class
  rw [hn, namesOk_of_views hv, defaultsSuffix_of_views hp, all_of_views _ (okParam_of_view false) hp]
  exact congrArg _ hr

theorem inD02Function_congr (env : Env) (cfg : Cfg) {ir ir' : IR} (hv : ir.view = ir'.view)
    (hn : ir.name.isSome = ir'.name.isSome) (ht : okFnType ir = okFnType ir') :
    inD02Function env cfg ir = inD02Function env cfg ir' := by
  have hp := view_params hv
  have hr := returns_of_views (okFnReturn env cfg) (fun _ _ h => okFnReturn_of_view env cfg h) (view_returns hv)
  unfold okFnType at ht
  unfold inD02Function
  rw [hn, ht, namesOk_of_views hv, defaultsSuffix_of_views hp, all_of_views _ (okParam_of_view true) hp]
  exact congrArg _ hr

theorem inD02Argparse_congr (env : Env) {ir ir' : IR} (hv : ir.view = ir'.view) :
    inD02Argparse env ir = inD02Argparse env ir' := by
  have hp := view_params hv
  have hr := returns_of_views (okArgparseReturn env) (fun _ _ h => okArgparseReturn_of_view env h) (view_returns hv)
  unfold inD02Argparse
  rw [namesOk_of_views hv, defaultsSuffix_of_views hp, all_of_views _ okArgparseParam_of_view hp]
  exact congrArg _ hr

/-- **`inD02` is a function of the view, of `name.isSome` and of "the receiver kind is static / self / cls".** -/
theorem inD02_congr (env : Env) (f : Format) (cfg : Cfg) {ir ir' : IR} (hv : ir.view = ir'.view)
    (hn : ir.name.isSome = ir'.name.isSome) (ht : okFnType ir = okFnType ir') :
    inD02 env f cfg ir = inD02 env f cfg ir' := by
  cases f with
  | class_ => exact inD02Class_congr hv hn
  | pydantic => exact inD02Class_congr hv hn
  | function => exact inD02Function_congr env cfg hv hn ht
  | argparse => exact inD02Argparse_congr env hv

/-! ## the statement's normalisation `norm f`, on views -/

def normPV (pv : PV) : PV := if pv.default.isNone then { pv with default := some (.val (.str NoneStr)) } else pv

theorem viewOf_normEntry (kv : String × Param) : viewOf (normEntry kv) = normPV (viewOf kv) := by
  unfold normEntry normPV viewOf Param.view
  by_cases h : kv.2.default.isNone = true <;> simp [h]

/-- `norm function` on the view: a parameter without default is shown as `None` -/
theorem normFn_view (ir : IR) : (normFn ir).view = (ir.view.1.map normPV, ir.view.2) := by
  have : ∀ l : Dict, (l.map normEntry).map viewOf = (l.map viewOf).map normPV := by
    intro l; simp only [List.map_map]; apply List.map_congr_left; intro kv _; exact viewOf_normEntry kv
  exact Prod.ext (this ir.params) rfl

/-- `norm argparse` on the view: the return entry survives only with a default -/
theorem normArgparse_view (ir : IR) :
    (normArgparse ir).view = (ir.view.1, ir.view.2.bind (fun pv => if pv.default.isSome then some pv else none)) := by
  unfold normArgparse IR.view
  cases hr : ir.returns with
  | none => rfl
  | some r => by_cases h : r.default.isSome = true <;> simp [h, Param.view]

/-! ## `docHyp` looks at the view and at the docstring layer's answer (argparse: also at the raw descriptions) -/

theorem dhas_eq_keys (d : Dict) (k : String) : dhas d k = (dkeys d).any (· == k) := by
  simp [dhas, dkeys, List.any_map, Function.comp_def]

theorem dsetMap_views (k : String) (r r' : Param) (hr : r.view k = r'.view k) :
    ∀ {d d' : Dict}, d.map viewOf = d'.map viewOf →
      (d.map (fun kv => if kv.1 == k then (k, r) else kv)).map viewOf =
        (d'.map (fun kv => if kv.1 == k then (k, r') else kv)).map viewOf
  | [], [], _ => rfl
  | [], _ :: _, h => by simp at h
  | _ :: _, [], h => by simp at h
  | a :: d, b :: d', h => by
    simp only [List.map_cons, List.cons.injEq] at h
    have h1 := (viewOf_eq h.1).1
    simp only [List.map_cons, dsetMap_views k r r' hr h.2, List.cons.injEq, and_true]
    rw [h1]
    by_cases hk : (b.1 == k) = true
    · simp only [hk, ↓reduceIte]; exact hr
    · simp only [hk]; exact h.1

theorem dset_views (k : String) {r r' : Param} (hr : r.view k = r'.view k) {d d' : Dict} (h : d.map viewOf = d'.map viewOf) :
    (dset d k r).map viewOf = (dset d' k r').map viewOf := by
  unfold dset
  rw [dhas_eq_keys, dhas_eq_keys, dkeys_of_views h]
  by_cases hk : (dkeys d').any (· == k) = true
  · simp only [hk, ↓reduceIte]; exact dsetMap_views k r r' hr h
  · simp only [hk, Bool.false_eq_true, ↓reduceIte, List.map_append, h, List.map_cons, List.map_nil]
    congr 2

theorem mergedParams_views {ir ir' : IR} (hv : ir.view = ir'.view) :
    (mergedParams ir).map viewOf = (mergedParams ir').map viewOf := by
  have hp := view_params hv
  have hr := view_returns hv
  unfold mergedParams
  cases hx : ir.returns with
  | none => cases hy : ir'.returns with
    | none => exact hp
    | some r' => simp [hx, hy] at hr
  | some r => cases hy : ir'.returns with
    | none => simp [hx, hy] at hr
    | some r' =>
      simp only [hx, hy, Option.map_some, Option.some.injEq] at hr
      exact dset_views "return_type" hr hp

theorem returns_isSome_of_views {ir ir' : IR} (hv : ir.view = ir'.view) : ir.returns.isSome = ir'.returns.isSome := by
  have := congrArg Option.isSome (view_returns hv)
  simpa using this

theorem clsEntryOK_of_view (env : Env) (kv0 a b : String × Param) (h : viewOf a = viewOf b) :
    clsEntryOK env kv0 a = clsEntryOK env kv0 b := by
  obtain ⟨h1, _, h3, h4⟩ := viewOf_eq h
  unfold clsEntryOK clsDescOK clsDefaultOK
  rw [h1, h3, h4]

/-- **class / pydantic:** `docHyp` is a function of the view and of the layer's answer for the class docstring -/
theorem classHyp_congr (env : Env) (cfg : Cfg) {ir ir' : IR} (hv : ir.view = ir'.view)
    (hd : clsDocIR0 env cfg ir = clsDocIR0 env cfg ir') : classHyp env cfg ir = classHyp env cfg ir' := by
  unfold classHyp
  simp only [hd, forall2_of_views (clsEntryOK env) (clsEntryOK_of_view env) _ (mergedParams_views hv), returns_isSome_of_views hv]

theorem fnEntryOK_of_view (env : Env) (cfg : Cfg) (kv0 a b : String × Param) (h : viewOf a = viewOf b) :
    fnEntryOK env cfg kv0 a = fnEntryOK env cfg kv0 b := by
  obtain ⟨h1, h2, h3, h4⟩ := viewOf_eq h
  unfold fnEntryOK fnDescOK
  rw [h1, h2, h3, h4]

theorem fnReturnOK_of_views (env : Env) (cfg : Cfg) (r0? : Option Param) {x y : Option Param} :
    x.map (Param.view "return_type") = y.map (Param.view "return_type") → fnReturnOK env cfg r0? x = fnReturnOK env cfg r0? y := by
  intro h
  cases x with
  | none => cases y with
    | none => rfl
    | some r' => simp at h
  | some r => cases y with
    | none => simp at h
    | some r' =>
      simp only [Option.map_some, Option.some.injEq] at h
      obtain ⟨_, h2, h3, h4⟩ := pview_eq h
      cases r0? with
      | none => rfl
      | some r0 => simp only [fnReturnOK, fnDescOK, h2, h3, h4]

/-- **function:** `docHyp` is a function of the view and of the layer's answer for the function docstring -/
theorem functionHyp_congr (env : Env) (cfg : Cfg) {ir ir' : IR} (hv : ir.view = ir'.view)
    (hd : fnDocIR0 env cfg ir = fnDocIR0 env cfg ir') : functionHyp env cfg ir = functionHyp env cfg ir' := by
  unfold functionHyp
  simp only [hd, forall2_of_views (fnEntryOK env cfg) (fnEntryOK_of_view env cfg) _ (view_params hv),
    fnReturnOK_of_views env cfg _ (view_returns hv)]

/-- the docstring text heading the argparse function, as the parser receives it -/
def apRaw (env : Env) (cfg : Cfg) (ir : IR) : String := setValueStr (env.docEmit (argparseDocCfg cfg) (argparseDocIR ir))

theorem argparseReturnHyp_congr (env : Env) (cfg : Cfg) {ir ir' : IR} (hv : ir.view = ir'.view)
    (hraw : apRaw env cfg ir = apRaw env cfg ir') : argparseReturnHyp env cfg ir = argparseReturnHyp env cfg ir' := by
  have hr := view_returns hv
  unfold apRaw at hraw
  unfold argparseReturnHyp
  cases hx : ir.returns with
  | none => cases hy : ir'.returns with
    | none => rfl
    | some r' => simp [hx, hy] at hr
  | some r => cases hy : ir'.returns with
    | none => simp [hx, hy] at hr
    | some r' =>
      simp only [hx, hy, Option.map_some, Option.some.injEq] at hr
      obtain ⟨_, h2, h3, h4⟩ := pview_eq hr
      simp only [h2, h3, h4, hraw]

/-- the per-parameter argparse hypothesis reads the raw description only -/
theorem argparseParamHyp_of_doc (env : Env) (cfg : Cfg) (a b : String × Param) (h : a.2.doc.getD "" = b.2.doc.getD "") :
    argparseParamHyp env cfg a = argparseParamHyp env cfg b := by
  unfold argparseParamHyp; simp only [h]

/-! ## closed form of a class / pydantic hop -/

/-- one class / pydantic hop on the model: emit, render + re-read, parse -/
def classHop (env : Env) (it : Bool) (cfg : Cfg) (ir : IR) : Except String IR := do
  let t ← emitClass env cfg ir
  parseClass env it t.reparse

/-- what a class / pydantic hop returns on the C02 domain: the name, the names / types / defaults of the entries are the
    input's; the header, the receiver kind and the descriptions (tidied) are the docstring layer's answers -/
def clsHopIR (env : Env) (cfg : Cfg) (ir : IR) : IR :=
  { name := ir.name, type := (clsDocIR0 env cfg ir).type, doc := (clsDocIR0 env cfg ir).doc,
    params := zipFinal (clsDocIR0 env cfg ir).params ir.params,
    returns := ir.returns.map (fun r => updOf ("return_type", r) ((dget? (clsDocIR0 env cfg ir).params "return_type").getD {})) }

theorem zipFinal_snoc : ∀ (P0 L : Dict) (x : String × Param), aligned P0 L = true → zipFinal (P0 ++ [x]) L = zipFinal P0 L
  | [], [], _, _ => rfl
  | [], _ :: _, _, h => by simp [aligned] at h
  | _ :: _, [], _, h => by simp [aligned] at h
  | kv0 :: P0, kv :: L, x, h => by
    simp only [aligned, Bool.and_eq_true] at h
    simp only [List.cons_append, zipFinal, zipFinal_snoc P0 L x h.2]

/-- **closed form (class / pydantic):** on the C02 domain, with the docstring-layer hypothesis, the hop returns
    exactly `clsHopIR` (a strengthening of `class_roundtrip`, whose conclusion is the view of this IR) -/
theorem class_hop_exact (env : Env) (hEnv : EnvOK env) (it : Bool) (cfg : Cfg) (ir : IR)
    (hD : inD02Class ir = true) (hH : classHyp env cfg ir = true) :
    classHop env it cfg ir = .ok (clsHopIR env cfg ir) := by
  unfold inD02Class at hD
  simp only [Bool.and_eq_true, List.all_eq_true] at hD
  obtain ⟨⟨⟨⟨hname, hnd⟩, _⟩, hall⟩, hret⟩ := hD
  obtain ⟨name, hname⟩ := Option.isSome_iff_exists.mp hname
  have hnd : (dkeys ir.params).Nodup := by simpa [namesOk] using hnd
  have hrt : "return_type" ∉ dkeys ir.params := by
    intro hm
    simp only [dkeys, List.mem_map] at hm
    obtain ⟨kv, hkv, he⟩ := hm
    exact (okName_facts (okParam_facts (hall kv hkv)).1).2 he
  have hstar : ∀ kv ∈ ir.params, okAttr kv = true ∧ startsWith kv.1 "*" = false := by
    intro kv hkv
    refine ⟨okParam_okAttr (hall kv hkv), ?_⟩
    have := (okName_facts (okParam_facts (hall kv hkv)).1).1
    simp only [Bool.or_eq_false_iff] at this
    exact this.2
  unfold classHyp at hH
  simp only [Bool.and_eq_true, Bool.or_eq_true] at hH
  obtain ⟨hfa, hretdoc⟩ := hH
  unfold classHop
  cases hr : ir.returns with
  | none =>
    rw [mergedParams_none ir hr] at hfa
    have hattr : ∀ kv ∈ mergedParams ir, okAttr kv = true := by
      rw [mergedParams_none ir hr]; exact fun kv hkv => (hstar kv hkv).1
    rw [emitClass_ok env hEnv cfg ir name hname hattr]
    simp only [bind, Except.bind]
    rw [parseClass_body, mergedParams_none ir hr]
    have hal := forall2_aligned env _ _ hfa
    have hkeys := aligned_keys _ _ hal
    have hpop : popRet (clsDocIR0 env cfg ir) = clsDocIR0 env cfg ir := by
      unfold popRet; rw [dget?_none_of_not_mem _ _ (by rw [hkeys]; exact hrt)]
    have hfold := classFold_params ir.params (clsDocIR0 env cfg ir).params [] (clsDocIR0 env cfg ir) hal
      (by simpa [hkeys] using hnd) hstar
    simp only [List.nil_append] at hfold
    rw [hpop, hfold]
    obtain ⟨hm, _⟩ := class_entries env it _ _ hfa hall
    simp only [bind, Except.bind, hm, pure, Except.pure]
    have hdr : (clsDocIR0 env cfg ir).returns = none := by
      rcases hretdoc with h | h
      · simp [hr] at h
      · simpa using h
    simp [clsHopIR, hdr, hr, hname]
  | some r =>
    have hmp := mergedParams_some ir r hr hrt
    rw [hmp] at hfa
    obtain ⟨P0, kv0r, hsplit, hfa0, her⟩ := forall2_snoc _ _ _ _ hfa
    have hretok : okClassReturn r = true := by simpa [hr] using hret
    have hattr : ∀ kv ∈ mergedParams ir, okAttr kv = true := by
      rw [hmp]; intro kv hkv
      rcases List.mem_append.mp hkv with h | h
      · exact (hstar kv h).1
      · simp only [List.mem_singleton] at h; subst h; exact okClassReturn_okAttr hretok
    rw [emitClass_ok env hEnv cfg ir name hname hattr]
    simp only [bind, Except.bind]
    rw [parseClass_body, hmp]
    have hal := forall2_aligned env _ _ hfa0
    have hkeys := aligned_keys _ _ hal
    unfold clsEntryOK at her
    simp only [Bool.and_eq_true, beq_iff_eq] at her
    obtain ⟨⟨hk0, _⟩, _⟩ := her
    obtain ⟨k0, p0r⟩ := kv0r
    simp only at hk0; subst hk0
    have hrt0 : "return_type" ∉ dkeys P0 := by rw [hkeys]; exact hrt
    have hpop : popRet (clsDocIR0 env cfg ir) = { clsDocIR0 env cfg ir with params := P0, returns := some p0r } := by
      unfold popRet; rw [hsplit, dget?_snoc _ _ _ hrt0, dpop_snoc _ _ _ hrt0]
    rw [hpop, List.map_append, List.foldlM_append]
    have hfold := classFold_params ir.params P0 [] { clsDocIR0 env cfg ir with params := P0, returns := some p0r } hal
      (by simpa [hkeys] using hnd) hstar
    simp only [List.nil_append] at hfold
    rw [hfold]
    simp only [bind, Except.bind, List.map_cons, List.map_nil, List.foldlM_cons, List.foldlM_nil]
    have hstep := classStep_ret { clsDocIR0 env cfg ir with params := zipUpd P0 ir.params, returns := some p0r } r
      (dhas_false_of_not_mem _ _ (by simpa [dkeys_zipUpd _ _ hal] using hrt0)) (okClassReturn_okAttr hretok)
    simp only at hstep
    rw [hstep]
    obtain ⟨hm, _⟩ := class_entries env it _ _ hfa0 hall
    simp only [hm, pure, Except.pure, Option.getD_some]
    simp [clsHopIR, hr, hname, hsplit, zipFinal_snoc P0 ir.params _ hal, dget?_snoc _ _ _ hrt0]

/-! ## closed form of a function hop -/

/-- one function hop on the model -/
def functionHop (env : Env) (cfg : Cfg) (ir : IR) : Except String IR := do
  let t ← emitFunction env cfg ir
  parseFunction env false t.reparse

/-- the return entry the function parser ends with -/
def fnRetFinal (r0? r? : Option Param) : Option Param :=
  match r?, r0? with
  | some r, some r0 => some { doc := docAfter r0.doc, typ := r.typ, default := r.default }
  | _, _ => none

/-- what a function hop returns on the C02 domain -/
def fnHopIR (env : Env) (cfg : Cfg) (ir : IR) : IR :=
  { name := ir.name, type := some (ir.type.getD "static"), doc := (fnDocIR0 env cfg ir).doc,
    params := zipFnFinal (fnDocIR0 env cfg ir).params ir.params,
    returns := fnRetFinal (fnDocIR0 env cfg ir).returns ir.returns }

/-- `fn_returns` with the entry spelled out -/
theorem fn_returns_exact (env : Env) (cfg : Cfg) (ir : IR) (r0? : Option Param)
    (hret : match ir.returns with | some r => okFnReturn env cfg r = true | none => True)
    (hH : fnReturnOK env cfg r0? ir.returns = true) :
    fnRetStep env false (interpolateReturn (((fnRetExpr env ir).toList.map Stmt.ret).map Stmt.reparse) (fnAnnot cfg ir) r0?) =
      .ok (fnRetFinal r0? ir.returns) := by
  unfold fnReturnOK at hH
  cases hr : ir.returns with
  | none =>
    cases r0? with
    | some r0 => simp [hr] at hH
    | none => simp [fnRetExpr, fnAnnot, hr, interpolateReturn, fnRetStep, fnRetFinal, pure, Except.pure]
  | some r =>
    cases r0? with
    | none => simp [hr] at hH
    | some r0 =>
      simp only [hr, Bool.and_eq_true, Bool.or_eq_true, beq_iff_eq] at hH hret
      obtain ⟨⟨hdesc, htyp0⟩, hdef0⟩ := hH
      unfold fnDescOK at hdesc
      simp only [Bool.and_eq_true, beq_iff_eq] at hdesc
      obtain ⟨_, hquiet⟩ := hdesc
      obtain ⟨t, htyp, ht, hd⟩ := okFnReturn_facts hret
      have hne := okTyp_nonempty ht
      have hne' : t ≠ "" := by intro h; subst h; simp at hne
      have hannot : fnAnnot cfg ir = if cfg.typeAnnotations then some t else none := by
        unfold fnAnnot; simp [hr, htyp, hne']
      rcases hd with hd | ⟨s, hd, hc, hbr⟩
      · -- no return default: no return statement
        have h0 : r0.default = none := by simpa [hd] using hdef0
        have hexpr : fnRetExpr env ir = none := by simp [fnRetExpr, hr, hd]
        have hint : interpolateReturn (((fnRetExpr env ir).toList.map Stmt.ret).map Stmt.reparse) (fnAnnot cfg ir) (some r0) =
            some { doc := r0.doc, typ := some t, default := (none : Option Default).map .val } := by
          rw [hexpr, hannot]
          by_cases hta : cfg.typeAnnotations = true
          · simp [interpolateReturn, hta, h0]
          · have : r0.typ = some t := by
              rcases htyp0 with h | h
              · exact absurd h hta
              · rw [h, htyp]
            simp only [interpolateReturn, Option.toList_none, List.map_nil, List.reverse_nil, List.filterMap_nil, List.head?_nil, hta,
              Bool.false_eq_true, ↓reduceIte, Option.map_none]
            congr 1
            cases r0; simp_all
        rw [hint]
        have := setNameAndType_ok env false "return_type" r0.doc t none rt_not_kwargs (okTyp_googleOpt ht) (fun d h => by cases h)
          (fun d0 h => by have := hquiet; simp only [h] at this; simpa [isNoneStrD] using this)
        simp only [Option.map_none] at this ⊢
        simp only [fnRetStep, this, bind, Except.bind, pure, Except.pure, fnRetFinal, htyp, hd]
      · -- a return statement
        obtain ⟨hql, _, hnN, hnS, he⟩ := retCanonFn_facts hc
        have hinfer : okSnt t (.str s) = true := by
          have hns : (s == NoneStr) = false := by simpa using hnS
          have : (!codeQuoted s || hasChar t '[') = true := by
            rcases hbr with h | ⟨_, h⟩
            · simp [h]
            · simp [h]
          simp [okSnt, okInfer, hns, hql, hnN, this, Default.inNoneTypes]
        have hint : interpolateReturn (((fnRetExpr env ir).toList.map Stmt.ret).map Stmt.reparse) (fnAnnot cfg ir) (some r0) =
            some { doc := r0.doc, typ := some t, default := (some (Default.str s)).map .val } := by
          have hkeep : (if cfg.typeAnnotations then some t else (dropPlainTyp r0).typ) = some t := by
            by_cases hta : cfg.typeAnnotations = true
            · simp [hta]
            · have h0t : r0.typ = some t := by
                rcases htyp0 with h | h
                · exact absurd h hta
                · rw [h, htyp]
              have hb : hasChar t '[' = true := by
                rcases hbr with h | ⟨h, _⟩
                · exact h
                · exact absurd h hta
              simp [hta, dropPlainTyp, h0t, hb]
          have hdocs : (dropPlainTyp r0).doc = r0.doc := by
            unfold dropPlainTyp
            cases r0.typ with
            | none => rfl
            | some t' => by_cases hb : hasChar t' '[' = true <;> simp [hb]
          have hrd : ∀ e, fnRetExpr env ir = some e → e.reparse = e → returnDefault e = .val (.str s) →
              interpolateReturn (((fnRetExpr env ir).toList.map Stmt.ret).map Stmt.reparse) (if cfg.typeAnnotations then some t else none) (some r0) =
                some { doc := r0.doc, typ := some t, default := some (.val (.str s)) } := by
            intro e hexp hrep hrd
            rw [hexp]
            simp only [interpolateReturn, Option.toList_some, List.map_cons, List.map_nil, Stmt.reparse, hrep, List.reverse_cons,
              List.reverse_nil, List.nil_append, List.filterMap_cons, Stmt.returnExpr?, List.filterMap_nil, List.head?_cons, hrd,
              Option.getD_some]
            by_cases hta : cfg.typeAnnotations = true
            · simp [hta, hdocs]
            · simp only [hta, Bool.false_eq_true, ↓reduceIte] at hkeep ⊢
              simp [hdocs, hkeep]
          rw [hannot]
          rcases he with he | ⟨src, he, hs, _⟩
          · exact hrd (.name s) (by simp [fnRetExpr, hr, hd, he]) rfl (by simp [returnDefault, getValue])
          · exact hrd (.code src false) (by simp [fnRetExpr, hr, hd, he]) rfl (by simp [returnDefault, getValue, Expr.text, hs])
        rw [hint]
        have := setNameAndType_ok env false "return_type" r0.doc t (some (.str s)) rt_not_kwargs (okTyp_googleOpt ht)
          (fun d h => by cases h; exact hinfer)
          (fun d0 h => by
            have := hquiet; simp only [h] at this
            have hns : (s == NoneStr) = false := by simpa using hnS
            simpa [isNoneStrD, DVal.isNoneStr, Default.isNoneStr, hns] using this)
        simp only [Option.map_some] at this ⊢
        simp only [fnRetStep, this, bind, Except.bind, pure, Except.pure, fnRetFinal, htyp, hd]

/-- **closed form (function):** on the C02 domain, with the docstring-layer hypothesis, the hop returns exactly
    `fnHopIR` (a strengthening of `function_roundtrip`) -/
theorem function_hop_exact (env : Env) (cfg : Cfg) (ir : IR)
    (hD : inD02Function env cfg ir = true) (hH : functionHyp env cfg ir = true) :
    functionHop env cfg ir = .ok (fnHopIR env cfg ir) := by
  unfold inD02Function at hD
  simp only [Bool.and_eq_true, List.all_eq_true] at hD
  obtain ⟨⟨⟨⟨⟨hname, htype⟩, hnd⟩, _⟩, hall⟩, hret⟩ := hD
  obtain ⟨name, hname⟩ := Option.isSome_iff_exists.mp hname
  have hnd : (dkeys ir.params).Nodup := by simpa [namesOk] using hnd
  have hret' : match ir.returns with | some r => okFnReturn env cfg r = true | none => True := by
    cases hr : ir.returns with
    | none => trivial
    | some r => simpa [hr] using hret
  unfold functionHyp at hH
  simp only [Bool.and_eq_true] at hH
  obtain ⟨hfa, hfr⟩ := hH
  unfold functionHop
  rw [emitFunction_ok env cfg ir name hname hall hret']
  simp only [bind, Except.bind, Top.reparse, List.map_cons, Stmt.reparse]
  rw [parseFunction_eq]
  obtain ⟨hfound, hsig⟩ := fn_sig cfg ir (by simpa [okFnType] using htype) hall
  simp only [hsig]
  simp only [hfound]
  have hir0 : env.docParse (.fn false) (String.ofList (Py.replace (fnDocStr env cfg ir).toList ":cvar".toList ":param".toList)) = fnDocIR0 env cfg ir := rfl
  rw [hir0]
  have hal := fn_aligned env cfg _ _ hfa
  have hlen := forall2_length _ _ _ hfa
  have hkeys : dkeys (fnDocIR0 env cfg ir).params = dkeys ir.params := by
    have := aligned_keys _ _ hal
    rw [← this]; simp [dkeys, sigOf, Function.comp_def]
  have hparams : (if (fnDocIR0 env cfg ir).params.isEmpty then ir.params.map (sigOf cfg)
      else if (ir.params.map (sigOf cfg)).isEmpty then (fnDocIR0 env cfg ir).params
      else mergeParams (ir.params.map (sigOf cfg)) (fnDocIR0 env cfg ir).params) = zipMerge (ir.params.map (sigOf cfg)) (fnDocIR0 env cfg ir).params := by
    cases hp0 : (fnDocIR0 env cfg ir).params with
    | nil =>
      have : ir.params = [] := by
        rw [hp0] at hlen; exact List.length_eq_zero_iff.mp hlen.symm
      simp [this, zipMerge]
    | cons x xs =>
      cases hp : ir.params with
      | nil => rw [hp0, hp] at hlen; simp at hlen
      | cons y ys =>
        simp only [List.isEmpty_cons, Bool.false_eq_true, ↓reduceIte, List.map_cons]
        have := mergeParams_aligned (ir.params.map (sigOf cfg)) (fnDocIR0 env cfg ir).params hal (by rw [hkeys]; exact hnd)
        rw [hp0, hp] at this
        simpa using this
  rw [hparams]
  obtain ⟨hm, _⟩ := fn_entries env cfg _ _ hfa hall
  rw [hm]
  have hR := fn_returns_exact env cfg ir (fnDocIR0 env cfg ir).returns hret' hfr
  simp only [hR, bind, Except.bind, pure, Except.pure, fnHopIR, hname]

/-! ## closed form of an argparse hop -/

/-- one argparse hop on the model -/
def argparseHop (env : Env) (cfg : Cfg) (ir : IR) : Except String IR := do
  let t ← emitArgparse env cfg ir
  parseArgparse env t.reparse

/-- the return entry the argparse parser ends with: present only with a default; its description is the `:return:` line
    of the docstring the layer rendered -/
def apRetFinal (env : Env) (cfg : Cfg) (ir : IR) : Option Param :=
  match ir.returns with
  | some r =>
    (match r.default, r.typ with
     | some d, some t => some { doc := returnLineDoc env (apRaw env cfg ir), default := some d, typ := some t }
     | _, _ => none)
  | none => none

/-- what an argparse hop returns on the C02 domain: the function is called `set_cli_args`, the header went through
    `set_value`, every parameter is read back as it was (an empty description as none) -/
def apHopIR (env : Env) (cfg : Cfg) (ir : IR) : IR :=
  { name := some "set_cli_args", type := some "static", doc := setValueStr ir.doc, params := ir.params.map backOf,
    returns := apRetFinal env cfg ir }

/-- **closed form (argparse)** (a strengthening of `argparse_roundtrip`) -/
theorem argparse_hop_exact (env : Env) (cfg : Cfg) (ir : IR)
    (hD : inD02Argparse env ir = true) (hH : argparseHyp env cfg ir = true) :
    argparseHop env cfg ir = .ok (apHopIR env cfg ir) := by
  unfold inD02Argparse at hD
  simp only [Bool.and_eq_true, List.all_eq_true] at hD
  obtain ⟨⟨⟨hnd, _⟩, hall⟩, hret⟩ := hD
  have hnd : (dkeys ir.params).Nodup := by simpa [namesOk] using hnd
  have hret' : match ir.returns with | some r => okArgparseReturn env r = true | none => True := by
    cases hr : ir.returns with
    | none => trivial
    | some r => simpa [hr] using hret
  unfold argparseHyp at hH
  simp only [Bool.and_eq_true, List.all_eq_true] at hH
  obtain ⟨hpar, hrh⟩ := hH
  unfold argparseHop emitArgparse
  rw [mapM_ok (param2argparse env cfg.emitDefaultDoc) addArgOf ir.params (fun kv hkv => param2argparse_ok env cfg kv (hall kv hkv) (hpar kv hkv)),
    argparseReturn_ok env ir hret']
  simp only [bind, Except.bind, pure, Except.pure, Top.reparse, List.cons_append, List.nil_append, List.map_cons, List.map_append, List.map_nil,
    Stmt.reparse, List.map_map]
  rw [parseArgparse_shape]
  have hfold := argparseFold env (env.docParse .argparse (setValueStr (env.docEmit (argparseDocCfg cfg) (argparseDocIR ir))))
    (setValueStr (env.docEmit (argparseDocCfg cfg) (argparseDocIR ir))) ir.params
    { name := some "set_cli_args", type := some "static", doc := setValueStr ir.doc, params := [], returns := none } hall
    (by simpa [dkeys] using hnd)
  simp only [List.nil_append] at hfold
  have hcomp : (Stmt.reparse ∘ Stmt.addArg ∘ addArgOf) = (fun kv => Stmt.reparse (.addArg (addArgOf kv))) := rfl
  rw [hcomp, hfold]
  simp only [bind, Except.bind]
  cases hr : ir.returns with
  | none =>
    simp only [apRetStmt, hr, Option.bind_none, argparseStep, pure, Except.pure, apHopIR, apRetFinal]
  | some r =>
    simp only [hr] at hret'
    rcases okArgparseReturn_facts hret' with hd | ⟨s, e, t, hd, hnc, hpe, htext, hrep, ht⟩
    · simp only [apRetStmt, hr, Option.bind_some, hd, argparseStep, pure, Except.pure, apHopIR, apRetFinal]
    · unfold argparseReturnHyp at hrh
      simp only [hr, hd, ht, Bool.and_eq_true, beq_iff_eq] at hrh
      obtain ⟨hdt, hline⟩ := hrh
      cases hl : returnLineDoc env (setValueStr (env.docEmit (argparseDocCfg cfg) (argparseDocIR ir))) with
      | none => simp [hl] at hline
      | some dline =>
        simp only [apRetStmt, hr, Option.bind_some, hd, hpe, hrep, argparseStep, parseReturn_ok env _ _ e t dline hdt hl,
          bind, Except.bind, pure, Except.pure, apHopIR, apRetFinal, apRaw, hl, htext, ht]

/-! ## what the closed forms say about the fields `inD02` / `docHyp` read -/

theorem inD02Class_name {ir : IR} (h : inD02Class ir = true) : ir.name.isSome = true := by
  unfold inD02Class at h
  simp only [Bool.and_eq_true] at h
  exact h.1.1.1.1

theorem inD02Function_type {env : Env} {cfg : Cfg} {ir : IR} (h : inD02Function env cfg ir = true) : okFnType ir = true := by
  unfold inD02Function at h
  simp only [Bool.and_eq_true] at h
  exact h.1.1.1.1.2

/-- the receiver kind after a function hop is the input's -/
theorem fnHopIR_type (env : Env) (cfg : Cfg) (ir : IR) (h : okFnType ir = true) : (fnHopIR env cfg ir).type = ir.type := by
  unfold okFnType at h
  simp only [Bool.or_eq_true, beq_iff_eq] at h
  rcases h with (h | h) | h <;> simp [fnHopIR, h]

/-- the receiver kind after a class hop is what the docstring layer answered (`static` when there is no docstring) -/
theorem clsHopIR_type (env : Env) (cfg : Cfg) (ir : IR) (hlaw : ∀ s, okFnType (env.docParse .cls s) = true) :
    okFnType (clsHopIR env cfg ir) = true := by
  have : okFnType (clsDocIR0 env cfg ir) = true := by
    unfold clsDocIR0
    simp only []
    split
    · rfl
    · exact hlaw _
  exact this

theorem backOf_docD (kv : String × Param) : (backOf kv).2.doc.getD "" = kv.2.doc.getD "" := by
  unfold backOf addArgOf
  cases hd : kv.2.doc with
  | none => rfl
  | some d =>
    by_cases he : d.toList.isEmpty = true
    · have : d = "" := by apply toList_inj'; simpa using he
      subst this; rfl
    · simp [he]

theorem backOf_idem (kv : String × Param) : backOf (backOf kv) = backOf kv := by
  unfold backOf addArgOf
  cases hd : kv.2.doc with
  | none => rfl
  | some d => by_cases he : d.toList.isEmpty = true <;> simp [he]

/-- "this description is plain for argparse": it announces no default and `set_value` leaves it alone
    (`argparseParamHyp` on a bare description) -/
def plainDoc (env : Env) (cfg : Cfg) (d? : Option String) : Bool :=
  env.extractDefault cfg.emitDefaultDoc (d?.getD "") == (d?.getD "", none) && setValueStr (d?.getD "") == d?.getD ""

theorem argparseParamHyp_eq_plainDoc (env : Env) (cfg : Cfg) (kv : String × Param) :
    argparseParamHyp env cfg kv = plainDoc env cfg kv.2.doc := rfl

theorem zipFinal_docs : ∀ (P0 L : Dict) (kv : String × Param), kv ∈ zipFinal P0 L → ∃ kv0 ∈ P0, kv.2.doc = docAfter kv0.2.doc
  | [], _, _, h => by simp [zipFinal] at h
  | _ :: _, [], _, h => by simp [zipFinal] at h
  | kv0 :: P0, x :: L, kv, h => by
    simp only [zipFinal, List.mem_cons] at h
    rcases h with h | h
    · exact ⟨kv0, List.mem_cons_self .., by rw [h]; rfl⟩
    · obtain ⟨k, hk, e⟩ := zipFinal_docs P0 L kv h
      exact ⟨k, List.mem_cons_of_mem _ hk, e⟩

theorem zipFnFinal_docs : ∀ (P0 L : Dict) (kv : String × Param), kv ∈ zipFnFinal P0 L → ∃ kv0 ∈ P0, kv.2.doc = docAfter kv0.2.doc
  | [], _, _, h => by simp [zipFnFinal] at h
  | _ :: _, [], _, h => by simp [zipFnFinal] at h
  | kv0 :: P0, x :: L, kv, h => by
    simp only [zipFnFinal, List.mem_cons] at h
    rcases h with h | h
    · exact ⟨kv0, List.mem_cons_self .., by rw [h]; rfl⟩
    · obtain ⟨k, hk, e⟩ := zipFnFinal_docs P0 L kv h
      exact ⟨k, List.mem_cons_of_mem _ hk, e⟩

/-- argparse parameters read back: same view, same raw description (up to "" ↦ none) -/
theorem backOf_views (l : Dict) : (l.map backOf).map viewOf = l.map viewOf := by
  rw [List.map_map]; apply List.map_congr_left; intro kv _; exact backOf_view kv

theorem clsHopIR_name (env : Env) (cfg : Cfg) (ir : IR) : (clsHopIR env cfg ir).name = ir.name := by unfold clsHopIR; rfl
theorem fnHopIR_name (env : Env) (cfg : Cfg) (ir : IR) : (fnHopIR env cfg ir).name = ir.name := by unfold fnHopIR; rfl
theorem apHopIR_name (env : Env) (cfg : Cfg) (ir : IR) : (apHopIR env cfg ir).name = some "set_cli_args" := by unfold apHopIR; rfl
theorem apHopIR_type (env : Env) (cfg : Cfg) (ir : IR) : okFnType (apHopIR env cfg ir) = true := by unfold apHopIR; rfl

end Iface
