import CddVerif.Model.SyncProperties
/-! Specification vocabulary and helper lemmas for C13 (`sync_properties`). -/
namespace SyncProps
open PyAst

/-! ## "identical except for one statement" -/

mutual
/-- two statements that are identical except for ONE statement `old ↦ new` with `P parent old new`, which is the
    statement itself or lies (at any depth) in the bodies of classes / `async def`s; `parent` is the name of the
    definition directly enclosing it (that is what `_location` is built from) -/
inductive OneHoleS (P : Option String → Stmt → Stmt → Prop) : Option String → Stmt → Stmt → Prop
  | here {parent : Option String} {old new : Stmt} : P parent old new → OneHoleS P parent old new
  | cls {parent : Option String} {n : String} {bs ks ds : List String} {body body' : List Stmt} :
      OneHole P (some n) body body' → OneHoleS P parent (.cls n bs ks body ds) (.cls n bs ks body' ds)
  | afn {parent : Option String} {n : String} {a : Args} {ds : List String} {ret : Option String} {body body' : List Stmt} :
      OneHole P (some n) body body' → OneHoleS P parent (.fn true n a body ds ret) (.fn true n a body' ds ret)
/-- two statement lists (a module, a body) that are identical except for ONE statement somewhere inside:
    all statements but one are literally the same, and that one satisfies `OneHoleS` -/
inductive OneHole (P : Option String → Stmt → Stmt → Prop) : Option String → List Stmt → List Stmt → Prop
  | head {parent : Option String} {s s' : Stmt} {ss : List Stmt} : OneHoleS P parent s s' → OneHole P parent (s :: ss) (s' :: ss)
  | tail {parent : Option String} {s : Stmt} {ss ss' : List Stmt} :
      OneHole P parent ss ss' → OneHole P parent (s :: ss) (s :: ss')
end

theorem OneHole.length_eq {P} : ∀ {parent : Option String} {ss ss' : List Stmt}, OneHole P parent ss ss' → ss'.length = ss.length
  | _, _, _, .head _ => by simp
  | _, _, _, .tail h => by simp [OneHole.length_eq h]

/-- all top-level statements but one are literally the same -/
theorem OneHole.all_but_one {P} : ∀ {parent : Option String} {ss ss' : List Stmt}, OneHole P parent ss ss' →
    ∃ i : Nat, ∀ j : Nat, j ≠ i → ss'[j]? = ss[j]?
  | _, _, _, .head _ => ⟨0, fun j hj => by cases j with | zero => exact absurd rfl hj | succ k => simp⟩
  | _, _, _, .tail h => by
    obtain ⟨i, hi⟩ := OneHole.all_but_one h
    refine ⟨i + 1, fun j hj => ?_⟩
    cases j with
    | zero => simp
    | succ k => simpa using hi k (by omega)

/-! ## what may change at the hole -/

/-- `l'` is `l`, or `l` with ONE element — one whose `_location` is the search path — replaced by `r` -/
def ListChange (fnLoc search : Loc) (r : Arg) (l l' : List Arg) : Prop :=
  l' = l ∨ ∃ j x, l[j]? = some x ∧ fnLoc ++ [x.name] = search ∧ l' = l.set j r

/-- the signature `a'` is `a` except: in `args` and in `kwonly` at most the parameter located at the search path is
    replaced by `r`; `defaults` keeps its length (which entries may change: theorem `alignment`); positional-only
    parameters, `*args`, `**kwargs` and keyword-only defaults are untouched -/
def ArgsChange (fnLoc search : Loc) (r : Arg) (a a' : Args) : Prop :=
  a'.posonly = a.posonly ∧ a'.vararg = a.vararg ∧ a'.kwarg = a.kwarg ∧ a'.kwDefaults = a.kwDefaults ∧
  a'.defaults.length = a.defaults.length ∧
  ListChange fnLoc search r a.args a'.args ∧ ListChange fnLoc search r a.kwonly a'.kwonly

/-- the replacement node when the replacement happens: as given, or already converted by an earlier
    `visit_FunctionDef` (on a definition with the same dotted path that lacks the parameter) to its `ast.arg` form -/
def Conv (repl0 repl : Node) : Prop := repl = repl0 ∨ ∃ r, asArg repl0 = some r ∧ repl = .arg r

/-- the one change `sync_property` may make: the statement at the search location is replaced by the replacement node,
    or the parameter at the search location of a function is replaced by the replacement's `ast.arg` form -/
def Slot (search : Loc) (repl0 : Node) (parent : Option String) (old new : Stmt) : Prop :=
  (locOf parent old = some search ∧ ∃ argOk repl, Conv repl0 repl ∧ new = (placeAsStmt argOk repl).1)
  ∨ (∃ async n a a' body ds ret r, old = .fn async n a body ds ret ∧ new = .fn async n a' body ds ret ∧
      asArg repl0 = some r ∧ ArgsChange (parent.toList ++ [n]) search r a a')

/-! ## lemmas about the pieces of `visit_FunctionDef` -/

theorem replaceFirst_spec (fnLoc search : Loc) (r : Arg) (l : List Arg) :
    ((replaceFirst fnLoc search r l).2 = false → (replaceFirst fnLoc search r l).1 = l) ∧
    ((replaceFirst fnLoc search r l).2 = true →
      ∃ j x, l[j]? = some x ∧ fnLoc ++ [x.name] = search ∧ (replaceFirst fnLoc search r l).1 = l.set j r) := by
  induction l with
  | nil => simp [replaceFirst]
  | cons x xs ih =>
    unfold replaceFirst
    by_cases h : (fnLoc ++ [x.name] == search) = true
    · simp only [h, if_true]
      exact ⟨fun h' => (by cases h'), fun _ => ⟨0, x, (by simp), (by simpa using h), (by simp)⟩⟩
    · simp only [h]
      refine ⟨fun h' => (by simp [ih.1 h']), fun h' => ?_⟩
      obtain ⟨j, y, hj, hy, he⟩ := ih.2 h'
      exact ⟨j + 1, y, by simpa using hj, hy, by simp [he]⟩

theorem replaceFirst_change (fnLoc search : Loc) (r : Arg) (l : List Arg) :
    ListChange fnLoc search r l (replaceFirst fnLoc search r l).1 := by
  cases h : (replaceFirst fnLoc search r l).2 with
  | false => exact .inl ((replaceFirst_spec fnLoc search r l).1 h)
  | true => exact .inr ((replaceFirst_spec fnLoc search r l).2 h)

theorem prepare_repl (fnLoc : Loc) (a : Args) (node : Node) : (prepare fnLoc a node).repl = asArg node := by
  unfold prepare
  split
  · split
    · split <;> rfl
    · rfl
  · split
    · split <;> rfl
    · rfl
  · rfl

/-- `prepare` changes nothing but (possibly) one entry of `defaults` -/
theorem prepare_args (fnLoc : Loc) (a : Args) (node : Node) :
    ∃ ds, ds.length = a.defaults.length ∧ (prepare fnLoc a node).args = { a with defaults := ds } ∧
      ((prepare fnLoc a node).touched = false → ds = a.defaults) := by
  unfold prepare
  split
  · split
    · split
      · exact ⟨_, by simp, rfl, fun h => by cases h⟩
      · exact ⟨a.defaults, rfl, rfl, fun _ => rfl⟩
    · exact ⟨a.defaults, rfl, rfl, fun _ => rfl⟩
  · split
    · split
      · exact ⟨a.defaults, rfl, rfl, fun _ => rfl⟩
      · exact ⟨a.defaults, rfl, rfl, fun _ => rfl⟩
    · exact ⟨a.defaults, rfl, rfl, fun _ => rfl⟩
  · exact ⟨a.defaults, rfl, rfl, fun _ => rfl⟩

/-! ## the invariant of the traversal -/

/-- what one step of the traversal guarantees (`same`: the visited piece is returned unchanged; `hole`: it is returned
    with exactly the permitted change) -/
structure Post (repl0 : Node) (st st' : RState) (same hole : Prop) : Prop where
  err : st.err ≠ none → same ∧ st' = st
  rep : st.replaced = true → same ∧ st' = st
  ph : st.phantom = true → st'.phantom = true
  main : st.err = none → st.replaced = false → Conv repl0 st.repl → st'.err = none → st'.phantom = false →
    Conv repl0 st'.repl ∧ ((st'.replaced = false ∧ same) ∨ (st'.replaced = true ∧ hole))

theorem Post.seq {repl0 : Node} {st st1 st2 : RState} {same1 hole1 same2 hole2 : Prop}
    (h1 : Post repl0 st st1 same1 hole1) (h2 : Post repl0 st1 st2 same2 hole2) :
    Post repl0 st st2 (same1 ∧ same2) ((hole1 ∧ same2) ∨ (same1 ∧ hole2)) where
  err := fun he => by
    obtain ⟨s1, e1⟩ := h1.err he
    obtain ⟨s2, e2⟩ := h2.err (by rw [e1]; exact he)
    exact ⟨⟨s1, s2⟩, by rw [e2, e1]⟩
  rep := fun hr => by
    obtain ⟨s1, e1⟩ := h1.rep hr
    obtain ⟨s2, e2⟩ := h2.rep (by rw [e1]; exact hr)
    exact ⟨⟨s1, s2⟩, by rw [e2, e1]⟩
  ph := fun hp => h2.ph (h1.ph hp)
  main := fun he hr hc he2 hp2 => by
    have he1 : st1.err = none := by
      by_cases h : st1.err = none
      · exact h
      · have := (h2.err h).2; rw [this] at he2; exact absurd he2 h
    have hp1 : st1.phantom = false := by
      cases h : st1.phantom with
      | false => rfl
      | true => have := h2.ph h; rw [this] at hp2; cases hp2
    obtain ⟨hc1, hcase⟩ := h1.main he hr hc he1 hp1
    rcases hcase with ⟨hr1, s1⟩ | ⟨hr1, ho1⟩
    · obtain ⟨hc2, hcase2⟩ := h2.main he1 hr1 hc1 he2 hp2
      refine ⟨hc2, ?_⟩
      rcases hcase2 with ⟨hr2, s2⟩ | ⟨hr2, ho2⟩
      · exact .inl ⟨hr2, s1, s2⟩
      · exact .inr ⟨hr2, .inr ⟨s1, ho2⟩⟩
    · obtain ⟨s2, e2⟩ := h2.rep hr1
      rw [e2]
      exact ⟨hc1, .inr ⟨hr1, .inl ⟨ho1, s2⟩⟩⟩

theorem Post.mono {repl0 : Node} {st st' : RState} {same hole same' hole' : Prop}
    (h : Post repl0 st st' same hole) (hs : same → same') (hh : hole → hole') : Post repl0 st st' same' hole' where
  err := fun he => ⟨hs (h.err he).1, (h.err he).2⟩
  rep := fun hr => ⟨hs (h.rep hr).1, (h.rep hr).2⟩
  ph := h.ph
  main := fun he hr hc he2 hp2 => by
    obtain ⟨hc', hcase⟩ := h.main he hr hc he2 hp2
    exact ⟨hc', hcase.imp (fun ⟨a, b⟩ => ⟨a, hs b⟩) (fun ⟨a, b⟩ => ⟨a, hh b⟩)⟩

/-- a step that does nothing -/
theorem Post.refl {repl0 : Node} {st : RState} {same hole : Prop} (hs : same) : Post repl0 st st same hole where
  err := fun _ => ⟨hs, rfl⟩
  rep := fun _ => ⟨hs, rfl⟩
  ph := id
  main := fun _ hr hc _ _ => ⟨hc, .inl ⟨hr, hs⟩⟩

end SyncProps
