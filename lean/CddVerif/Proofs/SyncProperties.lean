import CddVerif.Model.SyncProperties
/-! Specification vocabulary and helper lemmas for C13 (`sync_properties`). -/
namespace SyncProps
open PyAst

/-! ## "identical except for one statement" -/

mutual
/-- two statements that are identical except for ONE statement `old ↦ new` with `P parent old new`, which is the
    statement itself or lies (at any depth) in the bodies of classes / `async def`s; `parent` is the name of the
    definition directly enclosing it (that is what `_location` is built from) -/
inductive OneHoleS (P : Option String → Stmt → Stmt → Prop) : Option String → Stmt → Stmt → Prop
  | here {parent : Option String} {old new : Stmt} : P parent old new → OneHoleS P parent old new
  | cls {parent : Option String} {n : String} {bs ks ds : List String} {body body' : List Stmt} :
      OneHole P (some n) body body' → OneHoleS P parent (.cls n bs ks body ds) (.cls n bs ks body' ds)
  | afn {parent : Option String} {n : String} {a : Args} {ds : List String} {ret : Option String} {body body' : List Stmt} :
      OneHole P (some n) body body' → OneHoleS P parent (.fn true n a body ds ret) (.fn true n a body' ds ret)
/-- two statement lists (a module, a body) that are identical except for ONE statement somewhere inside:
    all statements but one are literally the same, and that one satisfies `OneHoleS` -/
inductive OneHole (P : Option String → Stmt → Stmt → Prop) : Option String → List Stmt → List Stmt → Prop
  | head {parent : Option String} {s s' : Stmt} {ss : List Stmt} : OneHoleS P parent s s' → OneHole P parent (s :: ss) (s' :: ss)
  | tail {parent : Option String} {s : Stmt} {ss ss' : List Stmt} :
      OneHole P parent ss ss' → OneHole P parent (s :: ss) (s :: ss')
end

theorem OneHole.length_eq {P} : ∀ {parent : Option String} {ss ss' : List Stmt}, OneHole P parent ss ss' → ss'.length = ss.length
  | _, _, _, .head _ => by simp
  | _, _, _, .tail h => by simp [OneHole.length_eq h]

/-- all top-level statements but one are literally the same -/
theorem OneHole.all_but_one {P} : ∀ {parent : Option String} {ss ss' : List Stmt}, OneHole P parent ss ss' →
    ∃ i : Nat, ∀ j : Nat, j ≠ i → ss'[j]? = ss[j]?
  | _, _, _, .head _ => ⟨0, fun j hj => by cases j with | zero => exact absurd rfl hj | succ k => simp⟩
  | _, _, _, .tail h => by
    obtain ⟨i, hi⟩ := OneHole.all_but_one h
    refine ⟨i + 1, fun j hj => ?_⟩
    cases j with
    | zero => simp
    | succ k => simpa using hi k (by omega)

/-! ## what may change at the hole -/

/-- `l'` is `l`, or `l` with ONE element — one whose `_location` is the search path — replaced by `r` -/
def ListChange (fnLoc search : Loc) (r : Arg) (l l' : List Arg) : Prop :=
  l' = l ∨ ∃ j x, l[j]? = some x ∧ fnLoc ++ [x.name] = search ∧ l' = l.set j r

/-- the signature `a'` is `a` except: in `args` and in `kwonly` at most the parameter located at the search path is
    replaced by `r`; `defaults` keeps its length (which entries may change: theorem `alignment`); positional-only
    parameters, `*args`, `**kwargs` and keyword-only defaults are untouched -/
def ArgsChange (fnLoc search : Loc) (r : Arg) (a a' : Args) : Prop :=
  a'.posonly = a.posonly ∧ a'.vararg = a.vararg ∧ a'.kwarg = a.kwarg ∧ a'.kwDefaults = a.kwDefaults ∧
  a'.defaults.length = a.defaults.length ∧
  ListChange fnLoc search r a.args a'.args ∧ ListChange fnLoc search r a.kwonly a'.kwonly

/-- the replacement node when the replacement happens: as given, or already converted by an earlier
    `visit_FunctionDef` (on a definition with the same dotted path that lacks the parameter) to its `ast.arg` form -/
def Conv (repl0 repl : Node) : Prop := repl = repl0 ∨ ∃ r, asArg repl0 = some r ∧ repl = .arg r

/-- the one change `sync_property` may make: the statement at the search location is replaced by the replacement node,
    or the parameter at the search location of a function is replaced by the replacement's `ast.arg` form -/
def Slot (search : Loc) (repl0 : Node) (parent : Option String) (old new : Stmt) : Prop :=
  (locOf parent old = some search ∧ ∃ argOk repl, Conv repl0 repl ∧ new = (placeAsStmt argOk repl).1)
  ∨ (∃ async n a a' body ds ret r, old = .fn async n a body ds ret ∧ new = .fn async n a' body ds ret ∧
      asArg repl0 = some r ∧ ArgsChange (parent.toList ++ [n]) search r a a')

/-! ## lemmas about the pieces of `visit_FunctionDef` -/

theorem replaceFirst_spec (fnLoc search : Loc) (r : Arg) (l : List Arg) :
    ((replaceFirst fnLoc search r l).2 = false → (replaceFirst fnLoc search r l).1 = l) ∧
    ((replaceFirst fnLoc search r l).2 = true →
      ∃ j x, l[j]? = some x ∧ fnLoc ++ [x.name] = search ∧ (replaceFirst fnLoc search r l).1 = l.set j r) := by
  induction l with
  | nil => simp [replaceFirst]
  | cons x xs ih =>
    unfold replaceFirst
    by_cases h : (fnLoc ++ [x.name] == search) = true
    · simp only [h, if_true]
      exact ⟨fun h' => (by cases h'), fun _ => ⟨0, x, (by simp), (by simpa using h), (by simp)⟩⟩
    · simp only [h]
      refine ⟨fun h' => (by simp [ih.1 h']), fun h' => ?_⟩
      obtain ⟨j, y, hj, hy, he⟩ := ih.2 h'
      exact ⟨j + 1, y, by simpa using hj, hy, by simp [he]⟩

theorem replaceFirst_change (fnLoc search : Loc) (r : Arg) (l : List Arg) :
    ListChange fnLoc search r l (replaceFirst fnLoc search r l).1 := by
  cases h : (replaceFirst fnLoc search r l).2 with
  | false => exact .inl ((replaceFirst_spec fnLoc search r l).1 h)
  | true => exact .inr ((replaceFirst_spec fnLoc search r l).2 h)

theorem prepare_repl (fnLoc : Loc) (a : Args) (node : Node) : (prepare fnLoc a node).repl = asArg node := by
  unfold prepare
  split
  · split
    · split <;> rfl
    · rfl
  · split
    · split <;> rfl
    · rfl
  · rfl

/-- `prepare` changes nothing but (possibly) one entry of `defaults` -/
theorem prepare_args (fnLoc : Loc) (a : Args) (node : Node) :
    ∃ ds, ds.length = a.defaults.length ∧ (prepare fnLoc a node).args = { a with defaults := ds } ∧
      ((prepare fnLoc a node).touched = false → ds = a.defaults) := by
  unfold prepare
  split
  · split
    · split
      · exact ⟨_, by simp, rfl, fun h => by cases h⟩
      · exact ⟨a.defaults, rfl, rfl, fun _ => rfl⟩
    · exact ⟨a.defaults, rfl, rfl, fun _ => rfl⟩
  · split
    · split
      · exact ⟨a.defaults, rfl, rfl, fun _ => rfl⟩
      · exact ⟨a.defaults, rfl, rfl, fun _ => rfl⟩
    · exact ⟨a.defaults, rfl, rfl, fun _ => rfl⟩
  · exact ⟨a.defaults, rfl, rfl, fun _ => rfl⟩

/-! ## the invariant of the traversal -/

/-- what one step of the traversal guarantees (`same`: the visited piece is returned unchanged; `hole`: it is returned
    with exactly the permitted change) -/
structure Post (repl0 : Node) (st st' : RState) (same hole : Prop) : Prop where
  err : st.err ≠ none → same ∧ st' = st
  rep : st.replaced = true → same ∧ st' = st
  ph : st.phantom = true → st'.phantom = true
  main : st.err = none → st.replaced = false → Conv repl0 st.repl → st'.err = none → st'.phantom = false →
    Conv repl0 st'.repl ∧ ((st'.replaced = false ∧ same) ∨ (st'.replaced = true ∧ hole))

theorem Post.seq {repl0 : Node} {st st1 st2 : RState} {same1 hole1 same2 hole2 : Prop}
    (h1 : Post repl0 st st1 same1 hole1) (h2 : Post repl0 st1 st2 same2 hole2) :
    Post repl0 st st2 (same1 ∧ same2) ((hole1 ∧ same2) ∨ (same1 ∧ hole2)) where
  err := fun he => by
    obtain ⟨s1, e1⟩ := h1.err he
    obtain ⟨s2, e2⟩ := h2.err (by rw [e1]; exact he)
    exact ⟨⟨s1, s2⟩, by rw [e2, e1]⟩
  rep := fun hr => by
    obtain ⟨s1, e1⟩ := h1.rep hr
    obtain ⟨s2, e2⟩ := h2.rep (by rw [e1]; exact hr)
    exact ⟨⟨s1, s2⟩, by rw [e2, e1]⟩
  ph := fun hp => h2.ph (h1.ph hp)
  main := fun he hr hc he2 hp2 => by
    have he1 : st1.err = none := by
      by_cases h : st1.err = none
      · exact h
      · have := (h2.err h).2; rw [this] at he2; exact absurd he2 h
    have hp1 : st1.phantom = false := by
      cases h : st1.phantom with
      | false => rfl
      | true => have := h2.ph h; rw [this] at hp2; cases hp2
    obtain ⟨hc1, hcase⟩ := h1.main he hr hc he1 hp1
    rcases hcase with ⟨hr1, s1⟩ | ⟨hr1, ho1⟩
    · obtain ⟨hc2, hcase2⟩ := h2.main he1 hr1 hc1 he2 hp2
      refine ⟨hc2, ?_⟩
      rcases hcase2 with ⟨hr2, s2⟩ | ⟨hr2, ho2⟩
      · exact .inl ⟨hr2, s1, s2⟩
      · exact .inr ⟨hr2, .inr ⟨s1, ho2⟩⟩
    · obtain ⟨s2, e2⟩ := h2.rep hr1
      rw [e2]
      exact ⟨hc1, .inr ⟨hr1, .inl ⟨ho1, s2⟩⟩⟩

theorem Post.mono {repl0 : Node} {st st' : RState} {same hole same' hole' : Prop}
    (h : Post repl0 st st' same hole) (hs : same → same') (hh : hole → hole') : Post repl0 st st' same' hole' where
  err := fun he => ⟨hs (h.err he).1, (h.err he).2⟩
  rep := fun hr => ⟨hs (h.rep hr).1, (h.rep hr).2⟩
  ph := h.ph
  main := fun he hr hc he2 hp2 => by
    obtain ⟨hc', hcase⟩ := h.main he hr hc he2 hp2
    exact ⟨hc', hcase.imp (fun ⟨a, b⟩ => ⟨a, hs b⟩) (fun ⟨a, b⟩ => ⟨a, hh b⟩)⟩

/-- a step that does nothing -/
theorem Post.refl {repl0 : Node} {st : RState} {same hole : Prop} (hs : same) : Post repl0 st st same hole where
  err := fun _ => ⟨hs, rfl⟩
  rep := fun _ => ⟨hs, rfl⟩
  ph := id
  main := fun _ hr hc _ _ => ⟨hc, .inl ⟨hr, hs⟩⟩

/-! ## `visit_FunctionDef` -/

theorem conv_step {repl0 repl : Node} {r : Arg} (hc : Conv repl0 repl) (hr : asArg repl = some r) :
    Conv repl0 (.arg r) ∧ asArg repl0 = some r := by
  rcases hc with h | ⟨r0, h0, h1⟩
  · subst h; exact ⟨.inr ⟨r, hr, rfl⟩, hr⟩
  · subst h1
    have : r0 = r := by simpa [asArg] using hr
    subst this
    exact ⟨.inr ⟨r0, h0, rfl⟩, h0⟩

/-- `visit_FunctionDef` does nothing on a function that is not at `search[:-1]`, once replaced, or after an exception -/
theorem visitFn_skip {search : Loc} {parent : Option String} {st : RState} {name : String} {a : Args}
    (hc : (st.replaced || st.err.isSome || (parent.toList ++ [name] != search.dropLast)) = true) :
    visitFn search parent st name a = (a, st) := by
  unfold visitFn; simp only [hc, if_true]

/-- … and otherwise: default transfer + conversion (`prepare`), then the scan of `args` and `kwonlyargs` -/
theorem visitFn_go {search : Loc} {parent : Option String} {st : RState} {name : String} {a : Args}
    (hc : ¬ (st.replaced || st.err.isSome || (parent.toList ++ [name] != search.dropLast)) = true) :
    visitFn search parent st name a =
      match asArg st.repl with
      | none => (a, { st with err := some .assertion })
      | some r =>
        let loc := parent.toList ++ [name]
        let p := prepare loc a st.repl
        let ra := replaceFirst loc search r p.args.args
        let rk := replaceFirst loc search r p.args.kwonly
        ({ p.args with args := ra.1, kwonly := rk.1 },
         { st with repl := .arg r, replaced := ra.2 || rk.2, poisoned := st.poisoned || p.poisoned,
                   phantom := st.phantom || (p.touched && !(ra.2 || rk.2)) }) := by
  unfold visitFn; simp only [hc, prepare_repl]; rfl

theorem visitFn_post (search : Loc) (repl0 : Node) (parent : Option String) (st : RState) (name : String) (a : Args) :
    Post repl0 st (visitFn search parent st name a).2 ((visitFn search parent st name a).1 = a)
      (∃ r, asArg repl0 = some r ∧ ArgsChange (parent.toList ++ [name]) search r a (visitFn search parent st name a).1) := by
  by_cases hc : (st.replaced || st.err.isSome || (parent.toList ++ [name] != search.dropLast)) = true
  · rw [visitFn_skip hc]; exact Post.refl rfl
  · rw [visitFn_go hc]
    have hrep : st.replaced = false := by
      cases h : st.replaced with
      | false => rfl
      | true => simp [h] at hc
    have herr : st.err = none := by
      cases h : st.err with
      | none => rfl
      | some e => simp [h] at hc
    cases hr : asArg st.repl with
    | none =>
      exact { err := fun h => absurd herr h, rep := fun h => (by rw [hrep] at h; cases h), ph := fun h => h,
              main := fun _ _ _ h _ => (by cases h) }
    | some r =>
      simp only []
      obtain ⟨ds, hlen, hargs, hunt⟩ := prepare_args (parent.toList ++ [name]) a st.repl
      generalize hp : prepare (parent.toList ++ [name]) a st.repl = p at *
      have hA := replaceFirst_spec (parent.toList ++ [name]) search r p.args.args
      have hK := replaceFirst_spec (parent.toList ++ [name]) search r p.args.kwonly
      have hCA := replaceFirst_change (parent.toList ++ [name]) search r p.args.args
      have hCK := replaceFirst_change (parent.toList ++ [name]) search r p.args.kwonly
      generalize hra : replaceFirst (parent.toList ++ [name]) search r p.args.args = ra at *
      generalize hrk : replaceFirst (parent.toList ++ [name]) search r p.args.kwonly = rk at *
      refine { err := fun h => absurd herr h, rep := fun h => (by rw [hrep] at h; cases h), ph := fun h => (by simp [h]), main := ?_ }
      intro _ _ hconv _ hph
      obtain ⟨hc1, hr0⟩ := conv_step hconv hr
      refine ⟨hc1, ?_⟩
      simp only [] at hph ⊢
      cases hb1 : ra.2 <;> cases hb2 : rk.2
      · left
        have htouched : p.touched = false := by
          cases h : p.touched with
          | false => rfl
          | true => simp [h, hb1, hb2] at hph
        refine ⟨by simp, ?_⟩
        rw [hA.1 hb1, hK.1 hb2, hargs, hunt htouched]
      all_goals
        right
        refine ⟨by simp, r, hr0, ?_⟩
        rw [hargs] at hCA hCK ⊢
        exact ⟨rfl, rfl, rfl, rfl, hlen, hCA, hCK⟩

/-! ## `generic_visit` -/

theorem ListChange.cons {fnLoc search : Loc} {r : Arg} {l l' : List Arg} (x : Arg) (h : ListChange fnLoc search r l l') :
    ListChange fnLoc search r (x :: l) (x :: l') := by
  rcases h with h | ⟨j, y, hj, hy, he⟩
  · exact .inl (by rw [h])
  · exact .inr ⟨j + 1, y, by simpa using hj, hy, by simp [he]⟩

theorem conv_arg {repl0 : Node} {r : Arg} (hc : Conv repl0 (.arg r)) : asArg repl0 = some r := by
  rcases hc with h | ⟨r0, h0, h1⟩
  · rw [← h]; rfl
  · cases h1; exact h0

theorem visitAsyncArgs_post (fnLoc search : Loc) (repl0 : Node) (st : RState) (l : List Arg) :
    Post repl0 st (visitAsyncArgs fnLoc search st l).2 ((visitAsyncArgs fnLoc search st l).1 = l)
      (∃ r, asArg repl0 = some r ∧ ListChange fnLoc search r l (visitAsyncArgs fnLoc search st l).1) := by
  induction l with
  | nil => unfold visitAsyncArgs; exact Post.refl rfl
  | cons x xs ih =>
    unfold visitAsyncArgs
    by_cases hc : (!st.replaced && st.err.isNone && fnLoc ++ [x.name] == search) = true
    · rw [if_pos hc]
      have hrep : st.replaced = false := by
        cases h : st.replaced with
        | false => rfl
        | true => simp [h] at hc
      have herr : st.err = none := by
        cases h : st.err with
        | none => rfl
        | some e => simp [h] at hc
      have hloc : fnLoc ++ [x.name] = search := by
        simp only [Bool.and_eq_true, beq_iff_eq] at hc; exact hc.2
      cases hr : st.repl with
      | arg r =>
        simp only []
        refine { err := fun h => absurd herr h, rep := fun h => (by rw [hrep] at h; cases h), ph := fun h => h, main := ?_ }
        intro _ _ hconv _ _
        rw [hr] at hconv
        exact ⟨hconv, .inr ⟨rfl, r, conv_arg hconv, .inr ⟨0, x, by simp, hloc, by simp⟩⟩⟩
      | stmt s =>
        simp only []
        exact { err := fun h => absurd herr h, rep := fun h => (by rw [hrep] at h; cases h), ph := fun h => h,
                main := fun _ _ _ h _ => (by cases h) }
    · rw [if_neg hc]
      exact ih.mono (fun h => by simp only []; rw [h]) (fun ⟨r, hr, hch⟩ => ⟨r, hr, hch.cons x⟩)

theorem hit_iff {search : Loc} {parent : Option String} {st : RState} {s : Stmt} :
    hit search parent st s = true ↔ st.replaced = false ∧ st.err = none ∧ locOf parent s = some search := by
  unfold hit
  cases st.replaced <;> cases st.err <;> simp

theorem hit_false_of_replaced {search : Loc} {parent : Option String} {st : RState} {s : Stmt} (h : st.replaced = true) :
    hit search parent st s = false := by
  unfold hit; simp [h]

theorem place_post (search : Loc) (repl0 : Node) (parent : Option String) (argOk : Bool) (st : RState) (s : Stmt)
    (hh : hit search parent st s = true) :
    Post repl0 st (place argOk st).2 ((place argOk st).1 = s) (OneHoleS (Slot search repl0) parent s (place argOk st).1) := by
  obtain ⟨hrep, herr, hloc⟩ := hit_iff.mp hh
  unfold place
  refine { err := fun h => absurd herr h, rep := fun h => (by rw [hrep] at h; cases h), ph := fun h => h, main := ?_ }
  intro _ _ hconv _ _
  exact ⟨hconv, .inr ⟨rfl, .here (.inl ⟨hloc, argOk, st.repl, hconv, rfl⟩)⟩⟩

mutual
/-- invariant of `NodeTransformer.visit` on one statement -/
theorem visit_post (search : Loc) (repl0 : Node) (parent : Option String) (argOk : Bool) (st : RState) : (s : Stmt) →
    Post repl0 st (visit search parent argOk st s).2 ((visit search parent argOk st s).1 = s)
      (OneHoleS (Slot search repl0) parent s (visit search parent argOk st s).1)
  | .fn false name a body ds ret => by
    rw [visit]
    exact (visitFn_post search repl0 parent st name a).mono (fun h => by simp only []; rw [h])
      (fun ⟨r, hr, hc⟩ => .here (.inr ⟨false, name, a, _, body, ds, ret, r, rfl, rfl, hr, hc⟩))
  | .fn true name a body ds ret => by
    rw [visit]
    by_cases hh : hit search parent st (.fn true name a body ds ret) = true
    · rw [if_pos hh]; exact place_post search repl0 parent argOk st _ hh
    · rw [if_neg hh]
      simp only []
      have h1 := visitAsyncArgs_post (parent.toList ++ [name]) search repl0 st a.args
      have h2 := visitAsyncArgs_post (parent.toList ++ [name]) search repl0 (visitAsyncArgs (parent.toList ++ [name]) search st a.args).2 a.kwonly
      have h3 := visitList_post search repl0 (some name) (body.length == 1)
        (visitAsyncArgs (parent.toList ++ [name]) search (visitAsyncArgs (parent.toList ++ [name]) search st a.args).2 a.kwonly).2 body
      refine ((h1.seq h2).seq h3).mono ?_ ?_
      · rintro ⟨⟨e1, e2⟩, e3⟩; rw [e1, e2, e3]
      · rintro (⟨(⟨⟨r, hr, hc⟩, e2⟩ | ⟨e1, ⟨r, hr, hc⟩⟩), e3⟩ | ⟨⟨e1, e2⟩, ho⟩)
        · rw [e2, e3]
          exact .here (.inr ⟨true, name, a, _, body, ds, ret, r, rfl, rfl, hr, rfl, rfl, rfl, rfl, rfl, hc, .inl rfl⟩)
        · rw [e1, e3]
          exact .here (.inr ⟨true, name, a, _, body, ds, ret, r, rfl, rfl, hr, rfl, rfl, rfl, rfl, rfl, .inl rfl, hc⟩)
        · rw [e1, e2]; exact .afn ho
  | .cls n bs ks body ds => by
    rw [visit]
    by_cases hh : hit search parent st (.cls n bs ks body ds) = true
    · rw [if_pos hh]; exact place_post search repl0 parent argOk st _ hh
    · rw [if_neg hh]
      exact (visitList_post search repl0 (some n) (body.length == 1) st body).mono (fun h => by simp only []; rw [h]) (fun h => .cls h)
  | .ann t a v => by
    rw [visit]
    by_cases hh : hit search parent st (.ann t a v) = true
    · rw [if_pos hh]; exact place_post search repl0 parent argOk st _ hh
    · rw [if_neg hh]; exact Post.refl rfl
  | .assign ts v => by
    rw [visit]
    by_cases hh : hit search parent st (.assign ts v) = true
    · rw [if_pos hh]; exact place_post search repl0 parent argOk st _ hh
    · rw [if_neg hh]; exact Post.refl rfl
  | .strExpr s => by rw [visit]; exact Post.refl rfl
  | .expr s => by rw [visit]; exact Post.refl rfl
  | .other s => by rw [visit]; exact Post.refl rfl
/-- invariant of the traversal of a statement list (module or body) -/
theorem visitList_post (search : Loc) (repl0 : Node) (parent : Option String) (argOk : Bool) (st : RState) : (ss : List Stmt) →
    Post repl0 st (visitList search parent argOk st ss).2 ((visitList search parent argOk st ss).1 = ss)
      (OneHole (Slot search repl0) parent ss (visitList search parent argOk st ss).1)
  | [] => by rw [visitList]; exact Post.refl rfl
  | s :: ss => by
    rw [visitList]
    simp only []
    refine ((visit_post search repl0 parent argOk st s).seq
      (visitList_post search repl0 parent false (visit search parent argOk st s).2 ss)).mono ?_ ?_
    · rintro ⟨e1, e2⟩; rw [e1, e2]
    · rintro (⟨ho, e2⟩ | ⟨e1, ho⟩)
      · rw [e2]; exact .head ho
      · rw [e1]; exact .tail ho
end

/-! ## a static condition under which no default is ever written -/

/-- replacement nodes that carry no value to transfer: an input *parameter*, or an annotated assignment without value
    (in particular the `--input-eval` node `name: Literal[…]`) -/
def quiet : Node → Bool
  | .arg _ => true
  | .stmt (.ann _ _ none) => true
  | _ => false

theorem prepare_quiet (fnLoc : Loc) (a : Args) (node : Node) (h : quiet node = true) :
    (prepare fnLoc a node).touched = false := by
  unfold prepare
  split
  · simp [quiet] at h
  · simp [quiet] at h
  · rfl

def Quiet (st : RState) : Prop := st.phantom = false ∧ quiet st.repl = true

theorem visitFn_quiet (search : Loc) (parent : Option String) (st : RState) (name : String) (a : Args) (h : Quiet st) :
    Quiet (visitFn search parent st name a).2 := by
  by_cases hc : (st.replaced || st.err.isSome || (parent.toList ++ [name] != search.dropLast)) = true
  · rw [visitFn_skip hc]; exact h
  · rw [visitFn_go hc]
    cases hr : asArg st.repl with
    | none => exact h
    | some r =>
      simp only []
      exact ⟨by simp [h.1, prepare_quiet _ a st.repl h.2], rfl⟩

theorem visitAsyncArgs_quiet (fnLoc search : Loc) (st : RState) (l : List Arg) (h : Quiet st) :
    Quiet (visitAsyncArgs fnLoc search st l).2 := by
  induction l with
  | nil => unfold visitAsyncArgs; exact h
  | cons x xs ih =>
    unfold visitAsyncArgs
    split
    · split
      · exact ⟨h.1, h.2⟩
      · exact h
    · exact ih

theorem place_quiet (argOk : Bool) (st : RState) (h : Quiet st) : Quiet (place argOk st).2 := by
  unfold place; exact h

mutual
theorem visit_quiet (search : Loc) (parent : Option String) (argOk : Bool) (st : RState) : (s : Stmt) → Quiet st →
    Quiet (visit search parent argOk st s).2
  | .fn false name a body ds ret, h => by rw [visit]; exact visitFn_quiet search parent st name a h
  | .fn true name a body ds ret, h => by
    rw [visit]
    split
    · exact place_quiet argOk st h
    · exact visitList_quiet search (some name) _ _ body
        (visitAsyncArgs_quiet _ search _ a.kwonly (visitAsyncArgs_quiet _ search st a.args h))
  | .cls n bs ks body ds, h => by
    rw [visit]
    split
    · exact place_quiet argOk st h
    · exact visitList_quiet search (some n) _ st body h
  | .ann t a v, h => by
    rw [visit]
    split
    · exact place_quiet argOk st h
    · exact h
  | .assign ts v, h => by
    rw [visit]
    split
    · exact place_quiet argOk st h
    · exact h
  | .strExpr s, h => by rw [visit]; exact h
  | .expr s, h => by rw [visit]; exact h
  | .other s, h => by rw [visit]; exact h
theorem visitList_quiet (search : Loc) (parent : Option String) (argOk : Bool) (st : RState) : (ss : List Stmt) → Quiet st →
    Quiet (visitList search parent argOk st ss).2
  | [], h => by rw [visitList]; exact h
  | s :: ss, h => by
    rw [visitList]
    exact visitList_quiet search parent false _ ss (visit_quiet search parent argOk st s h)
end

/-! ## parameter / default alignment -/

theorem annotFrom_find (fnLoc : Loc) (t : String) : ∀ (l : List Arg) (i : Int),
    ((annotFrom fnLoc i l).find? (·.arg.name == t)).map (·.idx) = (l.findIdx? (·.name == t)).map (fun (j : Nat) => i + (j : Int))
  | [], _ => by simp [annotFrom]
  | x :: xs, i => by
    unfold annotFrom
    rw [List.find?_cons, List.findIdx?_cons]
    by_cases h : (x.name == t) = true
    · simp [h]
    · simp only [h]
      rw [annotFrom_find fnLoc t xs (i + 1)]
      cases xs.findIdx? (·.name == t) with
      | none => simp
      | some j => simp; omega

/-- `_idx` of the first parameter named `t`: its position minus one when the function starts with `self`/`cls` -/
theorem idxOfName_eq (fnLoc : Loc) (a : Args) (t : String) :
    idxOfName fnLoc a t = (a.args.findIdx? (·.name == t)).map (fun (j : Nat) => (j : Int) - selfOffset a) := by
  unfold idxOfName annotArgs
  rw [annotFrom_find]
  cases a.args.findIdx? (·.name == t) with
  | none => rfl
  | some j => simp; omega

/-- the `self`/`cls` offset of `_idx` cancels: the index into `defaults` is the position of the parameter minus the
    number of parameters without default — CPython's right alignment — with or without a leading `self`/`cls` -/
theorem defaultIndex_of_position (a : Args) (j : Nat) :
    defaultIndex a ((j : Int) - selfOffset a) = (j : Int) - ((a.args.length : Int) - (a.defaults.length : Int)) := by
  unfold defaultIndex; omega

/-- which entry of `defaults` `visit_FunctionDef` may overwrite: none, or the one right-aligned with the first
    parameter that has the input's name — and only when the input is an annotated assignment with a value -/
theorem prepare_alignment (fnLoc : Loc) (a : Args) (node : Node) :
    (prepare fnLoc a node).args.defaults = a.defaults ∨
    ∃ t ann val j, ∃ k : Nat, node = .stmt (.ann t ann (some val)) ∧ a.args.findIdx? (·.name == t) = some j ∧
      (k : Int) = (j : Int) - ((a.args.length : Int) - (a.defaults.length : Int)) ∧ k < a.defaults.length ∧
      (prepare fnLoc a node).args.defaults = a.defaults.set k val := by
  unfold prepare
  split
  · rename_i t ann val
    rw [idxOfName_eq]
    cases hj : a.args.findIdx? (·.name == t) with
    | none => left; rfl
    | some j =>
      simp only [Option.map_some]
      rw [defaultIndex_of_position]
      split
      · rename_i hr
        right
        simp only [inRange, Bool.and_eq_true, decide_eq_true_eq] at hr
        refine ⟨t, ann, val, j, ((j : Int) - ((a.args.length : Int) - (a.defaults.length : Int))).toNat, rfl, hj, ?_, ?_, rfl⟩
        · omega
        · omega
      · left; rfl
  · split
    · split <;> (left; rfl)
    · left; rfl
  · left; rfl

theorem replaceFirst_findIdx (fnLoc search : Loc) (r : Arg) : ∀ l : List Arg,
    (replaceFirst fnLoc search r l).1 =
      match l.findIdx? (fun x => fnLoc ++ [x.name] == search) with
      | some j => l.set j r
      | none => l
  | [] => by simp [replaceFirst]
  | x :: xs => by
    unfold replaceFirst
    rw [List.findIdx?_cons]
    by_cases h : (fnLoc ++ [x.name] == search) = true
    · simp [h]
    · simp only [h]
      rw [replaceFirst_findIdx fnLoc search r xs]
      cases xs.findIdx? (fun x => fnLoc ++ [x.name] == search) with
      | none => simp
      | some j => simp

theorem replaceFirst_snd (fnLoc search : Loc) (r : Arg) : ∀ l : List Arg,
    (replaceFirst fnLoc search r l).2 = (l.findIdx? (fun x => fnLoc ++ [x.name] == search)).isSome
  | [] => by simp [replaceFirst]
  | x :: xs => by
    unfold replaceFirst
    rw [List.findIdx?_cons]
    by_cases h : (fnLoc ++ [x.name] == search) = true
    · simp [h]
    · simp only [h]
      rw [replaceFirst_snd fnLoc search r xs]
      cases xs.findIdx? (fun x => fnLoc ++ [x.name] == search) with
      | none => simp
      | some j => simp

/-- CPython's alignment (`PyAst.Args.positionalDefault?`): the default of the `j`-th of `args` is `defaults[k]`
    for `k = j - (len(args) - len(defaults))`, on a well-formed signature -/
theorem positionalDefault_eq (a : Args) (j k : Nat) (hj : j < a.args.length)
    (hwf : a.defaults.length ≤ a.posonly.length + a.args.length)
    (hk : (k : Int) = (j : Int) - ((a.args.length : Int) - (a.defaults.length : Int))) :
    a.positionalDefault? (a.posonly.length + j) = a.defaults[k]? := by
  unfold Args.positionalDefault?
  simp only []
  have h1 : a.posonly.length + j < a.posonly.length + a.args.length := by omega
  have h2 : a.posonly.length + a.args.length - a.defaults.length ≤ a.posonly.length + j := by omega
  rw [if_pos ⟨h1, h2⟩]
  congr 1
  omega

/-! ## `find_in_ast` -/

/-- module-level statements `find_in_ast` passes over unharmed while it looks for the class named `c`:
    NOT a `FunctionDef` (each one consumes a component of the query), not an annotated variable named `c`,
    not another definition named `c` -/
def passesTop (c : String) : Stmt → Bool
  | .fn false _ _ _ _ _ => false
  | .fn true n _ _ _ _ => n != c
  | .cls n _ _ _ _ => n != c
  | .ann t _ _ => !(isNameText t && t == c)
  | _ => true

/-- statements of the class body passed over while it looks for the attribute `x`: nothing else named `x`,
    and no method with a parameter named `x` (that parameter would be returned instead) -/
def passesBody (x : String) : Stmt → Bool
  | .fn false n a _ _ _ => n != x && (a.args.find? (·.name == x)).isNone
  | .fn true n _ _ _ _ => n != x
  | .cls n _ _ _ _ => n != x
  | .ann t _ _ => !(isNameText t && t == x)
  | .assign ts _ => !(ts.all isNameText && ts.getLast? == some x)
  | _ => true

theorem locOf_none_ne (s : Stmt) (c x : String) : (locOf none s == some [c, x]) = false := by
  unfold locOf
  cases ownName? s <;> simp

theorem forLoop_skip_top {c x : String} {s : Stmt} {rest : List Stmt} {last : Option Stmt} {ca : Bool}
    (h : passesTop c s = true) :
    forLoop [c, x] none (s :: rest) c [x] last ca = forLoop [c, x] none rest c [x] (some s) ca := by
  cases s with
  | fn as n a b d r =>
    cases as with
    | false => simp [passesTop] at h
    | true =>
      simp only [forLoop, locOf_none_ne]
      simp only [passesTop, bne_iff_ne, ne_eq] at h
      simp [Stmt.defName?, h]
  | cls n bs ks b d =>
    simp only [forLoop, locOf_none_ne]
    simp only [passesTop, bne_iff_ne, ne_eq] at h
    simp [Stmt.defName?, h]
  | ann t a v =>
    simp only [forLoop, locOf_none_ne]
    simp only [passesTop, Bool.not_eq_true'] at h
    simp [h]
  | assign ts v => simp only [forLoop, locOf_none_ne]; simp [Stmt.defName?]
  | strExpr s => simp only [forLoop, locOf_none_ne]; simp [Stmt.defName?]
  | expr s => simp only [forLoop, locOf_none_ne]; simp [Stmt.defName?]
  | other s => simp only [forLoop, locOf_none_ne]; simp [Stmt.defName?]

theorem forLoop_top {c x : String} (pre : List Stmt) (cls : Stmt) (post : List Stmt) (hpre : pre.all (passesTop c) = true)
    (hc : cls.defName? = some c) (hk : ∀ a n g b d r, cls ≠ .fn a n g b d r) :
    ∀ (last : Option Stmt) (ca : Bool), forLoop [c, x] none (pre ++ cls :: post) c [x] last ca = .brk cls [x] := by
  induction pre with
  | nil =>
    intro last ca
    cases cls with
    | cls n bs ks b d =>
      simp only [Stmt.defName?, Option.some.injEq] at hc
      simp only [List.nil_append, forLoop, locOf_none_ne]
      simp [Stmt.defName?, hc]
    | fn a n g b d r => exact absurd rfl (hk a n g b d r)
    | _ => simp [Stmt.defName?] at hc
  | cons s ss ih =>
    intro last ca
    simp only [List.all_cons, Bool.and_eq_true] at hpre
    rw [List.cons_append, forLoop_skip_top hpre.1]
    exact ih hpre.2 _ _

theorem locOf_body_ne {c x : String} {s : Stmt} (h : passesBody x s = true) : (locOf (some c) s == some [c, x]) = false := by
  unfold locOf
  cases s with
  | fn as n a b d r =>
    cases as <;> simp_all [passesBody, ownName?]
  | cls n bs ks b d => simp_all [passesBody, ownName?]
  | ann t a v =>
    simp only [passesBody, Bool.not_eq_true', Bool.and_eq_false_iff] at h
    simp only [ownName?]
    split
    · rename_i hn
      rcases h with h | h
      · rw [hn] at h; cases h
      · simpa using h
    · simp
  | assign ts v =>
    simp only [passesBody, Bool.not_eq_true', Bool.and_eq_false_iff] at h
    simp only [ownName?]
    split
    · rename_i hn
      rcases h with h | h
      · rw [hn] at h; cases h
      · cases hl : ts.getLast? with
        | none => simp
        | some y => simp [hl] at h ⊢; exact h
    · simp
  | strExpr s => simp [ownName?]
  | expr s => simp [ownName?]
  | other s => simp [ownName?]

theorem forLoop_skip_body {c x : String} {s : Stmt} {rest : List Stmt} {last : Option Stmt} {ca : Bool}
    (h : passesBody x s = true) :
    forLoop [c, x] (some c) (s :: rest) x [] last ca = forLoop [c, x] (some c) rest x [] (some s) ca := by
  have hl := locOf_body_ne (c := c) h
  cases s with
  | fn as n a b d r =>
    cases as with
    | false =>
      simp only [forLoop, hl]
      simp only [passesBody, Bool.and_eq_true, Option.isNone_iff_eq_none] at h
      simp [h.2]
    | true =>
      simp only [forLoop, hl]
      simp only [passesBody, bne_iff_ne, ne_eq] at h
      simp [Stmt.defName?, h]
  | cls n bs ks b d =>
    simp only [forLoop, hl]
    simp only [passesBody, bne_iff_ne, ne_eq] at h
    simp [Stmt.defName?, h]
  | ann t a v =>
    simp only [forLoop, hl]
    simp only [passesBody, Bool.not_eq_true'] at h
    simp [h]
  | assign ts v => simp only [forLoop, hl]; simp [Stmt.defName?]
  | strExpr s => simp only [forLoop, hl]; simp [Stmt.defName?]
  | expr s => simp only [forLoop, hl]; simp [Stmt.defName?]
  | other s => simp only [forLoop, hl]; simp [Stmt.defName?]

theorem forLoop_body {c x ann : String} {v : Option String} (bpre bpost : List Stmt) (hx : isNameText x = true)
    (hpre : bpre.all (passesBody x) = true) :
    ∀ (last : Option Stmt) (ca : Bool),
      forLoop [c, x] (some c) (bpre ++ .ann x ann v :: bpost) x [] last ca = .ret (.stmt (.ann x ann v)) := by
  induction bpre with
  | nil =>
    intro last ca
    simp [forLoop, locOf, ownName?, hx]
  | cons s ss ih =>
    intro last ca
    simp only [List.all_cons, Bool.and_eq_true] at hpre
    rw [List.cons_append, forLoop_skip_body hpre.1]
    exact ih hpre.2 _ _

/-- observers with decidable equality, for the concrete witnesses -/
def foundAnn : Except Err (Option Node) → Option (Option String)
  | .ok (some (.arg a)) => some a.ann
  | .ok (some (.stmt (.ann _ a _))) => some (some a)
  | _ => none

def isOk {α} : Except Err α → Bool
  | .ok _ => true
  | .error _ => false

def errOf {α} : Except Err α → Option Err
  | .ok _ => none
  | .error e => some e

/-- a decidable view of a signature list: names, annotations and defaults of `args` -/
def sigView : Stmt → Option (List (String × Option String) × List String)
  | .fn _ _ a _ _ _ => some (a.args.map (fun x => (x.name, x.ann)), a.defaults)
  | _ => none

/-! ## reference meaning of a dotted path (what the property's statement calls "the selected input property") -/

/-- `C.x`: the annotated attribute `x` of the first class `C` of the module -/
def intendedAttr (c x : String) (m : Module) : Option (String × Option String) :=
  (m.find? fun s => match s with | .cls n _ _ _ _ => n == c | _ => false).bind fun s =>
    (s.body.findSome? fun t => match t with | .ann t' a v => if t' == x then some (a, v) else none | _ => none)

/-- `f.p`: the parameter `p` of the first function `f` of the module -/
def intendedParam (f p : String) (m : Module) : Option Arg :=
  (m.find? fun s => match s with | .fn false n _ _ _ _ => n == f | _ => false).bind fun s =>
    match s with
    | .fn _ _ a _ _ _ => a.args.find? (·.name == p)
    | _ => none

end SyncProps
