import CddVerif.Proofs.DocRoundTrip
/-!
# One conversion round reaches a fixpoint (C08) — whole ReST docstrings on the model

Helper lemmas for `Properties/C08Whole.lean`: the emitter as an equation (so that "round 1 answered" can be turned into
"round 2 answers"), the emitter on given blocks of lines, and the second round `parseRest (emit (expIR ir)) = expIR ir`.
-/
namespace DocRT
open Py Doc DocSplit DocUtils

/-! ### `emit_param_str` as an equation -/

/-- `fill` each line, then join -/
def blockOut (ww : Bool) (ls : List Str) : Out Str :=
  match mapOut (fillLine ww) ls with
  | .ok a => .ok (join ['\n'] (a.map indentAllButFirst))
  | .outside w => .outside w

theorem emitParamStr_eq (name : Str) (p : Param) (et ww edd : Bool) (d' : Str) (hdoc : truthy p.doc = true)
    (hs : setDefaultDoc name p edd = .ok (some d')) :
    emitParamStr name p .rest et ww edd = blockOut ww (linesOf (name == sReturnType) name d' p.typ et) := by
  unfold emitParamStr blockOut
  simp (config := {zeta := false}) only [bind, pure, hdoc, if_true, hs, mapM_eq]
  cases hr : (name == sReturnType) <;> cases ht : (et && truthy p.typ) <;>
    simp only [ht, lit_param, lit_type, lit_return, lit_rtype, Option.map_some, if_true, if_false, Bool.false_eq_true,
      List.filterMap_cons, List.filterMap_nil, id, List.singleton_append, List.cons_append, List.nil_append, List.append_assoc,
      List.filter_cons, List.filter_nil, List.isEmpty_cons, Bool.not_false,
      linesOf, paramLine, typeLine, returnLine, rtypeLine, pfxParam, pfxType, pfxReturn, pfxRtype] <;>
    (generalize mapOut (fillLine ww) _ = r; cases r <;> rfl)

/-- the line passes `fill` unchanged (always when word wrap is off) -/
def Fits (ww : Bool) (l : Str) : Prop := fillLine ww l = .ok l

theorem mapOut_fits (ww : Bool) (ls : List Str) (h : ∀ l ∈ ls, Fits ww l) : mapOut (fillLine ww) ls = .ok ls := by
  induction ls with
  | nil => rfl
  | cons l r ih =>
    have h1 : fillLine ww l = .ok l := h l (by simp)
    simp only [mapOut, h1, ih (fun x hx => h x (by simp [hx]))]

theorem fits_of_mapOut (ww : Bool) (ls ls' : List Str) (h : mapOut (fillLine ww) ls = .ok ls') : ∀ l ∈ ls, Fits ww l := by
  induction ls generalizing ls' with
  | nil => intro l hl; cases hl
  | cons x r ih =>
    simp only [mapOut] at h
    cases hf : fillLine ww x with
    | outside w => rw [hf] at h; cases h
    | ok x' =>
      rw [hf] at h
      cases hm : mapOut (fillLine ww) r with
      | outside w => rw [hm] at h; cases h
      | ok r' =>
        intro l hl
        simp only [List.mem_cons] at hl
        rcases hl with rfl | hl
        · unfold Fits; rw [hf, fillLine_ok ww l x' hf]
        · exact ih r' hm l hl

theorem blockOut_fits (ww : Bool) (ls : List Str) (hf : ∀ l ∈ ls, Fits ww l) (hg : ∀ l ∈ ls, GoodLine l) :
    blockOut ww ls = .ok (join ['\n'] ls) := by
  unfold blockOut
  rw [mapOut_fits ww ls hf]
  simp only []
  rw [map_id_of _ _ (fun l hl => goodLine_indent l (hg l hl))]

theorem fits_of_blockOut (ww : Bool) (ls : List Str) (b : Str) (h : blockOut ww ls = .ok b) : ∀ l ∈ ls, Fits ww l := by
  unfold blockOut at h
  cases hm : mapOut (fillLine ww) ls with
  | outside w => rw [hm] at h; cases h
  | ok a => exact fits_of_mapOut ww ls a hm

theorem fits_noWrap (l : Str) : Fits false l := by unfold Fits fillLine; rfl

/-! ### the emitter on given blocks (generic form of `emit_lines`, with existence of the text) -/

/-- from a text `pre ++ body ++ "\n"` (or the bare header) to its lines -/
theorem text_lines (h : Str) (AB : List (List Str)) (T : Str)
    (hh : h = [] ∨ (GoodHeader h ∧ NoTok h))
    (hall : ∀ b ∈ AB, b ≠ [] ∧ ∀ l ∈ b, '\n' ∉ l)
    (hT : (AB = [] ∧ (T = h ∨ T = '\n' :: h))
        ∨ (AB ≠ [] ∧ ∃ pre, Pre h pre ∧ T = pre ++ join ['\n', '\n'] (AB.map (join ['\n'])) ++ ['\n'])) :
    ∃ hdr, split1 T '\n' = hdr ++ AB.flatMap (· ++ [[]]) ∧ (∀ l ∈ hdr, NoTok l) ∧ strip (join ['\n'] hdr) = h := by
  have hcol : NoTok h := by
    rcases hh with h0 | h0
    · rw [h0]; exact noTok_nil
    · exact h0.2
  have hstrip : strip h = h := by
    rcases hh with h0 | h0
    · rw [h0]; rfl
    · exact strip_id _ h0.1.headNS h0.1.lastNS
  rcases hT with ⟨h0, hT⟩ | ⟨hne, pre, hpre, hs⟩
  · rw [h0]
    simp only [List.flatMap_nil, List.append_nil]
    rcases hT with e | e
    · rw [e]
      exact ⟨split1 h '\n', rfl, noTok_lines _ _ hcol, by rw [join_split1]; exact hstrip⟩
    · rw [e]
      refine ⟨[] :: split1 h '\n', split1_cons_sep _ _, ?_, ?_⟩
      · intro l hl
        simp only [List.mem_cons] at hl
        rcases hl with rfl | hl
        · exact noTok_nil
        · exact noTok_lines _ _ hcol l hl
      · cases hsp : split1 h '\n' with
        | nil => exact absurd hsp (join_split1_nonempty _)
        | cons y r =>
          rw [join_cons2, ← hsp, join_split1]
          rcases hh with h1 | h1
          · rw [h1]; decide
          · have := strip_core ['\n'] h [] allSpace_nl allSpace_nil h1.1.headNS h1.1.lastNS
            simpa using this
  · have hbodyL := split1_body AB hne hall
    generalize join ['\n', '\n'] (AB.map (join ['\n'])) = body at hs hbodyL
    have hbl : split1 (body ++ ['\n']) '\n' = AB.flatMap (· ++ [[]]) := by
      rw [← hbodyL]
      have := split1_append_sep '\n' body []
      rw [this, split1_nil]
    cases hpre with
    | none h0 =>
      refine ⟨[], ?_, by simp, by rw [h0]; rfl⟩
      rw [hs, List.nil_append, List.nil_append, hbl]
    | nl h0 =>
      refine ⟨[[]], ?_, by intro l hl; simp only [List.mem_singleton] at hl; subst hl; exact noTok_nil, by rw [h0]; rfl⟩
      rw [hs]
      show split1 ('\n' :: (body ++ ['\n'])) '\n' = _
      rw [split1_cons_sep, hbl]; rfl
    | hdr hg =>
      refine ⟨split1 h '\n' ++ [[]], ?_, ?_, ?_⟩
      · rw [hs]
        have e : h ++ ['\n', '\n'] ++ body ++ ['\n'] = h ++ '\n' :: ('\n' :: (body ++ ['\n'])) := by simp
        rw [e, split1_append_sep, split1_cons_sep, hbl]; simp
      · intro l hl
        rcases List.mem_append.mp hl with hl | hl
        · exact noTok_lines _ _ hcol l hl
        · simp only [List.mem_singleton] at hl; subst hl; exact noTok_nil
      · rw [join_append_singleton _ _ _ (join_split1_nonempty _), join_split1]
        have := strip_core [] h ['\n'] allSpace_nil allSpace_nl hg.headNS hg.lastNS
        simpa using this

/-- **the emitter answers, and the lines of its text**, for an interface whose parameter blocks are the given lists of
    lines `LL` and whose return block is `RL` -/
theorem emit_of_blocks (jr : IR) (et ww edd : Bool) (LL : List (List Str)) (RL : Option (List Str))
    (hh : jr.doc = [] ∨ (GoodHeader jr.doc ∧ NoTok jr.doc))
    (hp : mapOut (fun np => emitParamStr np.1 np.2 .rest et ww edd) jr.params = .ok (LL.map (join ['\n'])))
    (hr : (jr.returns = Option.none ∧ RL = Option.none)
        ∨ ∃ rp rl, jr.returns = some rp ∧ RL = some rl ∧ emitParamStr sReturnType rp .rest et ww edd = .ok (join ['\n'] rl))
    (hg : ∀ b ∈ LL ++ RL.toList, b ≠ [] ∧ ∀ l ∈ b, GoodLine l) :
    ∃ s hdr, emit jr .rest et ww edd = .ok s ∧ split1 s '\n' = hdr ++ (LL ++ RL.toList).flatMap (· ++ [[]])
      ∧ (∀ l ∈ hdr, NoTok l) ∧ strip (join ['\n'] hdr) = jr.doc := by
  have hh' : jr.doc = [] ∨ GoodHeader jr.doc := by
    rcases hh with h | h
    · exact Or.inl h
    · exact Or.inr h.1
  have hall : ∀ b ∈ LL ++ RL.toList, b ≠ [] ∧ ∀ l ∈ b, '\n' ∉ l :=
    fun b hb => ⟨(hg b hb).1, fun l hl => goodLine_no_nl l ((hg b hb).2 l hl)⟩
  have hbody : ∀ b ∈ LL.map (join ['\n']), Bodyish b := by
    intro b hb
    obtain ⟨ls, hls, rfl⟩ := List.mem_map.mp hb
    have := hg ls (by simp [hls])
    exact bodyish_join _ _ this.1 (fun l hl => goodLine_bodyish l (this.2 l hl))
  have hP : join ['\n', '\n'] (LL.map (join ['\n'])) = [] ∨ Bodyish (join ['\n', '\n'] (LL.map (join ['\n']))) := by
    cases hbl : LL.map (join ['\n']) with
    | nil => left; rfl
    | cons b r => right; rw [← hbl]; exact bodyish_join _ _ (by rw [hbl]; simp) hbody
  have hPnil : join ['\n', '\n'] (LL.map (join ['\n'])) = [] → LL = [] := by
    intro h0
    cases hL : LL with
    | nil => rfl
    | cons b r =>
      have := bodyish_ne _ (bodyish_join ['\n', '\n'] (LL.map (join ['\n'])) (by rw [hL]; simp) hbody)
      exact absurd h0 this
  rw [emit_rest_eq]
  unfold emitRest'
  rw [hp]
  simp only []
  rcases hr with ⟨hr, hRL⟩ | ⟨rp, rl, hr, hRL, hl⟩
  · subst hRL
    rw [hr]
    simp only [Option.toList_none, List.append_nil] at hall ⊢
    refine ⟨finish (outOf jr.doc (join ['\n', '\n'] (LL.map (join ['\n']))) []), ?_⟩
    have := text_lines jr.doc LL (finish (outOf jr.doc (join ['\n', '\n'] (LL.map (join ['\n']))) [])) hh hall ?_
    · obtain ⟨hdr, h1, h2, h3⟩ := this
      exact ⟨hdr, rfl, h1, h2, h3⟩
    · rcases hP with hP | hP
      · left
        refine ⟨hPnil hP, ?_⟩
        rw [hP]
        exact outOf_shape_nothing jr.doc hh'
      · right
        refine ⟨?_, ?_⟩
        · rintro rfl; exact bodyish_ne _ hP rfl
        · obtain ⟨pre, hpre, hfin⟩ := outOf_shape_noret jr.doc _ hh' hP
          exact ⟨pre, hpre, hfin⟩
  · subst hRL
    rw [hr]
    simp only []
    rw [hl]
    simp only [Option.toList_some] at hall ⊢
    have hB2 : Bodyish (join ['\n'] rl) := by
      have := hg rl (by simp)
      exact bodyish_join _ _ this.1 (fun l hl => goodLine_bodyish l (this.2 l hl))
    refine ⟨finish (outOf jr.doc (join ['\n', '\n'] (LL.map (join ['\n'])))
      (retPart (join ['\n', '\n'] (LL.map (join ['\n']))) (join ['\n'] rl))), ?_⟩
    have := text_lines jr.doc (LL ++ [rl]) (finish (outOf jr.doc (join ['\n', '\n'] (LL.map (join ['\n'])))
      (retPart (join ['\n', '\n'] (LL.map (join ['\n']))) (join ['\n'] rl)))) hh hall ?_
    · obtain ⟨hdr, h1, h2, h3⟩ := this
      exact ⟨hdr, rfl, h1, h2, h3⟩
    · right
      refine ⟨by simp, ?_⟩
      obtain ⟨pre, hpre, hfin⟩ := outOf_shape jr.doc _ (join ['\n'] rl) hh' hP hB2
      refine ⟨pre, hpre, ?_⟩
      rw [hfin, List.map_append]
      cases hbl : LL.map (join ['\n']) with
      | nil => simp [join]
      | cons b r =>
        have : (join ['\n', '\n'] (b :: r)).isEmpty = false := by
          have := bodyish_ne _ (bodyish_join ['\n', '\n'] (b :: r) (by simp) (by rw [← hbl]; exact hbody))
          cases hj : join ['\n', '\n'] (b :: r) with
          | nil => exact absurd hj this
          | cons _ _ => rfl
        rw [this]
        simp only [List.map_cons, List.map_nil]
        rw [join_append_singleton _ _ _ (by simp)]
        simp

/-! ### round 2: what the emitter does with a parsed entry -/

theorem defaultsTo_mentions : contains defaultsTo "Defaults".toList = true := by decide

/-- **`set_default_doc` leaves an already completed description alone** (whatever the type field holds) -/
theorem setDefaultDoc_exp (name : Str) (p : Param) (typ : Option Str) (edd : Bool) (hp : GoodEntry p) :
    setDefaultDoc name { typ := typ, doc := some (docText p edd), default := dfltOf p edd } edd
      = .ok (some (docText p edd)) := by
  unfold setDefaultDoc
  simp only []
  cases hd : p.doc with
  | none => exact absurd hd hp.docSome
  | some d =>
    have g := hp.doc d hd
    cases hv : dfltOf p edd with
    | none =>
      have hdt : docText p edd = d := by
        unfold docText; rw [hd]; simp only []
        unfold dfltOf at hv; rw [hv]
      rw [hdt]
      simp only [g.noDef1, g.noDef2, Bool.or_self, Bool.false_and, Bool.false_eq_true, if_false]
    | some v =>
      have hedd : edd = true := by
        cases edd
        · simp [dfltOf] at hv
        · rfl
      subst hedd
      have hv' : p.default = some v := by simpa [dfltOf] using hv
      have hdt : docText p true = C01.baseOf d ++ defaultsTo ++ renderVal v := by
        unfold docText; rw [hd]; simp only [if_true, hv']
      rw [hdt]
      have hm : contains (C01.baseOf d ++ defaultsTo ++ renderVal v) "Defaults".toList = true :=
        contains_append_left' _ _ _ (contains_append_right' _ _ _ defaultsTo_mentions)
      simp only [hm, Bool.true_or, Bool.not_true, Bool.and_false, Bool.false_and, Bool.false_eq_true, if_false]

/-- the type names inferred from the defaults of the domain are good types -/
theorem goodTyp_tyName (v : Default) (h : GoodDefault v) :
    GoodTyp (tyName v) ∧ (tyName v).length ≤ 5 ∧ ∀ c ∈ tyName v, isSpaceC c = false := by
  have key : ∀ t : Str, (t = ['i','n','t'] ∨ t = ['f','l','o','a','t'] ∨ t = ['b','o','o','l']) →
      GoodTyp t ∧ t.length ≤ 5 ∧ ∀ c ∈ t, isSpaceC c = false := by
    intro t ht
    rcases ht with rfl | rfl | rfl
    · exact ⟨⟨by decide, by decide, by decide⟩, by decide, by decide⟩
    · exact ⟨⟨by decide, by decide, by decide⟩, by decide, by decide⟩
    · exact ⟨⟨by decide, by decide, by decide⟩, by decide, by decide⟩
  cases v with
  | int _ => exact key _ (Or.inl rfl)
  | float _ => exact key _ (Or.inr (Or.inl rfl))
  | bool _ => exact key _ (Or.inr (Or.inr rfl))
  | str _ => exact absurd h (by simp [GoodDefault])
  | none => exact absurd h (by simp [GoodDefault])
  | code _ => exact absurd h (by simp [GoodDefault])

/-- the type field after round 1, when it is emitted in round 2: the declared type, or the one inferred from the default -/
theorem typ2_cases (et edd : Bool) (p : Param) (hp : GoodEntry p) (h : (et && truthy (expParam et edd p).typ) = true) :
    ∃ t, (expParam et edd p).typ = some t ∧ GoodTyp t ∧ (∀ v, p.default = some v → Compat (some t) v)
      ∧ (((et && truthy p.typ) = true ∧ p.typ = some t)
        ∨ ((et && truthy p.typ) = false ∧ ∃ v, dfltOf p edd = some v ∧ t = tyName v)) := by
  simp only [Bool.and_eq_true] at h
  obtain ⟨het, htr⟩ := h
  subst het
  unfold expParam at htr ⊢
  cases ht : truthy p.typ with
  | true =>
    obtain ⟨t, hto, _⟩ := truthy_some p.typ ht
    simp only [Bool.true_and, if_true]
    refine ⟨t, hto, hp.typ t hto, ?_, Or.inl ⟨by simp, hto⟩⟩
    intro v hv; have := (hp.dflt v hv).2; rw [hto] at this; exact this
  | false =>
    simp only [ht, Bool.true_and, Bool.false_eq_true, if_false] at htr ⊢
    cases hv : dfltOf p edd with
    | none => rw [hv] at htr; cases htr
    | some v =>
      refine ⟨tyName v, rfl, (goodTyp_tyName v (dfltOf_good p edd hp v hv)).1, ?_, Or.inr ⟨by simp, v, rfl, rfl⟩⟩
      intro w hw
      have : w = v := by
        unfold dfltOf at hv
        cases edd
        · simp at hv
        · simp only [if_true] at hv; rw [hw] at hv; exact Option.some.inj hv
      subst this
      exact compat_tyName w

/-- the lines of a parameter in round 2 -/
def entryLines2 (name : Str) (p : Param) (et edd : Bool) : List Str :=
  paramLine name (docText p edd)
    :: (if et && truthy (expParam et edd p).typ then [typeLine name ((expParam et edd p).typ.getD [])] else [])

theorem entryLines2_good (name : Str) (p : Param) (et edd : Bool) (hn : GoodName name) (hp : GoodEntry p) :
    ∀ l ∈ entryLines2 name p et edd, GoodLine l ∧ EntryLine l := by
  have hncol : ':' ∉ name := fun h => (hn.chars _ h).1 rfl
  intro l hl
  unfold entryLines2 at hl
  simp only [List.mem_cons] at hl
  rcases hl with rfl | hl
  · exact ⟨paramLine_good name _ hn (docText_good p edd hp), paramLine_entry name _ hncol (docText_good p edd hp).noTok⟩
  · split at hl
    · rename_i ht
      obtain ⟨t, hto, gt, _, _⟩ := typ2_cases et edd p hp ht
      simp only [List.mem_singleton] at hl
      subst hl
      rw [hto]
      exact ⟨typeLine_good name t hn gt, typeLine_entry name t hncol (fun h => (gt.chars _ h).1 rfl)⟩
    · cases hl

/-- a `:type` line with a type name of at most 5 letters fits whenever the `:param` line with the default prose does -/
theorem fits_inferred (ww : Bool) (name D t : Str) (hf : Fits ww (paramLine name D)) (hD : 13 ≤ D.length)
    (ht : t.length ≤ 5) (hts : ∀ c ∈ t, isSpaceC c = false) : Fits ww (typeLine name t) := by
  unfold Fits fillLine at hf ⊢
  cases ww with
  | false => rfl
  | true =>
    simp only [Bool.not_true, Bool.false_eq_true, if_false] at hf ⊢
    split at hf
    · rename_i hc
      simp only [Bool.and_eq_true, decide_eq_true_eq, Bool.not_eq_true'] at hc
      obtain ⟨⟨⟨hlen, hany⟩, _⟩, _⟩ := hc
      have hname : name.any (fun c => isSpaceC c && c != ' ') = false := by
        unfold paramLine at hany
        simp only [List.any_append, Bool.or_eq_false_iff] at hany
        exact hany.1.1.2
      have htany : t.any (fun c => isSpaceC c && c != ' ') = false := by
        apply any_false_of
        intro c hc; rw [hts c hc]; rfl
      have hlen2 : (typeLine name t).length ≤ 100 := by
        unfold paramLine at hlen
        unfold typeLine
        simp only [List.length_append, pfxParam, pfxType, bt3, List.length_cons, List.length_nil] at hlen ⊢
        omega
      have hany2 : (typeLine name t).any (fun c => isSpaceC c && c != ' ') = false := by
        unfold typeLine
        simp only [List.any_append, hname, htany, Bool.or_false, Bool.false_or]
        decide
      have hlast : ((typeLine name t).getLast? != some ' ') = true := by
        have : (typeLine name t).getLast? = some '`' := by
          unfold typeLine; rw [List.getLast?_append]; rfl
        rw [this]; decide
      have hne : (typeLine name t).isEmpty = false := by
        unfold typeLine pfxType; rfl
      simp only [hlen2, hany2, hlast, hne, decide_true, Bool.not_false, Bool.and_self, if_true]
    · cases hf

theorem docText_length (p : Param) (edd : Bool) (v : Default) (hp : GoodEntry p) (hv : dfltOf p edd = some v) :
    13 ≤ (docText p edd).length := by
  unfold docText
  cases hd : p.doc with
  | none => exact absurd hd hp.docSome
  | some d =>
    simp only []
    unfold dfltOf at hv
    rw [hv]
    simp only [List.length_append, show defaultsTo.length = 13 from rfl]
    omega

/-- **round 2 fits when round 1 did** -/
theorem entryLines2_fits (ww : Bool) (name : Str) (p : Param) (et edd : Bool) (hp : GoodEntry p)
    (h1 : ∀ l ∈ entryLines name p et edd, Fits ww l) : ∀ l ∈ entryLines2 name p et edd, Fits ww l := by
  intro l hl
  unfold entryLines2 at hl
  simp only [List.mem_cons] at hl
  rcases hl with rfl | hl
  · exact h1 _ (by simp [entryLines])
  · split at hl
    · rename_i ht
      obtain ⟨t, hto, gt, _, hcase⟩ := typ2_cases et edd p hp ht
      simp only [List.mem_singleton] at hl
      subst hl
      rw [hto]
      rcases hcase with ⟨h2, h3⟩ | ⟨_, v, hv, rfl⟩
      · apply h1
        unfold entryLines
        rw [h2]
        simp [h3]
      · have gv := goodTyp_tyName v (dfltOf_good p edd hp v hv)
        exact fits_inferred ww name _ _ (h1 _ (by simp [entryLines])) (docText_length p edd v hp hv) gv.2.1 gv.2.2
    · cases hl

/-- **the parameter block of round 2** -/
theorem emitParamStr_round2 (name : Str) (p : Param) (et ww edd : Bool) (hn : GoodName name) (hp : GoodEntry p)
    (h1 : ∀ l ∈ entryLines name p et edd, Fits ww l) :
    emitParamStr name (expParam et edd p) .rest et ww edd = .ok (join ['\n'] (entryLines2 name p et edd)) := by
  have hdoc : truthy (expParam et edd p).doc = true := by
    have := (docText_good p edd hp).ne
    show truthy (some (docText p edd)) = true
    cases hd : docText p edd with
    | nil => exact absurd hd this
    | cons _ _ => rfl
  rw [emitParamStr_eq name _ et ww edd (docText p edd) hdoc (setDefaultDoc_exp name p _ edd hp)]
  have hr : (name == sReturnType) = false := by
    cases hb' : (name == sReturnType) with
    | false => rfl
    | true => exact absurd (beq_iff_eq.mp hb') hn.notRet
  have hl : linesOf (name == sReturnType) name (docText p edd) (expParam et edd p).typ et = entryLines2 name p et edd := by
    rw [hr]
    unfold linesOf entryLines2
    rw [lstrip_headNS _ (docText_good p edd hp).headNS]
    simp
  rw [hl]
  exact blockOut_fits ww _ (entryLines2_fits ww name p et edd hp h1) (fun l hl => (entryLines2_good name p et edd hn hp l hl).1)

/-- **the return block of round 2 is the one of round 1** -/
theorem emitRet_round2 (p : Param) (et ww edd : Bool) (hp : GoodEntry p)
    (h1 : ∀ l ∈ retLines p et edd, Fits ww l) :
    emitParamStr sReturnType (expRet et edd p) .rest et ww edd = .ok (join ['\n'] (retLines p et edd)) := by
  have hdoc : truthy (expRet et edd p).doc = true := by
    have := (docText_good p edd hp).ne
    show truthy (some (docText p edd)) = true
    cases hd : docText p edd with
    | nil => exact absurd hd this
    | cons _ _ => rfl
  rw [emitParamStr_eq sReturnType _ et ww edd (docText p edd) hdoc (setDefaultDoc_exp sReturnType p _ edd hp)]
  have hl : linesOf (sReturnType == sReturnType) sReturnType (docText p edd) (expRet et edd p).typ et = retLines p et edd := by
    rw [beq_self_eq_true]
    unfold linesOf retLines expRet
    rw [lstrip_headNS _ (docText_good p edd hp).headNS]
    cases ht : (et && truthy p.typ) with
    | false => simp [ht, truthy]
    | true =>
      simp only [Bool.and_eq_true] at ht
      simp [ht.1, ht.2]
  rw [hl]
  exact blockOut_fits ww _ h1 (retLines_good p et edd hp)


/-! ### round 2: what the parser does with the (possibly new) `:type` line -/

/-- the `:type` line on the entry the `:param` line made, for any good type compatible with the default
    (`fTyp_good` with the declared type replaced by an arbitrary one) -/
theorem fTyp_good' (name : Str) (p : Param) (t : Str) (edd : Bool) (hn : GoodName name) (hp : GoodEntry p) (gt : GoodTyp t)
    (hc : ∀ v, p.default = some v → Compat (some t) v) :
    fTyp name (bt3 ++ t ++ bt3) edd { typ := (dfltOf p edd).map tyName, doc := some (docText p edd), default := dfltOf p edd }
      = .ok { typ := some t, doc := some (docText p edd), default := dfltOf p edd } := by
  unfold fTyp
  rw [stripBackticks3_good t (fun h => (gt.chars _ h).2.1 rfl)]
  have h1 := interp_good (some t) (docText p edd) (dfltOf p edd) (dfltOf p edd) edd
    (extract_docText' p edd (some t) hp hc) (dfltOf_good p edd hp) (Or.inr rfl)
  simp only [h1]
  rw [setNameAndType_good name (some t) (docText p edd) (dfltOf p edd) hn (fun t' ht' => by cases ht'; exact gt.noOptSuffix)
    (docText_good p edd hp) (extract_docText_true p edd hp) (dfltOf_good p edd hp)]
  rfl

/-- **one parameter block of round 2** gives the same parsed parameter as round 1 -/
theorem fold_paramBlock2 (ir0 : IR) (name : Str) (p : Param) (et edd : Bool) (rest : List (List Str))
    (hn : GoodName name) (hp : GoodEntry p) (hfresh : name ∉ ir0.params.map (·.1)) :
    foldChunks edd ir0 (chunksOfBlock (entryLines2 name p et edd) ++ rest)
      = foldChunks edd { ir0 with params := ir0.params ++ [(name, expParam et edd p)] } rest := by
  have hncol : ':' ∉ name := fun h => (hn.chars _ h).1 rfl
  have gd := docText_good p edd hp
  unfold entryLines2
  cases ht : (et && truthy (expParam et edd p).typ) with
  | false =>
    simp only [Bool.false_eq_true, if_false, chunksOfBlock, List.cons_append, List.nil_append]
    rw [foldChunks_cons_ok edd ir0 _ _ rest
      (stepChunk_param ir0 _ edd name (docText p edd) ['\n'] _ (join_line_blank _) hncol gd.headNS gd.lastNS allSpace_nl
        (upsert_fresh _ _ _ _ hfresh (fDoc_good name p edd hn hp)))]
    -- no type line: nothing declared is emitted and nothing was inferred, or types are off
    have : expParam et edd p = { typ := (dfltOf p edd).map tyName, doc := some (docText p edd), default := dfltOf p edd } := by
      unfold expParam at ht ⊢
      cases het : et with
      | false => simp
      | true =>
        rw [het] at ht
        cases htp : truthy p.typ with
        | false => simp [htp]
        | true => simp [htp] at ht
    rw [this]
  | true =>
    obtain ⟨t, hto, gt, hc, _⟩ := typ2_cases et edd p hp ht
    simp only [if_true, chunksOfBlock, List.cons_append, List.nil_append, hto, Option.getD_some]
    rw [foldChunks_cons_ok edd ir0 _ _ _
      (stepChunk_param ir0 _ edd name (docText p edd) [] _ (join_line _) hncol gd.headNS gd.lastNS allSpace_nil
        (upsert_fresh _ _ _ _ hfresh (fDoc_good name p edd hn hp)))]
    rw [foldChunks_cons_ok edd _ _ _ rest
      (stepChunk_type _ _ edd name t ['\n'] _ (join_line_blank _) hncol allSpace_nl
        (upsert_last _ _ _ _ _ hfresh (fTyp_good' name p t edd hn hp gt hc)))]
    have : expParam et edd p = { typ := some t, doc := some (docText p edd), default := dfltOf p edd } := by
      have e : expParam et edd p = { typ := (expParam et edd p).typ, doc := some (docText p edd), default := dfltOf p edd } := rfl
      rw [e, hto]
    rw [this]

theorem fold_params2 (ps : List (Str × Param)) (ir0 : IR) (et edd : Bool) (rest : List (List Str))
    (hn : ∀ np ∈ ps, GoodName np.1) (hp : ∀ np ∈ ps, GoodEntry np.2)
    (hnd : (ir0.params.map (·.1) ++ ps.map (·.1)).Nodup) :
    foldChunks edd ir0 ((ps.map (fun np => entryLines2 np.1 np.2 et edd)).flatMap chunksOfBlock ++ rest)
      = foldChunks edd { ir0 with params := ir0.params ++ ps.map (fun np => (np.1, expParam et edd np.2)) } rest := by
  induction ps generalizing ir0 with
  | nil => simp
  | cons np r ih =>
    have hfresh : np.1 ∉ ir0.params.map (·.1) := by
      intro hm
      have := (List.nodup_append.mp hnd).2.2 _ hm np.1 (by simp)
      exact this rfl
    simp only [List.map_cons, List.flatMap_cons, List.append_assoc]
    rw [fold_paramBlock2 ir0 np.1 np.2 et edd _ (hn np (by simp)) (hp np (by simp)) hfresh]
    rw [ih _ (fun x hx => hn x (by simp [hx])) (fun x hx => hp x (by simp [hx])) (by
      simp only [List.map_append, List.map_cons, List.map_nil, List.append_assoc, List.singleton_append]
      simpa using hnd)]
    simp

/-! ### the parser on given lines (generic form of `parse_emitted`) -/

theorem parse_of_lines (s : Str) (edd : Bool) (hdr : List Str) (BL : List (List Str)) (R : IR)
    (hlines : split1 s '\n' = hdr ++ BL.flatMap (· ++ [[]])) (hhdr : ∀ l ∈ hdr, NoTok l)
    (hB : ∀ b ∈ BL, b ≠ [] ∧ ∀ l ∈ b, EntryLine l)
    (hfold : foldChunks edd { doc := strip (join ['\n'] hdr) } (BL.flatMap chunksOfBlock) = .ok R)
    (hfinal : mapVals (fun p => interpolateDefaults p edd) R.params = .ok R.params)
    (hret : ∀ r, R.returns = some r → interpolateDefaults r edd = .ok r) :
    parseRest s edd = .ok R := by
  obtain ⟨rdoc, rparams, rret⟩ := R
  simp only at hfinal hret
  have hline : ∀ l ∈ split1 s '\n', NoTok l ∨ EntryLine l := by
    intro l hl
    rw [hlines] at hl
    rcases List.mem_append.mp hl with hl | hl
    · exact Or.inl (hhdr l hl)
    · obtain ⟨b, hb, hlb⟩ := List.mem_flatMap.mp hl
      rcases List.mem_append.mp hlb with h | h
      · exact Or.inr ((hB b hb).2 l h)
      · simp only [List.mem_singleton] at h; subst h; left; exact noTok_nil
  have hc1 : (split1 s '\n').any (fun l => allRestTokens.any (fun t => contains (l.drop 1) t)) = false := by
    apply any_false_of
    intro l hl
    rcases hline l hl with h | h
    · exact (noTok_checks l h).2.1
    · exact h.c1
  have hc2 : (split1 s '\n').any (fun l => [":raises".toList, ":cvar".toList, ":ivar".toList, ":var".toList].any (fun t => startsWith l t)) = false := by
    apply any_false_of
    intro l hl
    rcases hline l hl with h | h
    · exact (noTok_checks l h).2.2
    · exact h.c2
  have hgroup : groupLines (split1 s '\n') Option.none [] [] = (hdr, BL.flatMap chunksOfBlock) := by
    rw [hlines]
    exact groupLines_emitted hdr _ (fun l hl => (noTok_checks l (hhdr l hl)).1)
      (fun b hb => ⟨(hB b hb).1, fun l hl => ((hB b hb).2 l hl).tok⟩)
  unfold parseRest
  simp only [hc1, hc2, Bool.false_eq_true, if_false, hgroup, hfold, hfinal]
  cases rret with
  | none => rfl
  | some r => simp only [hret r rfl]

/-! ### from "round 1 answered" to "every line of round 1 fits" -/

theorem mapOut_ok_each {α β : Type} (f : α → Out β) (l : List α) (bs : List β) (h : mapOut f l = .ok bs) :
    ∀ x ∈ l, ∃ b, f x = .ok b := by
  induction l generalizing bs with
  | nil => intro x hx; cases hx
  | cons a r ih =>
    simp only [mapOut] at h
    cases hf : f a with
    | outside w => rw [hf] at h; cases h
    | ok b =>
      rw [hf] at h
      cases hm : mapOut f r with
      | outside w => rw [hm] at h; cases h
      | ok bs' =>
        intro x hx
        simp only [List.mem_cons] at hx
        rcases hx with rfl | hx
        · exact ⟨b, hf⟩
        · exact ih bs' hm x hx

theorem mapOut_map_ok {α β γ : Type} (f : β → Out γ) (g : α → β) (k : α → γ) (l : List α)
    (h : ∀ x ∈ l, f (g x) = .ok (k x)) : mapOut f (l.map g) = .ok (l.map k) := by
  induction l with
  | nil => rfl
  | cons a r ih =>
    simp only [List.map_cons, mapOut, h a (by simp), ih (fun x hx => h x (by simp [hx]))]

theorem entry_fits_of_ok (name : Str) (p : Param) (et ww edd : Bool) (b : Str) (hn : GoodName name) (hp : GoodEntry p)
    (h : emitParamStr name p .rest et ww edd = .ok b) : ∀ l ∈ entryLines name p et edd, Fits ww l := by
  rw [emitParamStr_eq name p et ww edd (docText p edd) (goodEntry_truthy p hp) (setDefaultDoc_good name p edd hp)] at h
  have hr : (name == sReturnType) = false := by
    cases hb' : (name == sReturnType) with
    | false => rfl
    | true => exact absurd (beq_iff_eq.mp hb') hn.notRet
  have hl : linesOf (name == sReturnType) name (docText p edd) p.typ et = entryLines name p et edd := by
    rw [hr]
    unfold linesOf entryLines
    rw [lstrip_headNS _ (docText_good p edd hp).headNS]
    simp
  rw [hl] at h
  exact fits_of_blockOut ww _ b h

theorem ret_fits_of_ok (p : Param) (et ww edd : Bool) (b : Str) (hp : GoodEntry p)
    (h : emitParamStr sReturnType p .rest et ww edd = .ok b) : ∀ l ∈ retLines p et edd, Fits ww l := by
  rw [emitParamStr_eq sReturnType p et ww edd (docText p edd) (goodEntry_truthy p hp) (setDefaultDoc_good sReturnType p edd hp)] at h
  have hl : linesOf (sReturnType == sReturnType) sReturnType (docText p edd) p.typ et = retLines p et edd := by
    rw [beq_self_eq_true]
    unfold linesOf retLines
    rw [lstrip_headNS _ (docText_good p edd hp).headNS]
    simp
  rw [hl] at h
  exact fits_of_blockOut ww _ b h

/-- every line of the emitted docstring passed `fill` -/
structure AllFit (ir : IR) (et ww edd : Bool) : Prop where
  params : ∀ np ∈ ir.params, ∀ l ∈ entryLines np.1 np.2 et edd, Fits ww l
  ret : ∀ rp, ir.returns = some rp → ∀ l ∈ retLines rp et edd, Fits ww l

theorem allFit_of_emit (ir : IR) (et ww edd : Bool) (s : Str) (g : GoodIR ir) (he : emit ir .rest et ww edd = .ok s) :
    AllFit ir et ww edd := by
  rw [emit_rest_eq] at he
  unfold emitRest' at he
  cases hm : mapOut (fun np => emitParamStr np.1 np.2 .rest et ww edd) ir.params with
  | outside w => rw [hm] at he; cases he
  | ok blocks =>
    rw [hm] at he
    simp only [] at he
    refine ⟨?_, ?_⟩
    · intro np hnp
      obtain ⟨b, hb⟩ := mapOut_ok_each _ _ _ hm np hnp
      exact entry_fits_of_ok np.1 np.2 et ww edd b (g.names np hnp) (g.entries np hnp) hb
    · intro rp hr
      rw [hr] at he
      simp only [] at he
      cases hl : emitParamStr sReturnType rp .rest et ww edd with
      | outside w => rw [hl] at he; cases he
      | ok line => exact ret_fits_of_ok rp et ww edd line (g.ret rp hr) hl

theorem allFit_noWrap (ir : IR) (et edd : Bool) : AllFit ir et false edd :=
  ⟨fun _ _ l _ => fits_noWrap l, fun _ _ l _ => fits_noWrap l⟩

/-! ### the second round -/

/-- **Round 2.**  For an interface of the domain all of whose round-1 lines fit, the emitter answers on the parsed
    interface `expIR ir et edd`, and the parser gives `expIR ir et edd` back. -/
theorem second_round_of_fit (ir : IR) (et ww edd : Bool) (g : GoodIR ir) (hf : AllFit ir et ww edd) :
    ∃ s', emit (expIR ir et edd) .rest et ww edd = .ok s' ∧ parseRest s' edd = .ok (expIR ir et edd) := by
  -- the blocks of round 2
  let LL := ir.params.map (fun np => entryLines2 np.1 np.2 et edd)
  let RL := ir.returns.map (fun rp => retLines rp et edd)
  have hp : mapOut (fun np => emitParamStr np.1 np.2 .rest et ww edd) (expIR ir et edd).params = .ok (LL.map (join ['\n'])) := by
    show mapOut _ (ir.params.map (fun np => (np.1, expParam et edd np.2))) = _
    rw [List.map_map]
    exact mapOut_map_ok _ _ _ _ (fun np hnp =>
      emitParamStr_round2 np.1 np.2 et ww edd (g.names np hnp) (g.entries np hnp) (hf.params np hnp))
  have hr : ((expIR ir et edd).returns = Option.none ∧ RL = Option.none)
      ∨ ∃ rp rl, (expIR ir et edd).returns = some rp ∧ RL = some rl ∧ emitParamStr sReturnType rp .rest et ww edd = .ok (join ['\n'] rl) := by
    cases hret : ir.returns with
    | none => left; simp [expIR, RL, hret]
    | some rp =>
      right
      exact ⟨expRet et edd rp, retLines rp et edd, by simp [expIR, hret], by simp [RL, hret],
        emitRet_round2 rp et ww edd (g.ret rp hret) (hf.ret rp hret)⟩
  have hgood : ∀ b ∈ LL ++ RL.toList, b ≠ [] ∧ ∀ l ∈ b, GoodLine l ∧ EntryLine l := by
    intro b hb
    rcases List.mem_append.mp hb with hb | hb
    · obtain ⟨np, hnp, rfl⟩ := List.mem_map.mp hb
      exact ⟨by simp [entryLines2], entryLines2_good np.1 np.2 et edd (g.names np hnp) (g.entries np hnp)⟩
    · cases hret : ir.returns with
      | none => simp [RL, hret] at hb
      | some rp =>
        simp only [RL, hret, Option.map_some, Option.toList_some, List.mem_singleton] at hb
        subst hb
        exact ⟨by simp [retLines], fun l hl => ⟨retLines_good rp et edd (g.ret rp hret) l hl, retLines_entry rp et edd (g.ret rp hret) l hl⟩⟩
  obtain ⟨s', hdr, hemit, hlines, hhdr, hstrip⟩ := emit_of_blocks (expIR ir et edd) et ww edd LL RL g.hdr hp hr
    (fun b hb => ⟨(hgood b hb).1, fun l hl => ((hgood b hb).2 l hl).1⟩)
  refine ⟨s', hemit, ?_⟩
  apply parse_of_lines s' edd hdr (LL ++ RL.toList) (expIR ir et edd) hlines hhdr
    (fun b hb => ⟨(hgood b hb).1, fun l hl => ((hgood b hb).2 l hl).2⟩)
  · -- the fold
    rw [hstrip]
    show foldChunks edd { doc := ir.doc } _ = _
    rw [List.flatMap_append, fold_params2 ir.params { doc := ir.doc } et edd _ g.names g.entries (by simpa using g.nodup)]
    cases hret : ir.returns with
    | none => simp [RL, hret, foldChunks, expIR]
    | some rp =>
      simp only [RL, hret, Option.map_some, Option.toList_some, List.flatMap_cons, List.flatMap_nil, List.append_nil, List.nil_append]
      rw [fold_retBlock _ rp et edd (g.ret rp hret) rfl]
      simp [expIR, hret]
  · exact mapVals_final ir.params et edd g.entries
  · intro r hr'
    cases hret : ir.returns with
    | none => simp [expIR, hret] at hr'
    | some rp =>
      simp only [expIR, hret, Option.map_some, Option.some.injEq] at hr'
      subst hr'
      exact final_ret et edd rp (g.ret rp hret)

/-- **Round 2, from "round 1 answered"** -/
theorem second_round (ir : IR) (et ww edd : Bool) (s : Str) (g : GoodIR ir) (he : emit ir .rest et ww edd = .ok s) :
    ∃ s', emit (expIR ir et edd) .rest et ww edd = .ok s' ∧ parseRest s' edd = .ok (expIR ir et edd) :=
  second_round_of_fit ir et ww edd g (allFit_of_emit ir et ww edd s g he)

/-! ### the emitter answers whenever every line fits (in particular always without word wrap) -/

theorem emit_total_of_fit (ir : IR) (et ww edd : Bool) (g : GoodIR ir) (hf : AllFit ir et ww edd) :
    ∃ s, emit ir .rest et ww edd = .ok s := by
  let LL := ir.params.map (fun np => entryLines np.1 np.2 et edd)
  let RL := ir.returns.map (fun rp => retLines rp et edd)
  have hblk : ∀ np ∈ ir.params, emitParamStr np.1 np.2 .rest et ww edd = .ok (join ['\n'] (entryLines np.1 np.2 et edd)) := by
    intro np hnp
    have hn := g.names np hnp
    have hp := g.entries np hnp
    rw [emitParamStr_eq np.1 np.2 et ww edd (docText np.2 edd) (goodEntry_truthy _ hp) (setDefaultDoc_good np.1 np.2 edd hp)]
    have hr : (np.1 == sReturnType) = false := by
      cases hb' : (np.1 == sReturnType) with
      | false => rfl
      | true => exact absurd (beq_iff_eq.mp hb') hn.notRet
    have hl : linesOf (np.1 == sReturnType) np.1 (docText np.2 edd) np.2.typ et = entryLines np.1 np.2 et edd := by
      rw [hr]
      unfold linesOf entryLines
      rw [lstrip_headNS _ (docText_good np.2 edd hp).headNS]
      simp
    rw [hl]
    exact blockOut_fits ww _ (hf.params np hnp) (entryLines_good np.1 np.2 et edd hn hp)
  have hp : mapOut (fun np => emitParamStr np.1 np.2 .rest et ww edd) ir.params = .ok (LL.map (join ['\n'])) := by
    have := mapOut_map_ok (fun np : Str × Param => emitParamStr np.1 np.2 .rest et ww edd) id
      (fun np => join ['\n'] (entryLines np.1 np.2 et edd)) ir.params (fun np hnp => hblk np hnp)
    rw [List.map_id] at this
    rw [this, List.map_map]; rfl
  have hr : (ir.returns = Option.none ∧ RL = Option.none)
      ∨ ∃ rp rl, ir.returns = some rp ∧ RL = some rl ∧ emitParamStr sReturnType rp .rest et ww edd = .ok (join ['\n'] rl) := by
    cases hret : ir.returns with
    | none => left; simp [RL, hret]
    | some rp =>
      right
      refine ⟨rp, retLines rp et edd, rfl, by simp [RL, hret], ?_⟩
      have hp := g.ret rp hret
      rw [emitParamStr_eq sReturnType rp et ww edd (docText rp edd) (goodEntry_truthy _ hp) (setDefaultDoc_good sReturnType rp edd hp)]
      have hl : linesOf (sReturnType == sReturnType) sReturnType (docText rp edd) rp.typ et = retLines rp et edd := by
        rw [beq_self_eq_true]
        unfold linesOf retLines
        rw [lstrip_headNS _ (docText_good rp edd hp).headNS]
        simp
      rw [hl]
      exact blockOut_fits ww _ (hf.ret rp hret) (retLines_good rp et edd hp)
  have hgood : ∀ b ∈ LL ++ RL.toList, b ≠ [] ∧ ∀ l ∈ b, GoodLine l := by
    intro b hb
    rcases List.mem_append.mp hb with hb | hb
    · obtain ⟨np, hnp, rfl⟩ := List.mem_map.mp hb
      exact ⟨by simp [entryLines], entryLines_good np.1 np.2 et edd (g.names np hnp) (g.entries np hnp)⟩
    · cases hret : ir.returns with
      | none => simp [RL, hret] at hb
      | some rp =>
        simp only [RL, hret, Option.map_some, Option.toList_some, List.mem_singleton] at hb
        subst hb
        exact ⟨by simp [retLines], retLines_good rp et edd (g.ret rp hret)⟩
  obtain ⟨s, _, hemit, _⟩ := emit_of_blocks ir et ww edd LL RL g.hdr hp hr hgood
  exact ⟨s, hemit⟩

/-- without word wrap the emitter answers on the whole domain -/
theorem emit_total_noWrap (ir : IR) (et edd : Bool) (g : GoodIR ir) : ∃ s, emit ir .rest et false edd = .ok s :=
  emit_total_of_fit ir et false edd g (allFit_noWrap ir et edd)

/-! ### where round 2 emits the very same text -/

/-- the return part handed to the last step of `emit` -/
def retText (P : Str) : Option (List Str) → Str
  | Option.none => []
  | some rl => retPart P (join ['\n'] rl)

/-- the value of `emit` on given blocks -/
theorem emit_value (jr : IR) (et ww edd : Bool) (LL : List (List Str)) (RL : Option (List Str))
    (hp : mapOut (fun np => emitParamStr np.1 np.2 .rest et ww edd) jr.params = .ok (LL.map (join ['\n'])))
    (hr : (jr.returns = Option.none ∧ RL = Option.none)
        ∨ ∃ rp rl, jr.returns = some rp ∧ RL = some rl ∧ emitParamStr sReturnType rp .rest et ww edd = .ok (join ['\n'] rl)) :
    emit jr .rest et ww edd = .ok (finish (outOf jr.doc (join ['\n', '\n'] (LL.map (join ['\n'])))
      (retText (join ['\n', '\n'] (LL.map (join ['\n']))) RL))) := by
  rw [emit_rest_eq]
  unfold emitRest'
  rw [hp]
  simp only []
  rcases hr with ⟨hr, hRL⟩ | ⟨rp, rl, hr, hRL, hl⟩
  · subst hRL; rw [hr]; rfl
  · subst hRL; rw [hr]; simp only []; rw [hl]; rfl

/-- the parameter blocks of round 1 -/
theorem blocks_round1 (ir : IR) (et ww edd : Bool) (g : GoodIR ir) (hf : AllFit ir et ww edd) :
    mapOut (fun np => emitParamStr np.1 np.2 .rest et ww edd) ir.params
      = .ok ((ir.params.map (fun np => entryLines np.1 np.2 et edd)).map (join ['\n'])) := by
  have hblk : ∀ np ∈ ir.params, emitParamStr np.1 np.2 .rest et ww edd = .ok (join ['\n'] (entryLines np.1 np.2 et edd)) := by
    intro np hnp
    have hn := g.names np hnp
    have hp := g.entries np hnp
    rw [emitParamStr_eq np.1 np.2 et ww edd (docText np.2 edd) (goodEntry_truthy _ hp) (setDefaultDoc_good np.1 np.2 edd hp)]
    have hr : (np.1 == sReturnType) = false := by
      cases hb' : (np.1 == sReturnType) with
      | false => rfl
      | true => exact absurd (beq_iff_eq.mp hb') hn.notRet
    have hl : linesOf (np.1 == sReturnType) np.1 (docText np.2 edd) np.2.typ et = entryLines np.1 np.2 et edd := by
      rw [hr]
      unfold linesOf entryLines
      rw [lstrip_headNS _ (docText_good np.2 edd hp).headNS]
      simp
    rw [hl]
    exact blockOut_fits ww _ (hf.params np hnp) (entryLines_good np.1 np.2 et edd hn hp)
  have := mapOut_map_ok (fun np : Str × Param => emitParamStr np.1 np.2 .rest et ww edd) id
    (fun np => join ['\n'] (entryLines np.1 np.2 et edd)) ir.params (fun np hnp => hblk np hnp)
  rw [List.map_id] at this
  rw [this, List.map_map]; rfl

theorem ret_round1 (ir : IR) (et ww edd : Bool) (g : GoodIR ir) (hf : AllFit ir et ww edd) :
    (ir.returns = Option.none ∧ ir.returns.map (fun rp => retLines rp et edd) = Option.none)
      ∨ ∃ rp rl, ir.returns = some rp ∧ ir.returns.map (fun rp => retLines rp et edd) = some rl
          ∧ emitParamStr sReturnType rp .rest et ww edd = .ok (join ['\n'] rl) := by
  cases hret : ir.returns with
  | none => left; simp
  | some rp =>
    right
    refine ⟨rp, retLines rp et edd, rfl, by simp, ?_⟩
    have hp := g.ret rp hret
    rw [emitParamStr_eq sReturnType rp et ww edd (docText rp edd) (goodEntry_truthy _ hp) (setDefaultDoc_good sReturnType rp edd hp)]
    have hl : linesOf (sReturnType == sReturnType) sReturnType (docText rp edd) rp.typ et = retLines rp et edd := by
      rw [beq_self_eq_true]
      unfold linesOf retLines
      rw [lstrip_headNS _ (docText_good rp edd hp).headNS]
      simp
    rw [hl]
    exact blockOut_fits ww _ (hf.ret rp hret) (retLines_good rp et edd hp)

theorem blocks_round2 (ir : IR) (et ww edd : Bool) (g : GoodIR ir) (hf : AllFit ir et ww edd) :
    mapOut (fun np => emitParamStr np.1 np.2 .rest et ww edd) (expIR ir et edd).params
      = .ok ((ir.params.map (fun np => entryLines2 np.1 np.2 et edd)).map (join ['\n'])) := by
  show mapOut _ (ir.params.map (fun np => (np.1, expParam et edd np.2))) = _
  rw [List.map_map]
  exact mapOut_map_ok _ _ _ _ (fun np hnp =>
    emitParamStr_round2 np.1 np.2 et ww edd (g.names np hnp) (g.entries np hnp) (hf.params np hnp))

theorem ret_round2 (ir : IR) (et ww edd : Bool) (g : GoodIR ir) (hf : AllFit ir et ww edd) :
    ((expIR ir et edd).returns = Option.none ∧ ir.returns.map (fun rp => retLines rp et edd) = Option.none)
      ∨ ∃ rp rl, (expIR ir et edd).returns = some rp ∧ ir.returns.map (fun rp => retLines rp et edd) = some rl
          ∧ emitParamStr sReturnType rp .rest et ww edd = .ok (join ['\n'] rl) := by
  cases hret : ir.returns with
  | none => left; simp [expIR, hret]
  | some rp =>
    right
    exact ⟨expRet et edd rp, retLines rp et edd, by simp [expIR, hret], by simp,
      emitRet_round2 rp et ww edd (g.ret rp hret) (hf.ret rp hret)⟩

/-- nothing new is emitted for this parameter in round 2: types are off, or a type is declared, or no default is carried -/
def NoNewTypeLine (et edd : Bool) (p : Param) : Prop := et = false ∨ truthy p.typ = true ∨ dfltOf p edd = Option.none

theorem entryLines2_same (name : Str) (p : Param) (et edd : Bool) (h : NoNewTypeLine et edd p) :
    entryLines2 name p et edd = entryLines name p et edd := by
  unfold entryLines2 entryLines expParam
  rcases h with rfl | h | h
  · simp
  · cases et <;> simp [h]
  · cases et with
    | false => simp
    | true =>
      cases ht : truthy p.typ with
      | true => simp [ht]
      | false => simp [ht, h, truthy]

/-- **same text in round 2** when no parameter gets a new `:type` line -/
theorem same_text_round2 (ir : IR) (et ww edd : Bool) (s : Str) (g : GoodIR ir) (he : emit ir .rest et ww edd = .ok s)
    (hno : ∀ np ∈ ir.params, NoNewTypeLine et edd np.2) : emit (expIR ir et edd) .rest et ww edd = .ok s := by
  have hf := allFit_of_emit ir et ww edd s g he
  have h1 := emit_value ir et ww edd _ _ (blocks_round1 ir et ww edd g hf) (ret_round1 ir et ww edd g hf)
  have h2 := emit_value (expIR ir et edd) et ww edd _ _ (blocks_round2 ir et ww edd g hf) (ret_round2 ir et ww edd g hf)
  have hLL : ir.params.map (fun np => entryLines2 np.1 np.2 et edd) = ir.params.map (fun np => entryLines np.1 np.2 et edd) :=
    List.map_congr_left (fun np hnp => entryLines2_same np.1 np.2 et edd (hno np hnp))
  rw [hLL] at h2
  rw [h2]
  rw [h1] at he
  exact he

end DocRT
