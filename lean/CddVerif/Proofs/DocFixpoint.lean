import CddVerif.Proofs.DocRoundTrip
/-!
# One conversion round reaches a fixpoint (C08) — whole ReST docstrings on the model

Helper lemmas for `Properties/C08Whole.lean`: the emitter as an equation (so that "round 1 answered" can be turned into
"round 2 answers"), the emitter on given blocks of lines, and the second round `parseRest (emit (expIR ir)) = expIR ir`.
-/
namespace DocRT
open Py Doc DocSplit DocUtils

/-! ### `emit_param_str` as an equation -/

/-- `fill` each line, then join -/
def blockOut (ww : Bool) (ls : List Str) : Out Str :=
  match mapOut (fillLine ww) ls with
  | .ok a => .ok (join ['\n'] (a.map indentAllButFirst))
  | .outside w => .outside w

theorem emitParamStr_eq (name : Str) (p : Param) (et ww edd : Bool) (d' : Str) (hdoc : truthy p.doc = true)
    (hs : setDefaultDoc name p edd = .ok (some d')) :
    emitParamStr name p .rest et ww edd = blockOut ww (linesOf (name == sReturnType) name d' p.typ et) := by
  unfold emitParamStr blockOut
  simp (config := {zeta := false}) only [bind, pure, hdoc, if_true, hs, mapM_eq]
  cases hr : (name == sReturnType) <;> cases ht : (et && truthy p.typ) <;>
    simp only [ht, lit_param, lit_type, lit_return, lit_rtype, Option.map_some, if_true, if_false, Bool.false_eq_true,
      List.filterMap_cons, List.filterMap_nil, id, List.singleton_append, List.cons_append, List.nil_append, List.append_assoc,
      List.filter_cons, List.filter_nil, List.isEmpty_cons, Bool.not_false,
      linesOf, paramLine, typeLine, returnLine, rtypeLine, pfxParam, pfxType, pfxReturn, pfxRtype] <;>
    (generalize mapOut (fillLine ww) _ = r; cases r <;> rfl)

/-- the line passes `fill` unchanged (always when word wrap is off) -/
def Fits (ww : Bool) (l : Str) : Prop := fillLine ww l = .ok l

theorem mapOut_fits (ww : Bool) (ls : List Str) (h : ∀ l ∈ ls, Fits ww l) : mapOut (fillLine ww) ls = .ok ls := by
  induction ls with
  | nil => rfl
  | cons l r ih =>
    have h1 : fillLine ww l = .ok l := h l (by simp)
    simp only [mapOut, h1, ih (fun x hx => h x (by simp [hx]))]

theorem fits_of_mapOut (ww : Bool) (ls ls' : List Str) (h : mapOut (fillLine ww) ls = .ok ls') : ∀ l ∈ ls, Fits ww l := by
  induction ls generalizing ls' with
  | nil => intro l hl; cases hl
  | cons x r ih =>
    simp only [mapOut] at h
    cases hf : fillLine ww x with
    | outside w => rw [hf] at h; cases h
    | ok x' =>
      rw [hf] at h
      cases hm : mapOut (fillLine ww) r with
      | outside w => rw [hm] at h; cases h
      | ok r' =>
        intro l hl
        simp only [List.mem_cons] at hl
        rcases hl with rfl | hl
        · unfold Fits; rw [hf, fillLine_ok ww l x' hf]
        · exact ih r' hm l hl

theorem blockOut_fits (ww : Bool) (ls : List Str) (hf : ∀ l ∈ ls, Fits ww l) (hg : ∀ l ∈ ls, GoodLine l) :
    blockOut ww ls = .ok (join ['\n'] ls) := by
  unfold blockOut
  rw [mapOut_fits ww ls hf]
  simp only []
  rw [map_id_of _ _ (fun l hl => goodLine_indent l (hg l hl))]

theorem fits_of_blockOut (ww : Bool) (ls : List Str) (b : Str) (h : blockOut ww ls = .ok b) : ∀ l ∈ ls, Fits ww l := by
  unfold blockOut at h
  cases hm : mapOut (fillLine ww) ls with
  | outside w => rw [hm] at h; cases h
  | ok a => exact fits_of_mapOut ww ls a hm

theorem fits_noWrap (l : Str) : Fits false l := by unfold Fits fillLine; rfl

/-! ### the emitter on given blocks (generic form of `emit_lines`, with existence of the text) -/

/-- from a text `pre ++ body ++ "\n"` (or the bare header) to its lines -/
theorem text_lines (h : Str) (AB : List (List Str)) (T : Str)
    (hh : h = [] ∨ (GoodHeader h ∧ NoTok h))
    (hall : ∀ b ∈ AB, b ≠ [] ∧ ∀ l ∈ b, '\n' ∉ l)
    (hT : (AB = [] ∧ (T = h ∨ T = '\n' :: h))
        ∨ (AB ≠ [] ∧ ∃ pre, Pre h pre ∧ T = pre ++ join ['\n', '\n'] (AB.map (join ['\n'])) ++ ['\n'])) :
    ∃ hdr, split1 T '\n' = hdr ++ AB.flatMap (· ++ [[]]) ∧ (∀ l ∈ hdr, NoTok l) ∧ strip (join ['\n'] hdr) = h := by
  have hcol : NoTok h := by
    rcases hh with h0 | h0
    · rw [h0]; exact noTok_nil
    · exact h0.2
  have hstrip : strip h = h := by
    rcases hh with h0 | h0
    · rw [h0]; rfl
    · exact strip_id _ h0.1.headNS h0.1.lastNS
  rcases hT with ⟨h0, hT⟩ | ⟨hne, pre, hpre, hs⟩
  · rw [h0]
    simp only [List.flatMap_nil, List.append_nil]
    rcases hT with e | e
    · rw [e]
      exact ⟨split1 h '\n', rfl, noTok_lines _ _ hcol, by rw [join_split1]; exact hstrip⟩
    · rw [e]
      refine ⟨[] :: split1 h '\n', split1_cons_sep _ _, ?_, ?_⟩
      · intro l hl
        simp only [List.mem_cons] at hl
        rcases hl with rfl | hl
        · exact noTok_nil
        · exact noTok_lines _ _ hcol l hl
      · cases hsp : split1 h '\n' with
        | nil => exact absurd hsp (join_split1_nonempty _)
        | cons y r =>
          rw [join_cons2, ← hsp, join_split1]
          rcases hh with h1 | h1
          · rw [h1]; decide
          · have := strip_core ['\n'] h [] allSpace_nl allSpace_nil h1.1.headNS h1.1.lastNS
            simpa using this
  · have hbodyL := split1_body AB hne hall
    generalize join ['\n', '\n'] (AB.map (join ['\n'])) = body at hs hbodyL
    have hbl : split1 (body ++ ['\n']) '\n' = AB.flatMap (· ++ [[]]) := by
      rw [← hbodyL]
      have := split1_append_sep '\n' body []
      rw [this, split1_nil]
    cases hpre with
    | none h0 =>
      refine ⟨[], ?_, by simp, by rw [h0]; rfl⟩
      rw [hs, List.nil_append, List.nil_append, hbl]
    | nl h0 =>
      refine ⟨[[]], ?_, by intro l hl; simp only [List.mem_singleton] at hl; subst hl; exact noTok_nil, by rw [h0]; rfl⟩
      rw [hs]
      show split1 ('\n' :: (body ++ ['\n'])) '\n' = _
      rw [split1_cons_sep, hbl]; rfl
    | hdr hg =>
      refine ⟨split1 h '\n' ++ [[]], ?_, ?_, ?_⟩
      · rw [hs]
        have e : h ++ ['\n', '\n'] ++ body ++ ['\n'] = h ++ '\n' :: ('\n' :: (body ++ ['\n'])) := by simp
        rw [e, split1_append_sep, split1_cons_sep, hbl]; simp
      · intro l hl
        rcases List.mem_append.mp hl with hl | hl
        · exact noTok_lines _ _ hcol l hl
        · simp only [List.mem_singleton] at hl; subst hl; exact noTok_nil
      · rw [join_append_singleton _ _ _ (join_split1_nonempty _), join_split1]
        have := strip_core [] h ['\n'] allSpace_nil allSpace_nl hg.headNS hg.lastNS
        simpa using this

/-- **the emitter answers, and the lines of its text**, for an interface whose parameter blocks are the given lists of
    lines `LL` and whose return block is `RL` -/
theorem emit_of_blocks (jr : IR) (et ww edd : Bool) (LL : List (List Str)) (RL : Option (List Str))
    (hh : jr.doc = [] ∨ (GoodHeader jr.doc ∧ NoTok jr.doc))
    (hp : mapOut (fun np => emitParamStr np.1 np.2 .rest et ww edd) jr.params = .ok (LL.map (join ['\n'])))
    (hr : (jr.returns = Option.none ∧ RL = Option.none)
        ∨ ∃ rp rl, jr.returns = some rp ∧ RL = some rl ∧ emitParamStr sReturnType rp .rest et ww edd = .ok (join ['\n'] rl))
    (hg : ∀ b ∈ LL ++ RL.toList, b ≠ [] ∧ ∀ l ∈ b, GoodLine l) :
    ∃ s hdr, emit jr .rest et ww edd = .ok s ∧ split1 s '\n' = hdr ++ (LL ++ RL.toList).flatMap (· ++ [[]])
      ∧ (∀ l ∈ hdr, NoTok l) ∧ strip (join ['\n'] hdr) = jr.doc := by
  have hh' : jr.doc = [] ∨ GoodHeader jr.doc := by
    rcases hh with h | h
    · exact Or.inl h
    · exact Or.inr h.1
  have hall : ∀ b ∈ LL ++ RL.toList, b ≠ [] ∧ ∀ l ∈ b, '\n' ∉ l :=
    fun b hb => ⟨(hg b hb).1, fun l hl => goodLine_no_nl l ((hg b hb).2 l hl)⟩
  have hbody : ∀ b ∈ LL.map (join ['\n']), Bodyish b := by
    intro b hb
    obtain ⟨ls, hls, rfl⟩ := List.mem_map.mp hb
    have := hg ls (by simp [hls])
    exact bodyish_join _ _ this.1 (fun l hl => goodLine_bodyish l (this.2 l hl))
  have hP : join ['\n', '\n'] (LL.map (join ['\n'])) = [] ∨ Bodyish (join ['\n', '\n'] (LL.map (join ['\n']))) := by
    cases hbl : LL.map (join ['\n']) with
    | nil => left; rfl
    | cons b r => right; rw [← hbl]; exact bodyish_join _ _ (by rw [hbl]; simp) hbody
  have hPnil : join ['\n', '\n'] (LL.map (join ['\n'])) = [] → LL = [] := by
    intro h0
    cases hL : LL with
    | nil => rfl
    | cons b r =>
      have := bodyish_ne _ (bodyish_join ['\n', '\n'] (LL.map (join ['\n'])) (by rw [hL]; simp) hbody)
      exact absurd h0 this
  rw [emit_rest_eq]
  unfold emitRest'
  rw [hp]
  simp only []
  rcases hr with ⟨hr, hRL⟩ | ⟨rp, rl, hr, hRL, hl⟩
  · subst hRL
    rw [hr]
    simp only [Option.toList_none, List.append_nil] at hall ⊢
    refine ⟨finish (outOf jr.doc (join ['\n', '\n'] (LL.map (join ['\n']))) []), ?_⟩
    have := text_lines jr.doc LL (finish (outOf jr.doc (join ['\n', '\n'] (LL.map (join ['\n']))) [])) hh hall ?_
    · obtain ⟨hdr, h1, h2, h3⟩ := this
      exact ⟨hdr, rfl, h1, h2, h3⟩
    · rcases hP with hP | hP
      · left
        refine ⟨hPnil hP, ?_⟩
        rw [hP]
        exact outOf_shape_nothing jr.doc hh'
      · right
        refine ⟨?_, ?_⟩
        · rintro rfl; exact bodyish_ne _ hP rfl
        · obtain ⟨pre, hpre, hfin⟩ := outOf_shape_noret jr.doc _ hh' hP
          exact ⟨pre, hpre, hfin⟩
  · subst hRL
    rw [hr]
    simp only []
    rw [hl]
    simp only [Option.toList_some] at hall ⊢
    have hB2 : Bodyish (join ['\n'] rl) := by
      have := hg rl (by simp)
      exact bodyish_join _ _ this.1 (fun l hl => goodLine_bodyish l (this.2 l hl))
    refine ⟨finish (outOf jr.doc (join ['\n', '\n'] (LL.map (join ['\n'])))
      (retPart (join ['\n', '\n'] (LL.map (join ['\n']))) (join ['\n'] rl))), ?_⟩
    have := text_lines jr.doc (LL ++ [rl]) (finish (outOf jr.doc (join ['\n', '\n'] (LL.map (join ['\n'])))
      (retPart (join ['\n', '\n'] (LL.map (join ['\n']))) (join ['\n'] rl)))) hh hall ?_
    · obtain ⟨hdr, h1, h2, h3⟩ := this
      exact ⟨hdr, rfl, h1, h2, h3⟩
    · right
      refine ⟨by simp, ?_⟩
      obtain ⟨pre, hpre, hfin⟩ := outOf_shape jr.doc _ (join ['\n'] rl) hh' hP hB2
      refine ⟨pre, hpre, ?_⟩
      rw [hfin, List.map_append]
      cases hbl : LL.map (join ['\n']) with
      | nil => simp [join]
      | cons b r =>
        have : (join ['\n', '\n'] (b :: r)).isEmpty = false := by
          have := bodyish_ne _ (bodyish_join ['\n', '\n'] (b :: r) (by simp) (by rw [← hbl]; exact hbody))
          cases hj : join ['\n', '\n'] (b :: r) with
          | nil => exact absurd hj this
          | cons _ _ => rfl
        rw [this]
        simp only [List.map_cons, List.map_nil]
        rw [join_append_singleton _ _ _ (by simp)]
        simp

end DocRT
