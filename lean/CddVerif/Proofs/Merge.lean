import CddVerif.Model.Merge
/-! Lemmas for C10 (`merge_params`). -/
namespace Merge

theorem modify_comm (d : Dict) (k j : String) (f g : Param → Param) (h : k ≠ j) :
    modify (modify d k f) j g = modify (modify d j g) k f := by
  unfold modify
  simp only [List.map_map]
  apply List.map_congr_left
  intro kv _
  simp only [Function.comp]
  by_cases hk : kv.1 = k <;> by_cases hj : kv.1 = j
  · exact absurd (hk.symm.trans hj) h
  · simp [hk, h]
  · simp [hj, Ne.symm h]
  · simp [hk, hj]

theorem stepCommon_comm (other z : Dict) (x y : String) :
    stepCommon other (stepCommon other z x) y = stepCommon other (stepCommon other z y) x := by
  by_cases h : x = y
  · subst h; rfl
  · unfold stepCommon
    cases get? other x <;> cases get? other y <;> simp [modify_comm _ _ _ _ _ h]

theorem common_loop_order_irrelevant (other target : Dict) (c₁ c₂ : List String) (p : c₁.Perm c₂) :
    c₁.foldl (stepCommon other) target = c₂.foldl (stepCommon other) target :=
  List.Perm.foldl_eq' p (fun x _ y _ z => stepCommon_comm other z x y) target

theorem keys_modify (d : Dict) (k : String) (f : Param → Param) : keys (modify d k f) = keys d := by
  unfold keys modify; simp only [List.map_map]
  apply List.map_congr_left; intro kv _; simp only [Function.comp]; split <;> rfl

theorem keys_common_loop (other target : Dict) (c : List String) :
    keys (c.foldl (stepCommon other) target) = keys target := by
  induction c generalizing target with
  | nil => rfl
  | cons k ks ih =>
    simp only [List.foldl_cons]; rw [ih]
    unfold stepCommon; cases get? other k <;> simp [keys_modify]

theorem has_iff_mem_keys (d : Dict) (k : String) : has d k = true ↔ k ∈ keys d := by
  unfold has keys
  simp only [List.any_eq_true, List.mem_map, beq_iff_eq]

theorem keys_set_new (d : Dict) (k : String) (v : Param) (h : has d k = false) : keys (set d k v) = keys d ++ [k] := by
  unfold set; simp [h, keys]

theorem has_set_ne (d : Dict) (k x : String) (v : Param) (h : has d k = false) (hx : x ≠ k) :
    has (set d k v) x = has d x := by
  unfold set; simp only [h]
  unfold has
  simp only [Bool.false_eq_true, if_false, List.any_append, List.any_cons, List.any_nil, Bool.or_false]
  have : (k == x) = false := by simpa using (Ne.symm hx)
  simp [this]

theorem get?_of_has (other : Dict) (k : String) (hk : has other k = true) : ∃ o, get? other k = some o := by
  unfold get?
  have : (other.find? (·.1 == k)).isSome = true := by
    rw [List.find?_isSome]; unfold has at hk; simpa using hk
  obtain ⟨x, hx⟩ := Option.isSome_iff_exists.mp this
  exact ⟨x.2, by simp [hx]⟩

/-- the second loop appends exactly the keys of `ks` that `target` lacks, in the order of `ks` -/
theorem keys_missing_loop (other : Dict) (ks : List String) (hnd : ks.Nodup)
    (hks : ∀ k ∈ ks, has other k = true) (target : Dict) :
    keys (ks.foldl (stepMissing other) target) = keys target ++ ks.filter (fun k => !has target k) := by
  induction ks generalizing target with
  | nil => simp
  | cons k ks ih =>
    have hk : has other k = true := hks k (by simp)
    have hks' : ∀ k' ∈ ks, has other k' = true := fun k' h' => hks k' (by simp [h'])
    have hnd' : ks.Nodup := (List.nodup_cons.mp hnd).2
    have hkn : k ∉ ks := (List.nodup_cons.mp hnd).1
    simp only [List.foldl_cons]
    rw [ih hnd' hks']
    obtain ⟨o, ho⟩ := get?_of_has other k hk
    unfold stepMissing
    simp only [ho]
    by_cases ht : has target k = true
    · simp [ht]
    · have ht' : has target k = false := by simpa using ht
      simp only [ht', Bool.false_eq_true, if_false, List.filter_cons, Bool.not_false, if_true]
      rw [keys_set_new _ _ _ ht', List.append_assoc]
      congr 1
      simp only [List.singleton_append]
      congr 1
      apply List.filter_congr
      intro x hx
      have hxk : x ≠ k := fun e => hkn (e ▸ hx)
      rw [has_set_ne _ _ _ _ ht' hxk]

end Merge
