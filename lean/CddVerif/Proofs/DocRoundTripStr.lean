import CddVerif.Proofs.Doc
/-!
# Whole-docstring round trip (C01) — string-level lemmas

`split`/`join` on one separator, `strip`, `splitlines`, the newline counters and `header_args_footer_to_str`
on the shapes the ReST emitter produces.  Used by `Proofs/DocRoundTripEmit.lean` and `Proofs/DocRoundTripParse.lean`.
-/
namespace DocRT
open Py Doc DocSplit DocUtils

/-! ### `split` / `join` on one separator character -/

theorem splitOn1_append_sep (sep : Char) (a b acc : Str) :
    splitOn1 sep (a ++ sep :: b) acc = splitOn1 sep a acc ++ splitOn1 sep b [] := by
  induction a generalizing acc with
  | nil => simp [splitOn1]
  | cons c cs ih =>
    cases h : (c == sep) with
    | true => simp only [List.cons_append, splitOn1, h, if_true, ih, List.cons_append]
    | false => simp only [List.cons_append, splitOn1, h, Bool.false_eq_true, if_false, ih]

/-- `(a + sep + b).split(sep) == a.split(sep) + b.split(sep)` -/
theorem split1_append_sep (sep : Char) (a b : Str) :
    split1 (a ++ sep :: b) sep = split1 a sep ++ split1 b sep := splitOn1_append_sep sep a b []

theorem split1_no (s : Str) (c : Char) (h : c ∉ s) : split1 s c = [s] := by
  unfold split1; rw [split1_no_sep s [] c h]; simp

theorem split1_nil (c : Char) : split1 [] c = [[]] := rfl

theorem join_cons2 (sep x y : Str) (r : List Str) : join sep (x :: y :: r) = x ++ sep ++ join sep (y :: r) := rfl

theorem split1_join (sep : Char) (ls : List Str) (hne : ls ≠ []) (h : ∀ l ∈ ls, sep ∉ l) :
    split1 (join [sep] ls) sep = ls := by
  induction ls with
  | nil => exact absurd rfl hne
  | cons x r ih =>
    cases r with
    | nil => simp only [join]; exact split1_no x sep (h x (by simp))
    | cons y r' =>
      rw [join_cons2, List.append_assoc, List.singleton_append, split1_append_sep, split1_no x sep (h x (by simp)),
        ih (by simp) (fun l hl => h l (by simp [hl]))]
      rfl

theorem splitOn1_ne_nil (sep : Char) (s acc : Str) : splitOn1 sep s acc ≠ [] := by
  induction s generalizing acc with
  | nil => simp [splitOn1]
  | cons c cs ih =>
    cases h : (c == sep) with
    | true => simp [splitOn1, h]
    | false => simp only [splitOn1, h, Bool.false_eq_true, if_false]; exact ih _

theorem join_splitOn1 (sep : Char) (s acc : Str) : join [sep] (splitOn1 sep s acc) = acc.reverse ++ s := by
  induction s generalizing acc with
  | nil => simp [splitOn1, join]
  | cons c cs ih =>
    cases h : (c == sep) with
    | true =>
      have hc : c = sep := by simpa using h
      simp only [splitOn1, h, if_true]
      cases hs : splitOn1 sep cs [] with
      | nil => exact absurd hs (splitOn1_ne_nil _ _ _)
      | cons y r =>
        rw [join_cons2, ← hs, ih []]; simp [hc]
    | false => simp only [splitOn1, h, Bool.false_eq_true, if_false, ih]; simp

/-- `sep.join(s.split(sep)) == s` -/
theorem join_split1 (sep : Char) (s : Str) : join [sep] (split1 s sep) = s := by
  unfold split1; rw [join_splitOn1]; rfl

theorem join_append_singleton (sep : Str) (xs : List Str) (y : Str) (hne : xs ≠ []) :
    join sep (xs ++ [y]) = join sep xs ++ sep ++ y := by
  induction xs with
  | nil => exact absurd rfl hne
  | cons x r ih =>
    cases r with
    | nil => simp [join]
    | cons z r' =>
      have : (x :: z :: r') ++ [y] = x :: z :: (r' ++ [y]) := rfl
      rw [this, join_cons2, join_cons2]
      have ih' := ih (by simp)
      have e : z :: (r' ++ [y]) = (z :: r') ++ [y] := rfl
      rw [e, ih']; simp

/-- every line of a text without the character `c` is without it -/
theorem split1_mem_notin (s : Str) (sep c : Char) (h : c ∉ s) : ∀ l ∈ split1 s sep, c ∉ l := by
  have key : ∀ (s acc : Str), c ∉ s → c ∉ acc → ∀ l ∈ splitOn1 sep s acc, c ∉ l := by
    intro s
    induction s with
    | nil => intro acc _ ha l hl; simp only [splitOn1, List.mem_singleton] at hl; subst hl; simpa using ha
    | cons x xs ih =>
      intro acc hs ha l hl
      have hx : c ≠ x := fun e => hs (by simp [e])
      have hxs : c ∉ xs := fun e => hs (by simp [e])
      cases hb : (x == sep) with
      | true =>
        simp only [splitOn1, hb, if_true, List.mem_cons] at hl
        rcases hl with rfl | hl
        · simpa using ha
        · exact ih [] hxs (by simp) l hl
      | false =>
        simp only [splitOn1, hb, Bool.false_eq_true, if_false] at hl
        exact ih (x :: acc) hxs (by simp [hx, ha]) l hl
  exact key s [] h (by simp)

/-! ### `strip` -/
def AllSpace (s : Str) : Prop := ∀ c ∈ s, isSpaceC c = true
def HeadNS (s : Str) : Prop := ∀ c, s.head? = some c → isSpaceC c = false
def LastNS (s : Str) : Prop := ∀ c, s.getLast? = some c → isSpaceC c = false

theorem lstrip_cons_ns (c : Char) (cs : Str) (h : isSpaceC c = false) : lstrip (c :: cs) = c :: cs := by
  unfold lstrip; simp [h]

theorem lstrip_headNS (s : Str) (h : HeadNS s) : lstrip s = s := by
  cases s with
  | nil => rfl
  | cons c cs => exact lstrip_cons_ns c cs (h c rfl)

theorem lstrip_spaces_append (ws s : Str) (h : AllSpace ws) : lstrip (ws ++ s) = lstrip s := by
  induction ws with
  | nil => rfl
  | cons c cs ih =>
    have hc := h c (by simp)
    have := ih (fun d hd => h d (by simp [hd]))
    unfold lstrip at this ⊢
    simp only [List.cons_append, List.dropWhile_cons, hc, if_true, this]

theorem lstrip_allSpace (ws : Str) (h : AllSpace ws) : lstrip ws = [] := by
  have := lstrip_spaces_append ws [] h
  simpa [lstrip] using this

theorem rstrip_lastNS (s : Str) (h : LastNS s) : rstrip s = s := by
  unfold rstrip
  cases hr : s.reverse with
  | nil => have : s = [] := by simpa using hr
           subst this; rfl
  | cons y ys =>
    have e : s = ys.reverse ++ [y] := by
      have := congrArg List.reverse hr
      simpa using this
    have hy : isSpaceC y = false := h y (by rw [e]; simp)
    simp only [List.dropWhile_cons, hy, Bool.false_eq_true, if_false]
    rw [e]; simp

theorem rstrip_append_spaces (s ws : Str) (h : AllSpace ws) : rstrip (s ++ ws) = rstrip s := by
  unfold rstrip
  rw [List.reverse_append]
  have : ∀ (r t : Str), AllSpace r → (r ++ t).dropWhile isSpaceC = t.dropWhile isSpaceC := by
    intro r t hr
    have := lstrip_spaces_append r t hr
    unfold lstrip at this; exact this
  rw [this ws.reverse s.reverse (fun c hc => h c (by simpa using hc))]

/-- `(ws1 + s + ws2).strip() == s` when `s` starts and ends with a non-blank -/
theorem strip_core (ws1 s ws2 : Str) (h1 : AllSpace ws1) (h2 : AllSpace ws2) (hh : HeadNS s) (hl : LastNS s) :
    strip (ws1 ++ s ++ ws2) = s := by
  unfold strip
  rw [List.append_assoc, lstrip_spaces_append ws1 _ h1]
  cases s with
  | nil => rw [List.nil_append, lstrip_allSpace ws2 h2]; rfl
  | cons c cs =>
    rw [List.cons_append, lstrip_cons_ns c _ (hh c rfl), ← List.cons_append, rstrip_append_spaces _ _ h2, rstrip_lastNS _ hl]

theorem allSpace_nl : AllSpace ['\n'] := by intro c hc; simp at hc; subst hc; decide
theorem allSpace_sp : AllSpace [' '] := by intro c hc; simp at hc; subst hc; decide
theorem allSpace_nil : AllSpace [] := by intro c hc; cases hc

theorem strip_id (s : Str) (hh : HeadNS s) (hl : LastNS s) : strip s = s := by
  have := strip_core [] s [] allSpace_nil allSpace_nil hh hl
  simpa using this

theorem dropWhile_nil_all {α : Type} (p : α → Bool) (l : List α) (h : l.dropWhile p = []) : ∀ x ∈ l, p x = true := by
  induction l with
  | nil => intro x hx; cases hx
  | cons a as ih =>
    cases hp : p a with
    | false => simp [hp] at h
    | true =>
      simp only [List.dropWhile_cons, hp, if_true] at h
      intro x hx
      simp only [List.mem_cons] at hx
      rcases hx with rfl | hx
      · exact hp
      · exact ih h x hx

theorem strip_nonempty_colon (r : Str) : (strip (':' :: r)).isEmpty = false := by
  unfold strip
  rw [lstrip_cons_ns ':' r (by decide)]
  unfold rstrip
  cases hd : ((':' :: r).reverse.dropWhile isSpaceC) with
  | nil =>
    have := dropWhile_nil_all _ _ hd ':' (by simp)
    revert this; decide
  | cons y ys => simp

/-! ### `splitlines(keepends=True)` and `textwrap.indent` -/

theorem splitlinesKeep_flatten (s acc : Str) : (splitlinesKeep s acc).flatten = acc.reverse ++ s := by
  fun_induction splitlinesKeep s acc <;> simp_all

/-- `textwrap.indent(s, "", lambda l: l) == s` -/
theorem indentAll_nil (s : Str) : indentAll s [] = s := by
  unfold indentAll
  have : (fun l : Str => [] ++ l) = id := by funext l; simp
  rw [this, List.map_id, splitlinesKeep_flatten]; simp

/-- no character at which `str.splitlines` breaks -/
def NoBreak (s : Str) : Prop := ∀ c ∈ s, isLineBreak c = false

theorem splitlinesKeep_noBreak (s acc : Str) (h : NoBreak s) (hne : acc.reverse ++ s ≠ []) :
    splitlinesKeep s acc = [acc.reverse ++ s] := by
  fun_induction splitlinesKeep s acc with
  | case1 acc hacc => simp_all
  | case2 acc hacc => simp
  | case3 cs acc ih =>
    have := h '\r' (by simp)
    exact absurd this (by decide)
  | case4 c cs acc hne' hb ih =>
    have := h c (by simp)
    rw [this] at hb; cases hb
  | case5 c cs acc hne' hb ih =>
    rw [ih (fun d hd => h d (by simp [hd])) (by simp)]
    simp

theorem nl_isLineBreak : isLineBreak '\n' = true := by decide

theorem noBreak_no_nl (s : Str) (h : NoBreak s) : '\n' ∉ s := by
  intro hm; have := h _ hm; rw [nl_isLineBreak] at this; cases this

theorem noBreak_append (a b : Str) (ha : NoBreak a) (hb : NoBreak b) : NoBreak (a ++ b) := by
  intro c hc
  rcases List.mem_append.mp hc with h | h
  · exact ha c h
  · exact hb c h

/-- `indent_all_but_first` is the identity on one line that starts with `:` -/
theorem indentAllButFirst_line (r : Str) (h : NoBreak r) : indentAllButFirst (':' :: r) = ':' :: r := by
  unfold indentAllButFirst indentDefault
  have hb : NoBreak (':' :: r) := by
    intro c hc; simp only [List.mem_cons] at hc
    rcases hc with rfl | hc
    · decide
    · exact h c hc
  rw [splitlinesKeep_noBreak _ [] hb (by simp)]
  simp only [List.reverse_nil, List.nil_append, List.map_cons, List.map_nil, strip_nonempty_colon, Bool.false_eq_true, if_false,
    List.flatten_cons, List.flatten_nil, List.append_nil]
  have hnl : '\n' ∉ tab ++ ':' :: r := by
    intro hm
    rcases List.mem_append.mp hm with h1 | h1
    · revert h1; decide
    · exact noBreak_no_nl _ hb h1
  rw [split1_no _ _ hnl]
  simp only [join]
  rw [lstrip_spaces_append tab _ (by intro c hc; simp [tab] at hc; subst hc; decide)]
  exact lstrip_cons_ns ':' r (by decide)

theorem fillLine_ok (ww : Bool) (l l' : Str) (h : fillLine ww l = .ok l') : l' = l := by
  unfold fillLine at h
  split at h
  · cases h; rfl
  · split at h
    · cases h; rfl
    · cases h

/-! ### `mapM` in the `Out` monad -/

def mapOut {α β : Type} (f : α → Out β) : List α → Out (List β)
  | [] => .ok []
  | a :: as => match f a with
    | .outside w => .outside w
    | .ok b => match mapOut f as with
      | .outside w => .outside w
      | .ok bs => .ok (b :: bs)

theorem mapM_loop_eq {α β : Type} (f : α → Out β) (l : List α) (acc : List β) :
    List.mapM.loop f l acc = match mapOut f l with | .outside w => .outside w | .ok bs => .ok (acc.reverse ++ bs) := by
  induction l generalizing acc with
  | nil => simp [List.mapM.loop, mapOut, pure]
  | cons a as ih =>
    simp only [List.mapM.loop, mapOut, bind]
    cases f a with
    | outside w => rfl
    | ok b =>
      simp only [ih]
      cases mapOut f as with
      | outside w => rfl
      | ok bs => simp

theorem mapM_eq {α β : Type} (f : α → Out β) (l : List α) : l.mapM f = mapOut f l := by
  unfold List.mapM; rw [mapM_loop_eq]; cases mapOut f l <;> simp

theorem mapOut_fillLine (ww : Bool) (ls ls' : List Str) (h : mapOut (fillLine ww) ls = .ok ls') : ls' = ls := by
  induction ls generalizing ls' with
  | nil => simp only [mapOut] at h; cases h; rfl
  | cons l r ih =>
    simp only [mapOut] at h
    cases hf : fillLine ww l with
    | outside w => rw [hf] at h; cases h
    | ok l' =>
      rw [hf] at h
      cases hm : mapOut (fillLine ww) r with
      | outside w => rw [hm] at h; cases h
      | ok r' =>
        rw [hm] at h; cases h
        rw [fillLine_ok ww l l' hf, ih r' hm]

/-! ### newline counters and `header_args_footer_to_str` without a footer -/

theorem nlsStart_ns (c : Char) (cs : Str) (h : isSpaceC c = false) : nlsStart (c :: cs) = 0 := by
  have : (c == '\n') = false := by
    cases hb : (c == '\n') with
    | false => rfl
    | true => have : c = '\n' := by simpa using hb
              subst this; revert h; decide
  simp [nlsStart, this, h]

theorem nlsStart_nl (cs : Str) : nlsStart ('\n' :: cs) = 1 + nlsStart cs := by simp [nlsStart]

theorem nlsEnd_lastNS (s : Str) (h : LastNS s) : nlsEnd s = 0 := by
  unfold nlsEnd
  cases hr : (s.drop 1).reverse with
  | nil => rfl
  | cons y ys =>
    have e : s.drop 1 = ys.reverse ++ [y] := by
      have := congrArg List.reverse hr
      simpa using this
    have h1 : (s.drop 1).getLast? = some y := by rw [e]; simp
    rw [List.getLast?_drop] at h1
    split at h1
    · cases h1
    · exact nlsStart_ns y ys (h y h1)

theorem nlsEnd_append_nl (s : Str) (hne : s ≠ []) (h : LastNS s) : nlsEnd (s ++ ['\n']) = 1 := by
  unfold nlsEnd
  cases s with
  | nil => exact absurd rfl hne
  | cons c cs =>
    have h0 := nlsEnd_lastNS (c :: cs) h
    unfold nlsEnd at h0
    simp only [List.cons_append, List.drop_succ_cons, List.drop_zero, List.reverse_append, List.reverse_cons, List.reverse_nil,
      List.nil_append] at h0 ⊢
    rw [nlsStart_nl, h0]

theorem leadingWs_ns (c : Char) (cs : Str) (h : isSpaceC c = false) : leadingWs (c :: cs) = 0 := by
  simp [leadingWs, h]

/-- without header and footer the emitter only terminates the block with a newline -/
theorem haf_noheader (A : Str) (hA : A ≠ []) :
    hafToStr [] A [] = A ++ (if nlsEnd A == 0 then ['\n'] else []) := by
  unfold hafToStr
  have hAe : A.isEmpty = false := by cases A with | nil => exact absurd rfl hA | cons _ _ => rfl
  simp only [List.isEmpty_nil, if_true, hAe, Bool.not_false, Bool.not_true, Bool.and_false, Bool.false_and, Bool.false_eq_true, if_false,
    List.nil_append]
  generalize (A ++ if (nlsEnd A == 0) = true then ['\n'] else []) = ar
  have h0 : leadingWs ([] : Str) - 0 = 0 := rfl
  simp only [h0, show spaces 0 = [] from rfl, indentAll_nil, List.append_nil, ite_self, Bool.or_true, Bool.true_or, if_true,
    List.replicate_zero, List.nil_append]

/-- a header the emitter leaves alone: non-empty, starts and ends with a non-blank character -/
structure GoodHeader (h : Str) : Prop where
  ne : h ≠ []
  headNS : HeadNS h
  lastNS : LastNS h

/-- with such a header the block is put after a blank line -/
theorem haf_header (h A : Str) (hh : GoodHeader h) (hA : A ≠ []) (k : Nat) (hk : nlsStart A = k) (hk2 : k < 2)
    (hst : nlsStart (List.replicate (if k == 0 then 2 else k) '\n' ++ A ++ (if nlsEnd A == 0 then ['\n'] else [])) = 2) :
    hafToStr h A [] = h ++ List.replicate (if k == 0 then 2 else k) '\n' ++ A ++ (if nlsEnd A == 0 then ['\n'] else []) := by
  unfold hafToStr
  have hAe : A.isEmpty = false := by cases A with | nil => exact absurd rfl hA | cons _ _ => rfl
  have hhe : h.isEmpty = false := by cases h with | nil => exact absurd rfl hh.ne | cons _ _ => rfl
  have hen : nlsEnd h = 0 := nlsEnd_lastNS h hh.lastNS
  have hlw : leadingWs h = 0 := by
    cases h with
    | nil => rfl
    | cons c cs => exact leadingWs_ns c cs (hh.headNS c rfl)
  simp only [List.isEmpty_nil, hAe, hhe, Bool.not_false, Bool.not_true, Bool.and_false, Bool.false_and, Bool.true_and,
    Bool.false_eq_true, if_false, if_true, hen, hk, hk2, decide_true, beq_self_eq_true, Bool.and_self, hlw, List.take_zero]
  rw [hst]
  generalize har : (List.replicate (if (k == 0) = true then 2 else k) '\n' ++ A ++ if (nlsEnd A == 0) = true then ['\n'] else []) = ar
  have h0 : 0 - count1 ([] : Str) '\n' = 0 := rfl
  simp only [h0, show spaces 0 = [] from rfl, indentAll_nil, List.append_nil, ite_self, Bool.or_true, if_true,
    List.replicate_zero, Nat.zero_add, show decide (2 > 1) = true from rfl, Bool.true_or]
  rw [← har]; simp only [List.append_assoc]

theorem haf_nothing (h : Str) : hafToStr h [] [] = h := by
  unfold hafToStr
  simp

/-- a pattern whose characters all differ from `c` cannot straddle into a continuation that starts with `c` -/
theorem isPrefixOf_append_of_notin (pat d z : Str) (c : Char) (hc : c ∉ pat) :
    pat.isPrefixOf (d ++ c :: z) = pat.isPrefixOf d := by
  induction pat generalizing d with
  | nil => simp
  | cons p ps ih =>
    have hpc : (p == c) = false := by
      cases hb : (p == c) with
      | false => rfl
      | true => exact absurd (by simp [beq_iff_eq.mp hb]) hc
    cases d with
    | nil => simp [List.isPrefixOf, hpc]
    | cons x xs =>
      simp only [List.cons_append, List.isPrefixOf]
      rw [ih xs (fun e => hc (by simp [e]))]

/-! ### ReST field tokens -/

theorem restTokens_eq : Doc.restTokens = [[':','p','a','r','a','m'], [':','t','y','p','e'], [':','r','e','t','u','r','n'], [':','r','t','y','p','e']] := by decide
theorem allRestTokens_eq : allRestTokens = [[':','p','a','r','a','m'], [':','c','v','a','r'], [':','i','v','a','r'], [':','v','a','r'],
    [':','t','y','p','e'], [':','r','a','i','s','e','s'], [':','r','e','t','u','r','n'], [':','r','t','y','p','e']] := by decide
theorem otherTokens_eq : [":raises".toList, ":cvar".toList, ":ivar".toList, ":var".toList]
    = [[':','r','a','i','s','e','s'], [':','c','v','a','r'], [':','i','v','a','r'], [':','v','a','r']] := by decide

theorem any_false_of {α : Type} (l : List α) (p : α → Bool) (h : ∀ x ∈ l, p x = false) : l.any p = false := by
  induction l with
  | nil => rfl
  | cons a as ih => simp only [List.any_cons, h a (by simp), ih (fun x hx => h x (by simp [hx])), Bool.or_self]

theorem startsWith_colon_false (l t : Str) (h : ':' ∉ l) : startsWith l (':' :: t) = false := by
  unfold startsWith
  cases l with
  | nil => rfl
  | cons c cs =>
    have : (':' == c) = false := by
      cases hb : (':' == c) with
      | false => rfl
      | true => exact absurd (by simp [← beq_iff_eq.mp hb]) h
    simp [List.isPrefixOf, this]

theorem contains_false_of_notin (s : Str) (c : Char) (t : Str) (h : c ∉ s) : contains s (c :: t) = false := by
  induction s with
  | nil => rfl
  | cons x xs ih =>
    have hx : (c == x) = false := by
      cases hb : (c == x) with
      | false => rfl
      | true => exact absurd (by simp [beq_iff_eq.mp hb]) h
    simp only [contains, List.isPrefixOf, hx, Bool.false_and, Bool.false_or]
    exact ih (fun e => h (by simp [e]))

/-- every token is a colon followed by a letter, and contains neither a blank, a full stop, a comma nor a backtick -/
theorem allTok_shape : ∀ t ∈ allRestTokens, ∃ x r, t = ':' :: x :: r ∧ x ≠ ' ' ∧ ' ' ∉ t ∧ '.' ∉ t ∧ ',' ∉ t := by
  rw [allRestTokens_eq]
  intro t ht
  simp only [List.mem_cons, List.not_mem_nil, or_false] at ht
  rcases ht with rfl | rfl | rfl | rfl | rfl | rfl | rfl | rfl <;> exact ⟨_, _, rfl, by decide, by decide, by decide, by decide⟩

/-- **no ReST field token occurs in the text** -/
def NoTok (s : Str) : Prop := ∀ t ∈ allRestTokens, contains s t = false

theorem noTok_of_noColon (s : Str) (h : ':' ∉ s) : NoTok s := by
  intro t ht
  obtain ⟨x, r, rfl, _⟩ := allTok_shape t ht
  exact contains_false_of_notin s ':' _ h

theorem noTok_nil : NoTok [] := noTok_of_noColon [] (by simp)

theorem contains_append_left' (a b p : Str) (h : contains a p = true) : contains (a ++ b) p = true := by
  induction a with
  | nil =>
    have hp : p = [] := by
      cases p with
      | nil => rfl
      | cons _ _ => simp [contains] at h
    subst hp
    cases b <;> simp [contains]
  | cons c cs ih =>
    simp only [contains, Bool.or_eq_true] at h
    simp only [List.cons_append, contains, Bool.or_eq_true]
    rcases h with h | h
    · left
      have hpre : p <+: (c :: cs) := List.isPrefixOf_iff_prefix.mp h
      exact List.isPrefixOf_iff_prefix.mpr (hpre.trans (by simpa using List.prefix_append (c :: cs) b))
    · right; exact ih h

theorem contains_append_right' (a b p : Str) (h : contains b p = true) : contains (a ++ b) p = true := by
  induction a with
  | nil => simpa using h
  | cons c cs ih => simp only [List.cons_append, contains, ih, Bool.or_true]

theorem contains_of_startsWith (l t : Str) (h : startsWith l t = true) : contains l t = true := by
  unfold startsWith at h
  cases l with
  | nil =>
    cases t with
    | nil => rfl
    | cons _ _ => simp [List.isPrefixOf] at h
  | cons c cs => simp only [contains, h, Bool.true_or]

theorem contains_of_drop1 (l t : Str) (h : contains (l.drop 1) t = true) : contains l t = true := by
  cases l with
  | nil => simpa using h
  | cons c cs =>
    simp only [List.drop_succ_cons, List.drop_zero] at h
    simp only [contains, h, Bool.or_true]

theorem mem_splitOn1_sub (sep : Char) (s acc l : Str) (h : l ∈ splitOn1 sep s acc) :
    ∃ a b, acc.reverse ++ s = a ++ l ++ b := by
  induction s generalizing acc with
  | nil =>
    simp only [splitOn1, List.mem_singleton] at h
    subst h
    exact ⟨[], [], by simp⟩
  | cons c cs ih =>
    cases hb : (c == sep) with
    | true =>
      simp only [splitOn1, hb, if_true, List.mem_cons] at h
      rcases h with rfl | h
      · exact ⟨[], c :: cs, by simp⟩
      · obtain ⟨a, b, e⟩ := ih [] h
        simp only [List.reverse_nil, List.nil_append] at e
        exact ⟨acc.reverse ++ c :: a, b, by rw [e]; simp⟩
    | false =>
      simp only [splitOn1, hb, Bool.false_eq_true, if_false] at h
      obtain ⟨a, b, e⟩ := ih (c :: acc) h
      exact ⟨a, b, by rw [← e]; simp⟩

/-- the lines of a token-free text are token-free -/
theorem noTok_lines (s : Str) (sep : Char) (h : NoTok s) : ∀ l ∈ split1 s sep, NoTok l := by
  intro l hl t ht
  obtain ⟨a, b, e⟩ := mem_splitOn1_sub sep s [] l hl
  simp only [List.reverse_nil, List.nil_append] at e
  cases hc : contains l t with
  | false => rfl
  | true =>
    have := contains_append_left' (a ++ l) b t (contains_append_right' a l t hc)
    rw [← e, h t ht] at this; cases this

/-- a token cannot straddle into a continuation that starts with a character no token contains -/
theorem contains_append_notin (d z t : Str) (c : Char) (hc : c ∉ t) (hd : contains d t = false)
    (hz : contains (c :: z) t = false) : contains (d ++ c :: z) t = false := by
  induction d with
  | nil => simpa using hz
  | cons x xs ih =>
    simp only [contains, Bool.or_eq_false_iff] at hd
    have h1 : t.isPrefixOf ((x :: xs) ++ c :: z) = false := by
      rw [isPrefixOf_append_of_notin t (x :: xs) z c hc]; exact hd.1
    simp only [List.cons_append] at h1
    simp only [List.cons_append, contains, h1, Bool.false_or]
    exact ih hd.2

theorem noTok_append (d z : Str) (c : Char) (hd : NoTok d) (hc : c = ' ' ∨ c = '.' ∨ c = ',') (hz : ':' ∉ c :: z) :
    NoTok (d ++ c :: z) := by
  intro t ht
  obtain ⟨x, r, rfl, _, h1, h2, h3⟩ := allTok_shape t ht
  apply contains_append_notin d z _ c ?_ (hd _ ht) (contains_false_of_notin _ _ _ hz)
  rcases hc with rfl | rfl | rfl
  · exact h1
  · exact h2
  · exact h3

end DocRT
