import CddVerif.Proofs.DocNPRoundTripDomain
/-!
# One conversion round reaches a fixpoint (C08) — Google and NumPy docstrings on the model

Helper lemmas for `Properties/C08Google.lean` and `Properties/C08Numpy.lean`: the conversion of a parsed interface back to
an emitter interface (`backIR`), the condition "no latch victim" (`noVictimB`), the interface with the inferred types
filled in (`typedUp`) and the closure of the Google domain under it, congruences of the emitter, and round 2.
-/
namespace DocGNFix
open Py Doc DocRT DocGN DocGNRT

/-! ### from the parser's records back to the emitter's -/

/-- a parsed default as an emitter default.  `0j` and `tuple()` have no counterpart in `Doc.Default`; they are mapped to
    code text and cannot arise on the domain of the theorems (there `hop` is given explicitly) -/
def dBack : Dflt → Default
  | .base d => d
  | .complex0 => .code g!"0j"
  | .tuple0 => .code g!"()"

def pBack (q : GParam) : Param := { typ := q.typ, doc := q.doc, default := q.default.map dBack }

def backIR (g : GIR) : IR :=
  { doc := g.doc, params := g.params.map (fun nq => (nq.1, pBack nq.2)), returns := g.returns.map pBack }

/-- **no latch victim**: no parameter without a carried default comes after one with a carried default
    (always true when `emit_default_doc` is off) -/
def noVictimB (edd : Bool) : Bool → List (Str × Param) → Bool
  | _, [] => true
  | rd, (_, p) :: r => !(rd && (dfltOf p edd).isNone) && noVictimB edd (rd || (dfltOf p edd).isSome) r

/-- the type round 1 leaves: the declared one, else the type name of the carried default -/
def upTyp (edd : Bool) (p : Param) : Option Str :=
  match dfltOf p edd with
  | some v => (match p.typ with | some t => some t | Option.none => some (Doc.tyName v))
  | Option.none => p.typ

/-- the interface with the inferred types filled in -/
def upParam (edd : Bool) (p : Param) : Param := { p with typ := upTyp edd p }
def typedUp (ir : IR) (edd : Bool) : IR := { ir with params := ir.params.map (fun np => (np.1, upParam edd np.2)) }

theorem expParamG_rd (rd edd : Bool) (p : Param) (h : (rd && (dfltOf p edd).isNone) = false) :
    expParamG rd edd p = expParamG false edd p := by
  unfold expParamG
  cases hd : dfltOf p edd with
  | some v => rfl
  | none => rw [hd] at h; cases rd <;> simp_all

theorem expParamsG_noVictim (edd rd : Bool) (ps : List (Str × Param)) (h : noVictimB edd rd ps = true) :
    expParamsG edd rd ps = ps.map (fun np => (np.1, expParamG false edd np.2)) := by
  induction ps generalizing rd with
  | nil => rfl
  | cons np r ih =>
    obtain ⟨n, p⟩ := np
    simp only [noVictimB, Bool.and_eq_true, Bool.not_eq_true'] at h
    simp only [expParamsG, List.map_cons, expParamG_rd rd edd p h.1, ih _ h.2]

theorem dflt_intBool (p : Param) (edd : Bool) (v : Default) (hib : ∀ v, p.default = some v → IntBool v)
    (hv : dfltOf p edd = some v) : IntBool v ∧ p.default = some v ∧ edd = true := by
  unfold dfltOf at hv
  cases edd
  · simp at hv
  · simp only [if_true] at hv; exact ⟨hib v hv, hv, rfl⟩

/-- the round-1 parameter, back as an emitter record -/
theorem pBack_exp (edd : Bool) (p : Param) (hib : ∀ v, p.default = some v → IntBool v) :
    pBack (expParamG false edd p) = { typ := upTyp edd p, doc := some (docText p edd), default := dfltOf p edd } := by
  unfold expParamG upTyp pBack
  cases hd : dfltOf p edd with
  | none => rfl
  | some v =>
    have hi := (dflt_intBool p edd v hib hd).1
    cases v with
    | int i => cases ht : p.typ <;> rfl
    | bool b => cases ht : p.typ <;> rfl
    | float _ => exact absurd hi (by simp [IntBool])
    | str _ => exact absurd hi (by simp [IntBool])
    | none => exact absurd hi (by simp [IntBool])
    | code _ => exact absurd hi (by simp [IntBool])

theorem docText_up (edd e : Bool) (p : Param) : docText (upParam edd p) e = docText p e := rfl
theorem dfltOf_up (edd e : Bool) (p : Param) : dfltOf (upParam edd p) e = dfltOf p e := rfl

theorem expParamG_up (rd edd : Bool) (p : Param) (hib : ∀ v, p.default = some v → IntBool v) :
    expParamG rd edd (upParam edd p) = expParamG rd edd p := by
  unfold expParamG
  rw [dfltOf_up, docText_up]
  cases hd : dfltOf p edd with
  | none =>
    have : upParam edd p = p := by unfold upParam upTyp; rw [hd]
    rw [this]
  | some v =>
    have hi := (dflt_intBool p edd v hib hd).1
    have ht : (upParam edd p).typ = (match p.typ with | some t => some t | Option.none => some (Doc.tyName v)) := by
      show upTyp edd p = _; unfold upTyp; rw [hd]
    simp only [ht]
    cases v with
    | int i => cases p.typ <;> rfl
    | bool b => cases p.typ <;> rfl
    | float _ => exact absurd hi (by simp [IntBool])
    | str _ => exact absurd hi (by simp [IntBool])
    | none => exact absurd hi (by simp [IntBool])
    | code _ => exact absurd hi (by simp [IntBool])

theorem expParamsG_up (edd rd : Bool) (ps : List (Str × Param)) (hib : ∀ np ∈ ps, ∀ v, np.2.default = some v → IntBool v) :
    expParamsG edd rd (ps.map (fun np => (np.1, upParam edd np.2))) = expParamsG edd rd ps := by
  induction ps generalizing rd with
  | nil => rfl
  | cons np r ih =>
    obtain ⟨n, p⟩ := np
    simp only [List.map_cons, expParamsG, dfltOf_up, expParamG_up rd edd p (hib (n, p) (by simp)),
      ih _ (fun x hx => hib x (by simp [hx]))]

/-! ### congruences of the emitter -/

theorem emitParamStr_congr (name : Str) (p q : Param) (style : Style) (et ww edd : Bool) (h1 : q.typ = p.typ)
    (h2 : truthy q.doc = truthy p.doc) (h3 : setDefaultDoc name q edd = setDefaultDoc name p edd) :
    emitParamStr name q style et ww edd = emitParamStr name p style et ww edd := by
  unfold emitParamStr
  simp (config := {zeta := false}) only [h1, h2, h3]

theorem emit_congr (ir1 ir2 : IR) (style : Style) (et ww edd : Bool) (h1 : ir1.doc = ir2.doc) (h2 : ir1.returns = ir2.returns)
    (h3 : mapOut (fun np => emitParamStr np.1 np.2 style et ww edd) ir1.params
        = mapOut (fun np => emitParamStr np.1 np.2 style et ww edd) ir2.params) :
    emit ir1 style et ww edd = emit ir2 style et ww edd := by
  unfold emit
  simp (config := {zeta := false}) only [mapM_eq, h1, h2, h3]

theorem mapOut_congr_map {α β γ : Type} (f : β → Out γ) (g1 g2 : α → β) (l : List α)
    (h : ∀ x ∈ l, f (g1 x) = f (g2 x)) : mapOut f (l.map g1) = mapOut f (l.map g2) := by
  induction l with
  | nil => rfl
  | cons a r ih =>
    simp only [List.map_cons, mapOut, h a (by simp), ih (fun x hx => h x (by simp [hx]))]

/-! ### the typed-up interface stays in the domain -/

theorem upTyp_cases (edd : Bool) (p : Param) (hib : ∀ v, p.default = some v → IntBool v) :
    upTyp edd p = p.typ ∨ (p.typ = Option.none ∧ ∃ v, p.default = some v ∧ IntBool v ∧ upTyp edd p = some (Doc.tyName v)) := by
  unfold upTyp
  cases hd : dfltOf p edd with
  | none => left; rfl
  | some v =>
    obtain ⟨hi, hv, _⟩ := dflt_intBool p edd v hib hd
    cases ht : p.typ with
    | some t => left; rfl
    | none => right; exact ⟨rfl, v, hv, hi, rfl⟩

theorem goodEntry_up (edd : Bool) (p : Param) (hp : GoodEntry p) (hib : ∀ v, p.default = some v → IntBool v) :
    GoodEntry (upParam edd p) := by
  rcases upTyp_cases edd p hib with h | ⟨hnone, v, hv, hi, h⟩
  · have : upParam edd p = p := by unfold upParam; rw [h]
    rw [this]; exact hp
  · refine ⟨hp.docSome, hp.doc, ?_, ?_⟩
    · intro t ht
      have : upTyp edd p = some t := ht
      rw [h] at this
      cases this
      exact (goodTyp_tyName v (intBool_good v hi)).1
    · intro w hw
      have hw' : p.default = some w := hw
      rw [hv] at hw'
      cases hw'
      refine ⟨(hp.dflt v hv).1, ?_⟩
      show Compat (upTyp edd p) v
      rw [h]; exact compat_tyName v

theorem tyName_google_ok (v : Default) (hi : IntBool v) :
    contains (Doc.tyName v) sOr = false ∧ (∃ qb, needsQuotingG (some (Doc.tyName v)) = .ok qb)
      ∧ GNoBreak (Doc.tyName v) ∧ Ascii (Doc.tyName v) := by
  have key : ∀ t : Str, (t = ['i','n','t'] ∨ t = ['b','o','o','l']) →
      contains t sOr = false ∧ (∃ qb, needsQuotingG (some t) = .ok qb) ∧ GNoBreak t ∧ Ascii t := by
    intro t ht
    rcases ht with rfl | rfl
    · exact ⟨by decide, ⟨false, by decide⟩, by intro c hc; revert hc; revert c; decide, by intro c hc; revert hc; revert c; decide⟩
    · exact ⟨by decide, ⟨false, by decide⟩, by intro c hc; revert hc; revert c; decide, by intro c hc; revert hc; revert c; decide⟩
  cases v with
  | int i => exact key _ (Or.inl rfl)
  | bool b => exact key _ (Or.inr rfl)
  | float _ => exact absurd hi (by simp [IntBool])
  | str _ => exact absurd hi (by simp [IntBool])
  | none => exact absurd hi (by simp [IntBool])
  | code _ => exact absurd hi (by simp [IntBool])

theorem gEntry_up (name : Str) (edd : Bool) (p : Param) (g : GEntry name p) : GEntry name (upParam edd p) := by
  rcases upTyp_cases edd p g.intBool with h | ⟨hnone, v, hv, hi, h⟩
  · have : upParam edd p = p := by unfold upParam; rw [h]
    rw [this]; exact g
  · refine ⟨goodEntry_up edd p g.base g.intBool, g.intBool, g.text, g.brace, ?_⟩
    intro t ht
    have : upTyp edd p = some t := ht
    rw [h] at this
    cases this
    exact ⟨(tyName_google_ok v hi).1, (tyName_google_ok v hi).2.1⟩

theorem indentOf_gLine (name : Str) (typ : Option Str) (d : Str) (hne : name ≠ []) (hh : HeadNS name) :
    indentOf (gLine name typ d) = 2 := by
  obtain ⟨c, cs, rfl⟩ : ∃ c cs, name = c :: cs := by
    cases name with
    | nil => exact absurd rfl hne
    | cons c cs => exact ⟨c, cs, rfl⟩
  have hc := hh c rfl
  unfold indentOf gLine
  have hsp : isSpaceC ' ' = true := by decide
  simp [List.takeWhile_cons, hsp, hc]

/-- the line with an inferred type name put in is as well-formed as the line without -/
theorem gLine_retype (name t d : Str) (hn : GName name) (hd : d ≠ [])
    (hold : GScanLine (gLine name Option.none d) ∧ Ascii (gLine name Option.none d))
    (ht : GNoBreak t ∧ Ascii t) (htne : t ≠ []) :
    GScanLine (gLine name (some t) d) ∧ Ascii (gLine name (some t) d) := by
  have htr : truthy (some t) = true := by cases t with | nil => exact absurd rfl htne | cons _ _ => rfl
  have hnew : gLine name (some t) d = [' ', ' '] ++ name ++ ([' ', '('] ++ t ++ [')', ':', ' ']) ++ d := by
    unfold gLine; simp [htr]
  have holdE : gLine name Option.none d = [' ', ' '] ++ name ++ [':', ' '] ++ d := by
    unfold gLine; simp [truthy]
  have hmem : ∀ c ∈ gLine name (some t) d, c ∈ gLine name Option.none d ∨ c ∈ t ∨ c = '(' ∨ c = ')' := by
    intro c hc
    rw [hnew] at hc
    rw [holdE]
    simp only [List.mem_append, List.mem_cons, List.not_mem_nil, or_false] at hc ⊢
    rcases hc with ((h | h) | ((h | h) | h)) | h
    · left; left; left; left; exact h
    · left; left; left; right; exact h
    · rcases h with h | h
      · left; left; left; left; left; exact h
      · right; right; left; exact h
    · right; left; exact h
    · rcases h with h | h | h
      · right; right; right; exact h
      · left; left; right; left; exact h
      · left; left; right; right; exact h
    · left; right; exact h
  refine ⟨⟨?_, indentOf_gLine name _ d hn.ne hn.headNS, ?_⟩, ?_⟩
  · intro c hc
    rcases hmem c hc with h | h | rfl | rfl
    · exact hold.1.noBreak c h
    · exact ht.1 c h
    · decide
    · decide
  · have h1 : (gLine name (some t) d).getLast? = d.getLast? := by
      rw [hnew, List.getLast?_append]
      cases hg : d.getLast? with
      | none => exact absurd (List.getLast?_eq_none_iff.mp hg) hd
      | some x => rfl
    have h2 : (gLine name Option.none d).getLast? = d.getLast? := by
      rw [holdE, List.getLast?_append]
      cases hg : d.getLast? with
      | none => exact absurd (List.getLast?_eq_none_iff.mp hg) hd
      | some x => rfl
    rw [h1, ← h2]; exact hold.1.last
  · intro c hc
    rcases hmem c hc with h | h | rfl | rfl
    · exact hold.2 c h
    · exact ht.2 c h
    · decide
    · decide

/-- **closure of the Google domain under filling in the inferred types** -/
theorem gGoodIR_typedUp (ir : IR) (edd : Bool) (g : GGoodIR ir) : GGoodIR (typedUp ir edd) := by
  have hmem : ∀ nq ∈ (typedUp ir edd).params, ∃ np ∈ ir.params, nq = (np.1, upParam edd np.2) := by
    intro nq hnq
    obtain ⟨np, hnp, rfl⟩ := List.mem_map.mp hnq
    exact ⟨np, hnp, rfl⟩
  refine ⟨g.hdr, g.hdrArgs, g.hdrAscii, g.noRet, ?_, ?_, ?_, ?_, ?_⟩
  · show ir.params.map _ ≠ []
    simpa using g.ne
  · intro nq hnq; obtain ⟨np, hnp, rfl⟩ := hmem nq hnq; exact g.names np hnp
  · intro nq hnq; obtain ⟨np, hnp, rfl⟩ := hmem nq hnq; exact gEntry_up np.1 edd np.2 (g.entries np hnp)
  · intro nq hnq e
    obtain ⟨np, hnp, rfl⟩ := hmem nq hnq
    show GScanLine (gLine np.1 (upTyp edd np.2) (docText np.2 e)) ∧ Ascii (gLine np.1 (upTyp edd np.2) (docText np.2 e))
    have ge := g.entries np hnp
    rcases upTyp_cases edd np.2 ge.intBool with h | ⟨hnone, v, hv, hi, h⟩
    · rw [h]; exact g.lines np hnp e
    · rw [h]
      have hold := g.lines np hnp e
      rw [hnone] at hold
      have tk := tyName_google_ok v hi
      exact gLine_retype np.1 _ _ (g.names np hnp) (ge.text e).good.ne hold ⟨tk.2.2.1, tk.2.2.2⟩
        (goodTyp_tyName v (intBool_good v hi)).1.ne
  · show ((ir.params.map (fun np => (np.1, upParam edd np.2))).map (·.1)).Nodup
    rw [List.map_map]
    exact g.nodup

/-! ### round 2 -/

theorem backIR_params (ir : IR) (edd : Bool) (hib : ∀ np ∈ ir.params, ∀ v, np.2.default = some v → IntBool v)
    (hv : noVictimB edd false ir.params = true) :
    (backIR (expIRG ir edd)).params
      = ir.params.map (fun np => (np.1, ({ typ := upTyp edd np.2, doc := some (docText np.2 edd), default := dfltOf np.2 edd } : Param))) := by
  show (expParamsG edd false ir.params).map _ = _
  rw [expParamsG_noVictim edd false ir.params hv, List.map_map]
  apply List.map_congr_left
  intro np hnp
  show (np.1, pBack (expParamG false edd np.2)) = _
  rw [pBack_exp edd np.2 (hib np hnp)]

/-- **the emitter produces the same text** for the round-1 result as for the typed-up interface (any style) -/
theorem emit_back_eq (ir : IR) (style : Style) (et ww edd : Bool) (hret : ir.returns = Option.none)
    (hp : ∀ np ∈ ir.params, GoodEntry np.2) (hib : ∀ np ∈ ir.params, ∀ v, np.2.default = some v → IntBool v)
    (hv : noVictimB edd false ir.params = true) :
    emit (backIR (expIRG ir edd)) style et ww edd = emit (typedUp ir edd) style et ww edd := by
  apply emit_congr
  · rfl
  · show Option.map pBack Option.none = ir.returns
    rw [hret]; rfl
  · rw [backIR_params ir edd hib hv]
    show _ = mapOut _ (ir.params.map (fun np => (np.1, upParam edd np.2)))
    apply mapOut_congr_map
    intro np hnp
    have g := hp np hnp
    have gu := goodEntry_up edd np.2 g (hib np hnp)
    apply emitParamStr_congr
    · rfl
    · show truthy (some (docText np.2 edd)) = truthy np.2.doc
      rw [goodEntry_truthy np.2 g]
      have := (docText_good np.2 edd g).ne
      cases hd : docText np.2 edd with
      | nil => exact absurd hd this
      | cons _ _ => rfl
    · rw [setDefaultDoc_exp np.1 np.2 _ edd g, setDefaultDoc_good np.1 (upParam edd np.2) edd gu, docText_up]

theorem expIRG_typedUp (ir : IR) (edd : Bool) (hib : ∀ np ∈ ir.params, ∀ v, np.2.default = some v → IntBool v) :
    expIRG (typedUp ir edd) edd = expIRG ir edd := by
  unfold expIRG typedUp
  simp only [expParamsG_up edd false ir.params hib]

/-- the Google emitter answers on the whole proof-side domain (it never calls `fill`) -/
theorem emit_google_total (ir : IR) (et ww edd : Bool) (g : GGoodIR ir) : ∃ s, emit ir .google et ww edd = .ok s := by
  rw [emit_google_eq ir et ww edd g.noRet]
  have : mapOut (fun np => emitParamStr np.1 np.2 .google et ww edd) ir.params = .ok (gLines ir edd) := by
    unfold gLines
    have := mapOut_map_ok (fun np : Str × Param => emitParamStr np.1 np.2 .google et ww edd) id
      (fun np => gLine np.1 np.2.typ (docText np.2 edd)) ir.params (fun np hnp => by
        have ge := (g.entries np hnp).base
        exact emitParamStr_google np.1 np.2 et ww edd (docText np.2 edd) (goodEntry_truthy _ ge) (setDefaultDoc_good np.1 np.2 edd ge)
          (by cases hb : (np.1 == Doc.sReturnType) with
              | false => rfl
              | true => exact absurd (beq_iff_eq.mp hb) (g.names np hnp).base.notRet)
          (docText_good np.2 edd ge).ne)
    rw [List.map_id] at this
    exact this
  rw [this]
  exact ⟨_, rfl⟩

/-- **Round 2, Google.**  On the domain, without a latch victim: the emitter answers on the round-1 result and the parser
    returns the same parsed interface -/
theorem round2_google_core (ir : IR) (et ww edd : Bool) (g : GGoodIR ir) (hv : noVictimB edd false ir.params = true) :
    ∃ s', emit (backIR (expIRG ir edd)) .google et ww edd = .ok s' ∧ emit (typedUp ir edd) .google et ww edd = .ok s'
      ∧ parseGN .google s' edd = .ok (expIRG ir edd) := by
  have hib : ∀ np ∈ ir.params, ∀ v, np.2.default = some v → IntBool v := fun np hnp => (g.entries np hnp).intBool
  have gu := gGoodIR_typedUp ir edd g
  obtain ⟨s', hs'⟩ := emit_google_total (typedUp ir edd) et ww edd gu
  refine ⟨s', ?_, hs', ?_⟩
  · rw [emit_back_eq ir .google et ww edd g.noRet (fun np hnp => (g.entries np hnp).base) hib hv]; exact hs'
  · rw [parse_emitted_google (typedUp ir edd) et ww edd s' gu hs', expIRG_typedUp ir edd hib]

open DocNPRT in
theorem typedUp_typed (ir : IR) (edd : Bool) (h : ∀ np ∈ ir.params, ∃ t, np.2.typ = some t) : typedUp ir edd = ir := by
  unfold typedUp
  have : ir.params.map (fun np => (np.1, upParam edd np.2)) = ir.params := by
    apply map_id_of
    intro np hnp
    obtain ⟨t, ht⟩ := h np hnp
    have : upParam edd np.2 = np.2 := by
      unfold upParam upTyp
      rw [ht]
      cases dfltOf np.2 edd <;> simp [← ht]
    rw [this]
  rw [this]

open DocNPRT in
/-- **Round 2, NumPy** (types emitted): the round-1 result is emitted as **the very same text** -/
theorem round2_numpy_core (ir : IR) (ww edd : Bool) (g : NGoodIR ir) (hv : noVictimB edd false ir.params = true) :
    emit (backIR (expIRG ir edd)) .numpydoc true ww edd = emit ir .numpydoc true ww edd := by
  have hib : ∀ np ∈ ir.params, ∀ v, np.2.default = some v → IntBool v := fun np hnp => (g.entries np hnp).intBool
  rw [emit_back_eq ir .numpydoc true ww edd g.noRet (fun np hnp => (g.entries np hnp).base) hib hv,
    typedUp_typed ir edd (fun np hnp => by obtain ⟨t, ht, _⟩ := g.typed np hnp; exact ⟨t, ht⟩)]

end DocGNFix
