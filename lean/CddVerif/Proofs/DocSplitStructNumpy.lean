import CddVerif.Proofs.DocSplitStructField
/-!
# C15 (structural split) — NumPy-style docstrings

`d = unlines (hs ++ es) ++ K ++ '\n' :: (D ++ '\n' :: body)`: header lines `hs`, earlier section lines `es`, the **last**
heading `K` (`Parameters` / `Returns`, unindented) with its underline `D` (dashes, at least as long as `K`), then `body`.
-/
namespace DSS
open Py DocUtils DocSplit Loop

/-! ### `str.find("\n", i)` on a line -/

theorem findFrom_nl (b c : Str) (i : Nat) (hb : '\n' ∉ b) : findFrom ['\n'] (b ++ '\n' :: c) i = some (i + b.length) := by
  induction b generalizing i with
  | nil => simp [findFrom]
  | cons x xs ih =>
    have hx : x ≠ '\n' := fun e => hb (e ▸ List.mem_cons_self)
    have hp : (['\n'] : Str).isPrefixOf (x :: (xs ++ '\n' :: c)) = false := by
      simp [List.isPrefixOf, hx.symm]
    simp only [List.cons_append, findFrom, hp, Bool.false_eq_true, if_false]
    rw [ih _ (fun m => hb (List.mem_cons_of_mem _ m))]
    simp only [List.length_cons]; congr 1; omega

theorem findAtI_line (a b c : Str) (hb : '\n' ∉ b) :
    findAtI (a ++ b ++ '\n' :: c) ['\n'] a.length = ((a.length + b.length : Nat) : Int) := by
  unfold findAtI findAt
  have h1 : ¬ (a.length > (a ++ b ++ '\n' :: c).length) := by simp
  have h2 : (a ++ b ++ '\n' :: c).drop a.length = b ++ '\n' :: c := by
    rw [List.append_assoc, List.drop_left]
  simp only [h1, if_false, h2, findFrom_nl b c _ hb]

/-! ### the token walker over a heading and its underline -/

theorem tokRun_word (w : Str) (i : Nat) (lf : Option Int) (pen stack : Str) (hw : ∀ c ∈ w, isSpaceC c = false) :
    tokRun w i (lf, pen, stack) = (lf, pen, stack ++ w) := by
  induction w generalizing i stack with
  | nil => simp [tokRun]
  | cons c cs ih =>
    have hc := hw c List.mem_cons_self
    simp only [tokRun, tokStep, hc, Bool.false_eq_true, if_false]
    rw [ih _ _ (fun x hx => hw x (List.mem_cons_of_mem _ hx))]
    simp

theorem numpy_words : numpySet.all (fun t => t.toList.all (fun c => !isSpaceC c) && !allDashes t.toList
    && tokensSet.contains t && !t.toList.isEmpty && !t.toList.contains '\n') = true := by decide

theorem numpy_word_facts (K : Str) (h : inSet numpySet K = true) :
    (∀ c ∈ K, isSpaceC c = false) ∧ allDashes K = false ∧ inSet tokensSet K = true ∧ K ≠ [] ∧ '\n' ∉ K := by
  unfold inSet at h
  rw [List.any_eq_true] at h
  obtain ⟨t, ht, he⟩ := h
  have hK : t.toList = K := beq_iff_eq.mp he
  have := List.all_eq_true.mp numpy_words t ht
  simp only [Bool.and_eq_true, Bool.not_eq_true', List.all_eq_true, List.contains_eq_mem, decide_eq_false_iff_not,
    decide_eq_true_eq, List.isEmpty_eq_false_iff] at this
  obtain ⟨⟨⟨⟨h1, h2⟩, h3⟩, h4⟩, h5⟩ := this
  rw [hK] at h1 h2 h4 h5
  refine ⟨h1, h2, ?_, h4, h5⟩
  unfold inSet
  rw [List.any_eq_true]
  exact ⟨t, h3, he⟩

theorem dashes_facts (D : Str) (h : allDashes D = true) : (∀ c ∈ D, isSpaceC c = false) ∧ '\n' ∉ D := by
  have hall : ∀ c ∈ D, c = '-' := fun c hc => beq_iff_eq.mp (List.all_eq_true.mp h c hc)
  constructor
  · intro c hc; rw [hall c hc]; decide
  · intro hm; have := hall _ hm; exact absurd this (by decide)

/-- after the heading `K`, its newline, the underline `D` and its newline, the walker's last token is
    `start of D + |K|` -/
theorem tokRun_heading (K D : Str) (i : Nat) (lf : Option Int) (pen : Str)
    (hK : inSet numpySet K = true) (hD : allDashes D = true) (hDne : D ≠ []) :
    tokRun (K ++ '\n' :: (D ++ ['\n'])) i (lf, pen, []) = (some (((i + K.length + 1 + K.length : Nat) : Int)), D, []) := by
  obtain ⟨hKw, hKd, hKt, hKne, _⟩ := numpy_word_facts K hK
  obtain ⟨hDw, _⟩ := dashes_facts D hD
  rw [tokRun_append, tokRun_word K i lf pen [] hKw]
  simp only [List.nil_append, tokRun]
  have hKe : K.isEmpty = false := by cases K with | nil => exact absurd rfl hKne | cons _ _ => rfl
  have hDe : D.isEmpty = false := by cases D with | nil => exact absurd rfl hDne | cons _ _ => rfl
  have hs1 : tokStep (i + K.length) (lf, pen, K) '\n' = (some (((i + K.length : Nat) : Int) - K.length), K, []) := by
    simp [tokStep, isSpaceC_nl, hKe, hKd, hKt]
  rw [hs1, tokRun_append, tokRun_word D _ _ K [] hDw]
  simp only [List.nil_append, tokRun]
  have hs2 : tokStep (i + K.length + 1 + D.length) (some (((i + K.length : Nat) : Int) - K.length), K, D) '\n'
      = (some (((i + K.length + 1 + D.length : Nat) : Int) - D.length + K.length), D, []) := by
    simp [tokStep, isSpaceC_nl, hDe, hD, hK]
  rw [hs2]
  congr 2
  omega

/-! ### the numpydoc exit of `_get_end_of_last_found` -/

/-- `numScan` answers its initial value, or the index of some newline of the scanned text -/
theorem numScan_result (r : Str) (k : Nat) (lt : Option Int) (stack : Str) :
    numScan r k lt stack = lt ∨ ∃ j, r[j]? = some '\n' ∧ numScan r k lt stack = some ((k + j : Nat) : Int) := by
  induction r generalizing k lt stack with
  | nil => left; rfl
  | cons c cs ih =>
    simp only [numScan]
    by_cases hc : (c == '\n') = true
    · simp only [hc, if_true]
      have hc' : c = '\n' := beq_iff_eq.mp hc
      rcases ih (k + 1) (if (stack.any fun x => x == ':') = true then some (k : Int) else lt) [] with h | ⟨j, hj, h⟩
      · rw [h]
        split
        · right; exact ⟨0, by simp [hc'], by simp⟩
        · left; rfl
      · right; exact ⟨j + 1, by simpa using hj, by rw [h]; congr 2; omega⟩
    · simp only [hc, Bool.false_eq_true, if_false]
      rcases ih (k + 1) lt (stack ++ [c]) with h | ⟨j, hj, h⟩
      · left; exact h
      · right; exact ⟨j + 1, by simpa using hj, by rw [h]; congr 2; omega⟩

/-- `for i in range(lta, 0, -1): if s[i] == "\n": …` started on a newline stops at once -/
theorem scanBackNlHit_at_nl (d : Str) (lta : Nat) (h1 : 1 ≤ lta) (h : d[lta]? = some '\n') :
    scanBackNlHit d.toArray lta = .ok (some ((lta : Int) + 1)) := by
  obtain ⟨k, hk⟩ : ∃ k, lta = k + 1 := ⟨lta - 1, by omega⟩
  subst hk
  rw [scanBackNlHit, at?_nat, h]
  simp

/-! ### no token at the start of any line of the body -/

/-- skip the indentation of a line (blanks other than the newline) -/
def skipInd (r : Str) : Str := r.dropWhile (fun c => isSpaceC c && c != '\n')

/-- at every line start of the text, what follows the indentation does not start with a member of `TOKENS_SET`
    (`atStart`: the first character is at a line start) -/
def lineStartsOk : Bool → Str → Bool
  | _, [] => true
  | atStart, c :: cs => (!atStart || !startsWithAny tokensSet (skipInd (c :: cs))) && lineStartsOk (c == '\n') cs

theorem startsWithAny_nil : startsWithAny tokensSet [] = false := by decide

theorem lineStartsOk_sound (X R : Str) (b : Bool) (h : lineStartsOk b (X ++ R) = true)
    (hX : (X = [] ∧ b = true) ∨ X.getLast? = some '\n') : startsWithAny tokensSet (skipInd R) = false := by
  induction X generalizing b with
  | nil =>
    rcases hX with ⟨_, hb⟩ | hX
    · subst hb
      cases R with
      | nil => exact startsWithAny_nil
      | cons c cs =>
        simp only [List.nil_append, lineStartsOk, Bool.not_true, Bool.false_or, Bool.and_eq_true, Bool.not_eq_true'] at h
        exact h.1
    · simp at hX
  | cons x xs ih =>
    simp only [List.cons_append, lineStartsOk, Bool.and_eq_true] at h
    apply ih (x == '\n') h.2
    cases xs with
    | nil =>
      left
      rcases hX with ⟨hx, _⟩ | hX
      · cases hx
      · simp only [List.getLast?_singleton, Option.some.injEq] at hX
        exact ⟨rfl, by rw [hX]; rfl⟩
    | cons y ys =>
      right
      rcases hX with ⟨hx, _⟩ | hX
      · cases hx
      · rw [List.getLast?_cons_cons] at hX; exact hX

theorem skipInd_ns (R : Str) (h : leadingWs R = 0) : skipInd R = R := by
  cases R with
  | nil => rfl
  | cons c cs =>
    have hc : isSpaceC c = false := by
      cases hsp : isSpaceC c with
      | false => rfl
      | true => simp [leadingWs, hsp] at h
    simp [skipInd, hc]

theorem skipInd_line (Z : Str) (h : '\n' ∉ Z) : skipInd Z = lstrip Z := by
  unfold skipInd lstrip
  induction Z with
  | nil => rfl
  | cons c cs ih =>
    have hc : c ≠ '\n' := fun e => h (e ▸ List.mem_cons_self)
    by_cases hsp : isSpaceC c = true
    · simp only [List.dropWhile_cons, hsp, Bool.true_and, bne_iff_ne, ne_eq, hc, not_false_eq_true, if_true]
      exact ih (fun m => h (List.mem_cons_of_mem _ m))
    · simp [hsp]

/-! ### the `while` loop of `_get_token_last_idx_if_no_next_token` never moves its answer before its start -/

theorem loopC_prevEnd_ge (s : S) (S0 : Nat) (st : CState) (h1 : S0 ≤ st.prevEnd) (h2 : S0 ≤ st.lineEnd) :
    S0 ≤ ((loopC s).run st).1.prevEnd := by
  have := run_invariant (loopC s) (fun st => S0 ≤ st.prevEnd ∧ S0 ≤ st.lineEnd)
    (by
      intro st st' hinv hstep
      simp only [loopC] at hstep
      split at hstep
      · injection hstep with hstep
        subst hstep
        simp only
        refine ⟨?_, by omega⟩
        split
        · exact hinv.1
        · split
          · split
            · simp only; omega
            · exact hinv.1
          · split
            · simp only; omega
            · exact hinv.1
      · cases hstep)
    (by intro st st' _ h; simp only [loopC] at h; split at h <;> cases h)
    (by intro st _ h; simp only [loopC] at h; split at h <;> cases h)
    st ⟨h1, h2⟩
  exact this.1.1

/-! ### `_last_doc_str_token` on a NumPy docstring -/

theorem numpy_lastTok (pre K D body : Str)
    (hpre : pre = [] ∨ ∃ c, pre.getLast? = some c ∧ isSpaceC c = true)
    (hK : inSet numpySet K = true) (hD : allDashes D = true) (hDne : D ≠ [])
    (hq : quiet none [] body = true) :
    lastDocStrToken (pre ++ K ++ '\n' :: (D ++ '\n' :: body)).toArray
      = some (((pre.length + K.length + 1 + K.length : Nat) : Int)) := by
  have hd : pre ++ K ++ '\n' :: (D ++ '\n' :: body) = pre ++ ((K ++ '\n' :: (D ++ ['\n'])) ++ body) := by simp
  rw [hd, lastDocStrToken_eq, tokScan_eq_run, tokRun_append, tokRun_append]
  have h1 : (tokRun pre 0 (none, [], [])).2.2 = [] := tokRun_stack_nil pre 0 _ rfl hpre
  generalize tokRun pre 0 (none, [], []) = σ1 at h1 ⊢
  obtain ⟨lf1, pen1, st1⟩ := σ1
  simp only at h1; subst h1
  rw [tokRun_heading K D _ lf1 pen1 hK hD hDne]
  rw [quiet_sound body _ _ none D [] (Or.inl rfl) hq]
  congr 2; omega

/-! ### `_get_end_of_last_found` on a NumPy docstring -/

theorem getElem?_append_nl_ge (a b : Str) (j : Nat) (ha : '\n' ∉ a) (h : (a ++ b)[j]? = some '\n') :
    ∃ j', j = a.length + j' ∧ b[j']? = some '\n' := by
  by_cases hj : j < a.length
  · rw [List.getElem?_append_left hj] at h
    exact absurd (List.mem_of_getElem? h) ha
  · refine ⟨j - a.length, by omega, ?_⟩
    rw [List.getElem?_append_right (by omega)] at h; exact h

theorem numpy_endOfLastFound (p K D body : Str) (hp : p ≠ [])
    (hK : inSet numpySet K = true) (hD : allDashes D = true) (hKD : K.length ≤ D.length) :
    ∀ fmt : Style, ∃ lfe, endOfLastFound (p ++ ['\n'] ++ K ++ '\n' :: (D ++ '\n' :: body)).toArray
        (((p.length + 1 + K.length + 1 + K.length : Nat) : Int)) (some (((p.length + 1 + K.length + 1 : Nat) : Int))) fmt = .ok lfe
      ∧ (lfe = none ∨ ∃ j, ('\n' :: body)[j]? = some '\n'
            ∧ lfe = some (((p.length + 1 + K.length + 1 + D.length + j + 1 : Nat) : Int))) := by
  obtain ⟨_, _, _, hKne, hKnl⟩ := numpy_word_facts K hK
  obtain ⟨_, hDnl⟩ := dashes_facts D hD
  have hK1 : 1 ≤ K.length := List.length_pos_iff.mpr hKne
  intro fmt
  generalize hdd : p ++ ['\n'] ++ K ++ '\n' :: (D ++ '\n' :: body) = d
  -- the text from `last_found` on
  have hdrop : d.drop (p.length + 1 + K.length + 1 + K.length) = D.drop K.length ++ '\n' :: body := by
    have := drop_in_line (p ++ ['\n'] ++ K ++ ['\n']) D ('\n' :: body) K.length hKD
    have e : p ++ ['\n'] ++ K ++ ['\n'] ++ D ++ '\n' :: body = d := by rw [← hdd]; simp
    rw [e] at this
    rw [← this]; congr 1
    simp only [List.length_append, List.length_singleton]
  rw [endOfLastFound_eq_F]
  unfold endOfLastFoundF
  simp only [Int.toNat_natCast, hdrop, endScan_line _ _ _ _ (notMem_drop K.length hDnl)]
  -- the segment between `last_found_starts` and `last_found` is made of dashes
  have hseg : allDashes (slice d (some (((p.length + 1 + K.length + 1 : Nat) : Int))) (some (((p.length + 1 + K.length + 1 + K.length : Nat) : Int)))) = true := by
    rw [slice_mid_nat]
    have : d.drop (p.length + 1 + K.length + 1) = D ++ '\n' :: body := by
      have := drop_in_line (p ++ ['\n'] ++ K ++ ['\n']) D ('\n' :: body) 0 (by omega)
      have e : p ++ ['\n'] ++ K ++ ['\n'] ++ D ++ '\n' :: body = d := by rw [← hdd]; simp
      rw [e] at this
      simp only [Nat.add_zero, List.drop_zero, List.length_append, List.length_singleton] at this
      exact this
    rw [this]
    have h2 : p.length + 1 + K.length + 1 + K.length - (p.length + 1 + K.length + 1) = K.length := by omega
    rw [h2, List.take_append_of_le_length hKD]
    exact List.all_eq_true.mpr (fun c hc => List.all_eq_true.mp hD c (List.mem_of_mem_take hc))
  by_cases hfmt : fmt ≠ .numpydoc
  · -- ReST / Google format (a token of those styles occurs somewhere): the end of the underline's line
    have hf : (fmt == Style.numpydoc) = false := by cases fmt <;> first | rfl | exact absurd rfl hfmt
    simp only [hf, Bool.false_and, Bool.false_eq_true, if_false]
    refine ⟨_, rfl, Or.inr ⟨0, rfl, ?_⟩⟩
    congr 1
    simp only [List.length_drop]
    omega
  have hfmt : fmt = .numpydoc := Classical.not_not.mp hfmt
  subst hfmt
  simp only [beq_self_eq_true, hseg, Bool.and_self, if_true, Option.getD_some]
  unfold endOfLastFoundNumpydocF
  -- the line before the underline is the heading
  have hback : scanBackNl d.toArray ((((p.length + 1 + K.length + 1 : Nat) : Int)) - 1 - 1) = .ok (some ((p.length + 1 : Nat) : Int)) := by
    have := scanBackNl_line p K ('\n' :: (D ++ '\n' :: body)) hp hKnl K.length (Nat.le_refl _)
    have e : p ++ '\n' :: (K ++ '\n' :: (D ++ '\n' :: body)) = d := by rw [← hdd]; simp
    rw [e] at this
    rw [← this]; congr 1; omega
  have hhead : slice d (some ((p.length + 1 : Nat) : Int)) (some ((((p.length + 1 + K.length + 1 : Nat) : Int)) - 1)) = K := by
    have e1 : (((p.length + 1 + K.length + 1 : Nat) : Int)) - 1 = ((p.length + 1 + K.length : Nat) : Int) := by omega
    rw [e1, slice_mid_nat]
    have := drop_in_line (p ++ ['\n']) K ('\n' :: (D ++ '\n' :: body)) 0 (by omega)
    rw [hdd] at this
    simp only [Nat.add_zero, List.drop_zero, List.length_append, List.length_singleton] at this
    rw [this]
    have h2 : p.length + 1 + K.length - (p.length + 1) = K.length := by omega
    rw [h2, List.take_left']
    rfl
  simp only [hback, ok_bind, hhead, hK, if_true, Int.toNat_natCast, hdrop]
  rcases numScan_result (D.drop K.length ++ '\n' :: body) (p.length + 1 + K.length + 1 + K.length) none [] with h | ⟨j0, hj0, h⟩
  · rw [h]; exact ⟨none, rfl, Or.inl rfl⟩
  · rw [h]
    obtain ⟨j, hj, hjb⟩ := getElem?_append_nl_ge _ _ j0 (notMem_drop K.length hDnl) hj0
    have hidx : d[p.length + 1 + K.length + 1 + K.length + j0]? = some '\n' := by
      rw [← List.getElem?_drop, hdrop]; exact hj0
    simp only [Int.toNat_natCast]
    rw [scanBackNlHit_at_nl d _ (by omega) hidx]
    refine ⟨_, rfl, Or.inr ⟨j, hjb, ?_⟩⟩
    simp only [List.length_drop] at hj
    congr 1
    omega

/-! ### where the backward `while` stops: always at the newline before some line of the body -/

/-- started at the last character of the string -/
theorem numpy_pathX (front body : Str) :
    ∃ ca X R, (loopA (front ++ '\n' :: body).toArray).run (((front ++ '\n' :: body).length : Int) - 1)
        = (((front.length + X.length : Nat) : Int), .cond, ca)
      ∧ body = X ++ R ∧ (X = [] ∨ X.getLast? = some '\n') ∧ R.drop (leadingWs R) = skipInd R := by
  generalize hdd : front ++ '\n' :: body = d
  have hnl : '\n' ∈ d := by rw [← hdd]; simp
  obtain ⟨A, hA⟩ := lastLine_decomp d hnl
  have hZ := lastLine_noNl d
  generalize hZd : lastLine d = Z at hA hZ
  have hle : Z.length ≤ body.length := by
    have := lastLine_le front body
    rw [hdd, hZd] at this; exact this
  have hZs : Z <:+ d := ⟨A ++ ['\n'], by rw [hA]; simp⟩
  have hbs : body <:+ d := ⟨front ++ ['\n'], by rw [← hdd]; simp⟩
  obtain ⟨X, hX⟩ := List.suffix_of_suffix_length_le hZs hbs hle
  have hAX : A ++ ['\n'] = front ++ ['\n'] ++ X := by
    have : (A ++ ['\n']) ++ Z = (front ++ ['\n'] ++ X) ++ Z := by
      rw [List.append_assoc (front ++ ['\n']), hX]
      simp only [List.append_assoc, List.singleton_append]
      rw [← hA, hdd]
    exact List.append_cancel_right this
  have hlen : A.length = front.length + X.length := by
    have := congrArg List.length hAX
    simp only [List.length_append, List.length_singleton] at this; omega
  refine ⟨Z.length + 1, X, Z, ?_, hX.symm, ?_, ?_⟩
  · have := loopA_back A Z [] hZ Z.length (Nat.le_refl _)
    rw [List.append_nil, ← hA] at this
    have e : ((d.length : Nat) : Int) - 1 = ((A.length + Z.length : Nat) : Int) := by
      rw [hA]; simp only [List.length_append, List.length_cons]; omega
    rw [e, this, hlen]
  · rcases List.eq_nil_or_concat X with h | ⟨X', c, h⟩
    · exact Or.inl h
    · right
      subst h
      have := congrArg List.getLast? hAX
      simp only [List.concat_eq_append, List.getLast?_append, List.getLast?_singleton, Option.some_or] at this
      simp only [List.concat_eq_append, List.getLast?_append, List.getLast?_singleton, Option.some_or]
      exact this.symm
  · rw [drop_leadingWs, skipInd_line Z hZ]

/-- started at a newline `j` characters after the underline's newline, when the next line is not indented -/
theorem numpy_pathY (front body : Str) (j : Nat) (hj : ('\n' :: body)[j]? = some '\n')
    (hws : leadingWs ((front ++ '\n' :: body).drop (front.length + j + 1)) = 0) :
    ∃ ca X R, (loopA (front ++ '\n' :: body).toArray).run (((front.length + j : Nat) : Int))
        = (((front.length + X.length : Nat) : Int), .cond, ca)
      ∧ body = X ++ R ∧ (X = [] ∨ X.getLast? = some '\n') ∧ R.drop (leadingWs R) = skipInd R := by
  have hjl : j < body.length + 1 := by
    have := (List.getElem?_eq_some_iff.mp hj).1
    simpa using this
  have hdrop : (front ++ '\n' :: body).drop (front.length + j + 1) = body.drop j := by
    have : front ++ '\n' :: body = (front ++ ['\n']) ++ body := by simp
    rw [this, List.drop_append, List.drop_of_length_le (by simp), List.nil_append]
    congr 1; simp
  rw [hdrop] at hws
  have hW : '\n' :: body = ('\n' :: body).take j ++ '\n' :: body.drop j := by
    have h1 := List.take_append_drop j ('\n' :: body)
    have h2 : ('\n' :: body).drop j = '\n' :: body.drop j := by
      have hlt : j < ('\n' :: body).length := by simpa using hjl
      rw [List.drop_eq_getElem_cons hlt]
      have : ('\n' :: body)[j] = '\n' := by
        have := List.getElem?_eq_getElem hlt
        rw [hj] at this; exact (Option.some.inj this).symm
      rw [this]; simp
    rw [h2] at h1; exact h1.symm
  refine ⟨1, body.take j, body.drop j, ?_, (List.take_append_drop j body).symm, ?_, ?_⟩
  · have hd : front ++ '\n' :: body = (front ++ ('\n' :: body).take j) ++ '\n' :: body.drop j := by
      rw [List.append_assoc, ← hW]
    have := loopA_at_nl (front ++ ('\n' :: body).take j) (body.drop j)
    rw [← hd] at this
    have hl : (front ++ ('\n' :: body).take j).length = front.length + j := by
      simp only [List.length_append, List.length_take, List.length_cons]; omega
    rw [hl] at this
    rw [this]
    have : (body.take j).length = j := by simp only [List.length_take]; omega
    rw [this]
  · cases j with
    | zero => left; rfl
    | succ j' =>
      right
      simp only [List.getElem?_cons_succ] at hj
      have hlt : j' < body.length := by omega
      rw [List.getLast?_take]
      simp only [Nat.add_one_ne_zero, if_false, Nat.add_sub_cancel]
      rw [hj]; rfl
  · rw [hws, List.drop_zero, skipInd_ns _ hws]

/-! ### `_get_token_last_idx` on a NumPy docstring -/

/-- the state in which the `while` loop of `_get_token_last_idx_if_no_next_token` starts: the first line of the body -/
def cStart (S0 : Nat) : CState := { lineStart := S0, lineEnd := S0, prevEnd := S0 }

/-- **NumPy**: the answer of `_get_token_last_idx` is the answer of the line loop of
    `_get_token_last_idx_if_no_next_token`, run on the body of the last section, plus one -/
theorem numpy_last (p K D body : Str) (hp : p ≠ [])
    (hK : inSet numpySet K = true) (hD : allDashes D = true) (hKD : K.length ≤ D.length)
    (hq : quiet none [] body = true) (hls : lineStartsOk true body = true) :
    tokenLastIdx (p ++ ['\n'] ++ K ++ '\n' :: (D ++ '\n' :: body)).toArray
      = .ok ((((loopC (p ++ ['\n'] ++ K ++ '\n' :: (D ++ '\n' :: body)).toArray).run
                (cStart (p.length + 1 + K.length + 1 + D.length + 1))).1.prevEnd : Int) + 1) := by
  obtain ⟨_, _, _, hKne, hKnl⟩ := numpy_word_facts K hK
  obtain ⟨_, hDnl⟩ := dashes_facts D hD
  have hK1 : 1 ≤ K.length := List.length_pos_iff.mpr hKne
  have hDne : D ≠ [] := by intro e; rw [e] at hKD; simp only [List.length_nil] at hKD; omega
  -- the pieces of the pipeline
  have h1 := numpy_lastTok (p ++ ['\n']) K D body (Or.inr ⟨'\n', by simp, isSpaceC_nl⟩) hK hD hDne hq
  have hlf : (((p ++ ['\n']).length + K.length + 1 + K.length : Nat) : Int) = ((p.length + 1 + K.length + 1 + K.length : Nat) : Int) := by
    simp only [List.length_append, List.length_singleton]
  rw [hlf] at h1
  obtain ⟨lfe, h3, hlfe⟩ := numpy_endOfLastFound p K D body hp hK hD hKD
    (deriveFormat (p ++ ['\n'] ++ K ++ '\n' :: (D ++ '\n' :: body)).toArray)
  generalize hfront : p ++ ['\n'] ++ K ++ ['\n'] ++ D = front
  have hfl : front.length = p.length + 1 + K.length + 1 + D.length := by
    rw [← hfront]; simp only [List.length_append, List.length_singleton]
  have hdf : p ++ ['\n'] ++ K ++ '\n' :: (D ++ '\n' :: body) = front ++ '\n' :: body := by rw [← hfront]; simp
  have h2 : startOfLastFound (p ++ ['\n'] ++ K ++ '\n' :: (D ++ '\n' :: body)).toArray ((p.length + 1 + K.length + 1 + K.length : Nat) : Int)
      = .ok (some ((p.length + 1 + K.length + 1 : Nat) : Int)) := by
    unfold startOfLastFound
    have := scanBackNl_line (p ++ ['\n'] ++ K) D ('\n' :: body) (by simp) hDnl K.length hKD
    have e1 : (((p ++ ['\n'] ++ K).length + K.length : Nat) : Int) = ((p.length + 1 + K.length + 1 + K.length : Nat) : Int) - 1 := by
      simp only [List.length_append, List.length_singleton]; omega
    have e2 : (((p ++ ['\n'] ++ K).length + 1 : Nat) : Int) = ((p.length + 1 + K.length + 1 : Nat) : Int) := by
      simp only [List.length_append, List.length_singleton]
    rw [e1, e2] at this; exact this
  rw [hdf] at h1 h2 h3 ⊢
  -- where the backward `while` stops
  have h4 : ∃ ca X R, (loopA (front ++ '\n' :: body).toArray).run (findEndOfArgsReturns (front ++ '\n' :: body).toArray lfe)
        = (((front.length + X.length : Nat) : Int), .cond, ca)
      ∧ body = X ++ R ∧ (X = [] ∨ X.getLast? = some '\n') ∧ R.drop (leadingWs R) = skipInd R := by
    rcases hlfe with hn | ⟨j, hj, hs⟩
    · subst hn
      have : findEndOfArgsReturns (front ++ '\n' :: body).toArray none = ((front ++ '\n' :: body).length : Int) - 1 := by
        simp [findEndOfArgsReturns, n_eq]
      rw [this]; exact numpy_pathX front body
    · subst hs
      have e : p.length + 1 + K.length + 1 + D.length + j + 1 = front.length + j + 1 := by omega
      rw [e]
      by_cases hws : leadingWs ((front ++ '\n' :: body).drop (front.length + j + 1)) = 0
      · rw [findEnd_ns _ _ hws]
        have : ((front.length + j + 1 : Nat) : Int) - 1 = ((front.length + j : Nat) : Int) := by omega
        rw [this]; exact numpy_pathY front body j hj hws
      · rw [findEnd_ws _ _ hws]; exact numpy_pathX front body
  obtain ⟨ca, X, R, h4, hXR, hX, hR⟩ := h4
  rw [tokenLastIdx_pipeline _ _ _ lfe _ _ h1 h2 h3 h4]
  -- no token where the forward `while` would start
  have hdropR : (front ++ '\n' :: body).drop (front.length + X.length + 1) = R := by
    have : front ++ '\n' :: body = (front ++ ['\n'] ++ X) ++ R := by rw [hXR]; simp
    rw [this, List.drop_append, List.drop_of_length_le (by simp; omega), List.nil_append]
    have : front.length + X.length + 1 - (front ++ ['\n'] ++ X).length = 0 := by simp; omega
    rw [this]; rfl
  have hidx : (((front.length + X.length : Nat) : Int)) + 1 = ((front.length + X.length + 1 : Nat) : Int) := by omega
  simp only [hidx, slice_from_nat, hdropR]
  have hst : ((leadingWs R : Nat) : Int) + ((front.length + X.length : Nat) : Int) + 1
      = ((front.length + X.length + 1 + leadingWs R : Nat) : Int) := by omega
  have hdropS : (front ++ '\n' :: body).drop (front.length + X.length + 1 + leadingWs R) = skipInd R := by
    rw [← List.drop_drop, hdropR, hR]
  have hntok : startsWithAny tokensSet (skipInd R) = false := by
    rw [hXR] at hls
    apply lineStartsOk_sound X R true hls
    rcases hX with h | h
    · exact Or.inl ⟨h, rfl⟩
    · exact Or.inr h
  simp only [hst, slice_from_nat, hdropS, hntok, Bool.false_eq_true, if_false, Option.getD_some]
  -- the line at `last_found_starts` is the underline
  have hnn := noNext_eval (p ++ ['\n'] ++ K ++ ['\n']) D ('\n' :: body) hDnl (Or.inr rfl)
  have hdd : p ++ ['\n'] ++ K ++ ['\n'] ++ D ++ '\n' :: body = front ++ '\n' :: body := by rw [← hfront]
  have hpl : (((p ++ ['\n'] ++ K ++ ['\n']).length : Nat) : Int) = ((p.length + 1 + K.length + 1 : Nat) : Int) := by
    simp only [List.length_append, List.length_singleton]
  have hDe : (!D.isEmpty && allDashes D) = true := by
    cases D with
    | nil => exact absurd rfl hDne
    | cons _ _ => simpa using hD
  rw [hdd, hpl, hDe] at hnn
  simp only [if_true] at hnn
  rw [hnn]
  simp only [cStart, List.length_append, List.length_singleton]

/-! ### `_get_token_start_idx` and the format on a NumPy docstring -/

theorem lstrip_word (K : Str) (h : ∀ c ∈ K, isSpaceC c = false) : lstrip K = K ∧ leadingWs K = 0 := by
  cases K with
  | nil => exact ⟨rfl, rfl⟩
  | cons c cs =>
    have hc := h c List.mem_cons_self
    exact ⟨by simp [lstrip, hc], leadingWs_ns c cs hc⟩

/-- the header lines are skipped, the first heading followed by its underline stops the scan -/
theorem numpy_start (hs : List Str) (F0 F1 rest : Str)
    (hh : hs.all headerLineOk = true) (hF0 : inSet numpySet F0 = true) (hF1 : allDashes F1 = true) :
    tokenStartIdx (unlines hs ++ F0 ++ '\n' :: (F1 ++ '\n' :: rest)).toArray = ((unlines hs).length : Int) := by
  obtain ⟨hw, _, _, _, hnl⟩ := numpy_word_facts F0 hF0
  obtain ⟨hls, hlw⟩ := lstrip_word F0 hw
  obtain ⟨_, hF1nl⟩ := dashes_facts F1 hF1
  rw [tokenStartIdx_eq]
  generalize hdd : unlines hs ++ F0 ++ '\n' :: (F1 ++ '\n' :: rest) = d
  have hd1 : d = unlines hs ++ (F0 ++ '\n' :: (F1 ++ '\n' :: rest)) := by rw [← hdd]; simp
  have hd2 : d = (unlines hs ++ F0 ++ ['\n']) ++ F1 ++ '\n' :: rest := by rw [← hdd]; simp
  have hstep : startScan d d 0 [] = startScan d (F0 ++ '\n' :: (F1 ++ '\n' :: rest)) (0 + (unlines hs).length) [] := by
    conv => lhs; arg 2; rw [hd1]
    exact startScan_header d hs _ 0 (headerOk_sound hs hh)
  rw [hstep, startScan_fire_numpy d F0 _ _ hnl (by rw [hls]; exact hF0)]
  · simp
  · rw [hlw]
    have hi : 0 + (0 + (unlines hs).length + F0.length) + 1 = (unlines hs ++ F0 ++ ['\n']).length := by
      simp only [List.length_append, List.length_singleton]; omega
    rw [hi]
    have hfind : findAtI d ['\n'] (unlines hs ++ F0 ++ ['\n']).length
        = (((unlines hs ++ F0 ++ ['\n']).length + F1.length : Nat) : Int) := by
      rw [hd2]; exact findAtI_line _ F1 rest hF1nl
    rw [hfind, slice_mid_nat]
    have aux : ∀ a b : Str, (a ++ F1 ++ b).drop a.length = F1 ++ b := by
      intro a b; rw [List.append_assoc, List.drop_left]
    have : d.drop (unlines hs ++ F0 ++ ['\n']).length = F1 ++ '\n' :: rest := by
      rw [hd2]; exact aux _ _
    rw [this]
    have h2 : (unlines hs ++ F0 ++ ['\n']).length + F1.length - (unlines hs ++ F0 ++ ['\n']).length = F1.length := by omega
    rw [h2, List.take_left']
    · exact hF1
    · rfl

/-! ### a body without a colon (the usual `Returns` section): the line loop never moves -/

theorem mem_slice_drop {c : Char} (d : Str) (a b k : Nat) (hk : k ≤ a) (h : c ∈ slice d (some (a : Int)) (some (b : Int))) :
    c ∈ d.drop k := by
  rw [slice_mid_nat] at h
  have h1 : c ∈ d.drop a := List.mem_of_mem_take h
  have : d.drop a = (d.drop k).drop (a - k) := by rw [List.drop_drop]; congr 1; omega
  rw [this] at h1
  exact List.mem_of_mem_drop h1

theorem loopC_no_colon (front body : Str) (h : ':' ∉ body) :
    ((loopC (front ++ '\n' :: body).toArray).run (cStart (front.length + 1))).1.prevEnd = front.length + 1 := by
  generalize hdd : front ++ '\n' :: body = d
  have hbody : d.drop (front.length + 1) = body := by rw [← hdd]; exact drop_after_nl front body
  have := run_invariant (loopC d.toArray)
    (fun st => st.prevNo = none ∧ st.prevEnd = front.length + 1 ∧ front.length + 1 ≤ st.lineStart ∧ front.length + 1 ≤ st.lineEnd)
    (by
      intro st st' hinv hstep
      obtain ⟨h1, h2, h3, h4⟩ := hinv
      simp only [loopC] at hstep
      split at hstep
      · injection hstep with hstep
        subst hstep
        have hline : (sl d.toArray (some (st.lineStart : Int))
            (some ((st.lineEnd + countUntilNl (sl d.toArray (some (st.lineStart : Int)) none) : Nat) : Int))).contains ':' = false := by
          rw [sl_eq]
          cases hc : (slice d (some (st.lineStart : Int))
              (some ((st.lineEnd + countUntilNl (sl d.toArray (some (st.lineStart : Int)) none) : Nat) : Int))).contains ':' with
          | false => rfl
          | true =>
            have hm := mem_slice_drop d _ _ (front.length + 1) h3 (List.contains_iff_mem.mp hc)
            rw [hbody] at hm; exact absurd hm h
        simp only [h1, hline]
        have hnone : ∀ x : Int, (some x == (none : Option Int)) = false := fun _ => rfl
        simp only [hnone, Bool.false_eq_true, if_false]
        split
        · exact ⟨h1, h2, by omega, by omega⟩
        · exact ⟨h1, h2, by omega, by omega⟩
      · cases hstep)
    (by intro st st' _ h; simp only [loopC] at h; split at h <;> cases h)
    (by intro st _ h; simp only [loopC] at h; split at h <;> cases h)
    (cStart (front.length + 1)) ⟨rfl, rfl, Nat.le_refl _, Nat.le_refl _⟩
  exact this.1.2.1

/-! ### indented NumPy docstrings (as they sit in a function body) -/

/-- a line = its indentation ++ its content -/
theorem line_decomp (l : Str) : ∃ ws, l = ws ++ lstrip l ∧ ws.length = leadingWs l ∧ ∀ c ∈ ws, isSpaceC c = true :=
  ⟨l.takeWhile isSpaceC, (List.takeWhile_append_dropWhile).symm, rfl, fun c hc => mem_takeWhile_pred isSpaceC l c hc⟩

theorem tokRun_spaces (ws : Str) (i : Nat) (lf : Option Int) (pen : Str) (h : ∀ c ∈ ws, isSpaceC c = true) :
    tokRun ws i (lf, pen, []) = (lf, pen, []) := by
  induction ws generalizing i with
  | nil => rfl
  | cons c cs ih =>
    have hc := h c List.mem_cons_self
    simp only [tokRun, tokStep, hc, if_true, List.isEmpty_nil]
    exact ih _ (fun x hx => h x (List.mem_cons_of_mem _ hx))

/-- the walker over an indented heading line and an indented underline line -/
theorem tokRun_heading_ind (wsK K wsD D : Str) (i : Nat) (lf : Option Int) (pen : Str)
    (hwK : ∀ c ∈ wsK, isSpaceC c = true) (hwD : ∀ c ∈ wsD, isSpaceC c = true)
    (hK : inSet numpySet K = true) (hD : allDashes D = true) (hDne : D ≠ []) :
    tokRun ((wsK ++ K) ++ '\n' :: ((wsD ++ D) ++ ['\n'])) i (lf, pen, [])
      = (some (((i + wsK.length + K.length + 1 + wsD.length + K.length : Nat) : Int)), D, []) := by
  obtain ⟨hKw, hKd, hKt, hKne, _⟩ := numpy_word_facts K hK
  obtain ⟨hDw, _⟩ := dashes_facts D hD
  have hKe : K.isEmpty = false := by cases K with | nil => exact absurd rfl hKne | cons _ _ => rfl
  have hDe : D.isEmpty = false := by cases D with | nil => exact absurd rfl hDne | cons _ _ => rfl
  rw [List.append_assoc, tokRun_append, tokRun_spaces wsK i lf pen hwK, tokRun_append, tokRun_word K _ lf pen [] hKw]
  simp only [List.nil_append, tokRun]
  have hs1 : tokStep (i + wsK.length + K.length) (lf, pen, K) '\n' = (some (((i + wsK.length + K.length : Nat) : Int) - K.length), K, []) := by
    simp [tokStep, isSpaceC_nl, hKe, hKd, hKt]
  rw [hs1, List.append_assoc, tokRun_append, tokRun_spaces wsD _ _ K hwD, tokRun_append, tokRun_word D _ _ K [] hDw]
  simp only [List.nil_append, tokRun]
  have hs2 : tokStep (i + wsK.length + K.length + 1 + wsD.length + D.length)
      (some (((i + wsK.length + K.length : Nat) : Int) - K.length), K, D) '\n'
      = (some (((i + wsK.length + K.length + 1 + wsD.length + D.length : Nat) : Int) - D.length + K.length), D, []) := by
    simp [tokStep, isSpaceC_nl, hDe, hD, hK]
  rw [hs2]
  congr 2
  omega

/-- `_get_token_start_idx` when the first heading (and its underline) may be indented: the look-ahead skips as many
    characters of the next line as the heading has indentation -/
theorem numpy_start_ind (hs : List Str) (F0 F1 rest : Str)
    (hh : hs.all headerLineOk = true) (hF0nl : '\n' ∉ F0) (hF1nl : '\n' ∉ F1)
    (hF0 : inSet numpySet (lstrip F0) = true) (hle : leadingWs F0 ≤ F1.length)
    (hF1 : allDashes (F1.drop (leadingWs F0)) = true) :
    tokenStartIdx (unlines hs ++ F0 ++ '\n' :: (F1 ++ '\n' :: rest)).toArray = ((unlines hs).length : Int) := by
  rw [tokenStartIdx_eq]
  generalize hdd : unlines hs ++ F0 ++ '\n' :: (F1 ++ '\n' :: rest) = d
  have hd1 : d = unlines hs ++ (F0 ++ '\n' :: (F1 ++ '\n' :: rest)) := by rw [← hdd]; simp
  have hd2 : d = (unlines hs ++ F0 ++ ['\n'] ++ F1.take (leadingWs F0)) ++ F1.drop (leadingWs F0) ++ '\n' :: rest := by
    rw [← hdd]
    simp only [List.append_assoc, List.cons_append, List.nil_append]
    congr 3
    rw [← List.append_assoc, List.take_append_drop]
  have hstep : startScan d d 0 [] = startScan d (F0 ++ '\n' :: (F1 ++ '\n' :: rest)) (0 + (unlines hs).length) [] := by
    conv => lhs; arg 2; rw [hd1]
    exact startScan_header d hs _ 0 (headerOk_sound hs hh)
  rw [hstep, startScan_fire_numpy d F0 _ _ hF0nl hF0]
  · simp
  · have hi : leadingWs F0 + (0 + (unlines hs).length + F0.length) + 1
        = (unlines hs ++ F0 ++ ['\n'] ++ F1.take (leadingWs F0)).length := by
      simp only [List.length_append, List.length_singleton, List.length_take]; omega
    rw [hi]
    have hfind : findAtI d ['\n'] (unlines hs ++ F0 ++ ['\n'] ++ F1.take (leadingWs F0)).length
        = (((unlines hs ++ F0 ++ ['\n'] ++ F1.take (leadingWs F0)).length + (F1.drop (leadingWs F0)).length : Nat) : Int) := by
      rw [hd2]; exact findAtI_line _ _ rest (notMem_drop _ hF1nl)
    rw [hfind, slice_mid_nat]
    have aux : ∀ a b c : Str, (a ++ b ++ c).drop a.length = b ++ c := by
      intro a b c; rw [List.append_assoc, List.drop_left]
    have : d.drop (unlines hs ++ F0 ++ ['\n'] ++ F1.take (leadingWs F0)).length = F1.drop (leadingWs F0) ++ '\n' :: rest := by
      rw [hd2]; exact aux _ _ _
    rw [this]
    generalize (unlines hs ++ F0 ++ ['\n'] ++ F1.take (leadingWs F0)).length = n
    have h2 : n + (F1.drop (leadingWs F0)).length - n = (F1.drop (leadingWs F0)).length := by omega
    rw [h2, List.take_left']
    · exact hF1
    · rfl

theorem raises_not_dashes : allDashes "Raises:".toList = false := by decide

/-- **indented NumPy**: the underline line `D'` is indented, so neither the numpydoc exit of `_get_end_of_last_found` nor the
    line loop of `_get_token_last_idx_if_no_next_token` is taken (both test for a line made of dashes *only*); the body
    starts with white space, and the answer is that of the absorbed shape -/
theorem numpy_ind_last (pre0 K' D' body : Str)
    (hpre0 : pre0 = [] ∨ ∃ c, pre0.getLast? = some c ∧ isSpaceC c = true)
    (hD'nl : '\n' ∉ D')
    (hK : inSet numpySet (lstrip K') = true) (hD : allDashes (lstrip D') = true)
    (hKD : (lstrip K').length ≤ (lstrip D').length) (hind : 1 ≤ leadingWs D')
    (hbody : ∃ w ws, body = w :: ws ∧ isSpaceC w = true) (hq : quiet none [] body = true) :
    tokenLastIdx (pre0 ++ K' ++ '\n' :: (D' ++ '\n' :: body)).toArray
      = .ok ((((pre0 ++ K' ++ '\n' :: (D' ++ '\n' :: body)).length
                - (absorbedFooter (pre0 ++ K' ++ '\n' :: (D' ++ '\n' :: body))).length : Nat)) : Int) := by
  obtain ⟨wsK, hK'e, hwKl, hwK⟩ := line_decomp K'
  obtain ⟨wsD, hD'e, hwDl, hwD⟩ := line_decomp D'
  generalize hKd : lstrip K' = K at *
  generalize hDd : lstrip D' = D at *
  obtain ⟨_, _, _, hKne, _⟩ := numpy_word_facts K hK
  have hK1 : 1 ≤ K.length := List.length_pos_iff.mpr hKne
  have hDne : D ≠ [] := by intro e; rw [e] at hKD; simp only [List.length_nil] at hKD; omega
  have hK'l : K'.length = wsK.length + K.length := by rw [hK'e]; simp
  have hD'l : D'.length = wsD.length + D.length := by rw [hD'e]; simp
  generalize hdd : pre0 ++ K' ++ '\n' :: (D' ++ '\n' :: body) = d
  -- the last token
  have hlf : lastDocStrToken d.toArray = some (((pre0.length + wsK.length + K.length + 1 + wsD.length + K.length : Nat) : Int)) := by
    have hd : d = pre0 ++ (((wsK ++ K) ++ '\n' :: ((wsD ++ D) ++ ['\n'])) ++ body) := by
      rw [← hdd, hK'e, hD'e]; simp
    rw [hd, lastDocStrToken_eq, tokScan_eq_run, tokRun_append, tokRun_append]
    have h1 : (tokRun pre0 0 (none, [], [])).2.2 = [] := tokRun_stack_nil pre0 0 _ rfl hpre0
    generalize tokRun pre0 0 (none, [], []) = σ1 at h1 ⊢
    obtain ⟨lf1, pen1, st1⟩ := σ1
    simp only at h1; subst h1
    rw [tokRun_heading_ind wsK K wsD D _ lf1 pen1 hwK hwD hK hD hDne]
    rw [quiet_sound body _ _ none D [] (Or.inl rfl) hq]
    congr 2; omega
  -- the absorbed shape with `L := D'`
  have hd1 : d = (pre0 ++ K') ++ ['\n'] ++ D' ++ '\n' :: body := by rw [← hdd]; simp
  obtain ⟨A, hA⟩ := lastLine_decomp d (by rw [← hdd]; simp)
  have hp : pre0 ++ K' ≠ [] := by
    intro e
    have := congrArg List.length e
    simp only [List.length_append, List.length_nil] at this; omega
  have hpl : ((pre0 ++ K') ++ ['\n']).length = pre0.length + wsK.length + K.length + 1 := by
    simp only [List.length_append, List.length_singleton]; omega
  have hwD1 : 1 ≤ wsD.length := by omega
  obtain ⟨w0, wsD', hwsD⟩ : ∃ w0 wsD', wsD = w0 :: wsD' := by
    cases wsD with
    | nil => simp at hwD1
    | cons a b => exact ⟨a, b, rfl⟩
  have hw0 : isSpaceC w0 = true := hwD w0 (by rw [hwsD]; exact List.mem_cons_self)
  have hw0d : (w0 == '-') = false := by
    cases h : (w0 == '-') with
    | false => rfl
    | true => rw [beq_iff_eq.mp h] at hw0; exact absurd hw0 (by decide)
  have hdash : (!D'.isEmpty && allDashes D') = false := by
    rw [hD'e, hwsD]; simp [allDashes, hw0d]
  have hnb : (deriveFormat d.toArray == .numpydoc
      && allDashes (slice d (some ((((pre0 ++ K') ++ ['\n']).length : Nat) : Int))
          (some (((pre0.length + wsK.length + K.length + 1 + wsD.length + K.length : Nat) : Int))))) = false := by
    rw [slice_mid_nat]
    have aux : ∀ a b c : Str, (a ++ b ++ c).drop a.length = b ++ c := by
      intro a b c; rw [List.append_assoc, List.drop_left]
    have : d.drop ((pre0 ++ K') ++ ['\n']).length = D' ++ '\n' :: body := by
      rw [hd1]; exact aux _ _ _
    rw [this, hD'e, hwsD, hpl]
    have h2 : pre0.length + wsK.length + K.length + 1 + (w0 :: wsD').length + K.length - (pre0.length + wsK.length + K.length + 1)
        = ((w0 :: wsD').length + K.length - 1) + 1 := by simp only [List.length_cons]; omega
    rw [h2]
    simp [allDashes, hw0d]
  have hlast := last_absorbed_gen d (pre0 ++ K') D' body A (lastLine d)
    (((pre0.length + wsK.length + K.length + 1 + wsD.length + K.length : Nat) : Int)) hd1 hA hlf
    (by rw [hpl]; omega) (by rw [hpl, hD'l]; omega) hp hD'nl (lastLine_noNl d) hbody hdash hnb
  have hverd : lineVerdict ((pre0 ++ K') ++ ['\n']).length D' = none := by
    unfold lineVerdict
    have : (lstrip D' == "Raises:".toList) = false := by
      cases h : (lstrip D' == "Raises:".toList) with
      | false => rfl
      | true => rw [hDd] at h; rw [beq_iff_eq.mp h, raises_not_dashes] at hD; cases hD
    rw [this]; rfl
  rw [hverd, absorbed_last d A hA] at hlast
  rw [hlast]
  congr 1
  by_cases ht : startsWithAny tokensSet (lstrip (lastLine d)) = true
  · simp [ht, absorbedFooter]
  · simp [ht]

end DSS
