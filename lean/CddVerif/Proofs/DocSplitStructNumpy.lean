import CddVerif.Proofs.DocSplitStructField
/-!
# C15 (structural split) — NumPy-style docstrings

`d = unlines (hs ++ es) ++ K ++ '\n' :: (D ++ '\n' :: body)`: header lines `hs`, earlier section lines `es`, the **last**
heading `K` (`Parameters` / `Returns`, unindented) with its underline `D` (dashes, at least as long as `K`), then `body`.
-/
namespace DSS
open Py DocUtils DocSplit Loop

/-! ### `str.find("\n", i)` on a line -/

theorem findFrom_nl (b c : Str) (i : Nat) (hb : '\n' ∉ b) : findFrom ['\n'] (b ++ '\n' :: c) i = some (i + b.length) := by
  induction b generalizing i with
  | nil => simp [findFrom]
  | cons x xs ih =>
    have hx : x ≠ '\n' := fun e => hb (e ▸ List.mem_cons_self)
    have hp : (['\n'] : Str).isPrefixOf (x :: (xs ++ '\n' :: c)) = false := by
      simp [List.isPrefixOf, hx.symm]
    simp only [List.cons_append, findFrom, hp, Bool.false_eq_true, if_false]
    rw [ih _ (fun m => hb (List.mem_cons_of_mem _ m))]
    simp only [List.length_cons]; congr 1; omega

theorem findAtI_line (a b c : Str) (hb : '\n' ∉ b) :
    findAtI (a ++ b ++ '\n' :: c) ['\n'] a.length = ((a.length + b.length : Nat) : Int) := by
  unfold findAtI findAt
  have h1 : ¬ (a.length > (a ++ b ++ '\n' :: c).length) := by simp
  have h2 : (a ++ b ++ '\n' :: c).drop a.length = b ++ '\n' :: c := by
    rw [List.append_assoc, List.drop_left]
  simp only [h1, if_false, h2, findFrom_nl b c _ hb]

/-! ### the token walker over a heading and its underline -/

theorem tokRun_word (w : Str) (i : Nat) (lf : Option Int) (pen stack : Str) (hw : ∀ c ∈ w, isSpaceC c = false) :
    tokRun w i (lf, pen, stack) = (lf, pen, stack ++ w) := by
  induction w generalizing i stack with
  | nil => simp [tokRun]
  | cons c cs ih =>
    have hc := hw c List.mem_cons_self
    simp only [tokRun, tokStep, hc, Bool.false_eq_true, if_false]
    rw [ih _ _ (fun x hx => hw x (List.mem_cons_of_mem _ hx))]
    simp

theorem numpy_words : numpySet.all (fun t => t.toList.all (fun c => !isSpaceC c) && !allDashes t.toList
    && tokensSet.contains t && !t.toList.isEmpty && !t.toList.contains '\n') = true := by decide

theorem numpy_word_facts (K : Str) (h : inSet numpySet K = true) :
    (∀ c ∈ K, isSpaceC c = false) ∧ allDashes K = false ∧ inSet tokensSet K = true ∧ K ≠ [] ∧ '\n' ∉ K := by
  unfold inSet at h
  rw [List.any_eq_true] at h
  obtain ⟨t, ht, he⟩ := h
  have hK : t.toList = K := beq_iff_eq.mp he
  have := List.all_eq_true.mp numpy_words t ht
  simp only [Bool.and_eq_true, Bool.not_eq_true', List.all_eq_true, List.contains_eq_mem, decide_eq_false_iff_not,
    decide_eq_true_eq, List.isEmpty_eq_false_iff] at this
  obtain ⟨⟨⟨⟨h1, h2⟩, h3⟩, h4⟩, h5⟩ := this
  rw [hK] at h1 h2 h4 h5
  refine ⟨h1, h2, ?_, h4, h5⟩
  unfold inSet
  rw [List.any_eq_true]
  exact ⟨t, h3, he⟩

theorem dashes_facts (D : Str) (h : allDashes D = true) : (∀ c ∈ D, isSpaceC c = false) ∧ '\n' ∉ D := by
  have hall : ∀ c ∈ D, c = '-' := fun c hc => beq_iff_eq.mp (List.all_eq_true.mp h c hc)
  constructor
  · intro c hc; rw [hall c hc]; decide
  · intro hm; have := hall _ hm; exact absurd this (by decide)

/-- after the heading `K`, its newline, the underline `D` and its newline, the walker's last token is
    `start of D + |K|` -/
theorem tokRun_heading (K D : Str) (i : Nat) (lf : Option Int) (pen : Str)
    (hK : inSet numpySet K = true) (hD : allDashes D = true) (hDne : D ≠ []) :
    tokRun (K ++ '\n' :: (D ++ ['\n'])) i (lf, pen, []) = (some (((i + K.length + 1 + K.length : Nat) : Int)), D, []) := by
  obtain ⟨hKw, hKd, hKt, hKne, _⟩ := numpy_word_facts K hK
  obtain ⟨hDw, _⟩ := dashes_facts D hD
  rw [tokRun_append, tokRun_word K i lf pen [] hKw]
  simp only [List.nil_append, tokRun]
  have hKe : K.isEmpty = false := by cases K with | nil => exact absurd rfl hKne | cons _ _ => rfl
  have hDe : D.isEmpty = false := by cases D with | nil => exact absurd rfl hDne | cons _ _ => rfl
  have hs1 : tokStep (i + K.length) (lf, pen, K) '\n' = (some (((i + K.length : Nat) : Int) - K.length), K, []) := by
    simp [tokStep, isSpaceC_nl, hKe, hKd, hKt]
  rw [hs1, tokRun_append, tokRun_word D _ _ K [] hDw]
  simp only [List.nil_append, tokRun]
  have hs2 : tokStep (i + K.length + 1 + D.length) (some (((i + K.length : Nat) : Int) - K.length), K, D) '\n'
      = (some (((i + K.length + 1 + D.length : Nat) : Int) - D.length + K.length), D, []) := by
    simp [tokStep, isSpaceC_nl, hDe, hD, hK]
  rw [hs2]
  congr 2
  omega

/-! ### the numpydoc exit of `_get_end_of_last_found` -/

/-- `numScan` answers its initial value, or the index of some newline of the scanned text -/
theorem numScan_result (r : Str) (k : Nat) (lt : Option Int) (stack : Str) :
    numScan r k lt stack = lt ∨ ∃ j, r[j]? = some '\n' ∧ numScan r k lt stack = some ((k + j : Nat) : Int) := by
  induction r generalizing k lt stack with
  | nil => left; rfl
  | cons c cs ih =>
    simp only [numScan]
    by_cases hc : (c == '\n') = true
    · simp only [hc, if_true]
      have hc' : c = '\n' := beq_iff_eq.mp hc
      rcases ih (k + 1) (if (stack.any fun x => x == ':') = true then some (k : Int) else lt) [] with h | ⟨j, hj, h⟩
      · rw [h]
        split
        · right; exact ⟨0, by simp [hc'], by simp⟩
        · left; rfl
      · right; exact ⟨j + 1, by simpa using hj, by rw [h]; congr 2; omega⟩
    · simp only [hc, Bool.false_eq_true, if_false]
      rcases ih (k + 1) lt (stack ++ [c]) with h | ⟨j, hj, h⟩
      · left; exact h
      · right; exact ⟨j + 1, by simpa using hj, by rw [h]; congr 2; omega⟩

/-- `for i in range(lta, 0, -1): if s[i] == "\n": …` started on a newline stops at once -/
theorem scanBackNlHit_at_nl (d : Str) (lta : Nat) (h1 : 1 ≤ lta) (h : d[lta]? = some '\n') :
    scanBackNlHit d.toArray lta = .ok (some ((lta : Int) + 1)) := by
  obtain ⟨k, hk⟩ : ∃ k, lta = k + 1 := ⟨lta - 1, by omega⟩
  subst hk
  rw [scanBackNlHit, at?_nat, h]
  simp

/-! ### no token at the start of any line of the body -/

/-- skip the indentation of a line (blanks other than the newline) -/
def skipInd (r : Str) : Str := r.dropWhile (fun c => isSpaceC c && c != '\n')

/-- at every line start of the text, what follows the indentation does not start with a member of `TOKENS_SET`
    (`atStart`: the first character is at a line start) -/
def lineStartsOk : Bool → Str → Bool
  | _, [] => true
  | atStart, c :: cs => (!atStart || !startsWithAny tokensSet (skipInd (c :: cs))) && lineStartsOk (c == '\n') cs

theorem startsWithAny_nil : startsWithAny tokensSet [] = false := by decide

theorem lineStartsOk_sound (X R : Str) (b : Bool) (h : lineStartsOk b (X ++ R) = true)
    (hX : (X = [] ∧ b = true) ∨ X.getLast? = some '\n') : startsWithAny tokensSet (skipInd R) = false := by
  induction X generalizing b with
  | nil =>
    rcases hX with ⟨_, hb⟩ | hX
    · subst hb
      cases R with
      | nil => exact startsWithAny_nil
      | cons c cs =>
        simp only [List.nil_append, lineStartsOk, Bool.not_true, Bool.false_or, Bool.and_eq_true, Bool.not_eq_true'] at h
        exact h.1
    · simp at hX
  | cons x xs ih =>
    simp only [List.cons_append, lineStartsOk, Bool.and_eq_true] at h
    apply ih (x == '\n') h.2
    cases xs with
    | nil =>
      left
      rcases hX with ⟨hx, _⟩ | hX
      · cases hx
      · simp only [List.getLast?_singleton, Option.some.injEq] at hX
        exact ⟨rfl, by rw [hX]; rfl⟩
    | cons y ys =>
      right
      rcases hX with ⟨hx, _⟩ | hX
      · cases hx
      · rw [List.getLast?_cons_cons] at hX; exact hX

theorem skipInd_ns (R : Str) (h : leadingWs R = 0) : skipInd R = R := by
  cases R with
  | nil => rfl
  | cons c cs =>
    have hc : isSpaceC c = false := by
      cases hsp : isSpaceC c with
      | false => rfl
      | true => simp [leadingWs, hsp] at h
    simp [skipInd, hc]

theorem skipInd_line (Z : Str) (h : '\n' ∉ Z) : skipInd Z = lstrip Z := by
  unfold skipInd lstrip
  induction Z with
  | nil => rfl
  | cons c cs ih =>
    have hc : c ≠ '\n' := fun e => h (e ▸ List.mem_cons_self)
    by_cases hsp : isSpaceC c = true
    · simp only [List.dropWhile_cons, hsp, Bool.true_and, bne_iff_ne, ne_eq, hc, not_false_eq_true, if_true]
      exact ih (fun m => h (List.mem_cons_of_mem _ m))
    · simp [hsp]

/-! ### the `while` loop of `_get_token_last_idx_if_no_next_token` never moves its answer before its start -/

theorem loopC_prevEnd_ge (s : S) (S0 : Nat) (st : CState) (h1 : S0 ≤ st.prevEnd) (h2 : S0 ≤ st.lineEnd) :
    S0 ≤ ((loopC s).run st).1.prevEnd := by
  have := run_invariant (loopC s) (fun st => S0 ≤ st.prevEnd ∧ S0 ≤ st.lineEnd)
    (by
      intro st st' hinv hstep
      simp only [loopC] at hstep
      split at hstep
      · injection hstep with hstep
        subst hstep
        simp only
        refine ⟨?_, by omega⟩
        split
        · exact hinv.1
        · split
          · split
            · simp only; omega
            · exact hinv.1
          · split
            · simp only; omega
            · exact hinv.1
      · cases hstep)
    (by intro st st' _ h; simp only [loopC] at h; split at h <;> cases h)
    (by intro st _ h; simp only [loopC] at h; split at h <;> cases h)
    st ⟨h1, h2⟩
  exact this.1.1

/-! ### `_last_doc_str_token` on a NumPy docstring -/

theorem numpy_lastTok (pre K D body : Str)
    (hpre : pre = [] ∨ ∃ c, pre.getLast? = some c ∧ isSpaceC c = true)
    (hK : inSet numpySet K = true) (hD : allDashes D = true) (hDne : D ≠ [])
    (hq : quiet none [] body = true) :
    lastDocStrToken (pre ++ K ++ '\n' :: (D ++ '\n' :: body)).toArray
      = some (((pre.length + K.length + 1 + K.length : Nat) : Int)) := by
  have hd : pre ++ K ++ '\n' :: (D ++ '\n' :: body) = pre ++ ((K ++ '\n' :: (D ++ ['\n'])) ++ body) := by simp
  rw [hd, lastDocStrToken_eq, tokScan_eq_run, tokRun_append, tokRun_append]
  have h1 : (tokRun pre 0 (none, [], [])).2.2 = [] := tokRun_stack_nil pre 0 _ rfl hpre
  generalize tokRun pre 0 (none, [], []) = σ1 at h1 ⊢
  obtain ⟨lf1, pen1, st1⟩ := σ1
  simp only at h1; subst h1
  rw [tokRun_heading K D _ lf1 pen1 hK hD hDne]
  rw [quiet_sound body _ _ none D [] (Or.inl rfl) hq]
  congr 2; omega

end DSS
