import CddVerif.Proofs.DocNPRoundTrip
/-!
# NumPy-style whole-docstring round trip (C01) — the domain as an executable check

`C01Numpy.inDomainNB : IR → Bool`, the predicted interface `C01Numpy.expIRN`, and soundness for `DocNPRT.NGoodIR`.
-/
namespace C01Numpy
open Py Doc DocRT DocGN DocGNRT DocNPRT C01Whole C01Google

/-- ASCII, no line break -/
def nLineOKB (l : Str) : Bool := l.all (fun c => decide (c.toNat ≤ 127) && !DocGN.isLineBreak c)

/-- the two emitted lines of an entry: well-formed characters; the `name : type` line starts at column 0 and does not end
    in a colon; the description line is indented, longer than one character and does not begin with `Returns` -/
def npPairOKB (n d : Str) : Bool :=
  nLineOKB n && nLineOKB d && indentOf n == 0 && decide (0 < indentOf d) && n.getLast? != some ':'
  && !startsWith (lstrip d) ['R','e','t','u','r','n','s'] && decide (1 < d.length)

/-- **types** must be present, non-empty, without a blank at either end -/
def npTypB (t : Str) : Bool := !t.isEmpty && headNSB t && lastNSB t

/-- **the NumPy domain** (for `emit_types = True`): a good ASCII header without the word `Parameters`; no return entry;
    at least one parameter; Google-good names and entries (`C01Google.gNameB`, `gEntryB`); every parameter typed; the two
    emitted lines well-formed for both settings of `emit_default_doc`; pairwise distinct names -/
def inDomainNB (ir : IR) : Bool :=
  goodHeaderB ir.doc && !contains ir.doc sParamWord && asciiB ir.doc && ir.returns.isNone && !ir.params.isEmpty
  && ir.params.all (fun np => gNameB np.1 && gEntryB np.1 np.2
        && (match np.2.typ with | some t => npTypB t | Option.none => false)
        && [true, false].all (fun edd => npPairOKB (nNameLine np.1 (np.2.typ.getD [])) (nDocLine (docText np.2 edd))))
  && nodupB (ir.params.map (·.1))

def InDomainN (ir : IR) : Prop := inDomainNB ir = true
instance (ir : IR) : Decidable (InDomainN ir) := by unfold InDomainN; infer_instance

/-- **the predicted interface**: the same as for the Google style (the declared types are always there; the
    `require_default` latch is threaded); defined for `emit_types = True` only -/
def expIRN (ir : IR) (_et edd : Bool) : GIR := expIRG ir edd

theorem nLineOK_sound (l : Str) (h : nLineOKB l = true) : GNoBreak l ∧ Ascii l := by
  constructor
  · intro c hc
    have := List.all_eq_true.mp h c hc
    simp only [Bool.and_eq_true, Bool.not_eq_true'] at this
    exact this.2
  · intro c hc
    have := List.all_eq_true.mp h c hc
    simp only [Bool.and_eq_true, decide_eq_true_eq] at this
    exact this.1

theorem npPairOK_sound (n d : Str) (h : npPairOKB n d = true) : NScanPair (n, d) ∧ Ascii n ∧ Ascii d := by
  simp only [npPairOKB, Bool.and_eq_true, decide_eq_true_eq, Bool.not_eq_true'] at h
  obtain ⟨⟨⟨⟨⟨⟨h1, h2⟩, h3⟩, h4⟩, h5⟩, h6⟩, h7⟩ := h
  have a1 := nLineOK_sound n h1
  have a2 := nLineOK_sound d h2
  exact ⟨⟨a1.1, a2.1, by simpa using h3, h4, by simpa using h5, h6, h7⟩, a1.2, a2.2⟩

/-- **soundness of the check** -/
theorem inDomainN_sound (ir : IR) (h : InDomainN ir) : NGoodIR ir := by
  unfold InDomainN at h
  simp only [inDomainNB, Bool.and_eq_true] at h
  obtain ⟨⟨⟨⟨⟨⟨h1, h2⟩, h3⟩, h4⟩, h5⟩, h6⟩, h7⟩ := h
  have hper : ∀ np ∈ ir.params, gNameB np.1 = true ∧ gEntryB np.1 np.2 = true
      ∧ (match np.2.typ with | some t => npTypB t | Option.none => false) = true
      ∧ ([true, false].all (fun edd => npPairOKB (nNameLine np.1 (np.2.typ.getD [])) (nDocLine (docText np.2 edd)))) = true := by
    intro np hnp
    have := List.all_eq_true.mp h6 np hnp
    simp only [Bool.and_eq_true] at this
    exact ⟨this.1.1.1, this.1.1.2, this.1.2, this.2⟩
  refine ⟨?_, by simpa using h2, asciiB_sound _ h3, by simpa using h4, ?_, ?_, ?_, ?_, ?_, nodupB_sound _ h7⟩
  · simp only [goodHeaderB, Bool.or_eq_true, Bool.and_eq_true] at h1
    rcases h1 with h1 | h1
    · left; cases hd : ir.doc with
      | nil => rfl
      | cons _ _ => rw [hd] at h1; cases h1
    · by_cases hne : ir.doc = []
      · left; exact hne
      · right; exact ⟨hne, headNSB_sound _ h1.1.1, lastNSB_sound _ h1.1.2⟩
  · intro hn; rw [hn] at h5; cases h5
  · intro np hnp; exact gName_sound _ (hper np hnp).1
  · intro np hnp; exact (gEntry_sound _ _ (hper np hnp).2.1).1
  · intro np hnp
    have := (hper np hnp).2.2.1
    cases ht : np.2.typ with
    | none => rw [ht] at this; cases this
    | some t =>
      rw [ht] at this
      simp only [npTypB, Bool.and_eq_true] at this
      refine ⟨t, rfl, ?_, headNSB_sound _ this.1.2, lastNSB_sound _ this.2⟩
      rintro rfl; simp at this
  · intro np hnp edd
    exact npPairOK_sound _ _ (all_bool _ (hper np hnp).2.2.2 edd)

end C01Numpy
