import CddVerif.Model.JsonSchema
/-! Helper lemmas for C06 (JSON-schema emit / parse). Core Lean only. -/
namespace JsonSchema
open Py
open Gen.JsonSchemaTables

/-! ### `lookup` -/

theorem lookup_append {α} (k : Str) (a b : List (Str × α)) :
    lookup k (a ++ b) = (lookup k a).or (lookup k b) := by
  induction a with
  | nil => simp [lookup]
  | cons x xs ih =>
    obtain ⟨k', v⟩ := x
    simp only [List.cons_append, lookup]
    split <;> simp [ih]

theorem lookup_map_mem {α β} (f : α → β) (k : Str) (ps : List (Str × α)) (v : β)
    (h : lookup k (ps.map (fun np => (np.1, f np.2))) = some v) : ∃ p, (k, p) ∈ ps ∧ v = f p := by
  induction ps with
  | nil => simp [lookup] at h
  | cons x xs ih =>
    obtain ⟨k', p⟩ := x
    simp only [List.map_cons, lookup] at h
    split at h
    · rename_i hk; subst hk; exact ⟨p, by simp, by simpa using h.symm⟩
    · obtain ⟨q, hq, hv⟩ := ih h; exact ⟨q, by simp [hq], hv⟩

/-! ### sorting -/

theorem mem_insertSorted (x y : Str) (l : List Str) : y ∈ insertSorted x l ↔ y = x ∨ y ∈ l := by
  induction l with
  | nil => simp [insertSorted]
  | cons z zs ih =>
    simp only [insertSorted]
    split
    · simp
    · simp [ih]; constructor
      · rintro (h | h | h) <;> simp [h]
      · rintro (h | h | h) <;> simp [h]

theorem mem_sortStrs (y : Str) (l : List Str) : y ∈ sortStrs l ↔ y ∈ l := by
  induction l with
  | nil => simp [sortStrs]
  | cons x xs ih => simp [sortStrs, mem_insertSorted, ih]

theorem insertSorted_ne_nil (x : Str) (l : List Str) : insertSorted x l ≠ [] := by
  cases l with
  | nil => simp [insertSorted]
  | cons y ys => simp only [insertSorted]; split <;> simp

theorem sortStrs_eq_nil (l : List Str) : sortStrs l = [] ↔ l = [] := by
  cases l with
  | nil => simp [sortStrs]
  | cons x xs => simp [sortStrs, insertSorted_ne_nil]

/-! ### split / join -/

theorem splitBar_ne_nil (s : Str) : splitBar s ≠ [] := by
  cases s with
  | nil => simp [splitBar]
  | cons c cs =>
    simp only [splitBar]
    split
    · simp
    · split <;> simp

theorem splitNl_ne_nil (s : Str) : splitNl s ≠ [] := by
  cases s with
  | nil => simp [splitNl]
  | cons c cs =>
    simp only [splitNl]
    split
    · simp
    · split <;> simp

/-- a string without the separator is one piece -/
theorem splitBar_single (s : Str) (h : '|' ∉ s) : splitBar s = [s] := by
  induction s with
  | nil => simp [splitBar]
  | cons c cs ih =>
    have hc : c ≠ '|' := fun e => h (by simp [e])
    have hcs : '|' ∉ cs := fun e => h (by simp [e])
    simp [splitBar, ih hcs, hc]

theorem splitNl_single (s : Str) (h : '\n' ∉ s) : splitNl s = [s] := by
  induction s with
  | nil => simp [splitNl]
  | cons c cs ih =>
    have hc : c ≠ '\n' := fun e => h (by simp [e])
    have hcs : '\n' ∉ cs := fun e => h (by simp [e])
    simp [splitNl, ih hcs, hc]

theorem splitBar_append_sep (a b : Str) (h : '|' ∉ a) : splitBar (a ++ '|' :: b) = a :: splitBar b := by
  induction a with
  | nil =>
    simp only [List.nil_append, splitBar]
    split
    · rename_i e; exact absurd e (splitBar_ne_nil b)
    · rename_i l ls e; simp [e]
  | cons c cs ih =>
    have hc : c ≠ '|' := fun e => h (by simp [e])
    have hcs : '|' ∉ cs := fun e => h (by simp [e])
    simp [splitBar, ih hcs, hc]

theorem splitNl_append_sep (a b : Str) (h : '\n' ∉ a) : splitNl (a ++ '\n' :: b) = a :: splitNl b := by
  induction a with
  | nil =>
    simp only [List.nil_append, splitNl]
    split
    · rename_i e; exact absurd e (splitNl_ne_nil b)
    · rename_i l ls e; simp [e]
  | cons c cs ih =>
    have hc : c ≠ '\n' := fun e => h (by simp [e])
    have hcs : '\n' ∉ cs := fun e => h (by simp [e])
    simp [splitNl, ih hcs, hc]

/-- `"|".join(ms).split("|") == ms` for a non-empty list of `|`-free strings -/
theorem splitBar_join (ms : List Str) (hne : ms ≠ []) (h : ∀ m ∈ ms, '|' ∉ m) : splitBar (join ['|'] ms) = ms := by
  induction ms with
  | nil => exact absurd rfl hne
  | cons m rest ih =>
    cases rest with
    | nil => simpa [join] using splitBar_single m (h m (by simp))
    | cons m2 rest2 =>
      have := ih (by simp) (fun x hx => h x (by simp [hx]))
      simp only [join, List.append_assoc, List.singleton_append]
      rw [splitBar_append_sep _ _ (h m (by simp)), this]

/-- `"\n".join(s.split("\n")) == s` -/
theorem join_splitNl (s : Str) : join ['\n'] (splitNl s) = s := by
  induction s with
  | nil => simp [splitNl, join]
  | cons c cs ih =>
    simp only [splitNl]
    split
    · rename_i e; exact absurd e (splitNl_ne_nil cs)
    · rename_i l ls e
      rw [e] at ih
      split
      · rename_i hc; subst hc
        cases ls with
        | nil => simp [join] at ih ⊢; exact ih
        | cons l2 ls2 => simp [join] at ih ⊢; exact ih
      · cases ls with
        | nil => simp [join] at ih ⊢; exact ih
        | cons l2 ls2 => simp [join] at ih ⊢; exact ih

/-- the lines of a split string contain no newline -/
theorem splitNl_no_nl (s : Str) : ∀ l ∈ splitNl s, '\n' ∉ l := by
  induction s with
  | nil => simp [splitNl]
  | cons c cs ih =>
    simp only [splitNl]
    split
    · rename_i e; exact absurd e (splitNl_ne_nil cs)
    · rename_i l ls e
      rw [e] at ih
      split
      · intro x hx
        simp at hx
        rcases hx with rfl | rfl | hx
        · simp
        · exact ih _ (by simp)
        · exact ih _ (by simp [hx])
      · rename_i hc
        intro x hx
        simp at hx
        rcases hx with rfl | hx
        · have := ih l (by simp)
          simp [this]; exact fun e => hc e.symm
        · exact ih _ (by simp [hx])

/-- splitting after a whole number of lines: `(d + "\n" + rest).split("\n") == d.split("\n") + rest.split("\n")` -/
theorem splitNl_append_nl (d rest : Str) : splitNl (d ++ '\n' :: rest) = splitNl d ++ splitNl rest := by
  induction d with
  | nil =>
    simp only [List.nil_append, splitNl]
    split
    · rename_i e; exact absurd e (splitNl_ne_nil rest)
    · rename_i l ls e; simp [e]
  | cons c cs ih =>
    simp only [List.cons_append, splitNl, ih]
    cases hsp : splitNl cs with
    | nil => exact absurd hsp (splitNl_ne_nil cs)
    | cons l ls => simp; split <;> simp

/-! ### substrings -/

theorem isPrefixOf_self (s : Str) : s.isPrefixOf s = true := by
  induction s with
  | nil => simp
  | cons c cs ih => simp [ih]

/-- `s in s` -/
theorem contains_self (s : Str) : Py.contains s s = true := by
  cases s with
  | nil => simp [Py.contains]
  | cons c cs => simp [Py.contains, isPrefixOf_self]

theorem contains_of_isPrefixOf (s p : Str) (h : p.isPrefixOf s = true) : Py.contains s p = true := by
  cases s with
  | nil => cases p <;> simp_all [Py.contains]
  | cons c cs => simp [Py.contains, h]

theorem isPrefixOf_append_left (p q s : Str) (h : (p ++ q).isPrefixOf s = true) : p.isPrefixOf s = true := by
  induction p generalizing s with
  | nil => simp
  | cons c cs ih =>
    cases s with
    | nil => simp at h
    | cons d ds =>
      simp only [List.cons_append, List.isPrefixOf_cons_cons, Bool.and_eq_true] at h ⊢
      exact ⟨h.1, ih ds h.2⟩

/-- a string that lacks a character of `p` does not contain `p` -/
theorem not_contains_of_missing_char (s p : Str) (c : Char) (hp : c ∈ p) (hs : c ∉ s) : Py.contains s p = false := by
  have hpre : ∀ t : Str, c ∉ t → p.isPrefixOf t = false := by
    intro t ht
    cases hpt : p.isPrefixOf t with
    | false => rfl
    | true =>
      obtain ⟨r, hr⟩ := List.isPrefixOf_iff_prefix.mp hpt
      exact absurd (by rw [← hr]; simp [hp]) ht
  induction s with
  | nil =>
    cases p with
    | nil => simp at hp
    | cons _ _ => simp [Py.contains]
  | cons d ds ih =>
    have hds : c ∉ ds := fun e => hs (by simp [e])
    simp [Py.contains, hpre (d :: ds) hs, ih hds]

/-! ### rendered types -/

theorem mem_join (sep : Str) (l : List Str) (c : Char) (h : c ∈ join sep l) : c ∈ sep ∨ ∃ x ∈ l, c ∈ x := by
  induction l with
  | nil => simp [join] at h
  | cons x xs ih =>
    cases xs with
    | nil => simp [join] at h; exact Or.inr ⟨x, by simp, h⟩
    | cons y ys =>
      simp only [join, List.mem_append] at h
      rcases h with (h | h) | h
      · exact Or.inr ⟨x, by simp, h⟩
      · exact Or.inl h
      · rcases ih h with h | ⟨z, hz, hc⟩
        · exact Or.inl h
        · exact Or.inr ⟨z, by simp [hz], hc⟩

/-- the characters of a rendered type: those of the fixed templates and names, or of a `Literal` member -/
def templateChars : Str := js!"Optional[]Literal', intfloasrbdc"

theorem mem_template (s : Str) (hs : s.all (fun c => templateChars.contains c) = true) (c : Char) (h : c ∈ s) :
    c ∈ templateChars := by
  have := List.all_eq_true.mp hs c h
  simpa using this

theorem mem_render (t : Typ) (c : Char) (h : c ∈ t.render) :
    c ∈ templateChars ∨ ∃ ms, t.core = .lit ms ∧ ∃ m ∈ ms, c ∈ m := by
  have hcore : c ∈ t.core.render → c ∈ templateChars ∨ ∃ ms, t.core = .lit ms ∧ ∃ m ∈ ms, c ∈ m := by
    intro hc
    cases hcr : t.core with
    | base b =>
      rw [hcr] at hc
      left
      cases b
      · exact mem_template js!"int" (by decide) c hc
      · exact mem_template js!"float" (by decide) c hc
      · exact mem_template js!"str" (by decide) c hc
      · exact mem_template js!"bool" (by decide) c hc
      · exact mem_template js!"dict" (by decide) c hc
      · exact mem_template js!"list" (by decide) c hc
    | lit ms =>
      rw [hcr] at hc
      simp only [Core.render, List.mem_append] at hc
      rcases hc with (hc | hc) | hc
      · left; exact mem_template js!"Literal[" (by decide) c hc
      · rcases mem_join _ _ _ hc with hc | ⟨q, hq, hcq⟩
        · left; exact mem_template js!", " (by decide) c hc
        · obtain ⟨m, hm, rfl⟩ := List.mem_map.mp hq
          simp only [quote, List.mem_cons, List.mem_append, List.not_mem_nil, or_false] at hcq
          rcases hcq with h | h | h
          · left; subst h; decide
          · right; exact ⟨ms, rfl, m, hm, h⟩
          · left; subst h; decide
      · left; exact mem_template js!"]" (by decide) c hc
  unfold Typ.render at h
  split at h
  · simp only [List.mem_append] at h
    rcases h with (h | h) | h
    · left; exact mem_template js!"Optional[" (by decide) c h
    · exact hcore h
    · left; exact mem_template js!"]" (by decide) c h
  · exact hcore h

theorem wordChar_ne (c : Char) (h : wordChar c = true) : c ≠ '`' ∧ c ≠ '\n' ∧ c ≠ '|' ∧ c ≠ '[' := by
  refine ⟨?_, ?_, ?_, ?_⟩ <;> intro e <;> subst e <;> revert h <;> decide

theorem member_chars (ms : List Str) (hok : ms.all memberOk = true) (m : Str) (hm : m ∈ ms) (c : Char) (hc : c ∈ m) :
    wordChar c = true := by
  have := List.all_eq_true.mp hok m hm
  simp only [memberOk, Bool.and_eq_true] at this
  exact List.all_eq_true.mp this.2 c hc

/-- a rendered type of the domain contains neither a backtick nor a newline -/
theorem render_safe (t : Typ) (hok : t.ok = true) : '`' ∉ t.render ∧ '\n' ∉ t.render := by
  constructor <;> intro h <;> rcases mem_render t _ h with h | ⟨ms, hms, m, hm, hc⟩
  · revert h; decide
  · simp only [Typ.ok, hms, Bool.and_eq_true] at hok
    exact (wordChar_ne _ (member_chars ms hok.2 m hm _ hc)).1 rfl
  · revert h; decide
  · simp only [Typ.ok, hms, Bool.and_eq_true] at hok
    exact (wordChar_ne _ (member_chars ms hok.2 m hm _ hc)).2.1 rfl

/-! ### the description: `parseDesc (emitDesc doc ret) = (doc, ret)` on the trigger-free domain -/

theorem takeWhile_all {α} (p : α → Bool) (l : List α) (h : ∀ a ∈ l, p a = true) : l.takeWhile p = l := by
  induction l with
  | nil => rfl
  | cons x xs ih => simp [List.takeWhile, h x (by simp), ih (fun a ha => h a (by simp [ha]))]

theorem dropWhile_all {α} (p : α → Bool) (l : List α) (h : ∀ a ∈ l, p a = true) : l.dropWhile p = [] := by
  induction l with
  | nil => rfl
  | cons x xs ih => simp [List.dropWhile, h x (by simp), ih (fun a ha => h a (by simp [ha]))]

theorem takeWhile_stop {α} (p : α → Bool) (l r : List α) (x : α) (h : ∀ a ∈ l, p a = true) (hx : p x = false) :
    (l ++ x :: r).takeWhile p = l := by
  rw [List.takeWhile_append_of_pos h, List.takeWhile_cons_of_neg (by simp [hx])]; simp

theorem dropWhile_stop {α} (p : α → Bool) (l r : List α) (x : α) (h : ∀ a ∈ l, p a = true) (hx : p x = false) :
    (l ++ x :: r).dropWhile p = x :: r := by
  rw [List.dropWhile_append_of_pos h, List.dropWhile_cons_of_neg (by simp [hx])]

theorem printable_no_nl (l : Str) (h : l.all printable = true) : '\n' ∉ l := by
  intro hm
  have := List.all_eq_true.mp h _ hm
  revert this; decide

/-- a line of trigger-free prose is not a `:return:` / `:rtype:` line -/
theorem lineOk_not_ret (l : Str) (h : lineOk l = true) : isRetLine l = false := by
  simp only [lineOk, Bool.and_eq_true] at h
  have hall := List.all_eq_true.mp h.1.2
  have h1 := hall js!":return" (by decide)
  have h2 := hall js!":rtype" (by decide)
  simp only [Bool.not_eq_true'] at h1 h2
  simp only [isRetLine, startsWith, Bool.or_eq_false_iff]
  constructor
  · cases hp : (js!":return:").isPrefixOf l with
    | false => rfl
    | true =>
      have := contains_of_isPrefixOf l js!":return" (isPrefixOf_append_left js!":return" [':'] l hp)
      rw [h1] at this; cases this
  · cases hp : (js!":rtype:").isPrefixOf l with
    | false => rfl
    | true =>
      have := contains_of_isPrefixOf l js!":rtype" (isPrefixOf_append_left js!":rtype" [':'] l hp)
      rw [h2] at this; cases this

theorem docOk_lines (doc : Str) (h : docOk doc = true) : ∀ l ∈ splitNl doc, (!isRetLine l) = true := by
  intro l hl
  simp only [docOk, Bool.or_eq_true, Bool.and_eq_true] at h
  rcases h with h | h
  · have : doc = [] := by simpa using h
    subst this
    simp [splitNl] at hl
    subst hl
    decide
  · simp [lineOk_not_ret l (List.all_eq_true.mp h.1.1 l hl)]

def expectedRet (r : Ret) : PRet := { typ := some r.typ.render, doc := r.doc }

def rtypeLine (r : Ret) : Str := js!":rtype: ```" ++ r.typ.render ++ js!"```"

theorem rtypeLine_no_nl (r : Ret) (h : r.typ.ok = true) : '\n' ∉ rtypeLine r := by
  have := (render_safe r.typ h).2
  simp [rtypeLine, this]

theorem rtypeLine_isRet (r : Ret) : isRetLine (rtypeLine r) = true := by
  simp [isRetLine, rtypeLine, startsWith, List.isPrefixOf_cons_cons]

theorem takeWhile_tick (t : Str) (h : '`' ∉ t) (rest : Str) : (t ++ '`' :: rest).takeWhile (· ≠ '`') = t := by
  apply takeWhile_stop
  · intro a ha; simp; exact fun e => h (e ▸ ha)
  · simp

theorem retText_none (r : Ret) (h : r.doc = none) : retText r = rtypeLine r := by
  simp [retText, rtypeLine, h]

theorem retText_some (r : Ret) (d : Str) (h : r.doc = some d) (hd : d.isEmpty = false) :
    retText r = (js!":return: " ++ d) ++ '\n' :: rtypeLine r := by
  simp [retText, rtypeLine, h, hd]

/-- what the reference parser reads from the lines of a return entry preceded by header lines -/
theorem parse_ret_lines (r : Ret) (h : retOk r = true) (pre : List Str) (hpre : ∀ l ∈ pre, (!isRetLine l) = true) :
    (pre ++ splitNl (retText r)).takeWhile (fun l => !isRetLine l) = pre ∧
    ((pre ++ splitNl (retText r)).dropWhile (fun l => !isRetLine l)).isEmpty = false ∧
    (findLine js!":rtype: ```" ((pre ++ splitNl (retText r)).dropWhile (fun l => !isRetLine l))).map
        (fun t => t.takeWhile (· ≠ '`')) = some r.typ.render ∧
    findLine js!":return: " ((pre ++ splitNl (retText r)).dropWhile (fun l => !isRetLine l)) = r.doc := by
  simp only [retOk, Bool.and_eq_true] at h
  obtain ⟨⟨htyp, _⟩, hdoc⟩ := h
  have hsafe := render_safe r.typ htyp
  have hnl := rtypeLine_no_nl r htyp
  have hrt : (!isRetLine (rtypeLine r)) = false := by simp [rtypeLine_isRet]
  have htick : (r.typ.render ++ js!"```").takeWhile (· ≠ '`') = r.typ.render := takeWhile_tick _ hsafe.1 _
  cases hd : r.doc with
  | none =>
    rw [retText_none r hd, splitNl_single _ hnl]
    rw [takeWhile_stop _ pre [] _ hpre hrt, dropWhile_stop _ pre [] _ hpre hrt]
    refine ⟨rfl, rfl, ?_, ?_⟩
    · simp [findLine, rtypeLine, startsWith]; simpa using htick
    · simp [findLine, rtypeLine, startsWith, List.isPrefixOf_cons_cons]
  | some d =>
    rw [hd] at hdoc
    simp only [Bool.and_eq_true, Bool.not_eq_true', decide_eq_true_eq] at hdoc
    obtain ⟨⟨⟨hne, hline⟩, _⟩, _⟩ := hdoc
    have hdnl : '\n' ∉ d := by
      simp only [lineOk, Bool.and_eq_true] at hline
      exact printable_no_nl d hline.1.1.1.1
    have hrl : '\n' ∉ js!":return: " ++ d := by simp [hdnl]
    have hret : (!isRetLine (js!":return: " ++ d)) = false := by
      simp [isRetLine, startsWith]
    rw [retText_some r d hd hne, splitNl_append_sep _ _ hrl, splitNl_single _ hnl]
    rw [takeWhile_stop _ pre _ _ hpre hret, dropWhile_stop _ pre _ _ hpre hret]
    refine ⟨rfl, rfl, ?_, ?_⟩
    · simp [findLine, rtypeLine, startsWith, List.isPrefixOf_cons_cons]; simpa using htick
    · simp [findLine, startsWith]

theorem parseDesc_emitDesc (doc : Str) (ret : Option Ret) (hd : docOk doc = true)
    (hr : ∀ r, ret = some r → retOk r = true) :
    parseDesc (emitDesc doc ret) = (doc, ret.map expectedRet) := by
  have hlines := docOk_lines doc hd
  cases ret with
  | none =>
    simp only [emitDesc, parseDesc, Option.map_none]
    simp only [takeWhile_all _ _ hlines, dropWhile_all _ _ hlines, join_splitNl]
    rfl
  | some r =>
    have hro := hr r rfl
    by_cases hde : doc.isEmpty = true
    · have : doc = [] := by simpa using hde
      subst this
      have e : emitDesc [] (some r) = retText r := by simp [emitDesc]
      obtain ⟨h1, h2, h3, h4⟩ := parse_ret_lines r hro [] (by simp)
      simp only [List.nil_append] at h1 h2 h3 h4
      simp only [e, parseDesc, h1, h2, h3, h4]
      simp [join, expectedRet]
    · have e : emitDesc doc (some r) = doc ++ '\n' :: retText r := by simp [emitDesc, hde]
      obtain ⟨h1, h2, h3, h4⟩ := parse_ret_lines r hro (splitNl doc) hlines
      simp only [e, parseDesc, splitNl_append_nl, h1, h2, h3, h4, join_splitNl]
      simp [expectedRet]

end JsonSchema
