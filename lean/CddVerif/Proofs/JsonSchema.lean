import CddVerif.Model.JsonSchema
/-! Helper lemmas for C06 (JSON-schema emit / parse). Core Lean only. -/
namespace JsonSchema
open Py
open Gen.JsonSchemaTables

/-! ### `lookup` -/

theorem lookup_append {α} (k : Str) (a b : List (Str × α)) :
    lookup k (a ++ b) = (lookup k a).or (lookup k b) := by
  induction a with
  | nil => simp [lookup]
  | cons x xs ih =>
    obtain ⟨k', v⟩ := x
    simp only [List.cons_append, lookup]
    split <;> simp [ih]

theorem lookup_map_mem {α β} (f : α → β) (k : Str) (ps : List (Str × α)) (v : β)
    (h : lookup k (ps.map (fun np => (np.1, f np.2))) = some v) : ∃ p, (k, p) ∈ ps ∧ v = f p := by
  induction ps with
  | nil => simp [lookup] at h
  | cons x xs ih =>
    obtain ⟨k', p⟩ := x
    simp only [List.map_cons, lookup] at h
    split at h
    · rename_i hk; subst hk; exact ⟨p, by simp, by simpa using h.symm⟩
    · obtain ⟨q, hq, hv⟩ := ih h; exact ⟨q, by simp [hq], hv⟩

/-! ### sorting -/

theorem mem_insertSorted (x y : Str) (l : List Str) : y ∈ insertSorted x l ↔ y = x ∨ y ∈ l := by
  induction l with
  | nil => simp [insertSorted]
  | cons z zs ih =>
    simp only [insertSorted]
    split
    · simp
    · simp [ih]; constructor
      · rintro (h | h | h) <;> simp [h]
      · rintro (h | h | h) <;> simp [h]

theorem mem_sortStrs (y : Str) (l : List Str) : y ∈ sortStrs l ↔ y ∈ l := by
  induction l with
  | nil => simp [sortStrs]
  | cons x xs ih => simp [sortStrs, mem_insertSorted, ih]

theorem insertSorted_ne_nil (x : Str) (l : List Str) : insertSorted x l ≠ [] := by
  cases l with
  | nil => simp [insertSorted]
  | cons y ys => simp only [insertSorted]; split <;> simp

theorem sortStrs_eq_nil (l : List Str) : sortStrs l = [] ↔ l = [] := by
  cases l with
  | nil => simp [sortStrs]
  | cons x xs => simp [sortStrs, insertSorted_ne_nil]

/-! ### split / join -/

theorem splitBar_ne_nil (s : Str) : splitBar s ≠ [] := by
  cases s with
  | nil => simp [splitBar]
  | cons c cs =>
    simp only [splitBar]
    split
    · simp
    · split <;> simp

theorem splitNl_ne_nil (s : Str) : splitNl s ≠ [] := by
  cases s with
  | nil => simp [splitNl]
  | cons c cs =>
    simp only [splitNl]
    split
    · simp
    · split <;> simp

/-- a string without the separator is one piece -/
theorem splitBar_single (s : Str) (h : '|' ∉ s) : splitBar s = [s] := by
  induction s with
  | nil => simp [splitBar]
  | cons c cs ih =>
    have hc : c ≠ '|' := fun e => h (by simp [e])
    have hcs : '|' ∉ cs := fun e => h (by simp [e])
    simp [splitBar, ih hcs, hc]

theorem splitNl_single (s : Str) (h : '\n' ∉ s) : splitNl s = [s] := by
  induction s with
  | nil => simp [splitNl]
  | cons c cs ih =>
    have hc : c ≠ '\n' := fun e => h (by simp [e])
    have hcs : '\n' ∉ cs := fun e => h (by simp [e])
    simp [splitNl, ih hcs, hc]

theorem splitBar_append_sep (a b : Str) (h : '|' ∉ a) : splitBar (a ++ '|' :: b) = a :: splitBar b := by
  induction a with
  | nil =>
    simp only [List.nil_append, splitBar]
    split
    · rename_i e; exact absurd e (splitBar_ne_nil b)
    · rename_i l ls e; simp [e]
  | cons c cs ih =>
    have hc : c ≠ '|' := fun e => h (by simp [e])
    have hcs : '|' ∉ cs := fun e => h (by simp [e])
    simp [splitBar, ih hcs, hc]

theorem splitNl_append_sep (a b : Str) (h : '\n' ∉ a) : splitNl (a ++ '\n' :: b) = a :: splitNl b := by
  induction a with
  | nil =>
    simp only [List.nil_append, splitNl]
    split
    · rename_i e; exact absurd e (splitNl_ne_nil b)
    · rename_i l ls e; simp [e]
  | cons c cs ih =>
    have hc : c ≠ '\n' := fun e => h (by simp [e])
    have hcs : '\n' ∉ cs := fun e => h (by simp [e])
    simp [splitNl, ih hcs, hc]

/-- `"|".join(ms).split("|") == ms` for a non-empty list of `|`-free strings -/
theorem splitBar_join (ms : List Str) (hne : ms ≠ []) (h : ∀ m ∈ ms, '|' ∉ m) : splitBar (join ['|'] ms) = ms := by
  induction ms with
  | nil => exact absurd rfl hne
  | cons m rest ih =>
    cases rest with
    | nil => simpa [join] using splitBar_single m (h m (by simp))
    | cons m2 rest2 =>
      have := ih (by simp) (fun x hx => h x (by simp [hx]))
      simp only [join, List.append_assoc, List.singleton_append]
      rw [splitBar_append_sep _ _ (h m (by simp)), this]

/-- `"\n".join(s.split("\n")) == s` -/
theorem join_splitNl (s : Str) : join ['\n'] (splitNl s) = s := by
  induction s with
  | nil => simp [splitNl, join]
  | cons c cs ih =>
    simp only [splitNl]
    split
    · rename_i e; exact absurd e (splitNl_ne_nil cs)
    · rename_i l ls e
      rw [e] at ih
      split
      · rename_i hc; subst hc
        cases ls with
        | nil => simp [join] at ih ⊢; exact ih
        | cons l2 ls2 => simp [join] at ih ⊢; exact ih
      · cases ls with
        | nil => simp [join] at ih ⊢; exact ih
        | cons l2 ls2 => simp [join] at ih ⊢; exact ih

/-- the lines of a split string contain no newline -/
theorem splitNl_no_nl (s : Str) : ∀ l ∈ splitNl s, '\n' ∉ l := by
  induction s with
  | nil => simp [splitNl]
  | cons c cs ih =>
    simp only [splitNl]
    split
    · rename_i e; exact absurd e (splitNl_ne_nil cs)
    · rename_i l ls e
      rw [e] at ih
      split
      · intro x hx
        simp at hx
        rcases hx with rfl | rfl | hx
        · simp
        · exact ih _ (by simp)
        · exact ih _ (by simp [hx])
      · rename_i hc
        intro x hx
        simp at hx
        rcases hx with rfl | hx
        · have := ih l (by simp)
          simp [this]; exact fun e => hc e.symm
        · exact ih _ (by simp [hx])

/-- splitting after a whole number of lines: `(d + "\n" + rest).split("\n") == d.split("\n") + rest.split("\n")` -/
theorem splitNl_append_nl (d rest : Str) : splitNl (d ++ '\n' :: rest) = splitNl d ++ splitNl rest := by
  induction d with
  | nil =>
    simp only [List.nil_append, splitNl]
    split
    · rename_i e; exact absurd e (splitNl_ne_nil rest)
    · rename_i l ls e; simp [e]
  | cons c cs ih =>
    simp only [List.cons_append, splitNl, ih]
    cases hsp : splitNl cs with
    | nil => exact absurd hsp (splitNl_ne_nil cs)
    | cons l ls => simp; split <;> simp

/-! ### substrings -/

theorem isPrefixOf_self (s : Str) : s.isPrefixOf s = true := by
  induction s with
  | nil => simp
  | cons c cs ih => simp [ih]

/-- `s in s` -/
theorem contains_self (s : Str) : Py.contains s s = true := by
  cases s with
  | nil => simp [Py.contains]
  | cons c cs => simp [Py.contains, isPrefixOf_self]

theorem contains_of_isPrefixOf (s p : Str) (h : p.isPrefixOf s = true) : Py.contains s p = true := by
  cases s with
  | nil => cases p <;> simp_all [Py.contains]
  | cons c cs => simp [Py.contains, h]

theorem isPrefixOf_append_left (p q s : Str) (h : (p ++ q).isPrefixOf s = true) : p.isPrefixOf s = true := by
  induction p generalizing s with
  | nil => simp
  | cons c cs ih =>
    cases s with
    | nil => simp at h
    | cons d ds =>
      simp only [List.cons_append, List.isPrefixOf_cons_cons, Bool.and_eq_true] at h ⊢
      exact ⟨h.1, ih ds h.2⟩

/-- a string that lacks a character of `p` does not contain `p` -/
theorem not_contains_of_missing_char (s p : Str) (c : Char) (hp : c ∈ p) (hs : c ∉ s) : Py.contains s p = false := by
  have hpre : ∀ t : Str, c ∉ t → p.isPrefixOf t = false := by
    intro t ht
    cases hpt : p.isPrefixOf t with
    | false => rfl
    | true =>
      obtain ⟨r, hr⟩ := List.isPrefixOf_iff_prefix.mp hpt
      exact absurd (by rw [← hr]; simp [hp]) ht
  induction s with
  | nil =>
    cases p with
    | nil => simp at hp
    | cons _ _ => simp [Py.contains]
  | cons d ds ih =>
    have hds : c ∉ ds := fun e => hs (by simp [e])
    simp [Py.contains, hpre (d :: ds) hs, ih hds]

/-! ### rendered types -/

theorem mem_join (sep : Str) (l : List Str) (c : Char) (h : c ∈ join sep l) : c ∈ sep ∨ ∃ x ∈ l, c ∈ x := by
  induction l with
  | nil => simp [join] at h
  | cons x xs ih =>
    cases xs with
    | nil => simp [join] at h; exact Or.inr ⟨x, by simp, h⟩
    | cons y ys =>
      simp only [join, List.mem_append] at h
      rcases h with (h | h) | h
      · exact Or.inr ⟨x, by simp, h⟩
      · exact Or.inl h
      · rcases ih h with h | ⟨z, hz, hc⟩
        · exact Or.inl h
        · exact Or.inr ⟨z, by simp [hz], hc⟩

/-- the characters of a rendered type: those of the fixed templates and names, or of a `Literal` member -/
def templateChars : Str := js!"Optional[]Literal', intfloasrbdc"

theorem mem_template (s : Str) (hs : s.all (fun c => templateChars.contains c) = true) (c : Char) (h : c ∈ s) :
    c ∈ templateChars := by
  have := List.all_eq_true.mp hs c h
  simpa using this

theorem mem_render (t : Typ) (c : Char) (h : c ∈ t.render) :
    c ∈ templateChars ∨ ∃ ms, t.core = .lit ms ∧ ∃ m ∈ ms, c ∈ m := by
  have hcore : c ∈ t.core.render → c ∈ templateChars ∨ ∃ ms, t.core = .lit ms ∧ ∃ m ∈ ms, c ∈ m := by
    intro hc
    cases hcr : t.core with
    | base b =>
      rw [hcr] at hc
      left
      cases b
      · exact mem_template js!"int" (by decide) c hc
      · exact mem_template js!"float" (by decide) c hc
      · exact mem_template js!"str" (by decide) c hc
      · exact mem_template js!"bool" (by decide) c hc
      · exact mem_template js!"dict" (by decide) c hc
      · exact mem_template js!"list" (by decide) c hc
    | lit ms =>
      rw [hcr] at hc
      simp only [Core.render, List.mem_append] at hc
      rcases hc with (hc | hc) | hc
      · left; exact mem_template js!"Literal[" (by decide) c hc
      · rcases mem_join _ _ _ hc with hc | ⟨q, hq, hcq⟩
        · left; exact mem_template js!", " (by decide) c hc
        · obtain ⟨m, hm, rfl⟩ := List.mem_map.mp hq
          simp only [quote, List.mem_cons, List.mem_append, List.not_mem_nil, or_false] at hcq
          rcases hcq with h | h | h
          · left; subst h; decide
          · right; exact ⟨ms, rfl, m, hm, h⟩
          · left; subst h; decide
      · left; exact mem_template js!"]" (by decide) c hc
  unfold Typ.render at h
  split at h
  · simp only [List.mem_append] at h
    rcases h with (h | h) | h
    · left; exact mem_template js!"Optional[" (by decide) c h
    · exact hcore h
    · left; exact mem_template js!"]" (by decide) c h
  · exact hcore h

theorem wordChar_ne (c : Char) (h : wordChar c = true) : c ≠ '`' ∧ c ≠ '\n' ∧ c ≠ '|' ∧ c ≠ '[' := by
  refine ⟨?_, ?_, ?_, ?_⟩ <;> intro e <;> subst e <;> revert h <;> decide

theorem member_chars (ms : List Str) (hok : ms.all memberOk = true) (m : Str) (hm : m ∈ ms) (c : Char) (hc : c ∈ m) :
    wordChar c = true := by
  have := List.all_eq_true.mp hok m hm
  simp only [memberOk, Bool.and_eq_true] at this
  exact List.all_eq_true.mp this.2 c hc

/-- a rendered type of the domain contains neither a backtick nor a newline -/
theorem render_safe (t : Typ) (hok : t.okRet = true) : '`' ∉ t.render ∧ '\n' ∉ t.render := by
  constructor <;> intro h <;> rcases mem_render t _ h with h | ⟨ms, hms, m, hm, hc⟩
  · revert h; decide
  · simp only [Typ.okRet, hms, Bool.and_eq_true] at hok
    exact (wordChar_ne _ (member_chars ms hok.2 m hm _ hc)).1 rfl
  · revert h; decide
  · simp only [Typ.okRet, hms, Bool.and_eq_true] at hok
    exact (wordChar_ne _ (member_chars ms hok.2 m hm _ hc)).2.1 rfl

/-! ### the description: `parseDesc (emitDesc doc ret) = (doc, ret)` on the trigger-free domain -/

theorem takeWhile_all {α} (p : α → Bool) (l : List α) (h : ∀ a ∈ l, p a = true) : l.takeWhile p = l := by
  induction l with
  | nil => rfl
  | cons x xs ih => simp [List.takeWhile, h x (by simp), ih (fun a ha => h a (by simp [ha]))]

theorem dropWhile_all {α} (p : α → Bool) (l : List α) (h : ∀ a ∈ l, p a = true) : l.dropWhile p = [] := by
  induction l with
  | nil => rfl
  | cons x xs ih => simp [List.dropWhile, h x (by simp), ih (fun a ha => h a (by simp [ha]))]

theorem takeWhile_stop {α} (p : α → Bool) (l r : List α) (x : α) (h : ∀ a ∈ l, p a = true) (hx : p x = false) :
    (l ++ x :: r).takeWhile p = l := by
  rw [List.takeWhile_append_of_pos h, List.takeWhile_cons_of_neg (by simp [hx])]; simp

theorem dropWhile_stop {α} (p : α → Bool) (l r : List α) (x : α) (h : ∀ a ∈ l, p a = true) (hx : p x = false) :
    (l ++ x :: r).dropWhile p = x :: r := by
  rw [List.dropWhile_append_of_pos h, List.dropWhile_cons_of_neg (by simp [hx])]

theorem printable_no_nl (l : Str) (h : l.all printable = true) : '\n' ∉ l := by
  intro hm
  have := List.all_eq_true.mp h _ hm
  revert this; decide

/-- a line of trigger-free prose is not a `:return:` / `:rtype:` line -/
theorem lineOk_not_ret (l : Str) (h : lineOk l = true) : isRetLine l = false := by
  simp only [lineOk, Bool.and_eq_true] at h
  have hall := List.all_eq_true.mp h.1.2
  have h1 := hall js!":return" (by decide)
  have h2 := hall js!":rtype" (by decide)
  simp only [Bool.not_eq_true'] at h1 h2
  simp only [isRetLine, startsWith, Bool.or_eq_false_iff]
  constructor
  · cases hp : (js!":return:").isPrefixOf l with
    | false => rfl
    | true =>
      have := contains_of_isPrefixOf l js!":return" (isPrefixOf_append_left js!":return" [':'] l hp)
      rw [h1] at this; cases this
  · cases hp : (js!":rtype:").isPrefixOf l with
    | false => rfl
    | true =>
      have := contains_of_isPrefixOf l js!":rtype" (isPrefixOf_append_left js!":rtype" [':'] l hp)
      rw [h2] at this; cases this

theorem docOk_lines (doc : Str) (h : docOk doc = true) : ∀ l ∈ splitNl doc, (!isRetLine l) = true := by
  intro l hl
  simp only [docOk, Bool.or_eq_true, Bool.and_eq_true] at h
  rcases h with h | h
  · have : doc = [] := by simpa using h
    subst this
    simp [splitNl] at hl
    subst hl
    decide
  · simp [lineOk_not_ret l (List.all_eq_true.mp h.1.1 l hl)]

def expectedRet (r : Ret) : PRet := { typ := some r.typ.render, doc := r.doc }

def rtypeLine (r : Ret) : Str := js!":rtype: ```" ++ r.typ.render ++ js!"```"

theorem rtypeLine_no_nl (r : Ret) (h : r.typ.okRet = true) : '\n' ∉ rtypeLine r := by
  have := (render_safe r.typ h).2
  simp [rtypeLine, this]

theorem rtypeLine_isRet (r : Ret) : isRetLine (rtypeLine r) = true := by
  simp [isRetLine, rtypeLine, startsWith, List.isPrefixOf_cons_cons]

theorem takeWhile_tick (t : Str) (h : '`' ∉ t) (rest : Str) : (t ++ '`' :: rest).takeWhile (· ≠ '`') = t := by
  apply takeWhile_stop
  · intro a ha; simp; exact fun e => h (e ▸ ha)
  · simp

theorem retText_none (r : Ret) (h : r.doc = none) : retText r = rtypeLine r := by
  simp [retText, rtypeLine, h]

theorem retText_some (r : Ret) (d : Str) (h : r.doc = some d) (hd : d.isEmpty = false) :
    retText r = (js!":return: " ++ d) ++ '\n' :: rtypeLine r := by
  simp [retText, rtypeLine, h, hd]

/-- what the reference parser reads from the lines of a return entry preceded by header lines -/
theorem parse_ret_lines (r : Ret) (h : retOk r = true) (pre : List Str) (hpre : ∀ l ∈ pre, (!isRetLine l) = true) :
    (pre ++ splitNl (retText r)).takeWhile (fun l => !isRetLine l) = pre ∧
    ((pre ++ splitNl (retText r)).dropWhile (fun l => !isRetLine l)).isEmpty = false ∧
    (findLine js!":rtype: ```" ((pre ++ splitNl (retText r)).dropWhile (fun l => !isRetLine l))).map
        (fun t => t.takeWhile (· ≠ '`')) = some r.typ.render ∧
    findLine js!":return: " ((pre ++ splitNl (retText r)).dropWhile (fun l => !isRetLine l)) = r.doc := by
  simp only [retOk, Bool.and_eq_true] at h
  obtain ⟨⟨htyp, _⟩, hdoc⟩ := h
  have hsafe := render_safe r.typ htyp
  have hnl := rtypeLine_no_nl r htyp
  have hrt : (!isRetLine (rtypeLine r)) = false := by simp [rtypeLine_isRet]
  have htick : (r.typ.render ++ js!"```").takeWhile (· ≠ '`') = r.typ.render := takeWhile_tick _ hsafe.1 _
  cases hd : r.doc with
  | none =>
    rw [retText_none r hd, splitNl_single _ hnl]
    rw [takeWhile_stop _ pre [] _ hpre hrt, dropWhile_stop _ pre [] _ hpre hrt]
    refine ⟨rfl, rfl, ?_, ?_⟩
    · simp [findLine, rtypeLine, startsWith]; simpa using htick
    · simp [findLine, rtypeLine, startsWith, List.isPrefixOf_cons_cons]
  | some d =>
    rw [hd] at hdoc
    simp only [Bool.and_eq_true, Bool.not_eq_true', decide_eq_true_eq] at hdoc
    obtain ⟨⟨⟨hne, hline⟩, _⟩, _⟩ := hdoc
    have hdnl : '\n' ∉ d := by
      simp only [lineOk, Bool.and_eq_true] at hline
      exact printable_no_nl d hline.1.1.1.1
    have hrl : '\n' ∉ js!":return: " ++ d := by simp [hdnl]
    have hret : (!isRetLine (js!":return: " ++ d)) = false := by
      simp [isRetLine, startsWith]
    rw [retText_some r d hd hne, splitNl_append_sep _ _ hrl, splitNl_single _ hnl]
    rw [takeWhile_stop _ pre _ _ hpre hret, dropWhile_stop _ pre _ _ hpre hret]
    refine ⟨rfl, rfl, ?_, ?_⟩
    · simp [findLine, rtypeLine, startsWith, List.isPrefixOf_cons_cons]; simpa using htick
    · simp [findLine, startsWith]

theorem parseDesc_emitDesc (doc : Str) (ret : Option Ret) (hd : docOk doc = true)
    (hr : ∀ r, ret = some r → retOk r = true) :
    parseDesc (emitDesc doc ret) = (doc, ret.map expectedRet) := by
  have hlines := docOk_lines doc hd
  cases ret with
  | none =>
    simp only [emitDesc, parseDesc, Option.map_none]
    simp only [takeWhile_all _ _ hlines, dropWhile_all _ _ hlines, join_splitNl]
    rfl
  | some r =>
    have hro := hr r rfl
    by_cases hde : doc.isEmpty = true
    · have : doc = [] := by simpa using hde
      subst this
      have e : emitDesc [] (some r) = retText r := by simp [emitDesc]
      obtain ⟨h1, h2, h3, h4⟩ := parse_ret_lines r hro [] (by simp)
      simp only [List.nil_append] at h1 h2 h3 h4
      simp only [e, parseDesc, h1, h2, h3, h4]
      simp [join, expectedRet]
    · have e : emitDesc doc (some r) = doc ++ '\n' :: retText r := by simp [emitDesc, hde]
      obtain ⟨h1, h2, h3, h4⟩ := parse_ret_lines r hro (splitNl doc) hlines
      simp only [e, parseDesc, splitNl_append_nl, h1, h2, h3, h4, join_splitNl]
      simp [expectedRet]

/-! ### a property object and what the parser reads from it -/

/-- `all(filter(str.isalpha, maybe_enum))` is always `True`: an alphabetic string is non-empty, hence truthy -/
theorem maybeEnum_always (ms : List Str) : maybeEnumOk ms = true := by
  simp only [maybeEnumOk, List.all_eq_true, List.mem_filter]
  intro m hm
  have := hm.2
  simp only [isalpha, Bool.and_eq_true] at this
  exact this.1

theorem emitProp_eq (p : Param) :
    (emitProp p).1 = .obj (propKvs (emittedDefault p) p.doc (emitType p.typ).1 (emitType p.typ).2) := rfl

theorem emitProp_required (p : Param) : (emitProp p).2 = !p.typ.optional := rfl

section lookups
variable (dflt : Option J) (doc : Option Str) (ty : Str) (pat : Option Str)

theorem lookup_default : lookup js!"default" (propKvs dflt doc ty pat) = dflt := by
  cases dflt <;> cases doc <;> cases pat <;> simp [propKvs, dfltKvs, docKvs, patKvs, lookup] <;> split <;> simp [lookup]

theorem lookup_description :
    lookup js!"description" (propKvs dflt doc ty pat) = doc.bind (fun d => if d.isEmpty then none else some (.str d)) := by
  cases dflt <;> cases doc <;> cases pat <;> simp [propKvs, dfltKvs, docKvs, patKvs, lookup] <;> split <;> simp [lookup]

theorem lookup_doc :
    lookup js!"doc" (propKvs dflt doc ty pat) = doc.bind (fun d => if d.isEmpty then some (.str d) else none) := by
  cases dflt <;> cases doc <;> cases pat <;> simp [propKvs, dfltKvs, docKvs, patKvs, lookup] <;> split <;> simp [lookup]

theorem lookup_type : lookup js!"type" (propKvs dflt doc ty pat) = some (.str ty) := by
  cases dflt <;> cases doc <;> cases pat <;> simp [propKvs, dfltKvs, docKvs, patKvs, lookup] <;> split <;> simp [lookup]

theorem lookup_pattern : lookup js!"pattern" (propKvs dflt doc ty pat) = pat.map .str := by
  cases dflt <;> cases doc <;> cases pat <;> simp [propKvs, dfltKvs, docKvs, patKvs, lookup] <;> split <;> simp [lookup]

theorem no_outOfFragment : outOfFragment.any (fun k => hasKey k (propKvs dflt doc ty pat)) = false := by
  cases dflt <;> cases doc <;> cases pat <;> simp [propKvs, dfltKvs, docKvs, patKvs, outOfFragment, hasKey, lookup] <;> split <;> simp [lookup]

theorem all_consumed : (propKvs dflt doc ty pat).filter (fun kv => !consumed.contains kv.1) = [] := by
  cases dflt <;> cases doc <;> cases pat <;> simp [propKvs, dfltKvs, docKvs, patKvs, consumed] <;> split <;> simp

end lookups

/-- the type string after the `pattern` step -/
def typAfterPattern (tn : Str) (pat : Option Str) : Str :=
  match pat with
  | none => tn
  | some s => literalOf (splitBar s)

theorem parseProp_propKvs (required : List Str) (name : Str) (dflt : Option J) (doc : Option Str) (ty tn : Str)
    (pat : Option Str) (hty : ty.isEmpty = false) (htn : lookup ty jsonType2typ = some tn)
    (hpat : ∀ s, pat = some s → s.isEmpty = false) :
    parseProp required name (.obj (propKvs dflt doc ty pat)) =
      .ok { typ := some (wrapOpt required name (typAfterPattern tn pat)), doc := doc.map J.str,
            default := dflt.map normDefaultJ, extra := [] } := by
  have hdoc : pickDoc (propKvs dflt doc ty pat) = doc.map J.str := by
    unfold pickDoc
    rw [lookup_description, lookup_doc]
    cases doc with
    | none => rfl
    | some d =>
      by_cases h : d = []
      · subst h; rfl
      · simp [h]
  have htype : ∀ typ0, typeStep typ0 (lookup js!"type" (propKvs dflt doc ty pat)) = .ok (some tn, []) := by
    intro typ0
    rw [lookup_type]
    simp [typeStep, J.truthy, hty, htn]
  have hpattern : patternStep (some tn) (lookup js!"pattern" (propKvs dflt doc ty pat)) =
      .ok (some (typAfterPattern tn pat), []) := by
    rw [lookup_pattern]
    cases pat with
    | none => rfl
    | some s => simp [patternStep, J.truthy, hpat s rfl, maybeEnum_always, typAfterPattern]
  unfold parseProp
  simp only [no_outOfFragment, htype, hpattern, hdoc, lookup_default, all_consumed]
  simp

/-! ### the emitted property, parsed back -/

/-- `Literal` members in sorted order (what the emitter's `sorted` leaves of the member order) -/
def normTyp (t : Typ) : Typ :=
  { t with core := match t.core with | .lit ms => .lit (sortStrs ms) | c => c }

def expectedParam (p : Param) : PParam :=
  { typ := some (normTyp p.typ).render, doc := p.doc.map J.str, default := emittedDefault p, extra := [] }

/-- **table facts** (over the REGENERATED tables): every base name has a JSON type, which is one of the seven simple
    types of the meta-schema and maps back to the same name; `str` (the type of `Literal` members) too. -/
theorem base_tables (b : Base) :
    (jsonTypeOf b.name).isEmpty = false ∧ lookup (jsonTypeOf b.name) jsonType2typ = some b.name ∧
    simpleTypes.contains (jsonTypeOf b.name) = true := by
  cases b <;> decide

theorem base_name_facts (b : Base) : b.name.isEmpty = false ∧ Py.contains b.name js!"Optional[" = false := by
  cases b <;> decide

theorem normDefault_emitted (p : Param) : (emittedDefault p).map normDefaultJ = emittedDefault p := by
  unfold emittedDefault
  cases p.default with
  | none => rfl
  | some d =>
    cases d with
    | none => simp [Default.isNone]; decide
    | str s =>
      by_cases h : s ∈ noneTypeStrs
      · simp [Default.isNone, h]
      · simp [Default.isNone, h, Default.toJ, normDefaultJ]
    | int i => simp [Default.isNone, Default.toJ, normDefaultJ]
    | float r => simp [Default.isNone, Default.toJ, normDefaultJ]
    | bool b => simp [Default.isNone, Default.toJ, normDefaultJ]

theorem join_ne_nil (sep : Str) (l : List Str) (hne : l ≠ []) (h : ∀ x ∈ l, x ≠ []) : join sep l ≠ [] := by
  cases l with
  | nil => exact absurd rfl hne
  | cons x xs =>
    have hx := h x (by simp)
    cases xs with
    | nil => simpa [join] using hx
    | cons y ys => simp [join, hx]

/-- members without `[` cannot make the rebuilt `Literal[...]` string contain `Optional[` (a sufficient condition for
    the last conjunct of `Typ.ok`) -/
theorem literalOf_facts (ms : List Str) (h : ∀ m ∈ ms, '[' ∉ m) :
    Py.contains (literalOf ms) js!"Optional[" = false := by
  have hrest : '[' ∉ join js!", " (ms.map quote) ++ js!"]" := by
    intro hm
    simp only [List.mem_append] at hm
    rcases hm with hm | hm
    · rcases mem_join _ _ _ hm with hc | ⟨q, hq, hcq⟩
      · revert hc; decide
      · obtain ⟨m, hm', rfl⟩ := List.mem_map.mp hq
        simp only [quote, List.mem_cons, List.mem_append, List.not_mem_nil, or_false] at hcq
        rcases hcq with hc | hc | hc
        · revert hc; decide
        · exact h m hm' hc
        · revert hc; decide
    · revert hm; decide
  have := not_contains_of_missing_char _ js!"Optional[" '[' (by decide) hrest
  simp only [literalOf, List.append_assoc]
  simp [Py.contains, List.isPrefixOf_cons_cons]
  simpa [List.append_assoc] using this

theorem insertSorted_length (x : Str) (l : List Str) : (insertSorted x l).length = l.length + 1 := by
  induction l with
  | nil => rfl
  | cons y ys ih => simp only [insertSorted]; split <;> simp [ih]

theorem sortStrs_length (l : List Str) : (sortStrs l).length = l.length := by
  induction l with
  | nil => rfl
  | cons x xs ih => simp [sortStrs, insertSorted_length, ih]

/-- the emitted pattern is non-empty (truthy) unless the only member is the empty string -/
theorem patternOf_ne_nil (ms : List Str) (hne : ms ≠ []) (h1 : ms ≠ [[]]) : (patternOf ms).isEmpty = false := by
  match ms, hne, h1 with
  | [x], _, h1 =>
    have : x ≠ [] := fun e => h1 (by rw [e])
    simpa [patternOf, sortStrs, insertSorted, join] using this
  | x :: y :: rest, _, _ =>
    have hl := sortStrs_length (x :: y :: rest)
    unfold patternOf
    match hs : sortStrs (x :: y :: rest) with
    | [] => rw [hs] at hl; simp at hl
    | [a] => rw [hs] at hl; simp at hl
    | a :: b :: r => simp [join]

theorem parseProp_emitProp (required : List Str) (name : Str) (p : Param) (hok : p.typ.ok = true)
    (hreq : required.contains name = !p.typ.optional) :
    parseProp required name (emitProp p).1 = .ok (expectedParam p) := by
  rw [emitProp_eq]
  cases hc : p.typ.core with
  | base b =>
    obtain ⟨h1, h2, _⟩ := base_tables b
    obtain ⟨h3, h4⟩ := base_name_facts b
    have het : emitType p.typ = (jsonTypeOf b.name, none) := by simp [emitType, hc]
    rw [het, parseProp_propKvs required name _ _ _ b.name none h1 h2 (by simp), normDefault_emitted]
    simp only [expectedParam, typAfterPattern, wrapOpt, hreq, normTyp, hc, Typ.render, Core.render]
    cases p.typ.optional <;> simp [h3, h4]
  | lit ms =>
    simp only [Typ.ok, hc, Bool.and_eq_true, Bool.not_eq_true', decide_eq_true_eq] at hok
    obtain ⟨⟨⟨hne0, hwide⟩, hnot1⟩, h4⟩ := hok
    have hms : ms ≠ [] := by intro e; simp [e] at hne0
    have hne : sortStrs ms ≠ [] := fun e => hms ((sortStrs_eq_nil ms).mp e)
    have hnobar : ∀ m ∈ sortStrs ms, '|' ∉ m := by
      intro m hm hbar
      have := List.all_eq_true.mp (List.all_eq_true.mp hwide m ((mem_sortStrs m ms).mp hm)) _ hbar
      revert this; decide
    have hpatne : (patternOf ms).isEmpty = false := patternOf_ne_nil ms hms hnot1
    have het : emitType p.typ = (jsonTypeOf js!"str", some (patternOf ms)) := by simp [emitType, hc]
    have hs1 : (jsonTypeOf js!"str").isEmpty = false := by decide
    have hs2 : lookup (jsonTypeOf js!"str") jsonType2typ = some js!"str" := by decide
    rw [het, parseProp_propKvs required name _ _ (jsonTypeOf js!"str") js!"str" (some (patternOf ms)) hs1 hs2
      (by intro s hs; cases hs; exact hpatne), normDefault_emitted]
    have h3 : (literalOf (sortStrs ms)).isEmpty = false := by simp [literalOf]
    simp only [expectedParam, typAfterPattern, patternOf, splitBar_join _ hne hnobar, wrapOpt, hreq, normTyp, hc,
      Typ.render, Core.render]
    have hlit : js!"Literal[" ++ join js!", " ((sortStrs ms).map quote) ++ js!"]" = literalOf (sortStrs ms) := rfl
    rw [hlit]
    cases p.typ.optional <;> simp [h3, h4]

/-! ### the whole schema, parsed back -/

def expected (ir : IR) : PIR :=
  { name := none, doc := ir.doc, params := ir.params.map (fun np => (np.1, expectedParam np.2)),
    returns := ir.returns.map expectedRet }

theorem requiredSet_strs (l : List Str) : requiredSet (some (.arr (l.map J.str))) = .ok l := by
  have h1 : ∀ ys : List Str, (ys.map J.str).any J.isNested = false := by
    intro ys; induction ys with
    | nil => rfl
    | cons y ys ih => simp [J.isNested, ih]
  have h2 : ∀ ys : List Str, (ys.map J.str).filterMap J.str? = ys := by
    intro ys; induction ys with
    | nil => rfl
    | cons y ys ih => simpa [J.str?] using ih
  cases l with
  | nil => simp [requiredSet, J.truthy]
  | cons x xs =>
    simp only [requiredSet, J.truthy, h1 (x :: xs), h2 (x :: xs)]
    simp

theorem mem_emitRequired (ps : List (Str × Param)) (n : Str) :
    n ∈ emitRequired ps ↔ ∃ p, (n, p) ∈ ps ∧ p.typ.optional = false := by
  simp only [emitRequired, List.mem_map, List.mem_filter, emitProp_required]
  constructor
  · rintro ⟨⟨n', p⟩, ⟨hm, ho⟩, rfl⟩; exact ⟨p, hm, by simpa using ho⟩
  · rintro ⟨p, hm, ho⟩; exact ⟨(n, p), ⟨hm, by simp [ho]⟩, rfl⟩

theorem nodup_fst_unique {α} (ps : List (Str × α)) (hnd : (ps.map (·.1)).Nodup) (a b : Str × α)
    (ha : a ∈ ps) (hb : b ∈ ps) (h : a.1 = b.1) : a = b := by
  induction ps with
  | nil => cases ha
  | cons x xs ih =>
    simp only [List.map_cons, List.nodup_cons, List.mem_map, not_exists, not_and] at hnd
    simp only [List.mem_cons] at ha hb
    rcases ha with rfl | ha <;> rcases hb with rfl | hb
    · rfl
    · exact absurd h.symm (hnd.1 b hb)
    · exact absurd h (hnd.1 a ha)
    · exact ih hnd.2 ha hb

theorem required_contains (ps : List (Str × Param)) (hnd : (ps.map (·.1)).Nodup) :
    ∀ np ∈ ps, (emitRequired ps).contains np.1 = !np.2.typ.optional := by
  intro np hnp
  cases ho : np.2.typ.optional with
  | false =>
    simp only [Bool.not_false, List.contains_iff_mem]
    exact (mem_emitRequired ps np.1).mpr ⟨np.2, hnp, ho⟩
  | true =>
    simp only [Bool.not_true]
    cases hc : (emitRequired ps).contains np.1 with
    | false => rfl
    | true =>
      obtain ⟨p, hm, hpo⟩ := (mem_emitRequired ps np.1).mp (List.contains_iff_mem.mp hc)
      have := nodup_fst_unique ps hnd (np.1, p) np hm hnp rfl
      rw [← this] at ho
      simp [hpo] at ho

theorem parseProps_emitProps (required : List Str) (ps : List (Str × Param))
    (hok : ∀ np ∈ ps, np.2.typ.ok = true) (hreq : ∀ np ∈ ps, required.contains np.1 = !np.2.typ.optional) :
    parseProps required (emitProps ps) = .ok (ps.map (fun np => (np.1, expectedParam np.2))) := by
  induction ps with
  | nil => rfl
  | cons x xs ih =>
    have hx := parseProp_emitProp required x.1 x.2 (hok x (by simp)) (hreq x (by simp))
    have hxs := ih (fun np h => hok np (by simp [h])) (fun np h => hreq np (by simp [h]))
    simp only [emitProps, List.map_cons] at hxs ⊢
    simp [parseProps, hx, hxs]

theorem IR.ok_params (ir : IR) (h : ir.ok = true) : ∀ np ∈ ir.params, np.2.typ.ok = true := by
  intro np hnp
  simp only [IR.ok, Bool.and_eq_true] at h
  have := List.all_eq_true.mp h.1.2 np hnp
  simp only [paramOk, Bool.and_eq_true] at this
  exact this.1

theorem IR.ok_doc (ir : IR) (h : ir.ok = true) : docOk ir.doc = true := by
  simp only [IR.ok, Bool.and_eq_true] at h
  exact h.1.1.2

theorem IR.ok_ret (ir : IR) (h : ir.ok = true) : ∀ r, ir.returns = some r → retOk r = true := by
  intro r hr
  simp only [IR.ok, Bool.and_eq_true, hr] at h
  exact h.2

/-- **parse ∘ emit, exactly**: the parser reads back the parameters in order with their docs, the defaults the
    emitter kept, the type strings with `Literal` members in sorted order, the header prose and the return entry. -/
theorem parse_emitT (ir : IR) (hok : ir.ok = true) (hnd : (ir.params.map (·.1)).Nodup) :
    parse (emitT ir) = .ok (expected ir) := by
  have hprops := parseProps_emitProps (emitRequired ir.params) ir.params (IR.ok_params ir hok) (required_contains ir.params hnd)
  have hdesc := parseDesc_emitDesc ir.doc ir.returns (IR.ok_doc ir hok) (IR.ok_ret ir hok)
  have hreq := requiredSet_strs (emitRequired ir.params)
  simp [parse, emitT, lookup, hprops, hdesc, hreq, expected]

/-! ### validity of the emitted schema -/

theorem uniqueStrs_of_nodup (l : List Str) (h : l.Nodup) : uniqueStrs (l.map J.str) = true := by
  induction l with
  | nil => rfl
  | cons x xs ih =>
    simp only [List.nodup_cons] at h
    have hx : (xs.map J.str).contains (J.str x) = false := by
      cases hc : (xs.map J.str).contains (J.str x) with
      | false => rfl
      | true =>
        obtain ⟨y, hy, e⟩ := List.mem_map.mp (List.contains_iff_mem.mp hc)
        cases e
        exact absurd hy h.1
    simp [uniqueStrs, J.isStr, ih h.2, h.1]

theorem emitRequired_nodup (ps : List (Str × Param)) (hnd : (ps.map (·.1)).Nodup) : (emitRequired ps).Nodup := by
  unfold emitRequired
  exact List.Nodup.sublist (List.Sublist.map _ List.filter_sublist) hnd

theorem validKvs_append (a b : List (Str × J)) : validKvs (a ++ b) = (validKvs a && validKvs b) := by
  induction a with
  | nil => simp [validKvs]
  | cons x xs ih =>
    obtain ⟨k, v⟩ := x
    rw [List.cons_append, validKvs.eq_2, validKvs.eq_2, ih, Bool.and_assoc]

theorem validKw_of_ne_properties (k : Str) (v : J) (h : k ≠ js!"properties") : validKw k v = kwCheck k v := by
  cases v <;> simp [validKw, h]

theorem validKvs_propKvs (dflt : Option J) (doc : Option Str) (ty : Str) (pat : Option Str)
    (hty : simpleTypes.contains ty = true) (hpat : ∀ s, pat = some s → s.all patChar = true) :
    validKvs (propKvs dflt doc ty pat) = true := by
  have h1 : validKvs (dfltKvs dflt) = true := by
    cases dflt with
    | none => rfl
    | some d =>
      show validKvs [(js!"default", d)] = true
      rw [validKvs.eq_2, validKw_of_ne_properties _ _ (by decide)]; simp [kwCheck, validKvs]
  have h2 : validKvs (docKvs doc) = true := by
    cases doc with
    | none => rfl
    | some d =>
      show validKvs (if d.isEmpty = true then [(js!"doc", .str d)] else [(js!"description", .str d)]) = true
      by_cases h : d.isEmpty = true
      · rw [if_pos h, validKvs.eq_2, validKw_of_ne_properties _ _ (by decide)]; simp [kwCheck, validKvs]
      · rw [if_neg h, validKvs.eq_2, validKw_of_ne_properties _ _ (by decide)]; simp [kwCheck, validKvs, J.isStr]
  have h3 : validKvs [(js!"type", .str ty)] = true := by
    rw [validKvs.eq_2, validKw_of_ne_properties _ _ (by decide)]
    simp [kwCheck, validKvs, typeOk, List.contains_iff_mem.mp hty]
  have h4 : validKvs (patKvs pat) = true := by
    cases pat with
    | none => rfl
    | some s =>
      have := List.all_eq_true.mp (hpat s rfl)
      show validKvs [(js!"pattern", .str s)] = true
      rw [validKvs.eq_2, validKw_of_ne_properties _ _ (by decide)]; simp [kwCheck, validKvs, patternOk]; exact this
  simp only [propKvs, validKvs_append, h1, h2, h3, h4, Bool.and_self]

theorem patternOf_patChars (ms : List Str) (h : ms.all (fun m => m.all plainChar) = true) :
    (patternOf ms).all patChar = true := by
  simp only [List.all_eq_true, patternOf]
  intro c hc
  rcases mem_join _ _ _ hc with hc | ⟨m, hm, hcm⟩
  · simp at hc; subst hc; decide
  · have := List.all_eq_true.mp (List.all_eq_true.mp h m ((mem_sortStrs m ms).mp hm)) c hcm
    simp [patChar, this]

theorem validSchema_emitProp (p : Param) (hpl : p.typ.plain = true) : validSchema (emitProp p).1 = true := by
  rw [emitProp_eq]
  simp only [validSchema]
  apply validKvs_propKvs
  · cases hc : p.typ.core with
    | base b => simp only [emitType, hc]; exact (base_tables b).2.2
    | lit ms => simp only [emitType, hc]; decide
  · intro s hs
    cases hc : p.typ.core with
    | base b => simp [emitType, hc] at hs
    | lit ms =>
      simp only [emitType, hc, Option.some.injEq] at hs
      subst hs
      simp only [Typ.plain, hc] at hpl
      exact patternOf_patChars ms hpl

theorem validProps_emitProps (ps : List (Str × Param)) (hpl : ∀ np ∈ ps, np.2.typ.plain = true) :
    validProps (emitProps ps) = true := by
  induction ps with
  | nil => rfl
  | cons x xs ih =>
    have := ih (fun np h => hpl np (by simp [h]))
    simp only [emitProps, List.map_cons] at this ⊢
    simp [validProps, validSchema_emitProp x.2 (hpl x (by simp)), this]

theorem identChar_ne_hash (c : Char) (h : identChar c = true) : c ≠ '#' := by
  intro e; subst e; revert h; decide

theorem idOk_idOf (name : Option Str) (h : ∀ n, name = some n → n.all identChar = true) :
    idOk (.str (idOf name)) = true := by
  have hall : ∀ c ∈ idOf name, (decide (c ≠ '#')) = true := by
    intro c hc
    simp only [idOf, List.mem_append] at hc
    rcases hc with (hc | hc) | hc
    · have : (js!"https://offscale.io/").all (fun c => decide (c ≠ '#')) = true := by decide
      exact List.all_eq_true.mp this c hc
    · cases name with
      | none =>
        have : (js!"None").all (fun c => decide (c ≠ '#')) = true := by decide
        exact List.all_eq_true.mp this c hc
      | some n =>
        have := List.all_eq_true.mp (h n rfl) c hc
        simpa using identChar_ne_hash c this
    · have : (js!".schema.json").all (fun c => decide (c ≠ '#')) = true := by decide
      exact List.all_eq_true.mp this c hc
  simp only [idOk]
  rw [dropWhile_all _ _ hall]
  rfl

theorem IR.ok_name (ir : IR) (h : ir.ok = true) : ∀ n, ir.name = some n → n.all identChar = true := by
  intro n hn
  simp only [IR.ok, Bool.and_eq_true, hn] at h
  exact h.1.1.1

theorem IR.plain_params (ir : IR) (h : ir.plain = true) : ∀ np ∈ ir.params, np.2.typ.plain = true :=
  fun np hnp => List.all_eq_true.mp h np hnp

theorem validSchema_emitT (ir : IR) (hok : ir.ok = true) (hpl : ir.plain = true) (hnd : (ir.params.map (·.1)).Nodup) :
    validSchema (emitT ir) = true := by
  have h1 := idOk_idOf ir.name (IR.ok_name ir hok)
  have h2 := validProps_emitProps ir.params (IR.plain_params ir hpl)
  have h3 := uniqueStrs_of_nodup _ (emitRequired_nodup ir.params hnd)
  simp only [emitT, validSchema]
  rw [validKvs.eq_2, validKvs.eq_2, validKvs.eq_2, validKvs.eq_2, validKvs.eq_2, validKvs.eq_2, validKvs.eq_1,
    validKw_of_ne_properties _ _ (by decide), validKw_of_ne_properties _ _ (by decide),
    validKw_of_ne_properties _ _ (by decide), validKw_of_ne_properties _ _ (by decide),
    validKw_of_ne_properties js!"required" _ (by decide)]
  simp only [validKw, if_true, h2]
  simp [kwCheck, h1, h3, J.isStr, typeOk, simpleTypes]

/-! ### patterns and defaults -/

/-- what the emitted pattern accepts (`re.search`): exactly the strings that *contain* a member -/
theorem patAccepts_patternOf (ms : List Str) (hne : ms ≠ []) (hok : ms.all (fun m => m.all plainChar) = true) (s : Str) :
    patAccepts (patternOf ms) s = true ↔ ∃ m ∈ ms, isInfix m s = true := by
  have hne' : sortStrs ms ≠ [] := fun e => hne ((sortStrs_eq_nil ms).mp e)
  have hnobar : ∀ m ∈ sortStrs ms, '|' ∉ m := by
    intro m hm hbar
    have := List.all_eq_true.mp (List.all_eq_true.mp hok m ((mem_sortStrs m ms).mp hm)) _ hbar
    revert this; decide
  simp only [patAccepts, patternOf, splitBar_join _ hne' hnobar, List.any_eq_true]
  constructor
  · rintro ⟨m, hm, h⟩; exact ⟨m, (mem_sortStrs m ms).mp hm, h⟩
  · rintro ⟨m, hm, h⟩; exact ⟨m, (mem_sortStrs m ms).mpr hm, h⟩

theorem validates_default (p : Param) (hok : paramOk p = true) (hpl : p.typ.plain = true) (d : J)
    (hd : emittedDefault p = some d) :
    validates (emitProp p).1 d = true := by
  simp only [paramOk, Bool.and_eq_true] at hok
  obtain ⟨htyp, hdef⟩ := hok
  rw [emitProp_eq]
  unfold validates
  simp only [lookup_type, lookup_pattern]
  unfold emittedDefault at hd
  cases hpd : p.default with
  | none => simp [hpd] at hd
  | some d0 =>
    rw [hpd] at hdef
    simp only [hpd, Option.bind_some] at hd
    cases d0 with
    | none =>
      have : Default.none.isNone = true := by decide
      simp [this] at hd
    | int i =>
      simp only [Default.isNone, Bool.false_eq_true, if_false, Option.some.injEq, Default.toJ] at hd
      subst hd
      simp only [typedDefault, Bool.or_eq_true, decide_eq_true_eq] at hdef
      have e1 : jsonTypeOf js!"int" = js!"integer" := by decide
      have e2 : jsonTypeOf js!"float" = js!"number" := by decide
      rcases hdef with hc | hc <;> simp [emitType, hc, Base.name, e1, e2, typeAccepts]
    | float r =>
      simp only [Default.isNone, Bool.false_eq_true, if_false, Option.some.injEq, Default.toJ] at hd
      subst hd
      simp only [typedDefault, Bool.and_eq_true, decide_eq_true_eq] at hdef
      have e2 : jsonTypeOf js!"float" = js!"number" := by decide
      simp [emitType, hdef.1, Base.name, e2, typeAccepts]
    | bool b =>
      simp only [Default.isNone, Bool.false_eq_true, if_false, Option.some.injEq, Default.toJ] at hd
      subst hd
      simp only [typedDefault, decide_eq_true_eq] at hdef
      have e2 : jsonTypeOf js!"bool" = js!"boolean" := by decide
      simp [emitType, hdef, Base.name, e2, typeAccepts]
    | str s =>
      have e2 : jsonTypeOf js!"str" = js!"string" := by decide
      by_cases hn : (Default.str s).isNone = true
      · simp [hn] at hd
      · simp only [hn, Bool.false_eq_true, if_false, Option.some.injEq, Default.toJ] at hd
        subst hd
        simp only [typedDefault, Bool.or_eq_true, decide_eq_true_eq] at hdef
        rcases hdef with hc | hc
        · simp [emitType, hc, Base.name, e2, typeAccepts, J.isStr]
        · cases hcore : p.typ.core with
          | base b => simp [hcore] at hc
          | lit ms =>
            simp only [hcore] at hc
            simp only [Typ.plain, hcore] at hpl
            have hne : ms ≠ [] := by intro e; simp [e] at hc
            have hacc := (patAccepts_patternOf ms hne hpl s).mpr
              ⟨s, List.contains_iff_mem.mp hc, contains_self s⟩
            simp [emitType, hcore, e2, typeAccepts, J.isStr, hacc]

end JsonSchema
