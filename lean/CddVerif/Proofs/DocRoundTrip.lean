import CddVerif.Proofs.DocRoundTripParse
/-!
# Whole-docstring round trip (C01) — the fold over the chunks and `parse ∘ emit`

`parse_emitted`: for every interface of the domain `GoodIR`, whatever `Doc.emit … .rest` returns is parsed by
`Doc.parseRest` into the explicitly given interface `expIR`.
-/
namespace DocRT
open Py Doc DocSplit DocUtils

/-! ### `upsert` -/
theorem upsert_fresh (ps : List (Str × Param)) (name : Str) (f : Param → Out Param) (v : Param)
    (hn : name ∉ ps.map (·.1)) (hf : f {} = .ok v) : upsert ps name f = .ok (ps ++ [(name, v)]) := by
  induction ps with
  | nil => simp [upsert, hf]
  | cons kp r ih =>
    obtain ⟨k, p⟩ := kp
    have hk : (k == name) = false := by
      cases hb : (k == name) with
      | false => rfl
      | true => exact absurd (by simp [beq_iff_eq.mp hb]) hn
    simp only [upsert, hk, Bool.false_eq_true, if_false, ih (fun e => hn (by simp [e]))]
    rfl

theorem upsert_last (ps : List (Str × Param)) (name : Str) (f : Param → Out Param) (p v : Param)
    (hn : name ∉ ps.map (·.1)) (hf : f p = .ok v) : upsert (ps ++ [(name, p)]) name f = .ok (ps ++ [(name, v)]) := by
  induction ps with
  | nil => simp [upsert, hf]
  | cons kp r ih =>
    obtain ⟨k, q⟩ := kp
    have hk : (k == name) = false := by
      cases hb : (k == name) with
      | false => rfl
      | true => exact absurd (by simp [beq_iff_eq.mp hb]) hn
    simp only [List.cons_append, upsert, hk, Bool.false_eq_true, if_false, ih (fun e => hn (by simp [e]))]

/-! ### what the parser makes of one entry -/

def dfltOf (p : Param) (edd : Bool) : Option Default := if edd then p.default else Option.none

/-- **the parsed parameter** the theorems predict -/
def expParam (et edd : Bool) (p : Param) : Param :=
  { typ := if et && truthy p.typ then p.typ else (dfltOf p edd).map tyName,
    doc := some (docText p edd),
    default := dfltOf p edd }

/-- **the parsed return entry** the theorems predict -/
def expRet (et edd : Bool) (p : Param) : Param :=
  { typ := if et && truthy p.typ then p.typ else Option.none,
    doc := some (docText p edd),
    default := dfltOf p edd }

theorem dfltOf_good (p : Param) (edd : Bool) (hp : GoodEntry p) : ∀ v, dfltOf p edd = some v → GoodDefault v := by
  intro v hv
  unfold dfltOf at hv
  cases edd
  · simp at hv
  · exact (hp.dflt v (by simpa using hv)).1

theorem dfltOf_compat (p : Param) (edd : Bool) (typ : Option Str) (hc : ∀ v, p.default = some v → Compat typ v) :
    ∀ v, dfltOf p edd = some v → Compat typ v := by
  intro v hv
  unfold dfltOf at hv
  cases edd
  · simp at hv
  · exact hc v (by simpa using hv)

theorem compat_none (v : Default) : Compat Option.none v := by intro t ht; cases ht

theorem extract_docText' (p : Param) (edd : Bool) (typ : Option Str) (hp : GoodEntry p)
    (hc : ∀ v, p.default = some v → Compat typ v) :
    extractDefault (docText p edd) typ edd = .ok (docText p edd, dfltOf p edd) := extract_docText p edd typ hp hc

/-- the same with `emit_default_doc=True`, as `_set_name_and_type` calls it -/
theorem extract_docText_true (p : Param) (edd : Bool) (hp : GoodEntry p) :
    extractDefault (docText p edd) Option.none true = .ok (docText p edd, dfltOf p edd) := by
  cases edd with
  | true => exact extract_docText p true Option.none hp (fun v _ => compat_none v)
  | false =>
    have h1 : dfltOf p false = Option.none := rfl
    rw [h1]
    unfold docText
    cases hd : p.doc with
    | none => exact absurd hd hp.docSome
    | some d =>
      have g := hp.doc d hd
      exact extract_plain d Option.none true (hasParenAnnounce_plain d g.noParenAnn) g.noAnn

/-- the `:param` line on a fresh key -/
theorem fDoc_good (name : Str) (p : Param) (edd : Bool) (hn : GoodName name) (hp : GoodEntry p) :
    fDoc name (docText p edd) edd {} = .ok { typ := (dfltOf p edd).map tyName, doc := some (docText p edd), default := dfltOf p edd } := by
  unfold fDoc
  have h1 := interp_good Option.none (docText p edd) Option.none (dfltOf p edd) edd
    (extract_docText' p edd Option.none hp (fun v _ => compat_none v)) (dfltOf_good p edd hp) (Or.inl rfl)
  have e : ({ ({} : Param) with doc := some (docText p edd) } : Param) = { typ := Option.none, doc := some (docText p edd), default := Option.none } := rfl
  rw [e, h1]
  simp only []
  rw [setNameAndType_good name Option.none (docText p edd) (dfltOf p edd) hn (fun t ht => by cases ht) (docText_good p edd hp)
    (extract_docText_true p edd hp) (dfltOf_good p edd hp)]
  rfl

/-- the `:type` line on the entry the `:param` line made -/
theorem fTyp_good (name : Str) (p : Param) (t : Str) (edd : Bool) (hn : GoodName name) (hp : GoodEntry p) (ht : p.typ = some t) :
    fTyp name (bt3 ++ t ++ bt3) edd { typ := (dfltOf p edd).map tyName, doc := some (docText p edd), default := dfltOf p edd }
      = .ok { typ := some t, doc := some (docText p edd), default := dfltOf p edd } := by
  unfold fTyp
  have gt := hp.typ t ht
  rw [stripBackticks3_good t (fun h => (gt.chars _ h).2.1 rfl)]
  have hc : ∀ v, p.default = some v → Compat (some t) v := by
    intro v hv; have := (hp.dflt v hv).2; rw [ht] at this; exact this
  have h1 := interp_good (some t) (docText p edd) (dfltOf p edd) (dfltOf p edd) edd
    (extract_docText' p edd (some t) hp hc) (dfltOf_good p edd hp) (Or.inr rfl)
  simp only [h1]
  rw [setNameAndType_good name (some t) (docText p edd) (dfltOf p edd) hn (fun t' ht' => by cases ht'; exact gt.noOptSuffix)
    (docText_good p edd hp) (extract_docText_true p edd hp) (dfltOf_good p edd hp)]
  rfl

theorem compat_tyName (v : Default) : Compat (some (tyName v)) v := by
  intro t ht; cases ht; right; rfl

/-- the final `interpolate_defaults` pass leaves the parsed parameter alone -/
theorem final_param (et edd : Bool) (p : Param) (hp : GoodEntry p) :
    interpolateDefaults (expParam et edd p) edd = .ok (expParam et edd p) := by
  unfold expParam
  apply interp_good _ _ _ _ _ _ (dfltOf_good p edd hp) (Or.inr rfl)
  split
  · exact extract_docText' p edd p.typ hp (fun v hv => (hp.dflt v hv).2)
  · cases hd : dfltOf p edd with
    | none =>
      have := extract_docText' p edd Option.none hp (fun v _ => compat_none v)
      rw [hd] at this; exact this
    | some v =>
      have := extract_docText' p edd (some (tyName v)) hp (fun w hw => by
        have : dfltOf p edd = some w ∨ edd = false := by
          unfold dfltOf; cases edd
          · right; rfl
          · left; simpa using hw
        rcases this with h | h
        · rw [hd] at h; cases h; exact compat_tyName v
        · subst h; simp [dfltOf] at hd)
      rw [hd] at this; exact this

theorem final_ret (et edd : Bool) (p : Param) (hp : GoodEntry p) :
    interpolateDefaults (expRet et edd p) edd = .ok (expRet et edd p) := by
  unfold expRet
  apply interp_good _ _ _ _ _ _ (dfltOf_good p edd hp) (Or.inr rfl)
  split
  · exact extract_docText' p edd p.typ hp (fun v hv => (hp.dflt v hv).2)
  · exact extract_docText' p edd Option.none hp (fun v _ => compat_none v)


/-! ### folding the chunks -/

theorem foldChunks_cons_ok (edd : Bool) (ir ir' : IR) (ch : List Str) (rest : List (List Str))
    (h : stepChunk ir ch edd = .ok ir') : foldChunks edd ir (ch :: rest) = foldChunks edd ir' rest := by
  simp only [foldChunks, h]

theorem join_line_blank (l : Str) : join ['\n'] [l, []] = l ++ ['\n'] := by simp [join]
theorem join_line (l : Str) : join ['\n'] [l] = l ++ [] := by simp [join]

/-- **one parameter block**: the chunks of `(name, p)` append `(name, expParam p)` to the parameters parsed so far -/
theorem fold_paramBlock (ir0 : IR) (name : Str) (p : Param) (et edd : Bool) (rest : List (List Str))
    (hn : GoodName name) (hp : GoodEntry p) (hfresh : name ∉ ir0.params.map (·.1)) :
    foldChunks edd ir0 (chunksOfBlock (entryLines name p et edd) ++ rest)
      = foldChunks edd { ir0 with params := ir0.params ++ [(name, expParam et edd p)] } rest := by
  have hncol : ':' ∉ name := fun h => (hn.chars _ h).1 rfl
  have gd := docText_good p edd hp
  unfold entryLines
  cases ht : (et && truthy p.typ) with
  | false =>
    simp only [Bool.false_eq_true, if_false, chunksOfBlock, List.cons_append, List.nil_append]
    rw [foldChunks_cons_ok edd ir0 _ _ rest
      (stepChunk_param ir0 _ edd name (docText p edd) ['\n'] _ (join_line_blank _) hncol gd.headNS gd.lastNS allSpace_nl
        (upsert_fresh _ _ _ _ hfresh (fDoc_good name p edd hn hp)))]
    simp only [expParam, ht, Bool.false_eq_true, if_false]
  | true =>
    simp only [Bool.and_eq_true] at ht
    obtain ⟨t, hto, _⟩ := truthy_some p.typ ht.2
    simp only [ht.1, ht.2, Bool.and_self, if_true, chunksOfBlock, List.cons_append, List.nil_append, hto, Option.getD_some]
    rw [foldChunks_cons_ok edd ir0 _ _ _
      (stepChunk_param ir0 _ edd name (docText p edd) [] _ (join_line _) hncol gd.headNS gd.lastNS allSpace_nil
        (upsert_fresh _ _ _ _ hfresh (fDoc_good name p edd hn hp)))]
    rw [foldChunks_cons_ok edd _ _ _ rest
      (stepChunk_type _ _ edd name t ['\n'] _ (join_line_blank _) hncol allSpace_nl
        (upsert_last _ _ _ _ _ hfresh (fTyp_good name p t edd hn hp hto)))]
    have htt : truthy (some t) = true := by rw [← hto]; exact ht.2
    simp only [expParam, ht.1, Bool.and_self, if_true, hto, htt]

theorem fold_params (ps : List (Str × Param)) (ir0 : IR) (et edd : Bool) (rest : List (List Str))
    (hn : ∀ np ∈ ps, GoodName np.1) (hp : ∀ np ∈ ps, GoodEntry np.2)
    (hnd : (ir0.params.map (·.1) ++ ps.map (·.1)).Nodup) :
    foldChunks edd ir0 ((ps.map (fun np => entryLines np.1 np.2 et edd)).flatMap chunksOfBlock ++ rest)
      = foldChunks edd { ir0 with params := ir0.params ++ ps.map (fun np => (np.1, expParam et edd np.2)) } rest := by
  induction ps generalizing ir0 with
  | nil => simp
  | cons np r ih =>
    have hfresh : np.1 ∉ ir0.params.map (·.1) := by
      intro hm
      have := (List.nodup_append.mp hnd).2.2 _ hm np.1 (by simp)
      exact this rfl
    simp only [List.map_cons, List.flatMap_cons, List.append_assoc]
    rw [fold_paramBlock ir0 np.1 np.2 et edd _ (hn np (by simp)) (hp np (by simp)) hfresh]
    rw [ih _ (fun x hx => hn x (by simp [hx])) (fun x hx => hp x (by simp [hx])) (by
      simp only [List.map_append, List.map_cons, List.map_nil, List.append_assoc, List.singleton_append]
      simpa using hnd)]
    simp

/-- **the return block** -/
theorem fold_retBlock (ir0 : IR) (rp : Param) (et edd : Bool) (hp : GoodEntry rp) (hr : ir0.returns = Option.none) :
    foldChunks edd ir0 (chunksOfBlock (retLines rp et edd)) = .ok { ir0 with returns := some (expRet et edd rp) } := by
  have gd := docText_good rp edd hp
  have hi := interp_good Option.none (docText rp edd) Option.none (dfltOf rp edd) edd
    (extract_docText' rp edd Option.none hp (fun v _ => compat_none v)) (dfltOf_good rp edd hp) (Or.inl rfl)
  unfold retLines
  cases ht : (et && truthy rp.typ) with
  | false =>
    simp only [Bool.false_eq_true, if_false, chunksOfBlock]
    rw [foldChunks_cons_ok edd ir0 _ _ []
      (stepChunk_return ir0 _ edd (docText rp edd) ['\n'] (dfltOf rp edd) (join_line_blank _) gd.headNS gd.lastNS allSpace_nl hr hi)]
    simp only [foldChunks, expRet, ht, Bool.false_eq_true, if_false]
  | true =>
    simp only [Bool.and_eq_true] at ht
    obtain ⟨t, hto, _⟩ := truthy_some rp.typ ht.2
    have gt := hp.typ t hto
    simp only [ht.1, ht.2, Bool.and_self, if_true, chunksOfBlock, hto, Option.getD_some]
    rw [foldChunks_cons_ok edd ir0 _ _ _
      (stepChunk_return ir0 _ edd (docText rp edd) [] (dfltOf rp edd) (join_line _) gd.headNS gd.lastNS allSpace_nil hr hi)]
    rw [foldChunks_cons_ok edd _ _ _ []
      (stepChunk_rtype _ _ edd t ['\n'] _ (join_line_blank _) allSpace_nl (fun h => (gt.chars _ h).2.1 rfl) rfl)]
    have htt : truthy (some t) = true := by rw [← hto]; exact ht.2
    simp only [foldChunks, expRet, ht.1, Bool.and_self, if_true, hto, htt]

theorem mapVals_final (ps : List (Str × Param)) (et edd : Bool) (hp : ∀ np ∈ ps, GoodEntry np.2) :
    mapVals (fun p => interpolateDefaults p edd) (ps.map (fun np => (np.1, expParam et edd np.2)))
      = .ok (ps.map (fun np => (np.1, expParam et edd np.2))) := by
  induction ps with
  | nil => rfl
  | cons np r ih =>
    simp only [List.map_cons, mapVals, final_param et edd np.2 (hp np (by simp)), ih (fun x hx => hp x (by simp [hx]))]


/-! ### the whole parser on the emitted text -/

theorem entryLines_entry (name : Str) (p : Param) (et edd : Bool) (hn : GoodName name) (hp : GoodEntry p) :
    ∀ l ∈ entryLines name p et edd, EntryLine l := by
  have hncol : ':' ∉ name := fun h => (hn.chars _ h).1 rfl
  have hdcol : NoTok (docText p edd) := (docText_good p edd hp).noTok
  intro l hl
  unfold entryLines at hl
  simp only [List.mem_cons] at hl
  rcases hl with rfl | hl
  · exact paramLine_entry name _ hncol hdcol
  · split at hl
    · rename_i ht
      simp only [Bool.and_eq_true] at ht
      obtain ⟨t, hto, _⟩ := truthy_some p.typ ht.2
      simp only [List.mem_singleton] at hl
      subst hl
      rw [hto]
      exact typeLine_entry name t hncol (fun h => ((hp.typ t hto).chars _ h).1 rfl)
    · cases hl

theorem retLines_entry (p : Param) (et edd : Bool) (hp : GoodEntry p) :
    ∀ l ∈ retLines p et edd, EntryLine l := by
  have hdcol : NoTok (docText p edd) := (docText_good p edd hp).noTok
  intro l hl
  unfold retLines at hl
  simp only [List.mem_cons] at hl
  rcases hl with rfl | hl
  · exact returnLine_entry _ hdcol
  · split at hl
    · rename_i ht
      simp only [Bool.and_eq_true] at ht
      obtain ⟨t, hto, _⟩ := truthy_some p.typ ht.2
      simp only [List.mem_singleton] at hl
      subst hl
      rw [hto]
      exact rtypeLine_entry t (fun h => ((hp.typ t hto).chars _ h).1 rfl)
    · cases hl

theorem allBlocks_entry (ir : IR) (et edd : Bool) (g : GoodIR ir) :
    ∀ b ∈ allBlocks ir et edd, b ≠ [] ∧ ∀ l ∈ b, EntryLine l := by
  intro b hb
  unfold allBlocks at hb
  rcases List.mem_append.mp hb with hb | hb
  · obtain ⟨np, hnp, rfl⟩ := List.mem_map.mp hb
    exact ⟨by simp [entryLines], entryLines_entry np.1 np.2 et edd (g.names np hnp) (g.entries np hnp)⟩
  · unfold retBlocks at hb
    cases hr : ir.returns with
    | none => rw [hr] at hb; cases hb
    | some rp =>
      rw [hr] at hb
      simp only [List.mem_singleton] at hb
      subst hb
      exact ⟨by simp [retLines], retLines_entry rp et edd (g.ret rp hr)⟩

/-- the interface the theorems predict -/
def expIR (ir : IR) (et edd : Bool) : IR :=
  { doc := ir.doc,
    params := ir.params.map (fun np => (np.1, expParam et edd np.2)),
    returns := ir.returns.map (expRet et edd) }

/-- **parse ∘ emit on the domain** -/
theorem parse_emitted (ir : IR) (et ww edd : Bool) (s : Str) (g : GoodIR ir) (he : emit ir .rest et ww edd = .ok s) :
    parseRest s edd = .ok (expIR ir et edd) := by
  obtain ⟨hdr, hlines, hcol, hstrip⟩ := emit_lines ir et ww edd s g he
  have hblocks := allBlocks_entry ir et edd g
  -- every line passes the tests
  have hline : ∀ l ∈ split1 s '\n', NoTok l ∨ EntryLine l := by
    intro l hl
    rw [hlines] at hl
    rcases List.mem_append.mp hl with hl | hl
    · exact Or.inl (hcol l hl)
    · obtain ⟨b, hb, hlb⟩ := List.mem_flatMap.mp hl
      rcases List.mem_append.mp hlb with h | h
      · exact Or.inr ((hblocks b hb).2 l h)
      · simp only [List.mem_singleton] at h; subst h; left; exact noTok_nil
  have hc1 : (split1 s '\n').any (fun l => allRestTokens.any (fun t => contains (l.drop 1) t)) = false := by
    apply any_false_of
    intro l hl
    rcases hline l hl with h | h
    · exact (noTok_checks l h).2.1
    · exact h.c1
  have hc2 : (split1 s '\n').any (fun l => [":raises".toList, ":cvar".toList, ":ivar".toList, ":var".toList].any (fun t => startsWith l t)) = false := by
    apply any_false_of
    intro l hl
    rcases hline l hl with h | h
    · exact (noTok_checks l h).2.2
    · exact h.c2
  have hgroup : groupLines (split1 s '\n') Option.none [] [] = (hdr, (allBlocks ir et edd).flatMap chunksOfBlock) := by
    rw [hlines]
    exact groupLines_emitted hdr _ (fun l hl => (noTok_checks l (hcol l hl)).1)
      (fun b hb => ⟨(hblocks b hb).1, fun l hl => ((hblocks b hb).2 l hl).tok⟩)
  -- the fold
  have hfold : foldChunks edd { doc := ir.doc } ((allBlocks ir et edd).flatMap chunksOfBlock)
      = .ok { doc := ir.doc, params := ir.params.map (fun np => (np.1, expParam et edd np.2)), returns := ir.returns.map (expRet et edd) } := by
    unfold allBlocks
    rw [List.flatMap_append, fold_params ir.params { doc := ir.doc } et edd _ g.names g.entries (by simpa using g.nodup)]
    unfold retBlocks
    cases hr : ir.returns with
    | none => simp [foldChunks]
    | some rp =>
      simp only [List.flatMap_cons, List.flatMap_nil, List.append_nil, List.nil_append, Option.map_some]
      rw [fold_retBlock _ rp et edd (g.ret rp hr) rfl]
  unfold parseRest
  simp only [hc1, hc2, Bool.false_eq_true, if_false, hgroup, hstrip, hfold, mapVals_final ir.params et edd g.entries]
  unfold expIR
  cases hr : ir.returns with
  | none => rfl
  | some rp =>
    simp only [Option.map_some, final_ret et edd rp (g.ret rp hr)]

end DocRT
