import CddVerif.Proofs.DocRoundTripVal
/-!
# Whole-docstring round trip (C01) — parser side, line level

`find` of single characters, the backtick removal, what `stepChunk` does on each of the four kinds of emitted lines,
the token tests on lines, and `groupLines` on the emitted line structure.
-/
namespace DocRT
open Py Doc DocSplit DocUtils

/-! ### `find` of one character -/
theorem findFrom_char (c : Char) (pre post : Str) (k : Nat) (h : c ∉ pre) :
    findFrom [c] (pre ++ c :: post) k = some (k + pre.length) := by
  induction pre generalizing k with
  | nil => simp [findFrom, List.isPrefixOf]
  | cons x xs ih =>
    have hx : (c == x) = false := by
      cases hb : (c == x) with
      | false => rfl
      | true => exact absurd (by simp [beq_iff_eq.mp hb]) h
    simp only [List.cons_append, findFrom, List.isPrefixOf, hx, Bool.false_and, Bool.false_eq_true, if_false]
    rw [ih (k + 1) (fun e => h (by simp [e]))]
    simp only [List.length_cons]; congr 1; omega

theorem find_char (c : Char) (pre post : Str) (h : c ∉ pre) : find (pre ++ c :: post) [c] = some pre.length := by
  unfold find; rw [findFrom_char c pre post 0 h]; simp

theorem findAt_char (c : Char) (a pre post : Str) (h : c ∉ pre) :
    findAt (a ++ pre ++ c :: post) [c] a.length = some (a.length + pre.length) := by
  unfold findAt
  have : ¬ (a.length > (a ++ pre ++ c :: post).length) := by simp only [List.length_append]; omega
  simp only [this, if_false]
  rw [List.append_assoc, List.drop_left]
  exact findFrom_char c pre post a.length h

/-! ### removing the backticks around a type -/
theorem splitOnAux_skip (c0 : Char) (sep' t rest acc : Str) (fuel : Nat) (h : c0 ∉ t) :
    splitOnAux (c0 :: sep') (fuel + t.length) (t ++ rest) acc = splitOnAux (c0 :: sep') fuel rest (t.reverse ++ acc) := by
  induction t generalizing acc with
  | nil => rfl
  | cons x xs ih =>
    have hx : (c0 == x) = false := by
      cases hb : (c0 == x) with
      | false => rfl
      | true => exact absurd (by simp [beq_iff_eq.mp hb]) h
    have e : fuel + (x :: xs).length = (fuel + xs.length) + 1 := by simp only [List.length_cons]; omega
    rw [e]
    simp only [List.cons_append, splitOnAux, List.isPrefixOf, hx, Bool.false_and, Bool.false_eq_true, if_false]
    rw [ih (x :: acc) (fun e => h (by simp [e]))]
    simp

theorem stripBackticks3_good (t : Str) (h : '`' ∉ t) : stripBackticks3 (bt3 ++ t ++ bt3) = t := by
  unfold stripBackticks3 replace splitOn
  have e1 : (bt3 ++ t ++ bt3).length + 1 = (6 + t.length) + 1 := by simp [bt3]; omega
  rw [e1]
  have e2 : bt3 ++ t ++ bt3 = '`' :: '`' :: '`' :: (t ++ bt3) := by simp [bt3]
  rw [e2]
  have e3 : splitOnAux bt3 (6 + t.length + 1) ('`' :: '`' :: '`' :: (t ++ bt3)) [] = [] :: splitOnAux bt3 (6 + t.length) (t ++ bt3) [] := by
    simp [splitOnAux, bt3, List.isPrefixOf]
  rw [e3]
  have e4 := splitOnAux_skip '`' ['`', '`'] t bt3 [] 6 h
  have e5 : ('`' :: ['`', '`']) = bt3 := rfl
  rw [e5] at e4
  rw [e4]
  have e6 : splitOnAux bt3 6 bt3 (t.reverse ++ []) = [t, []] := by
    simp [splitOnAux, bt3, List.isPrefixOf]
  rw [e6]
  simp [join]


/-! ### one chunk -/

def fDoc (name val : Str) (edd : Bool) (p : Param) : Out Param :=
  match interpolateDefaults { p with doc := some val } edd with
  | .outside w => .outside w
  | .ok p => setNameAndType name p

def fTyp (name val : Str) (edd : Bool) (p : Param) : Out Param :=
  match interpolateDefaults { p with typ := some (stripBackticks3 val) } edd with
  | .outside w => .outside w
  | .ok p => setNameAndType name p

theorem lit_creturn : ":return".toList = [':','r','e','t','u','r','n'] := by decide
theorem lit_crtype : ":rtype".toList = [':','r','t','y','p','e'] := by decide
theorem lit_ctype : ":type".toList = [':','t','y','p','e'] := by decide
theorem lit_cparam : ":param".toList = [':','p','a','r','a','m'] := by decide

theorem stepChunk_param (ir : IR) (ch : List Str) (edd : Bool) (name doc tail : Str) (ps' : List (Str × Param))
    (hline : join ['\n'] ch = paramLine name doc ++ tail) (hn : ':' ∉ name) (hh : HeadNS doc) (hl : LastNS doc) (ht : AllSpace tail)
    (hu : upsert ir.params name (fDoc name doc edd) = .ok ps') :
    stepChunk ir ch edd = .ok { ir with params := ps' } := by
  unfold stepChunk
  simp only [hline]
  have h1 : startsWith (paramLine name doc ++ tail) ":return".toList = false := by
    simp [lit_creturn, paramLine, pfxParam, startsWith, List.isPrefixOf]
  have h2 : startsWith (paramLine name doc ++ tail) ":rtype".toList = false := by
    simp [lit_crtype, paramLine, pfxParam, startsWith, List.isPrefixOf]
  have h3 : startsWith (paramLine name doc ++ tail) ":type".toList = false := by
    simp [lit_ctype, paramLine, pfxParam, startsWith, List.isPrefixOf]
  simp only [h1, h2, h3, Bool.or_self, Bool.false_eq_true, if_false]
  have e : paramLine name doc ++ tail = [':','p','a','r','a','m'] ++ (' ' :: name) ++ ':' :: (' ' :: (doc ++ tail)) := by
    simp [paramLine, pfxParam]
  have hfs : find (paramLine name doc ++ tail) [' '] = some 6 := by
    have e' : paramLine name doc ++ tail = [':','p','a','r','a','m'] ++ ' ' :: (name ++ ':' :: ' ' :: (doc ++ tail)) := by
      simp [paramLine, pfxParam]
    rw [e', find_char ' ' _ _ (by decide)]; rfl
  have hnc : findAt (paramLine name doc ++ tail) [':'] 6 = some (7 + name.length) := by
    rw [e]
    have := findAt_char ':' [':','p','a','r','a','m'] (' ' :: name) (' ' :: (doc ++ tail)) (by
      intro hm; simp only [List.mem_cons] at hm
      rcases hm with hm | hm
      · revert hm; decide
      · exact hn hm)
    rw [show ([':','p','a','r','a','m'] : Str).length = 6 from rfl] at this
    rw [this]; simp only [List.length_cons]; congr 1; omega
  have hname : List.drop (6 + 1) (List.take (7 + name.length) (paramLine name doc ++ tail)) = name := by
    have e' : paramLine name doc ++ tail = (pfxParam ++ name) ++ (':' :: ' ' :: (doc ++ tail)) := by simp [paramLine]
    rw [e', List.take_left' (by simp [pfxParam]; omega)]
    exact List.drop_left' (by simp [pfxParam])
  have hval : strip (List.drop (7 + name.length + 1) (paramLine name doc ++ tail)) = doc := by
    have e' : paramLine name doc ++ tail = (pfxParam ++ name ++ [':']) ++ ([' '] ++ doc ++ tail) := by simp [paramLine]
    rw [e', List.drop_left' (by simp [pfxParam]; omega)]
    exact strip_core [' '] doc tail allSpace_sp ht hh hl
  simp only [hfs, Option.getD_some, hnc, hname, hval]
  show (match upsert ir.params name (fDoc name doc edd) with
    | Out.outside w => Out.outside w
    | Out.ok ps => Out.ok ({ doc := ir.doc, params := ps, returns := ir.returns } : IR)) = _
  rw [hu]


theorem headNS_bt3 (x : Str) : HeadNS (bt3 ++ x) := by
  intro c hc; simp [bt3] at hc; subst hc; decide

theorem stepChunk_type (ir : IR) (ch : List Str) (edd : Bool) (name t tail : Str) (ps' : List (Str × Param))
    (hline : join ['\n'] ch = typeLine name t ++ tail) (hn : ':' ∉ name) (ht : AllSpace tail)
    (hu : upsert ir.params name (fTyp name (bt3 ++ t ++ bt3) edd) = .ok ps') :
    stepChunk ir ch edd = .ok { ir with params := ps' } := by
  unfold stepChunk
  simp only [hline]
  have h1 : startsWith (typeLine name t ++ tail) ":return".toList = false := by
    simp [lit_creturn, typeLine, pfxType, startsWith, List.isPrefixOf]
  have h2 : startsWith (typeLine name t ++ tail) ":rtype".toList = false := by
    simp [lit_crtype, typeLine, pfxType, startsWith, List.isPrefixOf]
  have h3 : startsWith (typeLine name t ++ tail) ":type".toList = true := by
    simp [lit_ctype, typeLine, pfxType, startsWith, List.isPrefixOf]
  simp only [h1, h2, h3, Bool.or_self, Bool.false_eq_true, if_false, if_true]
  have e : typeLine name t ++ tail = [':','t','y','p','e'] ++ (' ' :: name) ++ ':' :: (' ' :: (bt3 ++ t ++ bt3 ++ tail)) := by
    simp [typeLine, pfxType]
  have hfs : find (typeLine name t ++ tail) [' '] = some 5 := by
    have e' : typeLine name t ++ tail = [':','t','y','p','e'] ++ ' ' :: (name ++ ':' :: ' ' :: (bt3 ++ t ++ bt3 ++ tail)) := by
      simp [typeLine, pfxType]
    rw [e', find_char ' ' _ _ (by decide)]; rfl
  have hnc : findAt (typeLine name t ++ tail) [':'] 5 = some (6 + name.length) := by
    rw [e]
    have := findAt_char ':' [':','t','y','p','e'] (' ' :: name) (' ' :: (bt3 ++ t ++ bt3 ++ tail)) (by
      intro hm; simp only [List.mem_cons] at hm
      rcases hm with hm | hm
      · revert hm; decide
      · exact hn hm)
    rw [show ([':','t','y','p','e'] : Str).length = 5 from rfl] at this
    rw [this]; simp only [List.length_cons]; congr 1; omega
  have hname : List.drop (5 + 1) (List.take (6 + name.length) (typeLine name t ++ tail)) = name := by
    have e' : typeLine name t ++ tail = (pfxType ++ name) ++ (':' :: ' ' :: (bt3 ++ t ++ bt3 ++ tail)) := by simp [typeLine]
    rw [e', List.take_left' (by simp [pfxType]; omega)]
    exact List.drop_left' (by simp [pfxType])
  have hval : strip (List.drop (6 + name.length + 1) (typeLine name t ++ tail)) = bt3 ++ t ++ bt3 := by
    have e' : typeLine name t ++ tail = (pfxType ++ name ++ [':']) ++ ([' '] ++ (bt3 ++ t ++ bt3) ++ tail) := by simp [typeLine]
    rw [e', List.drop_left' (by simp [pfxType]; omega)]
    exact strip_core [' '] _ tail allSpace_sp ht (by rw [List.append_assoc]; exact headNS_bt3 _) (lastNS_append _ bt3 (by decide) lastNS_bt3)
  simp only [hfs, Option.getD_some, hnc, hname, hval]
  show (match upsert ir.params name (fTyp name (bt3 ++ t ++ bt3) edd) with
    | Out.outside w => Out.outside w
    | Out.ok ps => Out.ok ({ doc := ir.doc, params := ps, returns := ir.returns } : IR)) = _
  rw [hu]

theorem stepChunk_return (ir : IR) (ch : List Str) (edd : Bool) (doc tail : Str) (dflt : Option Default)
    (hline : join ['\n'] ch = returnLine doc ++ tail) (hh : HeadNS doc) (hl : LastNS doc) (ht : AllSpace tail)
    (hr : ir.returns = Option.none)
    (hi : interpolateDefaults { doc := some doc } edd = .ok { doc := some doc, default := dflt }) :
    stepChunk ir ch edd = .ok { ir with returns := some { doc := some doc, default := dflt } } := by
  unfold stepChunk
  simp only [hline]
  have h1 : startsWith (returnLine doc ++ tail) ":return".toList = true := by
    simp [lit_creturn, returnLine, pfxReturn, startsWith, List.isPrefixOf]
  have h2 : startsWith (returnLine doc ++ tail) ":rtype".toList = false := by
    simp [lit_crtype, returnLine, pfxReturn, startsWith, List.isPrefixOf]
  simp only [h1, h2, Bool.true_or, if_true, Bool.false_eq_true, if_false]
  have hnx : findAt (returnLine doc ++ tail) [':'] 1 = some 7 := by
    have e : returnLine doc ++ tail = [':'] ++ ['r','e','t','u','r','n'] ++ ':' :: (' ' :: (doc ++ tail)) := by
      simp [returnLine, pfxReturn]
    rw [e]
    have := findAt_char ':' [':'] ['r','e','t','u','r','n'] (' ' :: (doc ++ tail)) (by decide)
    exact this
  have hval : strip (List.drop (7 + 1) (returnLine doc ++ tail)) = doc := by
    have e' : returnLine doc ++ tail = (pfxReturn ++ [':']) ++ ([' '] ++ doc ++ tail) := by simp [returnLine]
    rw [e', List.drop_left' (by simp [pfxReturn])]
    exact strip_core [' '] doc tail allSpace_sp ht hh hl
  simp only [hnx, Option.getD_some, hval, hi, hr, Option.getD_none]
  cases dflt <;> rfl

theorem stepChunk_rtype (ir : IR) (ch : List Str) (edd : Bool) (t tail : Str) (cur : Param)
    (hline : join ['\n'] ch = rtypeLine t ++ tail) (ht : AllSpace tail) (hbt : '`' ∉ t)
    (hr : ir.returns = some cur) :
    stepChunk ir ch edd = .ok { ir with returns := some { cur with typ := some t } } := by
  unfold stepChunk
  simp only [hline]
  have h1 : startsWith (rtypeLine t ++ tail) ":return".toList = false := by
    simp [lit_creturn, rtypeLine, pfxRtype, startsWith, List.isPrefixOf]
  have h2 : startsWith (rtypeLine t ++ tail) ":rtype".toList = true := by
    simp [lit_crtype, rtypeLine, pfxRtype, startsWith, List.isPrefixOf]
  simp only [h1, h2, Bool.or_true, if_true, Bool.false_eq_true, if_false]
  have hnx : findAt (rtypeLine t ++ tail) [':'] 1 = some 6 := by
    have e : rtypeLine t ++ tail = [':'] ++ ['r','t','y','p','e'] ++ ':' :: (' ' :: (bt3 ++ t ++ bt3 ++ tail)) := by
      simp [rtypeLine, pfxRtype]
    rw [e]
    have := findAt_char ':' [':'] ['r','t','y','p','e'] (' ' :: (bt3 ++ t ++ bt3 ++ tail)) (by decide)
    exact this
  have hval : strip (List.drop (6 + 1) (rtypeLine t ++ tail)) = bt3 ++ t ++ bt3 := by
    have e' : rtypeLine t ++ tail = (pfxRtype ++ [':']) ++ ([' '] ++ (bt3 ++ t ++ bt3) ++ tail) := by simp [rtypeLine]
    rw [e', List.drop_left' (by simp [pfxRtype])]
    exact strip_core [' '] _ tail allSpace_sp ht (by rw [List.append_assoc]; exact headNS_bt3 _) (lastNS_append _ bt3 (by decide) lastNS_bt3)
  have hi : interpolateDefaults { typ := some t } edd = .ok { typ := some t } := by
    unfold interpolateDefaults; rfl
  simp only [hnx, Option.getD_some, hval, stripBackticks3_good t hbt, hi, hr]

/-! ### the token tests of `parseRest` on the emitted lines -/

def isTok (l : Str) : Bool := Doc.restTokens.any (fun t => startsWith l t)
def check1 (l : Str) : Bool := allRestTokens.any (fun t => contains (l.drop 1) t)
def check2 (l : Str) : Bool := [":raises".toList, ":cvar".toList, ":ivar".toList, ":var".toList].any (fun t => startsWith l t)

theorem noTok_startsWith (l t : Str) (h : NoTok l) (ht : t ∈ allRestTokens) : startsWith l t = false := by
  cases hs : startsWith l t with
  | false => rfl
  | true => have := contains_of_startsWith l t hs; rw [h t ht] at this; cases this

/-- token-free lines pass all three tests -/
theorem noTok_checks (l : Str) (h : NoTok l) : isTok l = false ∧ check1 l = false ∧ check2 l = false := by
  have hm : ∀ t, t ∈ ([[':','p','a','r','a','m'], [':','c','v','a','r'], [':','i','v','a','r'], [':','v','a','r'],
      [':','t','y','p','e'], [':','r','a','i','s','e','s'], [':','r','e','t','u','r','n'], [':','r','t','y','p','e']] : List Str) →
      startsWith l t = false := by
    intro t ht; exact noTok_startsWith l t h (by rw [allRestTokens_eq]; exact ht)
  have a1 := hm [':','p','a','r','a','m'] (by simp)
  have a2 := hm [':','t','y','p','e'] (by simp)
  have a3 := hm [':','r','e','t','u','r','n'] (by simp)
  have a4 := hm [':','r','t','y','p','e'] (by simp)
  have a5 := hm [':','r','a','i','s','e','s'] (by simp)
  have a6 := hm [':','c','v','a','r'] (by simp)
  have a7 := hm [':','i','v','a','r'] (by simp)
  have a8 := hm [':','v','a','r'] (by simp)
  refine ⟨?_, ?_, ?_⟩
  · unfold isTok; rw [restTokens_eq]
    simp only [List.any_cons, List.any_nil, a1, a2, a3, a4, Bool.or_self]
  · unfold check1
    apply any_false_of
    intro t ht
    cases hc : contains (l.drop 1) t with
    | false => rfl
    | true => have := contains_of_drop1 l t hc; rw [h t ht] at this; cases this
  · unfold check2; rw [otherTokens_eq]
    simp only [List.any_cons, List.any_nil, a5, a6, a7, a8, Bool.or_self]

theorem notok_line (a b : Str) (ha : ':' ∉ a) (x : Char) (r : Str) (hx : x ≠ ' ')
    (hb : contains b (':' :: x :: r) = false) : contains (a ++ ':' :: ' ' :: b) (':' :: x :: r) = false := by
  induction a with
  | nil =>
    have hxs : (x == ' ') = false := by simpa using hx
    simp only [List.nil_append, contains, List.isPrefixOf, hxs, Bool.false_and, Bool.and_false, Bool.false_or]
    have : (':' == ' ') = false := by decide
    simp only [this, Bool.false_and, Bool.false_or]
    exact hb
  | cons c cs ih =>
    have hc : (':' == c) = false := by
      cases hb' : (':' == c) with
      | false => rfl
      | true => exact absurd (by simp [← beq_iff_eq.mp hb']) ha
    simp only [List.cons_append, contains, List.isPrefixOf, hc, Bool.false_and, Bool.false_or]
    exact ih (fun e => ha (by simp [e]))

/-- what the parser needs to know about an entry line -/
structure EntryLine (l : Str) : Prop where
  tok : isTok l = true
  c1 : check1 l = false
  c2 : check2 l = false

theorem entryLine_of (l a b : Str) (hl : l.drop 1 = a ++ ':' :: ' ' :: b) (ha : ':' ∉ a) (hb : NoTok b)
    (htok : isTok l = true) (hc2 : check2 l = false) : EntryLine l := by
  refine ⟨htok, ?_, hc2⟩
  unfold check1
  apply any_false_of
  intro t ht
  have hbt := hb t ht
  obtain ⟨x, r, rfl, hx, _⟩ := allTok_shape t ht
  rw [hl]; exact notok_line a b ha x r hx hbt

theorem notin_append {c : Char} {a b : Str} (ha : c ∉ a) (hb : c ∉ b) : c ∉ a ++ b := by
  intro h; rcases List.mem_append.mp h with h | h
  · exact ha h
  · exact hb h

theorem paramLine_entry (name doc : Str) (hn : ':' ∉ name) (hd : NoTok doc) : EntryLine (paramLine name doc) := by
  apply entryLine_of _ (['p','a','r','a','m',' '] ++ name) doc (by simp [paramLine, pfxParam]) (notin_append (by decide) hn) hd
  · unfold isTok; rw [restTokens_eq]; simp [paramLine, pfxParam, startsWith, List.isPrefixOf]
  · unfold check2; rw [otherTokens_eq]; simp [paramLine, pfxParam, startsWith, List.isPrefixOf]

theorem typeLine_entry (name t : Str) (hn : ':' ∉ name) (ht : ':' ∉ t) : EntryLine (typeLine name t) := by
  apply entryLine_of _ (['t','y','p','e',' '] ++ name) (bt3 ++ t ++ bt3) (by simp [typeLine, pfxType]) (notin_append (by decide) hn)
    (noTok_of_noColon _ (notin_append (notin_append (by decide) ht) (by decide)))
  · unfold isTok; rw [restTokens_eq]; simp [typeLine, pfxType, startsWith, List.isPrefixOf]
  · unfold check2; rw [otherTokens_eq]; simp [typeLine, pfxType, startsWith, List.isPrefixOf]

theorem returnLine_entry (doc : Str) (hd : NoTok doc) : EntryLine (returnLine doc) := by
  apply entryLine_of _ ['r','e','t','u','r','n'] doc (by simp [returnLine, pfxReturn]) (by decide) hd
  · unfold isTok; rw [restTokens_eq]; simp [returnLine, pfxReturn, startsWith, List.isPrefixOf]
  · unfold check2; rw [otherTokens_eq]; simp [returnLine, pfxReturn, startsWith, List.isPrefixOf]

theorem rtypeLine_entry (t : Str) (ht : ':' ∉ t) : EntryLine (rtypeLine t) := by
  apply entryLine_of _ ['r','t','y','p','e'] (bt3 ++ t ++ bt3) (by simp [rtypeLine, pfxRtype]) (by decide)
    (noTok_of_noColon _ (notin_append (notin_append (by decide) ht) (by decide)))
  · unfold isTok; rw [restTokens_eq]; simp [rtypeLine, pfxRtype, startsWith, List.isPrefixOf]
  · unfold check2; rw [otherTokens_eq]; simp [rtypeLine, pfxRtype, startsWith, List.isPrefixOf]

/-! ### grouping the lines -/

def closeCur (cur : Option (List Str)) (chunks : List (List Str)) : List (List Str) :=
  match cur with
  | some c => c.reverse :: chunks
  | Option.none => chunks

theorem groupLines_nil (cur : Option (List Str)) (H : List Str) (C : List (List Str)) :
    groupLines [] cur H C = (H.reverse, (closeCur cur C).reverse) := by
  cases cur <;> rfl

theorem groupLines_tok (l : Str) (ls : List Str) (cur : Option (List Str)) (H : List Str) (C : List (List Str))
    (h : isTok l = true) : groupLines (l :: ls) cur H C = groupLines ls (some [l]) H (closeCur cur C) := by
  unfold isTok at h
  cases cur <;> simp [groupLines, h, closeCur]

theorem groupLines_cont (l : Str) (ls : List Str) (c : List Str) (H : List Str) (C : List (List Str))
    (h : isTok l = false) : groupLines (l :: ls) (some c) H C = groupLines ls (some (l :: c)) H C := by
  unfold isTok at h
  simp [groupLines, h]

theorem groupLines_hdr (hdr rest : List Str) (H : List Str) (C : List (List Str)) (h : ∀ l ∈ hdr, isTok l = false) :
    groupLines (hdr ++ rest) Option.none H C = groupLines rest Option.none (hdr.reverse ++ H) C := by
  induction hdr generalizing H with
  | nil => rfl
  | cons l r ih =>
    have hl := h l (by simp)
    unfold isTok at hl
    simp only [List.cons_append, groupLines, hl, Bool.false_eq_true, if_false]
    rw [ih (l :: H) (fun x hx => h x (by simp [hx]))]
    simp

/-- the chunks of one block of token lines followed by a blank line -/
def chunksOfBlock : List Str → List (List Str)
  | [] => []
  | [l] => [[l, []]]
  | l :: r => [l] :: chunksOfBlock r

theorem isTok_nil : isTok [] = false := by decide

theorem groupLines_block (b tail : List Str) (cur : Option (List Str)) (H : List Str) (C : List (List Str))
    (hne : b ≠ []) (h : ∀ l ∈ b, isTok l = true) :
    ∃ c' C', groupLines (b ++ [] :: tail) cur H C = groupLines tail (some c') H C'
      ∧ (closeCur (some c') C').reverse = (closeCur cur C).reverse ++ chunksOfBlock b := by
  induction b generalizing cur C with
  | nil => exact absurd rfl hne
  | cons l r ih =>
    cases r with
    | nil =>
      refine ⟨[[], l], closeCur cur C, ?_, ?_⟩
      · simp only [List.cons_append, List.nil_append]
        rw [groupLines_tok l _ cur H C (h l (by simp)), groupLines_cont [] _ _ H _ isTok_nil]
      · simp [closeCur, chunksOfBlock]
    | cons l2 r' =>
      obtain ⟨c', C', h1, h2⟩ := ih (some [l]) (closeCur cur C) (by simp) (fun x hx => h x (by simp [hx]))
      refine ⟨c', C', ?_, ?_⟩
      · rw [List.cons_append, groupLines_tok l _ cur H C (h l (by simp))]
        exact h1
      · rw [h2]; simp [closeCur, chunksOfBlock]

theorem groupLines_blocks (bs : List (List Str)) (cur : Option (List Str)) (H : List Str) (C : List (List Str))
    (h : ∀ b ∈ bs, b ≠ [] ∧ ∀ l ∈ b, isTok l = true) :
    groupLines (bs.flatMap (· ++ [[]])) cur H C = (H.reverse, (closeCur cur C).reverse ++ bs.flatMap chunksOfBlock) := by
  induction bs generalizing cur C with
  | nil => simp [groupLines_nil]
  | cons b r ih =>
    obtain ⟨c', C', h1, h2⟩ := groupLines_block b (r.flatMap (· ++ [[]])) cur H C (h b (by simp)).1 (h b (by simp)).2
    simp only [List.flatMap_cons, List.append_assoc, List.singleton_append]
    rw [h1, ih (some c') C' (fun x hx => h x (by simp [hx])), h2]
    simp

/-- **the parser's grouping of the emitted lines** -/
theorem groupLines_emitted (hdr : List Str) (bs : List (List Str)) (hh : ∀ l ∈ hdr, isTok l = false)
    (h : ∀ b ∈ bs, b ≠ [] ∧ ∀ l ∈ b, isTok l = true) :
    groupLines (hdr ++ bs.flatMap (· ++ [[]])) Option.none [] [] = (hdr, bs.flatMap chunksOfBlock) := by
  rw [groupLines_hdr hdr _ [] [] hh, groupLines_blocks bs Option.none _ [] h]
  simp [closeCur]

end DocRT
