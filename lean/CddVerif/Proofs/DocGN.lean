import CddVerif.Model.DocGN
/-! Lemmas for C14 (Google / NumPy docstring parser model): the insertion discipline of `OrderedDict(pairs)`,
    the name returned by `_set_name_and_type`, and the invariant of the parameter pipeline. -/
namespace DocGN
open Py Doc

def keys (ps : List (Str × GParam)) : List Str := ps.map (·.1)

/-- pairwise distinct names, none with a leading asterisk -/
def WFkeys (ps : List (Str × GParam)) : Prop :=
  (keys ps).Nodup ∧ ∀ k ∈ keys ps, startsWith k ['*'] = false

/-! ### `OrderedDict(pairs)` -/

/-- inserting keeps the keys (and their order) when the key exists and appends it otherwise -/
theorem dictInsert_keys (ps : List (Str × GParam)) (k : Str) (v : GParam) :
    keys (dictInsert ps k v) = if k ∈ keys ps then keys ps else keys ps ++ [k] := by
  induction ps with
  | nil => simp [dictInsert, keys]
  | cons kp rest ih =>
    obtain ⟨k', v'⟩ := kp
    simp only [dictInsert]
    split
    · rename_i h
      have hk : k' = k := by simpa using h
      subst hk
      simp [keys]
    · rename_i h
      have hne : ¬ k' = k := by simpa using h
      have hne' : ¬ k = k' := fun e => hne e.symm
      simp only [keys, List.map_cons, List.mem_cons] at ih ⊢
      rw [ih]
      by_cases hm : k ∈ List.map (·.1) rest
      · simp [hm]
      · simp [hm, hne']

theorem dictInsert_nodup (ps : List (Str × GParam)) (k : Str) (v : GParam) (hnd : (keys ps).Nodup) :
    (keys (dictInsert ps k v)).Nodup := by
  rw [dictInsert_keys]
  split
  · exact hnd
  · rename_i hm
    rw [List.nodup_append]
    refine ⟨hnd, by simp, ?_⟩
    intro a ha b hb
    simp only [List.mem_singleton] at hb
    subst hb
    exact fun e => hm (e ▸ ha)

/-- the value stored under `k` after inserting `(k, v)` is `v` (a repeated key takes the last value) -/
theorem dictInsert_lookup (ps : List (Str × GParam)) (k : Str) (v : GParam) :
    (dictInsert ps k v).find? (fun kv => kv.1 == k) = some ((match ps.find? (fun kv => kv.1 == k) with | some kv => kv.1 | none => k), v) := by
  induction ps with
  | nil => simp [dictInsert]
  | cons kp rest ih =>
    obtain ⟨k', v'⟩ := kp
    simp only [dictInsert]
    split
    · rename_i h
      simp [List.find?, h]
    · rename_i h
      have h' : (k' == k) = false := by simpa using h
      simp only [List.find?, h']
      exact ih

/-! ### the name returned by `_set_name_and_type` -/

theorem startsWith_star_cons (c : Char) (cs : Str) : startsWith (c :: cs) ['*'] = ('*' == c) := by
  simp [startsWith, List.isPrefixOf]

theorem lstripChars_star (n : Str) : startsWith (lstripChars n ['*']) ['*'] = false := by
  induction n with
  | nil => rfl
  | cons c cs ih =>
    unfold lstripChars at ih ⊢
    simp only [List.dropWhile]
    split
    · exact ih
    · rename_i h
      rw [startsWith_star_cons]
      cases hc : ('*' == c) with
      | false => rfl
      | true =>
        have : c = '*' := by simpa using (beq_iff_eq.mp hc).symm
        subst this
        simp at h

/-- **no leading asterisk**: whatever the documented name, the name `_set_name_and_type` returns does not start with `*` -/
theorem sntName_no_star (name : Str) : startsWith (sntName name) ['*'] = false := by
  unfold sntName
  split
  · exact lstripChars_star name
  · rename_i h1
    split
    · rename_i h2
      -- name = '*' :: rest and rest does not start with '*' (else the first branch had been taken)
      cases name with
      | nil => simp [startsWith] at h2
      | cons c cs =>
        simp only [List.drop_succ_cons, List.drop_zero]
        cases cs with
        | nil => rfl
        | cons d ds =>
          rw [startsWith_star_cons]
          cases hd : ('*' == d) with
          | false => rfl
          | true =>
            exfalso
            apply h1
            have hc : ('*' == c) = true := by rw [startsWith_star_cons] at h2; exact h2
            simp [startsWith, List.isPrefixOf, hc, hd]
    · rename_i h2
      cases h : startsWith name ['*'] with
      | false => rfl
      | true => exact absurd h h2

/-! ### the parameter pipeline -/

theorem WFkeys_nil : WFkeys [] := ⟨by simp [keys], by simp [keys]⟩

theorem WFkeys_insert (ps : List (Str × GParam)) (name : Str) (v : GParam) (h : WFkeys ps) :
    WFkeys (dictInsert ps (sntName name) v) := by
  refine ⟨dictInsert_nodup _ _ _ h.1, ?_⟩
  intro k hk
  rw [dictInsert_keys] at hk
  split at hk
  · exact h.2 k hk
  · rcases List.mem_append.mp hk with hk | hk
    · exact h.2 k hk
    · simp only [List.mem_singleton] at hk
      subst hk
      exact sntName_no_star name

/-- the invariant of `OrderedDict(map(_set_name_and_type, map(_interpolate…, …map(_parse, scanned_params))))` -/
theorem foldParams_wf (style : GNStyle) (edd : Bool) (scans : List (List Str)) (rd : Bool) (acc ps : List (Str × GParam)) (rd' : Bool)
    (hwf : WFkeys acc) (h : foldParams style edd scans rd acc = .ok (ps, rd')) : WFkeys ps := by
  induction scans generalizing rd acc with
  | nil =>
    unfold foldParams at h
    cases h
    exact hwf
  | cons scan rest ih =>
    unfold foldParams at h
    split at h
    · exact ih _ _ hwf h
    · cases h; exact hwf
    · cases h
    · cases h
    · split at h
      · cases h
      · cases h
      · split at h
        · cases h
        · cases h
        · exact ih _ _ (WFkeys_insert _ _ _ hwf) h

/-! ### the scanner never builds an empty unit -/

/-- every unit holds at least one line -/
def AllNE (st : List (List Str)) : Prop := ∀ e ∈ st, e ≠ []

theorem AllNE_nil : AllNE [] := by intro e he; cases he

theorem AllNE_append {a b : List (List Str)} (ha : AllNE a) (hb : AllNE b) : AllNE (a ++ b) := by
  intro e he
  rcases List.mem_append.mp he with h | h
  · exact ha e h
  · exact hb e h

theorem AllNE_take {a : List (List Str)} (n : Nat) (ha : AllNE a) : AllNE (a.take n) :=
  fun e he => ha e (List.mem_of_mem_take he)

theorem appendLast_ne (st : List (List Str)) (l : Str) (h : AllNE st) : AllNE (appendLast st l) := by
  induction st with
  | nil => simpa [appendLast] using h
  | cons x xs ih =>
    cases xs with
    | nil =>
      intro e he
      simp only [appendLast, List.mem_singleton] at he
      subst he
      simp
    | cons y ys =>
      intro e he
      simp only [appendLast, List.mem_cons] at he
      rcases he with he | he
      · subst he; exact h _ (by simp)
      · exact ih (fun e' he' => h e' (by simp [he'])) e (by simpa [List.mem_cons] using he)

theorem scanLines_ne (fi : Nat) (lines : List Str) (st : List (List Str)) (h : AllNE st) : AllNE (scanLines fi lines st).1 := by
  induction lines generalizing st with
  | nil => simpa [scanLines] using h
  | cons l rest ih =>
    unfold scanLines
    split
    · exact ih _ (AllNE_append h (by intro e he; simp at he; subst he; simp))
    · split
      · exact h
      · exact ih _ (appendLast_ne st l h)

theorem setNs_args_ne (isArg : Bool) (s : ScanSt) (v : List (List Str)) (hs : AllNE s.args) (hv : AllNE v) : AllNE (setNs isArg s v).args := by
  unfold setNs
  split
  · exact hv
  · exact hs

theorem atBreak_ne (style : GNStyle) (isArg : Bool) (st : List (List Str)) (rest : List Str) (h : AllNE st) :
    AllNE (atBreak style isArg st rest).args ∧ (atBreak style isArg st rest).stacker = [] := by
  have h0 : AllNE (setNs isArg {} st).args := setNs_args_ne isArg {} st AllNE_nil h
  have h1 : (setNs isArg {} st).stacker = [] := by unfold setNs; split <;> rfl
  unfold atBreak
  simp only
  split
  · exact ⟨h0, h1⟩
  · exact ⟨h0, h1⟩

theorem returnStep1_ne (style : GNStyle) (s : ScanSt) (ha : AllNE s.args) (hs : AllNE s.stacker) :
    AllNE (returnStep1 style s).args ∧ AllNE (returnStep1 style s).stacker := by
  unfold returnStep1
  split
  · exact ⟨ha, AllNE_take _ hs⟩
  · exact ⟨ha, hs⟩

theorem returnStep2_ne (style : GNStyle) (s s' : ScanSt) (h : returnStep2 style s = .ok s') : s'.args = s.args ∧ s'.stacker = s.stacker := by
  unfold returnStep2 at h
  split at h
  · split at h
    · cases h; exact ⟨rfl, rfl⟩
    · split at h
      · cases h
      · cases h; exact ⟨rfl, rfl⟩
  · cases h; exact ⟨rfl, rfl⟩

theorem returnPhase_ne (style : GNStyle) (s s' : ScanSt) (h : returnPhase style s = .ok s') (ha : AllNE s.args) (hs : AllNE s.stacker) :
    AllNE s'.args ∧ AllNE s'.stacker := by
  unfold returnPhase at h
  obtain ⟨e1, e2⟩ := returnStep2_ne style _ s' h
  rw [e1, e2]
  exact returnStep1_ne style s ha hs

theorem afterLoop_ne (style : GNStyle) (isArg : Bool) (lines : List Str) :
    AllNE (afterLoop style isArg lines).1.args ∧ AllNE (afterLoop style isArg lines).1.stacker := by
  unfold afterLoop
  generalize hsl : scanLines _ lines [] = sl
  have hst : AllNE sl.1 := by rw [← hsl]; exact scanLines_ne _ lines [] AllNE_nil
  obtain ⟨stacker, brk⟩ := sl
  cases brk with
  | none => exact ⟨AllNE_nil, hst⟩
  | some lr =>
    obtain ⟨l, rest⟩ := lr
    have := atBreak_ne style isArg stacker rest hst
    simp only
    exact ⟨this.1, by rw [this.2]; exact AllNE_nil⟩

theorem copyLastLine_ne (s : ScanSt) (o : Option Str) : (copyLastLine s o).args = s.args ∧ (copyLastLine s o).stacker = s.stacker := by
  cases o with
  | none => exact ⟨rfl, rfl⟩
  | some line =>
    unfold copyLastLine
    simp only
    split <;> (try split) <;> exact ⟨rfl, rfl⟩

theorem finishScan_ne (style : GNStyle) (isArg : Bool) (doc : Str) (s : ScanSt) (sc : Scanned)
    (h : finishScan style isArg doc s = .ok sc) (ha : AllNE s.args) (hs : AllNE s.stacker) : AllNE sc.args := by
  unfold finishScan at h
  split at h
  · cases h
  · cases h
  · rename_i s1 h1
    have h2 : AllNE s1.args ∧ AllNE s1.stacker := by
      split at h1
      · exact returnPhase_ne style s s1 h1 ha hs
      · cases h1; exact ⟨ha, hs⟩
    cases h
    simp only
    split
    · exact h2.1
    · exact setNs_args_ne isArg s1 s1.stacker h2.1 h2.2

/-- **the scanner never builds an empty unit**: `elem[0]` / `scan[0]` in the parse phase cannot raise `IndexError`
    (the model's `headD []` in `isAfterwardHead` is therefore never applied to an empty unit) -/
theorem scanPhase_args_ne (style : GNStyle) (text : Str) (sc : Scanned) (h : scanPhase style text = .ok sc) : AllNE sc.args := by
  unfold scanPhase at h
  split at h
  · cases h; exact AllNE_nil
  · rename_i st en isArg _
    simp only at h
    have hal := afterLoop_ne style isArg (splitlines (text.drop (en + 1)))
    have hc := copyLastLine_ne (afterLoop style isArg (splitlines (text.drop (en + 1)))).1 (afterLoop style isArg (splitlines (text.drop (en + 1)))).2
    exact finishScan_ne style isArg _ _ sc h (by rw [hc.1]; exact hal.1) (by rw [hc.2]; exact hal.2)

end DocGN
