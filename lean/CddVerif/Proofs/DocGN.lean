import CddVerif.Model.DocGN
/-! Lemmas for C14 (Google / NumPy docstring parser model): the insertion discipline of `OrderedDict(pairs)`,
    the name returned by `_set_name_and_type`, and the invariant of the parameter pipeline. -/
namespace DocGN
open Py Doc

def keys (ps : List (Str × GParam)) : List Str := ps.map (·.1)

/-- pairwise distinct names, none with a leading asterisk -/
def WFkeys (ps : List (Str × GParam)) : Prop :=
  (keys ps).Nodup ∧ ∀ k ∈ keys ps, startsWith k ['*'] = false

/-! ### `OrderedDict(pairs)` -/

/-- inserting keeps the keys (and their order) when the key exists and appends it otherwise -/
theorem dictInsert_keys (ps : List (Str × GParam)) (k : Str) (v : GParam) :
    keys (dictInsert ps k v) = if k ∈ keys ps then keys ps else keys ps ++ [k] := by
  induction ps with
  | nil => simp [dictInsert, keys]
  | cons kp rest ih =>
    obtain ⟨k', v'⟩ := kp
    simp only [dictInsert]
    split
    · rename_i h
      have hk : k' = k := by simpa using h
      subst hk
      simp [keys]
    · rename_i h
      have hne : ¬ k' = k := by simpa using h
      have hne' : ¬ k = k' := fun e => hne e.symm
      simp only [keys, List.map_cons, List.mem_cons] at ih ⊢
      rw [ih]
      by_cases hm : k ∈ List.map (·.1) rest
      · simp [hm]
      · simp [hm, hne']

theorem dictInsert_nodup (ps : List (Str × GParam)) (k : Str) (v : GParam) (hnd : (keys ps).Nodup) :
    (keys (dictInsert ps k v)).Nodup := by
  rw [dictInsert_keys]
  split
  · exact hnd
  · rename_i hm
    rw [List.nodup_append]
    refine ⟨hnd, by simp, ?_⟩
    intro a ha b hb
    simp only [List.mem_singleton] at hb
    subst hb
    exact fun e => hm (e ▸ ha)

/-- the value stored under `k` after inserting `(k, v)` is `v` (a repeated key takes the last value) -/
theorem dictInsert_lookup (ps : List (Str × GParam)) (k : Str) (v : GParam) :
    (dictInsert ps k v).find? (fun kv => kv.1 == k) = some ((match ps.find? (fun kv => kv.1 == k) with | some kv => kv.1 | none => k), v) := by
  induction ps with
  | nil => simp [dictInsert]
  | cons kp rest ih =>
    obtain ⟨k', v'⟩ := kp
    simp only [dictInsert]
    split
    · rename_i h
      simp [List.find?, h]
    · rename_i h
      have h' : (k' == k) = false := by simpa using h
      simp only [List.find?, h']
      exact ih

/-! ### the name returned by `_set_name_and_type` -/

theorem startsWith_star_cons (c : Char) (cs : Str) : startsWith (c :: cs) ['*'] = ('*' == c) := by
  simp [startsWith, List.isPrefixOf]

theorem lstripChars_star (n : Str) : startsWith (lstripChars n ['*']) ['*'] = false := by
  induction n with
  | nil => rfl
  | cons c cs ih =>
    unfold lstripChars at ih ⊢
    simp only [List.dropWhile]
    split
    · exact ih
    · rename_i h
      rw [startsWith_star_cons]
      cases hc : ('*' == c) with
      | false => rfl
      | true =>
        have : c = '*' := by simpa using (beq_iff_eq.mp hc).symm
        subst this
        simp at h

/-- **no leading asterisk**: whatever the documented name, the name `_set_name_and_type` returns does not start with `*` -/
theorem sntName_no_star (name : Str) : startsWith (sntName name) ['*'] = false := by
  unfold sntName
  split
  · exact lstripChars_star name
  · rename_i h1
    split
    · rename_i h2
      -- name = '*' :: rest and rest does not start with '*' (else the first branch had been taken)
      cases name with
      | nil => simp [startsWith] at h2
      | cons c cs =>
        simp only [List.drop_succ_cons, List.drop_zero]
        cases cs with
        | nil => rfl
        | cons d ds =>
          rw [startsWith_star_cons]
          cases hd : ('*' == d) with
          | false => rfl
          | true =>
            exfalso
            apply h1
            have hc : ('*' == c) = true := by rw [startsWith_star_cons] at h2; exact h2
            simp [startsWith, List.isPrefixOf, hc, hd]
    · rename_i h2
      cases h : startsWith name ['*'] with
      | false => rfl
      | true => exact absurd h h2

/-! ### the parameter pipeline -/

theorem WFkeys_nil : WFkeys [] := ⟨by simp [keys], by simp [keys]⟩

theorem WFkeys_insert (ps : List (Str × GParam)) (name : Str) (v : GParam) (h : WFkeys ps) :
    WFkeys (dictInsert ps (sntName name) v) := by
  refine ⟨dictInsert_nodup _ _ _ h.1, ?_⟩
  intro k hk
  rw [dictInsert_keys] at hk
  split at hk
  · exact h.2 k hk
  · rcases List.mem_append.mp hk with hk | hk
    · exact h.2 k hk
    · simp only [List.mem_singleton] at hk
      subst hk
      exact sntName_no_star name

/-- the invariant of `OrderedDict(map(_set_name_and_type, map(_interpolate…, …map(_parse, scanned_params))))` -/
theorem foldParams_wf (style : GNStyle) (edd : Bool) (scans : List (List Str)) (rd : Bool) (acc ps : List (Str × GParam)) (rd' : Bool)
    (hwf : WFkeys acc) (h : foldParams style edd scans rd acc = .ok (ps, rd')) : WFkeys ps := by
  induction scans generalizing rd acc with
  | nil =>
    unfold foldParams at h
    cases h
    exact hwf
  | cons scan rest ih =>
    unfold foldParams at h
    split at h
    · exact ih _ _ hwf h
    · cases h; exact hwf
    · cases h
    · cases h
    · split at h
      · cases h
      · cases h
      · split at h
        · cases h
        · cases h
        · exact ih _ _ (WFkeys_insert _ _ _ hwf) h

end DocGN
