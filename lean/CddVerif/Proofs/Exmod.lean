import CddVerif.Model.Exmod
/-! Helper lemmas for C20: a small Hoare logic over the effect-trace monad `Exmod.M`, then the dry-run part. -/
namespace Exmod
open Py

/-- From a file system satisfying `pre`, every effect `m` logs satisfies `P`; if `m` returns `a`, the final file system
    satisfies `post a`.  (An exception ends the run: nothing is required of the state it leaves.) -/
def Spec {α} (pre : FS → Prop) (P : Effect → Prop) (m : M α) (post : α → FS → Prop) : Prop :=
  ∀ fs, pre fs → (∀ e ∈ (m fs).trace, P e) ∧ (∀ a, (m fs).val = .ok a → post a (m fs).fs)

theorem spec_conseq {α} {pre pre' : FS → Prop} {P} {m : M α} {post post' : α → FS → Prop}
    (h : Spec pre P m post) (hpre : ∀ fs, pre' fs → pre fs) (hpost : ∀ a fs, post a fs → post' a fs) :
    Spec pre' P m post' := fun fs hfs =>
  ⟨(h fs (hpre fs hfs)).1, fun a ha => hpost a _ ((h fs (hpre fs hfs)).2 a ha)⟩

theorem spec_pure {α} {pre : FS → Prop} {P} {a : α} {post : α → FS → Prop} (h : ∀ fs, pre fs → post a fs) :
    Spec pre P (pure a : M α) post := fun fs hfs =>
  ⟨(by intro e he; cases he), (by intro b hb; cases hb; exact h fs hfs)⟩

theorem spec_raise {α} {pre : FS → Prop} {P} {e : Err} {post : α → FS → Prop} : Spec pre P (raise e : M α) post :=
  fun _ _ => ⟨(by intro e he; cases he), (by intro b hb; cases hb)⟩

theorem spec_bind {α β} {pre : FS → Prop} {P} {m : M α} {f : α → M β} {mid : α → FS → Prop} {post : β → FS → Prop}
    (hm : Spec pre P m mid) (hf : ∀ a, Spec (mid a) P (f a) post) : Spec pre P (m >>= f) post := by
  intro fs hfs
  have h1 := hm fs hfs
  show (∀ e ∈ (M.bind m f fs).trace, P e) ∧ (∀ b, (M.bind m f fs).val = .ok b → post b (M.bind m f fs).fs)
  unfold M.bind
  cases hv : (m fs).val with
  | error e => simp only [hv]; exact ⟨h1.1, (by intro b hb; cases hb)⟩
  | ok a =>
    simp only [hv]
    have h2 := hf a (m fs).fs (h1.2 a hv)
    refine ⟨?_, h2.2⟩
    intro e he
    rcases List.mem_append.mp he with h | h
    · exact h1.1 e h
    · exact h2.1 e h

theorem spec_ite {α} {pre : FS → Prop} {P} {c : Prop} [Decidable c] {a b : M α} {post : α → FS → Prop}
    (ha : c → Spec pre P a post) (hb : ¬c → Spec pre P b post) : Spec pre P (if c then a else b) post := by
  by_cases h : c
  · simp only [h, if_true]; exact ha h
  · simp only [h, if_false]; exact hb h

/-- `for x in xs: body x` with an invariant indexed by the items still to be processed -/
theorem spec_forEach {α} {P} (I : List α → FS → Prop) (body : α → M Unit) :
    ∀ (xs : List α), (∀ x rest, Spec (I (x :: rest)) P (body x) (fun _ => I rest)) →
      Spec (I xs) P (forEach xs body) (fun _ => I [])
  | [], _ => by unfold forEach; exact spec_pure (fun _ h => h)
  | x :: xs, h => by
    unfold forEach
    exact spec_bind (h x xs) (fun _ => spec_forEach I body xs h)

theorem spec_forEach' {α} {P} {I : FS → Prop} {body : α → M Unit} (xs : List α)
    (h : ∀ x, x ∈ xs → Spec I P (body x) (fun _ => I)) : Spec I P (forEach xs body) (fun _ => I) := by
  induction xs with
  | nil => unfold forEach; exact spec_pure (fun _ h => h)
  | cons x xs ih =>
    unfold forEach
    exact spec_bind (h x (List.mem_cons_self)) (fun _ => ih (fun y hy => h y (List.mem_cons_of_mem _ hy)))

theorem spec_mapM' {α β} {P} {I : FS → Prop} {f : α → M β} {Q : β → Prop} (xs : List α)
    (h : ∀ x, x ∈ xs → Spec I P (f x) (fun b fs => I fs ∧ Q b)) :
    Spec I P (mapM' xs f) (fun bs fs => I fs ∧ ∀ b ∈ bs, Q b) := by
  induction xs with
  | nil => unfold mapM'; exact spec_pure (fun _ h => ⟨h, (by intro b hb; cases hb)⟩)
  | cons x xs ih =>
    unfold mapM'
    refine spec_bind (h x (List.mem_cons_self)) (fun b => ?_)
    refine spec_bind (mid := fun bs fs => (I fs ∧ ∀ b ∈ bs, Q b) ∧ Q b) ?_ ?_
    · intro fs hfs
      have := ih (fun y hy => h y (List.mem_cons_of_mem _ hy)) fs hfs.1
      exact ⟨this.1, fun a ha => ⟨this.2 a ha, hfs.2⟩⟩
    · intro bs
      exact spec_pure (fun fs hfs => ⟨hfs.1.1, by
        intro c hc
        rcases List.mem_cons.mp hc with rfl | hc
        · exact hfs.2
        · exact hfs.1.2 c hc⟩)

theorem spec_mapErr {α} {pre : FS → Prop} {P} {m : M α} {g : Err → Err} {post : α → FS → Prop}
    (h : Spec pre P m post) : Spec pre P (mapErr m g) post := by
  intro fs hfs
  have h1 := h fs hfs
  unfold mapErr
  cases hv : (m fs).val with
  | error e => simp only [hv]; exact ⟨h1.1, (by intro b hb; cases hb)⟩
  | ok a => simp only [hv]; exact ⟨h1.1, (by intro b hb; cases hb; exact h1.2 a hv)⟩

/-! ### primitives that only read -/

theorem spec_isdir {pre : FS → Prop} {P} (p : Path) : Spec pre P (isdir p) (fun b fs => pre fs ∧ b = fs.isdir p) :=
  fun fs hfs => ⟨(by intro e he; cases he), (by intro b hb; cases hb; exact ⟨hfs, rfl⟩)⟩
theorem spec_isfile {pre : FS → Prop} {P} (p : Path) : Spec pre P (isfile p) (fun b fs => pre fs ∧ b = fs.isfile p) :=
  fun fs hfs => ⟨(by intro e he; cases he), (by intro b hb; cases hb; exact ⟨hfs, rfl⟩)⟩
theorem spec_pexists {pre : FS → Prop} {P} (p : Path) : Spec pre P (pexists p) (fun b fs => pre fs ∧ b = fs.pexists p) :=
  fun fs hfs => ⟨(by intro e he; cases he), (by intro b hb; cases hb; exact ⟨hfs, rfl⟩)⟩
theorem spec_readFile {pre : FS → Prop} {P} (p : Path) :
    Spec pre P (readFile p) (fun f fs => pre fs ∧ fs.read p = some f) := by
  intro fs hfs
  unfold readFile
  cases h : fs.read p with
  | none => exact ⟨(by intro e he; cases he), (by intro b hb; cases hb)⟩
  | some f => exact ⟨(by intro e he; cases he), (by intro b hb; cases hb; exact ⟨hfs, h⟩)⟩
theorem spec_note {pre : FS → Prop} {P} (it : Item) : Spec pre P (note it) (fun _ fs => pre fs) :=
  fun fs hfs => ⟨(by intro e he; cases he), (by intro b hb; cases hb; exact hfs)⟩

/-- weaker forms (state only) -/
theorem spec_isdir' {pre : FS → Prop} {P} (p : Path) : Spec pre P (isdir p) (fun _ fs => pre fs) :=
  spec_conseq (spec_isdir p) (fun _ h => h) (fun _ _ h => h.1)
theorem spec_isfile' {pre : FS → Prop} {P} (p : Path) : Spec pre P (isfile p) (fun _ fs => pre fs) :=
  spec_conseq (spec_isfile p) (fun _ h => h) (fun _ _ h => h.1)
theorem spec_pexists' {pre : FS → Prop} {P} (p : Path) : Spec pre P (pexists p) (fun _ fs => pre fs) :=
  spec_conseq (spec_pexists p) (fun _ h => h) (fun _ _ h => h.1)
theorem spec_readFile' {pre : FS → Prop} {P} (p : Path) : Spec pre P (readFile p) (fun _ fs => pre fs) :=
  spec_conseq (spec_readFile p) (fun _ h => h) (fun _ _ h => h.1)

theorem spec_print {pre : FS → Prop} {P : Effect → Prop} (s : Str) (h : P (.print s)) :
    Spec pre P (print s) (fun _ fs => pre fs) := by
  intro fs hfs
  refine ⟨?_, (by intro b hb; cases hb; exact hfs)⟩
  intro e he
  have : e = .print s := by simpa [print, effect, Res.leaf] using he
  exact this ▸ h

/-! ### invariant reasoning: `m` keeps `I` and logs only `P`-effects -/

/-- from a file system satisfying `I`, every effect logged by `m` satisfies `P` and `I` still holds when `m` returns -/
def AllEff {α} (I : FS → Prop) (P : Effect → Prop) (m : M α) : Prop := Spec I P m (fun _ fs => I fs)

theorem AllEff.trace {α} {I P} {m : M α} (h : AllEff I P m) (fs : FS) (hfs : I fs) : ∀ e ∈ (m fs).trace, P e := (h fs hfs).1

theorem allEff_of_spec {α} {I P} {m : M α} {post : α → FS → Prop} (h : Spec I P m post) (hp : ∀ a fs, post a fs → I fs) :
    AllEff I P m := spec_conseq h (fun _ h => h) hp
theorem allEff_pure {α} {I P} (a : α) : AllEff I P (pure a : M α) := spec_pure (fun _ h => h)
theorem allEff_raise {α} {I P} (e : Err) : AllEff I P (raise e : M α) := spec_raise
theorem allEff_bind {α β} {I P} {m : M α} {f : α → M β} (hm : AllEff I P m) (hf : ∀ a, AllEff I P (f a)) :
    AllEff I P (m >>= f) := spec_bind hm hf
theorem allEff_ite {α} {I P} {c : Prop} [Decidable c] {a b : M α} (ha : c → AllEff I P a) (hb : ¬c → AllEff I P b) :
    AllEff I P (if c then a else b) := spec_ite ha hb
theorem allEff_forEach {α} {I P} {body : α → M Unit} (xs : List α) (h : ∀ x, AllEff I P (body x)) :
    AllEff I P (forEach xs body) := spec_forEach' xs (fun x _ => h x)
theorem allEff_mapM' {α β} {I P} {f : α → M β} (xs : List α) (h : ∀ x, AllEff I P (f x)) : AllEff I P (mapM' xs f) :=
  allEff_of_spec (spec_mapM' (Q := fun _ => True) xs (fun x _ => spec_conseq (h x) (fun _ h => h) (fun _ _ h => ⟨h, trivial⟩)))
    (fun _ _ h => h.1)
theorem allEff_mapErr {α} {I P} {m : M α} {g : Err → Err} (h : AllEff I P m) : AllEff I P (mapErr m g) := spec_mapErr h
theorem allEff_isdir {I P} (p : Path) : AllEff I P (isdir p) := spec_isdir' p
theorem allEff_isfile {I P} (p : Path) : AllEff I P (isfile p) := spec_isfile' p
theorem allEff_pexists {I P} (p : Path) : AllEff I P (pexists p) := spec_pexists' p
theorem allEff_readFile {I P} (p : Path) : AllEff I P (readFile p) := spec_readFile' p
theorem allEff_note {I P} (it : Item) : AllEff I P (note it) := spec_note it
theorem allEff_print {I} {P : Effect → Prop} (s : Str) (h : P (.print s)) : AllEff I P (print s) := spec_print s h

/-- one step of structural decomposition of an `AllEff` goal -/
macro "alleff_step" : tactic =>
  `(tactic| first
    | exact allEff_pure _
    | exact allEff_raise _
    | exact allEff_isdir _
    | exact allEff_isfile _
    | exact allEff_pexists _
    | exact allEff_readFile _
    | exact allEff_note _
    | (apply allEff_print; first | rfl | trivial | assumption)
    | apply allEff_mapErr
    | (apply allEff_forEach; intro _)
    | (apply allEff_mapM'; intro _)
    | (apply allEff_bind; rotate_left; intro _; rotate_left)
    | (apply allEff_ite <;> intro _)
    | split)

/-! ### reading never logs an effect and never changes the file system -/

theorem allEff_findModuleFilepath {I P} (env : Env) (mn sub : Option Str) (b : Bool) :
    AllEff I P (findModuleFilepath env mn sub b) := by
  unfold findModuleFilepath
  repeat alleff_step

theorem allEff_contentsOfFile {I P} (env : Env) (file : Path) : AllEff I P (contentsOfFile env file) := by
  unfold contentsOfFile
  repeat (first | exact allEff_findModuleFilepath _ _ _ _ | alleff_step)

theorem allEff_getModuleContents {I P} (env : Env) (d : Path) : AllEff I P (getModuleContents env d) := by
  unfold getModuleContents
  repeat (first | exact allEff_contentsOfFile _ _ | alleff_step)

/-! ### dry run: every effect is a print, and *any* property of the file system is kept (it never changes) -/

def IsPrint (e : Effect) : Prop := e.isPrint = true

theorem dry_emitSymbol {I} (c : Ctx) (h : c.dryRun = true) (name : Str) (ef ifp : Path) :
    AllEff I IsPrint (emitSymbol c name ef ifp) := by
  unfold emitSymbol
  simp only [h, if_true]
  repeat alleff_step

theorem dry_emitFileOnHierarchy {I} (c : Ctx) (h : c.dryRun = true) (mn key : Str) (orig : Path) (irName : Option Str) :
    AllEff I IsPrint (emitFileOnHierarchy c mn key orig irName) := by
  unfold emitFileOnHierarchy
  simp only [h, if_true]
  repeat (first | exact dry_emitSymbol c h _ _ _ | alleff_step)

theorem dry_emitFiles {I} (env : Env) (c : Ctx) (h : c.dryRun = true) (mn : Str) (d : Path) :
    AllEff I IsPrint (emitFiles env c mn d) := by
  unfold emitFiles
  repeat (first | exact dry_emitFileOnHierarchy c h _ _ _ _ | exact allEff_getModuleContents _ _ | alleff_step)

theorem dry_singleFolder {I} (r : Run) (h : r.cfg.dryRun = true) (mn : Str) (d o : Path) :
    AllEff I IsPrint (singleFolder r mn d o) := by
  unfold singleFolder
  simp only [h, if_true]
  repeat (first | exact dry_emitFiles _ _ rfl _ _ | exact allEff_findModuleFilepath _ _ _ _ | alleff_step)

theorem dry_announceOut {I} (cfg : Cfg) (h : cfg.dryRun = true) : AllEff I IsPrint (announceOut cfg) := by
  unfold announceOut
  simp only [h, if_true]
  repeat alleff_step

theorem dry_exmodStr {I} (cfg : Cfg) (env : Env) (h : cfg.dryRun = true) (emit : EmitKind) (announce : Bool) :
    AllEff I IsPrint (exmodStr cfg env emit announce) := by
  unfold exmodStr
  simp only [h, if_true, Bool.not_true, Bool.and_false, Bool.false_and, Bool.false_eq_true, if_false]
  repeat (first | exact dry_announceOut _ h | exact dry_singleFolder _ (by simp [h]) _ _ _ | exact allEff_findModuleFilepath _ _ _ _ | alleff_step)

theorem dry_exmodCli {I} (cfg : Cfg) (env : Env) (h : cfg.dryRun = true) : AllEff I IsPrint (exmodCli cfg env) := by
  unfold exmodCli
  repeat (first | exact dry_exmodStr _ _ h _ _ | alleff_step)

end Exmod
