import CddVerif.Model.Exmod
/-! Helper lemmas for C20: a small Hoare logic over the effect-trace monad `Exmod.M`, then the dry-run part. -/
namespace Exmod

/-- From a file system satisfying `pre`, every effect `m` logs satisfies `P`; if `m` returns `a`, the final file system
    satisfies `post a`.  (An exception ends the run: nothing is required of the state it leaves.) -/
def Spec {α} (pre : FS → Prop) (P : Effect → Prop) (m : M α) (post : α → FS → Prop) : Prop :=
  ∀ fs, pre fs → (∀ e ∈ (m fs).trace, P e) ∧ (∀ a, (m fs).val = .ok a → post a (m fs).fs)

theorem spec_conseq {α} {pre pre' : FS → Prop} {P} {m : M α} {post post' : α → FS → Prop}
    (h : Spec pre P m post) (hpre : ∀ fs, pre' fs → pre fs) (hpost : ∀ a fs, post a fs → post' a fs) :
    Spec pre' P m post' := fun fs hfs =>
  ⟨(h fs (hpre fs hfs)).1, fun a ha => hpost a _ ((h fs (hpre fs hfs)).2 a ha)⟩

theorem spec_pure {α} {pre : FS → Prop} {P} {a : α} {post : α → FS → Prop} (h : ∀ fs, pre fs → post a fs) :
    Spec pre P (pure a : M α) post := fun fs hfs =>
  ⟨by intro e he; cases he, by intro b hb; cases hb; exact h fs hfs⟩

theorem spec_raise {α} {pre : FS → Prop} {P} {e : Err} {post : α → FS → Prop} : Spec pre P (raise e : M α) post :=
  fun _ _ => ⟨by intro e he; cases he, by intro b hb; cases hb⟩

theorem spec_bind {α β} {pre : FS → Prop} {P} {m : M α} {f : α → M β} {mid : α → FS → Prop} {post : β → FS → Prop}
    (hm : Spec pre P m mid) (hf : ∀ a, Spec (mid a) P (f a) post) : Spec pre P (m >>= f) post := by
  intro fs hfs
  have h1 := hm fs hfs
  show (∀ e ∈ (M.bind m f fs).trace, P e) ∧ (∀ b, (M.bind m f fs).val = .ok b → post b (M.bind m f fs).fs)
  unfold M.bind
  cases hv : (m fs).val with
  | error e => simp only [hv]; exact ⟨h1.1, by intro b hb; cases hb⟩
  | ok a =>
    simp only [hv]
    have h2 := hf a (m fs).fs (h1.2 a hv)
    refine ⟨?_, h2.2⟩
    intro e he
    rcases List.mem_append.mp he with h | h
    · exact h1.1 e h
    · exact h2.1 e h

theorem spec_ite {α} {pre : FS → Prop} {P} {c : Prop} [Decidable c] {a b : M α} {post : α → FS → Prop}
    (ha : c → Spec pre P a post) (hb : ¬c → Spec pre P b post) : Spec pre P (if c then a else b) post := by
  by_cases h : c
  · simp only [h, if_true]; exact ha h
  · simp only [h, if_false]; exact hb h

/-- `for x in xs: body x` with an invariant indexed by the items still to be processed -/
theorem spec_forEach {α} {P} (I : List α → FS → Prop) (body : α → M Unit) :
    ∀ (xs : List α), (∀ x rest, Spec (I (x :: rest)) P (body x) (fun _ => I rest)) →
      Spec (I xs) P (forEach xs body) (fun _ => I [])
  | [], _ => by unfold forEach; exact spec_pure (fun _ h => h)
  | x :: xs, h => by
    unfold forEach
    exact spec_bind (h x xs) (fun _ => spec_forEach I body xs h)

theorem spec_forEach' {α} {P} {I : FS → Prop} {body : α → M Unit} (xs : List α)
    (h : ∀ x, x ∈ xs → Spec I P (body x) (fun _ => I)) : Spec I P (forEach xs body) (fun _ => I) := by
  induction xs with
  | nil => unfold forEach; exact spec_pure (fun _ h => h)
  | cons x xs ih =>
    unfold forEach
    exact spec_bind (h x (List.mem_cons_self)) (fun _ => ih (fun y hy => h y (List.mem_cons_of_mem _ hy)))

theorem spec_mapM' {α β} {P} {I : FS → Prop} {f : α → M β} {Q : β → Prop} (xs : List α)
    (h : ∀ x, x ∈ xs → Spec I P (f x) (fun b fs => I fs ∧ Q b)) :
    Spec I P (mapM' xs f) (fun bs fs => I fs ∧ ∀ b ∈ bs, Q b) := by
  induction xs with
  | nil => unfold mapM'; exact spec_pure (fun _ h => ⟨h, by intro b hb; cases hb⟩)
  | cons x xs ih =>
    unfold mapM'
    refine spec_bind (h x (List.mem_cons_self)) (fun b => ?_)
    refine spec_bind (mid := fun bs fs => (I fs ∧ ∀ b ∈ bs, Q b) ∧ Q b) ?_ ?_
    · intro fs hfs
      have := ih (fun y hy => h y (List.mem_cons_of_mem _ hy)) fs hfs.1
      exact ⟨this.1, fun a ha => ⟨this.2 a ha, hfs.2⟩⟩
    · intro bs
      exact spec_pure (fun fs hfs => ⟨hfs.1.1, by
        intro c hc
        rcases List.mem_cons.mp hc with rfl | hc
        · exact hfs.2
        · exact hfs.1.2 c hc⟩)

theorem spec_mapErr {α} {pre : FS → Prop} {P} {m : M α} {g : Err → Err} {post : α → FS → Prop}
    (h : Spec pre P m post) : Spec pre P (mapErr m g) post := by
  intro fs hfs
  have h1 := h fs hfs
  unfold mapErr
  cases hv : (m fs).val with
  | error e => simp only [hv]; exact ⟨h1.1, by intro b hb; cases hb⟩
  | ok a => simp only [hv]; exact ⟨h1.1, by intro b hb; cases hb; exact h1.2 a hv⟩

/-! ### primitives that only read -/

theorem spec_isdir {pre : FS → Prop} {P} (p : Path) : Spec pre P (isdir p) (fun b fs => pre fs ∧ b = fs.isdir p) :=
  fun fs hfs => ⟨by intro e he; cases he, by intro b hb; cases hb; exact ⟨hfs, rfl⟩⟩
theorem spec_isfile {pre : FS → Prop} {P} (p : Path) : Spec pre P (isfile p) (fun b fs => pre fs ∧ b = fs.isfile p) :=
  fun fs hfs => ⟨by intro e he; cases he, by intro b hb; cases hb; exact ⟨hfs, rfl⟩⟩
theorem spec_pexists {pre : FS → Prop} {P} (p : Path) : Spec pre P (pexists p) (fun b fs => pre fs ∧ b = fs.pexists p) :=
  fun fs hfs => ⟨by intro e he; cases he, by intro b hb; cases hb; exact ⟨hfs, rfl⟩⟩
theorem spec_readFile {pre : FS → Prop} {P} (p : Path) :
    Spec pre P (readFile p) (fun f fs => pre fs ∧ fs.read p = some f) := by
  intro fs hfs
  unfold readFile
  cases h : fs.read p with
  | none => exact ⟨by intro e he; cases he, by intro b hb; cases hb⟩
  | some f => exact ⟨by intro e he; cases he, by intro b hb; cases hb; exact ⟨hfs, h⟩⟩
theorem spec_note {pre : FS → Prop} {P} (it : Item) : Spec pre P (note it) (fun _ fs => pre fs) :=
  fun fs hfs => ⟨by intro e he; cases he, by intro b hb; cases hb; exact hfs⟩

/-- weaker forms (state only) -/
theorem spec_isdir' {pre : FS → Prop} {P} (p : Path) : Spec pre P (isdir p) (fun _ fs => pre fs) :=
  spec_conseq (spec_isdir p) (fun _ h => h) (fun _ _ h => h.1)
theorem spec_isfile' {pre : FS → Prop} {P} (p : Path) : Spec pre P (isfile p) (fun _ fs => pre fs) :=
  spec_conseq (spec_isfile p) (fun _ h => h) (fun _ _ h => h.1)
theorem spec_pexists' {pre : FS → Prop} {P} (p : Path) : Spec pre P (pexists p) (fun _ fs => pre fs) :=
  spec_conseq (spec_pexists p) (fun _ h => h) (fun _ _ h => h.1)
theorem spec_readFile' {pre : FS → Prop} {P} (p : Path) : Spec pre P (readFile p) (fun _ fs => pre fs) :=
  spec_conseq (spec_readFile p) (fun _ h => h) (fun _ _ h => h.1)

theorem spec_print {pre : FS → Prop} {P : Effect → Prop} (s : Str) (h : P (.print s)) :
    Spec pre P (print s) (fun _ fs => pre fs) := by
  intro fs hfs
  refine ⟨?_, by intro b hb; cases hb; exact hfs⟩
  intro e he
  have : e = .print s := by simpa [print, effect, Res.leaf] using he
  exact this ▸ h

/-! ### effect-only reasoning: `pre` and `post` trivial -/

/-- every effect logged by `m`, from any file system, satisfies `P` -/
def AllEff {α} (P : Effect → Prop) (m : M α) : Prop := Spec (fun _ => True) P m (fun _ _ => True)

theorem AllEff.trace {α} {P} {m : M α} (h : AllEff P m) (fs : FS) : ∀ e ∈ (m fs).trace, P e := (h fs trivial).1

theorem allEff_of_spec {α} {P} {m : M α} {post : α → FS → Prop} (h : Spec (fun _ => True) P m post) : AllEff P m :=
  spec_conseq h (fun _ h => h) (fun _ _ _ => trivial)
theorem allEff_pure {α} {P} (a : α) : AllEff P (pure a : M α) := spec_pure (fun _ _ => trivial)
theorem allEff_raise {α} {P} (e : Err) : AllEff P (raise e : M α) := spec_raise
theorem allEff_bind {α β} {P} {m : M α} {f : α → M β} (hm : AllEff P m) (hf : ∀ a, AllEff P (f a)) :
    AllEff P (m >>= f) := spec_bind hm hf
theorem allEff_ite {α} {P} {c : Prop} [Decidable c] {a b : M α} (ha : c → AllEff P a) (hb : ¬c → AllEff P b) :
    AllEff P (if c then a else b) := spec_ite ha hb
theorem allEff_forEach {α} {P} {body : α → M Unit} (xs : List α) (h : ∀ x, AllEff P (body x)) :
    AllEff P (forEach xs body) := spec_forEach' xs (fun x _ => h x)
theorem allEff_mapM' {α β} {P} {f : α → M β} (xs : List α) (h : ∀ x, AllEff P (f x)) : AllEff P (mapM' xs f) :=
  allEff_of_spec (spec_mapM' (Q := fun _ => True) xs (fun x _ => spec_conseq (h x) (fun _ h => h) (fun _ _ _ => ⟨trivial, trivial⟩)))
theorem allEff_mapErr {α} {P} {m : M α} {g : Err → Err} (h : AllEff P m) : AllEff P (mapErr m g) := spec_mapErr h
theorem allEff_isdir {P} (p : Path) : AllEff P (isdir p) := allEff_of_spec (spec_isdir' p)
theorem allEff_isfile {P} (p : Path) : AllEff P (isfile p) := allEff_of_spec (spec_isfile' p)
theorem allEff_pexists {P} (p : Path) : AllEff P (pexists p) := allEff_of_spec (spec_pexists' p)
theorem allEff_readFile {P} (p : Path) : AllEff P (readFile p) := allEff_of_spec (spec_readFile' p)
theorem allEff_note {P} (it : Item) : AllEff P (note it) := allEff_of_spec (spec_note it)
theorem allEff_print {P : Effect → Prop} (s : Str) (h : P (.print s)) : AllEff P (print s) :=
  allEff_of_spec (spec_print s h)

/-- one step of structural decomposition of an `AllEff` goal -/
macro "alleff_step" : tactic =>
  `(tactic| first
    | exact allEff_pure _
    | exact allEff_raise _
    | exact allEff_isdir _
    | exact allEff_isfile _
    | exact allEff_pexists _
    | exact allEff_readFile _
    | exact allEff_note _
    | (apply allEff_print; first | rfl | trivial | assumption)
    | apply allEff_mapErr
    | (apply allEff_forEach; intro _)
    | (apply allEff_mapM'; intro _)
    | (apply allEff_bind; rotate_left; intro _; rotate_left)
    | (apply allEff_ite <;> intro _)
    | split)

/-! ### reading never logs an effect -/

theorem allEff_findModuleFilepath {P} (env : Env) (mn sub : Option Str) (b : Bool) :
    AllEff P (findModuleFilepath env mn sub b) := by
  unfold findModuleFilepath
  repeat alleff_step

theorem allEff_contentsOfFile {P} (env : Env) (file : Path) : AllEff P (contentsOfFile env file) := by
  unfold contentsOfFile
  repeat (first | exact allEff_findModuleFilepath _ _ _ _ | alleff_step)

theorem allEff_getModuleContents {P} (env : Env) (d : Path) : AllEff P (getModuleContents env d) := by
  unfold getModuleContents
  repeat (first | exact allEff_contentsOfFile _ _ | alleff_step)

end Exmod
