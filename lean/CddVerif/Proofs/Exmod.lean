import CddVerif.Model.Exmod
/-! Helper lemmas for C20: a small Hoare logic over the effect-trace monad `Exmod.M`, then the dry-run part. -/
namespace Exmod
open Py

/-- From a file system satisfying `pre`, *if every ghost item `m` records satisfies `OK`*, every effect `m` logs
    satisfies `P`; if `m` returns `a`, the final file system satisfies `post a`.  (An exception ends the run: nothing is
    required of the state it leaves.) -/
def Spec {α} (OK : Item → Prop) (pre : FS → Prop) (P : Effect → Prop) (m : M α) (post : α → FS → Prop) : Prop :=
  ∀ fs, pre fs → (∀ it ∈ (m fs).items, OK it) →
    (∀ e ∈ (m fs).trace, P e) ∧ (∀ a, (m fs).val = .ok a → post a (m fs).fs)

section
variable {OK : Item → Prop} {P : Effect → Prop}

theorem spec_conseq {α} {pre pre' : FS → Prop} {m : M α} {post post' : α → FS → Prop}
    (h : Spec OK pre P m post) (hpre : ∀ fs, pre' fs → pre fs) (hpost : ∀ a fs, post a fs → post' a fs) :
    Spec OK pre' P m post' := fun fs hfs hit =>
  ⟨(h fs (hpre fs hfs) hit).1, fun a ha => hpost a _ ((h fs (hpre fs hfs) hit).2 a ha)⟩

/-- a computation that logs nothing, records nothing and leaves the file system alone -/
theorem spec_leaf {α} {pre : FS → Prop} {post : α → FS → Prop} (v : FS → Except Err α)
    (h : ∀ fs a, pre fs → v fs = .ok a → post a fs) : Spec OK pre P (fun fs => Res.leaf [] fs (v fs)) post :=
  fun fs hfs _ => ⟨(by intro e he; cases he), (fun a ha => h fs a hfs ha)⟩

theorem spec_pure {α} {pre : FS → Prop} {a : α} {post : α → FS → Prop} (h : ∀ fs, pre fs → post a fs) :
    Spec OK pre P (pure a : M α) post :=
  spec_leaf (fun _ => .ok a) (fun fs b hfs hb => by cases hb; exact h fs hfs)

theorem spec_raise {α} {pre : FS → Prop} {e : Err} {post : α → FS → Prop} : Spec OK pre P (raise e : M α) post :=
  spec_leaf (fun _ => .error e) (fun _ _ _ hb => by cases hb)

theorem spec_bind {α β} {pre : FS → Prop} {m : M α} {f : α → M β} {mid : α → FS → Prop} {post : β → FS → Prop}
    (hm : Spec OK pre P m mid) (hf : ∀ a, Spec OK (mid a) P (f a) post) : Spec OK pre P (m >>= f) post := by
  intro fs hfs
  show (∀ it ∈ (M.bind m f fs).items, OK it) →
    (∀ e ∈ (M.bind m f fs).trace, P e) ∧ (∀ b, (M.bind m f fs).val = .ok b → post b (M.bind m f fs).fs)
  unfold M.bind
  cases hv : (m fs).val with
  | error e =>
    simp only [hv]
    intro hit
    exact ⟨(hm fs hfs hit).1, (by intro b hb; cases hb)⟩
  | ok a =>
    simp only [hv]
    intro hit
    have h1 := hm fs hfs (fun it h => hit it (List.mem_append_left _ h))
    have h2 := hf a (m fs).fs (h1.2 a hv) (fun it h => hit it (List.mem_append_right _ h))
    refine ⟨?_, h2.2⟩
    intro e he
    rcases List.mem_append.mp he with h | h
    · exact h1.1 e h
    · exact h2.1 e h

theorem spec_ite {α} {pre : FS → Prop} {c : Prop} [Decidable c] {a b : M α} {post : α → FS → Prop}
    (ha : c → Spec OK pre P a post) (hb : ¬c → Spec OK pre P b post) : Spec OK pre P (if c then a else b) post := by
  by_cases h : c
  · simp only [h, if_true]; exact ha h
  · simp only [h, if_false]; exact hb h

/-- `for x in xs: body x` with an invariant indexed by the items still to be processed -/
theorem spec_forEach {α} (I : List α → FS → Prop) (body : α → M Unit) :
    ∀ (xs : List α), (∀ x rest, Spec OK (I (x :: rest)) P (body x) (fun _ => I rest)) →
      Spec OK (I xs) P (forEach xs body) (fun _ => I [])
  | [], _ => by unfold forEach; exact spec_pure (fun _ h => h)
  | x :: xs, h => by
    unfold forEach
    exact spec_bind (h x xs) (fun _ => spec_forEach I body xs h)

theorem spec_forEach' {α} {I : FS → Prop} {body : α → M Unit} (xs : List α)
    (h : ∀ x, x ∈ xs → Spec OK I P (body x) (fun _ => I)) : Spec OK I P (forEach xs body) (fun _ => I) := by
  induction xs with
  | nil => unfold forEach; exact spec_pure (fun _ h => h)
  | cons x xs ih =>
    unfold forEach
    exact spec_bind (h x (List.mem_cons_self)) (fun _ => ih (fun y hy => h y (List.mem_cons_of_mem _ hy)))

theorem spec_mapM' {α β} {I : FS → Prop} {f : α → M β} {Q : β → Prop} (xs : List α)
    (h : ∀ x, x ∈ xs → Spec OK I P (f x) (fun b fs => I fs ∧ Q b)) :
    Spec OK I P (mapM' xs f) (fun bs fs => I fs ∧ ∀ b ∈ bs, Q b) := by
  induction xs with
  | nil => unfold mapM'; exact spec_pure (fun _ h => ⟨h, (by intro b hb; cases hb)⟩)
  | cons x xs ih =>
    unfold mapM'
    refine spec_bind (h x (List.mem_cons_self)) (fun b => ?_)
    refine spec_bind (mid := fun bs fs => (I fs ∧ ∀ b ∈ bs, Q b) ∧ Q b) ?_ ?_
    · intro fs hfs hit
      have := ih (fun y hy => h y (List.mem_cons_of_mem _ hy)) fs hfs.1 hit
      exact ⟨this.1, fun a ha => ⟨this.2 a ha, hfs.2⟩⟩
    · intro bs
      exact spec_pure (fun fs hfs => ⟨hfs.1.1, by
        intro c hc
        rcases List.mem_cons.mp hc with rfl | hc
        · exact hfs.2
        · exact hfs.1.2 c hc⟩)

theorem spec_mapErr {α} {pre : FS → Prop} {m : M α} {g : Err → Err} {post : α → FS → Prop}
    (h : Spec OK pre P m post) : Spec OK pre P (mapErr m g) post := by
  intro fs hfs
  unfold mapErr
  cases hv : (m fs).val with
  | error e =>
    simp only [hv]
    intro hit
    exact ⟨(h fs hfs hit).1, (by intro b hb; cases hb)⟩
  | ok a =>
    simp only [hv]
    intro hit
    exact ⟨(h fs hfs hit).1, (by intro b hb; cases hb; exact (h fs hfs hit).2 a hv)⟩

/-! ### primitives that only read -/

theorem spec_isdir {pre : FS → Prop} (p : Path) : Spec OK pre P (isdir p) (fun b fs => pre fs ∧ b = fs.isdir p) :=
  spec_leaf _ (fun _ _ hfs hb => by cases hb; exact ⟨hfs, rfl⟩)
theorem spec_isfile {pre : FS → Prop} (p : Path) : Spec OK pre P (isfile p) (fun b fs => pre fs ∧ b = fs.isfile p) :=
  spec_leaf _ (fun _ _ hfs hb => by cases hb; exact ⟨hfs, rfl⟩)
theorem spec_pexists {pre : FS → Prop} (p : Path) : Spec OK pre P (pexists p) (fun b fs => pre fs ∧ b = fs.pexists p) :=
  spec_leaf _ (fun _ _ hfs hb => by cases hb; exact ⟨hfs, rfl⟩)
theorem spec_readFile {pre : FS → Prop} (p : Path) :
    Spec OK pre P (readFile p) (fun f fs => pre fs ∧ fs.read p = some f) := by
  intro fs hfs _
  unfold readFile
  cases h : fs.read p with
  | none => exact ⟨(by intro e he; cases he), (by intro b hb; cases hb)⟩
  | some f => exact ⟨(by intro e he; cases he), (by intro b hb; cases hb; exact ⟨hfs, h⟩)⟩
/-- the ghost item may be assumed `OK` afterwards -/
theorem spec_note {pre : FS → Prop} (it : Item) : Spec OK pre P (note it) (fun _ fs => pre fs ∧ OK it) :=
  fun fs hfs hit => ⟨(by intro e he; cases he), (by intro b hb; cases hb; exact ⟨hfs, hit it (List.mem_singleton.mpr rfl)⟩)⟩

/-- weaker forms (state only) -/
theorem spec_isdir' {pre : FS → Prop} (p : Path) : Spec OK pre P (isdir p) (fun _ fs => pre fs) :=
  spec_conseq (spec_isdir p) (fun _ h => h) (fun _ _ h => h.1)
theorem spec_isfile' {pre : FS → Prop} (p : Path) : Spec OK pre P (isfile p) (fun _ fs => pre fs) :=
  spec_conseq (spec_isfile p) (fun _ h => h) (fun _ _ h => h.1)
theorem spec_pexists' {pre : FS → Prop} (p : Path) : Spec OK pre P (pexists p) (fun _ fs => pre fs) :=
  spec_conseq (spec_pexists p) (fun _ h => h) (fun _ _ h => h.1)
theorem spec_readFile' {pre : FS → Prop} (p : Path) : Spec OK pre P (readFile p) (fun _ fs => pre fs) :=
  spec_conseq (spec_readFile p) (fun _ h => h) (fun _ _ h => h.1)
theorem spec_note' {pre : FS → Prop} (it : Item) : Spec OK pre P (note it) (fun _ fs => pre fs) :=
  spec_conseq (spec_note it) (fun _ h => h) (fun _ _ h => h.1)

theorem spec_print {pre : FS → Prop} (s : Str) (h : P (.print s)) :
    Spec OK pre P (print s) (fun _ fs => pre fs) := by
  intro fs hfs _
  refine ⟨?_, (by intro b hb; cases hb; exact hfs)⟩
  intro e he
  have : e = .print s := by simpa [print, effect, Res.leaf] using he
  exact this ▸ h

/-! ### invariant reasoning: `m` keeps `I` and logs only `P`-effects -/

/-- from a file system satisfying `I`, every effect logged by `m` satisfies `P` and `I` still holds when `m` returns -/
def AllEff {α} (OK : Item → Prop) (I : FS → Prop) (P : Effect → Prop) (m : M α) : Prop :=
  Spec OK I P m (fun _ fs => I fs)

variable {I : FS → Prop}

theorem allEff_of_spec {α} {m : M α} {post : α → FS → Prop} (h : Spec OK I P m post) (hp : ∀ a fs, post a fs → I fs) :
    AllEff OK I P m := spec_conseq h (fun _ h => h) hp
theorem allEff_pure {α} (a : α) : AllEff OK I P (pure a : M α) := spec_pure (fun _ h => h)
theorem allEff_raise {α} (e : Err) : AllEff OK I P (raise e : M α) := spec_raise
theorem allEff_bind {α β} {m : M α} {f : α → M β} (hm : AllEff OK I P m) (hf : ∀ a, AllEff OK I P (f a)) :
    AllEff OK I P (m >>= f) := spec_bind hm hf
theorem allEff_ite {α} {c : Prop} [Decidable c] {a b : M α} (ha : c → AllEff OK I P a) (hb : ¬c → AllEff OK I P b) :
    AllEff OK I P (if c then a else b) := spec_ite ha hb
theorem allEff_forEach {α} {body : α → M Unit} (xs : List α) (h : ∀ x, AllEff OK I P (body x)) :
    AllEff OK I P (forEach xs body) := spec_forEach' xs (fun x _ => h x)
theorem allEff_mapM' {α β} {f : α → M β} (xs : List α) (h : ∀ x, AllEff OK I P (f x)) : AllEff OK I P (mapM' xs f) :=
  allEff_of_spec (spec_mapM' (Q := fun _ => True) xs (fun x _ => spec_conseq (h x) (fun _ h => h) (fun _ _ h => ⟨h, trivial⟩)))
    (fun _ _ h => h.1)
theorem allEff_mapErr {α} {m : M α} {g : Err → Err} (h : AllEff OK I P m) : AllEff OK I P (mapErr m g) := spec_mapErr h
theorem allEff_isdir (p : Path) : AllEff OK I P (isdir p) := spec_isdir' p
theorem allEff_isfile (p : Path) : AllEff OK I P (isfile p) := spec_isfile' p
theorem allEff_pexists (p : Path) : AllEff OK I P (pexists p) := spec_pexists' p
theorem allEff_readFile (p : Path) : AllEff OK I P (readFile p) := spec_readFile' p
theorem allEff_note (it : Item) : AllEff OK I P (note it) := spec_note' it
theorem allEff_print (s : Str) (h : P (.print s)) : AllEff OK I P (print s) := spec_print s h

end

/-- one step of structural decomposition of an `AllEff` goal -/
macro "alleff_step" : tactic =>
  `(tactic| first
    | exact allEff_pure _
    | exact allEff_raise _
    | exact allEff_isdir _
    | exact allEff_isfile _
    | exact allEff_pexists _
    | exact allEff_readFile _
    | exact allEff_note _
    | (apply allEff_print; first | rfl | trivial | assumption)
    | apply allEff_mapErr
    | (apply allEff_forEach; intro _)
    | (apply allEff_mapM'; intro _)
    | (apply allEff_bind; rotate_left; intro _; rotate_left)
    | (apply allEff_ite <;> intro _)
    | split)

section
variable {OK : Item → Prop} {P : Effect → Prop} {I : FS → Prop}

/-! ### reading never logs an effect and never changes the file system -/

theorem allEff_findModuleFilepath (env : Env) (mn sub : Option Str) (b : Bool) :
    AllEff OK I P (findModuleFilepath env mn sub b) := by
  unfold findModuleFilepath
  repeat alleff_step

theorem allEff_contentsOfFile (env : Env) (file : Path) : AllEff OK I P (contentsOfFile env file) := by
  unfold contentsOfFile
  repeat (first | exact allEff_findModuleFilepath _ _ _ _ | alleff_step)

theorem allEff_getModuleContents (env : Env) (d : Path) : AllEff OK I P (getModuleContents env d) := by
  unfold getModuleContents
  repeat (first | exact allEff_contentsOfFile _ _ | alleff_step)

/-! ### dry run: every effect is a print, and *any* property of the file system is kept (it never changes) -/

def IsPrint (e : Effect) : Prop := e.isPrint = true

theorem dry_emitSymbol (c : Ctx) (h : c.dryRun = true) (name : Str) (ef ifp : Path) :
    AllEff OK I IsPrint (emitSymbol c name ef ifp) := by
  unfold emitSymbol
  simp only [h, if_true]
  repeat alleff_step

theorem dry_efhPrepare (c : Ctx) (h : c.dryRun = true) (modName : Str) :
    AllEff OK I IsPrint (efhPrepare c modName) := by
  unfold efhPrepare
  simp only [h, if_true]
  repeat alleff_step

theorem dry_efhEmit (c : Ctx) (h : c.dryRun = true) (name : Str) (rel : Path) (irName : Option Str) :
    AllEff OK I IsPrint (efhEmit c name rel irName) := by
  unfold efhEmit
  simp only [h, if_true]
  repeat (first | exact dry_emitSymbol c h _ _ _ | alleff_step)

theorem dry_emitFileOnHierarchy (c : Ctx) (h : c.dryRun = true) (mn key : Str) (orig : Path) (irName : Option Str) :
    AllEff OK I IsPrint (emitFileOnHierarchy c mn key orig irName) := by
  unfold emitFileOnHierarchy
  repeat (first | exact dry_efhPrepare c h _ | exact dry_efhEmit c h _ _ _ | alleff_step)

theorem dry_emitFiles (env : Env) (c : Ctx) (h : c.dryRun = true) (mn : Str) (d : Path) :
    AllEff OK I IsPrint (emitFiles env c mn d) := by
  unfold emitFiles
  repeat (first | exact dry_emitFileOnHierarchy c h _ _ _ _ | exact allEff_getModuleContents _ _ | alleff_step)

theorem dry_singleFolder (r : Run) (h : r.cfg.dryRun = true) (mn : Str) (d o : Path) :
    AllEff OK I IsPrint (singleFolder r mn d o) := by
  unfold singleFolder
  simp only [h, if_true]
  repeat (first | exact dry_emitFiles _ _ rfl _ _ | exact allEff_findModuleFilepath _ _ _ _ | alleff_step)

theorem dry_announceOut (cfg : Cfg) (h : cfg.dryRun = true) : AllEff OK I IsPrint (announceOut cfg) := by
  unfold announceOut
  simp only [h, if_true]
  repeat alleff_step

theorem dry_exmodStr (cfg : Cfg) (env : Env) (h : cfg.dryRun = true) (emit : EmitKind) (announce : Bool) :
    AllEff OK I IsPrint (exmodStr cfg env emit announce) := by
  unfold exmodStr
  simp only [h, Bool.not_true, Bool.and_false, Bool.false_and, Bool.false_eq_true, if_false]
  repeat (first | exact dry_announceOut _ h | exact dry_singleFolder _ (by simp [h]) _ _ _ | exact allEff_findModuleFilepath _ _ _ _ | alleff_step)

theorem dry_exmodCli (cfg : Cfg) (env : Env) (h : cfg.dryRun = true) : AllEff OK I IsPrint (exmodCli cfg env) := by
  unfold exmodCli
  repeat (first | exact dry_exmodStr _ _ h _ _ | alleff_step)

/-! ### a closed gate: the folder visit is a no-op -/

theorem spec_weakenP {α} {P' : Effect → Prop} {pre : FS → Prop} {m : M α} {post : α → FS → Prop}
    (h : Spec OK pre P m post) (hp : ∀ e, P e → P' e) : Spec OK pre P' m post :=
  fun fs hfs hit => ⟨fun e he => hp e ((h fs hfs hit).1 e he), (h fs hfs hit).2⟩

theorem spec_of_allEff_true {α} {pre : FS → Prop} {m : M α} (h : AllEff OK (fun _ => True) P m) :
    Spec OK pre P m (fun _ _ => True) := spec_conseq h (fun _ _ => trivial) (fun _ _ _ => trivial)

theorem allEff_singleFolder_closed (r : Run) (mn : Str) (d o : Path)
    (h : proceed r.cfg.blacklist r.cfg.whitelist (modPathOf r.moduleRoot mn) = false) :
    AllEff OK I P (singleFolder r mn d o) := by
  unfold singleFolder
  simp only [h, Bool.not_false, if_true]
  exact allEff_pure _

/-- with the top folder's gate closed, no recursion and no sqlalchemy submodule, `exmod(<str>)` logs nothing after the
    announcement of the output directory -/
theorem gated_exmodStr (cfg : Cfg) (env : Env) (emit : EmitKind) (announce : Bool) (fs0 : FS)
    (hclosed : proceed cfg.blacklist cfg.whitelist (modPathOf (rpartition cfg.module ['.']).1 cfg.module) = false)
    (hrec : cfg.recursive = false) (hsql : (emit.isSql && cfg.sqlSub) = false) :
    ∀ e ∈ (exmodStr cfg env emit announce fs0).trace, e ∈ (announceOut cfg fs0).trace := by
  have hann : Spec (fun _ => True) (fun fs => fs = fs0) (fun e => e ∈ (announceOut cfg fs0).trace) (announceOut cfg)
      (fun _ _ => True) := by
    intro fs hfs _
    rw [hfs]
    exact ⟨fun e he => he, fun _ _ => trivial⟩
  have key : Spec (fun _ => True) (fun fs => fs = fs0) (fun e => e ∈ (announceOut cfg fs0).trace)
      (exmodStr cfg env emit announce) (fun _ _ => True) := by
    unfold exmodStr
    split
    rename_i moduleRoot _x submodule heq
    have hroot : moduleRoot = (rpartition cfg.module ['.']).1 := by rw [heq]
    simp only [hrec, hsql, Bool.false_and, Bool.false_eq_true, if_false]
    have hsf : ∀ mrd, AllEff (fun _ => True) (fun _ => True) (fun _ => False)
        (singleFolder { cfg := cfg, env := env, emit := emit, moduleRoot := moduleRoot,
                        newModuleName := newModuleNameOf cfg moduleRoot } cfg.module mrd cfg.out) :=
      fun mrd => allEff_singleFolder_closed _ _ _ _ (by rw [hroot]; exact hclosed)
    apply spec_ite
    · intro _
      refine spec_bind (mid := fun _ _ => True) hann (fun _ => ?_)
      refine spec_weakenP (P := fun _ => False) ?_ (fun _ h => h.elim)
      apply spec_of_allEff_true
      repeat (first | exact hsf _ | exact allEff_findModuleFilepath _ _ _ _ | alleff_step)
    · intro _
      refine spec_weakenP (P := fun _ => False) ?_ (fun _ h => h.elim)
      apply spec_of_allEff_true
      repeat (first | exact hsf _ | exact allEff_findModuleFilepath _ _ _ _ | alleff_step)
  exact (key fs0 rfl (fun _ _ => trivial)).1

end
end Exmod
