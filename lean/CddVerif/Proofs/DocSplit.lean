import CddVerif.Model.DocSplit
/-! Lemmas for C15. -/
namespace DocSplit
open Py DocUtils

theorem clampIdx_nonneg (n : Nat) (x : Int) (h : 0 ≤ x) : clampIdx n x = min x.toNat n := by
  unfold clampIdx
  have : ¬ (x < 0) := by omega
  simp only [this, if_false]
  split <;> omega

theorem slice_to (d : Str) (s : Int) (h : 0 ≤ s) : slice d none (some s) = d.take s.toNat := by
  unfold slice
  simp only [clampIdx_nonneg _ _ h, List.drop_zero, Nat.sub_zero]
  rw [List.take_eq_take_iff]; omega

theorem slice_from (d : Str) (l : Int) (h : 0 ≤ l) : slice d (some l) none = d.drop l.toNat := by
  unfold slice
  simp only [clampIdx_nonneg _ _ h]
  rw [List.take_of_length_le (by simp)]
  by_cases hl : l.toNat ≤ d.length
  · rw [Nat.min_eq_left hl]
  · have : d.length ≤ l.toNat := by omega
    rw [Nat.min_eq_right this, List.drop_of_length_le (Nat.le_refl _), List.drop_of_length_le this]

theorem slice_mid (d : Str) (s l : Int) (hs : 0 ≤ s) (hl : 0 ≤ l) :
    slice d (some s) (some l) = (d.drop s.toNat).take (l.toNat - s.toNat) := by
  unfold slice
  simp only [clampIdx_nonneg _ _ hs, clampIdx_nonneg _ _ hl]
  by_cases h1 : s.toNat ≤ d.length
  · rw [Nat.min_eq_left h1]
    rw [List.take_eq_take_iff]
    simp only [List.length_drop]; omega
  · have h1' : d.length ≤ s.toNat := by omega
    rw [Nat.min_eq_right h1', List.drop_of_length_le (Nat.le_refl _), List.drop_of_length_le h1']; simp

theorem slice_all (d : Str) : slice d none none = d := by
  unfold slice; simp

theorem take_mid_drop (d : Str) (a b : Nat) (h : a ≤ b) : d.take a ++ (d.drop a).take (b - a) ++ d.drop b = d := by
  have h1 : (d.drop a).take (b - a) ++ d.drop b = d.drop a := by
    have : d.drop b = (d.drop a).drop (b - a) := by rw [List.drop_drop]; congr 1; omega
    rw [this, List.take_append_drop]
  rw [List.append_assoc, h1, List.take_append_drop]

end DocSplit
