import CddVerif.Proofs.DocRoundTrip
/-!
# Whole-docstring round trip (C01) — the domain as an executable check

`C01Whole.inDomainB : IR → Bool` and its soundness for the proof-side predicate `DocRT.GoodIR`.
All constants are character lists, every function is structurally recursive: `decide` evaluates the check.
-/
namespace C01Whole
open Py Doc DocSplit DocRT

/-- neither a colon nor a character at which `str.splitlines` breaks -/
def plainC (c : Char) : Bool := c != ':' && !isLineBreak c
/-- additionally no backtick (types are wrapped in three backticks) -/
def typC (c : Char) : Bool := c != ':' && c != '`' && !isLineBreak c
/-- no ReST field token (`:param :cvar :ivar :var :type :raises :return :rtype`) occurs in the text -/
def noTokB (s : Str) : Bool := allRestTokens.all (fun t => !contains s t)
/-- one line: no character at which `str.splitlines` breaks -/
def oneLineB (s : Str) : Bool := s.all (fun c => !isLineBreak c)
/-- does not start with a blank -/
def headNSB (s : Str) : Bool := match s.head? with | some c => !isSpaceC c | Option.none => true
/-- does not end with a blank -/
def lastNSB (s : Str) : Bool := match s.getLast? with | some c => !isSpaceC c | Option.none => true

def sKwargs : Str := ['k','w','a','r','g','s']
def sRetName : Str := ['r','e','t','u','r','n','_','t','y','p','e']
def sOptSuffix : Str := [',',' ','o','p','t','i','o','n','a','l']
def sOptionalW : Str := ['O','p','t','i','o','n','a','l']
def sPOptionalW : Str := ['(','O','p','t','i','o','n','a','l',')']
def sDefaultsU : Str := ['D','e','f','a','u','l','t','s']
def sDefaultsL : Str := ['d','e','f','a','u','l','t','s']

/-- **parameter names**: no colon / line break, not `return_type`, no leading `*`, not ending in `kwargs` -/
def goodNameB (n : Str) : Bool := n.all plainC && n != sRetName && !startsWith n ['*'] && !endsWith n sKwargs

/-- **descriptions**: non-empty, one line, no ReST token inside, no blank at either end, no `Defaults`/`defaults`, no announce
    phrase (any of the 8 `DEFAULTS_TO_VARIANTS`, case-insensitively; neither bare nor after `(`), does not start with
    `Optional` or `(Optional)` -/
def goodDescB (d : Str) : Bool :=
  !d.isEmpty && oneLineB d && noTokB d && headNSB d && lastNSB d
  && !contains d sDefaultsU && !contains d sDefaultsL
  && announceVariants.all (fun v => (find (lower d) (lower v)).isNone)
  && announceVariants.all (fun v => !contains (lower d) ('(' :: lower v))
  && !startsWith d sOptionalW && !startsWith d sPOptionalW

/-- **types**: non-empty, one line without colon or backtick, not ending in `, optional` -/
def goodTypB (t : Str) : Bool := !t.isEmpty && t.all typC && !endsWith t sOptSuffix

/-- `<digits>.<digits>` (what `repr` gives for the decimals of the generator) -/
def decimalB (r : Str) : Bool :=
  !(r.takeWhile Char.isDigit).isEmpty &&
  (match r.dropWhile Char.isDigit with
   | '.' :: f => !f.isEmpty && f.all Char.isDigit
   | _ => false)

/-- **defaults**: integers, booleans, non-negative decimals -/
def goodDefaultB : Default → Bool
  | .int _ => true
  | .bool _ => true
  | .float r => decimalB r
  | _ => false

/-- the declared type is not one of `int float complex str bool`, or it is the default's own type -/
def compatB (typ : Option Str) (v : Default) : Bool :=
  match typ with
  | Option.none => true
  | some t => !simpleTypes.contains t || t == tyName v

/-- **one entry** (parameter or return): a good description, an absent or good type, an absent or good default -/
def goodEntryB (p : Param) : Bool :=
  (match p.doc with | some d => goodDescB d | Option.none => false)
  && (match p.typ with | some t => goodTypB t | Option.none => true)
  && (match p.default with | some v => goodDefaultB v && compatB p.typ v | Option.none => true)

/-- **header** (any number of lines): empty, or without a blank at either end and without a ReST token inside -/
def goodHeaderB (h : Str) : Bool := h.isEmpty || (headNSB h && lastNSB h && noTokB h)

def nodupB : List Str → Bool
  | [] => true
  | x :: xs => !xs.contains x && nodupB xs

/-- **the domain of interfaces** -/
def inDomainB (ir : IR) : Bool :=
  goodHeaderB ir.doc
  && ir.params.all (fun np => goodNameB np.1 && goodEntryB np.2)
  && nodupB (ir.params.map (·.1))
  && (match ir.returns with | some rp => goodEntryB rp | Option.none => true)

/-- the domain as a proposition (decidable: a Boolean equation) -/
def InDomain (ir : IR) : Prop := inDomainB ir = true

instance (ir : IR) : Decidable (InDomain ir) := by unfold InDomain; infer_instance

/-! ### soundness of the check -/

theorem plain_all (s : Str) (h : s.all plainC = true) : ∀ c ∈ s, c ≠ ':' ∧ isLineBreak c = false := by
  intro c hc
  have := List.all_eq_true.mp h c hc
  simpa [plainC] using this

theorem noTokB_sound (s : Str) (h : noTokB s = true) : NoTok s := by
  intro t ht
  have := List.all_eq_true.mp h t ht
  simpa using this

theorem oneLineB_sound (s : Str) (h : oneLineB s = true) : NoBreak s := by
  intro c hc
  have := List.all_eq_true.mp h c hc
  simpa using this

theorem headNSB_sound (s : Str) (h : headNSB s = true) : HeadNS s := by
  intro c hc
  unfold headNSB at h
  rw [hc] at h
  simpa using h

theorem lastNSB_sound (s : Str) (h : lastNSB s = true) : LastNS s := by
  intro c hc
  unfold lastNSB at h
  rw [hc] at h
  simpa using h

theorem lit_Defaults : "Defaults".toList = sDefaultsU := by decide
theorem lit_defaults : "defaults".toList = sDefaultsL := by decide
theorem lit_kwargs : "kwargs".toList = sKwargs := by decide
theorem lit_retName : sReturnType = sRetName := by decide
theorem lit_optSuffix : ", optional".toList = sOptSuffix := by decide

theorem not_contains_char (s : Str) (c : Char) (h : (!s.contains c) = true) : c ∉ s := by
  intro hm
  have : s.contains c = true := List.contains_iff_mem.mpr hm
  rw [this] at h; cases h

theorem contains_false_of_find_none (s p : Str) (h : find s p = none) : contains s p = false := by
  have key : ∀ (s : Str) (i : Nat), findFrom p s i = none → contains s p = false := by
    intro s
    induction s with
    | nil =>
      intro i h
      simp only [findFrom] at h
      split at h
      · cases h
      · rename_i hp; simpa [contains] using hp
    | cons c cs ih =>
      intro i h
      simp only [findFrom] at h
      split at h
      · cases h
      · rename_i hp
        simp only [contains, Bool.or_eq_false_iff]
        refine ⟨?_, ih (i + 1) h⟩
        cases hb : p.isPrefixOf (c :: cs) with
        | false => rfl
        | true => exact absurd hb hp
  exact key s 0 h

theorem isPrefixOf_drop_false (X p : Str) (hp : p ≠ []) (h : contains X p = false) (k : Nat) : p.isPrefixOf (X.drop k) = false := by
  induction X generalizing k with
  | nil =>
    cases p with
    | nil => exact absurd rfl hp
    | cons _ _ => simp [List.isPrefixOf]
  | cons x xs ih =>
    simp only [contains, Bool.or_eq_false_iff] at h
    cases k with
    | zero => simpa using h.1
    | succ k => simpa using ih h.2 k

/-- **the technical clause follows from the absence of the announce phrase**: in `lower (baseOf d) ++ " defaults to "` the
    phrase `defaults to ` does not occur before the emitted one, because the completed description ends in `.` or `,` -/
theorem noEarly_of_noAnnounce (d : Str) (h : find (lower d) C01.ann = none) :
    NoEarly C01.ann (lower (C01.baseOf d) ++ [' ']) := by
  have hc := contains_false_of_find_none _ _ h
  -- `lower (baseOf d) ++ " "` is `X ++ [e, ' ']` with `e` a full stop or a comma and no announce phrase in `X`
  obtain ⟨X, e, hpre, he, hX⟩ : ∃ X e, lower (C01.baseOf d) ++ [' '] = X ++ [e, ' '] ∧ (e = '.' ∨ e = ',') ∧ contains X C01.ann = false := by
    unfold C01.baseOf
    cases hg : d.getLast? with
    | none => exact ⟨lower d, '.', by simp [C01.lower_append]; rfl, Or.inl rfl, hc⟩
    | some c =>
      simp only []
      split
      · rename_i hcc
        obtain ⟨ys, rfl⟩ := List.getLast?_eq_some_iff.mp hg
        simp only [Bool.or_eq_true, beq_iff_eq] at hcc
        have hlc : lower (ys ++ [c]) = lower ys ++ [c] := by
          rw [C01.lower_append]
          rcases hcc with rfl | rfl <;> rfl
        rw [hlc] at hc ⊢
        exact ⟨lower ys, c, by simp, hcc, contains_prefix_false _ _ _ hc⟩
      · exact ⟨lower d, '.', by simp [C01.lower_append]; rfl, Or.inl rfl, hc⟩
  rw [hpre]
  intro k hk
  have hne : C01.ann ≠ [] := by decide
  have he' : e ∉ C01.ann := by rcases he with rfl | rfl <;> decide
  by_cases hlt : k < X.length
  · rw [List.drop_append_of_le_length (by omega)]
    have : X.drop k ++ [e, ' '] ++ C01.ann = X.drop k ++ e :: (' ' :: C01.ann) := by simp
    rw [this, isPrefixOf_append_of_notin _ _ _ e he']
    exact isPrefixOf_drop_false X _ hne hX k
  · have hk' : k = X.length ∨ k = X.length + 1 := by
      simp only [List.length_append, List.length_cons, List.length_nil] at hk; omega
    rcases hk' with rfl | rfl
    · rw [List.drop_left]
      rcases he with rfl | rfl <;> decide
    · have : (X ++ [e, ' ']).drop (X.length + 1) = [' '] := by
        rw [List.drop_append]; simp
      rw [this]; decide

theorem goodDesc_sound (d : Str) (h : goodDescB d = true) : GoodDesc d := by
  simp only [goodDescB, Bool.and_eq_true] at h
  obtain ⟨⟨⟨⟨⟨⟨⟨⟨⟨⟨h1, h2⟩, h2'⟩, h3⟩, h4⟩, h5⟩, h6⟩, h7⟩, h8⟩, h10⟩, h11⟩ := h
  have hann : ∀ v ∈ announceVariants, find (lower d) (lower v) = none := by
    intro v hv
    have := List.all_eq_true.mp h7 v hv
    simpa using this
  have hfirst : find (lower d) C01.ann = none := by
    have := hann C01.ann (by decide)
    rw [C01.lower_ann] at this; exact this
  refine ⟨?_, oneLineB_sound d h2, noTokB_sound d h2', headNSB_sound d h3, lastNSB_sound d h4, ?_, ?_, hann, ?_,
    noEarly_of_noAnnounce d hfirst, ?_, ?_⟩
  · rintro rfl; simp at h1
  · rw [lit_Defaults]; simpa using h5
  · rw [lit_defaults]; simpa using h6
  · intro v hv
    have := List.all_eq_true.mp h8 v hv
    simpa using this
  · simpa [sPOptionalW] using h11
  · simpa [sOptionalW] using h10

theorem goodTyp_sound (t : Str) (h : goodTypB t = true) : GoodTyp t := by
  simp only [goodTypB, Bool.and_eq_true] at h
  obtain ⟨⟨h1, h2⟩, h3⟩ := h
  refine ⟨?_, ?_, ?_⟩
  · rintro rfl; simp at h1
  · intro c hc
    have := List.all_eq_true.mp h2 c hc
    simpa [typC, and_assoc] using this
  · rw [lit_optSuffix]; simpa using h3

theorem mem_takeWhile_p {α : Type} (p : α → Bool) (l : List α) : ∀ x ∈ l.takeWhile p, p x = true := by
  induction l with
  | nil => intro x hx; cases hx
  | cons a as ih =>
    intro x hx
    cases hp : p a with
    | false => simp [List.takeWhile_cons, hp] at hx
    | true =>
      simp only [List.takeWhile_cons, hp, if_true, List.mem_cons] at hx
      rcases hx with rfl | hx
      · exact hp
      · exact ih x hx

theorem decimalB_sound (r : Str) (h : decimalB r = true) : DecimalText r := by
  simp only [decimalB, Bool.and_eq_true] at h
  obtain ⟨h1, h2⟩ := h
  have hsplit : r = r.takeWhile Char.isDigit ++ r.dropWhile Char.isDigit := (List.takeWhile_append_dropWhile).symm
  have hdig : ∀ x ∈ r.takeWhile Char.isDigit, x.isDigit = true := mem_takeWhile_p _ _
  cases ha : r.takeWhile Char.isDigit with
  | nil => rw [ha] at h1; cases h1
  | cons c a =>
    rw [ha] at hdig
    cases hr : r.dropWhile Char.isDigit with
    | nil => rw [hr] at h2; cases h2
    | cons x f =>
      rw [hr] at h2
      split at h2
      · rename_i f' heq
        cases heq
        simp only [Bool.and_eq_true] at h2
        refine ⟨c, a, f, ?_, hdig c (by simp), fun y hy => hdig y (by simp [hy]), fun y hy => List.all_eq_true.mp h2.2 y hy, ?_⟩
        · rw [hsplit, ha, hr]
        · rintro rfl; simp at h2
      · cases h2
theorem goodDefault_sound (v : Default) (h : goodDefaultB v = true) : GoodDefault v := by
  cases v with
  | float r => exact decimalB_sound r h
  | int _ => trivial
  | bool _ => trivial
  | str _ => cases h
  | none => cases h
  | code _ => cases h

theorem compat_sound (typ : Option Str) (v : Default) (h : compatB typ v = true) : Compat typ v := by
  intro t ht
  subst ht
  simp only [compatB, Bool.or_eq_true, Bool.not_eq_true', beq_iff_eq] at h
  exact h

theorem goodEntry_sound (p : Param) (h : goodEntryB p = true) : GoodEntry p := by
  simp only [goodEntryB, Bool.and_eq_true] at h
  obtain ⟨⟨h1, h2⟩, h3⟩ := h
  refine ⟨?_, ?_, ?_, ?_⟩
  · intro hn; rw [hn] at h1; cases h1
  · intro d hd; rw [hd] at h1; exact goodDesc_sound d h1
  · intro t ht; rw [ht] at h2; exact goodTyp_sound t h2
  · intro v hv
    rw [hv] at h3
    simp only [Bool.and_eq_true] at h3
    exact ⟨goodDefault_sound v h3.1, compat_sound _ v h3.2⟩

theorem goodName_sound (n : Str) (h : goodNameB n = true) : GoodName n := by
  simp only [goodNameB, Bool.and_eq_true] at h
  obtain ⟨⟨⟨h1, h2⟩, h3⟩, h4⟩ := h
  refine ⟨plain_all n h1, ?_, by simpa using h3, ?_⟩
  · rw [lit_retName]; simpa using h2
  · rw [lit_kwargs]; simpa using h4

theorem nodupB_sound (l : List Str) (h : nodupB l = true) : l.Nodup := by
  induction l with
  | nil => exact List.nodup_nil
  | cons x xs ih =>
    simp only [nodupB, Bool.and_eq_true] at h
    refine List.nodup_cons.mpr ⟨?_, ih h.2⟩
    intro hm
    have : xs.contains x = true := List.contains_iff_mem.mpr hm
    rw [this] at h; exact absurd h.1 (by simp)

/-- **soundness**: an interface accepted by the check satisfies the proof-side domain -/
theorem inDomain_sound (ir : IR) (h : InDomain ir) : GoodIR ir := by
  unfold InDomain at h
  simp only [inDomainB, Bool.and_eq_true] at h
  obtain ⟨⟨⟨h1, h2⟩, h3⟩, h4⟩ := h
  refine ⟨?_, ?_, ?_, nodupB_sound _ h3, ?_⟩
  · simp only [goodHeaderB, Bool.or_eq_true, Bool.and_eq_true] at h1
    rcases h1 with h1 | h1
    · left; cases hd : ir.doc with
      | nil => rfl
      | cons _ _ => rw [hd] at h1; cases h1
    · by_cases hne : ir.doc = []
      · left; exact hne
      · right
        exact ⟨⟨hne, headNSB_sound _ h1.1.1, lastNSB_sound _ h1.1.2⟩, noTokB_sound _ h1.2⟩
  · intro np hnp
    have := List.all_eq_true.mp h2 np hnp
    simp only [Bool.and_eq_true] at this
    exact goodName_sound _ this.1
  · intro np hnp
    have := List.all_eq_true.mp h2 np hnp
    simp only [Bool.and_eq_true] at this
    exact goodEntry_sound _ this.2
  · intro rp hr
    rw [hr] at h4
    exact goodEntry_sound rp h4

end C01Whole
